(* C02 simulation, part 5: exitWith.  `if c exitWith {..}` as a statement ends the scope it stands in with the value of its
   block, whatever follows it in that scope and whatever operands the scope still holds.  The relation zev / zblock extends
   xev / xblock of SimCtl.v: a block now has an outcome (BNorm: ran to its end; BExit: left by exitWith), the bodies of
   call / if-then / if-then-else may be left that way, handlers may nest.  Proved as before: the reference semantics
   computes the outcome (ref_runs_z) and the VM model, on the compiled code, marks the scope as finished, runs the handler
   as a new frame, completes it, completes the abandoned scope with the handler's value and drops everything the scope still
   held (vm_runs_z: ScopeEnds).
   Later parts of the same relation: loops, lazy operators, namespaces, try-catch-throw (zthrow), scopeName / breakOut (zbreak), switch
   (zswitch), and LEAVING A LOOP: a round of forEach / count / apply / select / findIf / for / while left by a throw or by breakOut to a
   scope outside the loop (zloopleave / zileave / zfleave / zwleave with the kind of exit `abr`; machine side Leaves0 / LeavesL) or to
   the name of the round's own scope (ZIterBreak, ZForBreak, ZWhileBreakCond, ZWhileBreakBody). *)
From Coq Require Import String Ascii.
From Coq Require Import ZArith List Bool Lia.
From SqfVerif Require Import Gen.DiagCodes Gen.Overloads VM.VmDefs VM.VmExec VM.RefSem VM.C02Proofs VM.SimDefs VM.SimProofs VM.SimBlock VM.SimCtl VM.SimThrowOps VM.SimBreakOps VM.SimSwitchOps.
Import ListNotations.
Local Open Scope string_scope.
Local Open Scope list_scope.

Inductive bout := BNorm (reg:rvalue) | BExit (v:rvalue).
Definition val_of (o:bout) : rvalue := match o with BNorm reg => res_of reg | BExit v => v end.
Definition oc (o:bout) : outcome := match o with BNorm reg => ONormal reg | BExit v => OExit v end.
(* the two ways a loop is left that reach beyond it: a throw (to a handler outside the loop), breakOut to a scope outside the loop *)
Inductive abr := AThrow (x:rvalue) | ABreak (t:string) (v:rvalue).
Definition oa (a:abr) : outcome := match a with AThrow x => OThrow x | ABreak t v => OBreak t v end.

Inductive lkind := KForEach | KCount | KApply | KSelect | KFindIf.
Definition kvars (k:lkind) (i:nat) (x:rvalue) : list (string*rvalue) :=
  match k with KForEach => [("_foreachindex", RNum (Z.of_nat i)); ("_x", x)] | _ => [("_x", x)] end.
Definition kwith (k:lkind) : bool := match k with KForEach => true | _ => false end.
Definition kinit (k:lkind) : rvalue :=
  match k with KForEach => RNil | KCount => RNum 0 | KApply | KSelect => RArr [] | KFindIf => RNum (-1) end.
(* the step functions of RefSem.eval_binary, verbatim *)
Definition kstep (k:lkind) : rvalue -> nat -> rvalue -> rvalue -> option (bool * rvalue) :=
  match k with
  | KForEach => fun _ _ v _ => Some (true, match v with RNone => RNil | _ => v end)
  | KCount => fun _ _ v acc => match v, acc with
                               | RBool t, RNum c => Some (true, RNum (if t then c + 1 else c)%Z)
                               | RNil, _ => Some (true, acc)
                               | _, _ => None end
  | KSelect => fun x _ v acc => match v, acc with
                                | RBool t, RArr out => Some (true, RArr (if t then out ++ [x] else out))
                                | RNil, _ => Some (true, acc)
                                | _, _ => None end
  | KApply => fun _ _ v acc => match v, acc with RNone, _ => None | _, RArr out => Some (true, RArr (out ++ [v])) | _, _ => None end
  | KFindIf => fun _ i v acc => match v with
                                | RBool true => Some (false, RNum (Z.of_nat i))
                                | RBool false => Some (true, acc)
                                | _ => None end
  end.
(* what the machine's behaviour pops: a boolean for count / select / findIf, any value for apply, nothing for forEach *)
Definition kok (k:lkind) (reg:rvalue) : Prop :=
  match k with KForEach => True | KApply => reg <> RNone | _ => exists t, reg = RBool t end.
(* the behaviour of the loop frame that stands for "array all, round i, accumulated acc" *)
Definition kb (k:lkind) (all:list rvalue) (i:nat) (acc:rvalue) (b:behavior) : Prop :=
  match k, acc with
  | KForEach, _ => b = BForEach (map cv all) i
  | KCount, RNum cnt => b = BCount (map cv all) i cnt
  | KApply, RArr out => b = BApply (map cv all) (map cv out) i
  | KSelect, RArr out => b = BSelect (map cv all) (map cv out) i
  | KFindIf, RNum m => m = (-1)%Z /\ b = BFindIf (map cv all) i
  | _, _ => False end.

Definition kname (k:lkind) : string :=
  match k with KForEach => "foreach" | KCount => "count" | KApply => "apply" | KSelect => "select" | KFindIf => "findif" end.
(* operand order: code then array (forEach, count) or array then code (apply, select, findIf) *)
Definition kca (k:lkind) : bool := match k with KForEach | KCount => true | _ => false end.

(* for "_i" from a to b step c do {..}: the operators that fill in the loop description, the end test of the loop, and the
   loop variable as the body left it (the machine reads it back from the frame: assigning it in the body changes the iteration) *)
Definition for_set (m:string) (fr to st x:Z) : option (Z*Z*Z) :=
  if String.eqb m "from" then Some (x, to, st) else if String.eqb m "to" then Some (fr, x, st)
  else if String.eqb m "step" then Some (fr, to, x) else None.
Definition beyond (to st u:Z) : bool := if Z.leb 0 st then Z.ltb to u else Z.ltb u to.
Definition for_empty (fr to st:Z) : bool := andb (negb (Z.eqb st 0)) (if Z.ltb 0 st then Z.ltb to fr else Z.ltb fr to).
Definition top_var (s:sstate) (k:string) : option rvalue :=
  match st_scopes s with sc :: _ => assoc k (sc_vars sc) | [] => None end.

(* lazy && / and, || / or with a code block on the right: the left value that makes the right side unnecessary *)
Definition lazy_skip (n:string) : option bool :=
  if orb (String.eqb n "&&") (String.eqb n "and") then Some false
  else if orb (String.eqb n "||") (String.eqb n "or") then Some true else None.

(* the namespaces a program can name, and what `private "x"` does to the current scope: a name that is already bound
   there stays as it is, a new one is bound to nil *)
Definition ns_nular (n:string) : option string :=
  if String.eqb n "missionnamespace" then Some "missionNamespace"
  else if String.eqb n "uinamespace" then Some "uiNamespace" else None.
Definition declare (s:sstate) (x:string) : sstate :=
  match st_scopes s with
  | sc :: _ => match assoc (lower x) (sc_vars sc) with Some _ => s | None => bind_here s x RNil end
  | [] => s end.

(* scope names: the name of the innermost scope, and the innermost scope that carries a given name (counted from the top) *)
Definition top_name (s:sstate) : string := match st_scopes s with sc :: _ => sc_name sc | [] => "" end.
Fixpoint find_name (t:string) (l:list scope) (k:nat) : option nat :=
  match l with [] => None | sc :: r => if String.eqb (sc_name sc) t then Some k else find_name t r (S k) end.

(* switch: the bookkeeping of the reference semantics (RefSem.swst) and how the statements of a switch body change it: a label
   `case x` remembers that it matched (fall-through), `case x : {..}` chooses its block when it or a label in front of it matched and
   no block has been chosen yet - the rest of the body is then skipped -, `default {..}` offers its block for the case that nothing
   is chosen.  The case values are pure expressions (relation pev: literals, variables holding data, pure operators). *)
Definition sw_see (sw:swst) (v:rvalue) : swst :=
  {| sw_v := sw_v sw; sw_target := sw_target sw; sw_now := if req true v (sw_v sw) then true else sw_now sw; sw_has := sw_has sw |}.
Definition sw_hit (sw:swst) (blk:list stmt) : swst := {| sw_v := sw_v sw; sw_target := Some blk; sw_now := false; sw_has := true |}.
Definition sw_dflt (sw:swst) (blk:list stmt) : swst :=
  {| sw_v := sw_v sw; sw_target := if sw_has sw then sw_target sw else Some blk; sw_now := sw_now sw; sw_has := sw_has sw |}.
Definition sw_start (v:rvalue) : swst := {| sw_v := v; sw_target := None; sw_now := false; sw_has := false |}.
Inductive zswitch (s:sstate) : list stmt -> swst -> swst -> Prop :=
| ZWNil sw : zswitch s [] sw sw
| ZWLabel n x v st2 rest sw sw' : lower n = "case" -> pev (loc_of s) (glob_of s) x v ->
    zswitch s (st2 :: rest) (sw_see sw v) sw' -> zswitch s (SExpr (EUnary n x) :: st2 :: rest) sw sw'
| ZWCaseSkip c k x blk v rest sw sw' : lower c = ":" -> lower k = "case" -> pev (loc_of s) (glob_of s) x v ->
    andb (negb (sw_has sw)) (sw_now (sw_see sw v)) = false -> zswitch s rest (sw_see sw v) sw' ->
    zswitch s (SExpr (EBinary c (EUnary k x) (ECode blk)) :: rest) sw sw'
| ZWCaseHit c k x blk v rest sw : lower c = ":" -> lower k = "case" -> pev (loc_of s) (glob_of s) x v ->
    andb (negb (sw_has sw)) (sw_now (sw_see sw v)) = true ->
    zswitch s (SExpr (EBinary c (EUnary k x) (ECode blk)) :: rest) sw (sw_hit sw blk)
| ZWDefault n blk rest sw sw' : lower n = "default" -> zswitch s rest (sw_dflt sw blk) sw' ->
    zswitch s (SExpr (EUnary n (ECode blk)) :: rest) sw sw'.

(* the first instruction of a (non-empty) block is a plain push or a variable read: true of every block whose first
   statement does not start with a nular operator; the step that takes a loop round again executes it *)
Definition leaf_first (b:list stmt) : Prop :=
  exists i rest, compile_block b = i :: rest /\ ((exists v, i = IPush v) \/ (exists n, i = IGet n)).

Inductive zev : sstate -> expr -> rvalue -> sstate -> Prop :=
| ZPure s e v : pev (loc_of s) (glob_of s) e v -> zev s e v s
| ZVarL s n v : is_local n = true -> hidden (lower n) = false -> loc_of s (lower n) = Some v -> nonnil v -> zev s (EVar n) v s
| ZVarG s n v : is_local n = false -> glob_of s (lower n) = Some v -> nonnil v -> zev s (EVar n) v s
| ZCode s b : zev s (ECode b) (RCode b) s
| ZArr s l vs s' : zevs s l vs s' -> zev s (EArr l) (RArr vs) s'
| ZUn s n a va v s1 : (forall k, a <> ENum k) -> zev s a va s1 -> pure_unary (lower n) va = Some v -> zev s (EUnary n a) v s1
| ZBin s n a b va vb v s1 s2 : zev s a va s1 -> zev s1 b vb s2 -> pure_binary (lower n) va vb = Some v -> zev s (EBinary n a b) v s2
| ZCallU s n a b s1 out s2 : lower n = "call" -> (forall k, a <> ENum k) -> zev s a (RCode b) s1 ->
    zblock (enter s1 [("_this", this_of s1)]) RNil b out s2 -> zev s (EUnary n a) (val_of out) (pop_scope s2)
| ZCallB s n a x va b s1 s2 out s3 : lower n = "call" -> zev s a va s1 -> nonnil va -> zev s1 x (RCode b) s2 ->
    zblock (enter s2 [("_this", va)]) RNil b out s3 -> zev s (EBinary n a x) (val_of out) (pop_scope s3)
| ZIf s n a c s1 : lower n = "if" -> (forall k, a <> ENum k) -> zev s a (RBool c) s1 -> zev s (EUnary n a) (RIf c) s1
| ZElse s n a b x y s1 s2 : lower n = "else" -> zev s a (RCode x) s1 -> zev s1 b (RCode y) s2 ->
    zev s (EBinary n a b) (RArr [RCode x; RCode y]) s2
| ZThenSkip s n a b x s1 s2 : lower n = "then" -> zev s a (RIf false) s1 -> zev s1 b (RCode x) s2 -> zev s (EBinary n a b) RNil s2
| ZThen s n a b x s1 s2 out s3 : lower n = "then" -> zev s a (RIf true) s1 -> zev s1 b (RCode x) s2 ->
    zblock (enter s2 []) RNil x out s3 -> zev s (EBinary n a b) (val_of out) (pop_scope s3)
| ZThenElse s n a b c x y s1 s2 out s3 : lower n = "then" -> zev s a (RIf c) s1 -> zev s1 b (RArr [RCode x; RCode y]) s2 ->
    zblock (enter s2 []) RNil (if c then x else y) out s3 -> zev s (EBinary n a b) (val_of out) (pop_scope s3)
| ZExitSkip s n a b x s1 s2 : lower n = "exitwith" -> zev s a (RIf false) s1 -> zev s1 b (RCode x) s2 -> zev s (EBinary n a b) RNil s2
(* loops over an array with a code body - forEach, count, apply, select, findIf: one scope per element holding _x (and
   _forEachIndex), an accumulator per kind (ziter); exitWith in the body ends the whole loop with the handler's value *)
| ZLoopEmptyCA s n a x body k s1 s2 : kname k = lower n -> kca k = true -> zev s a (RCode body) s1 -> zev s1 x (RArr []) s2 ->
    zev s (EBinary n a x) (kinit k) s2
| ZLoopEmptyAC s n a x body k s1 s2 : kname k = lower n -> kca k = false -> zev s a (RArr []) s1 -> zev s1 x (RCode body) s2 ->
    zev s (EBinary n a x) (kinit k) s2
| ZLoopCA s n a x body x0 arr k s1 s2 acc s3 : kname k = lower n -> kca k = true -> leaf_first body ->
    zev s a (RCode body) s1 -> zev s1 x (RArr (x0 :: arr)) s2 ->
    ziter k s2 (x0 :: arr) 0 body (kinit k) acc s3 -> zev s (EBinary n a x) acc s3
| ZLoopAC s n a x body x0 arr k s1 s2 acc s3 : kname k = lower n -> kca k = false -> leaf_first body ->
    zev s a (RArr (x0 :: arr)) s1 -> zev s1 x (RCode body) s2 ->
    ziter k s2 (x0 :: arr) 0 body (kinit k) acc s3 -> zev s (EBinary n a x) acc s3
| ZLazySkip s n a b x sk s1 s2 : lazy_skip (lower n) = Some sk -> zev s a (RBool sk) s1 -> zev s1 b (RCode x) s2 ->
    zev s (EBinary n a b) (RBool sk) s2
| ZLazyEnter s n a b x sk s1 s2 out s3 : lazy_skip (lower n) = Some sk -> zev s a (RBool (negb sk)) s1 -> zev s1 b (RCode x) s2 ->
    zblock (enter s2 []) RNil x out s3 -> zev s (EBinary n a b) (val_of out) (pop_scope s3)
| ZForVar s n a var s1 : lower n = "for" -> (forall k, a <> ENum k) -> zev s a (RStr var) s1 -> zev s (EUnary n a) (RFor var 0 0 1) s1
| ZForSet s n a b var fr to st x fr' to' st' s1 s2 : for_set (lower n) fr to st x = Some (fr', to', st') ->
    zev s a (RFor var fr to st) s1 -> zev s1 b (RNum x) s2 -> zev s (EBinary n a b) (RFor var fr' to' st') s2
| ZForSkip s n a b var fr to st body s1 s2 : lower n = "do" -> zev s a (RFor var fr to st) s1 -> zev s1 b (RCode body) s2 ->
    for_empty fr to st = true -> zev s (EBinary n a b) RNil s2
| ZForLoop s n a b var fr to st body s1 s2 acc s3 : lower n = "do" -> zev s a (RFor var fr to st) s1 -> zev s1 b (RCode body) s2 ->
    for_empty fr to st = false -> leaf_first body -> zfor var to st s2 fr true body acc s3 -> zev s (EBinary n a b) acc s3
| ZWhileVal s n a cond s1 : lower n = "while" -> (forall k, a <> ENum k) -> zev s a (RCode cond) s1 -> zev s (EUnary n a) (RWhile cond) s1
| ZWhileLoop s n a b cond body s1 s2 v s3 : lower n = "do" -> zev s a (RWhile cond) s1 -> zev s1 b (RCode body) s2 ->
    leaf_first cond -> leaf_first body -> zwhile cond body s2 true v s3 -> zev s (EBinary n a b) v s3
(* what a program can observe: the markers it logs, in order *)
| ZDiag s n a va t s1 : lower n = "diag_log" -> (forall k, a <> ENum k) -> zev s a va s1 -> nonnil va -> rshow false va = Some t ->
    zev s (EUnary n a) RNil (rmark s1 t)
(* namespaces: with ns do {..} runs the block in a scope of that namespace; getVariable / setVariable read and write the same storage
   that global names resolve to *)
| ZNsNular s n ns : ns_nular (lower n) = Some ns -> zev s (ENular n) (RNs ns) s
| ZWithVal s n a ns s1 : lower n = "with" -> (forall k, a <> ENum k) -> zev s a (RNs ns) s1 -> zev s (EUnary n a) (RWith ns) s1
| ZWithDo s n a b ns body s1 s2 out s3 : lower n = "do" -> zev s a (RWith ns) s1 -> zev s1 b (RCode body) s2 ->
    zblock (push_scope s2 (mk_scope ns [])) RNil body out s3 -> zev s (EBinary n a b) (val_of out) (pop_scope s3)
| ZGetVar s n a b ns x s1 s2 v : lower n = "getvariable" -> zev s a (RNs ns) s1 -> zev s1 b (RStr x) s2 ->
    rns_get s2 ns x = Some v -> v <> RNone -> zev s (EBinary n a b) v s2
| ZGetVarNone s n a b ns x s1 s2 : lower n = "getvariable" -> zev s a (RNs ns) s1 -> zev s1 b (RStr x) s2 ->
    rns_get s2 ns x = None -> zev s (EBinary n a b) RNil s2
| ZSetVar s n a b ns x v s1 s2 : lower n = "setvariable" -> zev s a (RNs ns) s1 -> zev s1 b (RArr [RStr x; v]) s2 ->
    zev s (EBinary n a b) RNil (rns_set s2 ns x v)
| ZPrivate s n a x s1 : lower n = "private" -> (forall k, a <> ENum k) -> zev s a (RStr x) s1 -> hidden (lower x) = false ->
    zev s (EUnary n a) RNil (declare s1 x)
(* try {..} catch {..}: the block runs in a scope of its own; when it is left by a throw (relation zthrow below) the handler runs in
   that scope, emptied, with _exception bound, and its value is the value of the construct *)
| ZTryVal s n a b s1 : lower n = "try" -> (forall k, a <> ENum k) -> zev s a (RCode b) s1 -> zev s (EUnary n a) (RTry b) s1
| ZCatchNorm s n a b body h s1 s2 out s3 : lower n = "catch" -> zev s a (RTry body) s1 -> zev s1 b (RCode h) s2 ->
    zblock (enter s2 []) RNil body out s3 -> zev s (EBinary n a b) (val_of out) (pop_scope s3)
| ZCatchThrow s n a b body h s1 s2 x s3 out s4 : lower n = "catch" -> zev s a (RTry body) s1 -> zev s1 b (RCode h) s2 ->
    zthrow (enter s2 []) RNil body x s3 -> zblock (set_top_vars s3 [("_exception", x)]) RNil h out s4 ->
    zev s (EBinary n a b) (val_of out) (pop_scope s4)
(* scopeName / breakOut: a scope gets its name once; a block left by breakOut "t" (relation zbreak below) ends every scope up to and
   including the innermost one named t, and the construct that opened that scope yields the value handed to breakOut *)
| ZScopeName s n a t s1 sc scs : lower n = "scopename" -> (forall k, a <> ENum k) -> zev s a (RStr t) s1 ->
    st_scopes s1 = sc :: scs -> sc_name sc = "" ->
    zev s (EUnary n a) RNil (with_scopes s1 ({| sc_vars := sc_vars sc; sc_ns := sc_ns sc; sc_name := t |} :: scs))
| ZCallBreak s n a b s1 t v s2 : lower n = "call" -> (forall k, a <> ENum k) -> zev s a (RCode b) s1 ->
    zbreak (enter s1 [("_this", this_of s1)]) RNil b t v s2 -> top_name s2 = t -> zev s (EUnary n a) v (pop_scope s2)
| ZThenBreak s n a b blk s1 s2 t v s3 : lower n = "then" -> zev s a (RIf true) s1 -> zev s1 b (RCode blk) s2 ->
    zbreak (enter s2 []) RNil blk t v s3 -> top_name s3 = t -> zev s (EBinary n a b) v (pop_scope s3)
| ZThenElseBreak s n a b c x0 y0 s1 s2 t v s3 : lower n = "then" -> zev s a (RIf c) s1 -> zev s1 b (RArr [RCode x0; RCode y0]) s2 ->
    zbreak (enter s2 []) RNil (if c then x0 else y0) t v s3 -> top_name s3 = t -> zev s (EBinary n a b) v (pop_scope s3)
(* switch v do {..}: the statements of the body are judged in a scope of their own (zswitch above); then the chosen block, if there is
   one, runs in that scope and its value is the value of the construct *)
| ZSwitchVal s n a v s1 : lower n = "switch" -> (forall k, a <> ENum k) -> zev s a v s1 -> nonnil v -> zev s (EUnary n a) (RSwitch v) s1
| ZSwitchNone s n a b v body s1 s2 sw : lower n = "do" -> zev s a (RSwitch v) s1 -> zev s1 b (RCode body) s2 ->
    zswitch (enter s2 []) body (sw_start v) sw -> (sw_target sw = None \/ sw_target sw = Some []) ->
    zev s (EBinary n a b) RNil s2
| ZSwitchRun s n a b v body s1 s2 sw t ts reg s4 : lower n = "do" -> zev s a (RSwitch v) s1 -> zev s1 b (RCode body) s2 ->
    zswitch (enter s2 []) body (sw_start v) sw -> sw_target sw = Some (t :: ts) -> leaf_first (t :: ts) ->
    zblock (enter s2 []) RNil (t :: ts) (BNorm reg) s4 -> zev s (EBinary n a b) (res_of reg) (pop_scope s4)
(* the chosen block is left early: by exitWith - the switch yields the handler's value -, by breakOut to the name the scope of the switch
   itself carries (scopeName in the block) - the switch yields the value handed over; a throw and breakOut to a scope outside the switch:
   ZLSwitchThrow / ZLSwitchBreak of zloopleave below *)
| ZSwitchExit s n a b v body s1 s2 sw t ts x s4 : lower n = "do" -> zev s a (RSwitch v) s1 -> zev s1 b (RCode body) s2 ->
    zswitch (enter s2 []) body (sw_start v) sw -> sw_target sw = Some (t :: ts) -> leaf_first (t :: ts) ->
    zblock (enter s2 []) RNil (t :: ts) (BExit x) s4 -> zev s (EBinary n a b) x (pop_scope s4)
| ZSwitchBreak s n a b v body s1 s2 sw t ts t0 x s4 : lower n = "do" -> zev s a (RSwitch v) s1 -> zev s1 b (RCode body) s2 ->
    zswitch (enter s2 []) body (sw_start v) sw -> sw_target sw = Some (t :: ts) -> leaf_first (t :: ts) ->
    zbreak (enter s2 []) RNil (t :: ts) t0 x s4 -> top_name s4 = t0 -> zev s (EBinary n a b) x (pop_scope s4)
with zevs : sstate -> list expr -> list rvalue -> sstate -> Prop :=
| ZNil s : zevs s [] [] s
| ZCons s e v s1 l vs s2 : zev s e v s1 -> nonnil v -> zevs s1 l vs s2 -> zevs s (e :: l) (v :: vs) s2
with zstmt : sstate -> rvalue -> stmt -> rvalue -> sstate -> Prop :=
| ZSExprV s reg e v s1 : zev s e v s1 -> zstmt s reg (SExpr e) v s1
| ZSAssign s reg n e v s1 : n <> "" -> hidden (lower n) = false -> zev s e v s1 -> nonnil v ->
    zstmt s reg (SAssign n e) reg (if is_local n then assign_local s1 n v else rns_set s1 (cur_ns_of s1) n v)
| ZSLocal s reg n e v s1 : n <> "" -> zev s e v s1 -> nonnil v -> zstmt s reg (SLocal n e) reg (bind_here s1 n v)
with zblock : sstate -> rvalue -> list stmt -> bout -> sstate -> Prop :=
| ZBNil s reg : zblock s reg [] (BNorm reg) s
| ZBLast s reg st reg1 s1 : zstmt s reg st reg1 s1 -> zblock s reg [st] (BNorm reg1) s1
| ZBCons s reg st reg1 s1 st2 rest out s' :
    zstmt s reg st reg1 s1 -> zblock s1 RNone (st2 :: rest) out s' -> zblock s reg (st :: st2 :: rest) out s'
(* the statement `if c exitWith {..}` with a true condition: the handler runs in its own scope, the rest of this scope does not *)
| ZBExit s reg n l x b s1 s2 out s3 rest : lower n = "exitwith" -> zev s l (RIf true) s1 -> zev s1 x (RCode b) s2 ->
    zblock (enter s2 []) RNil b out s3 -> zblock s reg (SExpr (EBinary n l x) :: rest) (BExit (val_of out)) (pop_scope s3)
(* ... and a statement whose expression is left by an exitWith that stands INSIDE AN OPERAND (relation zexexit below): the scope ends all
   the same, with the handler's value; the operands that were already evaluated are dropped with the scope's part of the operand stack *)
| ZBExitIn s reg e v s1 rest : zexexit s e v s1 -> zblock s reg (SExpr e :: rest) (BExit v) s1
| ZBExitAssign s reg n e v s1 rest : zexexit s e v s1 -> zblock s reg (SAssign n e :: rest) (BExit v) s1
| ZBExitLocal s reg n e v s1 rest : zexexit s e v s1 -> zblock s reg (SLocal n e :: rest) (BExit v) s1
with ziter : lkind -> sstate -> list rvalue -> nat -> list stmt -> rvalue -> rvalue -> sstate -> Prop :=
| ZIterNil k s i body acc : ziter k s [] i body acc acc s
| ZIterCons k s x rest i body acc reg s1 acc1 acc' s' :
    zblock (enter s (kvars k i x)) (match i with O => RNil | _ => RNone end) body (BNorm reg) s1 ->
    kstep k x i reg acc = Some (true, acc1) -> kok k reg ->
    ziter k (pop_scope s1) rest (S i) body acc1 acc' s' -> ziter k s (x :: rest) i body acc acc' s'
| ZIterStop k s x rest i body acc reg s1 acc1 :
    zblock (enter s (kvars k i x)) (match i with O => RNil | _ => RNone end) body (BNorm reg) s1 ->
    kstep k x i reg acc = Some (false, acc1) -> kok k reg -> ziter k s (x :: rest) i body acc acc1 (pop_scope s1)
| ZIterExit k s x rest i body acc v s1 :
    zblock (enter s (kvars k i x)) (match i with O => RNil | _ => RNone end) body (BExit v) s1 ->
    ziter k s (x :: rest) i body acc v (pop_scope s1)
(* breakOut to the name the scope of the round itself carries (scopeName in the body): the whole loop ends with the value *)
| ZIterBreak k s x rest i body acc t v s1 :
    zbreak (enter s (kvars k i x)) (match i with O => RNil | _ => RNone end) body t v s1 -> top_name s1 = t ->
    ziter k s (x :: rest) i body acc v (pop_scope s1)
(* the rounds of a for loop from the value x of the loop variable on *)
with zfor : string -> Z -> Z -> sstate -> Z -> bool -> list stmt -> rvalue -> sstate -> Prop :=
| ZForRound var to st s x (first:bool) body reg s1 y acc' s' :
    zblock (enter s [(lower var, RNum x)]) (if first then RNil else RNone) body (BNorm reg) s1 ->
    hidden (lower var) = false -> top_var s1 (lower var) = Some (RNum y) -> beyond to st (y + st)%Z = false ->
    zfor var to st (pop_scope s1) (y + st)%Z false body acc' s' -> zfor var to st s x first body acc' s'
| ZForLast var to st s x (first:bool) body reg s1 y :
    zblock (enter s [(lower var, RNum x)]) (if first then RNil else RNone) body (BNorm reg) s1 ->
    hidden (lower var) = false -> top_var s1 (lower var) = Some (RNum y) -> beyond to st (y + st)%Z = true ->
    zfor var to st s x first body (res_of reg) (pop_scope s1)
| ZForExit var to st s x (first:bool) body v s1 :
    zblock (enter s [(lower var, RNum x)]) (if first then RNil else RNone) body (BExit v) s1 ->
    zfor var to st s x first body v (pop_scope s1)
| ZForBreak var to st s x (first:bool) body t v s1 :
    zbreak (enter s [(lower var, RNum x)]) (if first then RNil else RNone) body t v s1 -> top_name s1 = t ->
    zfor var to st s x first body v (pop_scope s1)
(* the rounds of a while loop: the condition and the body run in one scope that is emptied before each of them; the loop
   yields nil, or the value an exitWith in the condition or the body leaves it with *)
with zwhile : list stmt -> list stmt -> sstate -> bool -> rvalue -> sstate -> Prop :=
| ZWhileStop cond body s (first:bool) s1 :
    zblock (enter s []) (if first then RNil else RNone) cond (BNorm (RBool false)) s1 -> zwhile cond body s first RNil (pop_scope s1)
| ZWhileRound cond body s (first:bool) s1 reg s2 v s' :
    zblock (enter s []) (if first then RNil else RNone) cond (BNorm (RBool true)) s1 ->
    zblock (set_top_vars s1 []) RNone body (BNorm reg) s2 ->
    zwhile cond body (pop_scope s2) false v s' -> zwhile cond body s first v s'
| ZWhileExitCond cond body s (first:bool) v s1 :
    zblock (enter s []) (if first then RNil else RNone) cond (BExit v) s1 -> zwhile cond body s first v (pop_scope s1)
| ZWhileExitBody cond body s (first:bool) s1 v s2 :
    zblock (enter s []) (if first then RNil else RNone) cond (BNorm (RBool true)) s1 ->
    zblock (set_top_vars s1 []) RNone body (BExit v) s2 -> zwhile cond body s first v (pop_scope s2)
| ZWhileBreakCond cond body s (first:bool) t v s1 :
    zbreak (enter s []) (if first then RNil else RNone) cond t v s1 -> top_name s1 = t -> zwhile cond body s first v (pop_scope s1)
| ZWhileBreakBody cond body s (first:bool) s1 t v s2 :
    zblock (enter s []) (if first then RNil else RNone) cond (BNorm (RBool true)) s1 ->
    zbreak (set_top_vars s1 []) RNone body t v s2 -> top_name s2 = t -> zwhile cond body s first v (pop_scope s2)
(* a block that is left by a throw: the statements in front of the throwing one run normally; the throwing statement is `throw v`,
   `if c throw v`, or a scope construct standing as a statement - call, if-then(-else), a try-catch whose handler throws - whose
   block is left by a throw; the state is the one at the throw, with the scopes between the throw and this block closed *)
with zthrow : sstate -> rvalue -> list stmt -> rvalue -> sstate -> Prop :=
| ZTCons s reg st reg1 s1 st2 rest x s' : zstmt s reg st reg1 s1 -> zthrow s1 RNone (st2 :: rest) x s' -> zthrow s reg (st :: st2 :: rest) x s'
| ZTThrow s reg n e v s1 rest : lower n = "throw" -> (forall k, e <> ENum k) -> zev s e v s1 -> nonnil v ->
    zthrow s reg (SExpr (EUnary n e) :: rest) v s1
| ZTThrowIf s reg n a b v s1 s2 rest : lower n = "throw" -> zev s a (RIf true) s1 -> zev s1 b v s2 -> nonnil v ->
    zthrow s reg (SExpr (EBinary n a b) :: rest) v s2
| ZTCallU s reg n a b s1 x s2 rest : lower n = "call" -> (forall k, a <> ENum k) -> zev s a (RCode b) s1 ->
    zthrow (enter s1 [("_this", this_of s1)]) RNil b x s2 -> zthrow s reg (SExpr (EUnary n a) :: rest) x (pop_scope s2)
| ZTThen s reg n a b blk s1 s2 x s3 rest : lower n = "then" -> zev s a (RIf true) s1 -> zev s1 b (RCode blk) s2 ->
    zthrow (enter s2 []) RNil blk x s3 -> zthrow s reg (SExpr (EBinary n a b) :: rest) x (pop_scope s3)
| ZTThenElse s reg n a b c x0 y0 s1 s2 x s3 rest : lower n = "then" -> zev s a (RIf c) s1 -> zev s1 b (RArr [RCode x0; RCode y0]) s2 ->
    zthrow (enter s2 []) RNil (if c then x0 else y0) x s3 -> zthrow s reg (SExpr (EBinary n a b) :: rest) x (pop_scope s3)
| ZTHandler s reg n a b body h s1 s2 x s3 y s4 rest : lower n = "catch" -> zev s a (RTry body) s1 -> zev s1 b (RCode h) s2 ->
    zthrow (enter s2 []) RNil body x s3 -> zthrow (set_top_vars s3 [("_exception", x)]) RNil h y s4 ->
    zthrow s reg (SExpr (EBinary n a b) :: rest) y (pop_scope s4)
(* a loop standing as a statement, one of whose rounds is left by a throw (relation zloopleave below) *)
| ZTLoop s reg e y s3 rest : zloopleave s e (AThrow y) s3 -> zthrow s reg (SExpr e :: rest) y s3
(* ... and x = e / private _x = e whose expression is left by a throw (raised inside an operand of e: zloopleave) *)
| ZTAssign s reg n e y s3 rest : zloopleave s e (AThrow y) s3 -> zthrow s reg (SAssign n e :: rest) y s3
| ZTLocal s reg n e y s3 rest : zloopleave s e (AThrow y) s3 -> zthrow s reg (SLocal n e :: rest) y s3
(* a block that is left by breakOut to the scope named t, with value v (nil for the unary form): statements that run normally, then
   `breakOut "t"`, `v breakOut "t"`, or a scope construct standing as a statement - call, if-then(-else) - whose own scope is not
   named t and whose block is left that way; the state is the one at the breakOut, the scopes in between closed *)
with zbreak : sstate -> rvalue -> list stmt -> string -> rvalue -> sstate -> Prop :=
| ZKCons s reg st reg1 s1 st2 rest t v s' : zstmt s reg st reg1 s1 -> zbreak s1 RNone (st2 :: rest) t v s' -> zbreak s reg (st :: st2 :: rest) t v s'
| ZKBreak s reg n e t s1 rest : lower n = "breakout" -> (forall k, e <> ENum k) -> zev s e (RStr t) s1 -> t <> "" ->
    zbreak s reg (SExpr (EUnary n e) :: rest) t RNil s1
| ZKBreakV s reg n a b v t s1 s2 rest : lower n = "breakout" -> zev s a v s1 -> nonnil v -> zev s1 b (RStr t) s2 -> t <> "" ->
    zbreak s reg (SExpr (EBinary n a b) :: rest) t v s2
| ZKCallU s reg n a b s1 t v s2 rest : lower n = "call" -> (forall k, a <> ENum k) -> zev s a (RCode b) s1 ->
    zbreak (enter s1 [("_this", this_of s1)]) RNil b t v s2 -> top_name s2 <> t -> zbreak s reg (SExpr (EUnary n a) :: rest) t v (pop_scope s2)
| ZKThen s reg n a b blk s1 s2 t v s3 rest : lower n = "then" -> zev s a (RIf true) s1 -> zev s1 b (RCode blk) s2 ->
    zbreak (enter s2 []) RNil blk t v s3 -> top_name s3 <> t -> zbreak s reg (SExpr (EBinary n a b) :: rest) t v (pop_scope s3)
| ZKThenElse s reg n a b c x0 y0 s1 s2 t v s3 rest : lower n = "then" -> zev s a (RIf c) s1 -> zev s1 b (RArr [RCode x0; RCode y0]) s2 ->
    zbreak (enter s2 []) RNil (if c then x0 else y0) t v s3 -> top_name s3 <> t ->
    zbreak s reg (SExpr (EBinary n a b) :: rest) t v (pop_scope s3)
(* a loop standing as a statement, one of whose rounds is left by breakOut to a scope outside the loop *)
| ZKLoop s reg e t v s3 rest : zloopleave s e (ABreak t v) s3 -> zbreak s reg (SExpr e :: rest) t v s3
| ZKAssign s reg n e t v s3 rest : zloopleave s e (ABreak t v) s3 -> zbreak s reg (SAssign n e :: rest) t v s3
| ZKLocal s reg n e t v s3 rest : zloopleave s e (ABreak t v) s3 -> zbreak s reg (SLocal n e :: rest) t v s3
(* LEAVING A LOOP.  A loop - forEach / count / apply / select / findIf, for, while - is left by a throw or by breakOut when, after
   rounds that run normally, the body (for while: the condition or the body) of a round is left that way (zthrow / zbreak; for breakOut
   the scope of the round is not the named one).  The state is the one at the exit with the scope of the round closed. *)
with zloopleave : sstate -> expr -> abr -> sstate -> Prop :=
| ZLLoopCA s n a x body x0 arr k s1 s2 ab s3 : kname k = lower n -> kca k = true -> leaf_first body ->
    zev s a (RCode body) s1 -> zev s1 x (RArr (x0 :: arr)) s2 ->
    zileave k s2 (x0 :: arr) 0 body (kinit k) ab s3 -> zloopleave s (EBinary n a x) ab s3
| ZLLoopAC s n a x body x0 arr k s1 s2 ab s3 : kname k = lower n -> kca k = false -> leaf_first body ->
    zev s a (RArr (x0 :: arr)) s1 -> zev s1 x (RCode body) s2 ->
    zileave k s2 (x0 :: arr) 0 body (kinit k) ab s3 -> zloopleave s (EBinary n a x) ab s3
| ZLFor s n a b var fr to st body s1 s2 ab s3 : lower n = "do" -> zev s a (RFor var fr to st) s1 -> zev s1 b (RCode body) s2 ->
    for_empty fr to st = false -> leaf_first body -> zfleave var to st s2 fr true body ab s3 -> zloopleave s (EBinary n a b) ab s3
| ZLWhile s n a b cond body s1 s2 ab s3 : lower n = "do" -> zev s a (RWhile cond) s1 -> zev s1 b (RCode body) s2 ->
    leaf_first cond -> leaf_first body -> zwleave cond body s2 true ab s3 -> zloopleave s (EBinary n a b) ab s3
(* ... and switch v do {..} whose chosen block is left by a throw, or by breakOut to a scope outside the switch *)
| ZLSwitchThrow s n a b v body s1 s2 sw t ts y s4 : lower n = "do" -> zev s a (RSwitch v) s1 -> zev s1 b (RCode body) s2 ->
    zswitch (enter s2 []) body (sw_start v) sw -> sw_target sw = Some (t :: ts) -> leaf_first (t :: ts) ->
    zthrow (enter s2 []) RNil (t :: ts) y s4 -> zloopleave s (EBinary n a b) (AThrow y) (pop_scope s4)
| ZLSwitchBreak s n a b v body s1 s2 sw t ts t0 x s4 : lower n = "do" -> zev s a (RSwitch v) s1 -> zev s1 b (RCode body) s2 ->
    zswitch (enter s2 []) body (sw_start v) sw -> sw_target sw = Some (t :: ts) -> leaf_first (t :: ts) ->
    zbreak (enter s2 []) RNil (t :: ts) t0 x s4 -> top_name s4 <> t0 -> zloopleave s (EBinary n a b) (ABreak t0 x) (pop_scope s4)
(* AN EXIT RAISED INSIDE AN OPERAND: an expression is left when an operand is - the operand of a unary operator, the left operand of a
   binary one, an element of an array -, or when it is call {..} / x call {..} / if-then(-else) whose block is left through its scope
   (zscopeleave).  With operands already evaluated and waiting on the operand stack - the right operand of a binary operator, a later
   element of an array - this is stated for breakOut only (ZLBinR, ZELTl): pop_clearing drops the waiting operands with the regions of the
   frames it removes, whereas after a throw they would lie under the handler's nil, which the region invariant (`under`) excludes. *)
| ZLUn s n a ab s1 : (forall k, a <> ENum k) -> zloopleave s a ab s1 -> zloopleave s (EUnary n a) ab s1
| ZLBinL s n a b ab s1 : zloopleave s a ab s1 -> zloopleave s (EBinary n a b) ab s1
| ZLBinR s n a b va t v s1 s2 : zev s a va s1 -> zloopleave s1 b (ABreak t v) s2 -> zloopleave s (EBinary n a b) (ABreak t v) s2
| ZLArr s l ab s1 : zelemsleave s l ab s1 -> zloopleave s (EArr l) ab s1
| ZLCallU s n a b s1 ab s2 : lower n = "call" -> (forall k, a <> ENum k) -> zev s a (RCode b) s1 ->
    zscopeleave s1 [("_this", this_of s1)] b ab s2 -> zloopleave s (EUnary n a) ab s2
| ZLCallB s n a x va b s1 s2 ab s3 : lower n = "call" -> zev s a va s1 -> nonnil va -> zev s1 x (RCode b) s2 ->
    zscopeleave s2 [("_this", va)] b ab s3 -> zloopleave s (EBinary n a x) ab s3
| ZLThen s n a b blk s1 s2 ab s3 : lower n = "then" -> zev s a (RIf true) s1 -> zev s1 b (RCode blk) s2 ->
    zscopeleave s2 [] blk ab s3 -> zloopleave s (EBinary n a b) ab s3
| ZLThenElse s n a b c x0 y0 s1 s2 ab s3 : lower n = "then" -> zev s a (RIf c) s1 -> zev s1 b (RArr [RCode x0; RCode y0]) s2 ->
    zscopeleave s2 [] (if c then x0 else y0) ab s3 -> zloopleave s (EBinary n a b) ab s3
with zileave : lkind -> sstate -> list rvalue -> nat -> list stmt -> rvalue -> abr -> sstate -> Prop :=
| ZILCons k s x rest i body acc reg s1 acc1 ab s' :
    zblock (enter s (kvars k i x)) (match i with O => RNil | _ => RNone end) body (BNorm reg) s1 ->
    kstep k x i reg acc = Some (true, acc1) -> kok k reg ->
    zileave k (pop_scope s1) rest (S i) body acc1 ab s' -> zileave k s (x :: rest) i body acc ab s'
| ZILThrow k s x rest i body acc y s1 :
    zthrow (enter s (kvars k i x)) (match i with O => RNil | _ => RNone end) body y s1 ->
    zileave k s (x :: rest) i body acc (AThrow y) (pop_scope s1)
| ZILBreak k s x rest i body acc t v s1 :
    zbreak (enter s (kvars k i x)) (match i with O => RNil | _ => RNone end) body t v s1 -> top_name s1 <> t ->
    zileave k s (x :: rest) i body acc (ABreak t v) (pop_scope s1)
with zfleave : string -> Z -> Z -> sstate -> Z -> bool -> list stmt -> abr -> sstate -> Prop :=
| ZFLRound var to st s x (first:bool) body reg s1 y ab s' :
    zblock (enter s [(lower var, RNum x)]) (if first then RNil else RNone) body (BNorm reg) s1 ->
    hidden (lower var) = false -> top_var s1 (lower var) = Some (RNum y) -> beyond to st (y + st)%Z = false ->
    zfleave var to st (pop_scope s1) (y + st)%Z false body ab s' -> zfleave var to st s x first body ab s'
| ZFLThrow var to st s x (first:bool) body y s1 :
    zthrow (enter s [(lower var, RNum x)]) (if first then RNil else RNone) body y s1 ->
    zfleave var to st s x first body (AThrow y) (pop_scope s1)
| ZFLBreak var to st s x (first:bool) body t v s1 :
    zbreak (enter s [(lower var, RNum x)]) (if first then RNil else RNone) body t v s1 -> top_name s1 <> t ->
    zfleave var to st s x first body (ABreak t v) (pop_scope s1)
with zwleave : list stmt -> list stmt -> sstate -> bool -> abr -> sstate -> Prop :=
| ZWLRound cond body s (first:bool) s1 reg s2 ab s' :
    zblock (enter s []) (if first then RNil else RNone) cond (BNorm (RBool true)) s1 ->
    zblock (set_top_vars s1 []) RNone body (BNorm reg) s2 ->
    zwleave cond body (pop_scope s2) false ab s' -> zwleave cond body s first ab s'
| ZWLThrowCond cond body s (first:bool) y s1 :
    zthrow (enter s []) (if first then RNil else RNone) cond y s1 -> zwleave cond body s first (AThrow y) (pop_scope s1)
| ZWLBreakCond cond body s (first:bool) t v s1 :
    zbreak (enter s []) (if first then RNil else RNone) cond t v s1 -> top_name s1 <> t ->
    zwleave cond body s first (ABreak t v) (pop_scope s1)
| ZWLThrowBody cond body s (first:bool) s1 y s2 :
    zblock (enter s []) (if first then RNil else RNone) cond (BNorm (RBool true)) s1 ->
    zthrow (set_top_vars s1 []) RNone body y s2 -> zwleave cond body s first (AThrow y) (pop_scope s2)
| ZWLBreakBody cond body s (first:bool) s1 t v s2 :
    zblock (enter s []) (if first then RNil else RNone) cond (BNorm (RBool true)) s1 ->
    zbreak (set_top_vars s1 []) RNone body t v s2 -> top_name s2 <> t -> zwleave cond body s first (ABreak t v) (pop_scope s2)
(* a block in a scope of its own that is left through that scope *)
with zscopeleave : sstate -> list (string*rvalue) -> list stmt -> abr -> sstate -> Prop :=
| ZSLThrow s vars b y s2 : zthrow (enter s vars) RNil b y s2 -> zscopeleave s vars b (AThrow y) (pop_scope s2)
| ZSLBreak s vars b t v s2 : zbreak (enter s vars) RNil b t v s2 -> top_name s2 <> t -> zscopeleave s vars b (ABreak t v) (pop_scope s2)
(* the elements of an array: the first one is left, or - for breakOut - a later one after elements that were evaluated *)
with zelemsleave : sstate -> list expr -> abr -> sstate -> Prop :=
| ZELHd s e l ab s1 : zloopleave s e ab s1 -> zelemsleave s (e :: l) ab s1
| ZELTl s e v l t v0 s1 s2 : zev s e v s1 -> nonnil v -> zelemsleave s1 l (ABreak t v0) s2 -> zelemsleave s (e :: l) (ABreak t v0) s2
(* an expression left by exitWith: `if c exitWith {..}` with a true condition itself, or an operand / an array element that is left that
   way - in any position, whatever operands wait; the state is the one in the scope that ends (the handler's scope closed) *)
with zexexit : sstate -> expr -> rvalue -> sstate -> Prop :=
| ZXHere s n l x b s1 s2 out s3 : lower n = "exitwith" -> zev s l (RIf true) s1 -> zev s1 x (RCode b) s2 ->
    zblock (enter s2 []) RNil b out s3 -> zexexit s (EBinary n l x) (val_of out) (pop_scope s3)
| ZXUn s n a v s1 : (forall k, a <> ENum k) -> zexexit s a v s1 -> zexexit s (EUnary n a) v s1
| ZXBinL s n a b v s1 : zexexit s a v s1 -> zexexit s (EBinary n a b) v s1
| ZXBinR s n a b va v s1 s2 : zev s a va s1 -> zexexit s1 b v s2 -> zexexit s (EBinary n a b) v s2
| ZXArr s l v s1 : zelemsexit s l v s1 -> zexexit s (EArr l) v s1
with zelemsexit : sstate -> list expr -> rvalue -> sstate -> Prop :=
| ZXEHd s e l v s1 : zexexit s e v s1 -> zelemsexit s (e :: l) v s1
| ZXETl s e v0 l v s1 s2 : zev s e v0 s1 -> nonnil v0 -> zelemsexit s1 l v s2 -> zelemsexit s (e :: l) v s2.

Scheme zev_i := Induction for zev Sort Prop
  with zevs_i := Induction for zevs Sort Prop
  with zstmt_i := Induction for zstmt Sort Prop
  with zblock_i := Induction for zblock Sort Prop
  with ziter_i := Induction for ziter Sort Prop
  with zfor_i := Induction for zfor Sort Prop
  with zwhile_i := Induction for zwhile Sort Prop
  with zthrow_i := Induction for zthrow Sort Prop
  with zbreak_i := Induction for zbreak Sort Prop
  with zloopleave_i := Induction for zloopleave Sort Prop
  with zileave_i := Induction for zileave Sort Prop
  with zfleave_i := Induction for zfleave Sort Prop
  with zwleave_i := Induction for zwleave Sort Prop
  with zscopeleave_i := Induction for zscopeleave Sort Prop
  with zelemsleave_i := Induction for zelemsleave Sort Prop
  with zexexit_i := Induction for zexexit Sort Prop
  with zelemsexit_i := Induction for zelemsexit Sort Prop.
Combined Scheme z_ind from zev_i, zevs_i, zstmt_i, zblock_i, ziter_i, zfor_i, zwhile_i, zthrow_i, zbreak_i,
  zloopleave_i, zileave_i, zfleave_i, zwleave_i, zscopeleave_i, zelemsleave_i, zexexit_i, zelemsexit_i.

(* a breakOut that leaves a block names a scope and hands over a value (nil for the unary form) - also through loops *)
Definition abr_ok (a:abr) : Prop := match a with AThrow _ => True | ABreak t v => t <> "" /\ v <> RNone end.
Lemma zexit_facts :
  (forall s e v s', zev s e v s' -> True) /\ (forall s l vs s', zevs s l vs s' -> True) /\
  (forall s reg st reg1 s1, zstmt s reg st reg1 s1 -> True) /\ (forall s reg b out s', zblock s reg b out s' -> True) /\
  (forall k s arr i body acc acc' s', ziter k s arr i body acc acc' s' -> True) /\
  (forall var to st s x first body acc s', zfor var to st s x first body acc s' -> True) /\
  (forall cond body s first v s', zwhile cond body s first v s' -> True) /\
  (forall s reg b x s', zthrow s reg b x s' -> True) /\
  (forall s reg b t v s', zbreak s reg b t v s' -> t <> "" /\ v <> RNone) /\
  (forall s e a s', zloopleave s e a s' -> abr_ok a) /\
  (forall k s arr i body acc a s', zileave k s arr i body acc a s' -> abr_ok a) /\
  (forall var to st s x first body a s', zfleave var to st s x first body a s' -> abr_ok a) /\
  (forall cond body s first a s', zwleave cond body s first a s' -> abr_ok a) /\
  (forall s vars b a s', zscopeleave s vars b a s' -> abr_ok a) /\
  (forall s l a s', zelemsleave s l a s' -> abr_ok a) /\
  (forall s e v s', zexexit s e v s' -> True) /\ (forall s l v s', zelemsexit s l v s' -> True).
Proof.
  apply z_ind; intros; try exact I; try assumption; try (cbn [abr_ok] in *; assumption).
  - (* breakOut "t" *) split; [assumption|discriminate].
  - (* v breakOut "t" *) split; [assumption|match goal with H : nonnil _ |- _ => exact (proj2 H) end].
Qed.
Lemma zbreak_facts s reg b t v s' : zbreak s reg b t v s' -> t <> "" /\ v <> RNone.
Proof. exact (proj1 (proj2 (proj2 (proj2 (proj2 (proj2 (proj2 (proj2 (proj2 zexit_facts)))))))) s reg b t v s'). Qed.

(* a block always ends with a value - also when an exitWith inside an operand ends it *)
Lemma zval_facts :
  (forall s e v s', zev s e v s' -> True) /\ (forall s l vs s', zevs s l vs s' -> True) /\
  (forall s reg st reg1 s1, zstmt s reg st reg1 s1 -> True) /\ (forall s reg b out s', zblock s reg b out s' -> val_of out <> RNone) /\
  (forall k s arr i body acc acc' s', ziter k s arr i body acc acc' s' -> True) /\
  (forall var to st s x first body acc s', zfor var to st s x first body acc s' -> True) /\
  (forall cond body s first v s', zwhile cond body s first v s' -> True) /\
  (forall s reg b x s', zthrow s reg b x s' -> True) /\
  (forall s reg b t v s', zbreak s reg b t v s' -> True) /\
  (forall s e a s', zloopleave s e a s' -> True) /\
  (forall k s arr i body acc a s', zileave k s arr i body acc a s' -> True) /\
  (forall var to st s x first body a s', zfleave var to st s x first body a s' -> True) /\
  (forall cond body s first a s', zwleave cond body s first a s' -> True) /\
  (forall s vars b a s', zscopeleave s vars b a s' -> True) /\
  (forall s l a s', zelemsleave s l a s' -> True) /\
  (forall s e v s', zexexit s e v s' -> v <> RNone) /\ (forall s l v s', zelemsexit s l v s' -> v <> RNone).
Proof.
  apply z_ind; intros; try exact I; cbn [val_of] in *; try assumption;
    match goal with |- res_of ?r <> _ => destruct r; discriminate end.
Qed.
Lemma zblock_val s reg b out s' : zblock s reg b out s' -> val_of out <> RNone.
Proof. exact (proj1 (proj2 (proj2 (proj2 zval_facts))) s reg b out s'). Qed.
Lemma kstep_not_none k x i reg acc c a1 : kstep k x i reg acc = Some (c, a1) -> acc <> RNone -> a1 <> RNone.
Proof.
  destruct k; cbn [kstep]; intros H N.
  - inversion H; subst. destruct reg; discriminate.
  - destruct reg; try discriminate H; [inversion H; subst; exact N|destruct acc; try discriminate H; inversion H; discriminate].
  - destruct reg; try discriminate H; destruct acc; try discriminate H; inversion H; discriminate.
  - destruct reg; try discriminate H; [inversion H; subst; exact N|destruct acc; try discriminate H; inversion H; discriminate].
  - destruct reg as [| |[|]| | | | | | | | | | |]; try discriminate H; inversion H; subst; [discriminate|exact N].
Qed.
Lemma ziter_val k s arr i body acc acc' s' : ziter k s arr i body acc acc' s' -> acc <> RNone -> acc' <> RNone.
Proof.
  induction 1; intros N; [exact N| | | |].
  - apply IHziter. eapply kstep_not_none; eassumption.
  - eapply kstep_not_none; eassumption.
  - match goal with H : zblock _ _ _ (BExit _) _ |- _ => exact (zblock_val _ _ _ _ _ H) end.
  - match goal with H : zbreak _ _ _ _ _ _ |- _ => exact (proj2 (zbreak_facts _ _ _ _ _ _ H)) end.
Qed.

Lemma zfor_val var to st s x first body acc s' : zfor var to st s x first body acc s' -> acc <> RNone.
Proof.
  induction 1; [assumption|destruct reg; discriminate| |].
  - match goal with H : zblock _ _ _ (BExit _) _ |- _ => exact (zblock_val _ _ _ _ _ H) end.
  - match goal with H : zbreak _ _ _ _ _ _ |- _ => exact (proj2 (zbreak_facts _ _ _ _ _ _ H)) end.
Qed.

Lemma zwhile_val cond body s first v s' : zwhile cond body s first v s' -> v <> RNone.
Proof.
  induction 1; try discriminate; try assumption;
    try (match goal with H : zbreak _ _ _ _ ?v _ |- ?v <> _ => exact (proj2 (zbreak_facts _ _ _ _ _ _ H)) end);
    match goal with H : zblock _ _ _ (BExit ?v) _ |- ?v <> _ => exact (zblock_val _ _ _ _ _ H) end.
Qed.

Lemma zev_not_none s e v s' : zev s e v s' -> v <> RNone.
Proof.
  destruct 1; try discriminate;
    try (match goal with H : zwhile _ _ _ _ _ _ |- _ => exact (zwhile_val _ _ _ _ _ _ H) end);
    try (match goal with H : ?v <> RNone |- ?v <> RNone => exact H end);
    try (match goal with H : zbreak _ _ _ _ _ _ |- _ => exact (proj2 (zbreak_facts _ _ _ _ _ _ H)) end);
    try (match goal with H : nonnil _ |- _ => exact (proj2 H) end);
    try (match goal with H : zblock _ _ _ _ _ |- _ => exact (zblock_val _ _ _ _ _ H) end);
    try (match goal with H : ziter ?k _ _ _ _ _ _ _ |- _ => apply (ziter_val _ _ _ _ _ _ _ _ H); destruct k; discriminate end);
    try (match goal with |- kinit ?k <> _ => destruct k; discriminate end);
    try (match goal with H : zfor _ _ _ _ _ _ _ _ _ |- _ => exact (zfor_val _ _ _ _ _ _ _ _ _ H) end).
  - match goal with H : pev _ _ _ _ |- _ => exact (proj2 (data_not_nil _ (pev_data _ _ _ _ H))) end.
  - match goal with H : pure_unary _ _ = Some _ |- _ => intros ->; exact (pure_unary_nonnil _ _ _ H eq_refl) end.
  - match goal with H : pure_binary _ _ _ = Some _ |- _ => intros ->; exact (pure_binary_nonnil _ _ _ _ H eq_refl) end.
Qed.

(* ---------------------------------------------------------------- the machine: a block in a frame, to the end of that frame's code *)
(* the running frame f executes `code`, which reaches to the end of its instructions.  Normal outcome: the frame stands at its
   end, its region holds the block's value, nothing is completed yet (what happens next depends on the frame: a plain scope
   completes, a loop goes round).  exitWith: the frame is gone and the handler's value stands on what was below it. *)
Definition BodyEnds (s:sstate) (reg:rvalue) (code:list instr) (out:bout) (s':sstate) : Prop :=
  forall r c f fc rest below pre, AtM s reg r c f (fc :: rest) below -> Fresh c below ->
    f_code f = pre ++ code -> f_pos f = length pre -> f_base fc <= length below ->
    match out with
    | BNorm reg' => exists r' c' f' rest', Steps r r' /\ AtM s' reg' r' c' f' rest' below /\ moved f f' /\
                      f_pos f' = length (f_code f) /\ Forall2 kept (fc :: rest) rest'
    | BExit v => exists r' c' fc' rest', Steps r r' /\ Mach (pop_scope s') r' c' fc' rest' /\
                      c_values c' = cv v :: below /\ kept fc fc' /\ Forall2 kept rest rest'
    end.
(* for a plain scope (no exit behaviour) both outcomes end with the frame gone and one value handed over *)
Definition ScopeEnds (s:sstate) (reg:rvalue) (code:list instr) (out:bout) (s':sstate) : Prop :=
  forall r c f fc rest below pre, AtM s reg r c f (fc :: rest) below -> Fresh c below ->
    f_code f = pre ++ code -> f_pos f = length pre -> f_exit f = None -> f_base fc <= length below ->
    exists r' c' fc' rest', Steps r r' /\ Mach (pop_scope s') r' c' fc' rest' /\
      c_values c' = cv (val_of out) :: below /\ kept fc fc' /\ Forall2 kept rest rest'.

Lemma kept_base f f' : kept f f' -> f_base f' = f_base f. Proof. intros H. rewrite <- H. reflexivity. Qed.
Lemma kept_code f f' : kept f f' -> f_code f' = f_code f. Proof. intros H. rewrite <- H. reflexivity. Qed.
Lemma kept_exit f f' : kept f f' -> f_exit f' = f_exit f. Proof. intros H. rewrite <- H. reflexivity. Qed.
Lemma kept_die f f' : kept f f' -> f_die f' = f_die f. Proof. intros H. rewrite <- H. reflexivity. Qed.
Lemma kept_ns f f' : kept f f' -> f_ns f' = f_ns f. Proof. intros H. rewrite <- H. reflexivity. Qed.
Lemma moved_die f f' : moved f f' -> f_die f' = f_die f. Proof. intros H. rewrite <- H. reflexivity. Qed.
Lemma moved_ns f f' : moved f f' -> f_ns f' = f_ns f. Proof. intros H. rewrite <- H. reflexivity. Qed.

(* a frame marked as finished by exitWith (position behind its last instruction, die flag) completes whatever its exit behaviour *)
Lemma complete_dead r c f fc rest top vals :
  Good r c -> quirks r = ([], 0) -> c_frames c = f :: fc :: rest -> f_pos f = S (length (f_code f)) -> f_die f = true ->
  c_values c = top ++ vals -> length vals = f_base f ->
  let c4 := set_values (set_frames c (fc :: rest)) (match top with [] => VNil | x :: _ => x end :: vals) in
  Steps r (upd_cur r c4) /\ Good (upd_cur r c4) c4.
Proof.
  intros G D EF EP ED EV LB c4. pose proof G as (C & X & St & E & M & MR & SU).
  split; [|apply (good_upd r c c4 G); exact SU].
  apply steps_cont_upd.
  unfold do_iter. rewrite X, C, SU, EF, St.
  destruct frame_fuel_S as [k Hk]. rewrite Hk. cbn [frame_next]. rewrite EF.
  assert (A1 : at_end f = true) by (unfold at_end; apply Nat.eqb_eq; lia).
  rewrite A1.
  assert (FN : match f_exit f with
               | Some b => if andb (at_end f) (negb (f_die f)) then bindr (enact b r (set_frames c (f :: fc :: rest))) (fun _ => UB "") else Ok (FDone, r, set_frames c (f :: fc :: rest))
               | None => Ok (FDone, r, set_frames c (f :: fc :: rest)) end = Ok (FDone, r, set_frames c (f :: fc :: rest))).
  { destruct (f_exit f); [rewrite A1, ED; reflexivity|reflexivity]. }
  destruct (f_exit f) as [b|]; [rewrite A1, ED; cbn [andb negb]|]; cbn [bindr]; rewrite E;
    cbn [c_frames set_frames length]; rewrite Nat.eqb_refl; unfold defect; rewrite (quirks_defects _ D); cbn [existsb];
    set (c1 := set_frames c (f :: fc :: rest));
    (destruct top as [|x top];
     [ cbn [app] in EV;
       assert (P : pop_value c1 = None) by
         (unfold pop_value; cbn [c_values c1 set_frames c_frames]; rewrite EV; destruct vals as [|v0 vals0]; [reflexivity|];
          destruct (Nat.leb_spec (length (v0 :: vals0)) (f_base f)) as [L|L]; [reflexivity|lia]);
       rewrite P; unfold clear_values, pop_frame; cbn [c_frames c1 set_frames c_values tl set_values];
       rewrite EV, LB, Nat.sub_diag; cbn [skipn]; unfold push_value; subst c4; cbn; reflexivity
     | cbn [app] in EV;
       assert (P : pop_value c1 = Some (x, set_values c1 (top ++ vals))) by
         (apply (pop_value_top c1 f (fc :: rest)); [reflexivity|exact EV|rewrite app_length; lia]);
       rewrite P; unfold clear_values, pop_frame; cbn [c_frames c1 set_frames c_values tl set_values];
       rewrite app_length, <- LB; replace (length top + length vals - length vals) with (length top) by lia;
       rewrite skipn_app, skipn_all, Nat.sub_diag; cbn [skipn app]; unfold push_value; cbn; reflexivity ]).
Qed.

(* the running frame has executed all its instructions and has no exit behaviour: it completes *)
Lemma finish_scope s reg r c f fc rest below :
  AtM s reg r c f (fc :: rest) below -> f_pos f = length (f_code f) -> f_exit f = None -> f_base fc <= length below ->
  exists r' c', Steps r r' /\ Mach (pop_scope s) r' c' fc rest /\ c_values c' = cv (res_of reg) :: below.
Proof.
  intros ((G & EF & M & B & D) & LB & top & EV & RR) EP EX HB.
  destruct (complete_run r c f fc rest top below G D EF EP EX EV LB) as [S1 G1].
  eexists _, _. split; [exact S1|]. split.
  - split; [exact G1|]. split; [reflexivity|]. split.
    + apply match_upd. destruct M as [F N]. split; [|exact N]. inversion F as [|sc f0 scs fs FM F' E1 E2]; subst. cbn. rewrite <- E1. cbn. exact F'.
    + split; [cbn; lia|rewrite quirks_upd_cur; exact D].
  - cbn. f_equal. destruct top as [|x top]; cbn in RR.
    + rewrite RR. reflexivity.
    + destruct RR as (-> & NN & _). destruct reg; reflexivity.
Qed.

Lemma scope_ends_of_body s reg code out s' : BodyEnds s reg code out s' -> ScopeEnds s reg code out s'.
Proof.
  intros BE r c f fc rest below pre A FR EC EP EX HB. specialize (BE r c f fc rest below pre A FR EC EP HB).
  destruct out as [reg'|v]; [|exact BE].
  destruct BE as (r1 & c1 & f1 & rest1 & S1 & A1 & MV1 & P1 & K1).
  inversion K1 as [|fa fc1 ra rest1' Ka Kb Ea Eb]; subst.
  destruct (finish_scope s' reg' r1 c1 f1 fc1 rest1' below A1) as (r2 & c2 & S2 & M2 & EV2).
  { rewrite P1, (moved_code _ _ MV1). reflexivity. } { rewrite (moved_exit _ _ MV1). exact EX. } { rewrite (kept_base _ _ Ka). exact HB. }
  exists r2, c2, fc1, rest1'. split; [eapply steps_trans; eassumption|]. split; [exact M2|]. split; [exact EV2|]. split; assumption.
Qed.

(* enter a block as a new frame and let it end *)
Lemma scope_run_z s vars b out s3 r1 c0 fc rest :
  ScopeEnds (enter s vars) RNil (compile_block b) out s3 ->
  let newf := mk_frame (cur_ns c0) (compile_block b) None None (mvars vars) in
  let c1 := push_value (push_frame c0 newf) VNil in
  Good r1 c1 -> quirks r1 = ([], 0) -> c_frames c0 = fc :: rest -> Match s r1 (fc :: rest) -> f_base fc <= length (c_values c0) ->
  exists r' c' fc' rest', Steps r1 r' /\ Mach (pop_scope s3) r' c' fc' rest' /\ c_values c' = cv (val_of out) :: c_values c0 /\
    kept fc fc' /\ Forall2 kept rest rest'.
Proof.
  intros SE newf c1 G D EF M B.
  set (nf := set_base newf (length (c_values c0))).
  assert (A : AtM (enter s vars) RNil r1 c1 nf (fc :: rest) (c_values c0)).
  { split.
    - split; [exact G|]. split; [cbn; rewrite EF; reflexivity|]. split.
      + destruct M as [F N]. split; [|exact N]. cbn. constructor; [|exact F].
        split; [apply vars_match_mvars|split; [|split; reflexivity]]. cbn. unfold cur_ns. rewrite EF. inversion F as [|sc f0 scs fs (V & NS & BB) F' E1 E2]; subst.
        unfold cur_ns_of. rewrite <- E1. exact NS.
      + split; [cbn; lia|exact D].
    - split; [reflexivity|]. exists [VNil]. split; [reflexivity|]. split; [reflexivity|]. split; [discriminate|nil_case]. }
  exact (SE r1 c1 nf fc rest (c_values c0) [] A (fresh_one c1 (c_values c0) eq_refl) eq_refl eq_refl eq_refl B).
Qed.

Lemma compile_block_cons2 st st2 b : compile_block (st :: st2 :: b) = compile_stmt st ++ IEnd :: compile_block (st2 :: b).
Proof. reflexivity. Qed.
Lemma compile_block_exit n l x rest : compile_block (SExpr (EBinary n l x) :: rest) =
  compile_expr l ++ compile_expr x ++ [IBinary (lower n)] ++ compile_block_from false rest.
Proof. unfold compile_block. cbn [compile_block_from compile_stmt app]. rewrite compile_binary, <- !app_assoc. reflexivity. Qed.

(* ---------------------------------------------------------------- loops: the pass that goes round *)
Lemma frame_fuel_SS : exists k, frame_fuel = S (S k).
Proof. destruct frame_fuel as [|[|k]] eqn:E; [exfalso; unfold frame_fuel in E; lia|exfalso; unfold frame_fuel in E; lia|eauto]. Qed.

Lemma virtual_start r rv r' : do_iter r = do_iter rv -> cfg_same r rv -> Steps rv r' -> r' <> rv -> Steps r r'.
Proof.
  intros E CF S N. inversion S; subst; [contradiction| |].
  - eapply StepsExec; [rewrite E; eassumption|eapply cfg_trans; eassumption|assumption].
  - eapply StepsCont; [rewrite E; eassumption|eapply cfg_trans; eassumption|assumption].
Qed.

Lemma logmsg_upd_cur r a d : logmsg (upd_cur r a) d = upd_cur (logmsg r d) a.
Proof.
  unfold logmsg, upd_cur. destruct (Z.leb (fst d) 1); destruct (r_active r) eqn:A; cbn; rewrite ?A; reflexivity.
Qed.
Lemma err_upd_cur r c : r_err (upd_cur r c) = r_err r.
Proof. unfold upd_cur. destruct (r_active r); reflexivity. Qed.
Lemma err_logmsg_warn r c : r_err (upd_cur (logmsg r d_VariableNotFound) c) = r_err r.
Proof. rewrite err_upd_cur. reflexivity. Qed.
Lemma ns_get_upd_cur r c ns n : ns_get (upd_cur r c) ns n = ns_get r ns n.
Proof. unfold ns_get. rewrite nss_upd_cur. reflexivity. Qed.

(* the loop frame at the start of a round: position 0, the new behaviour, the new variables *)
Definition round_frame (f:frame) (b':behavior) (vars:list (string*value)) : frame :=
  set_vars (set_scope (set_pos (set_exit f (Some b')) 0) "") vars.      (* a new scope: no name *)

(* what the frame's behaviour does when the body has run out and another round follows: it asks for a restart, and after
   frame::next has reset the position the context is the one at the start of the next round *)
Definition goes_round (r:rt) (c:context) (f:frame) (rest0:list frame) (b b':behavior) (vars:list (string*value)) (below:list value) : Prop :=
  exists c2, enact b r (set_frames c (set_pos f (S (f_pos f)) :: rest0)) = Ok (BrSeekStart, b', r, c2) /\
    clear_values (upd_top (upd_top c2 (fun f0 => set_exit f0 (Some b'))) (fun f0 => set_scope (set_pos f0 0) "")) =
    set_values (set_frames c (round_frame f b' vars :: rest0)) below.

(* the pass that finds the loop body finished, takes the next element and executes the first instruction of the new round *)
Lemma loop_step_real r c f rest0 b b' vars i0 code' below r3 c5 :
  Good r c -> c_frames c = f :: rest0 -> f_pos f = length (f_code f) -> f_exit f = Some b -> f_die f = false ->
  f_code f = i0 :: code' -> goes_round r c f rest0 b b' vars below ->
  exec_instr i0 r (set_values (set_frames c (set_pos (round_frame f b' vars) 1 :: rest0)) below) = Ok (r3, c5) ->
  r_err (upd_cur r3 c5) = false ->
  do_iter r = Ok (Executed (set_msgs (upd_cur r3 c5) [])).
Proof.
  intros G EF EP EX ED EC (c2 & HE & HC) EI NErr. pose proof G as (C & X & St & E & M & MR & SU).
  unfold do_iter. rewrite X, C, SU, EF, St.
  destruct frame_fuel_SS as [k Hk]. rewrite Hk.
  cbn [frame_next]. rewrite EF.
  assert (A1 : at_end f = false) by (unfold at_end; apply Nat.eqb_neq; lia).
  assert (A2 : at_end (set_pos f (S (f_pos f))) = true) by (unfold at_end; cbn; apply Nat.eqb_eq; lia).
  rewrite A1, A2. cbn [f_exit set_pos f_die]. rewrite EX, ED. cbn [andb negb].
  rewrite HE. cbn [bindr]. rewrite HC.
  assert (TE : top_code_empty (set_values (set_frames c (round_frame f b' vars :: rest0)) below) = false).
  { unfold top_code_empty. cbn [c_frames set_values set_frames round_frame f_code set_vars set_scope set_pos set_exit]. rewrite EC. reflexivity. }
  rewrite TE. cbn [c_frames set_values set_frames].
  assert (B1 : at_end (round_frame f b' vars) = false) by (unfold at_end; reflexivity).
  assert (B2 : at_end (set_pos (round_frame f b' vars) (S (f_pos (round_frame f b' vars)))) = false).
  { unfold at_end. cbn [f_pos f_code round_frame set_vars set_pos set_exit set_scope]. rewrite EC. reflexivity. }
  rewrite B1, B2. cbn [f_exit set_pos round_frame set_vars set_exit andb set_scope]. cbn [bindr]. rewrite E.
  unfold current_instr. cbn [c_frames set_frames set_values f_code f_pos set_pos set_vars set_exit round_frame Nat.sub set_scope].
  rewrite EC. cbn [nth_error]. rewrite MR. cbn [Z.eqb].
  match goal with |- context [exec_instr i0 r ?x] => replace x with (set_values (set_frames c (set_pos (round_frame f b' vars) 1 :: rest0)) below) by (destruct c; reflexivity) end.
  rewrite EI. cbn [bindr]. rewrite NErr. reflexivity.
Qed.

Lemma loop_back r c f rest0 b b' vars i0 code' below :
  Good r c -> c_frames c = f :: rest0 -> f_pos f = length (f_code f) -> f_exit f = Some b -> f_die f = false ->
  f_code f = i0 :: code' -> ((exists v, i0 = IPush v) \/ (exists n, i0 = IGet n)) ->
  goes_round r c f rest0 b b' vars below ->
  do_iter r = do_iter (upd_cur r (set_values (set_frames c (round_frame f b' vars :: rest0)) below)).
Proof.
  intros G EF EP EX ED EC LF GR. pose proof G as (C & X & St & E & M & MR & SU).
  set (fV := round_frame f b' vars). set (cV := set_values (set_frames c (fV :: rest0)) below).
  assert (GV : Good (upd_cur r cV) cV) by (apply (good_upd r c cV G); exact SU).
  set (cin := set_values (set_frames c (set_pos fV 1 :: rest0)) below).
  assert (NV : nth_error (f_code fV) (f_pos fV) = Some i0) by (cbn; rewrite EC; reflexivity).
  assert (EVr : forall r3 c5, exec_instr i0 (upd_cur r cV) cin = Ok (r3, c5) -> r_err (upd_cur r3 c5) = false ->
            do_iter (upd_cur r cV) = Ok (Executed (set_msgs (upd_cur r3 c5) []))).
  { intros r3 c5 H1 H2. apply (step_instr (upd_cur r cV) cV fV rest0 i0 r3 c5 GV eq_refl NV); [exact H1|exact H2]. }
  assert (ERr : forall r3 c5, exec_instr i0 r cin = Ok (r3, c5) -> r_err (upd_cur r3 c5) = false ->
            do_iter r = Ok (Executed (set_msgs (upd_cur r3 c5) []))).
  { intros r3 c5 H1 H2. eapply loop_step_real; eauto. }
  destruct LF as [[v ->]|[n ->]].
  - rewrite (ERr r (push_value cin v)); [|reflexivity|rewrite err_upd_cur; exact E].
    rewrite (EVr (upd_cur r cV) (push_value cin v)); [|reflexivity|rewrite !err_upd_cur; exact E].
    rewrite upd_cur_twice. reflexivity.
  - cbn [exec_instr] in EVr, ERr. destruct (is_local n).
    + destruct (get_variable cin n) as [v|].
      * rewrite (ERr r (push_value cin v)); [|reflexivity|rewrite err_upd_cur; exact E].
        rewrite (EVr (upd_cur r cV) (push_value cin v)); [|reflexivity|rewrite !err_upd_cur; exact E].
        rewrite upd_cur_twice. reflexivity.
      * rewrite (ERr _ _ eq_refl); [|rewrite err_logmsg_warn; exact E].
        rewrite (EVr _ _ eq_refl); [|rewrite err_logmsg_warn, err_upd_cur; exact E].
        rewrite logmsg_upd_cur, upd_cur_twice. reflexivity.
    + cbn [c_frames cin set_values set_frames] in EVr, ERr. rewrite ns_get_upd_cur in EVr.
      destruct (ns_get r (f_ns (set_pos fV 1)) n) as [v|].
      * rewrite (ERr r (push_value cin v)); [|reflexivity|rewrite err_upd_cur; exact E].
        rewrite (EVr (upd_cur r cV) (push_value cin v)); [|reflexivity|rewrite !err_upd_cur; exact E].
        rewrite upd_cur_twice. reflexivity.
      * rewrite (ERr _ _ eq_refl); [|rewrite err_logmsg_warn; exact E].
        rewrite (EVr _ _ eq_refl); [|rewrite err_logmsg_warn, err_upd_cur; exact E].
        rewrite logmsg_upd_cur, upd_cur_twice. reflexivity.
Qed.

(* what the behaviour does when the loop is over: it lets the frame complete; the frame's value is the top of what
   the behaviour leaves in the region (nil if nothing) *)
Definition loop_over (r:rt) (c:context) (f:frame) (rest0:list frame) (b:behavior) (top2 vals:list value) : Prop :=
  exists b', enact b r (set_frames c (set_pos f (S (f_pos f)) :: rest0)) =
             Ok (BrOk, b', r, set_values (set_frames c (set_pos f (S (f_pos f)) :: rest0)) (top2 ++ vals)).

Lemma complete_loop r c f fc rest b top2 vals :
  Good r c -> quirks r = ([], 0) -> c_frames c = f :: fc :: rest -> f_pos f = length (f_code f) ->
  f_exit f = Some b -> f_die f = false -> loop_over r c f (fc :: rest) b top2 vals -> length vals = f_base f ->
  let c4 := set_values (set_frames c (fc :: rest)) (match top2 with [] => VNil | x :: _ => x end :: vals) in
  Steps r (upd_cur r c4) /\ Good (upd_cur r c4) c4.
Proof.
  intros G D EF EP EX ED (b' & HE) LB c4. pose proof G as (C & X & St & E & M & MR & SU).
  split; [|apply (good_upd r c c4 G); exact SU].
  apply steps_cont_upd.
  unfold do_iter. rewrite X, C, SU, EF, St.
  destruct frame_fuel_S as [k Hk]. rewrite Hk. cbn [frame_next]. rewrite EF.
  assert (A1 : at_end f = false) by (unfold at_end; apply Nat.eqb_neq; lia).
  assert (A2 : at_end (set_pos f (S (f_pos f))) = true) by (unfold at_end; cbn; apply Nat.eqb_eq; lia).
  rewrite A1, A2. cbn [f_exit set_pos f_die]. rewrite EX, ED. cbn [andb negb].
  rewrite HE. cbn [bindr]. rewrite E.
  unfold upd_top. cbn [c_frames set_frames set_values length]. rewrite Nat.eqb_refl.
  unfold defect. rewrite (quirks_defects _ D). cbn [existsb].
  match goal with |- context [pop_value ?x] => set (c1 := x) end.
  destruct top2 as [|x top2].
  - cbn [app] in c1.
    assert (P : pop_value c1 = None).
    { unfold pop_value. cbn [c_values c1 set_frames set_values c_frames f_base set_pos set_exit]. destruct vals as [|v0 vals0]; [reflexivity|].
      destruct (Nat.leb_spec (length (v0 :: vals0)) (f_base f)) as [L|L]; [reflexivity|lia]. }
    rewrite P. unfold clear_values, pop_frame. cbn [c_frames c1 set_frames c_values f_base set_pos set_exit tl set_values].
    rewrite LB, Nat.sub_diag. cbn [skipn]. unfold push_value. subst c4. cbn. reflexivity.
  - cbn [app] in c1.
    assert (P : pop_value c1 = Some (x, set_values c1 (top2 ++ vals))).
    { apply (pop_value_top c1 (set_exit (set_pos f (S (f_pos f))) (Some b')) (fc :: rest)); [reflexivity|reflexivity|cbn; rewrite app_length; lia]. }
    rewrite P. unfold clear_values, pop_frame. cbn [c_frames c1 set_frames c_values f_base set_pos set_exit tl set_values].
    rewrite app_length, <- LB. replace (length top2 + length vals - length vals) with (length top2) by lia.
    rewrite skipn_app, skipn_all, Nat.sub_diag. cbn [skipn app]. unfold push_value. subst c4. cbn. reflexivity.
Qed.

Lemma neq_by_frames r r' c c' : cur r = Some c -> cur r' = Some c' -> length (c_frames c') <> length (c_frames c) -> r' <> r.
Proof. intros C C' N E. subst r'. rewrite C in C'. inversion C'; subst. apply N. reflexivity. Qed.
Lemma forall2_length {A B} (R:A->B->Prop) l l' : Forall2 R l l' -> length l' = length l.
Proof. induction 1; cbn; auto. Qed.
Lemma skipn_cons_nth (l:list rvalue) i x rest : skipn i l = x :: rest -> nth i l RNil = x /\ skipn (S i) l = rest.
Proof.
  revert i. induction l as [|a l IH]; intros [|i] H; cbn in *; try discriminate.
  - inversion H; subst. split; reflexivity.
  - apply IH. exact H.
Qed.
Lemma skipn_cons_length {A} (l:list A) i x rest : skipn i l = x :: rest -> length l = i + S (length rest).
Proof.
  revert i. induction l as [|a l IH]; intros [|i] H; cbn in *; try discriminate.
  - inversion H; subst. reflexivity.
  - rewrite (IH i H). reflexivity.
Qed.
Lemma nth_val_map l i : nth_val (map cv l) i = cv (nth i l RNil).
Proof. unfold nth_val. change VNil with (cv RNil). apply map_nth. Qed.

(* the region of the loop frame when the body has run out, given the body's value *)
Lemma region_top reg top : reg_rep reg top -> reg <> RNone -> exists top', top = cv reg :: top'.
Proof. destruct top as [|y top']; cbn; [intros -> N; contradiction|intros [-> _] _; eauto]. Qed.

Lemma restart_context c f rest0 b' vars below vs :
  length below = f_base f ->
  clear_values (upd_top (upd_top (restart_with (set_values (set_frames c (set_pos f (S (f_pos f)) :: rest0)) (vs ++ below)) vars)
                                 (fun f0 => set_exit f0 (Some b'))) (fun f0 => set_scope (set_pos f0 0) "")) =
  set_values (set_frames c (round_frame f b' vars :: rest0)) below.
Proof.
  intros LB. unfold restart_with, clear_values, upd_top.
  cbn [c_frames set_frames c_values set_values f_base set_pos set_vars set_exit set_scope].
  rewrite app_length, <- LB. replace (length vs + length below - length below) with (length vs) by lia.
  rewrite skipn_app, skipn_all, Nat.sub_diag. cbn [skipn app]. rewrite Nat.sub_diag. cbn [skipn].
  unfold round_frame. destruct f; destruct c; reflexivity.
Qed.

Lemma set_values_same c fs vals : c_values c = vals -> set_frames c fs = set_values (set_frames c fs) vals.
Proof. intros <-. destruct c; reflexivity. Qed.

Lemma kind_round k all i x x2 rest2 acc acc1 reg b r c f rest0 top below :
  skipn i all = x :: x2 :: rest2 -> kb k all i acc b -> kstep k x i reg acc = Some (true, acc1) -> kok k reg ->
  c_frames c = f :: rest0 -> c_values c = top ++ below -> length below = f_base f -> reg_rep reg top ->
  exists b', kb k all (S i) acc1 b' /\ goes_round r c f rest0 b b' (mvars (kvars k (S i) x2)) below.
Proof.
  intros SK KB KS KO EF EV LB RR.
  pose proof (skipn_cons_length _ _ _ _ SK) as LEN.
  assert (NE : Nat.eqb (S i) (length (map cv all)) = false) by (rewrite map_length, LEN; apply Nat.eqb_neq; cbn [length]; lia).
  destruct (skipn_cons_nth _ _ _ _ SK) as [NX0 SK1]. destruct (skipn_cons_nth _ _ _ _ SK1) as [NX _].
  assert (NV : nth_val (map cv all) (S i) = cv x2) by (rewrite nth_val_map, NX; reflexivity).
  assert (NV0 : nth_val (map cv all) i = cv x) by (rewrite nth_val_map, NX0; reflexivity).
  set (c1 := set_frames c (set_pos f (S (f_pos f)) :: rest0)).
  assert (POP : forall v top', top = v :: top' -> pop_value c1 = Some (v, set_values c1 (top' ++ below))).
  { intros v top' ->. apply (pop_value_top c1 (set_pos f (S (f_pos f))) rest0); [reflexivity|exact EV|cbn; rewrite app_length; lia]. }
  destruct k; cbn [kb] in KB.
  - (* forEach *) subst b. cbn [kstep] in KS. inversion KS; subst acc1. eexists. split; [reflexivity|].
    eexists. split.
    + cbn [enact]. rewrite NE. reflexivity.
    + rewrite NV. rewrite (set_values_same c _ _ EV). apply restart_context; exact LB.
  - (* count *) destruct acc as [|cnt| | | | | | | | | | | |]; try contradiction. subst b. destruct KO as [t ->].
    cbn [kstep] in KS. inversion KS; subst acc1.
    destruct (region_top _ _ RR) as [top' ->]; [discriminate|]. eexists. split; [reflexivity|].
    eexists. split.
    + cbn [enact]. fold c1. rewrite (POP _ _ eq_refl). cbn [cv]. rewrite NE. reflexivity.
    + rewrite NV. apply restart_context; exact LB.
  - (* apply *) destruct acc as [| | | |out| | | | | | | | |]; try contradiction. subst b.
    destruct (region_top _ _ RR KO) as [top' ->].
    assert (KS' : acc1 = RArr (out ++ [reg])) by (cbn [kstep] in KS; destruct reg; inversion KS; try reflexivity; exfalso; apply KO; reflexivity).
    subst acc1. eexists. split; [cbn [kb]; rewrite map_app; reflexivity|].
    eexists. split.
    + cbn [enact]. fold c1. rewrite (POP _ _ eq_refl). rewrite NE. reflexivity.
    + rewrite NV. apply restart_context; exact LB.
  - (* select *) destruct acc as [| | | |out| | | | | | | | |]; try contradiction. subst b. destruct KO as [t ->].
    cbn [kstep] in KS. inversion KS; subst acc1.
    destruct (region_top _ _ RR) as [top' ->]; [discriminate|].
    destruct t.
    + eexists. split; [cbn [kb]; rewrite map_app; cbn [map]; rewrite <- NV0; reflexivity|].
      eexists. split.
      * cbn [enact]. fold c1. rewrite (POP _ _ eq_refl). cbn [cv]. rewrite NE. reflexivity.
      * rewrite NV. apply restart_context; exact LB.
    + eexists. split; [reflexivity|].
      eexists. split.
      * cbn [enact]. fold c1. rewrite (POP _ _ eq_refl). cbn [cv]. rewrite NE. reflexivity.
      * rewrite NV. apply restart_context; exact LB.
  - (* findIf *) destruct acc as [|m| | | | | | | | | | | |]; try contradiction. destruct KB as [-> ->]. destruct KO as [t ->].
    cbn [kstep] in KS. destruct t; inversion KS; subst acc1.
    destruct (region_top _ _ RR) as [top' ->]; [discriminate|]. eexists. split; [split; reflexivity|].
    eexists. split.
    + cbn [enact]. fold c1. rewrite (POP _ _ eq_refl). cbn [cv]. rewrite NE. reflexivity.
    + rewrite NV. apply restart_context; exact LB.
Qed.

(* the round after which the loop is over: the last element, or findIf's hit *)
Lemma kind_over k all i x acc acc1 reg b r c f rest0 top below cont :
  kb k all i acc b -> kstep k x i reg acc = Some (cont, acc1) -> kok k reg -> nth i all RNil = x ->
  (cont = true -> S i = length all) ->
  c_frames c = f :: rest0 -> c_values c = top ++ below -> length below = f_base f -> reg_rep reg top ->
  exists top2, loop_over r c f rest0 b top2 below /\ (match top2 with [] => VNil | y :: _ => y end) = cv acc1.
Proof.
  intros KB KS KO NX0 LAST EF EV LB RR.
  assert (NV0 : nth_val (map cv all) i = cv x) by (rewrite nth_val_map, NX0; reflexivity).
  set (c1 := set_frames c (set_pos f (S (f_pos f)) :: rest0)).
  assert (POP : forall v top', top = v :: top' -> pop_value c1 = Some (v, set_values c1 (top' ++ below))).
  { intros v top' ->. apply (pop_value_top c1 (set_pos f (S (f_pos f))) rest0); [reflexivity|exact EV|cbn; rewrite app_length; lia]. }
  assert (NE : cont = true -> Nat.eqb (S i) (length (map cv all)) = true) by (intros H; rewrite map_length; apply Nat.eqb_eq; auto).
  destruct k; cbn [kb] in KB.
  - (* forEach *) subst b. cbn [kstep] in KS. inversion KS; subst acc1 cont. exists top. split.
    + eexists. cbn [enact]. rewrite (NE eq_refl). fold c1. rewrite <- EV. unfold c1. rewrite <- (set_values_same c _ _ eq_refl). reflexivity.
    + destruct top as [|y top']; cbn in RR; [rewrite RR; reflexivity|destruct RR as [-> _]; destruct reg; reflexivity].
  - (* count *) destruct acc as [|cnt| | | | | | | | | | | |]; try contradiction. subst b. destruct KO as [t ->].
    cbn [kstep] in KS. inversion KS; subst acc1 cont.
    destruct (region_top _ _ RR) as [top' ->]; [discriminate|].
    exists (VNum (if t then cnt + 1 else cnt)%Z :: top'). split; [|reflexivity].
    eexists. cbn [enact]. fold c1. rewrite (POP _ _ eq_refl). cbn [cv]. rewrite (NE eq_refl). reflexivity.
  - (* apply *) destruct acc as [| | | |out| | | | | | | | |]; try contradiction. subst b.
    destruct (region_top _ _ RR KO) as [top' ->].
    assert (KS' : acc1 = RArr (out ++ [reg]) /\ cont = true) by (cbn [kstep] in KS; destruct reg; inversion KS; try (split; reflexivity); exfalso; apply KO; reflexivity).
    destruct KS' as [-> ->].
    exists (VArr (map cv out ++ [cv reg]) :: top'). split; [|cbn [cv]; rewrite map_app; reflexivity].
    eexists. cbn [enact]. fold c1. rewrite (POP _ _ eq_refl). rewrite (NE eq_refl). reflexivity.
  - (* select *) destruct acc as [| | | |out| | | | | | | | |]; try contradiction. subst b. destruct KO as [t ->].
    cbn [kstep] in KS. inversion KS; subst acc1 cont.
    destruct (region_top _ _ RR) as [top' ->]; [discriminate|].
    exists (VArr (if t then map cv out ++ [nth_val (map cv all) i] else map cv out) :: top'). split.
    + eexists. cbn [enact]. fold c1. rewrite (POP _ _ eq_refl). cbn [cv]. rewrite (NE eq_refl). reflexivity.
    + destruct t; cbn [cv]; [rewrite map_app, NV0; reflexivity|reflexivity].
  - (* findIf *) destruct acc as [|m| | | | | | | | | | | |]; try contradiction. destruct KB as [-> ->]. destruct KO as [t ->].
    destruct (region_top _ _ RR) as [top' ->]; [discriminate|].
    cbn [kstep] in KS. destruct t; inversion KS; subst acc1 cont.
    + exists (VNum (Z.of_nat i) :: top'). split; [|reflexivity].
      eexists. cbn [enact]. fold c1. rewrite (POP _ _ eq_refl). cbn [cv]. reflexivity.
    + exists (VNum (-1) :: top'). split; [|reflexivity].
      eexists. cbn [enact]. fold c1. rewrite (POP _ _ eq_refl). cbn [cv]. rewrite (NE eq_refl). reflexivity.
Qed.

Lemma lazy_vm m sk code r c : lazy_skip m = Some sk ->
  op_binary m (VBool (negb sk)) (VCode code) r c = Ok (r, push_frame c (mk_frame (cur_ns c) code None None []), VNil) /\
  op_binary m (VBool sk) (VCode code) r c = Ok (r, c, VBool sk).
Proof.
  unfold lazy_skip. intros H.
  destruct (String.eqb m "&&") eqn:E1; [apply String.eqb_eq in E1; subst m; inversion H; subst; split; reflexivity|].
  destruct (String.eqb m "and") eqn:E2; [apply String.eqb_eq in E2; subst m; inversion H; subst; split; reflexivity|].
  destruct (String.eqb m "||") eqn:E3; [apply String.eqb_eq in E3; subst m; inversion H; subst; split; reflexivity|].
  destruct (String.eqb m "or") eqn:E4; [apply String.eqb_eq in E4; subst m; inversion H; subst; split; reflexivity|].
  discriminate H.
Qed.

(* the loop frame as the operator creates it *)
Definition kbeh0 (k:lkind) (arrV:list value) : behavior :=
  match k with
  | KForEach => BForEach arrV 0 | KCount => BCount arrV 0 0 | KApply => BApply arrV [] 0
  | KSelect => BSelect arrV [] 0 | KFindIf => BFindIf arrV 0 end.
Definition kvars0 (k:lkind) (x:value) : list (string*value) :=
  match k with KForEach => [("_x", x); ("_foreachindex", VNum 0)] | _ => [("_x", x)] end.
Definition kframe (k:lkind) (ns:string) (body:list stmt) (all:list rvalue) (x0:rvalue) : frame :=
  mk_frame ns (compile_block body) (Some (kbeh0 k (map cv all))) None (kvars0 k (cv x0)).
Lemma kb_init k all : kb k all 0 (kinit k) (kbeh0 k (map cv all)).
Proof. destruct k; cbn; auto. Qed.
Lemma kvars0_match k x0 : vars_match (kvars k 0 x0) (kvars0 k (cv x0)).
Proof.
  destruct k; intros kk; cbn; try (destruct (String.eqb kk "_x"); reflexivity).
  destruct (String.eqb kk "_x") eqn:Ex, (String.eqb kk "_foreachindex") eqn:Ei; try reflexivity.
  apply String.eqb_eq in Ex, Ei. subst kk. discriminate Ei.
Qed.

(* the behaviour of a for loop: it reads the loop variable back from the frame *)
Lemma for_round var to st y r c f rest0 top below :
  c_frames c = f :: rest0 -> c_values c = top ++ below -> length below = f_base f ->
  assoc (lower var) (f_vars f) = Some (VNum y) -> beyond to st (y + st)%Z = false ->
  goes_round r c f rest0 (BFor var to st) (BFor var to st) [(lower var, VNum (y + st)%Z)] below.
Proof.
  intros EF EV LB AV BY. unfold beyond in BY. eexists. split.
  - cbn [enact c_frames set_frames f_vars set_pos]. rewrite AV, BY. reflexivity.
  - rewrite (set_values_same c _ _ EV). apply restart_context; exact LB.
Qed.
Lemma for_over var to st y r c f rest0 top below :
  c_frames c = f :: rest0 -> c_values c = top ++ below ->
  assoc (lower var) (f_vars f) = Some (VNum y) -> beyond to st (y + st)%Z = true ->
  loop_over r c f rest0 (BFor var to st) top below.
Proof.
  intros EF EV AV BY. unfold beyond in BY. eexists.
  cbn [enact c_frames set_frames f_vars set_pos]. rewrite AV, BY. rewrite <- (set_values_same c _ _ EV). reflexivity.
Qed.
Lemma for_set_vm m var fr to st x fr' to' st' r c : for_set m fr to st x = Some (fr', to', st') ->
  op_binary m (VFor var fr to st) (VNum x) r c = Ok (r, c, VFor var fr' to' st').
Proof.
  unfold for_set. intros H.
  destruct (String.eqb m "from") eqn:E1; [apply String.eqb_eq in E1; subst m; inversion H; subst; reflexivity|].
  destruct (String.eqb m "to") eqn:E2; [apply String.eqb_eq in E2; subst m; inversion H; subst; reflexivity|].
  destruct (String.eqb m "step") eqn:E3; [apply String.eqb_eq in E3; subst m; inversion H; subst; reflexivity|discriminate H].
Qed.
Lemma for_do_vm var fr to st code r c :
  op_binary "do" (VFor var fr to st) (VCode code) r c =
  if for_empty fr to st then Ok (r, c, VNil)
  else Ok (r, push_frame c (mk_frame (cur_ns c) code (Some (BFor var to st)) None [(lower var, VNum fr)]), VNil).
Proof. reflexivity. Qed.

(* ---------------------------------------------------------------- loops that exchange the frame's instructions (while) *)
(* the loop frame after its behaviour has put other instructions in: position 0, the new behaviour, no variables *)
(* when the condition comes back for the next round the frame is a new scope: its name goes (frame_next) *)
Definition xscope (b':behavior) (f:frame) : frame := match b' with BWhile _ WCond _ _ => set_scope f "" | _ => f end.
Lemma xscope_exit b' f : f_exit (xscope b' f) = f_exit f.
Proof. destruct b' as [|? [|] ? ?| | | | | | | |]; reflexivity. Qed.
Definition xframe (f:frame) (b':behavior) (code':list instr) : frame :=
  set_vars (set_pos (set_code (xscope b' (set_exit f (Some b'))) code') 0) [].

Definition exchanges (r:rt) (c:context) (f:frame) (rest0:list frame) (b b':behavior) (code':list instr) (below:list value) : Prop :=
  exists c2, enact b r (set_frames c (set_pos f (S (f_pos f)) :: rest0)) = Ok (BrExchange code', b', r, c2) /\
    upd_top (upd_top c2 (fun f0 => set_exit f0 (Some b'))) (fun f0 => set_pos (set_code (xscope b' f0) code') 0) =
    set_values (set_frames c (xframe f b' code' :: rest0)) below.

Lemma xloop_step_real r c f rest0 b b' i0 code' below r3 c5 :
  Good r c -> c_frames c = f :: rest0 -> f_pos f = length (f_code f) -> f_exit f = Some b -> f_die f = false ->
  exchanges r c f rest0 b b' (i0 :: code') below ->
  exec_instr i0 r (set_values (set_frames c (set_pos (xframe f b' (i0 :: code')) 1 :: rest0)) below) = Ok (r3, c5) ->
  r_err (upd_cur r3 c5) = false ->
  do_iter r = Ok (Executed (set_msgs (upd_cur r3 c5) [])).
Proof.
  intros G EF EP EX ED (c2 & HE & HC) EI NErr. pose proof G as (C & X & St & E & M & MR & SU).
  unfold do_iter. rewrite X, C, SU, EF, St.
  destruct frame_fuel_SS as [k Hk]. rewrite Hk.
  cbn [frame_next]. rewrite EF.
  assert (A1 : at_end f = false) by (unfold at_end; apply Nat.eqb_neq; lia).
  assert (A2 : at_end (set_pos f (S (f_pos f))) = true) by (unfold at_end; cbn; apply Nat.eqb_eq; lia).
  rewrite A1, A2. cbn [f_exit set_pos f_die]. rewrite EX, ED. cbn [andb negb].
  rewrite HE. cbn [bindr]. unfold xscope in HC. rewrite HC.
  cbn [c_frames set_values set_frames].
  assert (B1 : at_end (xframe f b' (i0 :: code')) = false) by (unfold at_end; reflexivity).
  assert (B2 : at_end (set_pos (xframe f b' (i0 :: code')) (S (f_pos (xframe f b' (i0 :: code'))))) = false) by (unfold at_end; reflexivity).
  rewrite B1, B2. cbn [f_exit set_pos xframe set_vars set_exit set_code andb]. rewrite xscope_exit. cbn [f_exit set_exit bindr]. rewrite E.
  unfold current_instr. cbn [c_frames set_frames set_values f_code f_pos set_pos set_vars set_exit set_code xframe Nat.sub].
  cbn [nth_error]. rewrite MR. cbn [Z.eqb].
  match goal with |- context [exec_instr i0 r ?x] => replace x with (set_values (set_frames c (set_pos (xframe f b' (i0 :: code')) 1 :: rest0)) below) by (destruct c; reflexivity) end.
  rewrite EI. cbn [bindr]. rewrite NErr. reflexivity.
Qed.

Lemma xloop_back r c f rest0 b b' i0 code' below :
  Good r c -> c_frames c = f :: rest0 -> f_pos f = length (f_code f) -> f_exit f = Some b -> f_die f = false ->
  ((exists v, i0 = IPush v) \/ (exists n, i0 = IGet n)) ->
  exchanges r c f rest0 b b' (i0 :: code') below ->
  do_iter r = do_iter (upd_cur r (set_values (set_frames c (xframe f b' (i0 :: code') :: rest0)) below)).
Proof.
  intros G EF EP EX ED LF GR. pose proof G as (C & X & St & E & M & MR & SU).
  set (fV := xframe f b' (i0 :: code')). set (cV := set_values (set_frames c (fV :: rest0)) below).
  assert (GV : Good (upd_cur r cV) cV) by (apply (good_upd r c cV G); exact SU).
  set (cin := set_values (set_frames c (set_pos fV 1 :: rest0)) below).
  assert (NV : nth_error (f_code fV) (f_pos fV) = Some i0) by reflexivity.
  assert (EVr : forall r3 c5, exec_instr i0 (upd_cur r cV) cin = Ok (r3, c5) -> r_err (upd_cur r3 c5) = false ->
            do_iter (upd_cur r cV) = Ok (Executed (set_msgs (upd_cur r3 c5) []))).
  { intros r3 c5 H1 H2. apply (step_instr (upd_cur r cV) cV fV rest0 i0 r3 c5 GV eq_refl NV); [exact H1|exact H2]. }
  assert (ERr : forall r3 c5, exec_instr i0 r cin = Ok (r3, c5) -> r_err (upd_cur r3 c5) = false ->
            do_iter r = Ok (Executed (set_msgs (upd_cur r3 c5) []))).
  { intros r3 c5 H1 H2. eapply xloop_step_real; eauto. }
  destruct LF as [[v ->]|[n ->]].
  - rewrite (ERr r (push_value cin v)); [|reflexivity|rewrite err_upd_cur; exact E].
    rewrite (EVr (upd_cur r cV) (push_value cin v)); [|reflexivity|rewrite !err_upd_cur; exact E].
    rewrite upd_cur_twice. reflexivity.
  - cbn [exec_instr] in EVr, ERr. destruct (is_local n).
    + destruct (get_variable cin n) as [v|].
      * rewrite (ERr r (push_value cin v)); [|reflexivity|rewrite err_upd_cur; exact E].
        rewrite (EVr (upd_cur r cV) (push_value cin v)); [|reflexivity|rewrite !err_upd_cur; exact E].
        rewrite upd_cur_twice. reflexivity.
      * rewrite (ERr _ _ eq_refl); [|rewrite err_logmsg_warn; exact E].
        rewrite (EVr _ _ eq_refl); [|rewrite err_logmsg_warn, err_upd_cur; exact E].
        rewrite logmsg_upd_cur, upd_cur_twice. reflexivity.
    + cbn [c_frames cin set_values set_frames] in EVr, ERr. rewrite ns_get_upd_cur in EVr.
      destruct (ns_get r (f_ns (set_pos fV 1)) n) as [v|].
      * rewrite (ERr r (push_value cin v)); [|reflexivity|rewrite err_upd_cur; exact E].
        rewrite (EVr (upd_cur r cV) (push_value cin v)); [|reflexivity|rewrite !err_upd_cur; exact E].
        rewrite upd_cur_twice. reflexivity.
      * rewrite (ERr _ _ eq_refl); [|rewrite err_logmsg_warn; exact E].
        rewrite (EVr _ _ eq_refl); [|rewrite err_logmsg_warn, err_upd_cur; exact E].
        rewrite logmsg_upd_cur, upd_cur_twice. reflexivity.
Qed.

(* ---------------------------------------------------------------- while: what its behaviour does *)
(* the condition has come out true: the body's instructions are put in *)
Lemma while_to_body r c f rest0 loops cc i0 code' t below :
  c_frames c = f :: rest0 -> c_values c = VBool true :: t ++ below -> length below = f_base f ->
  exchanges r c f rest0 (BWhile loops WCond cc (i0 :: code')) (BWhile loops WCode cc (i0 :: code')) (i0 :: code') below.
Proof.
  intros EF EV LB.
  set (cin := set_frames c (set_pos f (S (f_pos f)) :: rest0)).
  assert (P : pop_value cin = Some (VBool true, set_values cin (t ++ below))).
  { apply (pop_value_top cin (set_pos f (S (f_pos f))) rest0); [reflexivity|exact EV|cbn; rewrite app_length; lia]. }
  eexists. split.
  - cbn [enact]. fold cin. rewrite P. reflexivity.
  - unfold restart_with, clear_values, upd_top. cbn [c_frames set_values set_frames cin c_values f_base set_pos].
    rewrite app_length, <- LB. replace (length t + length below - length below) with (length t) by lia.
    rewrite skipn_app, skipn_all, Nat.sub_diag. cbn [skipn app]. destruct c, f; reflexivity.
Qed.

(* the body has run out: the condition's instructions are put back (no cap on the rounds) *)
Lemma while_to_cond r c f rest0 loops i0 code' bc top below :
  c_frames c = f :: rest0 -> c_values c = top ++ below -> length below = f_base f -> r_max_loop r = 0 ->
  exchanges r c f rest0 (BWhile loops WCode (i0 :: code') bc)
            (BWhile (if c_can_suspend c then loops else S loops) WCond (i0 :: code') bc) (i0 :: code') below.
Proof.
  intros EF EV LB ML.
  set (cin := set_frames c (set_pos f (S (f_pos f)) :: rest0)).
  eexists. split.
  - cbn [enact]. fold cin. rewrite ML. cbn [Nat.ltb Nat.leb andb]. rewrite andb_false_r. unfold cin at 1. cbn [c_can_suspend set_frames]. reflexivity.
  - unfold restart_with, clear_values, upd_top. cbn [c_frames set_values set_frames cin c_values f_base set_pos].
    rewrite EV, app_length, <- LB. replace (length top + length below - length below) with (length top) by lia.
    rewrite skipn_app, skipn_all, Nat.sub_diag. cbn [skipn app]. destruct c, f; reflexivity.
Qed.

(* the condition has come out false: the loop is over, what lay under the condition's value is what is left *)
Lemma while_over r c f rest0 loops cc bc t below :
  c_frames c = f :: rest0 -> c_values c = VBool false :: t ++ below -> length below = f_base f ->
  loop_over r c f rest0 (BWhile loops WCond cc bc) t below.
Proof.
  intros EF EV LB.
  set (cin := set_frames c (set_pos f (S (f_pos f)) :: rest0)).
  assert (P : pop_value cin = Some (VBool false, set_values cin (t ++ below))).
  { apply (pop_value_top cin (set_pos f (S (f_pos f))) rest0); [reflexivity|exact EV|cbn; rewrite app_length; lia]. }
  eexists. cbn [enact]. fold cin. rewrite P. reflexivity.
Qed.

Lemma while_do_vm i0 code' bc r c :
  op_binary "do" (VWhile (i0 :: code')) (VCode bc) r c =
  Ok (r, push_frame c (mk_frame (cur_ns c) (i0 :: code') (Some (BWhile 0 WCond (i0 :: code') bc)) None []), VNil).
Proof. reflexivity. Qed.
Lemma while_val_vm code r c : op_unary "while" (VCode code) r c = Ok (r, c, VWhile code).
Proof. reflexivity. Qed.

Definition ForRuns (var:string) (to st:Z) (s:sstate) (x:Z) (first:bool) (body:list stmt) (acc':rvalue) (s':sstate) : Prop :=
  forall r c f fc frest below,
    AtM (enter s [(lower var, RNum x)]) (if first then RNil else RNone) r c f (fc :: frest) below -> Fresh c below ->
    f_code f = compile_block body -> f_pos f = 0 -> f_exit f = Some (BFor var to st) -> f_die f = false ->
    leaf_first body -> f_ns f = f_ns fc -> f_base fc <= length below ->
    exists r' c' fc' rest', Steps r r' /\ r' <> r /\ Mach s' r' c' fc' rest' /\ c_values c' = cv acc' :: below /\
      kept fc fc' /\ Forall2 kept frest rest'.

(* the state at the start of a round: the loop frame at position 0 with the element bound, its behaviour at that index with
   what has been accumulated so far *)
Definition IterRuns (k:lkind) (s:sstate) (arr:list rvalue) (i:nat) (body:list stmt) (acc acc':rvalue) (s':sstate) : Prop :=
  match arr with
  | [] => True
  | x :: rest0 =>
    forall r c f fc frest below allarr b,
      AtM (enter s (kvars k i x)) (match i with O => RNil | _ => RNone end) r c f (fc :: frest) below -> Fresh c below ->
      f_code f = compile_block body -> f_pos f = 0 -> f_exit f = Some b -> kb k allarr i acc b -> f_die f = false ->
      skipn i allarr = x :: rest0 -> leaf_first body -> f_ns f = f_ns fc -> f_base fc <= length below ->
      exists r' c' fc' rest', Steps r r' /\ r' <> r /\ Mach s' r' c' fc' rest' /\ c_values c' = cv acc' :: below /\
        kept fc fc' /\ Forall2 kept frest rest'
  end.

(* the state at the start of a round of while: the loop frame holds the condition's instructions at position 0, no variables,
   its behaviour waits for the condition's value (after however many rounds) *)
Definition WhileRuns (cond body:list stmt) (s:sstate) (first:bool) (v:rvalue) (s':sstate) : Prop :=
  forall r c f fc frest below loops,
    AtM (enter s []) (if first then RNil else RNone) r c f (fc :: frest) below -> Fresh c below ->
    f_code f = compile_block cond -> f_pos f = 0 ->
    f_exit f = Some (BWhile loops WCond (compile_block cond) (compile_block body)) -> f_die f = false ->
    leaf_first cond -> leaf_first body -> f_ns f = f_ns fc -> f_base fc <= length below ->
    exists r' c' fc' rest', Steps r r' /\ r' <> r /\ Mach s' r' c' fc' rest' /\ c_values c' = cv v :: below /\
      kept fc fc' /\ Forall2 kept frest rest'.

(* ---------------------------------------------------------------- operators that change what the program can observe *)
Lemma unary_run_g r c f rest pre post n' w vals r3 c3 y :
  Good r c -> c_frames c = f :: rest -> f_code f = pre ++ IUnary n' :: post -> f_pos f = length pre ->
  c_values c = w :: vals -> f_base f <= length vals -> w <> VNil ->
  op_unary (lower n') w r (set_values (set_frames c (set_pos f (S (f_pos f)) :: rest)) vals) = Ok (r3, c3, y) ->
  c_suspended c3 = false -> ctl_same r r3 ->
  Steps r (upd_cur r3 (push_value c3 y)) /\ Good (upd_cur r3 (push_value c3 y)) (push_value c3 y).
Proof.
  intros G EF EC EP EV B NW OP SU CS.
  assert (N : nth_error (f_code f) (f_pos f) = Some (IUnary n')) by (rewrite EC, EP; apply nth_error_mid).
  apply (run_one_g r c f rest (IUnary n') r3 _ G EF N); [|exact SU|exact CS].
  eapply exec_unary_nonnil; [|exact NW|exact OP].
  apply (pop_value_top _ (set_pos f (S (f_pos f))) rest); [reflexivity|exact EV|exact B].
Qed.
Lemma binary_run_g r c f rest pre post n' l w vals r3 c3 y :
  Good r c -> c_frames c = f :: rest -> f_code f = pre ++ IBinary n' :: post -> f_pos f = length pre ->
  c_values c = w :: l :: vals -> f_base f <= length vals -> w <> VNil -> l <> VNil ->
  op_binary (lower n') l w r (set_values (set_frames c (set_pos f (S (f_pos f)) :: rest)) vals) = Ok (r3, c3, y) ->
  c_suspended c3 = false -> ctl_same r r3 ->
  Steps r (upd_cur r3 (push_value c3 y)) /\ Good (upd_cur r3 (push_value c3 y)) (push_value c3 y).
Proof.
  intros G EF EC EP EV B NW NL OP SU CS.
  assert (N : nth_error (f_code f) (f_pos f) = Some (IBinary n')) by (rewrite EC, EP; apply nth_error_mid).
  apply (run_one_g r c f rest (IBinary n') r3 _ G EF N); [|exact SU|exact CS].
  eapply (exec_binary_nonnil n' l w r _ (set_values (set_frames c (set_pos f (S (f_pos f)) :: rest)) (l :: vals))); [|exact NW| |exact NL|exact OP].
  - apply (pop_value_top _ (set_pos f (S (f_pos f))) rest); [reflexivity|exact EV|cbn; lia].
  - rewrite (pop_value_top _ (set_pos f (S (f_pos f))) rest l vals); [reflexivity|reflexivity|reflexivity|exact B].
Qed.

(* diag_log: one marker more, nothing else *)
Lemma world_mark r t : world (mark (logmsg r d_InfoMessage) t) = (r_nss r, t :: marks (r_out r)).
Proof. reflexivity. Qed.
Lemma ctl_same_mark r t : ctl_same r (mark (logmsg r d_InfoMessage) t).
Proof. unfold ctl_same, cfg_same, mark, logmsg. cbn. auto 15. Qed.
Lemma match_mark s r t fs : Match s r fs -> Match (rmark s t) (mark (logmsg r d_InfoMessage) t) fs.
Proof.
  intros [F N]. split; [exact F|]. rewrite world_mark. cbn [rmark st_nss st_trace].
  rewrite (world_nss _ _ _ N), (world_marks _ _ _ N). reflexivity.
Qed.

(* setVariable: the namespace storage changes the way a global assignment changes it *)
Lemma ctl_same_ns_set r ns n v : ctl_same r (ns_set r ns n v).
Proof. unfold ns_set, set_nss, rt_with, ctl_same, cfg_same. cbn. auto 15. Qed.
Lemma match_ns_set s r ns x v fs : Match s r fs -> Match (rns_set s ns x v) (ns_set r ns x (cv v)) fs.
Proof.
  intros [F N]. split; [exact F|]. unfold world. f_equal; [|exact (world_marks _ _ _ N)].
  unfold ns_set. rewrite nss_set_nss, (world_nss _ _ _ N). cbn [rns_set st_nss].
  rewrite assoc_mnss. destruct (assoc ns (st_nss s)) as [m|]; cbn [option_map].
  - rewrite assoc_set_mvars, assoc_set_mnss. reflexivity.
  - change (assoc_set (lower x) (cv v) []) with (mvars (assoc_set (lower x) v [])). rewrite assoc_set_mnss. reflexivity.
Qed.
Lemma ns_get_match s r fs ns x : Match s r fs -> ns_get r ns x = option_map cv (rns_get s ns x).
Proof.
  intros [_ N]. unfold ns_get, rns_get. rewrite (world_nss _ _ _ N), assoc_mnss.
  destruct (assoc ns (st_nss s)) as [m|]; cbn [option_map]; [apply assoc_mvars|reflexivity].
Qed.

(* private "x": the frame gets the name the scope gets *)
Lemma match_declare s r c f rest x : hidden (lower x) = false -> c_frames c = f :: rest -> Match s r (f :: rest) ->
  exists f', c_frames (declare_top_var c x) = f' :: rest /\ Match (declare s x) r (f' :: rest) /\ kept f f' /\
             c_values (declare_top_var c x) = c_values c /\ c_suspended (declare_top_var c x) = c_suspended c.
Proof.
  intros HH EF [F N]. inversion F as [|sc f0 scs fs (V & NS & BB) F' E1 E2]; subst.
  unfold declare_top_var, upd_top, declare. rewrite EF, <- E1. rewrite (V (lower x) HH).
  destruct (assoc (lower x) (sc_vars sc)) as [w|] eqn:EA; cbn [option_map].
  - exists f. split; [reflexivity|]. split; [|split; [apply kept_refl|split; reflexivity]].
    split; [rewrite <- E1; constructor; [split; [exact V|split; assumption]|exact F']|exact N].
  - eexists. split; [reflexivity|]. split; [|split; [unfold kept; destruct f; reflexivity|split; reflexivity]].
    unfold bind_here. rewrite <- E1. split; [|exact N]. cbn. constructor; [|exact F'].
    split; [cbn; apply (vars_match_set (lower x) RNil); exact V|split; [exact NS|exact BB]].
Qed.

(* with ns do {..}: a scope of the named namespace *)
Lemma scope_run_ns s ns vars b out s3 r1 c0 fc rest :
  ScopeEnds (push_scope s (mk_scope ns vars)) RNil (compile_block b) out s3 ->
  let newf := mk_frame ns (compile_block b) None None (mvars vars) in
  let c1 := push_value (push_frame c0 newf) VNil in
  Good r1 c1 -> quirks r1 = ([], 0) -> c_frames c0 = fc :: rest -> Match s r1 (fc :: rest) -> f_base fc <= length (c_values c0) ->
  exists r' c' fc' rest', Steps r1 r' /\ Mach (pop_scope s3) r' c' fc' rest' /\ c_values c' = cv (val_of out) :: c_values c0 /\
    kept fc fc' /\ Forall2 kept rest rest'.
Proof.
  intros SE newf c1 G D EF M B.
  set (nf := set_base newf (length (c_values c0))).
  assert (A : AtM (push_scope s (mk_scope ns vars)) RNil r1 c1 nf (fc :: rest) (c_values c0)).
  { split.
    - split; [exact G|]. split; [cbn; rewrite EF; reflexivity|]. split.
      + destruct M as [F N]. split; [|exact N]. cbn. constructor; [|exact F].
        split; [apply vars_match_mvars|split; [reflexivity|split; reflexivity]].
      + split; [cbn; lia|exact D].
    - split; [reflexivity|]. exists [VNil]. split; [reflexivity|]. split; [reflexivity|]. split; [discriminate|nil_case]. }
  exact (SE r1 c1 nf fc rest (c_values c0) [] A (fresh_one c1 (c_values c0) eq_refl) eq_refl eq_refl eq_refl B).
Qed.

(* ---------------------------------------------------------------- throw: where the machine stands when a handler has taken over *)
Definition drop_scopes (k:nat) (s:sstate) : sstate := with_scopes s (skipn k (st_scopes s)).
Lemma drop_scopes_0 s : drop_scopes 0 s = s.
Proof. destruct s; reflexivity. Qed.
Lemma drop_scopes_S k s : drop_scopes (S k) s = drop_scopes k (pop_scope s).
Proof. unfold drop_scopes, pop_scope, with_scopes. cbn [st_scopes st_nss st_trace]. destruct (st_scopes s); [rewrite !skipn_nil; reflexivity|reflexivity]. Qed.

(* the handler's frame hf is the running one, the frames above it are gone, the reference state is s (the handler's scope on
   top, holding _exception only); on the operand stack lie the nil the throw left and under it, down to the handler frame's
   base, only nils *)
Definition Caught (s:sstate) (r':rt) (c':context) (hf:frame) (rest':list frame) (below_t:list value) : Prop :=
  Good r' c' /\ quirks r' = ([], 0) /\ c_frames c' = hf :: rest' /\ Match s r' (hf :: rest') /\
  exists jn, c_values c' = VNil :: jn ++ below_t /\ under jn.

(* a block in frame f that is left by a throw: the innermost frame with a handler is ft, [inner] are the frames above it
   (f first; empty when f is that frame itself), what lies between f's part of the stack and ft's base are nils *)
Definition ThrowRuns (s:sstate) (reg:rvalue) (code:list instr) (x:rvalue) (s':sstate) : Prop :=
  forall r c f restf below pre inner ft rest h jn below_t,
    AtM s reg r c f restf below -> Fresh c below ->
    f_code f = pre ++ code -> f_pos f = length pre ->
    f :: restf = inner ++ ft :: rest -> Forall (fun m => f_err m = None) inner -> f_err ft = Some (ECatch h) ->
    below = jn ++ below_t -> under jn -> length below_t = f_base ft ->
    exists r' c' rest' ft0, Steps r r' /\ Forall2 kept rest rest' /\ moved ft ft0 /\
      Caught (set_top_vars (drop_scopes (length inner) s') [("_exception", x)]) r' c' (handler_frame ft0 h (cv x)) rest' below_t.

Lemma moved_err f f' : moved f f' -> f_err f' = f_err f. Proof. intros H. rewrite <- H. reflexivity. Qed.
Lemma kept_err f f' : kept f f' -> f_err f' = f_err f. Proof. intros H. rewrite <- H. reflexivity. Qed.
Lemma kept_all_err l l' : Forall2 kept l l' -> Forall (fun m => f_err m = None) l -> Forall (fun m => f_err m = None) l'.
Proof. induction 1 as [|a b l l' K _ IH]; intros HF; [constructor|]. inversion HF; subst. constructor; [rewrite (kept_err _ _ K); assumption|apply IH; assumption]. Qed.

(* the chain of frames down to the handler's, after the running frame has moved on and the others have kept their shape *)
Lemma chain_kept f restf inner ft rest f1 rest1 h (x:value) :
  f :: restf = inner ++ ft :: rest -> Forall (fun m => f_err m = None) inner -> f_err ft = Some (ECatch h) ->
  moved f f1 -> Forall2 kept restf rest1 ->
  exists inner1 ft1 rest1', f1 :: rest1 = inner1 ++ ft1 :: rest1' /\ Forall (fun m => f_err m = None) inner1 /\
    f_err ft1 = Some (ECatch h) /\ moved ft ft1 /\ length inner1 = length inner /\
    Forall2 kept rest rest1' /\ f_base ft1 = f_base ft.
Proof.
  intros CH HF HE MV K. destruct inner as [|m inner0]; cbn [app] in CH.
  - inversion CH; subst. exists [], f1, rest1. split; [reflexivity|]. split; [constructor|]. split; [rewrite (moved_err _ _ MV); exact HE|].
    split; [exact MV|]. split; [reflexivity|]. split; [exact K|apply (moved_base _ _ MV)].
  - inversion CH; subst. inversion HF as [|? ? HM HF0]; subst.
    destruct (Forall2_app_inv_l _ _ K) as (i1 & l2 & K1 & K2 & ->).
    inversion K2 as [|? ft1 ? r1' Kt Kr]; subst.
    exists (f1 :: i1), ft1, r1'. split; [reflexivity|]. split; [constructor; [rewrite (moved_err _ _ MV); exact HM|exact (kept_all_err _ _ K1 HF0)]|].
    split; [rewrite (kept_err _ _ Kt); exact HE|]. split; [apply kept_moved; exact Kt|].
    split; [cbn; rewrite (forall2_length _ _ _ K1); reflexivity|]. split; [exact Kr|apply (kept_base _ _ Kt)].
Qed.

Lemma match_after_throw s r inner1 ft1 rest1 h x :
  Match s r (inner1 ++ ft1 :: rest1) ->
  Match (set_top_vars (drop_scopes (length inner1) s) [("_exception", x)]) r (handler_frame ft1 h (cv x) :: rest1).
Proof.
  intros [F N]. destruct (Forall2_app_inv_r _ _ F) as (l1 & l2 & F1 & F2 & E).
  inversion F2 as [|sct ? l2' ? (V & NS & BB) F2' E1 E2]; subst.
  assert (L : length inner1 = length l1) by (apply (forall2_length _ _ _ F1)).
  unfold drop_scopes, set_top_vars, with_scopes. cbn [st_scopes st_nss st_trace]. rewrite E, L, skipn_app_here.
  split; [|exact N]. cbn [st_scopes]. constructor; [|exact F2'].
  split; [apply (vars_match_mvars [("_exception", x)])|split; [exact NS|exact BB]].
Qed.

Lemma compile_block_unary n a rest : (forall k, a <> ENum k) ->
  compile_block (SExpr (EUnary n a) :: rest) = compile_expr a ++ [IUnary (lower n)] ++ compile_block_from false rest.
Proof. intros NL. unfold compile_block. cbn [compile_block_from compile_stmt app]. rewrite (compile_unary_nonlit n a NL), <- app_assoc. reflexivity. Qed.

(* a new scope on top of the running frame: where its block starts (er: the error handler the frame carries) *)
Lemma enter_at s vars code er r1 c0 fc rest :
  let newf := mk_frame (cur_ns c0) code None er (mvars vars) in
  let c1 := push_value (push_frame c0 newf) VNil in
  Good r1 c1 -> quirks r1 = ([], 0) -> c_frames c0 = fc :: rest -> Match s r1 (fc :: rest) ->
  AtM (enter s vars) RNil r1 c1 (set_base newf (length (c_values c0))) (fc :: rest) (c_values c0).
Proof.
  intros newf c1 G D EF M. split.
  - split; [exact G|]. split; [cbn; rewrite EF; reflexivity|]. split.
    + destruct M as [F N]. split; [|exact N]. cbn. constructor; [|exact F].
      split; [apply vars_match_mvars|split; [|split; reflexivity]]. cbn. unfold cur_ns. rewrite EF. inversion F as [|sc f0 scs fs (V & NS & BB) F' E1 E2]; subst.
      unfold cur_ns_of. rewrite <- E1. exact NS.
    + split; [cbn; lia|exact D].
  - split; [reflexivity|]. exists [VNil]. split; [reflexivity|]. split; [reflexivity|]. split; [discriminate|nil_case].
Qed.

(* a throw out of the block of a plain scope (call, then, else) that stands as a statement of the running frame fc *)
Lemma throw_in_scope s vars b x s3 r1 c0 fc restf inner ft rest h jn below_t :
  ThrowRuns (enter s vars) RNil (compile_block b) x s3 ->
  let newf := mk_frame (cur_ns c0) (compile_block b) None None (mvars vars) in
  let c1 := push_value (push_frame c0 newf) VNil in
  Good r1 c1 -> quirks r1 = ([], 0) -> c_frames c0 = fc :: restf -> Match s r1 (fc :: restf) ->
  fc :: restf = inner ++ ft :: rest -> Forall (fun m => f_err m = None) inner -> f_err ft = Some (ECatch h) ->
  c_values c0 = jn ++ below_t -> under jn -> length below_t = f_base ft ->
  exists r' c' rest' ft0, Steps r1 r' /\ Forall2 kept rest rest' /\ moved ft ft0 /\
    Caught (set_top_vars (drop_scopes (length inner) (pop_scope s3)) [("_exception", x)]) r' c' (handler_frame ft0 h (cv x)) rest' below_t.
Proof.
  intros TR newf c1 G D EF M CH HF HE EV UJ LBT.
  pose proof (enter_at s vars (compile_block b) None r1 c0 fc restf G D EF M) as A.
  destruct (TR r1 c1 (set_base newf (length (c_values c0))) (fc :: restf) (c_values c0) [] (set_base newf (length (c_values c0)) :: inner) ft rest h jn below_t
              A (fresh_one c1 (c_values c0) eq_refl) eq_refl eq_refl) as (r' & c' & rest' & ft0 & S & K & MT & CA).
  { cbn [app]. rewrite CH. reflexivity. } { constructor; [reflexivity|exact HF]. } { exact HE. } { exact EV. } { exact UJ. } { exact LBT. }
  exists r', c', rest', ft0. split; [exact S|]. split; [exact K|]. split; [exact MT|]. cbn [length] in CA. rewrite drop_scopes_S in CA. exact CA.
Qed.

(* a throw out of the block of try {..} catch {..}: the try frame itself takes it *)
Lemma throw_in_try s b x s3 r1 c0 fc restf h :
  ThrowRuns (enter s []) RNil (compile_block b) x s3 ->
  let newf := mk_frame (cur_ns c0) (compile_block b) None (Some (ECatch h)) (mvars []) in
  let c1 := push_value (push_frame c0 newf) VNil in
  Good r1 c1 -> quirks r1 = ([], 0) -> c_frames c0 = fc :: restf -> Match s r1 (fc :: restf) ->
  exists r' c' rest' ft0, Steps r1 r' /\ Forall2 kept (fc :: restf) rest' /\ moved (set_base newf (length (c_values c0))) ft0 /\
    Caught (set_top_vars s3 [("_exception", x)]) r' c' (handler_frame ft0 h (cv x)) rest' (c_values c0).
Proof.
  intros TR newf c1 G D EF M.
  pose proof (enter_at s [] (compile_block b) (Some (ECatch h)) r1 c0 fc restf G D EF M) as A.
  destruct (TR r1 c1 (set_base newf (length (c_values c0))) (fc :: restf) (c_values c0) [] [] (set_base newf (length (c_values c0))) (fc :: restf) h [] (c_values c0)
              A (fresh_one c1 (c_values c0) eq_refl) eq_refl eq_refl eq_refl) as (r' & c' & rest' & ft0 & S & K & MT & CA).
  { constructor. } { reflexivity. } { reflexivity. } { constructor. } { reflexivity. }
  exists r', c', rest', ft0. split; [exact S|]. split; [exact K|]. split; [exact MT|].
  cbn [length] in CA. unfold drop_scopes in CA. cbn [skipn] in CA.
  replace (with_scopes s3 (st_scopes s3)) with s3 in CA by (destruct s3; reflexivity). exact CA.
Qed.

(* the handler has taken over: where its block starts *)
Lemma caught_at s r c hf rest below_t : Caught s r c hf rest below_t -> length below_t = f_base hf ->
  AtM s RNil r c hf rest below_t /\ Fresh c below_t.
Proof.
  intros (G & D & EF & M & jn & EV & UJ) LB. split.
  - split; [split; [exact G|split; [exact EF|split; [exact M|split; [rewrite EV; cbn; rewrite app_length; lia|exact D]]]]|].
    split; [exact LB|]. exists (VNil :: jn). split; [exact EV|]. split; [reflexivity|]. split; [discriminate|exact UJ].
  - exists (VNil :: jn). split; [exact EV|]. constructor; [reflexivity|exact UJ].
Qed.

(* try {..} catch {..} whose block is not left by a throw: a scope like any other, its frame carries the handler *)
Lemma scope_run_err s b out s3 r1 c0 fc rest er :
  ScopeEnds (enter s []) RNil (compile_block b) out s3 ->
  let newf := mk_frame (cur_ns c0) (compile_block b) None er (mvars []) in
  let c1 := push_value (push_frame c0 newf) VNil in
  Good r1 c1 -> quirks r1 = ([], 0) -> c_frames c0 = fc :: rest -> Match s r1 (fc :: rest) -> f_base fc <= length (c_values c0) ->
  exists r' c' fc' rest', Steps r1 r' /\ Mach (pop_scope s3) r' c' fc' rest' /\ c_values c' = cv (val_of out) :: c_values c0 /\
    kept fc fc' /\ Forall2 kept rest rest'.
Proof.
  intros SE newf c1 G D EF M B.
  pose proof (enter_at s [] (compile_block b) er r1 c0 fc rest G D EF M) as A.
  exact (SE r1 c1 (set_base newf (length (c_values c0))) fc rest (c_values c0) [] A (fresh_one c1 (c_values c0) eq_refl) eq_refl eq_refl eq_refl B).
Qed.

(* ---------------------------------------------------------------- breakOut: where the machine stands when the named scope has been left *)
(* a block in frame f that is left by breakOut "t": the innermost scope named t (judged on the reference state at the breakOut, which
   the frames Match) is k scopes up, its frame is fn, fc is the frame below it; the frames' bases do not grow towards the bottom of
   the stack; the machine ends in fc with the value on what lay below fn's base *)
Definition BreakRuns (s:sstate) (reg:rvalue) (code:list instr) (t:string) (v:rvalue) (s':sstate) : Prop :=
  forall r c f restf below pre k top fn fc rest jn below_n,
    AtM s reg r c f restf below -> Fresh c below ->
    f_code f = pre ++ code -> f_pos f = length pre ->
    find_name t (st_scopes s') 0 = Some k ->
    f :: restf = top ++ fn :: fc :: rest -> length top = k ->
    Forall (fun m => f_base fn <= f_base m) top -> f_base fc <= f_base fn ->
    below = jn ++ below_n -> length below_n = f_base fn ->
    exists r' c' fc' rest', Steps r r' /\ Mach (drop_scopes (S k) s') r' c' fc' rest' /\ c_values c' = cv v :: below_n /\
      kept fc fc' /\ Forall2 kept rest rest'.

Lemma find_name_shift t : forall l k0 k, find_name t l k0 = Some k -> find_name t l (S k0) = Some (S k).
Proof. induction l as [|sc l IH]; intros k0 k H; cbn [find_name] in *; [discriminate|]. destruct (String.eqb (sc_name sc) t); [inversion H; reflexivity|apply IH; exact H]. Qed.
Lemma find_name_pop t s k : top_name s <> t -> find_name t (st_scopes (pop_scope s)) 0 = Some k -> find_name t (st_scopes s) 0 = Some (S k).
Proof.
  unfold top_name, pop_scope. cbn [st_scopes with_scopes]. destruct (st_scopes s) as [|sc l]; cbn [tl find_name]; intros N H; [discriminate H|].
  destruct (String.eqb_spec (sc_name sc) t) as [E|_]; [contradiction|]. apply find_name_shift. exact H.
Qed.
Lemma find_name_top t s : t <> "" -> top_name s = t -> find_name t (st_scopes s) 0 = Some 0.
Proof.
  unfold top_name. destruct (st_scopes s) as [|sc l]; intros N H; [exfalso; apply N; symmetry; exact H|].
  cbn [find_name]. rewrite H, String.eqb_refl. reflexivity.
Qed.
Lemma find_name_ge t : forall scl a b, find_name t scl a = Some b -> a <= b.
Proof. induction scl as [|sx scl IHl]; intros a b HH; cbn [find_name] in HH; [discriminate HH|]. destruct (String.eqb (sc_name sx) t); [inversion HH; lia|apply IHl in HH; lia]. Qed.
(* ... and what that says about the frames *)
Lemma find_name_frames t : forall scs fs k0 top fn more, Forall2 frame_match scs fs -> find_name t scs k0 = Some (k0 + length top) ->
  fs = top ++ fn :: more -> Forall (fun m => f_scope m <> t) top /\ f_scope fn = t.
Proof.
  induction scs as [|sc scs IH]; intros fs k0 top fn more F H E; [discriminate H|].
  inversion F as [|? f0 ? fs0 (V & NS & BB & SN) F' E1 E2]. subst fs. cbn [find_name] in H.
  destruct (String.eqb_spec (sc_name sc) t) as [EN|NN].
  - inversion H as [HK]. destruct top as [|m top]; [|cbn in HK; lia]. cbn in E2. inversion E2; subst.
    split; [constructor|]. rewrite SN. reflexivity.
  - destruct top as [|m top].
    + exfalso. cbn in H. rewrite Nat.add_0_r in H.
      apply find_name_ge in H. lia.
    + cbn in E2. inversion E2; subst. destruct (IH (top ++ fn :: more) (S k0) top fn more F') as [A B]; [|reflexivity|].
      * rewrite H. f_equal. cbn. lia.
      * split; [constructor; [rewrite SN; exact NN|exact A]|exact B].
Qed.

(* the chain of frames down to the one below the named scope, after the running frame has moved on *)
Lemma chain_kept_b f restf top fn fc rest f1 rest1 :
  f :: restf = top ++ fn :: fc :: rest -> moved f f1 -> Forall2 kept restf rest1 -> Forall (fun m => f_base fn <= f_base m) top ->
  exists top1 fn1 fc1 rest1', f1 :: rest1 = top1 ++ fn1 :: fc1 :: rest1' /\ length top1 = length top /\
    Forall (fun m => f_base fn1 <= f_base m) top1 /\ f_base fn1 = f_base fn /\ kept fc fc1 /\ Forall2 kept rest rest1'.
Proof.
  intros CH MV K HB. destruct top as [|m top0]; cbn [app] in CH.
  - inversion CH; subst. inversion K as [|? fc1 ? r1' Kc Kr]; subst.
    exists [], f1, fc1, r1'. split; [reflexivity|]. split; [reflexivity|]. split; [constructor|]. split; [apply (moved_base _ _ MV)|]. split; assumption.
  - inversion CH; subst. inversion HB as [|? ? HBm HB0]; subst.
    destruct (Forall2_app_inv_l _ _ K) as (i1 & l2 & K1 & K2 & ->).
    inversion K2 as [|? fn1 ? l3 Kn K3]; subst. inversion K3 as [|? fc1 ? r1' Kc Kr]; subst.
    exists (f1 :: i1), fn1, fc1, r1'. split; [reflexivity|]. split; [cbn; rewrite (forall2_length _ _ _ K1); reflexivity|].
    split; [|split; [apply (kept_base _ _ Kn)|split; assumption]].
    constructor; [rewrite (kept_base _ _ Kn), (moved_base _ _ MV); exact HBm|].
    clear - K1 HB0 Kn. induction K1 as [|a b l l' Kab _ IH]; [constructor|]. inversion HB0; subst.
    constructor; [rewrite (kept_base _ _ Kn), (kept_base _ _ Kab); assumption|apply IH; assumption].
Qed.

Lemma match_after_break s r top1 fn1 more :
  Match s r (top1 ++ fn1 :: more) -> Match (drop_scopes (S (length top1)) s) r more.
Proof.
  intros [F N]. destruct (Forall2_app_inv_r _ _ F) as (l1 & l2 & F1 & F2 & E).
  inversion F2 as [|sct ? l2' ? _ F2' E1 E2]; subst.
  assert (L : length top1 = length l1) by (apply (forall2_length _ _ _ F1)).
  unfold drop_scopes, with_scopes. cbn [st_scopes st_nss st_trace]. split; [|exact N]. cbn [st_scopes].
  rewrite E, L. replace (S (length l1)) with (1 + length l1) by lia. rewrite <- skipn_skipn_add, skipn_app_here. cbn [skipn]. exact F2'.
Qed.

(* a throw / breakOut out of the block of a plain scope that stands as a statement: the scope's own frame joins the chain *)
Lemma break_in_scope s vars b t v s3 r1 c0 fcur restf k top fn fc rest jn below_n :
  BreakRuns (enter s vars) RNil (compile_block b) t v s3 ->
  let newf := mk_frame (cur_ns c0) (compile_block b) None None (mvars vars) in
  let c1 := push_value (push_frame c0 newf) VNil in
  Good r1 c1 -> quirks r1 = ([], 0) -> c_frames c0 = fcur :: restf -> Match s r1 (fcur :: restf) -> f_base fcur <= length (c_values c0) ->
  top_name s3 <> t -> find_name t (st_scopes (pop_scope s3)) 0 = Some k ->
  fcur :: restf = top ++ fn :: fc :: rest -> length top = k ->
  Forall (fun m => f_base fn <= f_base m) top -> f_base fc <= f_base fn ->
  c_values c0 = jn ++ below_n -> length below_n = f_base fn ->
  exists r' c' fc' rest', Steps r1 r' /\ Mach (drop_scopes (S k) (pop_scope s3)) r' c' fc' rest' /\ c_values c' = cv v :: below_n /\
    kept fc fc' /\ Forall2 kept rest rest'.
Proof.
  intros BR newf c1 G D EF M B NT FN CH LT HB HC EV LBN.
  pose proof (enter_at s vars (compile_block b) None r1 c0 fcur restf G D EF M) as A.
  destruct (BR r1 c1 (set_base newf (length (c_values c0))) (fcur :: restf) (c_values c0) [] (S k) (set_base newf (length (c_values c0)) :: top) fn fc rest jn below_n
              A (fresh_one c1 (c_values c0) eq_refl) eq_refl eq_refl) as (r' & c' & fc' & rest' & S & MA & EV' & K & KR).
  { apply find_name_pop; assumption. } { cbn [app]. rewrite CH. reflexivity. } { cbn. rewrite LT. reflexivity. }
  { constructor; [cbn; rewrite EV, app_length; lia|exact HB]. } { exact HC. } { exact EV. } { exact LBN. }
  exists r', c', fc', rest'. split; [exact S|]. split; [rewrite <- drop_scopes_S; exact MA|]. split; [exact EV'|]. split; assumption.
Qed.

(* scopeName "t": the frame gets the name the scope gets *)
Lemma match_name s r c f rest t sc scs : c_frames c = f :: rest -> Match s r (f :: rest) -> st_scopes s = sc :: scs -> sc_name sc = "" ->
  f_scope f = "" /\
  Match (with_scopes s ({| sc_vars := sc_vars sc; sc_ns := sc_ns sc; sc_name := t |} :: scs)) r (set_scope f t :: rest).
Proof.
  intros EF [F N] ES EN. rewrite ES in F. inversion F as [|? ? ? ? (V & NS & BB & SN) F' E1 E2]; subst.
  split; [rewrite SN; exact EN|]. split; [|exact N]. cbn [st_scopes with_scopes]. constructor; [|exact F'].
  split; [exact V|split; [exact NS|split; [exact BB|reflexivity]]].
Qed.

(* ---------------------------------------------------------------- switch: what its frame does when the body's statements are done *)
(* the body's statements are done: the frame stands at the end of its code, or behind it (a chosen case skipped the rest) *)
Definition sw_done (f:frame) : Prop := f_pos f = length (f_code f) \/ f_pos f = S (length (f_code f)).
Definition sw_end (f:frame) : frame := set_pos f (S (length (f_code f))).
Lemma sw_first_stage f : sw_done f ->
  (if at_end f then (FDone, f) else ((if at_end (set_pos f (S (f_pos f))) then FDone else FOk), set_pos f (S (f_pos f)))) = (FDone, sw_end f).
Proof.
  unfold sw_done, sw_end, at_end. intros [P|P].
  - destruct (Nat.eqb_spec (f_pos f) (S (length (f_code f)))) as [E|_]; [lia|]. cbn [f_pos f_code set_pos]. rewrite P, Nat.eqb_refl. reflexivity.
  - rewrite P, Nat.eqb_refl. f_equal. rewrite <- P. destruct f; reflexivity.
Qed.

(* no block to run (none chosen, or the chosen one has run): the frame completes with the top of its part of the stack *)
Lemma sw_complete r c f fc rest sb top2 vals :
  Good r c -> quirks r = ([], 0) -> c_frames c = f :: fc :: rest -> sw_done f ->
  f_exit f = Some (BSwitch sb) -> f_die f = false ->
  (sb = true \/ exists a n h, assoc "___switch" (f_vars f) = Some (VSwitch a [] n h)) ->
  c_values c = top2 ++ vals -> length vals = f_base f ->
  let c4 := set_values (set_frames c (fc :: rest)) (match top2 with [] => VNil | x :: _ => x end :: vals) in
  Steps r (upd_cur r c4) /\ Good (upd_cur r c4) c4.
Proof.
  intros G D EF DN EX ED DONE EV LB c4. pose proof G as (C & X & St & E & M & MR & SU).
  split; [|apply (good_upd r c c4 G); exact SU].
  apply steps_cont_upd.
  unfold do_iter. rewrite X, C, SU, EF, St.
  destruct frame_fuel_S as [k Hk]. rewrite Hk. cbn [frame_next]. rewrite EF, (sw_first_stage f DN).
  assert (AE : at_end (sw_end f) = true) by (unfold at_end, sw_end; cbn; apply Nat.eqb_refl).
  cbn [f_exit sw_end set_pos f_die]. rewrite EX, ED. fold (sw_end f). rewrite AE. cbn [andb negb].
  assert (HE : exists b', enact (BSwitch sb) r (set_frames c (sw_end f :: fc :: rest)) = Ok (BrOk, b', r, set_frames c (sw_end f :: fc :: rest))).
  { cbn [enact]. destruct DONE as [->|(a & n & h & A)]; [eexists; reflexivity|].
    destruct sb; [eexists; reflexivity|]. cbn [c_frames set_frames sw_end f_vars set_pos]. rewrite A. eexists; reflexivity. }
  destruct HE as [b' HE]. rewrite HE. cbn [bindr]. rewrite E.
  unfold upd_top. cbn [c_frames set_frames set_values length]. rewrite Nat.eqb_refl.
  unfold defect. rewrite (quirks_defects _ D). cbn [existsb].
  match goal with |- context [pop_value ?x] => set (c1 := x) end.
  destruct top2 as [|x top2].
  - cbn [app] in EV.
    assert (P : pop_value c1 = None).
    { unfold pop_value. cbn [c_values c1 set_frames set_values c_frames f_base set_pos set_exit sw_end]. rewrite EV. destruct vals as [|v0 vals0]; [reflexivity|].
      destruct (Nat.leb_spec (length (v0 :: vals0)) (f_base f)) as [L|L]; [reflexivity|lia]. }
    rewrite P. unfold clear_values, pop_frame. cbn [c_frames c1 set_frames c_values f_base set_pos set_exit tl set_values sw_end].
    rewrite EV, LB, Nat.sub_diag. cbn [skipn]. unfold push_value. subst c4. cbn. rewrite ?EV. reflexivity.
  - cbn [app] in EV.
    assert (P : pop_value c1 = Some (x, set_values c1 (top2 ++ vals))).
    { apply (pop_value_top c1 (set_exit (sw_end f) (Some b')) (fc :: rest)); [reflexivity|exact EV|cbn; rewrite app_length; lia]. }
    rewrite P. unfold clear_values, pop_frame. cbn [c_frames c1 set_frames c_values f_base set_pos set_exit tl set_values sw_end].
    rewrite app_length, <- LB. replace (length top2 + length vals - length vals) with (length top2) by lia.
    rewrite skipn_app, skipn_all, Nat.sub_diag. cbn [skipn app]. unfold push_value. subst c4. cbn. reflexivity.
Qed.

(* a block has been chosen: its instructions are put into the frame (position 0, the behaviour remembers that it has switched; the
   variables and the operand stack stay), and the same pass executes the block's first instruction *)
Definition sw_frame (f:frame) (tgt:list instr) : frame := set_pos (set_code (set_exit (sw_end f) (Some (BSwitch true))) tgt) 0.

Lemma sw_step_real r c f rest0 a i0 code' n h r3 c5 :
  Good r c -> c_frames c = f :: rest0 -> sw_done f -> f_exit f = Some (BSwitch false) -> f_die f = false ->
  assoc "___switch" (f_vars f) = Some (VSwitch a (i0 :: code') n h) ->
  exec_instr i0 r (set_frames c (set_pos (sw_frame f (i0 :: code')) 1 :: rest0)) = Ok (r3, c5) ->
  r_err (upd_cur r3 c5) = false ->
  do_iter r = Ok (Executed (set_msgs (upd_cur r3 c5) [])).
Proof.
  intros G EF DN EX ED A EI NErr. pose proof G as (C & X & St & E & M & MR & SU).
  unfold do_iter. rewrite X, C, SU, EF, St.
  destruct frame_fuel_SS as [k Hk]. rewrite Hk.
  cbn [frame_next]. rewrite EF, (sw_first_stage f DN).
  assert (AE : at_end (sw_end f) = true) by (unfold at_end, sw_end; cbn; apply Nat.eqb_refl).
  cbn [f_exit sw_end set_pos f_die]. rewrite EX, ED. fold (sw_end f). rewrite AE. cbn [andb negb].
  cbn [enact c_frames set_frames sw_end f_vars set_pos]. rewrite A. cbn [bindr].
  unfold upd_top. cbn [c_frames set_frames].
  fold (sw_frame f (i0 :: code')).
  assert (B1 : at_end (sw_frame f (i0 :: code')) = false) by (unfold at_end; reflexivity).
  assert (B2 : at_end (set_pos (sw_frame f (i0 :: code')) (S (f_pos (sw_frame f (i0 :: code'))))) = false) by (unfold at_end; reflexivity).
  rewrite B1, B2. cbn [f_exit set_pos sw_frame set_exit set_code andb bindr]. rewrite E.
  unfold current_instr. cbn [c_frames set_frames f_code f_pos set_pos set_exit set_code sw_frame Nat.sub].
  cbn [nth_error]. rewrite MR. cbn [Z.eqb].
  match goal with |- context [exec_instr i0 r ?x] => replace x with (set_frames c (set_pos (sw_frame f (i0 :: code')) 1 :: rest0)) by (destruct c; reflexivity) end.
  rewrite EI. cbn [bindr]. rewrite NErr. reflexivity.
Qed.

Lemma sw_back r c f rest0 a i0 code' n h :
  Good r c -> c_frames c = f :: rest0 -> sw_done f -> f_exit f = Some (BSwitch false) -> f_die f = false ->
  ((exists v, i0 = IPush v) \/ (exists x, i0 = IGet x)) ->
  assoc "___switch" (f_vars f) = Some (VSwitch a (i0 :: code') n h) ->
  do_iter r = do_iter (upd_cur r (set_frames c (sw_frame f (i0 :: code') :: rest0))).
Proof.
  intros G EF DN EX ED LF A. pose proof G as (C & X & St & E & M & MR & SU).
  set (fV := sw_frame f (i0 :: code')). set (cV := set_frames c (fV :: rest0)).
  assert (GV : Good (upd_cur r cV) cV) by (apply (good_upd r c cV G); exact SU).
  set (cin := set_frames c (set_pos fV 1 :: rest0)).
  assert (NV : nth_error (f_code fV) (f_pos fV) = Some i0) by reflexivity.
  assert (EVr : forall r3 c5, exec_instr i0 (upd_cur r cV) cin = Ok (r3, c5) -> r_err (upd_cur r3 c5) = false ->
            do_iter (upd_cur r cV) = Ok (Executed (set_msgs (upd_cur r3 c5) []))).
  { intros r3 c5 H1 H2. apply (step_instr (upd_cur r cV) cV fV rest0 i0 r3 c5 GV eq_refl NV); [|exact H2].
    replace (set_frames cV (set_pos fV (S (f_pos fV)) :: rest0)) with cin by (unfold cin, cV; destruct c; reflexivity). exact H1. }
  assert (ERr : forall r3 c5, exec_instr i0 r cin = Ok (r3, c5) -> r_err (upd_cur r3 c5) = false ->
            do_iter r = Ok (Executed (set_msgs (upd_cur r3 c5) []))).
  { intros r3 c5 H1 H2. eapply sw_step_real; eauto. }
  destruct LF as [[v ->]|[x ->]].
  - rewrite (ERr r (push_value cin v)); [|reflexivity|rewrite err_upd_cur; exact E].
    rewrite (EVr (upd_cur r cV) (push_value cin v)); [|reflexivity|rewrite !err_upd_cur; exact E].
    rewrite upd_cur_twice. reflexivity.
  - cbn [exec_instr] in EVr, ERr. destruct (is_local x).
    + destruct (get_variable cin x) as [v|].
      * rewrite (ERr r (push_value cin v)); [|reflexivity|rewrite err_upd_cur; exact E].
        rewrite (EVr (upd_cur r cV) (push_value cin v)); [|reflexivity|rewrite !err_upd_cur; exact E].
        rewrite upd_cur_twice. reflexivity.
      * rewrite (ERr _ _ eq_refl); [|rewrite err_logmsg_warn; exact E].
        rewrite (EVr _ _ eq_refl); [|rewrite err_logmsg_warn, err_upd_cur; exact E].
        rewrite logmsg_upd_cur, upd_cur_twice. reflexivity.
    + cbn [c_frames cin set_values set_frames] in EVr, ERr. rewrite ns_get_upd_cur in EVr.
      destruct (ns_get r (f_ns (set_pos fV 1)) x) as [v|].
      * rewrite (ERr r (push_value cin v)); [|reflexivity|rewrite err_upd_cur; exact E].
        rewrite (EVr (upd_cur r cV) (push_value cin v)); [|reflexivity|rewrite !err_upd_cur; exact E].
        rewrite upd_cur_twice. reflexivity.
      * rewrite (ERr _ _ eq_refl); [|rewrite err_logmsg_warn; exact E].
        rewrite (EVr _ _ eq_refl); [|rewrite err_logmsg_warn, err_upd_cur; exact E].
        rewrite logmsg_upd_cur, upd_cur_twice. reflexivity.
Qed.

(* ---------------------------------------------------------------- switch: the body's statements on the machine *)
Definition sw_code (sw:swst) : list instr := match sw_target sw with Some b => compile_block b | None => [] end.
Definition sw_val (sw:swst) : value := VSwitch (cv (sw_v sw)) (sw_code sw) (sw_now sw) (sw_has sw).
(* the switch frame's hidden variable holds the bookkeeping *)
Definition SwInv (sw:swst) (f:frame) : Prop := assoc "___switch" (f_vars f) = Some (sw_val sw).

Lemma sw_val_see sw v : sw_val (sw_see sw v) = VSwitch (cv (sw_v sw)) (sw_code sw) (if veqb true (cv v) (cv (sw_v sw)) then true else sw_now sw) (sw_has sw).
Proof. unfold sw_val, sw_see, sw_code. cbn [sw_v sw_target sw_now sw_has]. rewrite veqb_cv. reflexivity. Qed.

Lemma mach_adv s r c f rest k vs : Mach s r c f rest -> Mach s (upd_cur r (adv c f rest k vs)) (adv c f rest k vs) (set_pos f (f_pos f + k)) rest.
Proof.
  intros (G & EF & M & B & D). split; [apply good_adv; exact G|]. split; [reflexivity|]. split; [apply match_upd, match_set_pos; exact M|].
  split; [unfold adv; cbn [c_values set_values f_base set_pos]; rewrite app_length; lia|rewrite quirks_upd_cur; exact D].
Qed.

Lemma pure_post s e v r c f rest pre post : pev (loc_of s) (glob_of s) e v -> Mach s r c f rest ->
  f_code f = pre ++ compile_expr e ++ post -> f_pos f = length pre ->
  exists r' c', Steps r r' /\ Mach s r' c' (set_pos f (f_pos f + length (compile_expr e))) rest /\
    c_values c' = cv v :: c_values c /\ cv v <> VNil.
Proof.
  intros HE MA EC EP. pose proof MA as (G & EF & M & B & D).
  destruct (proj1 (pure_sim _ _) e v HE r c f rest pre post G EF EC EP B (env_ok_of s r f rest M)) as [S1 NV].
  eexists _, _. split; [exact S1|]. split; [apply mach_adv; exact MA|split; [reflexivity|exact NV]].
Qed.

Lemma mach_push s r c f rest pre post v : Mach s r c f rest -> f_code f = pre ++ IPush v :: post -> f_pos f = length pre ->
  exists r' c', Steps r r' /\ Mach s r' c' (set_pos f (f_pos f + 1)) rest /\ c_values c' = v :: c_values c.
Proof.
  intros MA EC EP. pose proof MA as (G & EF & M & B & D).
  pose proof (run_push r c f rest pre post (IPush v) v G EF EC EP (fun c1 F1 => eq_refl)) as S1.
  eexists _, _. split; [exact S1|]. split; [apply mach_adv; exact MA|reflexivity].
Qed.

Lemma end_mach s r c f rest below pre post top : Mach s r c f rest -> c_values c = top ++ below -> length below = f_base f ->
  f_code f = pre ++ IEnd :: post -> f_pos f = length pre ->
  exists r' c', Steps r r' /\ Mach s r' c' (set_pos f (S (f_pos f))) rest /\ c_values c' = below.
Proof.
  intros (G & EF & M & B & D) EV LB EC EP.
  assert (N : nth_error (f_code f) (f_pos f) = Some IEnd) by (rewrite EC, EP; apply nth_error_mid).
  set (c1 := set_frames c (set_pos f (S (f_pos f)) :: rest)).
  assert (EX : exec_instr IEnd r c1 = Ok (r, set_values c1 below)).
  { cbn [exec_instr]. unfold clear_values. cbn [c_frames c1 set_frames set_pos f_base c_values]. rewrite EV, app_length, <- LB.
    replace (length top + length below - length below) with (length top) by lia. rewrite skipn_app, skipn_all, Nat.sub_diag. reflexivity. }
  destruct (run_one r c f rest IEnd _ G EF N EX) as [S1 G1].
  { destruct G as (_ & _ & _ & _ & _ & _ & SU). exact SU. }
  exists (upd_cur r (set_values c1 below)), (set_values c1 below). split; [exact S1|]. split; [|reflexivity].
  split; [exact G1|]. split; [reflexivity|]. split; [apply match_upd, match_set_pos; exact M|].
  split; [cbn; lia|rewrite quirks_upd_cur; exact D].
Qed.

(* an operator that rewrites the running frame (its hidden variable, its position) and leaves a value *)
Lemma mach_unary s r c f rest pre post n' w vals f3 y :
  Mach s r c f rest -> f_code f = pre ++ IUnary n' :: post -> f_pos f = length pre -> c_values c = w :: vals ->
  f_base f <= length vals -> w <> VNil ->
  op_unary (lower n') w r (set_values (set_frames c (set_pos f (S (f_pos f)) :: rest)) vals) =
    Ok (r, set_frames (set_values (set_frames c (set_pos f (S (f_pos f)) :: rest)) vals) (f3 :: rest), y) ->
  Match s r (f3 :: rest) -> f_base f3 = f_base f ->
  exists r' c', Steps r r' /\ Mach s r' c' f3 rest /\ c_values c' = y :: vals.
Proof.
  intros (G & EF & M & B & D) EC EP EV BV NW OP M3 B3.
  destruct (unary_run r c f rest pre post n' w vals _ y G EF EC EP EV BV NW OP) as [S1 G1].
  { destruct G as (_ & _ & _ & _ & _ & _ & SU). exact SU. }
  match type of G1 with Good _ ?x => exists (upd_cur r x), x end. split; [exact S1|]. split; [|reflexivity].
  split; [exact G1|]. split; [reflexivity|]. split; [apply match_upd; exact M3|]. split; [cbn; rewrite B3; lia|rewrite quirks_upd_cur; exact D].
Qed.
Lemma mach_binary s r c f rest pre post n' l w vals f3 y :
  Mach s r c f rest -> f_code f = pre ++ IBinary n' :: post -> f_pos f = length pre -> c_values c = w :: l :: vals ->
  f_base f <= length vals -> w <> VNil -> l <> VNil ->
  op_binary (lower n') l w r (set_values (set_frames c (set_pos f (S (f_pos f)) :: rest)) vals) =
    Ok (r, set_frames (set_values (set_frames c (set_pos f (S (f_pos f)) :: rest)) vals) (f3 :: rest), y) ->
  Match s r (f3 :: rest) -> f_base f3 = f_base f ->
  exists r' c', Steps r r' /\ Mach s r' c' f3 rest /\ c_values c' = y :: vals.
Proof.
  intros (G & EF & M & B & D) EC EP EV BV NW NL OP M3 B3.
  destruct (binary_run r c f rest pre post n' l w vals _ y G EF EC EP EV BV NW NL OP) as [S1 G1].
  { destruct G as (_ & _ & _ & _ & _ & _ & SU). exact SU. }
  match type of G1 with Good _ ?x => exists (upd_cur r x), x end. split; [exact S1|]. split; [|reflexivity].
  split; [exact G1|]. split; [reflexivity|]. split; [apply match_upd; exact M3|]. split; [cbn; rewrite B3; lia|rewrite quirks_upd_cur; exact D].
Qed.

(* the separator in front of a statement that is not the first one: the region is cleared *)
Lemma sw_sep s r c f rest below pre (first:bool) (tail:list instr) :
  Mach s r c f rest -> length below = f_base f -> Fresh c below ->
  f_code f = pre ++ (if first then [] else [IEnd]) ++ tail -> f_pos f = length pre ->
  exists r1 c1 p1, Steps r r1 /\ Mach s r1 c1 (set_pos f p1) rest /\ Fresh c1 below /\
     f_code f = (pre ++ (if first then [] else [IEnd])) ++ tail /\ p1 = length (pre ++ (if first then [] else [IEnd])).
Proof.
  intros MA LB (t & EV & UT) EC EP. destruct first; cbn [app] in *.
  - exists r, c, (f_pos f). split; [apply StepsRefl|]. split; [replace (set_pos f (f_pos f)) with f by (destruct f; reflexivity); exact MA|].
    split; [exists t; split; assumption|]. rewrite app_nil_r. split; [exact EC|exact EP].
  - destruct (end_mach s r c f rest below pre tail t MA EV LB EC EP) as (r1 & c1 & S1 & M1 & EV1).
    exists r1, c1, (S (f_pos f)). split; [exact S1|]. split; [exact M1|]. split; [apply fresh_nil; exact EV1|].
    rewrite <- app_assoc. split; [exact EC|]. rewrite app_length, EP. cbn. lia.
Qed.

(* an operator name that is not a sign: its operand is compiled as it stands, also when it is a number *)
Lemma compile_unary_case n x : lower n = "case" -> compile_expr (EUnary n x) = compile_expr x ++ [IUnary (lower n)].
Proof.
  intros HN. cbn [compile_expr].
  assert (N1 : String.eqb n "-" = false) by (destruct (String.eqb_spec n "-") as [->|]; [discriminate HN|reflexivity]).
  assert (N2 : String.eqb n "+" = false) by (destruct (String.eqb_spec n "+") as [->|]; [discriminate HN|reflexivity]).
  rewrite N1, N2. destruct x; reflexivity.
Qed.
Lemma compile_stmt_unary n x : lower n = "case" -> compile_stmt (SExpr (EUnary n x)) = compile_expr x ++ [IUnary (lower n)].
Proof. intros HN. cbn [compile_stmt]. apply compile_unary_case. exact HN. Qed.
Lemma compile_stmt_colon c k x blk : lower k = "case" ->
  compile_stmt (SExpr (EBinary c (EUnary k x) (ECode blk))) = compile_expr x ++ [IUnary (lower k); IPush (VCode (compile_block blk)); IBinary (lower c)].
Proof. intros HK. cbn [compile_stmt]. rewrite compile_binary, (compile_unary_case k x HK), compile_code, <- app_assoc. reflexivity. Qed.
Lemma compile_stmt_default n blk : compile_stmt (SExpr (EUnary n (ECode blk))) = [IPush (VCode (compile_block blk)); IUnary (lower n)].
Proof. cbn [compile_stmt]. rewrite compile_unary_nonlit by (intros ? ?; discriminate). rewrite compile_code. reflexivity. Qed.

Lemma fresh_cons c c1 below : Fresh c1 below -> c_values c = VNil :: c_values c1 -> Fresh c below.
Proof. intros (t & EV & UT) E. exists (VNil :: t). split; [rewrite E, EV; reflexivity|constructor; [reflexivity|exact UT]]. Qed.

(* the statements of a switch body, from a statement boundary: the bookkeeping in the hidden variable follows the reference
   semantics; at the end the frame stands at the end of its code - behind it when a block was chosen, which skips the rest *)
Lemma switch_body_vm s body sw sw' : zswitch s body sw sw' ->
  forall r c f rest below pre (first:bool), Mach s r c f rest -> length below = f_base f -> Fresh c below ->
    f_code f = pre ++ compile_block_from first body -> f_pos f = length pre -> SwInv sw f ->
    exists r' c' f', Steps r r' /\ Mach s r' c' f' rest /\ Fresh c' below /\
      (body <> [] -> exists t, c_values c' = VNil :: t ++ below) /\ (body = [] -> c_values c' = c_values c) /\
      moved f f' /\ SwInv sw' f' /\ (f_pos f' = length (f_code f') \/ f_pos f' = S (length (f_code f'))).
Proof.
  induction 1 as [sw|n x v st2 rest0 sw sw' HN HX HR IH|cc k x blk v rest0 sw sw' HC HK HX HD HR IH|cc k x blk v rest0 sw HC HK HX HD|n blk rest0 sw sw' HN HR IH];
    intros r c f rest below pre first MA LB FR EC EP SI.
  - (* end of the body *)
    exists r, c, f. split; [apply StepsRefl|]. split; [exact MA|]. split; [exact FR|]. split; [intros N; contradiction|]. split; [reflexivity|].
    split; [apply moved_refl|]. split; [exact SI|]. left. cbn [compile_block_from] in EC. rewrite app_nil_r in EC. rewrite EP, EC. reflexivity.
  - (* a label: case x; *)
    assert (EC' : f_code f = pre ++ (if first then [] else [IEnd]) ++ (compile_expr x ++ [IUnary (lower n)] ++ [IEnd] ++ compile_stmt st2 ++ compile_block_from false rest0)).
    { rewrite EC, compile_block_from_cons, (compile_stmt_unary n x HN), compile_block_from_cons, <- !app_assoc. reflexivity. }
    clear EC. rename EC' into EC.
    destruct (sw_sep s r c f rest below pre first (compile_expr x ++ [IUnary (lower n)] ++ [IEnd] ++ compile_stmt st2 ++ compile_block_from false rest0) MA LB FR EC EP) as (r1 & c1 & p1 & S1 & M1 & FR1 & EC1 & EP1).
    set (f1 := set_pos f p1) in *.
    destruct (pure_post s x v r1 c1 f1 rest (pre ++ (if first then [] else [IEnd])) ([IUnary (lower n)] ++ [IEnd] ++ compile_stmt st2 ++ compile_block_from false rest0) HX M1) as (r2 & c2 & S2 & M2 & EV2 & NV2).
    { cbn [f1 f_code set_pos]. rewrite EC. rewrite <- !app_assoc. reflexivity. } { exact EP1. }
    set (f2 := set_pos f1 (f_pos f1 + length (compile_expr x))) in *.
    pose proof M1 as (_ & _ & _ & B1 & _). destruct FR1 as (t1 & EV1 & UT1).
    set (fX := set_pos f2 (S (f_pos f2))).
    assert (AX : assoc "___switch" (f_vars fX) = Some (VSwitch (cv (sw_v sw)) (sw_code sw) (sw_now sw) (sw_has sw))) by exact SI.
    set (w1 := VSwitch (cv (sw_v sw)) (sw_code sw) (if veqb true (cv v) (cv (sw_v sw)) then true else sw_now sw) (sw_has sw)).
    destruct (mach_unary s r2 c2 f2 rest (pre ++ (if first then [] else [IEnd]) ++ compile_expr x) ([IEnd] ++ compile_stmt st2 ++ compile_block_from false rest0) (lower n) (cv v) (c_values c1)
                (set_sw fX w1) w1 M2) as (r3 & c3 & S3 & M3 & EV3).
    { cbn [f2 f1 f_code set_pos]. rewrite EC, <- !app_assoc. reflexivity. }
    { cbn [f2 f1 f_pos set_pos]. rewrite EP1, !app_length. lia. }
    { exact EV2. } { cbn; exact B1. } { exact NV2. }
    { rewrite lower_idem, HN. exact (op_case (cv v) r2 (set_values (set_frames c2 (fX :: rest)) (c_values c1)) fX rest _ _ _ _ eq_refl AX). }
    { apply match_set_sw, match_set_pos. destruct M2 as (_ & _ & MM & _). exact MM. } { reflexivity. }
    set (f3 := set_sw fX w1) in *.
    (* the separator of the next statement clears the label's value *)
    destruct (end_mach s r3 c3 f3 rest below (pre ++ (if first then [] else [IEnd]) ++ compile_expr x ++ [IUnary (lower n)]) (compile_stmt st2 ++ compile_block_from false rest0) (w1 :: t1) M3) as (r4 & c4 & S4 & M4 & EV4).
    { rewrite EV3, EV1. reflexivity. } { exact LB. }
    { cbn [f3 fX f2 f1 set_sw f_code set_pos set_vars]. rewrite EC, <- !app_assoc. reflexivity. }
    { cbn [f3 fX f2 f1 set_sw f_pos set_pos set_vars]. rewrite EP1, !app_length. cbn. lia. }
    destruct (IH r4 c4 (set_pos f3 (S (f_pos f3))) rest below (pre ++ (if first then [] else [IEnd]) ++ compile_expr x ++ [IUnary (lower n)] ++ [IEnd]) true M4) as (r5 & c5 & f5 & S5 & M5 & FR5 & NE5 & _ & MV5 & SI5 & P5).
    { exact LB. } { apply fresh_nil; exact EV4. }
    { cbn [f3 fX f2 f1 set_sw f_code set_pos set_vars]. rewrite EC, compile_block_from_cons, <- !app_assoc. reflexivity. }
    { cbn [f3 fX f2 f1 set_sw f_pos set_pos set_vars]. rewrite EP1, !app_length. cbn. lia. }
    { unfold SwInv. cbn [f_vars set_pos]. unfold f3. rewrite sw_after. rewrite sw_val_see. reflexivity. }
    exists r5, c5, f5. split; [eapply steps_trans; [exact S1|eapply steps_trans; [exact S2|eapply steps_trans; [exact S3|eapply steps_trans; [exact S4|exact S5]]]]|].
    split; [exact M5|]. split; [exact FR5|]. split; [intros _; apply NE5; discriminate|]. split; [intros N; discriminate N|].
    split; [|split; [exact SI5|exact P5]].
    eapply moved_trans; [|exact MV5]. unfold f3, fX, f2, f1, set_sw. destruct f; reflexivity.
  - (* case x : {..}, not chosen *)
    assert (EC' : f_code f = pre ++ (if first then [] else [IEnd]) ++ (compile_expr x ++ [IUnary (lower k); IPush (VCode (compile_block blk)); IBinary (lower cc)] ++ compile_block_from false rest0)).
    { rewrite EC, compile_block_from_cons, (compile_stmt_colon cc k x blk HK), <- !app_assoc. reflexivity. }
    clear EC. rename EC' into EC.
    destruct (sw_sep s r c f rest below pre first (compile_expr x ++ [IUnary (lower k); IPush (VCode (compile_block blk)); IBinary (lower cc)] ++ compile_block_from false rest0) MA LB FR EC EP) as (r1 & c1 & p1 & S1 & M1 & FR1 & EC1 & EP1).
    set (f1 := set_pos f p1) in *.
    destruct (pure_post s x v r1 c1 f1 rest (pre ++ (if first then [] else [IEnd])) ([IUnary (lower k); IPush (VCode (compile_block blk)); IBinary (lower cc)] ++ compile_block_from false rest0) HX M1) as (r2 & c2 & S2 & M2 & EV2 & NV2).
    { cbn [f1 f_code set_pos]. rewrite EC. rewrite <- !app_assoc. reflexivity. } { exact EP1. }
    set (f2 := set_pos f1 (f_pos f1 + length (compile_expr x))) in *.
    pose proof M1 as (_ & _ & _ & B1 & _). destruct FR1 as (t1 & EV1 & UT1).
    set (fX := set_pos f2 (S (f_pos f2))).
    assert (AX : assoc "___switch" (f_vars fX) = Some (VSwitch (cv (sw_v sw)) (sw_code sw) (sw_now sw) (sw_has sw))) by exact SI.
    set (w1 := VSwitch (cv (sw_v sw)) (sw_code sw) (if veqb true (cv v) (cv (sw_v sw)) then true else sw_now sw) (sw_has sw)).
    destruct (mach_unary s r2 c2 f2 rest (pre ++ (if first then [] else [IEnd]) ++ compile_expr x) ([IPush (VCode (compile_block blk)); IBinary (lower cc)] ++ compile_block_from false rest0) (lower k) (cv v) (c_values c1)
                (set_sw fX w1) w1 M2) as (r3 & c3 & S3 & M3 & EV3).
    { cbn [f2 f1 f_code set_pos]. rewrite EC, <- !app_assoc. reflexivity. }
    { cbn [f2 f1 f_pos set_pos]. rewrite EP1, !app_length. lia. }
    { exact EV2. } { cbn; exact B1. } { exact NV2. }
    { rewrite lower_idem, HK. exact (op_case (cv v) r2 (set_values (set_frames c2 (fX :: rest)) (c_values c1)) fX rest _ _ _ _ eq_refl AX). }
    { apply match_set_sw, match_set_pos. destruct M2 as (_ & _ & MM & _). exact MM. } { reflexivity. }
    set (f3 := set_sw fX w1) in *.
    destruct (mach_push s r3 c3 f3 rest (pre ++ (if first then [] else [IEnd]) ++ compile_expr x ++ [IUnary (lower k)]) ([IBinary (lower cc)] ++ compile_block_from false rest0) (VCode (compile_block blk)) M3) as (r4 & c4 & S4 & M4 & EV4).
    { cbn [f3 fX f2 f1 set_sw f_code set_pos set_vars]. rewrite EC, <- !app_assoc. reflexivity. }
    { cbn [f3 fX f2 f1 set_sw f_pos set_pos set_vars]. rewrite EP1, !app_length. cbn. lia. }
    set (f4 := set_pos f3 (f_pos f3 + 1)) in *.
    set (fY := set_pos f4 (S (f_pos f4))).
    assert (AY : assoc "___switch" (f_vars fY) = Some w1) by (cbn [fY f4 f_vars set_pos]; unfold f3; apply sw_after).
    assert (HD' : andb (negb (sw_has sw)) (if veqb true (cv v) (cv (sw_v sw)) then true else sw_now sw) = false).
    { rewrite veqb_cv. exact HD. }
    destruct (mach_binary s r4 c4 f4 rest (pre ++ (if first then [] else [IEnd]) ++ compile_expr x ++ [IUnary (lower k)] ++ [IPush (VCode (compile_block blk))]) (compile_block_from false rest0) (lower cc) w1 (VCode (compile_block blk)) (c_values c1)
                fY VNil M4) as (r5 & c5 & S5 & M5 & EV5).
    { cbn [f4 f3 fX f2 f1 set_sw f_code set_pos set_vars]. rewrite EC, <- !app_assoc. reflexivity. }
    { cbn [f4 f3 fX f2 f1 set_sw f_pos set_pos set_vars]. rewrite EP1, !app_length. cbn. lia. }
    { rewrite EV4, EV3. reflexivity. } { cbn; exact B1. } { discriminate. } { discriminate. }
    { rewrite lower_idem, HC. unfold w1 at 1. rewrite (op_colon _ _ _ _ (compile_block blk) r4 (set_values (set_frames c4 (fY :: rest)) (c_values c1)) fY rest _ _ _ _ eq_refl AY). rewrite HD'. reflexivity. }
    { apply match_set_pos. destruct M4 as (_ & _ & MM & _). exact MM. } { reflexivity. }
    destruct (IH r5 c5 fY rest below (pre ++ (if first then [] else [IEnd]) ++ compile_expr x ++ [IUnary (lower k); IPush (VCode (compile_block blk)); IBinary (lower cc)]) false M5) as (r6 & c6 & f6 & S6 & M6 & FR6 & NE6 & EQ6 & MV6 & SI6 & P6).
    { exact LB. } { exists (VNil :: t1). split; [rewrite EV5, EV1; reflexivity|constructor; [reflexivity|exact UT1]]. }
    { cbn [fY f4 f3 fX f2 f1 set_sw f_code set_pos set_vars]. rewrite EC, <- !app_assoc. reflexivity. }
    { cbn [fY f4 f3 fX f2 f1 set_sw f_pos set_pos set_vars]. rewrite EP1, !app_length. cbn. lia. }
    { unfold SwInv. rewrite AY. unfold w1. rewrite sw_val_see. reflexivity. }
    exists r6, c6, f6. split; [eapply steps_trans; [exact S1|eapply steps_trans; [exact S2|eapply steps_trans; [exact S3|eapply steps_trans; [exact S4|eapply steps_trans; [exact S5|exact S6]]]]]|].
    split; [exact M6|]. split; [exact FR6|]. split; [|split; [intros N; discriminate N|]].
    { intros _. destruct rest0 as [|st3 rest3]; [|apply NE6; discriminate]. exists t1. rewrite (EQ6 eq_refl), EV5, EV1. reflexivity. }
    split; [|split; [exact SI6|exact P6]].
    eapply moved_trans; [|exact MV6]. unfold fY, f4, f3, fX, f2, f1, set_sw. destruct f; reflexivity.
  - (* case x : {..}, chosen: the rest of the body is skipped *)
    assert (EC' : f_code f = pre ++ (if first then [] else [IEnd]) ++ (compile_expr x ++ [IUnary (lower k); IPush (VCode (compile_block blk)); IBinary (lower cc)] ++ compile_block_from false rest0)).
    { rewrite EC, compile_block_from_cons, (compile_stmt_colon cc k x blk HK), <- !app_assoc. reflexivity. }
    clear EC. rename EC' into EC.
    destruct (sw_sep s r c f rest below pre first (compile_expr x ++ [IUnary (lower k); IPush (VCode (compile_block blk)); IBinary (lower cc)] ++ compile_block_from false rest0) MA LB FR EC EP) as (r1 & c1 & p1 & S1 & M1 & FR1 & EC1 & EP1).
    set (f1 := set_pos f p1) in *.
    destruct (pure_post s x v r1 c1 f1 rest (pre ++ (if first then [] else [IEnd])) ([IUnary (lower k); IPush (VCode (compile_block blk)); IBinary (lower cc)] ++ compile_block_from false rest0) HX M1) as (r2 & c2 & S2 & M2 & EV2 & NV2).
    { cbn [f1 f_code set_pos]. rewrite EC. rewrite <- !app_assoc. reflexivity. } { exact EP1. }
    set (f2 := set_pos f1 (f_pos f1 + length (compile_expr x))) in *.
    pose proof M1 as (_ & _ & _ & B1 & _). destruct FR1 as (t1 & EV1 & UT1).
    set (fX := set_pos f2 (S (f_pos f2))).
    assert (AX : assoc "___switch" (f_vars fX) = Some (VSwitch (cv (sw_v sw)) (sw_code sw) (sw_now sw) (sw_has sw))) by exact SI.
    set (w1 := VSwitch (cv (sw_v sw)) (sw_code sw) (if veqb true (cv v) (cv (sw_v sw)) then true else sw_now sw) (sw_has sw)).
    destruct (mach_unary s r2 c2 f2 rest (pre ++ (if first then [] else [IEnd]) ++ compile_expr x) ([IPush (VCode (compile_block blk)); IBinary (lower cc)] ++ compile_block_from false rest0) (lower k) (cv v) (c_values c1)
                (set_sw fX w1) w1 M2) as (r3 & c3 & S3 & M3 & EV3).
    { cbn [f2 f1 f_code set_pos]. rewrite EC, <- !app_assoc. reflexivity. }
    { cbn [f2 f1 f_pos set_pos]. rewrite EP1, !app_length. lia. }
    { exact EV2. } { cbn; exact B1. } { exact NV2. }
    { rewrite lower_idem, HK. exact (op_case (cv v) r2 (set_values (set_frames c2 (fX :: rest)) (c_values c1)) fX rest _ _ _ _ eq_refl AX). }
    { apply match_set_sw, match_set_pos. destruct M2 as (_ & _ & MM & _). exact MM. } { reflexivity. }
    set (f3 := set_sw fX w1) in *.
    destruct (mach_push s r3 c3 f3 rest (pre ++ (if first then [] else [IEnd]) ++ compile_expr x ++ [IUnary (lower k)]) ([IBinary (lower cc)] ++ compile_block_from false rest0) (VCode (compile_block blk)) M3) as (r4 & c4 & S4 & M4 & EV4).
    { cbn [f3 fX f2 f1 set_sw f_code set_pos set_vars]. rewrite EC, <- !app_assoc. reflexivity. }
    { cbn [f3 fX f2 f1 set_sw f_pos set_pos set_vars]. rewrite EP1, !app_length. cbn. lia. }
    set (f4 := set_pos f3 (f_pos f3 + 1)) in *.
    set (fY := set_pos f4 (S (f_pos f4))).
    assert (AY : assoc "___switch" (f_vars fY) = Some w1) by (cbn [fY f4 f_vars set_pos]; unfold f3; apply sw_after).
    assert (HD' : andb (negb (sw_has sw)) (if veqb true (cv v) (cv (sw_v sw)) then true else sw_now sw) = true).
    { rewrite veqb_cv. exact HD. }
    set (fZ := set_pos (set_sw fY (VSwitch (cv (sw_v sw)) (compile_block blk) false true)) (S (length (f_code fY)))).
    destruct (mach_binary s r4 c4 f4 rest (pre ++ (if first then [] else [IEnd]) ++ compile_expr x ++ [IUnary (lower k)] ++ [IPush (VCode (compile_block blk))]) (compile_block_from false rest0) (lower cc) w1 (VCode (compile_block blk)) (c_values c1)
                fZ VNil M4) as (r5 & c5 & S5 & M5 & EV5).
    { cbn [f4 f3 fX f2 f1 set_sw f_code set_pos set_vars]. rewrite EC, <- !app_assoc. reflexivity. }
    { cbn [f4 f3 fX f2 f1 set_sw f_pos set_pos set_vars]. rewrite EP1, !app_length. cbn. lia. }
    { rewrite EV4, EV3. reflexivity. } { cbn; exact B1. } { discriminate. } { discriminate. }
    { rewrite lower_idem, HC. unfold w1 at 1. rewrite (op_colon _ _ _ _ (compile_block blk) r4 (set_values (set_frames c4 (fY :: rest)) (c_values c1)) fY rest _ _ _ _ eq_refl AY). rewrite HD'. reflexivity. }
    { apply match_set_pos, match_set_sw, match_set_pos. destruct M4 as (_ & _ & MM & _). exact MM. } { reflexivity. }
    exists r5, c5, fZ. split; [eapply steps_trans; [exact S1|eapply steps_trans; [exact S2|eapply steps_trans; [exact S3|eapply steps_trans; [exact S4|exact S5]]]]|].
    split; [exact M5|]. split; [exists (VNil :: t1); split; [rewrite EV5, EV1; reflexivity|constructor; [reflexivity|exact UT1]]|].
    split; [intros _; exists t1; rewrite EV5, EV1; reflexivity|]. split; [intros N; discriminate N|].
    split; [unfold fZ, fY, f4, f3, fX, f2, f1, set_sw; destruct f; reflexivity|].
    split; [unfold SwInv, fZ; cbn [f_vars set_pos]; rewrite sw_after; reflexivity|]. right. reflexivity.
  - (* default {..} *)
    assert (EC' : f_code f = pre ++ (if first then [] else [IEnd]) ++ ([IPush (VCode (compile_block blk)); IUnary (lower n)] ++ compile_block_from false rest0)).
    { rewrite EC, compile_block_from_cons, (compile_stmt_default n blk). reflexivity. }
    clear EC. rename EC' into EC.
    destruct (sw_sep s r c f rest below pre first ([IPush (VCode (compile_block blk)); IUnary (lower n)] ++ compile_block_from false rest0) MA LB FR EC EP) as (r1 & c1 & p1 & S1 & M1 & FR1 & EC1 & EP1).
    set (f1 := set_pos f p1) in *.
    pose proof M1 as (_ & _ & _ & B1 & _). destruct FR1 as (t1 & EV1 & UT1).
    destruct (mach_push s r1 c1 f1 rest (pre ++ (if first then [] else [IEnd])) ([IUnary (lower n)] ++ compile_block_from false rest0) (VCode (compile_block blk)) M1) as (r2 & c2 & S2 & M2 & EV2).
    { cbn [f1 f_code set_pos]. rewrite EC, <- !app_assoc. reflexivity. } { exact EP1. }
    set (f2 := set_pos f1 (f_pos f1 + 1)) in *.
    set (fX := set_pos f2 (S (f_pos f2))).
    assert (AX : assoc "___switch" (f_vars fX) = Some (VSwitch (cv (sw_v sw)) (sw_code sw) (sw_now sw) (sw_has sw))) by exact SI.
    set (w1 := VSwitch (cv (sw_v sw)) (if sw_has sw then sw_code sw else compile_block blk) (sw_now sw) (sw_has sw)).
    destruct (mach_unary s r2 c2 f2 rest (pre ++ (if first then [] else [IEnd]) ++ [IPush (VCode (compile_block blk))]) (compile_block_from false rest0) (lower n) (VCode (compile_block blk)) (c_values c1)
                (set_sw fX w1) VNil M2) as (r3 & c3 & S3 & M3 & EV3).
    { cbn [f2 f1 f_code set_pos]. rewrite EC, <- !app_assoc. reflexivity. }
    { cbn [f2 f1 f_pos set_pos]. rewrite EP1, !app_length. cbn. lia. }
    { exact EV2. } { cbn; exact B1. } { discriminate. }
    { rewrite lower_idem, HN. exact (op_default (compile_block blk) r2 (set_values (set_frames c2 (fX :: rest)) (c_values c1)) fX rest _ _ _ _ eq_refl AX). }
    { apply match_set_sw, match_set_pos. destruct M2 as (_ & _ & MM & _). exact MM. } { reflexivity. }
    set (f3 := set_sw fX w1) in *.
    destruct (IH r3 c3 f3 rest below (pre ++ (if first then [] else [IEnd]) ++ [IPush (VCode (compile_block blk)); IUnary (lower n)]) false M3) as (r6 & c6 & f6 & S6 & M6 & FR6 & NE6 & EQ6 & MV6 & SI6 & P6).
    { exact LB. } { exists (VNil :: t1). split; [rewrite EV3, EV1; reflexivity|constructor; [reflexivity|exact UT1]]. }
    { cbn [f3 fX f2 f1 set_sw f_code set_pos set_vars]. rewrite EC, <- !app_assoc. reflexivity. }
    { cbn [f3 fX f2 f1 set_sw f_pos set_pos set_vars]. rewrite EP1, !app_length. cbn. lia. }
    { unfold SwInv, f3. rewrite sw_after. unfold w1, sw_val, sw_dflt, sw_code. cbn [sw_v sw_target sw_now sw_has]. destruct (sw_has sw); reflexivity. }
    exists r6, c6, f6. split; [eapply steps_trans; [exact S1|eapply steps_trans; [exact S2|eapply steps_trans; [exact S3|exact S6]]]|].
    split; [exact M6|]. split; [exact FR6|]. split; [|split; [intros N; discriminate N|]].
    { intros _. destruct rest0 as [|st3 rest3]; [|apply NE6; discriminate]. exists t1. rewrite (EQ6 eq_refl), EV3, EV1. reflexivity. }
    split; [|split; [exact SI6|exact P6]].
    eapply moved_trans; [|exact MV6]. unfold f3, fX, f2, f1, set_sw. destruct f; reflexivity.
Qed.

Lemma pop_enter s vars : pop_scope (enter s vars) = s.
Proof. destruct s; reflexivity. Qed.

(* switch v do {..}: the new frame carries the bookkeeping, the body starts at a statement boundary *)
Lemma enter_sw s v code r1 c0 fc rest :
  let newf := mk_frame (cur_ns c0) code (Some (BSwitch false)) None [("___switch", VSwitch (cv v) [] false false)] in
  let c1 := push_value (push_frame c0 newf) VNil in
  Good r1 c1 -> quirks r1 = ([], 0) -> c_frames c0 = fc :: rest -> Match s r1 (fc :: rest) ->
  Mach (enter s []) r1 c1 (set_base newf (length (c_values c0))) (fc :: rest) /\ Fresh c1 (c_values c0) /\
  SwInv (sw_start v) (set_base newf (length (c_values c0))).
Proof.
  intros newf c1 G D EF M. split; [|split; [apply fresh_one; reflexivity|reflexivity]].
  split; [exact G|]. split; [cbn; rewrite EF; reflexivity|]. split; [|split; [cbn; lia|exact D]].
  destruct M as [F N]. split; [|exact N]. cbn. constructor; [|exact F].
  split; [intros k HK; cbn; unfold hidden in HK; rewrite HK; reflexivity|split; [|split; reflexivity]].
  cbn. unfold cur_ns. rewrite EF. inversion F as [|sc f0 scs fs (V & NS & BB) F' E1 E2]; subst.
  unfold cur_ns_of. rewrite <- E1. exact NS.
Qed.

(* ---------------------------------------------------------------- leaving a loop by a throw or by breakOut *)
(* what the machine does when the code of the running frame f is left by a throw / by breakOut "t" (the conclusions of ThrowRuns and
   BreakRuns, as one predicate over the kind of exit); s' is the reference state at the exit, the scopes down to f's closed *)
Definition Leaves0 (a:abr) (s':sstate) (r:rt) (f:frame) (restf:list frame) (below:list value) : Prop :=
  match a with
  | AThrow x => forall inner ft rest h jn below_t,
      f :: restf = inner ++ ft :: rest -> Forall (fun m => f_err m = None) inner -> f_err ft = Some (ECatch h) ->
      below = jn ++ below_t -> under jn -> length below_t = f_base ft ->
      exists r' c' rest' ft0, Steps r r' /\ Forall2 kept rest rest' /\ moved ft ft0 /\
        Caught (set_top_vars (drop_scopes (length inner) s') [("_exception", x)]) r' c' (handler_frame ft0 h (cv x)) rest' below_t
  | ABreak t v => forall k top fn fc rest jn below_n,
      find_name t (st_scopes s') 0 = Some k ->
      f :: restf = top ++ fn :: fc :: rest -> length top = k ->
      Forall (fun m => f_base fn <= f_base m) top -> f_base fc <= f_base fn ->
      below = jn ++ below_n -> length below_n = f_base fn ->
      exists r' c' fc' rest', Steps r r' /\ Mach (drop_scopes (S k) s') r' c' fc' rest' /\ c_values c' = cv v :: below_n /\
        kept fc fc' /\ Forall2 kept rest rest'
  end.
(* the same for a LOOP frame f at the start of a round: the handler's frame / the named frame lies below f (restf), and s' is the
   reference state with the scope of the loop closed as well; the loop frame and its part of the operand stack are gone *)
Definition LeavesL (a:abr) (s':sstate) (r:rt) (f:frame) (restf:list frame) (below:list value) : Prop :=
  match a with
  | AThrow x => forall inner ft rest h jn below_t,
      restf = inner ++ ft :: rest -> f_err f = None -> Forall (fun m => f_err m = None) inner -> f_err ft = Some (ECatch h) ->
      below = jn ++ below_t -> under jn -> length below_t = f_base ft ->
      exists r' c' rest' ft0, Steps r r' /\ r' <> r /\ Forall2 kept rest rest' /\ moved ft ft0 /\
        Caught (set_top_vars (drop_scopes (length inner) s') [("_exception", x)]) r' c' (handler_frame ft0 h (cv x)) rest' below_t
  | ABreak t v => forall k top fn fc rest jn below_n,
      find_name t (st_scopes s') 0 = Some k ->
      restf = top ++ fn :: fc :: rest -> length top = k ->
      f_base fn <= f_base f -> Forall (fun m => f_base fn <= f_base m) top -> f_base fc <= f_base fn ->
      below = jn ++ below_n -> length below_n = f_base fn ->
      exists r' c' fc' rest', Steps r r' /\ r' <> r /\ Mach (drop_scopes (S k) s') r' c' fc' rest' /\ c_values c' = cv v :: below_n /\
        kept fc fc' /\ Forall2 kept rest rest'
  end.

Lemma chain_keptL restf inner ft rest rest1 h :
  restf = inner ++ ft :: rest -> Forall (fun m => f_err m = None) inner -> f_err ft = Some (ECatch h) ->
  Forall2 kept restf rest1 ->
  exists inner1 ft1 rest1', rest1 = inner1 ++ ft1 :: rest1' /\ Forall (fun m => f_err m = None) inner1 /\
    f_err ft1 = Some (ECatch h) /\ kept ft ft1 /\ length inner1 = length inner /\ Forall2 kept rest rest1' /\ f_base ft1 = f_base ft.
Proof.
  intros -> HF HE K. destruct (Forall2_app_inv_l _ _ K) as (i1 & l2 & K1 & K2 & ->).
  inversion K2 as [|? ft1 ? r1' Kt Kr]; subst.
  exists i1, ft1, r1'. split; [reflexivity|]. split; [exact (kept_all_err _ _ K1 HF)|].
  split; [rewrite (kept_err _ _ Kt); exact HE|]. split; [exact Kt|]. split; [apply (forall2_length _ _ _ K1)|].
  split; [exact Kr|apply (kept_base _ _ Kt)].
Qed.
Lemma chain_keptLb restf top fn fc rest rest1 :
  restf = top ++ fn :: fc :: rest -> Forall2 kept restf rest1 -> Forall (fun m => f_base fn <= f_base m) top ->
  exists top1 fn1 fc1 rest1', rest1 = top1 ++ fn1 :: fc1 :: rest1' /\ length top1 = length top /\
    Forall (fun m => f_base fn1 <= f_base m) top1 /\ f_base fn1 = f_base fn /\ kept fc fc1 /\ Forall2 kept rest rest1'.
Proof.
  intros -> K HB. destruct (Forall2_app_inv_l _ _ K) as (i1 & l2 & K1 & K2 & ->).
  inversion K2 as [|? fn1 ? l3 Kn K3]; subst. inversion K3 as [|? fc1 ? r1' Kc Kr]; subst.
  exists i1, fn1, fc1, r1'. split; [reflexivity|]. split; [apply (forall2_length _ _ _ K1)|].
  split; [|split; [apply (kept_base _ _ Kn)|split; assumption]].
  clear - K1 HB Kn. induction K1 as [|a b l l' Kab _ IH]; [constructor|]. inversion HB; subst.
  constructor; [rewrite (kept_base _ _ Kn), (kept_base _ _ Kab); assumption|apply IH; assumption].
Qed.

(* a loop that leaves in a later round leaves: the machine gets from r to the (virtual) state rV at the start of the next round,
   from which every run that moves at all is a run from r *)
Lemma leavesL_transfer a s' r c f fc frest rV fV fc1 frest1 below :
  cur r = Some c -> c_frames c = f :: fc :: frest ->
  (forall r', Steps rV r' -> r' <> rV -> Steps r r') ->
  kept fc fc1 -> Forall2 kept frest frest1 -> f_err fV = f_err f -> f_base fV = f_base f ->
  LeavesL a s' rV fV (fc1 :: frest1) below -> LeavesL a s' r f (fc :: frest) below.
Proof.
  intros C EF HS Ka Kb EE EBs H. destruct a as [x|t v]; cbn [LeavesL] in *.
  - intros inner ft rest h jn below_t CH HE HF HErr EB UJ LBT.
    destruct (chain_keptL (fc :: frest) inner ft rest (fc1 :: frest1) h CH HF HErr) as (inner1 & ft1 & rest1' & CH1 & HF1 & HE1 & Kt & LEN1 & KR1 & FB1).
    { constructor; assumption. }
    destruct (H inner1 ft1 rest1' h jn below_t CH1) as (r' & c' & rest' & ft0 & ST & N & K & MT & CA).
    { rewrite EE; exact HE. } { exact HF1. } { exact HE1. } { exact EB. } { exact UJ. } { rewrite FB1; exact LBT. }
    exists r', c', rest', ft0. split; [apply HS; assumption|]. split.
    { pose proof CA as ((C' & _) & _ & EF' & _). eapply neq_by_frames; [exact C|exact C'|].
      assert (L : length (fc :: frest) = length inner + S (length rest)) by (rewrite CH, app_length; reflexivity).
      rewrite EF', EF. cbn [length] in *. rewrite (forall2_length _ _ _ K), (forall2_length _ _ _ KR1). lia. }
    split; [eapply kept_all_trans; eassumption|]. split; [eapply moved_trans; [apply kept_moved; exact Kt|exact MT]|].
    rewrite LEN1 in CA. exact CA.
  - intros k top fn fc0 rest jn below_n FN CH LT HBf0 HB HC EB LBN.
    destruct (chain_keptLb (fc :: frest) top fn fc0 rest (fc1 :: frest1) CH) as (top1 & fn1 & fc01 & rest1' & CH1 & LT1 & HB1 & FB1 & KC1 & KR1).
    { constructor; assumption. } { exact HB. }
    destruct (H k top1 fn1 fc01 rest1' jn below_n FN CH1) as (r' & c' & fc' & rest' & ST & N & M & EV & K & KR).
    { rewrite LT1; exact LT. } { rewrite FB1, EBs; exact HBf0. } { exact HB1. } { rewrite FB1, (kept_base _ _ KC1); exact HC. }
    { exact EB. } { rewrite FB1; exact LBN. }
    exists r', c', fc', rest'. split; [apply HS; assumption|]. split.
    { pose proof M as ((C' & _) & EF' & _). eapply neq_by_frames; [exact C|exact C'|].
      assert (L : length (fc :: frest) = length top + S (S (length rest))) by (rewrite CH, app_length; reflexivity).
      rewrite EF', EF. cbn [length] in *. rewrite (forall2_length _ _ _ KR), (forall2_length _ _ _ KR1). lia. }
    split; [exact M|]. split; [exact EV|]. split; [eapply kept_trans; eassumption|eapply kept_all_trans; eassumption].
Qed.

(* the round in which the body is left *)
Lemma leavesL_throw s reg code y s1 r c f restf below :
  ThrowRuns s reg code y s1 -> AtM s reg r c f restf below -> Fresh c below -> f_code f = code -> f_pos f = 0 ->
  LeavesL (AThrow y) (pop_scope s1) r f restf below.
Proof.
  intros TR A FR EC EP. cbn [LeavesL]. intros inner ft rest h jn below_t CH HE HF HErr EB UJ LBT.
  destruct (TR r c f restf below [] (f :: inner) ft rest h jn below_t A FR EC EP) as (r' & c' & rest' & ft0 & ST & K & MT & CA).
  { cbn [app]. rewrite CH. reflexivity. } { constructor; assumption. } { exact HErr. } { exact EB. } { exact UJ. } { exact LBT. }
  exists r', c', rest', ft0. split; [exact ST|]. split.
  { destruct A as ((G0 & EF0 & _) & _). destruct G0 as (C0 & _). pose proof CA as ((C' & _) & _ & EF' & _).
    eapply neq_by_frames; [exact C0|exact C'|].
    assert (L : length restf = length inner + S (length rest)) by (rewrite CH, app_length; reflexivity).
    rewrite EF', EF0. cbn [length] in *. rewrite (forall2_length _ _ _ K). lia. }
  split; [exact K|]. split; [exact MT|]. cbn [length] in CA. rewrite drop_scopes_S in CA. exact CA.
Qed.
Lemma leavesL_break s reg code t v s1 r c f restf below :
  BreakRuns s reg code t v s1 -> top_name s1 <> t -> AtM s reg r c f restf below -> Fresh c below -> f_code f = code -> f_pos f = 0 ->
  LeavesL (ABreak t v) (pop_scope s1) r f restf below.
Proof.
  intros BR TN A FR EC EP. cbn [LeavesL]. intros k top fn fc rest jn below_n FN CH LT HBf HB HC EB LBN.
  destruct (BR r c f restf below [] (S k) (f :: top) fn fc rest jn below_n A FR EC EP) as (r' & c' & fc' & rest' & ST & M & EV & K & KR).
  { apply find_name_pop; assumption. } { cbn [app]. rewrite CH. reflexivity. } { cbn [length]. rewrite LT. reflexivity. }
  { constructor; assumption. } { exact HC. } { exact EB. } { exact LBN. }
  exists r', c', fc', rest'. split; [exact ST|]. split.
  { destruct A as ((G0 & EF0 & _) & _). destruct G0 as (C0 & _). pose proof M as ((C' & _) & EF' & _).
    eapply neq_by_frames; [exact C0|exact C'|].
    assert (L : length restf = length top + S (S (length rest))) by (rewrite CH, app_length; reflexivity).
    rewrite EF', EF0. cbn [length] in *. rewrite (forall2_length _ _ _ KR). lia. }
  split; [rewrite <- drop_scopes_S; exact M|]. split; [exact EV|]. split; assumption.
Qed.

(* breakOut to the name the loop frame's own scope carries: the loop frame is the named one, the loop is over with the value *)
Lemma own_break s reg code t v s1 r c f fc frest below :
  BreakRuns s reg code t v s1 -> t <> "" -> top_name s1 = t -> AtM s reg r c f (fc :: frest) below -> Fresh c below ->
  f_code f = code -> f_pos f = 0 -> f_base fc <= length below ->
  exists r' c' fc' rest', Steps r r' /\ r' <> r /\ Mach (pop_scope s1) r' c' fc' rest' /\ c_values c' = cv v :: below /\
    kept fc fc' /\ Forall2 kept frest rest'.
Proof.
  intros BR NT TN A FR EC EP HBf. pose proof A as (_ & LB0 & _).
  destruct (BR r c f (fc :: frest) below [] 0 [] f fc frest [] below A FR EC EP) as (r' & c' & fc' & rest' & ST & M & EV & K & KR).
  { apply find_name_top; assumption. } { reflexivity. } { reflexivity. } { constructor. } { rewrite <- LB0. exact HBf. }
  { reflexivity. } { exact LB0. }
  exists r', c', fc', rest'. split; [exact ST|]. split.
  { destruct A as ((G0 & EF0 & _) & _). destruct G0 as (C0 & _). pose proof M as ((C' & _) & EF' & _).
    eapply neq_by_frames; [exact C0|exact C'|]. rewrite EF', EF0. cbn [length]. rewrite (forall2_length _ _ _ KR). lia. }
  split; [rewrite drop_scopes_S, drop_scopes_0 in M; exact M|]. split; [exact EV|]. split; assumption.
Qed.

(* from the statement that is the loop (running frame f, the operands evaluated, the operator executed: the loop frame nf is on top)
   to the loop frame *)
Lemma leaves0_of_loop a s' r r2 f f2 restf rest2 nf below topv :
  Steps r r2 -> moved f f2 -> Forall2 kept restf rest2 -> f_err nf = None -> f_base nf = length (topv ++ below) -> under topv ->
  LeavesL a s' r2 nf (f2 :: rest2) (topv ++ below) -> Leaves0 a s' r f restf below.
Proof.
  intros S0 MV K NE NB UT H. destruct a as [x|t v]; cbn [LeavesL Leaves0] in *.
  - intros inner ft rest h jn below_t CH HF HErr EB UJ LBT.
    destruct (chain_kept f restf inner ft rest f2 rest2 h (cv x) CH HF HErr MV K) as (inner1 & ft1 & rest1' & CH1 & HF1 & HE1 & HH1 & LEN1 & KR1 & FB1).
    destruct (H inner1 ft1 rest1' h (topv ++ jn) below_t CH1 NE HF1 HE1) as (r' & c' & rest' & ft0 & ST & _ & K' & MT & CA).
    { rewrite EB, app_assoc. reflexivity. } { apply Forall_app. split; assumption. } { rewrite FB1. exact LBT. }
    exists r', c', rest', ft0. split; [eapply steps_trans; eassumption|]. split; [eapply kept_all_trans; eassumption|].
    split; [eapply moved_trans; eassumption|]. rewrite LEN1 in CA. exact CA.
  - intros k top fn fc rest jn below_n FN CH LT HB HC EB LBN.
    destruct (chain_kept_b f restf top fn fc rest f2 rest2 CH MV K HB) as (top1 & fn1 & fc1 & rest1' & CH1 & LT1 & HB1 & FB1 & KC1 & KR1).
    destruct (H k top1 fn1 fc1 rest1' (topv ++ jn) below_n FN CH1) as (r' & c' & fc' & rest' & ST & _ & M & EV & K' & KR).
    { rewrite LT1. exact LT. } { rewrite FB1, NB, <- LBN, EB, !app_length. lia. } { exact HB1. }
    { rewrite FB1, (kept_base _ _ KC1). exact HC. } { rewrite EB, app_assoc. reflexivity. } { rewrite FB1. exact LBN. }
    exists r', c', fc', rest'. split; [eapply steps_trans; eassumption|]. split; [exact M|]. split; [exact EV|].
    split; [eapply kept_trans; eassumption|eapply kept_all_trans; eassumption].
Qed.

(* ---- one round of a loop over an array that runs normally and is followed by another *)
Lemma iter_round k s x x2 rest2 i body acc reg s1 acc1 r c f fc frest below allarr b :
  BodyEnds (enter s (kvars k i x)) (match i with O => RNil | _ => RNone end) (compile_block body) (BNorm reg) s1 ->
  kstep k x i reg acc = Some (true, acc1) -> kok k reg ->
  AtM (enter s (kvars k i x)) (match i with O => RNil | _ => RNone end) r c f (fc :: frest) below -> Fresh c below ->
  f_code f = compile_block body -> f_pos f = 0 -> f_exit f = Some b -> kb k allarr i acc b -> f_die f = false ->
  skipn i allarr = x :: x2 :: rest2 -> leaf_first body -> f_ns f = f_ns fc -> f_base fc <= length below ->
  exists rV cV fV fc1 frest1 b',
    (forall r', Steps rV r' -> r' <> rV -> Steps r r') /\
    AtM (enter (pop_scope s1) (kvars k (S i) x2)) RNone rV cV fV (fc1 :: frest1) below /\ Fresh cV below /\
    f_code fV = compile_block body /\ f_pos fV = 0 /\ f_exit fV = Some b' /\ kb k allarr (S i) acc1 b' /\ f_die fV = false /\
    skipn (S i) allarr = x2 :: rest2 /\ f_ns fV = f_ns fc1 /\ f_base fc1 <= length below /\
    kept fc fc1 /\ Forall2 kept frest frest1 /\ f_err fV = f_err f /\ f_base fV = f_base f.
Proof.
  intros IHb KS KO A FR EC EP EX KB ED SK LF ENS HBf.
  specialize (IHb r c f fc frest below [] A FR EC EP HBf). cbn in IHb.
  destruct IHb as (r1 & c1 & f1 & rest1 & S1 & A1 & MV1 & P1 & K1).
  inversion K1 as [|fa fc1 ra frest1 Ka Kb Ea Eb]; subst.
  destruct A1 as ((G1 & EF1 & (F1 & N1) & B1 & D1) & LB1 & top1 & EV1 & RR1).
  assert (XE : f_exit f1 = Some b) by (rewrite (moved_exit _ _ MV1); exact EX).
  assert (XD : f_die f1 = false) by (rewrite (moved_die _ _ MV1); exact ED).
  assert (XP : f_pos f1 = length (f_code f1)) by (rewrite P1, (moved_code _ _ MV1); reflexivity).
  inversion F1 as [|sc1 f0 scs1 fs1 FM1 F1' E1 E2]; subst.
  destruct (skipn_cons_nth _ _ _ _ SK) as [NX0 SK1].
  destruct LF as (i0 & code' & LC & LL).
  assert (EC1 : f_code f1 = i0 :: code') by (rewrite (moved_code _ _ MV1), EC; exact LC).
  destruct (kind_round k allarr i x x2 rest2 acc acc1 reg b r1 c1 f1 (fc1 :: frest1) top1 below SK KB KS KO EF1 EV1 LB1 RR1) as (b' & KB' & GR).
  pose proof (loop_back r1 c1 f1 (fc1 :: frest1) b b' (mvars (kvars k (S i) x2)) i0 code' below G1 EF1 XP XE XD EC1 LL GR) as LBk.
  set (fV := round_frame f1 b' (mvars (kvars k (S i) x2))) in *.
  set (cV := set_values (set_frames c1 (fV :: fc1 :: frest1)) below) in *.
  exists (upd_cur r1 cV), cV, fV, fc1, frest1, b'.
  split. { intros r' S4 N4. eapply steps_trans; [exact S1|eapply virtual_start; [exact LBk|apply cfg_upd_cur|exact S4|exact N4]]. }
  split.
  { split.
    - split; [apply (good_upd r1 c1 cV G1); destruct G1 as (_ & _ & _ & _ & _ & _ & SU); exact SU|]. split; [reflexivity|]. split.
      + apply match_upd. split; [|exact N1]. cbn. rewrite <- E1. cbn. constructor; [|exact F1'].
        split; [|split; [|cbn; split; [exact (proj1 (proj2 (proj2 FM1)))|reflexivity]]].
        * cbn. apply vars_match_mvars.
        * cbn. rewrite (moved_ns _ _ MV1), ENS, <- (kept_ns _ _ Ka).
          inversion F1' as [|sc2 f00 scs2 fs2 FM2 F1'' E3 E4]. destruct FM2 as (_ & NS2 & _).
          unfold cur_ns_of, pop_scope. cbn. rewrite <- E1. cbn. rewrite <- E3. exact NS2.
      + split; [cbn; rewrite LB1; lia|rewrite quirks_upd_cur; exact D1].
    - split; [cbn; exact LB1|]. exists []. split; [reflexivity|reflexivity]. }
  split. { nil_case. }
  split. { cbn. rewrite (moved_code _ _ MV1). exact EC. }
  split; [reflexivity|]. split; [reflexivity|]. split; [exact KB'|]. split; [cbn; exact XD|]. split; [exact SK1|].
  split. { cbn. rewrite (moved_ns _ _ MV1), ENS, (kept_ns _ _ Ka). reflexivity. }
  split. { rewrite (kept_base _ _ Ka). exact HBf. }
  split; [exact Ka|]. split; [exact Kb|]. split; [cbn; apply (moved_err _ _ MV1)|cbn; apply (moved_base _ _ MV1)].
Qed.

(* ---- one round of a for loop that runs normally and is followed by another *)
Lemma for_round_next var to st s x (first:bool) body reg s1 y r c f fc frest below :
  BodyEnds (enter s [(lower var, RNum x)]) (if first then RNil else RNone) (compile_block body) (BNorm reg) s1 ->
  hidden (lower var) = false -> top_var s1 (lower var) = Some (RNum y) -> beyond to st (y + st)%Z = false ->
  AtM (enter s [(lower var, RNum x)]) (if first then RNil else RNone) r c f (fc :: frest) below -> Fresh c below ->
  f_code f = compile_block body -> f_pos f = 0 -> f_exit f = Some (BFor var to st) -> f_die f = false ->
  leaf_first body -> f_ns f = f_ns fc -> f_base fc <= length below ->
  exists rV cV fV fc1 frest1,
    (forall r', Steps rV r' -> r' <> rV -> Steps r r') /\
    AtM (enter (pop_scope s1) [(lower var, RNum (y + st)%Z)]) RNone rV cV fV (fc1 :: frest1) below /\ Fresh cV below /\
    f_code fV = compile_block body /\ f_pos fV = 0 /\ f_exit fV = Some (BFor var to st) /\ f_die fV = false /\
    f_ns fV = f_ns fc1 /\ f_base fc1 <= length below /\
    kept fc fc1 /\ Forall2 kept frest frest1 /\ f_err fV = f_err f /\ f_base fV = f_base f.
Proof.
  intros IHb HV TV BY A FR EC EP EX ED LF ENS HBf.
  specialize (IHb r c f fc frest below [] A FR EC EP HBf). cbn in IHb.
  destruct IHb as (r1 & c1 & f1 & rest1 & S1 & A1 & MV1 & P1 & K1).
  inversion K1 as [|fa fc1 ra frest1 Ka Kb Ea Eb]; subst.
  destruct A1 as ((G1 & EF1 & (F1 & N1) & B1 & D1) & LB1 & top1 & EV1 & RR1).
  assert (XE : f_exit f1 = Some (BFor var to st)) by (rewrite (moved_exit _ _ MV1); exact EX).
  assert (XD : f_die f1 = false) by (rewrite (moved_die _ _ MV1); exact ED).
  assert (XP : f_pos f1 = length (f_code f1)) by (rewrite P1, (moved_code _ _ MV1); reflexivity).
  inversion F1 as [|sc1 f0 scs1 fs1 FM1 F1' E1 E2]; subst.
  assert (AV : assoc (lower var) (f_vars f1) = Some (VNum y)).
  { destruct FM1 as (V1 & _). rewrite (V1 (lower var) HV). unfold top_var in TV. rewrite <- E1 in TV. rewrite TV. reflexivity. }
  destruct LF as (i0 & code' & LC & LL).
  assert (EC1 : f_code f1 = i0 :: code') by (rewrite (moved_code _ _ MV1), EC; exact LC).
  pose proof (for_round var to st y r1 c1 f1 (fc1 :: frest1) top1 below EF1 EV1 LB1 AV BY) as GR.
  pose proof (loop_back r1 c1 f1 (fc1 :: frest1) _ _ _ i0 code' below G1 EF1 XP XE XD EC1 LL GR) as LBk.
  set (fV := round_frame f1 (BFor var to st) [(lower var, VNum (y + st)%Z)]) in *.
  set (cV := set_values (set_frames c1 (fV :: fc1 :: frest1)) below) in *.
  exists (upd_cur r1 cV), cV, fV, fc1, frest1.
  split. { intros r' S4 N4. eapply steps_trans; [exact S1|eapply virtual_start; [exact LBk|apply cfg_upd_cur|exact S4|exact N4]]. }
  split.
  { split.
    - split; [apply (good_upd r1 c1 cV G1); destruct G1 as (_ & _ & _ & _ & _ & _ & SU); exact SU|]. split; [reflexivity|]. split.
      + apply match_upd. split; [|exact N1]. cbn. rewrite <- E1. cbn. constructor; [|exact F1'].
        split; [|split; [|cbn; split; [exact (proj1 (proj2 (proj2 FM1)))|reflexivity]]].
        * cbn. apply (vars_match_mvars [(lower var, RNum (y + st)%Z)]).
        * cbn. rewrite (moved_ns _ _ MV1), ENS, <- (kept_ns _ _ Ka).
          inversion F1' as [|sc2 f00 scs2 fs2 FM2 F1'' E3 E4]. destruct FM2 as (_ & NS2 & _).
          unfold cur_ns_of, pop_scope. cbn. rewrite <- E1. cbn. rewrite <- E3. exact NS2.
      + split; [cbn; rewrite LB1; lia|rewrite quirks_upd_cur; exact D1].
    - split; [cbn; exact LB1|]. exists []. split; [reflexivity|reflexivity]. }
  split. { nil_case. }
  split. { cbn. rewrite (moved_code _ _ MV1). exact EC. }
  split; [reflexivity|]. split; [reflexivity|]. split; [cbn; exact XD|].
  split. { cbn. rewrite (moved_ns _ _ MV1), ENS, (kept_ns _ _ Ka). reflexivity. }
  split. { rewrite (kept_base _ _ Ka). exact HBf. }
  split; [exact Ka|]. split; [exact Kb|]. split; [cbn; apply (moved_err _ _ MV1)|cbn; apply (moved_base _ _ MV1)].
Qed.

(* ---- while: the condition has come out true, the body's instructions are in *)
Lemma while_cond_body cond body s (first:bool) s1 r c f fc frest below loops :
  BodyEnds (enter s []) (if first then RNil else RNone) (compile_block cond) (BNorm (RBool true)) s1 ->
  AtM (enter s []) (if first then RNil else RNone) r c f (fc :: frest) below -> Fresh c below ->
  f_code f = compile_block cond -> f_pos f = 0 ->
  f_exit f = Some (BWhile loops WCond (compile_block cond) (compile_block body)) -> f_die f = false ->
  leaf_first cond -> leaf_first body -> f_ns f = f_ns fc -> f_base fc <= length below ->
  exists rB cB fB fc1 frest1,
    (forall r', Steps rB r' -> r' <> rB -> Steps r r') /\
    AtM (set_top_vars s1 []) RNone rB cB fB (fc1 :: frest1) below /\ Fresh cB below /\
    f_code fB = compile_block body /\ f_pos fB = 0 /\
    f_exit fB = Some (BWhile loops WCode (compile_block cond) (compile_block body)) /\ f_die fB = false /\
    f_ns fB = f_ns fc1 /\ f_base fc1 <= length below /\
    kept fc fc1 /\ Forall2 kept frest frest1 /\ f_err fB = f_err f /\ f_base fB = f_base f.
Proof.
  intros IHc A FR EC EP EX ED LFc LFb ENS HBf.
  specialize (IHc r c f fc frest below [] A FR EC EP HBf). cbn in IHc.
  destruct IHc as (r1 & c1 & f1 & rest1 & S1 & A1 & MV1 & P1 & K1).
  inversion K1 as [|fa fc1 ra frest1 Ka Kb Ea Eb]; subst.
  destruct A1 as ((G1 & EF1 & (F1 & N1) & B1 & D1) & LB1 & top1 & EV1 & RR1).
  pose proof LFb as (ib & codeb & LCb & LLb). pose proof LFc as (ic & codec & LCc & LLc).
  assert (XE : f_exit f1 = Some (BWhile loops WCond (ic :: codec) (ib :: codeb))) by (rewrite (moved_exit _ _ MV1), EX, LCc, LCb; reflexivity).
  assert (XD : f_die f1 = false) by (rewrite (moved_die _ _ MV1); exact ED).
  assert (XP : f_pos f1 = length (f_code f1)) by (rewrite P1, (moved_code _ _ MV1); reflexivity).
  inversion F1 as [|sc1 f0 scs1 fs1 FM1 F1' E1 E2]; subst.
  destruct top1 as [|x0 t]; [discriminate RR1|]. destruct RR1 as (-> & _ & UT). cbn [cv app] in EV1.
  pose proof (while_to_body r1 c1 f1 (fc1 :: frest1) loops (ic :: codec) ib codeb t below EF1 EV1 LB1) as XB.
  pose proof (xloop_back r1 c1 f1 (fc1 :: frest1) _ _ ib codeb below G1 EF1 XP XE XD LLb XB) as LBk1.
  set (fB := xframe f1 (BWhile loops WCode (ic :: codec) (ib :: codeb)) (ib :: codeb)) in *.
  set (cB := set_values (set_frames c1 (fB :: fc1 :: frest1)) below) in *.
  assert (GB : Good (upd_cur r1 cB) cB) by (apply (good_upd r1 c1 cB G1); destruct G1 as (_ & _ & _ & _ & _ & _ & SU); exact SU).
  exists (upd_cur r1 cB), cB, fB, fc1, frest1.
  split. { intros r' S4 N4. eapply steps_trans; [exact S1|eapply virtual_start; [exact LBk1|apply cfg_upd_cur|exact S4|exact N4]]. }
  split.
  { split.
    - split; [exact GB|]. split; [reflexivity|]. split.
      + apply match_upd. unfold set_top_vars. rewrite <- E1. split; [|exact N1]. cbn. constructor; [|exact F1'].
        destruct FM1 as (_ & NS1 & BB1). split; [intros k; reflexivity|split; [cbn; exact NS1|cbn; exact BB1]].
      + split; [cbn; rewrite LB1; lia|rewrite quirks_upd_cur; exact D1].
    - split; [cbn; exact LB1|]. exists []. split; [reflexivity|reflexivity]. }
  split. { nil_case. }
  split. { cbn. rewrite LCb. reflexivity. }
  split; [reflexivity|]. split. { cbn. rewrite LCc, LCb. reflexivity. } split; [cbn; exact XD|].
  split. { cbn. rewrite (moved_ns _ _ MV1), ENS, (kept_ns _ _ Ka). reflexivity. }
  split. { rewrite (kept_base _ _ Ka). exact HBf. }
  split; [exact Ka|]. split; [exact Kb|]. split; [cbn; apply (moved_err _ _ MV1)|cbn; apply (moved_base _ _ MV1)].
Qed.

(* ---- while: the body has run out, the condition's instructions are back in *)
Lemma while_body_cond cond body s1 reg s2 r c f fc frest below loops :
  BodyEnds (set_top_vars s1 []) RNone (compile_block body) (BNorm reg) s2 ->
  AtM (set_top_vars s1 []) RNone r c f (fc :: frest) below -> Fresh c below ->
  f_code f = compile_block body -> f_pos f = 0 ->
  f_exit f = Some (BWhile loops WCode (compile_block cond) (compile_block body)) -> f_die f = false ->
  leaf_first cond -> leaf_first body -> f_ns f = f_ns fc -> f_base fc <= length below ->
  exists rC cC fC fc1 frest1 loops',
    (forall r', Steps rC r' -> r' <> rC -> Steps r r') /\
    AtM (enter (pop_scope s2) []) RNone rC cC fC (fc1 :: frest1) below /\ Fresh cC below /\
    f_code fC = compile_block cond /\ f_pos fC = 0 /\
    f_exit fC = Some (BWhile loops' WCond (compile_block cond) (compile_block body)) /\ f_die fC = false /\
    f_ns fC = f_ns fc1 /\ f_base fc1 <= length below /\
    kept fc fc1 /\ Forall2 kept frest frest1 /\ f_err fC = f_err f /\ f_base fC = f_base f.
Proof.
  intros IHb A FR EC EP EX ED LFc LFb ENS HBf.
  specialize (IHb r c f fc frest below [] A FR EC EP HBf). cbn [app length] in IHb.
  destruct IHb as (r2 & c2 & f2 & rest2 & S2 & A2 & MV2 & P2 & K2).
  pose proof LFb as (ib & codeb & LCb & LLb). pose proof LFc as (ic & codec & LCc & LLc).
  inversion K2 as [|fb fc2 rb frest2 Kc Kd Ec Ed]; subst.
  destruct A2 as ((G2 & EF2 & (F2 & N2) & B2 & D2) & LB2 & top2 & EV2 & RR2).
  set (loops' := if c_can_suspend c2 then loops else S loops).
  assert (XE2 : f_exit f2 = Some (BWhile loops WCode (ic :: codec) (ib :: codeb))) by (rewrite (moved_exit _ _ MV2), EX, LCc, LCb; reflexivity).
  assert (XD2 : f_die f2 = false) by (rewrite (moved_die _ _ MV2); exact ED).
  assert (XP2 : f_pos f2 = length (f_code f2)) by (rewrite P2, (moved_code _ _ MV2); reflexivity).
  inversion F2 as [|sc2 f00 scs2 fs2 FM2 F2' E3 E4]; subst.
  pose proof (while_to_cond r2 c2 f2 (fc2 :: frest2) loops ic codec (ib :: codeb) top2 below EF2 EV2 LB2 (quirks_loop _ D2)) as XC.
  pose proof (xloop_back r2 c2 f2 (fc2 :: frest2) _ _ ic codec below G2 EF2 XP2 XE2 XD2 LLc XC) as LBk2.
  fold loops' in LBk2.
  set (fC := xframe f2 (BWhile loops' WCond (ic :: codec) (ib :: codeb)) (ic :: codec)) in *.
  set (cC := set_values (set_frames c2 (fC :: fc2 :: frest2)) below) in *.
  exists (upd_cur r2 cC), cC, fC, fc2, frest2, loops'.
  split. { intros r' S4 N4. eapply steps_trans; [exact S2|eapply virtual_start; [exact LBk2|apply cfg_upd_cur|exact S4|exact N4]]. }
  split.
  { split.
    - split; [apply (good_upd r2 c2 cC G2); destruct G2 as (_ & _ & _ & _ & _ & _ & SU); exact SU|]. split; [reflexivity|]. split.
      + apply match_upd. split; [|exact N2]. cbn. rewrite <- E3. cbn. constructor; [|exact F2'].
        split; [intros k; reflexivity|split; [|cbn; split; [exact (proj1 (proj2 (proj2 FM2)))|reflexivity]]].
        cbn. rewrite (moved_ns _ _ MV2), ENS, <- (kept_ns _ _ Kc).
        inversion F2' as [|sc3 f000 scs3 fs3 FM3 F2'' E5 E6]. destruct FM3 as (_ & NS3 & _).
        unfold cur_ns_of, pop_scope. cbn. rewrite <- E3. cbn. rewrite <- E5. exact NS3.
      + split; [cbn; rewrite LB2; lia|rewrite quirks_upd_cur; exact D2].
    - split; [cbn; exact LB2|]. exists []. split; [reflexivity|reflexivity]. }
  split. { nil_case. }
  split. { cbn. rewrite LCc. reflexivity. }
  split; [reflexivity|]. split. { cbn. rewrite LCc, LCb. reflexivity. } split; [cbn; exact XD2|].
  split. { cbn. rewrite (moved_ns _ _ MV2), ENS, (kept_ns _ _ Kc). reflexivity. }
  split. { rewrite (kept_base _ _ Kc). exact HBf. }
  split; [exact Kc|]. split; [exact Kd|]. split; [cbn; apply (moved_err _ _ MV2)|cbn; apply (moved_base _ _ MV2)].
Qed.

(* ---- the machine-side statements about the new relations *)
Definition IterLeaves (k:lkind) (s:sstate) (arr:list rvalue) (i:nat) (body:list stmt) (acc:rvalue) (a:abr) (s':sstate) : Prop :=
  match arr with
  | [] => True
  | x :: rest0 =>
    forall r c f fc frest below allarr b,
      AtM (enter s (kvars k i x)) (match i with O => RNil | _ => RNone end) r c f (fc :: frest) below -> Fresh c below ->
      f_code f = compile_block body -> f_pos f = 0 -> f_exit f = Some b -> kb k allarr i acc b -> f_die f = false ->
      skipn i allarr = x :: rest0 -> leaf_first body -> f_ns f = f_ns fc -> f_base fc <= length below ->
      LeavesL a s' r f (fc :: frest) below
  end.
Definition ForLeaves (var:string) (to st:Z) (s:sstate) (x:Z) (first:bool) (body:list stmt) (a:abr) (s':sstate) : Prop :=
  forall r c f fc frest below,
    AtM (enter s [(lower var, RNum x)]) (if first then RNil else RNone) r c f (fc :: frest) below -> Fresh c below ->
    f_code f = compile_block body -> f_pos f = 0 -> f_exit f = Some (BFor var to st) -> f_die f = false ->
    leaf_first body -> f_ns f = f_ns fc -> f_base fc <= length below ->
    LeavesL a s' r f (fc :: frest) below.
Definition WhileLeaves (cond body:list stmt) (s:sstate) (first:bool) (a:abr) (s':sstate) : Prop :=
  forall r c f fc frest below loops,
    AtM (enter s []) (if first then RNil else RNone) r c f (fc :: frest) below -> Fresh c below ->
    f_code f = compile_block cond -> f_pos f = 0 ->
    f_exit f = Some (BWhile loops WCond (compile_block cond) (compile_block body)) -> f_die f = false ->
    leaf_first cond -> leaf_first body -> f_ns f = f_ns fc -> f_base fc <= length below ->
    LeavesL a s' r f (fc :: frest) below.
(* a loop standing as a statement of the running frame f *)
Definition ExprLeaves (s:sstate) (e:expr) (a:abr) (s':sstate) : Prop :=
  forall r c f restf pre post, Mach s r c f restf ->
    f_code f = pre ++ compile_expr e ++ post -> f_pos f = length pre -> Leaves0 a s' r f restf (c_values c).

(* ---------------------------------------------------------------- an exit raised inside an operand *)
(* what lies on the operand stack above the handler's / the named frame's base may be more than was said: nils for a throw (they stay
   under the handler's nil), anything for breakOut (pop_clearing drops it) *)
Definition pend_ok (a:abr) (pend:list value) : Prop := match a with AThrow _ => under pend | ABreak _ _ => True end.
Lemma leaves0_weaken a s' r f restf pend vals :
  pend_ok a pend -> Leaves0 a s' r f restf (pend ++ vals) -> Leaves0 a s' r f restf vals.
Proof.
  intros PO H. destruct a as [x|t v]; cbn [Leaves0 pend_ok] in *.
  - intros inner ft rest h jn below_t CH HF HErr EB UJ LBT.
    apply (H inner ft rest h (pend ++ jn) below_t CH HF HErr); [rewrite EB, app_assoc; reflexivity|apply Forall_app; split; assumption|exact LBT].
  - intros k top fn fc rest jn below_n FN CH LT HB HC EB LBN.
    apply (H k top fn fc rest (pend ++ jn) below_n FN CH LT HB HC); [rewrite EB, app_assoc; reflexivity|exact LBN].
Qed.
(* the running frame has moved on (operands evaluated: pend lies on the stack), the exit happens from there *)
Lemma leaves0_back a s' r r1 f f1 restf rest1 pend vals :
  Steps r r1 -> moved f f1 -> Forall2 kept restf rest1 -> pend_ok a pend ->
  Leaves0 a s' r1 f1 rest1 (pend ++ vals) -> Leaves0 a s' r f restf vals.
Proof.
  intros S0 MV K PO H. apply (leaves0_weaken a s' r f restf pend vals PO).
  destruct a as [x|t v]; cbn [Leaves0] in *.
  - intros inner ft rest h jn below_t CH HF HErr EB UJ LBT.
    destruct (chain_kept f restf inner ft rest f1 rest1 h (cv x) CH HF HErr MV K) as (inner1 & ft1 & rest1' & CH1 & HF1 & HE1 & HH1 & LEN1 & KR1 & FB1).
    destruct (H inner1 ft1 rest1' h jn below_t CH1 HF1 HE1 EB UJ) as (r' & c' & rest' & ft0 & ST & K' & MT & CA).
    { rewrite FB1. exact LBT. }
    exists r', c', rest', ft0. split; [eapply steps_trans; eassumption|]. split; [eapply kept_all_trans; eassumption|].
    split; [eapply moved_trans; eassumption|]. rewrite LEN1 in CA. exact CA.
  - intros k top fn fc rest jn below_n FN CH LT HB HC EB LBN.
    destruct (chain_kept_b f restf top fn fc rest f1 rest1 CH MV K HB) as (top1 & fn1 & fc1 & rest1' & CH1 & LT1 & HB1 & FB1 & KC1 & KR1).
    destruct (H k top1 fn1 fc1 rest1' jn below_n FN CH1) as (r' & c' & fc' & rest' & ST & M & EV & K' & KR).
    { rewrite LT1. exact LT. } { exact HB1. } { rewrite FB1, (kept_base _ _ KC1). exact HC. } { exact EB. } { rewrite FB1. exact LBN. }
    exists r', c', fc', rest'. split; [eapply steps_trans; eassumption|]. split; [exact M|]. split; [exact EV|].
    split; [eapply kept_trans; eassumption|eapply kept_all_trans; eassumption].
Qed.

(* a block entered as a new scope (call, then, else) by the running frame fc and left by a throw / by breakOut through that scope *)
Definition ScopeLeaves (s:sstate) (vars:list (string*rvalue)) (b:list stmt) (a:abr) (s':sstate) : Prop :=
  forall r1 c0 fc restf,
    let newf := mk_frame (cur_ns c0) (compile_block b) None None (mvars vars) in
    let c1 := push_value (push_frame c0 newf) VNil in
    Good r1 c1 -> quirks r1 = ([], 0) -> c_frames c0 = fc :: restf -> Match s r1 (fc :: restf) -> f_base fc <= length (c_values c0) ->
    Leaves0 a s' r1 fc restf (c_values c0).
Lemma scope_leaves_throw s vars b y s3 : ThrowRuns (enter s vars) RNil (compile_block b) y s3 -> ScopeLeaves s vars b (AThrow y) (pop_scope s3).
Proof.
  intros TR r1 c0 fc restf newf c1 G D EF M B. cbn [Leaves0]. intros inner ft rest h jn below_t CH HF HErr EB UJ LBT.
  exact (throw_in_scope s vars b y s3 r1 c0 fc restf inner ft rest h jn below_t TR G D EF M CH HF HErr EB UJ LBT).
Qed.
Lemma scope_leaves_break s vars b t v s3 : BreakRuns (enter s vars) RNil (compile_block b) t v s3 -> top_name s3 <> t ->
  ScopeLeaves s vars b (ABreak t v) (pop_scope s3).
Proof.
  intros BR TN r1 c0 fc restf newf c1 G D EF M B. cbn [Leaves0]. intros k top fn fc0 rest jn below_n FN CH LT HB HC EB LBN.
  exact (break_in_scope s vars b t v s3 r1 c0 fc restf k top fn fc0 rest jn below_n BR G D EF M B TN FN CH LT HB HC EB LBN).
Qed.
Lemma pend_ok_nil a : pend_ok a [].
Proof. destruct a; cbn; [constructor|exact I]. Qed.
(* ... read at a statement boundary (the shape of ThrowRuns / BreakRuns) *)
Lemma expr_leaves_atm s e a s' : ExprLeaves s e a s' ->
  forall reg r c f restf below pre post, AtM s reg r c f restf below -> Fresh c below ->
    f_code f = pre ++ compile_expr e ++ post -> f_pos f = length pre -> Leaves0 a s' r f restf below.
Proof.
  intros H reg r c f restf below pre post (MA & LB & top & EV & RR) FR EC EP.
  apply (leaves0_weaken a s' r f restf top below).
  { destruct a; cbn; [exact (fresh_under c top below EV FR)|exact I]. }
  rewrite <- EV. exact (H r c f restf pre post MA EC EP).
Qed.
Definition ElemsLeaves (s:sstate) (l:list expr) (a:abr) (s':sstate) : Prop :=
  forall r c f restf pre post, Mach s r c f restf ->
    f_code f = pre ++ flat_map compile_expr l ++ post -> f_pos f = length pre -> Leaves0 a s' r f restf (c_values c).

(* any binary operator that opens a loop frame: the operands are evaluated, the operator pushes the frame mkf, and from the start of
   the first round the loop leaves *)
Lemma loop_expr_leaves s n a x va vb s1 s2 vars0 (mkf : string -> frame) a' s3 :
  (forall r c f rest pre post, Mach s r c f rest -> f_code f = pre ++ compile_expr a ++ post -> f_pos f = length pre ->
     Post s1 (cv va) (length (compile_expr a)) r c f rest) ->
  (forall r c f rest pre post, Mach s1 r c f rest -> f_code f = pre ++ compile_expr x ++ post -> f_pos f = length pre ->
     Post s2 (cv vb) (length (compile_expr x)) r c f rest) ->
  cv va <> VNil -> cv vb <> VNil ->
  (forall r c0, op_binary (lower n) (cv va) (cv vb) r c0 = Ok (r, push_frame c0 (mkf (cur_ns c0)), VNil)) ->
  (forall ns, f_err (mkf ns) = None /\ f_ns (mkf ns) = ns /\ f_bubble (mkf ns) = true /\ f_scope (mkf ns) = "" /\
              vars_match vars0 (f_vars (mkf ns))) ->
  (forall r c fc frest below, AtM (enter s2 vars0) RNil r c (set_base (mkf (f_ns fc)) (length below)) (fc :: frest) below ->
     Fresh c below -> f_base fc <= length below -> LeavesL a' s3 r (set_base (mkf (f_ns fc)) (length below)) (fc :: frest) below) ->
  ExprLeaves s (EBinary n a x) a' s3.
Proof.
  intros IHa IHx NA NB OP MK HL r c f restf pre post MA EC EP.
  rewrite compile_binary in EC. rewrite <- !app_assoc in EC.
  post_intro (IHa r c f restf pre (compile_expr x ++ [IBinary (lower n)] ++ post) MA EC EP) r1 c1 f1 rest1 S1 M1 EV1 MV1 P1 K1.
  destruct (after_operands_code f f1 pre _ _ MV1 EC EP P1) as [EC1 EP1].
  post_intro (IHx r1 c1 f1 rest1 (pre ++ compile_expr a) ([IBinary (lower n)] ++ post) M1 EC1 EP1) r2 c2 f2 rest2 S2 M2 EV2 MV2 P2 K2.
  destruct (after_operands_code f1 f2 _ _ _ MV2 EC1 EP1 P2) as [EC2 EP2].
  destruct M2 as (G2 & EF2 & MM2 & B2 & D2). destruct MA as (_ & _ & _ & B & _).
  rewrite EV1 in EV2.
  set (c0 := set_values (set_frames c2 (set_pos f2 (S (f_pos f2)) :: rest2)) (c_values c)).
  assert (NS0 : cur_ns c0 = f_ns (set_pos f2 (S (f_pos f2)))) by reflexivity.
  set (lf := mkf (cur_ns c0)).
  destruct (binary_run r2 c2 f2 rest2 _ _ (lower n) (cv va) (cv vb) (c_values c) (push_frame c0 lf) VNil G2 EF2 EC2 EP2 EV2) as [S3 G3].
  { rewrite (moved_base _ _ MV2), (moved_base _ _ MV1); exact B. } { exact NB. } { exact NA. }
  { rewrite lower_idem. apply OP. }
  { destruct G2 as (_ & _ & _ & _ & _ & _ & SU); exact SU. }
  destruct (MK (cur_ns c0)) as (ME & MN & MB & MS & MV).
  assert (HL' := HL (upd_cur r2 (push_value (push_frame c0 lf) VNil)) (push_value (push_frame c0 lf) VNil) (set_pos f2 (S (f_pos f2))) rest2 (c_values c)).
  rewrite <- NS0 in HL'. fold lf in HL'.
  eapply (leaves0_of_loop a' s3 r _ f (set_pos f2 (S (f_pos f2))) restf rest2 (set_base lf (length (c_values c))) (c_values c) []).
  - eapply steps_trans; [exact S1|eapply steps_trans; [exact S2|exact S3]].
  - eapply moved_trans; [exact MV1|eapply moved_trans; [exact MV2|apply moved_set_pos]].
  - eapply kept_all_trans; eassumption.
  - cbn [f_err set_base]. exact ME.
  - reflexivity.
  - constructor.
  - apply HL'.
    + split.
      * split; [exact G3|]. split; [reflexivity|]. split.
        -- apply match_upd. destruct MM2 as [F N]. split; [|exact N]. cbn [enter push_scope with_scopes st_scopes]. inversion F as [|sc f0 scs fs FM F' E1 E2]; subst.
           constructor; [|constructor; [exact FM|exact F']].
           split; [cbn [sc_vars mk_scope f_vars set_base]; exact MV|split; [|split]].
           ++ cbn [f_ns set_base sc_ns mk_scope]. unfold lf. rewrite MN, NS0. cbn [f_ns set_pos]. destruct FM as (_ & NS & _). unfold cur_ns_of. rewrite <- E1. exact NS.
           ++ cbn [f_bubble set_base]. exact MB.
           ++ cbn [f_scope set_base sc_name mk_scope]. exact MS.
        -- split; [cbn; lia|rewrite quirks_upd_cur; exact D2].
      * split; [reflexivity|]. exists [VNil]. split; [reflexivity|]. split; [reflexivity|]. split; [discriminate|nil_case].
    + apply fresh_one; reflexivity.
    + cbn. rewrite (moved_base _ _ MV2), (moved_base _ _ MV1); exact B.
Qed.

(* ---------------------------------------------------------------- switch: the chosen block is left early *)
(* leaves0_of_loop for a frame nf that the machine reaches only through a virtual state r2 (every run from r2 that moves is a run from r) *)
Lemma leaves0_via a s' r r2 f f2 restf rest2 nf below topv :
  (forall r', Steps r2 r' -> r' <> r2 -> Steps r r') -> moved f f2 -> Forall2 kept restf rest2 -> f_err nf = None ->
  f_base nf = length (topv ++ below) -> under topv ->
  LeavesL a s' r2 nf (f2 :: rest2) (topv ++ below) -> Leaves0 a s' r f restf below.
Proof.
  intros S0 MV K NE NB UT H. destruct a as [x|t v]; cbn [LeavesL Leaves0] in *.
  - intros inner ft rest h jn below_t CH HF HErr EB UJ LBT.
    destruct (chain_kept f restf inner ft rest f2 rest2 h (cv x) CH HF HErr MV K) as (inner1 & ft1 & rest1' & CH1 & HF1 & HE1 & HH1 & LEN1 & KR1 & FB1).
    destruct (H inner1 ft1 rest1' h (topv ++ jn) below_t CH1 NE HF1 HE1) as (r' & c' & rest' & ft0 & ST & N' & K' & MT & CA).
    { rewrite EB, app_assoc. reflexivity. } { apply Forall_app. split; assumption. } { rewrite FB1. exact LBT. }
    exists r', c', rest', ft0. split; [apply S0; assumption|]. split; [eapply kept_all_trans; eassumption|].
    split; [eapply moved_trans; eassumption|]. rewrite LEN1 in CA. exact CA.
  - intros k top fn fc rest jn below_n FN CH LT HB HC EB LBN.
    destruct (chain_kept_b f restf top fn fc rest f2 rest2 CH MV K HB) as (top1 & fn1 & fc1 & rest1' & CH1 & LT1 & HB1 & FB1 & KC1 & KR1).
    destruct (H k top1 fn1 fc1 rest1' (topv ++ jn) below_n FN CH1) as (r' & c' & fc' & rest' & ST & N' & M & EV & K' & KR).
    { rewrite LT1. exact LT. } { rewrite FB1, NB, <- LBN, EB, !app_length. lia. } { exact HB1. }
    { rewrite FB1, (kept_base _ _ KC1). exact HC. } { rewrite EB, app_assoc. reflexivity. } { rewrite FB1. exact LBN. }
    exists r', c', fc', rest'. split; [apply S0; assumption|]. split; [exact M|]. split; [exact EV|].
    split; [eapply kept_trans; eassumption|eapply kept_all_trans; eassumption].
Qed.

(* switch v do {..} up to the start of the chosen block: the operands, the operator, the statements of the body, and the pass that puts
   the block's instructions into the switch frame (a virtual state: that pass also executes the block's first instruction) *)
Lemma switch_to_block s n a b v body s1 s2 sw t ts r c f rest pre post :
  lower n = "do" ->
  (forall r c f rest pre post, Mach s r c f rest -> f_code f = pre ++ compile_expr a ++ post -> f_pos f = length pre ->
     Post s1 (cv (RSwitch v)) (length (compile_expr a)) r c f rest) ->
  (forall r c f rest pre post, Mach s1 r c f rest -> f_code f = pre ++ compile_expr b ++ post -> f_pos f = length pre ->
     Post s2 (cv (RCode body)) (length (compile_expr b)) r c f rest) ->
  zswitch (enter s2 []) body (sw_start v) sw -> sw_target sw = Some (t :: ts) -> leaf_first (t :: ts) ->
  Mach s r c f rest -> f_code f = pre ++ compile_expr a ++ compile_expr b ++ [IBinary (lower n)] ++ post -> f_pos f = length pre ->
  exists rV cV fV fcur rest2,
    (forall r', Steps rV r' -> r' <> rV -> Steps r r') /\
    AtM (enter s2 []) RNil rV cV fV (fcur :: rest2) (c_values c) /\ Fresh cV (c_values c) /\
    f_code fV = compile_block (t :: ts) /\ f_pos fV = 0 /\ f_exit fV = Some (BSwitch true) /\ f_die fV = false /\ f_err fV = None /\
    moved f fcur /\ f_pos fcur = f_pos f + (length (compile_expr a) + (length (compile_expr b) + 1)) /\ Forall2 kept rest rest2 /\
    f_base fcur <= length (c_values c).
Proof.
  intros HN IHa IHb HW HT LF MA EC EP.
  post_intro (IHa r c f rest pre (compile_expr b ++ [IBinary (lower n)] ++ post) MA EC EP) r1 c1 f1 rest1 S1 M1 EV1 MV1 P1 K1.
  destruct (after_operands_code f f1 pre _ _ MV1 EC EP P1) as [EC1 EP1].
  post_intro (IHb r1 c1 f1 rest1 (pre ++ compile_expr a) ([IBinary (lower n)] ++ post) M1 EC1 EP1) r2 c2 f2 rest2 S2 M2 EV2 MV2 P2 K2.
  destruct (after_operands_code f1 f2 _ _ _ MV2 EC1 EP1 P2) as [EC2 EP2].
  destruct M2 as (G2 & EF2 & MM2 & B2 & D2). destruct MA as (_ & _ & _ & B & _).
  rewrite EV1 in EV2.
  set (fcur := set_pos f2 (S (f_pos f2))).
  set (c0 := set_values (set_frames c2 (fcur :: rest2)) (c_values c)).
  set (newf := mk_frame (cur_ns c0) (compile_block body) (Some (BSwitch false)) None [("___switch", VSwitch (cv v) [] false false)]).
  destruct (binary_run r2 c2 f2 rest2 _ _ (lower n) (cv (RSwitch v)) (cv (RCode body)) (c_values c)
              (push_frame c0 newf) VNil G2 EF2 EC2 EP2 EV2) as [S3 G3].
  { rewrite (moved_base _ _ MV2), (moved_base _ _ MV1); exact B. } { discriminate. } { discriminate. }
  { rewrite lower_idem, HN. reflexivity. }
  { destruct G2 as (_ & _ & _ & _ & _ & _ & SU); exact SU. }
  destruct (enter_sw s2 v (compile_block body) _ c0 fcur rest2 G3) as (M3 & FR3 & SI3).
  { rewrite quirks_upd_cur; exact D2. } { reflexivity. } { apply match_upd, match_set_pos; exact MM2. }
  set (nf := set_base newf (length (c_values c0))) in *.
  destruct (switch_body_vm _ _ _ _ HW _ _ nf (fcur :: rest2) (c_values c0) [] true M3 eq_refl FR3 eq_refl eq_refl SI3)
    as (r4 & c4 & f4 & S4 & M4 & (t4 & EV4 & UT4) & NE4 & _ & MV4 & SI4 & DN4).
  assert (BN : body <> []).
  { intros ->. inversion HW; subst. cbn in HT. discriminate HT. }
  destruct (NE4 BN) as (t5 & EV5). rewrite EV5 in EV4.
  assert (t4 = VNil :: t5) by (apply (app_inv_tail (c_values c0)); rewrite <- EV4; reflexivity). subst t4.
  pose proof M4 as (G4 & EF4 & MM4 & B4 & D4).
  destruct LF as (i0 & code' & LC & LL).
  assert (A4 : assoc "___switch" (f_vars f4) = Some (VSwitch (cv (sw_v sw)) (i0 :: code') (sw_now sw) (sw_has sw))).
  { unfold SwInv, sw_val, sw_code in SI4. rewrite HT, LC in SI4. exact SI4. }
  assert (X4 : f_exit f4 = Some (BSwitch false)) by (rewrite (moved_exit _ _ MV4); reflexivity).
  assert (E4 : f_die f4 = false) by (rewrite (moved_die _ _ MV4); reflexivity).
  pose proof (sw_back r4 c4 f4 (fcur :: rest2) _ i0 code' _ _ G4 EF4 DN4 X4 E4 LL A4) as BK.
  set (fV := sw_frame f4 (i0 :: code')) in *. set (cV := set_frames c4 (fV :: fcur :: rest2)) in *.
  assert (GV : Good (upd_cur r4 cV) cV) by (apply (good_upd r4 c4 cV G4); destruct G4 as (_ & _ & _ & _ & _ & _ & SU); exact SU).
  assert (AV : AtM (enter s2 []) RNil (upd_cur r4 cV) cV fV (fcur :: rest2) (c_values c0)).
  { split.
    - split; [exact GV|]. split; [reflexivity|]. split.
      + apply match_upd. destruct MM4 as [F N]. split; [|exact N]. inversion F as [|sc f0 scs fs (V & NS & BB) F' E1 E2]; subst.
        constructor; [|exact F']. split; [exact V|split; [exact NS|exact BB]].
      + split; [cbn; rewrite EV5; cbn; rewrite app_length, (moved_base _ _ MV4); cbn; lia|rewrite quirks_upd_cur; exact D4].
    - split; [cbn; rewrite (moved_base _ _ MV4); reflexivity|]. exists (VNil :: t5). split; [exact EV5|].
      split; [reflexivity|]. split; [discriminate|inversion UT4; assumption]. }
  exists (upd_cur r4 cV), cV, fV, fcur, rest2.
  split.
  { intros r' S' N'. eapply steps_trans; [exact S1|eapply steps_trans; [exact S2|eapply steps_trans; [exact S3|eapply steps_trans; [exact S4|]]]].
    eapply virtual_start; [exact BK|apply cfg_upd_cur|exact S'|exact N']. }
  split; [exact AV|]. split. { exists (VNil :: t5). split; [exact EV5|exact UT4]. }
  split. { cbn [fV sw_frame f_code set_pos set_code]. rewrite LC. reflexivity. }
  split; [reflexivity|]. split; [reflexivity|]. split; [cbn; exact E4|].
  split. { cbn. rewrite (moved_err _ _ MV4). reflexivity. }
  split. { eapply moved_trans; [exact MV1|eapply moved_trans; [exact MV2|apply moved_set_pos]]. }
  split. { cbn. rewrite P2, P1. lia. }
  split; [eapply kept_all_trans; eassumption|].
  cbn. rewrite (moved_base _ _ MV2), (moved_base _ _ MV1); exact B.
Qed.

(* the chosen block of a switch standing as a statement is left by a throw / by breakOut to a scope outside the switch *)
Lemma switch_expr_leaves s n a b v body s1 s2 sw t ts ab s4 :
  lower n = "do" ->
  (forall r c f rest pre post, Mach s r c f rest -> f_code f = pre ++ compile_expr a ++ post -> f_pos f = length pre ->
     Post s1 (cv (RSwitch v)) (length (compile_expr a)) r c f rest) ->
  (forall r c f rest pre post, Mach s1 r c f rest -> f_code f = pre ++ compile_expr b ++ post -> f_pos f = length pre ->
     Post s2 (cv (RCode body)) (length (compile_expr b)) r c f rest) ->
  zswitch (enter s2 []) body (sw_start v) sw -> sw_target sw = Some (t :: ts) -> leaf_first (t :: ts) ->
  (forall r c f restf below, AtM (enter s2 []) RNil r c f restf below -> Fresh c below -> f_code f = compile_block (t :: ts) -> f_pos f = 0 ->
     LeavesL ab (pop_scope s4) r f restf below) ->
  ExprLeaves s (EBinary n a b) ab (pop_scope s4).
Proof.
  intros HN IHa IHb HW HT LF HL r c f restf pre post MA EC EP.
  rewrite compile_binary in EC. rewrite <- !app_assoc in EC.
  destruct (switch_to_block s n a b v body s1 s2 sw t ts r c f restf pre post HN IHa IHb HW HT LF MA EC EP)
    as (rV & cV & fV & fcur & rest2 & HS & AV & FRV & ECV & EPV & EXV & EDV & EEV & MVc & PC & KR & BC).
  pose proof AV as (_ & LBV & _).
  eapply (leaves0_via ab (pop_scope s4) r rV f fcur restf rest2 fV (c_values c) [] HS MVc KR EEV).
  - symmetry. exact LBV.
  - constructor.
  - exact (HL rV cV fV (fcur :: rest2) (c_values c) AV FRV ECV EPV).
Qed.

(* ---------------------------------------------------------------- exitWith inside an operand *)
(* the code of the running frame f - the scope that ends - is left by exitWith while pend waits on f's part of the operand stack: f is
   gone, its part of the stack with it, the handler's value stands on what lay below *)
Definition ExprExits (s:sstate) (e:expr) (v:rvalue) (s':sstate) : Prop :=
  forall r c f fc rest pre post pend below, Mach s r c f (fc :: rest) ->
    f_code f = pre ++ compile_expr e ++ post -> f_pos f = length pre ->
    c_values c = pend ++ below -> length below = f_base f -> f_base fc <= length below ->
    exists r' c' fc' rest', Steps r r' /\ Mach (pop_scope s') r' c' fc' rest' /\ c_values c' = cv v :: below /\
      kept fc fc' /\ Forall2 kept rest rest'.
Definition ElemsExit (s:sstate) (l:list expr) (v:rvalue) (s':sstate) : Prop :=
  forall r c f fc rest pre post pend below, Mach s r c f (fc :: rest) ->
    f_code f = pre ++ flat_map compile_expr l ++ post -> f_pos f = length pre ->
    c_values c = pend ++ below -> length below = f_base f -> f_base fc <= length below ->
    exists r' c' fc' rest', Steps r r' /\ Mach (pop_scope s') r' c' fc' rest' /\ c_values c' = cv v :: below /\
      kept fc fc' /\ Forall2 kept rest rest'.
Theorem vm_runs_z :
  (forall s e v s', zev s e v s' -> forall r c f rest pre post, Mach s r c f rest ->
      f_code f = pre ++ compile_expr e ++ post -> f_pos f = length pre -> Post s' (cv v) (length (compile_expr e)) r c f rest) /\
  (forall s l vs s', zevs s l vs s' -> forall r c f rest pre post, Mach s r c f rest ->
      f_code f = pre ++ flat_map compile_expr l ++ post -> f_pos f = length pre ->
      (exists r' c' f' rest', Steps r r' /\ Mach s' r' c' f' rest' /\ c_values c' = rev (map cv vs) ++ c_values c /\
         moved f f' /\ f_pos f' = f_pos f + length (flat_map compile_expr l) /\ Forall2 kept rest rest') /\ length l = length vs) /\
  (forall s reg st reg1 s1, zstmt s reg st reg1 s1 -> BlockRuns s reg (compile_stmt st) reg1 s1) /\
  (forall s reg b out s', zblock s reg b out s' -> BodyEnds s reg (compile_block b) out s') /\
  (forall k s arr i body acc acc' s', ziter k s arr i body acc acc' s' -> IterRuns k s arr i body acc acc' s') /\
  (forall var to st s x first body acc s', zfor var to st s x first body acc s' -> ForRuns var to st s x first body acc s') /\
  (forall cond body s first v s', zwhile cond body s first v s' -> WhileRuns cond body s first v s') /\
  (forall s reg b x s', zthrow s reg b x s' -> ThrowRuns s reg (compile_block b) x s') /\
  (forall s reg b t v s', zbreak s reg b t v s' -> BreakRuns s reg (compile_block b) t v s') /\
  (forall s e a s', zloopleave s e a s' -> ExprLeaves s e a s') /\
  (forall k s arr i body acc a s', zileave k s arr i body acc a s' -> IterLeaves k s arr i body acc a s') /\
  (forall var to st s x first body a s', zfleave var to st s x first body a s' -> ForLeaves var to st s x first body a s') /\
  (forall cond body s first a s', zwleave cond body s first a s' -> WhileLeaves cond body s first a s') /\
  (forall s vars b a s', zscopeleave s vars b a s' -> ScopeLeaves s vars b a s') /\
  (forall s l a s', zelemsleave s l a s' -> ElemsLeaves s l a s') /\
  (forall s e v s', zexexit s e v s' -> ExprExits s e v s') /\
  (forall s l v s', zelemsexit s l v s' -> ElemsExit s l v s').
Proof.
  apply z_ind.
  - (* pure *) intros s e v HE r c f rest pre post (G & EF & M & B & D) EC EP.
    destruct (proj1 (pure_sim _ _) e v HE r c f rest pre post G EF EC EP B (env_ok_of s r f rest M)) as [S1 NV].
    eexists _, _, _, rest. split; [exact S1|]. split.
    + split; [apply good_adv; exact G|]. split; [reflexivity|]. split; [apply match_upd, match_set_pos; exact M|].
      split; [cbn; lia|rewrite quirks_upd_cur; exact D].
    + split; [reflexivity|]. split; [apply moved_set_pos|]. split; [reflexivity|apply kept_all_refl].
  - (* local variable *) intros s n v IL HH HL NN r c f rest pre post MA EC EP. cbn [compile_expr app length] in *.
    eapply push_post; eauto. intros c1 F1. cbn [exec_instr]. rewrite IL. unfold get_variable. rewrite F1.
    rewrite lookup_frames_set_pos. destruct MA as (_ & _ & [F _] & _). rewrite (lookup_match _ HH _ _ F). unfold loc_of in HL. rewrite HL. reflexivity.
  - (* global variable *) intros s n v IL HL NN r c f rest pre post MA EC EP. cbn [compile_expr app length] in *.
    eapply push_post; eauto. intros c1 F1. cbn [exec_instr]. rewrite IL, F1. unfold ns_get. cbn [f_ns set_pos].
    destruct MA as (_ & _ & MM & _). destruct (env_ok_of s r f rest MM) as [_ EG]. rewrite (EG _ _ HL). reflexivity.
  - (* code *) intros s b r c f rest pre post MA EC EP. rewrite compile_code in *. cbn [app length] in *.
    eapply push_post; eauto; intros c1 F1; reflexivity.
  - (* array *) intros s l vs s' HL IH r c f rest pre post MA EC EP.
    rewrite compile_array in *. rewrite app_length. cbn [length]. rewrite <- app_assoc in EC.
    destruct (IH r c f rest pre ([IMakeArray (length l)] ++ post) MA EC EP) as [(r1 & c1 & f1 & rest1 & S1 & M1 & EV1 & MV1 & P1 & K1) LEN].
    destruct (after_operands_code f f1 pre _ _ MV1 EC EP P1) as [EC1 EP1].
    destruct M1 as (G1 & EF1 & MM1 & B1 & D1). destruct MA as (_ & _ & _ & B & _).
    assert (N : nth_error (f_code f1) (f_pos f1) = Some (IMakeArray (length l))) by (rewrite EC1, EP1; apply nth_error_mid).
    set (c2 := set_values (set_frames c1 (set_pos f1 (S (f_pos f1)) :: rest1)) (cv (RArr vs) :: c_values c)).
    destruct (run_one r1 c1 f1 rest1 (IMakeArray (length l)) c2 G1 EF1 N) as [S2 G2].
    + cbn [exec_instr]. rewrite LEN, <- (map_length cv vs), <- (rev_length (map cv vs)).
      match goal with |- context [pop_args _ ?x []] =>
        replace x with (set_values (set_frames c1 (set_pos f1 (S (f_pos f1)) :: rest1)) (rev (map cv vs) ++ c_values c))
          by (destruct c1; cbn in *; rewrite EV1; reflexivity) end.
      erewrite pop_args_stack; [|reflexivity|cbn; rewrite (moved_base _ _ MV1); exact B]. rewrite rev_involutive, app_nil_r. reflexivity.
    + destruct G1 as (_ & _ & _ & _ & _ & _ & SU); exact SU.
    + eexists _, _, _, rest1. split; [eapply steps_trans; [exact S1|exact S2]|]. split.
      * split; [exact G2|]. split; [reflexivity|]. split; [apply match_upd, match_set_pos; exact MM1|].
        split; [cbn; rewrite (moved_base _ _ MV1); lia|rewrite quirks_upd_cur; exact D1].
      * split; [reflexivity|]. split; [eapply moved_trans; [exact MV1|apply moved_set_pos]|]. split; [cbn; rewrite P1; lia|exact K1].
  - (* pure unary on any operand *) intros s n a va v s1 NL HA IHa HU r c f rest pre post MA EC EP.
    rewrite (compile_unary_nonlit n a NL) in *. rewrite app_length. cbn [length]. rewrite <- app_assoc in EC.
    post_intro (IHa r c f rest pre ([IUnary (lower n)] ++ post) MA EC EP) r1 c1 f1 rest1 S1 M1 EV1 MV1 P1 K1.
    destruct (after_operands_code f f1 pre _ _ MV1 EC EP P1) as [EC1 EP1].
    destruct M1 as (G1 & EF1 & MM1 & B1 & D1). destruct MA as (_ & _ & _ & B & _).
    set (c0 := set_values (set_frames c1 (set_pos f1 (S (f_pos f1)) :: rest1)) (c_values c)).
    destruct (pure_unary_vm (lower n) va v r1 c0 HU) as [OP NV].
    destruct (unary_run r1 c1 f1 rest1 _ _ (lower n) (cv va) (c_values c) c0 (cv v) G1 EF1 EC1 EP1 EV1) as [S2 G2].
    { rewrite (moved_base _ _ MV1); exact B. } { exact NV. } { rewrite lower_idem. exact OP. }
    { destruct G1 as (_ & _ & _ & _ & _ & _ & SU); exact SU. }
    eexists _, _, _, rest1. split; [eapply steps_trans; [exact S1|exact S2]|]. split.
    + split; [exact G2|]. split; [reflexivity|]. split; [apply match_upd, match_set_pos; exact MM1|].
      split; [cbn; rewrite (moved_base _ _ MV1); lia|rewrite quirks_upd_cur; exact D1].
    + split; [reflexivity|]. split; [eapply moved_trans; [exact MV1|apply moved_set_pos]|]. split; [cbn; rewrite P1; lia|exact K1].
  - (* pure binary on any operands *) intros s n a b va vb v s1 s2 HA IHa HB IHb HBin r c f rest pre post MA EC EP.
    rewrite compile_binary in *. rewrite !app_length. cbn [length]. rewrite <- !app_assoc in EC.
    post_intro (IHa r c f rest pre (compile_expr b ++ [IBinary (lower n)] ++ post) MA EC EP) r1 c1 f1 rest1 S1 M1 EV1 MV1 P1 K1.
    destruct (after_operands_code f f1 pre _ _ MV1 EC EP P1) as [EC1 EP1].
    post_intro (IHb r1 c1 f1 rest1 (pre ++ compile_expr a) ([IBinary (lower n)] ++ post) M1 EC1 EP1) r2 c2 f2 rest2 S2 M2 EV2 MV2 P2 K2.
    destruct (after_operands_code f1 f2 _ _ _ MV2 EC1 EP1 P2) as [EC2 EP2].
    destruct M2 as (G2 & EF2 & MM2 & B2 & D2). destruct MA as (_ & _ & _ & B & _).
    set (c0 := set_values (set_frames c2 (set_pos f2 (S (f_pos f2)) :: rest2)) (c_values c)).
    destruct (pure_binary_vm (lower n) va vb v r2 c0 HBin) as (OP & NA & NB).
    rewrite EV1 in EV2.
    destruct (binary_run r2 c2 f2 rest2 _ _ (lower n) (cv va) (cv vb) (c_values c) c0 (cv v) G2 EF2 EC2 EP2 EV2) as [S3 G3].
    { rewrite (moved_base _ _ MV2), (moved_base _ _ MV1); exact B. } { exact NB. } { exact NA. } { rewrite lower_idem. exact OP. }
    { destruct G2 as (_ & _ & _ & _ & _ & _ & SU); exact SU. }
    eexists _, _, _, rest2. split; [eapply steps_trans; [exact S1|eapply steps_trans; [exact S2|exact S3]]|]. split.
    + split; [exact G3|]. split; [reflexivity|]. split; [apply match_upd, match_set_pos; exact MM2|].
      split; [cbn; rewrite (moved_base _ _ MV2), (moved_base _ _ MV1); lia|rewrite quirks_upd_cur; exact D2].
    + split; [reflexivity|]. split; [eapply moved_trans; [exact MV1|eapply moved_trans; [exact MV2|apply moved_set_pos]]|].
      split; [cbn; rewrite P2, P1; lia|eapply kept_all_trans; eassumption].
  - (* call {..} *) intros s n a b s1 reg s2 HN NL HA IHa HB IHb r c f rest pre post MA EC EP.
    rewrite (compile_unary_nonlit n a NL) in *. rewrite app_length. cbn [length]. rewrite <- app_assoc in EC.
    post_intro (IHa r c f rest pre ([IUnary (lower n)] ++ post) MA EC EP) r1 c1 f1 rest1 S1 M1 EV1 MV1 P1 K1.
    destruct (after_operands_code f f1 pre _ _ MV1 EC EP P1) as [EC1 EP1].
    destruct M1 as (G1 & EF1 & MM1 & B1 & D1). destruct MA as (_ & _ & _ & B & _).
    set (c0 := set_values (set_frames c1 (set_pos f1 (S (f_pos f1)) :: rest1)) (c_values c)).
    assert (TH : match get_variable c0 "_this" with Some t => t | None => VNil end = cv (this_of s1)).
    { unfold get_variable. cbn [c_frames c0 set_values set_frames]. rewrite lookup_frames_set_pos.
      destruct MM1 as [F1 _]. rewrite (lookup_match (lower "_this") eq_refl _ _ F1). unfold this_of.
      change (lower "_this") with "_this". destruct (lookup_scopes "_this" (st_scopes s1)); reflexivity. }
    destruct (unary_run r1 c1 f1 rest1 _ _ (lower n) (cv (RCode b)) (c_values c)
                (push_frame c0 (mk_frame (cur_ns c0) (compile_block b) None None (mvars [("_this", this_of s1)]))) VNil G1 EF1 EC1 EP1 EV1) as [S2 G2].
    { rewrite (moved_base _ _ MV1); exact B. } { discriminate. }
    { rewrite lower_idem, HN. fold c0. cbn [cv]. unfold op_unary. cbn [String.eqb Ascii.eqb Bool.eqb]. rewrite TH. reflexivity. }
    { destruct G1 as (_ & _ & _ & _ & _ & _ & SU); exact SU. }
    destruct (scope_run_z s1 [("_this", this_of s1)] b reg s2 _ c0 (set_pos f1 (S (f_pos f1))) rest1 (scope_ends_of_body _ _ _ _ _ IHb) G2) as (r3 & c3 & fc3 & rest3 & S3 & M3 & EV3 & K3 & KR3).
    { rewrite quirks_upd_cur; exact D1. } { reflexivity. } { apply match_upd, match_set_pos; exact MM1. }
    { cbn. rewrite (moved_base _ _ MV1); exact B. }
    eexists _, _, fc3, rest3. split; [eapply steps_trans; [exact S1|eapply steps_trans; [exact S2|exact S3]]|]. split; [exact M3|].
    split; [exact EV3|]. split; [eapply moved_trans; [exact MV1|eapply moved_trans; [apply (moved_set_pos f1 (S (f_pos f1)))|apply kept_moved; exact K3]]|].
    split; [rewrite (kept_pos _ _ K3); cbn; rewrite P1; lia|eapply kept_all_trans; eassumption].
  - (* x call {..} *) intros s n a x va b s1 s2 reg s3 HN HA IHa NNa HX IHx HB IHb r c f rest pre post MA EC EP.
    rewrite compile_binary in *. rewrite !app_length. cbn [length]. rewrite <- !app_assoc in EC.
    post_intro (IHa r c f rest pre (compile_expr x ++ [IBinary (lower n)] ++ post) MA EC EP) r1 c1 f1 rest1 S1 M1 EV1 MV1 P1 K1.
    destruct (after_operands_code f f1 pre _ _ MV1 EC EP P1) as [EC1 EP1].
    post_intro (IHx r1 c1 f1 rest1 (pre ++ compile_expr a) ([IBinary (lower n)] ++ post) M1 EC1 EP1) r2 c2 f2 rest2 S2 M2 EV2 MV2 P2 K2.
    destruct (after_operands_code f1 f2 _ _ _ MV2 EC1 EP1 P2) as [EC2 EP2].
    destruct M2 as (G2 & EF2 & MM2 & B2 & D2). destruct MA as (_ & _ & _ & B & _).
    rewrite EV1 in EV2.
    set (c0 := set_values (set_frames c2 (set_pos f2 (S (f_pos f2)) :: rest2)) (c_values c)).
    destruct (binary_run r2 c2 f2 rest2 _ _ (lower n) (cv va) (cv (RCode b)) (c_values c)
                (push_frame c0 (mk_frame (cur_ns c0) (compile_block b) None None (mvars [("_this", va)]))) VNil G2 EF2 EC2 EP2 EV2) as [S3 G3].
    { rewrite (moved_base _ _ MV2), (moved_base _ _ MV1); exact B. } { discriminate. } { apply nonnil_cv; exact NNa. }
    { rewrite lower_idem, HN. reflexivity. }
    { destruct G2 as (_ & _ & _ & _ & _ & _ & SU); exact SU. }
    destruct (scope_run_z s2 [("_this", va)] b reg s3 _ c0 (set_pos f2 (S (f_pos f2))) rest2 (scope_ends_of_body _ _ _ _ _ IHb) G3) as (r4 & c4 & fc4 & rest4 & S4 & M4 & EV4 & K4 & KR4).
    { rewrite quirks_upd_cur; exact D2. } { reflexivity. } { apply match_upd, match_set_pos; exact MM2. }
    { cbn. rewrite (moved_base _ _ MV2), (moved_base _ _ MV1); exact B. }
    eexists _, _, fc4, rest4. split; [eapply steps_trans; [exact S1|eapply steps_trans; [exact S2|eapply steps_trans; [exact S3|exact S4]]]|].
    split; [exact M4|]. split; [exact EV4|].
    split; [eapply moved_trans; [exact MV1|eapply moved_trans; [exact MV2|eapply moved_trans; [apply (moved_set_pos f2 (S (f_pos f2)))|apply kept_moved; exact K4]]]|].
    split; [rewrite (kept_pos _ _ K4); cbn; rewrite P2, P1; lia|eapply kept_all_trans; [exact K1|eapply kept_all_trans; eassumption]].
  - (* if c *) intros s n a cnd s1 HN NL HA IHa r c f rest pre post MA EC EP.
    rewrite (compile_unary_nonlit n a NL) in *. rewrite app_length. cbn [length]. rewrite <- app_assoc in EC.
    post_intro (IHa r c f rest pre ([IUnary (lower n)] ++ post) MA EC EP) r1 c1 f1 rest1 S1 M1 EV1 MV1 P1 K1.
    destruct (after_operands_code f f1 pre _ _ MV1 EC EP P1) as [EC1 EP1].
    destruct M1 as (G1 & EF1 & MM1 & B1 & D1). destruct MA as (_ & _ & _ & B & _).
    set (c0 := set_values (set_frames c1 (set_pos f1 (S (f_pos f1)) :: rest1)) (c_values c)).
    destruct (unary_run r1 c1 f1 rest1 _ _ (lower n) (cv (RBool cnd)) (c_values c) c0 (cv (RIf cnd)) G1 EF1 EC1 EP1 EV1) as [S2 G2].
    { rewrite (moved_base _ _ MV1); exact B. } { discriminate. } { rewrite lower_idem, HN. reflexivity. }
    { destruct G1 as (_ & _ & _ & _ & _ & _ & SU); exact SU. }
    eexists _, _, _, rest1. split; [eapply steps_trans; [exact S1|exact S2]|]. split.
    + split; [exact G2|]. split; [reflexivity|]. split; [apply match_upd, match_set_pos; exact MM1|].
      split; [cbn; rewrite (moved_base _ _ MV1); lia|rewrite quirks_upd_cur; exact D1].
    + split; [reflexivity|]. split; [eapply moved_trans; [exact MV1|apply moved_set_pos]|]. split; [cbn; rewrite P1; lia|exact K1].
  - (* {..} else {..} *) intros s n a b x y s1 s2 HN HA IHa HB IHb r c f rest pre post MA EC EP.
    rewrite compile_binary in *. rewrite !app_length. cbn [length]. rewrite <- !app_assoc in EC.
    post_intro (IHa r c f rest pre (compile_expr b ++ [IBinary (lower n)] ++ post) MA EC EP) r1 c1 f1 rest1 S1 M1 EV1 MV1 P1 K1.
    destruct (after_operands_code f f1 pre _ _ MV1 EC EP P1) as [EC1 EP1].
    post_intro (IHb r1 c1 f1 rest1 (pre ++ compile_expr a) ([IBinary (lower n)] ++ post) M1 EC1 EP1) r2 c2 f2 rest2 S2 M2 EV2 MV2 P2 K2.
    destruct (after_operands_code f1 f2 _ _ _ MV2 EC1 EP1 P2) as [EC2 EP2].
    destruct M2 as (G2 & EF2 & MM2 & B2 & D2). destruct MA as (_ & _ & _ & B & _).
    rewrite EV1 in EV2.
    set (c0 := set_values (set_frames c2 (set_pos f2 (S (f_pos f2)) :: rest2)) (c_values c)).
    destruct (binary_run r2 c2 f2 rest2 _ _ (lower n) (cv (RCode x)) (cv (RCode y)) (c_values c) c0 (cv (RArr [RCode x; RCode y])) G2 EF2 EC2 EP2 EV2) as [S3 G3].
    { rewrite (moved_base _ _ MV2), (moved_base _ _ MV1); exact B. } { discriminate. } { discriminate. } { rewrite lower_idem, HN. reflexivity. }
    { destruct G2 as (_ & _ & _ & _ & _ & _ & SU); exact SU. }
    eexists _, _, _, rest2. split; [eapply steps_trans; [exact S1|eapply steps_trans; [exact S2|exact S3]]|]. split.
    + split; [exact G3|]. split; [reflexivity|]. split; [apply match_upd, match_set_pos; exact MM2|].
      split; [cbn; rewrite (moved_base _ _ MV2), (moved_base _ _ MV1); lia|rewrite quirks_upd_cur; exact D2].
    + split; [reflexivity|]. split; [eapply moved_trans; [exact MV1|eapply moved_trans; [exact MV2|apply moved_set_pos]]|].
      split; [cbn; rewrite P2, P1; lia|eapply kept_all_trans; eassumption].
  - (* if false then {..} *) intros s n a b x s1 s2 HN HA IHa HB IHb r c f rest pre post MA EC EP.
    rewrite compile_binary in *. rewrite !app_length. cbn [length]. rewrite <- !app_assoc in EC.
    post_intro (IHa r c f rest pre (compile_expr b ++ [IBinary (lower n)] ++ post) MA EC EP) r1 c1 f1 rest1 S1 M1 EV1 MV1 P1 K1.
    destruct (after_operands_code f f1 pre _ _ MV1 EC EP P1) as [EC1 EP1].
    post_intro (IHb r1 c1 f1 rest1 (pre ++ compile_expr a) ([IBinary (lower n)] ++ post) M1 EC1 EP1) r2 c2 f2 rest2 S2 M2 EV2 MV2 P2 K2.
    destruct (after_operands_code f1 f2 _ _ _ MV2 EC1 EP1 P2) as [EC2 EP2].
    destruct M2 as (G2 & EF2 & MM2 & B2 & D2). destruct MA as (_ & _ & _ & B & _).
    rewrite EV1 in EV2.
    set (c0 := set_values (set_frames c2 (set_pos f2 (S (f_pos f2)) :: rest2)) (c_values c)).
    destruct (binary_run r2 c2 f2 rest2 _ _ (lower n) (cv (RIf false)) (cv (RCode x)) (c_values c) c0 VNil G2 EF2 EC2 EP2 EV2) as [S3 G3].
    { rewrite (moved_base _ _ MV2), (moved_base _ _ MV1); exact B. } { discriminate. } { discriminate. } { rewrite lower_idem, HN. reflexivity. }
    { destruct G2 as (_ & _ & _ & _ & _ & _ & SU); exact SU. }
    eexists _, _, _, rest2. split; [eapply steps_trans; [exact S1|eapply steps_trans; [exact S2|exact S3]]|]. split.
    + split; [exact G3|]. split; [reflexivity|]. split; [apply match_upd, match_set_pos; exact MM2|].
      split; [cbn; rewrite (moved_base _ _ MV2), (moved_base _ _ MV1); lia|rewrite quirks_upd_cur; exact D2].
    + split; [reflexivity|]. split; [eapply moved_trans; [exact MV1|eapply moved_trans; [exact MV2|apply moved_set_pos]]|].
      split; [cbn; rewrite P2, P1; lia|eapply kept_all_trans; eassumption].
  - (* if true then {..} *) intros s n a b x s1 s2 reg s3 HN HA IHa HB IHb HX IHx r c f rest pre post MA EC EP.
    rewrite compile_binary in *. rewrite !app_length. cbn [length]. rewrite <- !app_assoc in EC.
    post_intro (IHa r c f rest pre (compile_expr b ++ [IBinary (lower n)] ++ post) MA EC EP) r1 c1 f1 rest1 S1 M1 EV1 MV1 P1 K1.
    destruct (after_operands_code f f1 pre _ _ MV1 EC EP P1) as [EC1 EP1].
    post_intro (IHb r1 c1 f1 rest1 (pre ++ compile_expr a) ([IBinary (lower n)] ++ post) M1 EC1 EP1) r2 c2 f2 rest2 S2 M2 EV2 MV2 P2 K2.
    destruct (after_operands_code f1 f2 _ _ _ MV2 EC1 EP1 P2) as [EC2 EP2].
    destruct M2 as (G2 & EF2 & MM2 & B2 & D2). destruct MA as (_ & _ & _ & B & _).
    rewrite EV1 in EV2.
    set (c0 := set_values (set_frames c2 (set_pos f2 (S (f_pos f2)) :: rest2)) (c_values c)).
    destruct (binary_run r2 c2 f2 rest2 _ _ (lower n) (cv (RIf true)) (cv (RCode x)) (c_values c)
                (push_frame c0 (mk_frame (cur_ns c0) (compile_block x) None None (mvars []))) VNil G2 EF2 EC2 EP2 EV2) as [S3 G3].
    { rewrite (moved_base _ _ MV2), (moved_base _ _ MV1); exact B. } { discriminate. } { discriminate. } { rewrite lower_idem, HN. reflexivity. }
    { destruct G2 as (_ & _ & _ & _ & _ & _ & SU); exact SU. }
    destruct (scope_run_z s2 [] x reg s3 _ c0 (set_pos f2 (S (f_pos f2))) rest2 (scope_ends_of_body _ _ _ _ _ IHx) G3) as (r4 & c4 & fc4 & rest4 & S4 & M4 & EV4 & K4 & KR4).
    { rewrite quirks_upd_cur; exact D2. } { reflexivity. } { apply match_upd, match_set_pos; exact MM2. }
    { cbn. rewrite (moved_base _ _ MV2), (moved_base _ _ MV1); exact B. }
    eexists _, _, fc4, rest4. split; [eapply steps_trans; [exact S1|eapply steps_trans; [exact S2|eapply steps_trans; [exact S3|exact S4]]]|].
    split; [exact M4|]. split; [exact EV4|].
    split; [eapply moved_trans; [exact MV1|eapply moved_trans; [exact MV2|eapply moved_trans; [apply (moved_set_pos f2 (S (f_pos f2)))|apply kept_moved; exact K4]]]|].
    split; [rewrite (kept_pos _ _ K4); cbn; rewrite P2, P1; lia|eapply kept_all_trans; [exact K1|eapply kept_all_trans; eassumption]].
  - (* if c then {..} else {..} *) intros s n a b cnd x y s1 s2 reg s3 HN HA IHa HB IHb HX IHx r c f rest pre post MA EC EP.
    rewrite compile_binary in *. rewrite !app_length. cbn [length]. rewrite <- !app_assoc in EC.
    post_intro (IHa r c f rest pre (compile_expr b ++ [IBinary (lower n)] ++ post) MA EC EP) r1 c1 f1 rest1 S1 M1 EV1 MV1 P1 K1.
    destruct (after_operands_code f f1 pre _ _ MV1 EC EP P1) as [EC1 EP1].
    post_intro (IHb r1 c1 f1 rest1 (pre ++ compile_expr a) ([IBinary (lower n)] ++ post) M1 EC1 EP1) r2 c2 f2 rest2 S2 M2 EV2 MV2 P2 K2.
    destruct (after_operands_code f1 f2 _ _ _ MV2 EC1 EP1 P2) as [EC2 EP2].
    destruct M2 as (G2 & EF2 & MM2 & B2 & D2). destruct MA as (_ & _ & _ & B & _).
    rewrite EV1 in EV2.
    set (c0 := set_values (set_frames c2 (set_pos f2 (S (f_pos f2)) :: rest2)) (c_values c)).
    destruct (binary_run r2 c2 f2 rest2 _ _ (lower n) (cv (RIf cnd)) (cv (RArr [RCode x; RCode y])) (c_values c)
                (push_frame c0 (mk_frame (cur_ns c0) (compile_block (if cnd then x else y)) None None (mvars []))) VNil G2 EF2 EC2 EP2 EV2) as [S3 G3].
    { rewrite (moved_base _ _ MV2), (moved_base _ _ MV1); exact B. } { discriminate. } { discriminate. }
    { rewrite lower_idem, HN. destruct cnd; reflexivity. }
    { destruct G2 as (_ & _ & _ & _ & _ & _ & SU); exact SU. }
    destruct (scope_run_z s2 [] (if cnd then x else y) reg s3 _ c0 (set_pos f2 (S (f_pos f2))) rest2 (scope_ends_of_body _ _ _ _ _ IHx) G3) as (r4 & c4 & fc4 & rest4 & S4 & M4 & EV4 & K4 & KR4).
    { rewrite quirks_upd_cur; exact D2. } { reflexivity. } { apply match_upd, match_set_pos; exact MM2. }
    { cbn. rewrite (moved_base _ _ MV2), (moved_base _ _ MV1); exact B. }
    eexists _, _, fc4, rest4. split; [eapply steps_trans; [exact S1|eapply steps_trans; [exact S2|eapply steps_trans; [exact S3|exact S4]]]|].
    split; [exact M4|]. split; [exact EV4|].
    split; [eapply moved_trans; [exact MV1|eapply moved_trans; [exact MV2|eapply moved_trans; [apply (moved_set_pos f2 (S (f_pos f2)))|apply kept_moved; exact K4]]]|].
    split; [rewrite (kept_pos _ _ K4); cbn; rewrite P2, P1; lia|eapply kept_all_trans; [exact K1|eapply kept_all_trans; eassumption]].
  - (* if false exitWith {..} *) intros s n a b x s1 s2 HN HA IHa HB IHb r c f rest pre post MA EC EP.
    rewrite compile_binary in *. rewrite !app_length. cbn [length]. rewrite <- !app_assoc in EC.
    post_intro (IHa r c f rest pre (compile_expr b ++ [IBinary (lower n)] ++ post) MA EC EP) r1 c1 f1 rest1 S1 M1 EV1 MV1 P1 K1.
    destruct (after_operands_code f f1 pre _ _ MV1 EC EP P1) as [EC1 EP1].
    post_intro (IHb r1 c1 f1 rest1 (pre ++ compile_expr a) ([IBinary (lower n)] ++ post) M1 EC1 EP1) r2 c2 f2 rest2 S2 M2 EV2 MV2 P2 K2.
    destruct (after_operands_code f1 f2 _ _ _ MV2 EC1 EP1 P2) as [EC2 EP2].
    destruct M2 as (G2 & EF2 & MM2 & B2 & D2). destruct MA as (_ & _ & _ & B & _).
    rewrite EV1 in EV2.
    set (c0 := set_values (set_frames c2 (set_pos f2 (S (f_pos f2)) :: rest2)) (c_values c)).
    destruct (binary_run r2 c2 f2 rest2 _ _ (lower n) (cv (RIf false)) (cv (RCode x)) (c_values c) c0 VNil G2 EF2 EC2 EP2 EV2) as [S3 G3].
    { rewrite (moved_base _ _ MV2), (moved_base _ _ MV1); exact B. } { discriminate. } { discriminate. } { rewrite lower_idem, HN. reflexivity. }
    { destruct G2 as (_ & _ & _ & _ & _ & _ & SU); exact SU. }
    eexists _, _, _, rest2. split; [eapply steps_trans; [exact S1|eapply steps_trans; [exact S2|exact S3]]|]. split.
    + split; [exact G3|]. split; [reflexivity|]. split; [apply match_upd, match_set_pos; exact MM2|].
      split; [cbn; rewrite (moved_base _ _ MV2), (moved_base _ _ MV1); lia|rewrite quirks_upd_cur; exact D2].
    + split; [reflexivity|]. split; [eapply moved_trans; [exact MV1|eapply moved_trans; [exact MV2|apply moved_set_pos]]|].
      split; [cbn; rewrite P2, P1; lia|eapply kept_all_trans; eassumption].
  - (* {..} forEach / count []  *) intros s n a x body k s1 s2 HN HK HA IHa HX IHx r c f rest pre post MA EC EP.
    rewrite compile_binary in *. rewrite !app_length. cbn [length]. rewrite <- !app_assoc in EC.
    post_intro (IHa r c f rest pre (compile_expr x ++ [IBinary (lower n)] ++ post) MA EC EP) r1 c1 f1 rest1 S1 M1 EV1 MV1 P1 K1.
    destruct (after_operands_code f f1 pre _ _ MV1 EC EP P1) as [EC1 EP1].
    post_intro (IHx r1 c1 f1 rest1 (pre ++ compile_expr a) ([IBinary (lower n)] ++ post) M1 EC1 EP1) r2 c2 f2 rest2 S2 M2 EV2 MV2 P2 K2.
    destruct (after_operands_code f1 f2 _ _ _ MV2 EC1 EP1 P2) as [EC2 EP2].
    destruct M2 as (G2 & EF2 & MM2 & B2 & D2). destruct MA as (_ & _ & _ & B & _).
    rewrite EV1 in EV2.
    set (c0 := set_values (set_frames c2 (set_pos f2 (S (f_pos f2)) :: rest2)) (c_values c)).
    destruct (binary_run r2 c2 f2 rest2 _ _ (lower n) (cv (RCode body)) (cv (RArr [])) (c_values c) c0 (cv (kinit k)) G2 EF2 EC2 EP2 EV2) as [S3 G3].
    { rewrite (moved_base _ _ MV2), (moved_base _ _ MV1); exact B. } { discriminate. } { discriminate. }
    { rewrite lower_idem, <- HN. destruct k; try discriminate HK; reflexivity. }
    { destruct G2 as (_ & _ & _ & _ & _ & _ & SU); exact SU. }
    eexists _, _, _, rest2. split; [eapply steps_trans; [exact S1|eapply steps_trans; [exact S2|exact S3]]|]. split.
    + split; [exact G3|]. split; [reflexivity|]. split; [apply match_upd, match_set_pos; exact MM2|].
      split; [cbn; rewrite (moved_base _ _ MV2), (moved_base _ _ MV1); lia|rewrite quirks_upd_cur; exact D2].
    + split; [reflexivity|]. split; [eapply moved_trans; [exact MV1|eapply moved_trans; [exact MV2|apply moved_set_pos]]|].
      split; [cbn; rewrite P2, P1; lia|eapply kept_all_trans; eassumption].
  - (* [] apply / select / findIf {..} *) intros s n a x body k s1 s2 HN HK HA IHa HX IHx r c f rest pre post MA EC EP.
    rewrite compile_binary in *. rewrite !app_length. cbn [length]. rewrite <- !app_assoc in EC.
    post_intro (IHa r c f rest pre (compile_expr x ++ [IBinary (lower n)] ++ post) MA EC EP) r1 c1 f1 rest1 S1 M1 EV1 MV1 P1 K1.
    destruct (after_operands_code f f1 pre _ _ MV1 EC EP P1) as [EC1 EP1].
    post_intro (IHx r1 c1 f1 rest1 (pre ++ compile_expr a) ([IBinary (lower n)] ++ post) M1 EC1 EP1) r2 c2 f2 rest2 S2 M2 EV2 MV2 P2 K2.
    destruct (after_operands_code f1 f2 _ _ _ MV2 EC1 EP1 P2) as [EC2 EP2].
    destruct M2 as (G2 & EF2 & MM2 & B2 & D2). destruct MA as (_ & _ & _ & B & _).
    rewrite EV1 in EV2.
    set (c0 := set_values (set_frames c2 (set_pos f2 (S (f_pos f2)) :: rest2)) (c_values c)).
    destruct (binary_run r2 c2 f2 rest2 _ _ (lower n) (cv (RArr [])) (cv (RCode body)) (c_values c) c0 (cv (kinit k)) G2 EF2 EC2 EP2 EV2) as [S3 G3].
    { rewrite (moved_base _ _ MV2), (moved_base _ _ MV1); exact B. } { discriminate. } { discriminate. }
    { rewrite lower_idem, <- HN. destruct k; try discriminate HK; reflexivity. }
    { destruct G2 as (_ & _ & _ & _ & _ & _ & SU); exact SU. }
    eexists _, _, _, rest2. split; [eapply steps_trans; [exact S1|eapply steps_trans; [exact S2|exact S3]]|]. split.
    + split; [exact G3|]. split; [reflexivity|]. split; [apply match_upd, match_set_pos; exact MM2|].
      split; [cbn; rewrite (moved_base _ _ MV2), (moved_base _ _ MV1); lia|rewrite quirks_upd_cur; exact D2].
    + split; [reflexivity|]. split; [eapply moved_trans; [exact MV1|eapply moved_trans; [exact MV2|apply moved_set_pos]]|].
      split; [cbn; rewrite P2, P1; lia|eapply kept_all_trans; eassumption].
  - (* {..} forEach / count [x0, ..] *) intros s n a x body x0 arr k s1 s2 acc s3 HN HK LF HA IHa HX IHx HI IHi r c f rest pre post MA EC EP.
    rewrite compile_binary in *. rewrite !app_length. cbn [length]. rewrite <- !app_assoc in EC.
    post_intro (IHa r c f rest pre (compile_expr x ++ [IBinary (lower n)] ++ post) MA EC EP) r1 c1 f1 rest1 S1 M1 EV1 MV1 P1 K1.
    destruct (after_operands_code f f1 pre _ _ MV1 EC EP P1) as [EC1 EP1].
    post_intro (IHx r1 c1 f1 rest1 (pre ++ compile_expr a) ([IBinary (lower n)] ++ post) M1 EC1 EP1) r2 c2 f2 rest2 S2 M2 EV2 MV2 P2 K2.
    destruct (after_operands_code f1 f2 _ _ _ MV2 EC1 EP1 P2) as [EC2 EP2].
    destruct M2 as (G2 & EF2 & MM2 & B2 & D2). destruct MA as (_ & _ & _ & B & _).
    rewrite EV1 in EV2.
    set (c0 := set_values (set_frames c2 (set_pos f2 (S (f_pos f2)) :: rest2)) (c_values c)).
    set (lf := kframe k (cur_ns c0) body (x0 :: arr) x0).
    destruct (binary_run r2 c2 f2 rest2 _ _ (lower n) (cv (RCode body)) (cv (RArr (x0 :: arr))) (c_values c)
                (push_frame c0 lf) VNil G2 EF2 EC2 EP2 EV2) as [S3 G3].
    { rewrite (moved_base _ _ MV2), (moved_base _ _ MV1); exact B. } { discriminate. } { discriminate. }
    { rewrite lower_idem, <- HN. destruct k; try discriminate HK; reflexivity. }
    { destruct G2 as (_ & _ & _ & _ & _ & _ & SU); exact SU. }
    set (nf := set_base lf (length (c_values c))).
    cbn [IterRuns] in IHi.
    destruct (IHi (upd_cur r2 (push_value (push_frame c0 lf) VNil)) (push_value (push_frame c0 lf) VNil) nf (set_pos f2 (S (f_pos f2))) rest2 (c_values c) (x0 :: arr)
                  (kbeh0 k (map cv (x0 :: arr))))
      as (r4 & c4 & fc4 & rest4 & S4 & _ & M4 & EV4 & K4 & KR4).
    { split.
      - split; [exact G3|]. split; [reflexivity|]. split.
        + apply match_upd. destruct MM2 as [F N]. split; [|exact N]. cbn. inversion F as [|sc f0 scs fs FM F' E1 E2]; subst.
          constructor; [|constructor; [exact FM|exact F']].
          split; [apply kvars0_match|split; [|split; reflexivity]].
          cbn. destruct FM as (_ & NS & _). unfold cur_ns_of. rewrite <- E1. exact NS.
        + split; [cbn; lia|rewrite quirks_upd_cur; exact D2].
      - split; [reflexivity|]. exists [VNil]. split; [reflexivity|]. split; [reflexivity|]. split; [discriminate|nil_case]. }
    { apply fresh_one; reflexivity. }
    { reflexivity. } { reflexivity. } { reflexivity. } { apply kb_init. } { reflexivity. } { reflexivity. } { exact LF. } { reflexivity. }
    { cbn. rewrite (moved_base _ _ MV2), (moved_base _ _ MV1); exact B. }
    eexists _, _, fc4, rest4. split; [eapply steps_trans; [exact S1|eapply steps_trans; [exact S2|eapply steps_trans; [exact S3|exact S4]]]|].
    split; [exact M4|]. split; [exact EV4|].
    split; [eapply moved_trans; [exact MV1|eapply moved_trans; [exact MV2|eapply moved_trans; [apply (moved_set_pos f2 (S (f_pos f2)))|apply kept_moved; exact K4]]]|].
    split; [rewrite (kept_pos _ _ K4); cbn; rewrite P2, P1; lia|eapply kept_all_trans; [exact K1|eapply kept_all_trans; eassumption]].
  - (* [x0, ..] apply / select / findIf {..} *) intros s n a x body x0 arr k s1 s2 acc s3 HN HK LF HA IHa HX IHx HI IHi r c f rest pre post MA EC EP.
    rewrite compile_binary in *. rewrite !app_length. cbn [length]. rewrite <- !app_assoc in EC.
    post_intro (IHa r c f rest pre (compile_expr x ++ [IBinary (lower n)] ++ post) MA EC EP) r1 c1 f1 rest1 S1 M1 EV1 MV1 P1 K1.
    destruct (after_operands_code f f1 pre _ _ MV1 EC EP P1) as [EC1 EP1].
    post_intro (IHx r1 c1 f1 rest1 (pre ++ compile_expr a) ([IBinary (lower n)] ++ post) M1 EC1 EP1) r2 c2 f2 rest2 S2 M2 EV2 MV2 P2 K2.
    destruct (after_operands_code f1 f2 _ _ _ MV2 EC1 EP1 P2) as [EC2 EP2].
    destruct M2 as (G2 & EF2 & MM2 & B2 & D2). destruct MA as (_ & _ & _ & B & _).
    rewrite EV1 in EV2.
    set (c0 := set_values (set_frames c2 (set_pos f2 (S (f_pos f2)) :: rest2)) (c_values c)).
    set (lf := kframe k (cur_ns c0) body (x0 :: arr) x0).
    destruct (binary_run r2 c2 f2 rest2 _ _ (lower n) (cv (RArr (x0 :: arr))) (cv (RCode body)) (c_values c)
                (push_frame c0 lf) VNil G2 EF2 EC2 EP2 EV2) as [S3 G3].
    { rewrite (moved_base _ _ MV2), (moved_base _ _ MV1); exact B. } { discriminate. } { discriminate. }
    { rewrite lower_idem, <- HN. destruct k; try discriminate HK; reflexivity. }
    { destruct G2 as (_ & _ & _ & _ & _ & _ & SU); exact SU. }
    set (nf := set_base lf (length (c_values c))).
    cbn [IterRuns] in IHi.
    destruct (IHi (upd_cur r2 (push_value (push_frame c0 lf) VNil)) (push_value (push_frame c0 lf) VNil) nf (set_pos f2 (S (f_pos f2))) rest2 (c_values c) (x0 :: arr)
                  (kbeh0 k (map cv (x0 :: arr))))
      as (r4 & c4 & fc4 & rest4 & S4 & _ & M4 & EV4 & K4 & KR4).
    { split.
      - split; [exact G3|]. split; [reflexivity|]. split.
        + apply match_upd. destruct MM2 as [F N]. split; [|exact N]. cbn. inversion F as [|sc f0 scs fs FM F' E1 E2]; subst.
          constructor; [|constructor; [exact FM|exact F']].
          split; [apply kvars0_match|split; [|split; reflexivity]].
          cbn. destruct FM as (_ & NS & _). unfold cur_ns_of. rewrite <- E1. exact NS.
        + split; [cbn; lia|rewrite quirks_upd_cur; exact D2].
      - split; [reflexivity|]. exists [VNil]. split; [reflexivity|]. split; [reflexivity|]. split; [discriminate|nil_case]. }
    { apply fresh_one; reflexivity. }
    { reflexivity. } { reflexivity. } { reflexivity. } { apply kb_init. } { reflexivity. } { reflexivity. } { exact LF. } { reflexivity. }
    { cbn. rewrite (moved_base _ _ MV2), (moved_base _ _ MV1); exact B. }
    eexists _, _, fc4, rest4. split; [eapply steps_trans; [exact S1|eapply steps_trans; [exact S2|eapply steps_trans; [exact S3|exact S4]]]|].
    split; [exact M4|]. split; [exact EV4|].
    split; [eapply moved_trans; [exact MV1|eapply moved_trans; [exact MV2|eapply moved_trans; [apply (moved_set_pos f2 (S (f_pos f2)))|apply kept_moved; exact K4]]]|].
    split; [rewrite (kept_pos _ _ K4); cbn; rewrite P2, P1; lia|eapply kept_all_trans; [exact K1|eapply kept_all_trans; eassumption]].
  - (* lazy operator, right side not needed *) intros s n a b x sk s1 s2 HN HA IHa HB IHb r c f rest pre post MA EC EP.
    rewrite compile_binary in *. rewrite !app_length. cbn [length]. rewrite <- !app_assoc in EC.
    post_intro (IHa r c f rest pre (compile_expr b ++ [IBinary (lower n)] ++ post) MA EC EP) r1 c1 f1 rest1 S1 M1 EV1 MV1 P1 K1.
    destruct (after_operands_code f f1 pre _ _ MV1 EC EP P1) as [EC1 EP1].
    post_intro (IHb r1 c1 f1 rest1 (pre ++ compile_expr a) ([IBinary (lower n)] ++ post) M1 EC1 EP1) r2 c2 f2 rest2 S2 M2 EV2 MV2 P2 K2.
    destruct (after_operands_code f1 f2 _ _ _ MV2 EC1 EP1 P2) as [EC2 EP2].
    destruct M2 as (G2 & EF2 & MM2 & B2 & D2). destruct MA as (_ & _ & _ & B & _).
    rewrite EV1 in EV2.
    set (c0 := set_values (set_frames c2 (set_pos f2 (S (f_pos f2)) :: rest2)) (c_values c)).
    destruct (binary_run r2 c2 f2 rest2 _ _ (lower n) (cv (RBool sk)) (cv (RCode x)) (c_values c) c0 (cv (RBool sk)) G2 EF2 EC2 EP2 EV2) as [S3 G3].
    { rewrite (moved_base _ _ MV2), (moved_base _ _ MV1); exact B. } { discriminate. } { discriminate. }
    { rewrite lower_idem. exact (proj2 (lazy_vm _ sk _ r2 c0 HN)). }
    { destruct G2 as (_ & _ & _ & _ & _ & _ & SU); exact SU. }
    eexists _, _, _, rest2. split; [eapply steps_trans; [exact S1|eapply steps_trans; [exact S2|exact S3]]|]. split.
    + split; [exact G3|]. split; [reflexivity|]. split; [apply match_upd, match_set_pos; exact MM2|].
      split; [cbn; rewrite (moved_base _ _ MV2), (moved_base _ _ MV1); lia|rewrite quirks_upd_cur; exact D2].
    + split; [reflexivity|]. split; [eapply moved_trans; [exact MV1|eapply moved_trans; [exact MV2|apply moved_set_pos]]|].
      split; [cbn; rewrite P2, P1; lia|eapply kept_all_trans; eassumption].
  - (* lazy operator, right side evaluated *) intros s n a b x sk s1 s2 out s3 HN HA IHa HB IHb HX IHx r c f rest pre post MA EC EP.
    rewrite compile_binary in *. rewrite !app_length. cbn [length]. rewrite <- !app_assoc in EC.
    post_intro (IHa r c f rest pre (compile_expr b ++ [IBinary (lower n)] ++ post) MA EC EP) r1 c1 f1 rest1 S1 M1 EV1 MV1 P1 K1.
    destruct (after_operands_code f f1 pre _ _ MV1 EC EP P1) as [EC1 EP1].
    post_intro (IHb r1 c1 f1 rest1 (pre ++ compile_expr a) ([IBinary (lower n)] ++ post) M1 EC1 EP1) r2 c2 f2 rest2 S2 M2 EV2 MV2 P2 K2.
    destruct (after_operands_code f1 f2 _ _ _ MV2 EC1 EP1 P2) as [EC2 EP2].
    destruct M2 as (G2 & EF2 & MM2 & B2 & D2). destruct MA as (_ & _ & _ & B & _).
    rewrite EV1 in EV2.
    set (c0 := set_values (set_frames c2 (set_pos f2 (S (f_pos f2)) :: rest2)) (c_values c)).
    destruct (binary_run r2 c2 f2 rest2 _ _ (lower n) (cv (RBool (negb sk))) (cv (RCode x)) (c_values c)
                (push_frame c0 (mk_frame (cur_ns c0) (compile_block x) None None (mvars []))) VNil G2 EF2 EC2 EP2 EV2) as [S3 G3].
    { rewrite (moved_base _ _ MV2), (moved_base _ _ MV1); exact B. } { discriminate. } { discriminate. }
    { rewrite lower_idem. exact (proj1 (lazy_vm _ sk _ r2 c0 HN)). }
    { destruct G2 as (_ & _ & _ & _ & _ & _ & SU); exact SU. }
    destruct (scope_run_z s2 [] x out s3 _ c0 (set_pos f2 (S (f_pos f2))) rest2 (scope_ends_of_body _ _ _ _ _ IHx) G3) as (r4 & c4 & fc4 & rest4 & S4 & M4 & EV4 & K4 & KR4).
    { rewrite quirks_upd_cur; exact D2. } { reflexivity. } { apply match_upd, match_set_pos; exact MM2. }
    { cbn. rewrite (moved_base _ _ MV2), (moved_base _ _ MV1); exact B. }
    eexists _, _, fc4, rest4. split; [eapply steps_trans; [exact S1|eapply steps_trans; [exact S2|eapply steps_trans; [exact S3|exact S4]]]|].
    split; [exact M4|]. split; [exact EV4|].
    split; [eapply moved_trans; [exact MV1|eapply moved_trans; [exact MV2|eapply moved_trans; [apply (moved_set_pos f2 (S (f_pos f2)))|apply kept_moved; exact K4]]]|].
    split; [rewrite (kept_pos _ _ K4); cbn; rewrite P2, P1; lia|eapply kept_all_trans; [exact K1|eapply kept_all_trans; eassumption]].
  - (* for "_i" *) intros s n a var s1 HN NL HA IHa r c f rest pre post MA EC EP.
    rewrite (compile_unary_nonlit n a NL) in *. rewrite app_length. cbn [length]. rewrite <- app_assoc in EC.
    post_intro (IHa r c f rest pre ([IUnary (lower n)] ++ post) MA EC EP) r1 c1 f1 rest1 S1 M1 EV1 MV1 P1 K1.
    destruct (after_operands_code f f1 pre _ _ MV1 EC EP P1) as [EC1 EP1].
    destruct M1 as (G1 & EF1 & MM1 & B1 & D1). destruct MA as (_ & _ & _ & B & _).
    set (c0 := set_values (set_frames c1 (set_pos f1 (S (f_pos f1)) :: rest1)) (c_values c)).
    destruct (unary_run r1 c1 f1 rest1 _ _ (lower n) (cv (RStr var)) (c_values c) c0 (cv (RFor var 0 0 1)) G1 EF1 EC1 EP1 EV1) as [S2 G2].
    { rewrite (moved_base _ _ MV1); exact B. } { discriminate. } { rewrite lower_idem, HN. reflexivity. }
    { destruct G1 as (_ & _ & _ & _ & _ & _ & SU); exact SU. }
    eexists _, _, _, rest1. split; [eapply steps_trans; [exact S1|exact S2]|]. split.
    + split; [exact G2|]. split; [reflexivity|]. split; [apply match_upd, match_set_pos; exact MM1|].
      split; [cbn; rewrite (moved_base _ _ MV1); lia|rewrite quirks_upd_cur; exact D1].
    + split; [reflexivity|]. split; [eapply moved_trans; [exact MV1|apply moved_set_pos]|]. split; [cbn; rewrite P1; lia|exact K1].
  - (* from / to / step *) intros s n a b var fr to st x fr' to' st' s1 s2 HN HA IHa HB IHb r c f rest pre post MA EC EP.
    rewrite compile_binary in *. rewrite !app_length. cbn [length]. rewrite <- !app_assoc in EC.
    post_intro (IHa r c f rest pre (compile_expr b ++ [IBinary (lower n)] ++ post) MA EC EP) r1 c1 f1 rest1 S1 M1 EV1 MV1 P1 K1.
    destruct (after_operands_code f f1 pre _ _ MV1 EC EP P1) as [EC1 EP1].
    post_intro (IHb r1 c1 f1 rest1 (pre ++ compile_expr a) ([IBinary (lower n)] ++ post) M1 EC1 EP1) r2 c2 f2 rest2 S2 M2 EV2 MV2 P2 K2.
    destruct (after_operands_code f1 f2 _ _ _ MV2 EC1 EP1 P2) as [EC2 EP2].
    destruct M2 as (G2 & EF2 & MM2 & B2 & D2). destruct MA as (_ & _ & _ & B & _).
    rewrite EV1 in EV2.
    set (c0 := set_values (set_frames c2 (set_pos f2 (S (f_pos f2)) :: rest2)) (c_values c)).
    destruct (binary_run r2 c2 f2 rest2 _ _ (lower n) (cv (RFor var fr to st)) (cv (RNum x)) (c_values c) c0 (cv (RFor var fr' to' st')) G2 EF2 EC2 EP2 EV2) as [S3 G3].
    { rewrite (moved_base _ _ MV2), (moved_base _ _ MV1); exact B. } { discriminate. } { discriminate. }
    { rewrite lower_idem. apply for_set_vm. exact HN. }
    { destruct G2 as (_ & _ & _ & _ & _ & _ & SU); exact SU. }
    eexists _, _, _, rest2. split; [eapply steps_trans; [exact S1|eapply steps_trans; [exact S2|exact S3]]|]. split.
    + split; [exact G3|]. split; [reflexivity|]. split; [apply match_upd, match_set_pos; exact MM2|].
      split; [cbn; rewrite (moved_base _ _ MV2), (moved_base _ _ MV1); lia|rewrite quirks_upd_cur; exact D2].
    + split; [reflexivity|]. split; [eapply moved_trans; [exact MV1|eapply moved_trans; [exact MV2|apply moved_set_pos]]|].
      split; [cbn; rewrite P2, P1; lia|eapply kept_all_trans; eassumption].
  - (* for .. do {..} over an empty range *) intros s n a b var fr to st body s1 s2 HN HA IHa HB IHb HE r c f rest pre post MA EC EP.
    rewrite compile_binary in *. rewrite !app_length. cbn [length]. rewrite <- !app_assoc in EC.
    post_intro (IHa r c f rest pre (compile_expr b ++ [IBinary (lower n)] ++ post) MA EC EP) r1 c1 f1 rest1 S1 M1 EV1 MV1 P1 K1.
    destruct (after_operands_code f f1 pre _ _ MV1 EC EP P1) as [EC1 EP1].
    post_intro (IHb r1 c1 f1 rest1 (pre ++ compile_expr a) ([IBinary (lower n)] ++ post) M1 EC1 EP1) r2 c2 f2 rest2 S2 M2 EV2 MV2 P2 K2.
    destruct (after_operands_code f1 f2 _ _ _ MV2 EC1 EP1 P2) as [EC2 EP2].
    destruct M2 as (G2 & EF2 & MM2 & B2 & D2). destruct MA as (_ & _ & _ & B & _).
    rewrite EV1 in EV2.
    set (c0 := set_values (set_frames c2 (set_pos f2 (S (f_pos f2)) :: rest2)) (c_values c)).
    destruct (binary_run r2 c2 f2 rest2 _ _ (lower n) (cv (RFor var fr to st)) (cv (RCode body)) (c_values c) c0 VNil G2 EF2 EC2 EP2 EV2) as [S3 G3].
    { rewrite (moved_base _ _ MV2), (moved_base _ _ MV1); exact B. } { discriminate. } { discriminate. }
    { rewrite lower_idem, HN. cbn [cv]. rewrite for_do_vm, HE. reflexivity. }
    { destruct G2 as (_ & _ & _ & _ & _ & _ & SU); exact SU. }
    eexists _, _, _, rest2. split; [eapply steps_trans; [exact S1|eapply steps_trans; [exact S2|exact S3]]|]. split.
    + split; [exact G3|]. split; [reflexivity|]. split; [apply match_upd, match_set_pos; exact MM2|].
      split; [cbn; rewrite (moved_base _ _ MV2), (moved_base _ _ MV1); lia|rewrite quirks_upd_cur; exact D2].
    + split; [reflexivity|]. split; [eapply moved_trans; [exact MV1|eapply moved_trans; [exact MV2|apply moved_set_pos]]|].
      split; [cbn; rewrite P2, P1; lia|eapply kept_all_trans; eassumption].
  - (* for .. do {..} *) intros s n a b var fr to st body s1 s2 acc s3 HN HA IHa HB IHb HE LF HI IHi r c f rest pre post MA EC EP.
    rewrite compile_binary in *. rewrite !app_length. cbn [length]. rewrite <- !app_assoc in EC.
    post_intro (IHa r c f rest pre (compile_expr b ++ [IBinary (lower n)] ++ post) MA EC EP) r1 c1 f1 rest1 S1 M1 EV1 MV1 P1 K1.
    destruct (after_operands_code f f1 pre _ _ MV1 EC EP P1) as [EC1 EP1].
    post_intro (IHb r1 c1 f1 rest1 (pre ++ compile_expr a) ([IBinary (lower n)] ++ post) M1 EC1 EP1) r2 c2 f2 rest2 S2 M2 EV2 MV2 P2 K2.
    destruct (after_operands_code f1 f2 _ _ _ MV2 EC1 EP1 P2) as [EC2 EP2].
    destruct M2 as (G2 & EF2 & MM2 & B2 & D2). destruct MA as (_ & _ & _ & B & _).
    rewrite EV1 in EV2.
    set (c0 := set_values (set_frames c2 (set_pos f2 (S (f_pos f2)) :: rest2)) (c_values c)).
    set (lf := mk_frame (cur_ns c0) (compile_block body) (Some (BFor var to st)) None [(lower var, VNum fr)]).
    destruct (binary_run r2 c2 f2 rest2 _ _ (lower n) (cv (RFor var fr to st)) (cv (RCode body)) (c_values c)
                (push_frame c0 lf) VNil G2 EF2 EC2 EP2 EV2) as [S3 G3].
    { rewrite (moved_base _ _ MV2), (moved_base _ _ MV1); exact B. } { discriminate. } { discriminate. }
    { rewrite lower_idem, HN. cbn [cv]. rewrite for_do_vm, HE. reflexivity. }
    { destruct G2 as (_ & _ & _ & _ & _ & _ & SU); exact SU. }
    set (nf := set_base lf (length (c_values c))).
    destruct (IHi (upd_cur r2 (push_value (push_frame c0 lf) VNil)) (push_value (push_frame c0 lf) VNil) nf (set_pos f2 (S (f_pos f2))) rest2 (c_values c))
      as (r4 & c4 & fc4 & rest4 & S4 & _ & M4 & EV4 & K4 & KR4).
    { split.
      - split; [exact G3|]. split; [reflexivity|]. split.
        + apply match_upd. destruct MM2 as [F N]. split; [|exact N]. cbn. inversion F as [|sc f0 scs fs FM F' E1 E2]; subst.
          constructor; [|constructor; [exact FM|exact F']].
          split; [apply (vars_match_mvars [(lower var, RNum fr)])|split; [|split; reflexivity]].
          cbn. destruct FM as (_ & NS & _). unfold cur_ns_of. rewrite <- E1. exact NS.
        + split; [cbn; lia|rewrite quirks_upd_cur; exact D2].
      - split; [reflexivity|]. exists [VNil]. split; [reflexivity|]. split; [reflexivity|]. split; [discriminate|nil_case]. }
    { apply fresh_one; reflexivity. }
    { reflexivity. } { reflexivity. } { reflexivity. } { reflexivity. } { exact LF. } { reflexivity. }
    { cbn. rewrite (moved_base _ _ MV2), (moved_base _ _ MV1); exact B. }
    eexists _, _, fc4, rest4. split; [eapply steps_trans; [exact S1|eapply steps_trans; [exact S2|eapply steps_trans; [exact S3|exact S4]]]|].
    split; [exact M4|]. split; [exact EV4|].
    split; [eapply moved_trans; [exact MV1|eapply moved_trans; [exact MV2|eapply moved_trans; [apply (moved_set_pos f2 (S (f_pos f2)))|apply kept_moved; exact K4]]]|].
    split; [rewrite (kept_pos _ _ K4); cbn; rewrite P2, P1; lia|eapply kept_all_trans; [exact K1|eapply kept_all_trans; eassumption]].
  - (* while {..} *) intros s n a cond s1 HN NL HA IHa r c f rest pre post MA EC EP.
    rewrite (compile_unary_nonlit n a NL) in *. rewrite app_length. cbn [length]. rewrite <- app_assoc in EC.
    post_intro (IHa r c f rest pre ([IUnary (lower n)] ++ post) MA EC EP) r1 c1 f1 rest1 S1 M1 EV1 MV1 P1 K1.
    destruct (after_operands_code f f1 pre _ _ MV1 EC EP P1) as [EC1 EP1].
    destruct M1 as (G1 & EF1 & MM1 & B1 & D1). destruct MA as (_ & _ & _ & B & _).
    set (c0 := set_values (set_frames c1 (set_pos f1 (S (f_pos f1)) :: rest1)) (c_values c)).
    destruct (unary_run r1 c1 f1 rest1 _ _ (lower n) (cv (RCode cond)) (c_values c) c0 (cv (RWhile cond)) G1 EF1 EC1 EP1 EV1) as [S2 G2].
    { rewrite (moved_base _ _ MV1); exact B. } { discriminate. } { rewrite lower_idem, HN. reflexivity. }
    { destruct G1 as (_ & _ & _ & _ & _ & _ & SU); exact SU. }
    eexists _, _, _, rest1. split; [eapply steps_trans; [exact S1|exact S2]|]. split.
    + split; [exact G2|]. split; [reflexivity|]. split; [apply match_upd, match_set_pos; exact MM1|].
      split; [cbn; rewrite (moved_base _ _ MV1); lia|rewrite quirks_upd_cur; exact D1].
    + split; [reflexivity|]. split; [eapply moved_trans; [exact MV1|apply moved_set_pos]|]. split; [cbn; rewrite P1; lia|exact K1].
  - (* while {..} do {..} *) intros s n a b cond body s1 s2 v s3 HN HA IHa HB IHb LFc LFb HW IHw r c f rest pre post MA EC EP.
    rewrite compile_binary in *. rewrite !app_length. cbn [length]. rewrite <- !app_assoc in EC.
    post_intro (IHa r c f rest pre (compile_expr b ++ [IBinary (lower n)] ++ post) MA EC EP) r1 c1 f1 rest1 S1 M1 EV1 MV1 P1 K1.
    destruct (after_operands_code f f1 pre _ _ MV1 EC EP P1) as [EC1 EP1].
    post_intro (IHb r1 c1 f1 rest1 (pre ++ compile_expr a) ([IBinary (lower n)] ++ post) M1 EC1 EP1) r2 c2 f2 rest2 S2 M2 EV2 MV2 P2 K2.
    destruct (after_operands_code f1 f2 _ _ _ MV2 EC1 EP1 P2) as [EC2 EP2].
    destruct M2 as (G2 & EF2 & MM2 & B2 & D2). destruct MA as (_ & _ & _ & B & _).
    rewrite EV1 in EV2.
    set (c0 := set_values (set_frames c2 (set_pos f2 (S (f_pos f2)) :: rest2)) (c_values c)).
    pose proof LFc as (ic & codec & LCc & _).
    set (lf := mk_frame (cur_ns c0) (compile_block cond) (Some (BWhile 0 WCond (compile_block cond) (compile_block body))) None []).
    destruct (binary_run r2 c2 f2 rest2 _ _ (lower n) (cv (RWhile cond)) (cv (RCode body)) (c_values c)
                (push_frame c0 lf) VNil G2 EF2 EC2 EP2 EV2) as [S3 G3].
    { rewrite (moved_base _ _ MV2), (moved_base _ _ MV1); exact B. } { discriminate. } { discriminate. }
    { rewrite lower_idem, HN. cbn [cv]. unfold lf. rewrite LCc. apply while_do_vm. }
    { destruct G2 as (_ & _ & _ & _ & _ & _ & SU); exact SU. }
    set (nf := set_base lf (length (c_values c))).
    destruct (IHw (upd_cur r2 (push_value (push_frame c0 lf) VNil)) (push_value (push_frame c0 lf) VNil) nf (set_pos f2 (S (f_pos f2))) rest2 (c_values c) 0)
      as (r4 & c4 & fc4 & rest4 & S4 & _ & M4 & EV4 & K4 & KR4).
    { split.
      - split; [exact G3|]. split; [reflexivity|]. split.
        + apply match_upd. destruct MM2 as [F N]. split; [|exact N]. cbn. inversion F as [|sc f0 scs fs FM F' E1 E2]; subst.
          constructor; [|constructor; [exact FM|exact F']].
          split; [intros k; reflexivity|split; [|split; reflexivity]].
          cbn. destruct FM as (_ & NS & _). unfold cur_ns_of. rewrite <- E1. exact NS.
        + split; [cbn; lia|rewrite quirks_upd_cur; exact D2].
      - split; [reflexivity|]. exists [VNil]. split; [reflexivity|]. split; [reflexivity|]. split; [discriminate|nil_case]. }
    { apply fresh_one; reflexivity. }
    { reflexivity. } { reflexivity. } { reflexivity. } { reflexivity. } { exact LFc. } { exact LFb. } { reflexivity. }
    { cbn. rewrite (moved_base _ _ MV2), (moved_base _ _ MV1); exact B. }
    eexists _, _, fc4, rest4. split; [eapply steps_trans; [exact S1|eapply steps_trans; [exact S2|eapply steps_trans; [exact S3|exact S4]]]|].
    split; [exact M4|]. split; [exact EV4|].
    split; [eapply moved_trans; [exact MV1|eapply moved_trans; [exact MV2|eapply moved_trans; [apply (moved_set_pos f2 (S (f_pos f2)))|apply kept_moved; exact K4]]]|].
    split; [rewrite (kept_pos _ _ K4); cbn; rewrite P2, P1; lia|eapply kept_all_trans; [exact K1|eapply kept_all_trans; eassumption]].
  - (* diag_log *) intros s n a va t s1 HN NL HA IHa NNa HS r c f rest pre post MA EC EP.
    rewrite (compile_unary_nonlit n a NL) in *. rewrite app_length. cbn [length]. rewrite <- app_assoc in EC.
    post_intro (IHa r c f rest pre ([IUnary (lower n)] ++ post) MA EC EP) r1 c1 f1 rest1 S1 M1 EV1 MV1 P1 K1.
    destruct (after_operands_code f f1 pre _ _ MV1 EC EP P1) as [EC1 EP1].
    destruct M1 as (G1 & EF1 & MM1 & B1 & D1). destruct MA as (_ & _ & _ & B & _).
    set (c0 := set_values (set_frames c1 (set_pos f1 (S (f_pos f1)) :: rest1)) (c_values c)).
    set (r2 := mark (logmsg r1 d_InfoMessage) t).
    destruct (unary_run_g r1 c1 f1 rest1 _ _ (lower n) (cv va) (c_values c) r2 c0 VNil G1 EF1 EC1 EP1 EV1) as [S2 G2].
    { rewrite (moved_base _ _ MV1); exact B. } { apply nonnil_cv; exact NNa. }
    { rewrite lower_idem, HN. unfold op_unary. cbn [String.eqb Ascii.eqb Bool.eqb]. rewrite (show_cv false va t HS). reflexivity. }
    { destruct G1 as (_ & _ & _ & _ & _ & _ & SU); exact SU. } { apply ctl_same_mark. }
    eexists _, _, _, rest1. split; [eapply steps_trans; [exact S1|exact S2]|]. split.
    + split; [exact G2|]. split; [reflexivity|]. split; [apply match_upd, match_mark, match_set_pos; exact MM1|].
      split; [cbn; rewrite (moved_base _ _ MV1); lia|rewrite quirks_upd_cur; exact D1].
    + split; [reflexivity|]. split; [eapply moved_trans; [exact MV1|apply moved_set_pos]|]. split; [cbn; rewrite P1; lia|exact K1].
  - (* missionNamespace, uiNamespace *) intros s n ns HN r c f rest pre post MA EC EP. cbn [compile_expr app length] in *.
    eapply push_post; eauto. intros c1 F1. cbn [exec_instr]. rewrite lower_idem. unfold ns_nular in HN. unfold op_nular.
    destruct (String.eqb (lower n) "missionnamespace") eqn:E1.
    { apply String.eqb_eq in E1. rewrite E1. inversion HN; subst. reflexivity. }
    destruct (String.eqb (lower n) "uinamespace") eqn:E2; [|discriminate HN].
    apply String.eqb_eq in E2. rewrite E2. inversion HN; subst. reflexivity.
  - (* with ns *) intros s n a ns s1 HN NL HA IHa r c f rest pre post MA EC EP.
    rewrite (compile_unary_nonlit n a NL) in *. rewrite app_length. cbn [length]. rewrite <- app_assoc in EC.
    post_intro (IHa r c f rest pre ([IUnary (lower n)] ++ post) MA EC EP) r1 c1 f1 rest1 S1 M1 EV1 MV1 P1 K1.
    destruct (after_operands_code f f1 pre _ _ MV1 EC EP P1) as [EC1 EP1].
    destruct M1 as (G1 & EF1 & MM1 & B1 & D1). destruct MA as (_ & _ & _ & B & _).
    set (c0 := set_values (set_frames c1 (set_pos f1 (S (f_pos f1)) :: rest1)) (c_values c)).
    destruct (unary_run r1 c1 f1 rest1 _ _ (lower n) (cv (RNs ns)) (c_values c) c0 (cv (RWith ns)) G1 EF1 EC1 EP1 EV1) as [S2 G2].
    { rewrite (moved_base _ _ MV1); exact B. } { discriminate. } { rewrite lower_idem, HN. reflexivity. }
    { destruct G1 as (_ & _ & _ & _ & _ & _ & SU); exact SU. }
    eexists _, _, _, rest1. split; [eapply steps_trans; [exact S1|exact S2]|]. split.
    + split; [exact G2|]. split; [reflexivity|]. split; [apply match_upd, match_set_pos; exact MM1|].
      split; [cbn; rewrite (moved_base _ _ MV1); lia|rewrite quirks_upd_cur; exact D1].
    + split; [reflexivity|]. split; [eapply moved_trans; [exact MV1|apply moved_set_pos]|]. split; [cbn; rewrite P1; lia|exact K1].
  - (* with ns do {..} *) intros s n a b ns body s1 s2 out s3 HN HA IHa HB IHb HX IHx r c f rest pre post MA EC EP.
    rewrite compile_binary in *. rewrite !app_length. cbn [length]. rewrite <- !app_assoc in EC.
    post_intro (IHa r c f rest pre (compile_expr b ++ [IBinary (lower n)] ++ post) MA EC EP) r1 c1 f1 rest1 S1 M1 EV1 MV1 P1 K1.
    destruct (after_operands_code f f1 pre _ _ MV1 EC EP P1) as [EC1 EP1].
    post_intro (IHb r1 c1 f1 rest1 (pre ++ compile_expr a) ([IBinary (lower n)] ++ post) M1 EC1 EP1) r2 c2 f2 rest2 S2 M2 EV2 MV2 P2 K2.
    destruct (after_operands_code f1 f2 _ _ _ MV2 EC1 EP1 P2) as [EC2 EP2].
    destruct M2 as (G2 & EF2 & MM2 & B2 & D2). destruct MA as (_ & _ & _ & B & _).
    rewrite EV1 in EV2.
    set (c0 := set_values (set_frames c2 (set_pos f2 (S (f_pos f2)) :: rest2)) (c_values c)).
    destruct (binary_run r2 c2 f2 rest2 _ _ (lower n) (cv (RWith ns)) (cv (RCode body)) (c_values c)
                (push_frame c0 (mk_frame ns (compile_block body) None None (mvars []))) VNil G2 EF2 EC2 EP2 EV2) as [S3 G3].
    { rewrite (moved_base _ _ MV2), (moved_base _ _ MV1); exact B. } { discriminate. } { discriminate. }
    { rewrite lower_idem, HN. reflexivity. }
    { destruct G2 as (_ & _ & _ & _ & _ & _ & SU); exact SU. }
    destruct (scope_run_ns s2 ns [] body out s3 _ c0 (set_pos f2 (S (f_pos f2))) rest2 (scope_ends_of_body _ _ _ _ _ IHx) G3) as (r4 & c4 & fc4 & rest4 & S4 & M4 & EV4 & K4 & KR4).
    { rewrite quirks_upd_cur; exact D2. } { reflexivity. } { apply match_upd, match_set_pos; exact MM2. }
    { cbn. rewrite (moved_base _ _ MV2), (moved_base _ _ MV1); exact B. }
    eexists _, _, fc4, rest4. split; [eapply steps_trans; [exact S1|eapply steps_trans; [exact S2|eapply steps_trans; [exact S3|exact S4]]]|].
    split; [exact M4|]. split; [exact EV4|].
    split; [eapply moved_trans; [exact MV1|eapply moved_trans; [exact MV2|eapply moved_trans; [apply (moved_set_pos f2 (S (f_pos f2)))|apply kept_moved; exact K4]]]|].
    split; [rewrite (kept_pos _ _ K4); cbn; rewrite P2, P1; lia|eapply kept_all_trans; [exact K1|eapply kept_all_trans; eassumption]].
  - (* ns getVariable "x", bound *) intros s n a b ns x s1 s2 v HN HA IHa HB IHb HG NV r c f rest pre post MA EC EP.
    rewrite compile_binary in *. rewrite !app_length. cbn [length]. rewrite <- !app_assoc in EC.
    post_intro (IHa r c f rest pre (compile_expr b ++ [IBinary (lower n)] ++ post) MA EC EP) r1 c1 f1 rest1 S1 M1 EV1 MV1 P1 K1.
    destruct (after_operands_code f f1 pre _ _ MV1 EC EP P1) as [EC1 EP1].
    post_intro (IHb r1 c1 f1 rest1 (pre ++ compile_expr a) ([IBinary (lower n)] ++ post) M1 EC1 EP1) r2 c2 f2 rest2 S2 M2 EV2 MV2 P2 K2.
    destruct (after_operands_code f1 f2 _ _ _ MV2 EC1 EP1 P2) as [EC2 EP2].
    destruct M2 as (G2 & EF2 & MM2 & B2 & D2). destruct MA as (_ & _ & _ & B & _).
    rewrite EV1 in EV2.
    set (c0 := set_values (set_frames c2 (set_pos f2 (S (f_pos f2)) :: rest2)) (c_values c)).
    destruct (binary_run r2 c2 f2 rest2 _ _ (lower n) (cv (RNs ns)) (cv (RStr x)) (c_values c) c0 (cv v) G2 EF2 EC2 EP2 EV2) as [S3 G3].
    { rewrite (moved_base _ _ MV2), (moved_base _ _ MV1); exact B. } { discriminate. } { discriminate. }
    { rewrite lower_idem, HN. unfold op_binary. cbn [String.eqb Ascii.eqb Bool.eqb cv]. rewrite (ns_get_match _ _ _ ns x MM2), HG. reflexivity. }
    { destruct G2 as (_ & _ & _ & _ & _ & _ & SU); exact SU. }
    eexists _, _, _, rest2. split; [eapply steps_trans; [exact S1|eapply steps_trans; [exact S2|exact S3]]|]. split.
    + split; [exact G3|]. split; [reflexivity|]. split; [apply match_upd, match_set_pos; exact MM2|].
      split; [cbn; rewrite (moved_base _ _ MV2), (moved_base _ _ MV1); lia|rewrite quirks_upd_cur; exact D2].
    + split; [reflexivity|]. split; [eapply moved_trans; [exact MV1|eapply moved_trans; [exact MV2|apply moved_set_pos]]|].
      split; [cbn; rewrite P2, P1; lia|eapply kept_all_trans; eassumption].
  - (* ns getVariable "x", not bound *) intros s n a b ns x s1 s2 HN HA IHa HB IHb HG r c f rest pre post MA EC EP.
    rewrite compile_binary in *. rewrite !app_length. cbn [length]. rewrite <- !app_assoc in EC.
    post_intro (IHa r c f rest pre (compile_expr b ++ [IBinary (lower n)] ++ post) MA EC EP) r1 c1 f1 rest1 S1 M1 EV1 MV1 P1 K1.
    destruct (after_operands_code f f1 pre _ _ MV1 EC EP P1) as [EC1 EP1].
    post_intro (IHb r1 c1 f1 rest1 (pre ++ compile_expr a) ([IBinary (lower n)] ++ post) M1 EC1 EP1) r2 c2 f2 rest2 S2 M2 EV2 MV2 P2 K2.
    destruct (after_operands_code f1 f2 _ _ _ MV2 EC1 EP1 P2) as [EC2 EP2].
    destruct M2 as (G2 & EF2 & MM2 & B2 & D2). destruct MA as (_ & _ & _ & B & _).
    rewrite EV1 in EV2.
    set (c0 := set_values (set_frames c2 (set_pos f2 (S (f_pos f2)) :: rest2)) (c_values c)).
    destruct (binary_run r2 c2 f2 rest2 _ _ (lower n) (cv (RNs ns)) (cv (RStr x)) (c_values c) c0 (cv RNil) G2 EF2 EC2 EP2 EV2) as [S3 G3].
    { rewrite (moved_base _ _ MV2), (moved_base _ _ MV1); exact B. } { discriminate. } { discriminate. }
    { rewrite lower_idem, HN. unfold op_binary. cbn [String.eqb Ascii.eqb Bool.eqb cv]. rewrite (ns_get_match _ _ _ ns x MM2), HG. reflexivity. }
    { destruct G2 as (_ & _ & _ & _ & _ & _ & SU); exact SU. }
    eexists _, _, _, rest2. split; [eapply steps_trans; [exact S1|eapply steps_trans; [exact S2|exact S3]]|]. split.
    + split; [exact G3|]. split; [reflexivity|]. split; [apply match_upd, match_set_pos; exact MM2|].
      split; [cbn; rewrite (moved_base _ _ MV2), (moved_base _ _ MV1); lia|rewrite quirks_upd_cur; exact D2].
    + split; [reflexivity|]. split; [eapply moved_trans; [exact MV1|eapply moved_trans; [exact MV2|apply moved_set_pos]]|].
      split; [cbn; rewrite P2, P1; lia|eapply kept_all_trans; eassumption].
  - (* ns setVariable ["x", v] *) intros s n a b ns x v s1 s2 HN HA IHa HB IHb r c f rest pre post MA EC EP.
    rewrite compile_binary in *. rewrite !app_length. cbn [length]. rewrite <- !app_assoc in EC.
    post_intro (IHa r c f rest pre (compile_expr b ++ [IBinary (lower n)] ++ post) MA EC EP) r1 c1 f1 rest1 S1 M1 EV1 MV1 P1 K1.
    destruct (after_operands_code f f1 pre _ _ MV1 EC EP P1) as [EC1 EP1].
    post_intro (IHb r1 c1 f1 rest1 (pre ++ compile_expr a) ([IBinary (lower n)] ++ post) M1 EC1 EP1) r2 c2 f2 rest2 S2 M2 EV2 MV2 P2 K2.
    destruct (after_operands_code f1 f2 _ _ _ MV2 EC1 EP1 P2) as [EC2 EP2].
    destruct M2 as (G2 & EF2 & MM2 & B2 & D2). destruct MA as (_ & _ & _ & B & _).
    rewrite EV1 in EV2.
    set (c0 := set_values (set_frames c2 (set_pos f2 (S (f_pos f2)) :: rest2)) (c_values c)).
    destruct (binary_run_g r2 c2 f2 rest2 _ _ (lower n) (cv (RNs ns)) (cv (RArr [RStr x; v])) (c_values c) (ns_set r2 ns x (cv v)) c0 VNil G2 EF2 EC2 EP2 EV2) as [S3 G3].
    { rewrite (moved_base _ _ MV2), (moved_base _ _ MV1); exact B. } { discriminate. } { discriminate. }
    { rewrite lower_idem, HN. reflexivity. }
    { destruct G2 as (_ & _ & _ & _ & _ & _ & SU); exact SU. } { apply ctl_same_ns_set. }
    eexists _, _, _, rest2. split; [eapply steps_trans; [exact S1|eapply steps_trans; [exact S2|exact S3]]|]. split.
    + split; [exact G3|]. split; [reflexivity|]. split; [apply match_upd, match_ns_set, match_set_pos; exact MM2|].
      split; [cbn; rewrite (moved_base _ _ MV2), (moved_base _ _ MV1); lia|rewrite quirks_upd_cur; exact D2].
    + split; [reflexivity|]. split; [eapply moved_trans; [exact MV1|eapply moved_trans; [exact MV2|apply moved_set_pos]]|].
      split; [cbn; rewrite P2, P1; lia|eapply kept_all_trans; eassumption].
  - (* private "x" *) intros s n a x s1 HN NL HA IHa HH r c f rest pre post MA EC EP.
    rewrite (compile_unary_nonlit n a NL) in *. rewrite app_length. cbn [length]. rewrite <- app_assoc in EC.
    post_intro (IHa r c f rest pre ([IUnary (lower n)] ++ post) MA EC EP) r1 c1 f1 rest1 S1 M1 EV1 MV1 P1 K1.
    destruct (after_operands_code f f1 pre _ _ MV1 EC EP P1) as [EC1 EP1].
    destruct M1 as (G1 & EF1 & MM1 & B1 & D1). destruct MA as (_ & _ & _ & B & _).
    set (c0 := set_values (set_frames c1 (set_pos f1 (S (f_pos f1)) :: rest1)) (c_values c)).
    destruct (match_declare s1 r1 c0 (set_pos f1 (S (f_pos f1))) rest1 x HH eq_refl (match_set_pos _ _ _ _ _ MM1)) as (f2 & EF2 & MM2 & K2 & EV2 & SU2).
    destruct (unary_run r1 c1 f1 rest1 _ _ (lower n) (cv (RStr x)) (c_values c) (declare_top_var c0 x) VNil G1 EF1 EC1 EP1 EV1) as [S2 G2].
    { rewrite (moved_base _ _ MV1); exact B. } { discriminate. } { rewrite lower_idem, HN. reflexivity. }
    { rewrite SU2. destruct G1 as (_ & _ & _ & _ & _ & _ & SU); exact SU. }
    eexists _, _, f2, rest1. split; [eapply steps_trans; [exact S1|exact S2]|]. split.
    + split; [exact G2|]. split; [exact EF2|]. split; [apply match_upd; exact MM2|].
      split; [|rewrite quirks_upd_cur; exact D1].
      change (c_values (push_value (declare_top_var c0 x) VNil)) with (VNil :: c_values (declare_top_var c0 x)).
      rewrite EV2, (kept_base _ _ K2). cbn. rewrite (moved_base _ _ MV1). lia.
    + split; [change (c_values (push_value (declare_top_var c0 x) VNil)) with (VNil :: c_values (declare_top_var c0 x)); rewrite EV2; reflexivity|]. split; [eapply moved_trans; [exact MV1|eapply moved_trans; [apply (moved_set_pos f1 (S (f_pos f1)))|apply kept_moved; exact K2]]|].
      split; [rewrite (kept_pos _ _ K2); cbn; rewrite P1; lia|exact K1].
  - (* try {..} *) intros s n a b s1 HN NL HA IHa r c f rest pre post MA EC EP.
    rewrite (compile_unary_nonlit n a NL) in *. rewrite app_length. cbn [length]. rewrite <- app_assoc in EC.
    post_intro (IHa r c f rest pre ([IUnary (lower n)] ++ post) MA EC EP) r1 c1 f1 rest1 S1 M1 EV1 MV1 P1 K1.
    destruct (after_operands_code f f1 pre _ _ MV1 EC EP P1) as [EC1 EP1].
    destruct M1 as (G1 & EF1 & MM1 & B1 & D1). destruct MA as (_ & _ & _ & B & _).
    set (c0 := set_values (set_frames c1 (set_pos f1 (S (f_pos f1)) :: rest1)) (c_values c)).
    destruct (unary_run r1 c1 f1 rest1 _ _ (lower n) (cv (RCode b)) (c_values c) c0 (cv (RTry b)) G1 EF1 EC1 EP1 EV1) as [S2 G2].
    { rewrite (moved_base _ _ MV1); exact B. } { discriminate. } { rewrite lower_idem, HN. reflexivity. }
    { destruct G1 as (_ & _ & _ & _ & _ & _ & SU); exact SU. }
    eexists _, _, _, rest1. split; [eapply steps_trans; [exact S1|exact S2]|]. split.
    + split; [exact G2|]. split; [reflexivity|]. split; [apply match_upd, match_set_pos; exact MM1|].
      split; [cbn; rewrite (moved_base _ _ MV1); lia|rewrite quirks_upd_cur; exact D1].
    + split; [reflexivity|]. split; [eapply moved_trans; [exact MV1|apply moved_set_pos]|]. split; [cbn; rewrite P1; lia|exact K1].
  - (* try {..} catch {..}, no throw *) intros s n a b body h s1 s2 out s3 HN HA IHa HB IHb HX IHx r c f rest pre post MA EC EP.
    rewrite compile_binary in *. rewrite !app_length. cbn [length]. rewrite <- !app_assoc in EC.
    post_intro (IHa r c f rest pre (compile_expr b ++ [IBinary (lower n)] ++ post) MA EC EP) r1 c1 f1 rest1 S1 M1 EV1 MV1 P1 K1.
    destruct (after_operands_code f f1 pre _ _ MV1 EC EP P1) as [EC1 EP1].
    post_intro (IHb r1 c1 f1 rest1 (pre ++ compile_expr a) ([IBinary (lower n)] ++ post) M1 EC1 EP1) r2 c2 f2 rest2 S2 M2 EV2 MV2 P2 K2.
    destruct (after_operands_code f1 f2 _ _ _ MV2 EC1 EP1 P2) as [EC2 EP2].
    destruct M2 as (G2 & EF2 & MM2 & B2 & D2). destruct MA as (_ & _ & _ & B & _).
    rewrite EV1 in EV2.
    set (c0 := set_values (set_frames c2 (set_pos f2 (S (f_pos f2)) :: rest2)) (c_values c)).
    destruct (binary_run r2 c2 f2 rest2 _ _ (lower n) (cv (RTry body)) (cv (RCode h)) (c_values c)
                (push_frame c0 (mk_frame (cur_ns c0) (compile_block body) None (Some (ECatch (compile_block h))) (mvars []))) VNil G2 EF2 EC2 EP2 EV2) as [S3 G3].
    { rewrite (moved_base _ _ MV2), (moved_base _ _ MV1); exact B. } { discriminate. } { discriminate. }
    { rewrite lower_idem, HN. reflexivity. }
    { destruct G2 as (_ & _ & _ & _ & _ & _ & SU); exact SU. }
    destruct (scope_run_err s2 body out s3 _ c0 (set_pos f2 (S (f_pos f2))) rest2 (Some (ECatch (compile_block h))) (scope_ends_of_body _ _ _ _ _ IHx) G3) as (r4 & c4 & fc4 & rest4 & S4 & M4 & EV4 & K4 & KR4).
    { rewrite quirks_upd_cur; exact D2. } { reflexivity. } { apply match_upd, match_set_pos; exact MM2. }
    { cbn. rewrite (moved_base _ _ MV2), (moved_base _ _ MV1); exact B. }
    eexists _, _, fc4, rest4. split; [eapply steps_trans; [exact S1|eapply steps_trans; [exact S2|eapply steps_trans; [exact S3|exact S4]]]|].
    split; [exact M4|]. split; [exact EV4|].
    split; [eapply moved_trans; [exact MV1|eapply moved_trans; [exact MV2|eapply moved_trans; [apply (moved_set_pos f2 (S (f_pos f2)))|apply kept_moved; exact K4]]]|].
    split; [rewrite (kept_pos _ _ K4); cbn; rewrite P2, P1; lia|eapply kept_all_trans; [exact K1|eapply kept_all_trans; eassumption]].
  - (* try {.. throw ..} catch {..} *) intros s n a b body h s1 s2 x s3 out s4 HN HA IHa HB IHb HX IHx HH IHh r c f rest pre post MA EC EP.
    rewrite compile_binary in *. rewrite !app_length. cbn [length]. rewrite <- !app_assoc in EC.
    post_intro (IHa r c f rest pre (compile_expr b ++ [IBinary (lower n)] ++ post) MA EC EP) r1 c1 f1 rest1 S1 M1 EV1 MV1 P1 K1.
    destruct (after_operands_code f f1 pre _ _ MV1 EC EP P1) as [EC1 EP1].
    post_intro (IHb r1 c1 f1 rest1 (pre ++ compile_expr a) ([IBinary (lower n)] ++ post) M1 EC1 EP1) r2 c2 f2 rest2 S2 M2 EV2 MV2 P2 K2.
    destruct (after_operands_code f1 f2 _ _ _ MV2 EC1 EP1 P2) as [EC2 EP2].
    destruct M2 as (G2 & EF2 & MM2 & B2 & D2). destruct MA as (_ & _ & _ & B & _).
    rewrite EV1 in EV2.
    set (c0 := set_values (set_frames c2 (set_pos f2 (S (f_pos f2)) :: rest2)) (c_values c)).
    set (newf := mk_frame (cur_ns c0) (compile_block body) None (Some (ECatch (compile_block h))) (mvars [])).
    destruct (binary_run r2 c2 f2 rest2 _ _ (lower n) (cv (RTry body)) (cv (RCode h)) (c_values c)
                (push_frame c0 newf) VNil G2 EF2 EC2 EP2 EV2) as [S3 G3].
    { rewrite (moved_base _ _ MV2), (moved_base _ _ MV1); exact B. } { discriminate. } { discriminate. }
    { rewrite lower_idem, HN. reflexivity. }
    { destruct G2 as (_ & _ & _ & _ & _ & _ & SU); exact SU. }
    destruct (throw_in_try s2 body x s3 _ c0 (set_pos f2 (S (f_pos f2))) rest2 (compile_block h) IHx G3) as (r4 & c4 & rest4 & ft0 & S4 & K4 & MT & CA).
    { rewrite quirks_upd_cur; exact D2. } { reflexivity. } { apply match_upd, match_set_pos; exact MM2. }
    inversion K4 as [|fa fc4 ra rest4' Ka Kb Ea Eb]; subst.
    fold newf in MT. set (hf := handler_frame ft0 (compile_block h) (cv x)) in *.
    destruct (caught_at _ _ _ _ _ _ CA (eq_sym (moved_base _ _ MT))) as [A5 FR5].
    destruct (scope_ends_of_body _ _ _ _ _ IHh r4 c4 hf fc4 rest4' (c_values c0) [] A5 FR5 eq_refl eq_refl (moved_exit _ _ MT)) as (r5 & c5 & fc5 & rest5 & S5 & M5 & EV5 & K5 & KR5).
    { rewrite (kept_base _ _ Ka). cbn. rewrite (moved_base _ _ MV2), (moved_base _ _ MV1); exact B. }
    eexists _, _, fc5, rest5. split; [eapply steps_trans; [exact S1|eapply steps_trans; [exact S2|eapply steps_trans; [exact S3|eapply steps_trans; [exact S4|exact S5]]]]|].
    split; [exact M5|]. split; [exact EV5|].
    split; [eapply moved_trans; [exact MV1|eapply moved_trans; [exact MV2|eapply moved_trans; [apply (moved_set_pos f2 (S (f_pos f2)))|apply kept_moved; eapply kept_trans; eassumption]]]|].
    split; [rewrite (kept_pos _ _ K5), (kept_pos _ _ Ka); cbn; rewrite P2, P1; lia|eapply kept_all_trans; [exact K1|eapply kept_all_trans; [exact K2|eapply kept_all_trans; eassumption]]].
  - (* scopeName "t" *) intros s n a t s1 sc scs HN NL HA IHa ES EN r c f rest pre post MA EC EP.
    rewrite (compile_unary_nonlit n a NL) in *. rewrite app_length. cbn [length]. rewrite <- app_assoc in EC.
    post_intro (IHa r c f rest pre ([IUnary (lower n)] ++ post) MA EC EP) r1 c1 f1 rest1 S1 M1 EV1 MV1 P1 K1.
    destruct (after_operands_code f f1 pre _ _ MV1 EC EP P1) as [EC1 EP1].
    destruct M1 as (G1 & EF1 & MM1 & B1 & D1). destruct MA as (_ & _ & _ & B & _).
    set (c0 := set_values (set_frames c1 (set_pos f1 (S (f_pos f1)) :: rest1)) (c_values c)).
    destruct (match_name s1 r1 c0 (set_pos f1 (S (f_pos f1))) rest1 t sc scs eq_refl (match_set_pos _ _ _ _ _ MM1) ES EN) as [FS MM2].
    destruct (unary_run r1 c1 f1 rest1 _ _ (lower n) (cv (RStr t)) (c_values c) (upd_top c0 (fun f0 => set_scope f0 t)) VNil G1 EF1 EC1 EP1 EV1) as [S2 G2].
    { rewrite (moved_base _ _ MV1); exact B. } { discriminate. }
    { rewrite lower_idem, HN. unfold op_unary. cbn [String.eqb Ascii.eqb Bool.eqb cv]. cbn [c_frames set_values set_frames]. rewrite FS. reflexivity. }
    { destruct G1 as (_ & _ & _ & _ & _ & _ & SU); exact SU. }
    eexists _, _, (set_scope (set_pos f1 (S (f_pos f1))) t), rest1. split; [eapply steps_trans; [exact S1|exact S2]|]. split.
    + split; [exact G2|]. split; [reflexivity|]. split; [apply match_upd; exact MM2|].
      split; [cbn; rewrite (moved_base _ _ MV1); lia|rewrite quirks_upd_cur; exact D1].
    + split; [reflexivity|]. split; [|split; [cbn; rewrite P1; lia|exact K1]].
      rewrite <- MV1. unfold moved. destruct f; reflexivity.
  - (* call {.. breakOut own name ..} *) intros s n a b s1 t v s2 HN NL HA IHa HK IHk TN r c f rest pre post MA EC EP.
    rewrite (compile_unary_nonlit n a NL) in *. rewrite app_length. cbn [length]. rewrite <- app_assoc in EC.
    post_intro (IHa r c f rest pre ([IUnary (lower n)] ++ post) MA EC EP) r1 c1 f1 rest1 S1 M1 EV1 MV1 P1 K1.
    destruct (after_operands_code f f1 pre _ _ MV1 EC EP P1) as [EC1 EP1].
    destruct M1 as (G1 & EF1 & MM1 & B1 & D1). destruct MA as (_ & _ & _ & B & _).
    set (c0 := set_values (set_frames c1 (set_pos f1 (S (f_pos f1)) :: rest1)) (c_values c)).
    assert (TH : match get_variable c0 "_this" with Some t0 => t0 | None => VNil end = cv (this_of s1)).
    { unfold get_variable. cbn [c_frames c0 set_values set_frames]. rewrite lookup_frames_set_pos.
      destruct MM1 as [F1 _]. rewrite (lookup_match (lower "_this") eq_refl _ _ F1). unfold this_of.
      change (lower "_this") with "_this". destruct (lookup_scopes "_this" (st_scopes s1)); reflexivity. }
    set (newf := mk_frame (cur_ns c0) (compile_block b) None None (mvars [("_this", this_of s1)])).
    destruct (unary_run r1 c1 f1 rest1 _ _ (lower n) (cv (RCode b)) (c_values c) (push_frame c0 newf) VNil G1 EF1 EC1 EP1 EV1) as [S2 G2].
    { rewrite (moved_base _ _ MV1); exact B. } { discriminate. }
    { rewrite lower_idem, HN. fold c0. cbn [cv]. unfold op_unary. cbn [String.eqb Ascii.eqb Bool.eqb]. rewrite TH. reflexivity. }
    { destruct G1 as (_ & _ & _ & _ & _ & _ & SU); exact SU. }
    pose proof (enter_at s1 [("_this", this_of s1)] (compile_block b) None _ c0 (set_pos f1 (S (f_pos f1))) rest1 G2) as A.
    destruct (IHk _ _ (set_base newf (length (c_values c0))) (set_pos f1 (S (f_pos f1)) :: rest1) (c_values c0) [] 0 [] (set_base newf (length (c_values c0))) (set_pos f1 (S (f_pos f1))) rest1 [] (c_values c0)
                (A (eq_trans (quirks_upd_cur _ _) D1) eq_refl (match_upd _ _ _ _ (match_set_pos _ _ _ _ _ MM1))) (fresh_one (push_value (push_frame c0 newf) VNil) (c_values c0) eq_refl) eq_refl eq_refl)
      as (r3 & c3 & fc3 & rest3 & S3 & M3 & EV3 & K3 & KR3).
    { apply find_name_top; [exact (proj1 (zbreak_facts _ _ _ _ _ _ HK))|exact TN]. } { reflexivity. } { reflexivity. } { constructor. }
    { cbn. rewrite (moved_base _ _ MV1); exact B. } { reflexivity. } { reflexivity. }
    eexists _, _, fc3, rest3. split; [eapply steps_trans; [exact S1|eapply steps_trans; [exact S2|exact S3]]|].
    split; [rewrite drop_scopes_S, drop_scopes_0 in M3; exact M3|].
    split; [exact EV3|].
    split; [eapply moved_trans; [exact MV1|eapply moved_trans; [apply (moved_set_pos f1 (S (f_pos f1)))|apply kept_moved; exact K3]]|].
    split; [rewrite (kept_pos _ _ K3); cbn; rewrite P1; lia|eapply kept_all_trans; eassumption].
  - (* if true then {.. breakOut own name ..} *) intros s n a b blk s1 s2 t v s3 HN HA IHa HB IHb HK IHk TN r c f rest pre post MA EC EP.
    rewrite compile_binary in *. rewrite !app_length. cbn [length]. rewrite <- !app_assoc in EC.
    post_intro (IHa r c f rest pre (compile_expr b ++ [IBinary (lower n)] ++ post) MA EC EP) r1 c1 f1 rest1 S1 M1 EV1 MV1 P1 K1.
    destruct (after_operands_code f f1 pre _ _ MV1 EC EP P1) as [EC1 EP1].
    post_intro (IHb r1 c1 f1 rest1 (pre ++ compile_expr a) ([IBinary (lower n)] ++ post) M1 EC1 EP1) r2 c2 f2 rest2 S2 M2 EV2 MV2 P2 K2.
    destruct (after_operands_code f1 f2 _ _ _ MV2 EC1 EP1 P2) as [EC2 EP2].
    destruct M2 as (G2 & EF2 & MM2 & B2 & D2). destruct MA as (_ & _ & _ & B & _).
    rewrite EV1 in EV2.
    set (c0 := set_values (set_frames c2 (set_pos f2 (S (f_pos f2)) :: rest2)) (c_values c)).
    set (newf := mk_frame (cur_ns c0) (compile_block (blk)) None None (mvars [])).
    destruct (binary_run r2 c2 f2 rest2 _ _ (lower n) (cv (RIf true)) (cv (RCode blk)) (c_values c)
                (push_frame c0 newf) VNil G2 EF2 EC2 EP2 EV2) as [S3 G3].
    { rewrite (moved_base _ _ MV2), (moved_base _ _ MV1); exact B. } { discriminate. } { discriminate. } { rewrite lower_idem, HN. reflexivity. }
    { destruct G2 as (_ & _ & _ & _ & _ & _ & SU); exact SU. }
    pose proof (enter_at s2 [] (compile_block (blk)) None _ c0 (set_pos f2 (S (f_pos f2))) rest2 G3) as A.
    destruct (IHk _ _ (set_base newf (length (c_values c0))) (set_pos f2 (S (f_pos f2)) :: rest2) (c_values c0) [] 0 [] (set_base newf (length (c_values c0))) (set_pos f2 (S (f_pos f2))) rest2 [] (c_values c0)
                (A (eq_trans (quirks_upd_cur _ _) D2) eq_refl (match_upd _ _ _ _ (match_set_pos _ _ _ _ _ MM2))) (fresh_one (push_value (push_frame c0 newf) VNil) (c_values c0) eq_refl) eq_refl eq_refl)
      as (r4 & c4 & fc4 & rest4 & S4 & M4 & EV4 & K4 & KR4).
    { apply find_name_top; [exact (proj1 (zbreak_facts _ _ _ _ _ _ HK))|exact TN]. } { reflexivity. } { reflexivity. } { constructor. }
    { cbn. rewrite (moved_base _ _ MV2), (moved_base _ _ MV1); exact B. } { reflexivity. } { reflexivity. }
    eexists _, _, fc4, rest4. split; [eapply steps_trans; [exact S1|eapply steps_trans; [exact S2|eapply steps_trans; [exact S3|exact S4]]]|].
    split; [rewrite drop_scopes_S, drop_scopes_0 in M4; exact M4|]. split; [exact EV4|].
    split; [eapply moved_trans; [exact MV1|eapply moved_trans; [exact MV2|eapply moved_trans; [apply (moved_set_pos f2 (S (f_pos f2)))|apply kept_moved; exact K4]]]|].
    split; [rewrite (kept_pos _ _ K4); cbn; rewrite P2, P1; lia|eapply kept_all_trans; [exact K1|eapply kept_all_trans; eassumption]].
  - (* if c then {..} else {..}, the chosen block breaks out of its own scope *) intros s n a b cnd x0 y0 s1 s2 t v s3 HN HA IHa HB IHb HK IHk TN r c f rest pre post MA EC EP.
    rewrite compile_binary in *. rewrite !app_length. cbn [length]. rewrite <- !app_assoc in EC.
    post_intro (IHa r c f rest pre (compile_expr b ++ [IBinary (lower n)] ++ post) MA EC EP) r1 c1 f1 rest1 S1 M1 EV1 MV1 P1 K1.
    destruct (after_operands_code f f1 pre _ _ MV1 EC EP P1) as [EC1 EP1].
    post_intro (IHb r1 c1 f1 rest1 (pre ++ compile_expr a) ([IBinary (lower n)] ++ post) M1 EC1 EP1) r2 c2 f2 rest2 S2 M2 EV2 MV2 P2 K2.
    destruct (after_operands_code f1 f2 _ _ _ MV2 EC1 EP1 P2) as [EC2 EP2].
    destruct M2 as (G2 & EF2 & MM2 & B2 & D2). destruct MA as (_ & _ & _ & B & _).
    rewrite EV1 in EV2.
    set (c0 := set_values (set_frames c2 (set_pos f2 (S (f_pos f2)) :: rest2)) (c_values c)).
    set (newf := mk_frame (cur_ns c0) (compile_block (if cnd then x0 else y0)) None None (mvars [])).
    destruct (binary_run r2 c2 f2 rest2 _ _ (lower n) (cv (RIf cnd)) (cv (RArr [RCode x0; RCode y0])) (c_values c)
                (push_frame c0 newf) VNil G2 EF2 EC2 EP2 EV2) as [S3 G3].
    { rewrite (moved_base _ _ MV2), (moved_base _ _ MV1); exact B. } { discriminate. } { discriminate. } { rewrite lower_idem, HN. destruct cnd; reflexivity. }
    { destruct G2 as (_ & _ & _ & _ & _ & _ & SU); exact SU. }
    pose proof (enter_at s2 [] (compile_block (if cnd then x0 else y0)) None _ c0 (set_pos f2 (S (f_pos f2))) rest2 G3) as A.
    destruct (IHk _ _ (set_base newf (length (c_values c0))) (set_pos f2 (S (f_pos f2)) :: rest2) (c_values c0) [] 0 [] (set_base newf (length (c_values c0))) (set_pos f2 (S (f_pos f2))) rest2 [] (c_values c0)
                (A (eq_trans (quirks_upd_cur _ _) D2) eq_refl (match_upd _ _ _ _ (match_set_pos _ _ _ _ _ MM2))) (fresh_one (push_value (push_frame c0 newf) VNil) (c_values c0) eq_refl) eq_refl eq_refl)
      as (r4 & c4 & fc4 & rest4 & S4 & M4 & EV4 & K4 & KR4).
    { apply find_name_top; [exact (proj1 (zbreak_facts _ _ _ _ _ _ HK))|exact TN]. } { reflexivity. } { reflexivity. } { constructor. }
    { cbn. rewrite (moved_base _ _ MV2), (moved_base _ _ MV1); exact B. } { reflexivity. } { reflexivity. }
    eexists _, _, fc4, rest4. split; [eapply steps_trans; [exact S1|eapply steps_trans; [exact S2|eapply steps_trans; [exact S3|exact S4]]]|].
    split; [rewrite drop_scopes_S, drop_scopes_0 in M4; exact M4|]. split; [exact EV4|].
    split; [eapply moved_trans; [exact MV1|eapply moved_trans; [exact MV2|eapply moved_trans; [apply (moved_set_pos f2 (S (f_pos f2)))|apply kept_moved; exact K4]]]|].
    split; [rewrite (kept_pos _ _ K4); cbn; rewrite P2, P1; lia|eapply kept_all_trans; [exact K1|eapply kept_all_trans; eassumption]].
  - (* switch v *) intros s n a v s1 HN NL HA IHa NNv r c f rest pre post MA EC EP.
    rewrite (compile_unary_nonlit n a NL) in *. rewrite app_length. cbn [length]. rewrite <- app_assoc in EC.
    post_intro (IHa r c f rest pre ([IUnary (lower n)] ++ post) MA EC EP) r1 c1 f1 rest1 S1 M1 EV1 MV1 P1 K1.
    destruct (after_operands_code f f1 pre _ _ MV1 EC EP P1) as [EC1 EP1].
    destruct M1 as (G1 & EF1 & MM1 & B1 & D1). destruct MA as (_ & _ & _ & B & _).
    set (c0 := set_values (set_frames c1 (set_pos f1 (S (f_pos f1)) :: rest1)) (c_values c)).
    destruct (unary_run r1 c1 f1 rest1 _ _ (lower n) (cv v) (c_values c) c0 (cv (RSwitch v)) G1 EF1 EC1 EP1 EV1) as [S2 G2].
    { rewrite (moved_base _ _ MV1); exact B. } { apply nonnil_cv; exact NNv. } { rewrite lower_idem, HN. reflexivity. }
    { destruct G1 as (_ & _ & _ & _ & _ & _ & SU); exact SU. }
    eexists _, _, _, rest1. split; [eapply steps_trans; [exact S1|exact S2]|]. split.
    + split; [exact G2|]. split; [reflexivity|]. split; [apply match_upd, match_set_pos; exact MM1|].
      split; [cbn; rewrite (moved_base _ _ MV1); lia|rewrite quirks_upd_cur; exact D1].
    + split; [reflexivity|]. split; [eapply moved_trans; [exact MV1|apply moved_set_pos]|]. split; [cbn; rewrite P1; lia|exact K1].
  - (* switch v do {..}, no block chosen *) intros s n a b v body s1 s2 sw HN HA IHa HB IHb HW HT r c f rest pre post MA EC EP.
    rewrite compile_binary in *. rewrite !app_length. cbn [length]. rewrite <- !app_assoc in EC.
    post_intro (IHa r c f rest pre (compile_expr b ++ [IBinary (lower n)] ++ post) MA EC EP) r1 c1 f1 rest1 S1 M1 EV1 MV1 P1 K1.
    destruct (after_operands_code f f1 pre _ _ MV1 EC EP P1) as [EC1 EP1].
    post_intro (IHb r1 c1 f1 rest1 (pre ++ compile_expr a) ([IBinary (lower n)] ++ post) M1 EC1 EP1) r2 c2 f2 rest2 S2 M2 EV2 MV2 P2 K2.
    destruct (after_operands_code f1 f2 _ _ _ MV2 EC1 EP1 P2) as [EC2 EP2].
    destruct M2 as (G2 & EF2 & MM2 & B2 & D2). destruct MA as (_ & _ & _ & B & _).
    rewrite EV1 in EV2.
    set (fcur := set_pos f2 (S (f_pos f2))).
    set (c0 := set_values (set_frames c2 (fcur :: rest2)) (c_values c)).
    set (newf := mk_frame (cur_ns c0) (compile_block body) (Some (BSwitch false)) None [("___switch", VSwitch (cv v) [] false false)]).
    destruct (binary_run r2 c2 f2 rest2 _ _ (lower n) (cv (RSwitch v)) (cv (RCode body)) (c_values c)
                (push_frame c0 newf) VNil G2 EF2 EC2 EP2 EV2) as [S3 G3].
    { rewrite (moved_base _ _ MV2), (moved_base _ _ MV1); exact B. } { discriminate. } { discriminate. }
    { rewrite lower_idem, HN. reflexivity. }
    { destruct G2 as (_ & _ & _ & _ & _ & _ & SU); exact SU. }
    destruct (enter_sw s2 v (compile_block body) _ c0 fcur rest2 G3) as (M3 & FR3 & SI3).
    { rewrite quirks_upd_cur; exact D2. } { reflexivity. } { apply match_upd, match_set_pos; exact MM2. }
    set (nf := set_base newf (length (c_values c0))) in *.
    destruct (switch_body_vm _ _ _ _ HW _ _ nf (fcur :: rest2) (c_values c0) [] true M3 eq_refl FR3 eq_refl eq_refl SI3)
      as (r4 & c4 & f4 & S4 & M4 & (t4 & EV4 & UT4) & _ & _ & MV4 & SI4 & DN4).
    pose proof M4 as (G4 & EF4 & MM4 & B4 & D4).
    destruct (sw_complete r4 c4 f4 fcur rest2 false t4 (c_values c0) G4 D4 EF4 DN4) as [S5 G5].
    { rewrite (moved_exit _ _ MV4). reflexivity. } { rewrite (moved_die _ _ MV4). reflexivity. }
    { right. unfold SwInv, sw_val, sw_code in SI4. destruct HT as [HT|HT]; rewrite HT in SI4; eexists _, _, _; exact SI4. }
    { exact EV4. } { rewrite (moved_base _ _ MV4). reflexivity. }
    rewrite (under_top t4 UT4) in S5, G5.
    eexists _, _, fcur, rest2. split; [eapply steps_trans; [exact S1|eapply steps_trans; [exact S2|eapply steps_trans; [exact S3|eapply steps_trans; [exact S4|exact S5]]]]|].
    split.
    + split; [exact G5|]. split; [reflexivity|]. split.
      * apply match_upd. destruct MM4 as [F N]. split; [|exact N]. inversion F as [|sc f0 scs fs FM F' E1 E2]; subst. exact F'.
      * split; [cbn; rewrite (moved_base _ _ MV2), (moved_base _ _ MV1); lia|rewrite quirks_upd_cur; exact D4].
    + split; [reflexivity|]. split; [eapply moved_trans; [exact MV1|eapply moved_trans; [exact MV2|apply moved_set_pos]]|].
      split; [cbn; rewrite P2, P1; lia|eapply kept_all_trans; eassumption].
  - (* switch v do {..}, the chosen block runs *)
    intros s n a b v body s1 s2 sw t ts reg s4 HN HA IHa HB IHb HW HT LF HK IHk r c f rest pre post MA EC EP.
    rewrite compile_binary in *. rewrite !app_length. cbn [length]. rewrite <- !app_assoc in EC.
    post_intro (IHa r c f rest pre (compile_expr b ++ [IBinary (lower n)] ++ post) MA EC EP) r1 c1 f1 rest1 S1 M1 EV1 MV1 P1 K1.
    destruct (after_operands_code f f1 pre _ _ MV1 EC EP P1) as [EC1 EP1].
    post_intro (IHb r1 c1 f1 rest1 (pre ++ compile_expr a) ([IBinary (lower n)] ++ post) M1 EC1 EP1) r2 c2 f2 rest2 S2 M2 EV2 MV2 P2 K2.
    destruct (after_operands_code f1 f2 _ _ _ MV2 EC1 EP1 P2) as [EC2 EP2].
    destruct M2 as (G2 & EF2 & MM2 & B2 & D2). destruct MA as (_ & _ & _ & B & _).
    rewrite EV1 in EV2.
    set (fcur := set_pos f2 (S (f_pos f2))).
    set (c0 := set_values (set_frames c2 (fcur :: rest2)) (c_values c)).
    set (newf := mk_frame (cur_ns c0) (compile_block body) (Some (BSwitch false)) None [("___switch", VSwitch (cv v) [] false false)]).
    destruct (binary_run r2 c2 f2 rest2 _ _ (lower n) (cv (RSwitch v)) (cv (RCode body)) (c_values c)
                (push_frame c0 newf) VNil G2 EF2 EC2 EP2 EV2) as [S3 G3].
    { rewrite (moved_base _ _ MV2), (moved_base _ _ MV1); exact B. } { discriminate. } { discriminate. }
    { rewrite lower_idem, HN. reflexivity. }
    { destruct G2 as (_ & _ & _ & _ & _ & _ & SU); exact SU. }
    destruct (enter_sw s2 v (compile_block body) _ c0 fcur rest2 G3) as (M3 & FR3 & SI3).
    { rewrite quirks_upd_cur; exact D2. } { reflexivity. } { apply match_upd, match_set_pos; exact MM2. }
    set (nf := set_base newf (length (c_values c0))) in *.
    destruct (switch_body_vm _ _ _ _ HW _ _ nf (fcur :: rest2) (c_values c0) [] true M3 eq_refl FR3 eq_refl eq_refl SI3)
      as (r4 & c4 & f4 & S4 & M4 & (t4 & EV4 & UT4) & NE4 & _ & MV4 & SI4 & DN4).
    assert (BN : body <> []).
    { intros ->. inversion HW; subst. cbn in HT. discriminate HT. }
    destruct (NE4 BN) as (t5 & EV5). rewrite EV5 in EV4.
    assert (t4 = VNil :: t5) by (apply (app_inv_tail (c_values c0)); rewrite <- EV4; reflexivity). subst t4.
    pose proof M4 as (G4 & EF4 & MM4 & B4 & D4).
    destruct LF as (i0 & code' & LC & LL).
    assert (A4 : assoc "___switch" (f_vars f4) = Some (VSwitch (cv (sw_v sw)) (i0 :: code') (sw_now sw) (sw_has sw))).
    { unfold SwInv, sw_val, sw_code in SI4. rewrite HT, LC in SI4. exact SI4. }
    assert (X4 : f_exit f4 = Some (BSwitch false)) by (rewrite (moved_exit _ _ MV4); reflexivity).
    assert (E4 : f_die f4 = false) by (rewrite (moved_die _ _ MV4); reflexivity).
    pose proof (sw_back r4 c4 f4 (fcur :: rest2) _ i0 code' _ _ G4 EF4 DN4 X4 E4 LL A4) as BK.
    set (fV := sw_frame f4 (i0 :: code')) in *. set (cV := set_frames c4 (fV :: fcur :: rest2)) in *.
    assert (GV : Good (upd_cur r4 cV) cV) by (apply (good_upd r4 c4 cV G4); destruct G4 as (_ & _ & _ & _ & _ & _ & SU); exact SU).
    assert (AV : AtM (enter s2 []) RNil (upd_cur r4 cV) cV fV (fcur :: rest2) (c_values c0)).
    { split.
      - split; [exact GV|]. split; [reflexivity|]. split.
        + apply match_upd. destruct MM4 as [F N]. split; [|exact N]. inversion F as [|sc f0 scs fs (V & NS & BB) F' E1 E2]; subst.
          constructor; [|exact F']. split; [exact V|split; [exact NS|exact BB]].
        + split; [cbn; rewrite EV5; cbn; rewrite app_length, (moved_base _ _ MV4); cbn; lia|rewrite quirks_upd_cur; exact D4].
      - split; [cbn; rewrite (moved_base _ _ MV4); reflexivity|]. exists (VNil :: t5). split; [exact EV5|].
        split; [reflexivity|]. split; [discriminate|inversion UT4; assumption]. }
    destruct (IHk (upd_cur r4 cV) cV fV fcur rest2 (c_values c0) [] AV) as (r5 & c5 & f5 & rest5 & S5 & A5 & MV5 & P5 & K5).
    { exists (VNil :: t5). split; [exact EV5|exact UT4]. } { cbn [fV sw_frame f_code set_pos set_code]. rewrite LC. reflexivity. } { reflexivity. }
    { cbn. rewrite (moved_base _ _ MV2), (moved_base _ _ MV1); exact B. }
    inversion K5 as [|fa fc5 ra rest5' Ka Kb Ea Eb]; subst.
    destruct A5 as ((G5 & EF5 & MM5 & B5 & D5) & LB5 & top5 & EV6 & RR5).
    destruct (sw_complete r5 c5 f5 fc5 rest5' true top5 (c_values c0) G5 D5 EF5) as [S6 G6].
    { left. rewrite P5, (moved_code _ _ MV5). reflexivity. }
    { rewrite (moved_exit _ _ MV5). reflexivity. } { rewrite (moved_die _ _ MV5). cbn. rewrite E4. reflexivity. }
    { left. reflexivity. } { exact EV6. } { exact LB5. }
    assert (VAL : match top5 with [] => VNil | x :: _ => x end = cv (res_of reg)).
    { destruct top5 as [|x top5]; cbn in RR5; [rewrite RR5; reflexivity|]. destruct RR5 as (-> & NR & _). destruct reg; reflexivity. }
    rewrite VAL in S6, G6.
    set (c6 := set_values (set_frames c5 (fc5 :: rest5')) (cv (res_of reg) :: c_values c0)) in *.
    assert (NQ : upd_cur r5 c6 <> upd_cur r4 cV).
    { destruct GV as (CV & _). destruct G6 as (C6 & _). eapply neq_by_frames; [exact CV|exact C6|].
      cbn. rewrite (forall2_length _ _ _ Kb). lia. }
    assert (ST : Steps r4 (upd_cur r5 c6)).
    { eapply virtual_start; [exact BK|apply cfg_upd_cur|eapply steps_trans; [exact S5|exact S6]|exact NQ]. }
    eexists _, _, fc5, rest5'. split; [eapply steps_trans; [exact S1|eapply steps_trans; [exact S2|eapply steps_trans; [exact S3|eapply steps_trans; [exact S4|exact ST]]]]|].
    split.
    + split; [exact G6|]. split; [reflexivity|]. split.
      * apply match_upd. destruct MM5 as [F N]. split; [|exact N]. inversion F as [|sc f0 scs fs FM F' E1 E2]; subst. cbn. rewrite <- E1. cbn. exact F'.
      * split; [cbn; rewrite (kept_base _ _ Ka); cbn; rewrite (moved_base _ _ MV2), (moved_base _ _ MV1); lia|rewrite quirks_upd_cur; exact D5].
    + split; [reflexivity|]. split; [eapply moved_trans; [exact MV1|eapply moved_trans; [exact MV2|eapply moved_trans; [apply (moved_set_pos f2 (S (f_pos f2)))|apply kept_moved; exact Ka]]]|].
      split; [rewrite (kept_pos _ _ Ka); cbn; rewrite P2, P1; lia|eapply kept_all_trans; [exact K1|eapply kept_all_trans; eassumption]].
  - (* switch v do {..}, the chosen block is left by exitWith: the switch frame is gone, the handler's value handed over *)
    intros s n a b v body s1 s2 sw t ts x s4 HN HA IHa HB IHb HW HT LF HK IHk r c f rest pre post MA EC EP.
    rewrite compile_binary in *. rewrite !app_length. cbn [length]. rewrite <- !app_assoc in EC.
    destruct (switch_to_block s n a b v body s1 s2 sw t ts r c f rest pre post HN IHa IHb HW HT LF MA EC EP)
      as (rV & cV & fV & fcur & rest2 & HS & AV & FRV & ECV & EPV & EXV & EDV & EEV & MVc & PC & KR & BC).
    destruct (IHk rV cV fV fcur rest2 (c_values c) [] AV FRV ECV EPV BC) as (r5 & c5 & fc5 & rest5 & S5 & M5 & EV5 & K5 & KR5).
    assert (N5 : r5 <> rV).
    { destruct AV as ((GV & EFV & _) & _). destruct GV as (CV & _). pose proof M5 as ((C5 & _) & EF5 & _).
      eapply neq_by_frames; [exact CV|exact C5|]. rewrite EF5, EFV. cbn [length]. rewrite (forall2_length _ _ _ KR5). lia. }
    exists r5, c5, fc5, rest5. split; [apply HS; assumption|]. split; [exact M5|]. split; [exact EV5|].
    split; [eapply moved_trans; [exact MVc|apply kept_moved; exact K5]|].
    split; [rewrite (kept_pos _ _ K5), PC; reflexivity|eapply kept_all_trans; eassumption].
  - (* switch v do {..}, the chosen block is left by breakOut to the name of the switch's own scope *)
    intros s n a b v body s1 s2 sw t ts t0 x s4 HN HA IHa HB IHb HW HT LF HK IHk TN r c f rest pre post MA EC EP.
    rewrite compile_binary in *. rewrite !app_length. cbn [length]. rewrite <- !app_assoc in EC.
    destruct (switch_to_block s n a b v body s1 s2 sw t ts r c f rest pre post HN IHa IHb HW HT LF MA EC EP)
      as (rV & cV & fV & fcur & rest2 & HS & AV & FRV & ECV & EPV & EXV & EDV & EEV & MVc & PC & KR & BC).
    destruct (own_break _ _ _ t0 x s4 rV cV fV fcur rest2 (c_values c) IHk (proj1 (zbreak_facts _ _ _ _ _ _ HK)) TN AV FRV ECV EPV BC)
      as (r5 & c5 & fc5 & rest5 & S5 & N5 & M5 & EV5 & K5 & KR5).
    exists r5, c5, fc5, rest5. split; [apply HS; assumption|]. split; [exact M5|]. split; [exact EV5|].
    split; [eapply moved_trans; [exact MVc|apply kept_moved; exact K5]|].
    split; [rewrite (kept_pos _ _ K5), PC; reflexivity|eapply kept_all_trans; eassumption].
  - (* no elements *) intros s r c f rest pre post MA EC EP. split; [|reflexivity].
    exists r, c, f, rest. split; [apply StepsRefl|]. split; [exact MA|]. split; [reflexivity|]. split; [apply moved_refl|].
    split; [cbn; lia|apply kept_all_refl].
  - (* element, elements *) intros s e v s1 l vs s2 HE IHe NN HL IHl r c f rest pre post MA EC EP.
    cbn [flat_map map rev] in *. rewrite app_length. rewrite <- app_assoc in EC.
    post_intro (IHe r c f rest pre (flat_map compile_expr l ++ post) MA EC EP) r1 c1 f1 rest1 S1 M1 EV1 MV1 P1 K1.
    destruct (after_operands_code f f1 pre _ _ MV1 EC EP P1) as [EC1 EP1].
    destruct (IHl r1 c1 f1 rest1 (pre ++ compile_expr e) post M1 EC1 EP1) as [(r2 & c2 & f2 & rest2 & S2 & M2 & EV2 & MV2 & P2 & K2) LEN].
    split; [|cbn; lia].
    exists r2, c2, f2, rest2. split; [eapply steps_trans; eassumption|]. split; [exact M2|].
    split; [rewrite EV2, EV1, <- app_assoc; reflexivity|]. split; [eapply moved_trans; eassumption|].
    split; [rewrite P2, P1; lia|eapply kept_all_trans; eassumption].
  - (* statement: expression *) intros s reg e v s1 HE IHe r c f rest below pre post (MA & LB & top & EV & RR) FR EC EP.
    cbn [compile_stmt] in *.
    post_intro (IHe r c f rest pre post MA EC EP) r1 c1 f1 rest1 S1 M1 EV1 MV1 P1 K1.
    exists r1, c1, f1, rest1. split; [exact S1|]. split; [|split; [exact MV1|split; [exact P1|exact K1]]].
    split; [exact M1|]. split; [rewrite (moved_base _ _ MV1); exact LB|]. exists (cv v :: top). split; [rewrite EV1, EV; reflexivity|].
    split; [reflexivity|]. split; [exact (zev_not_none _ _ _ _ HE)|exact (fresh_under c top below EV FR)].
  - (* statement: x = e *) intros s reg n e v s1 NN HH HE IHe NV r c f rest below pre post (MA & LB & top & EV & RR) FR EC EP.
    cbn [compile_stmt] in *. rewrite app_length. cbn [length]. rewrite <- app_assoc in EC.
    post_intro (IHe r c f rest pre ([IAssign n] ++ post) MA EC EP) r1 c1 f1 rest1 S1 M1 EV1 MV1 P1 K1.
    destruct (after_operands_code f f1 pre _ _ MV1 EC EP P1) as [EC1 EP1].
    destruct MA as (_ & _ & _ & B & _).
    destruct (assign_run s1 r1 c1 f1 rest1 _ _ n v (c_values c) M1 EC1 EP1 EV1) as (r2 & c2 & f2 & rest2 & S2 & M2 & EV2 & MV2 & P2 & K2).
    { rewrite (moved_base _ _ MV1); exact B. } { exact NN. } { exact HH. } { exact NV. }
    exists r2, c2, f2, rest2. split; [eapply steps_trans; eassumption|]. split.
    + split; [exact M2|]. split; [rewrite (moved_base _ _ MV2), (moved_base _ _ MV1); exact LB|]. exists top. split; [rewrite EV2; exact EV|exact RR].
    + split; [eapply moved_trans; eassumption|]. split; [rewrite P2, P1; lia|eapply kept_all_trans; eassumption].
  - (* statement: private _x = e *) intros s reg n e v s1 NN HE IHe NV r c f rest below pre post (MA & LB & top & EV & RR) FR EC EP.
    cbn [compile_stmt] in *. rewrite app_length. cbn [length]. rewrite <- app_assoc in EC.
    post_intro (IHe r c f rest pre ([IAssignLocal n] ++ post) MA EC EP) r1 c1 f1 rest1 S1 M1 EV1 MV1 P1 K1.
    destruct (after_operands_code f f1 pre _ _ MV1 EC EP P1) as [EC1 EP1].
    destruct MA as (_ & _ & _ & B & _).
    destruct (local_run s1 r1 c1 f1 rest1 _ _ n v (c_values c) M1 EC1 EP1 EV1) as (r2 & c2 & f2 & rest2 & S2 & M2 & EV2 & MV2 & P2 & K2).
    { rewrite (moved_base _ _ MV1); exact B. } { exact NN. } { exact NV. }
    exists r2, c2, f2, rest2. split; [eapply steps_trans; eassumption|]. split.
    + split; [exact M2|]. split; [rewrite (moved_base _ _ MV2), (moved_base _ _ MV1); exact LB|]. exists top. split; [rewrite EV2; exact EV|exact RR].
    + split; [eapply moved_trans; eassumption|]. split; [rewrite P2, P1; lia|eapply kept_all_trans; eassumption].
  - (* empty block *) intros s reg r c f fc rest below pre A FR EC EP HB.
    unfold compile_block in EC. cbn [compile_block_from] in EC. rewrite app_nil_r in EC.
    exists r, c, f, (fc :: rest). split; [apply StepsRefl|]. split; [exact A|]. split; [apply moved_refl|]. split; [rewrite EP, EC; reflexivity|apply kept_all_refl].
  - (* last statement *) intros s reg st reg1 s1 HS IHs r c f fc rest below pre A FR EC EP HB.
    unfold compile_block in EC. cbn [compile_block_from app] in EC.
    destruct (IHs r c f (fc :: rest) below pre [] A FR EC EP) as (r1 & c1 & f1 & rest1 & S1 & A1 & MV1 & P1 & K1).
    exists r1, c1, f1, rest1. split; [exact S1|]. split; [exact A1|]. split; [exact MV1|]. split; [|exact K1].
    rewrite P1, EP, EC, !app_length. cbn. lia.
  - (* statement; rest of the block *) intros s reg st reg1 s1 st2 rest0 out s' HS IHs HB IHb r c f fc rest below pre A FR EC EP HBf.
    rewrite compile_block_cons2 in EC.
    destruct (IHs r c f (fc :: rest) below pre _ A FR EC EP) as (r1 & c1 & f1 & rest1 & S1 & A1 & MV1 & P1 & K1).
    inversion K1 as [|fa fc1 ra rest1' Ka Kb Ea Eb]; subst.
    assert (EC1 : f_code f1 = (pre ++ compile_stmt st) ++ IEnd :: compile_block (st2 :: rest0)).
    { rewrite (moved_code _ _ MV1), EC, <- app_assoc. reflexivity. }
    assert (EP1 : f_pos f1 = length (pre ++ compile_stmt st)) by (rewrite app_length, P1, EP; reflexivity).
    destruct (end_run s1 reg1 r1 c1 f1 (fc1 :: rest1') below _ _ A1 EC1 EP1) as (r2 & c2 & S2 & A2 & FR2).
    specialize (IHb r2 c2 (set_pos f1 (S (f_pos f1))) fc1 rest1' below (pre ++ compile_stmt st ++ [IEnd]) A2 FR2).
    assert (Q1 : f_code (set_pos f1 (S (f_pos f1))) = (pre ++ compile_stmt st ++ [IEnd]) ++ compile_block (st2 :: rest0))
      by (cbn [set_pos f_code]; rewrite EC1, <- !app_assoc; reflexivity).
    assert (Q2 : f_pos (set_pos f1 (S (f_pos f1))) = length (pre ++ compile_stmt st ++ [IEnd]))
      by (cbn [set_pos f_pos]; rewrite EP1, !app_length; cbn; lia).
    assert (Q3 : f_base fc1 <= length below) by (rewrite (kept_base _ _ Ka); exact HBf).
    specialize (IHb Q1 Q2 Q3).
    destruct out as [reg'|v].
    + destruct IHb as (r3 & c3 & f3 & rest3 & S3 & A3 & MV3 & P3 & K3).
      exists r3, c3, f3, rest3. split; [eapply steps_trans; [exact S1|eapply steps_trans; [exact S2|exact S3]]|].
      split; [exact A3|]. split; [eapply moved_trans; [exact MV1|eapply moved_trans; [apply (moved_set_pos f1 (S (f_pos f1)))|exact MV3]]|].
      split; [rewrite P3; cbn [set_pos f_code]; rewrite (moved_code _ _ MV1); reflexivity|].
      eapply kept_all_trans; [|exact K3]. constructor; assumption.
    + destruct IHb as (r3 & c3 & fc3 & rest3 & S3 & M3 & EV3 & K3 & KR3).
      exists r3, c3, fc3, rest3. split; [eapply steps_trans; [exact S1|eapply steps_trans; [exact S2|exact S3]]|].
      split; [exact M3|]. split; [exact EV3|]. split; [eapply kept_trans; eassumption|eapply kept_all_trans; eassumption].
  - (* if true exitWith {..}: the scope ends here *)
    intros s reg n l x b s1 s2 out s3 rest0 HN HL IHl HX IHx HB IHb r c f fc rest below pre (MA & LB & top & EV & RR) FR EC EP HBf.
    rewrite compile_block_exit in EC.
    post_intro (IHl r c f (fc :: rest) pre _ MA EC EP) r1 c1 f1 rest1 S1 M1 EV1 MV1 P1 K1.
    destruct (after_operands_code f f1 pre _ _ MV1 EC EP P1) as [EC1 EP1].
    post_intro (IHx r1 c1 f1 rest1 (pre ++ compile_expr l) _ M1 EC1 EP1) r2 c2 f2 rest2 S2 M2 EV2 MV2 P2 K2.
    destruct (after_operands_code f1 f2 _ _ _ MV2 EC1 EP1 P2) as [EC2 EP2].
    destruct M2 as (G2 & EF2 & MM2 & B2 & D2). destruct MA as (_ & _ & _ & B & _).
    rewrite EV1 in EV2.
    assert (KK : Forall2 kept (fc :: rest) rest2) by (eapply kept_all_trans; eassumption).
    inversion KK as [|fa fc2 ra rest2' Ka Kb Ea Eb]; subst.
    set (c0 := set_values (set_frames c2 (set_pos f2 (S (f_pos f2)) :: fc2 :: rest2')) (c_values c)).
    set (fdie := set_die (set_pos (set_pos f2 (S (f_pos f2))) (S (length (f_code f2)))) true).
    set (cX := push_frame (upd_top c0 (fun f => set_die (set_pos f (S (length (f_code f)))) true))
                          (mk_frame (cur_ns c0) (compile_block b) None None [])).
    destruct (binary_run r2 c2 f2 (fc2 :: rest2') _ _ (lower n) (cv (RIf true)) (cv (RCode b)) (c_values c) cX VNil G2 EF2 EC2 EP2 EV2) as [S3 G3].
    { rewrite (moved_base _ _ MV2), (moved_base _ _ MV1); exact B. } { discriminate. } { discriminate. } { rewrite lower_idem, HN. reflexivity. }
    { destruct G2 as (_ & _ & _ & _ & _ & _ & SU); exact SU. }
    set (nf := set_base (mk_frame (cur_ns c0) (compile_block b) None None []) (length (c_values c))).
    assert (A3 : AtM (enter s2 []) RNil (upd_cur r2 (push_value cX VNil)) (push_value cX VNil) nf (fdie :: fc2 :: rest2') (c_values c)).
    { split.
      - split; [exact G3|]. split; [reflexivity|]. split.
        + apply match_upd. destruct MM2 as [F N]. split; [|exact N]. cbn. inversion F as [|sc f0 scs fs FM F' E1 E2]; subst.
          constructor; [|constructor; [exact FM|exact F']].
          split; [intros k; reflexivity|split; [|split; reflexivity]]. cbn. destruct FM as (_ & NS & _). unfold cur_ns_of. rewrite <- E1. exact NS.
        + split; [cbn; lia|rewrite quirks_upd_cur; exact D2].
      - split; [reflexivity|]. exists [VNil]. split; [reflexivity|]. split; [reflexivity|]. split; [discriminate|nil_case]. }
    destruct (scope_ends_of_body _ _ _ _ _ IHb _ _ nf fdie (fc2 :: rest2') (c_values c) [] A3 (fresh_one (push_value cX VNil) (c_values c) eq_refl) eq_refl eq_refl eq_refl) as (r4 & c4 & fd4 & rest4 & S4 & M4 & EV4 & K4 & KR4).
    { cbn. rewrite (moved_base _ _ MV2), (moved_base _ _ MV1); exact B. }
    inversion KR4 as [|fb fc4 rb rest4' Kc Kd Ec Ed]; subst.
    destruct M4 as (G4 & EF4 & MM4 & B4 & D4).
    destruct (complete_dead r4 c4 fd4 fc4 rest4' (cv (val_of out) :: top) below G4 D4 EF4) as [S5 G5].
    { rewrite (kept_pos _ _ K4), (kept_code _ _ K4). reflexivity. }
    { rewrite (kept_die _ _ K4). reflexivity. }
    { rewrite EV4, EV. reflexivity. }
    { rewrite (kept_base _ _ K4). cbn. rewrite (moved_base _ _ MV2), (moved_base _ _ MV1). exact LB. }
    eexists _, _, fc4, rest4'. split; [eapply steps_trans; [exact S1|eapply steps_trans; [exact S2|eapply steps_trans; [exact S3|eapply steps_trans; [exact S4|exact S5]]]]|].
    split.
    + split; [exact G5|]. split; [reflexivity|]. split.
      * apply match_upd. destruct MM4 as [F N]. split; [|exact N]. inversion F as [|sc f0 scs fs FM F' E1 E2]; subst. cbn. rewrite <- E1. cbn. exact F'.
      * split; [cbn; rewrite (kept_base _ _ Kc), (kept_base _ _ Ka); lia|rewrite quirks_upd_cur; exact D4].
    + split; [reflexivity|]. split; [eapply kept_trans; eassumption|eapply kept_all_trans; eassumption].
  - (* a statement whose expression is left by an exitWith inside an operand *)
    intros s reg e v s1 rest0 HX IHx r c f fc rest below pre (MA & LB & top & EV & RR) FR EC EP HBf.
    exact (IHx r c f fc rest pre (compile_block_from false rest0) top below MA EC EP EV LB HBf).
  - (* x = e, e left by exitWith *)
    intros s reg n e v s1 rest0 HX IHx r c f fc rest below pre (MA & LB & top & EV & RR) FR EC EP HBf.
    unfold compile_block in EC. cbn [compile_block_from compile_stmt app] in EC. rewrite <- app_assoc in EC.
    exact (IHx r c f fc rest pre _ top below MA EC EP EV LB HBf).
  - (* private _x = e, e left by exitWith *)
    intros s reg n e v s1 rest0 HX IHx r c f fc rest below pre (MA & LB & top & EV & RR) FR EC EP HBf.
    unfold compile_block in EC. cbn [compile_block_from compile_stmt app] in EC. rewrite <- app_assoc in EC.
    exact (IHx r c f fc rest pre _ top below MA EC EP EV LB HBf).
  - (* no more rounds *) intros k s i body acc. exact I.
  - (* a round, then the rest *) intros k s x rest0 i body acc reg s1 acc1 acc' s' HB IHb KS KO HI IHi.
    cbn [IterRuns]. intros r c f fc frest below allarr b A FR EC EP EX KB ED SK LF ENS HBf.
    specialize (IHb r c f fc frest below [] A FR EC EP HBf). cbn in IHb.
    destruct IHb as (r1 & c1 & f1 & rest1 & S1 & A1 & MV1 & P1 & K1).
    inversion K1 as [|fa fc1 ra frest1 Ka Kb Ea Eb]; subst.
    destruct A as ((G0 & EF0 & _) & _).
    destruct A1 as ((G1 & EF1 & (F1 & N1) & B1 & D1) & LB1 & top1 & EV1 & RR1).
    assert (XE : f_exit f1 = Some b) by (rewrite (moved_exit _ _ MV1); exact EX).
    assert (XD : f_die f1 = false) by (rewrite (moved_die _ _ MV1); exact ED).
    assert (XP : f_pos f1 = length (f_code f1)) by (rewrite P1, (moved_code _ _ MV1); reflexivity).
    pose proof (skipn_cons_length _ _ _ _ SK) as LEN.
    inversion F1 as [|sc1 f0 scs1 fs1 FM1 F1' E1 E2]; subst.
    destruct (skipn_cons_nth _ _ _ _ SK) as [NX0 SK1].
    destruct rest0 as [|x2 rest2].
    + (* that was the last element *)
      destruct (kind_over k allarr i _ acc acc1 reg b r1 c1 f1 (fc1 :: frest1) top1 below true KB KS KO NX0) as (top2 & LO & HD).
      { intros _. rewrite LEN. cbn [length]. lia. } { exact EF1. } { exact EV1. } { exact LB1. } { exact RR1. }
      destruct (complete_loop r1 c1 f1 fc1 frest1 b top2 below G1 D1 EF1 XP XE XD LO LB1) as [S2 G2].
      assert (EA : acc' = acc1 /\ s' = pop_scope s1) by (inversion HI; subst; split; reflexivity). destruct EA as [-> ->].
      eexists _, _, fc1, frest1. split; [eapply steps_trans; eassumption|]. split.
      { destruct G0 as (C0 & _). destruct G2 as (C2 & _). eapply neq_by_frames; [exact C0|exact C2|].
        cbn. rewrite EF0. cbn. rewrite (forall2_length _ _ _ Kb). lia. }
      split.
      { split; [exact G2|]. split; [reflexivity|]. split.
        - apply match_upd. split; [|exact N1]. cbn. rewrite <- E1. cbn. exact F1'.
        - split; [cbn; rewrite (kept_base _ _ Ka); lia|rewrite quirks_upd_cur; exact D1]. }
      split; [cbn; rewrite HD; reflexivity|split; assumption].
    + (* another element: the pass that goes round is the first pass of the next round *)
      destruct LF as (i0 & code' & LC & LL).
      assert (EC1 : f_code f1 = i0 :: code') by (rewrite (moved_code _ _ MV1), EC; exact LC).
      destruct (kind_round k allarr i x x2 rest2 acc acc1 reg b r1 c1 f1 (fc1 :: frest1) top1 below SK KB KS KO EF1 EV1 LB1 RR1) as (b' & KB' & GR).
      pose proof (loop_back r1 c1 f1 (fc1 :: frest1) b b' (mvars (kvars k (S i) x2)) i0 code' below G1 EF1 XP XE XD EC1 LL GR) as LBk.
      set (fV := round_frame f1 b' (mvars (kvars k (S i) x2))) in *.
      set (cV := set_values (set_frames c1 (fV :: fc1 :: frest1)) below) in *.
      cbn [IterRuns] in IHi.
      destruct (IHi (upd_cur r1 cV) cV fV fc1 frest1 below allarr b') as (r4 & c4 & fc4 & rest4 & S4 & N4 & M4 & EV4 & K4 & KR4).
      { split.
        - split; [apply (good_upd r1 c1 cV G1); destruct G1 as (_ & _ & _ & _ & _ & _ & SU); exact SU|]. split; [reflexivity|]. split.
          + apply match_upd. split; [|exact N1]. cbn. rewrite <- E1. cbn. constructor; [|exact F1'].
            split; [|split; [|cbn; split; [exact (proj1 (proj2 (proj2 FM1)))|reflexivity]]].
            * cbn. apply vars_match_mvars.
            * cbn. rewrite (moved_ns _ _ MV1), ENS, <- (kept_ns _ _ Ka).
              inversion F1' as [|sc2 f00 scs2 fs2 FM2 F1'' E3 E4]. destruct FM2 as (_ & NS2 & _).
              unfold cur_ns_of, pop_scope. cbn. rewrite <- E1. cbn. rewrite <- E3. exact NS2.
          + split; [cbn; rewrite LB1; lia|rewrite quirks_upd_cur; exact D1].
        - split; [cbn; exact LB1|]. exists []. split; [reflexivity|reflexivity]. }
      { nil_case. }
      { cbn. rewrite (moved_code _ _ MV1). exact EC. } { reflexivity. } { reflexivity. } { exact KB'. } { cbn. exact XD. }
      { exact SK1. } { exists i0, code'. split; assumption. }
      { cbn. rewrite (moved_ns _ _ MV1), ENS, (kept_ns _ _ Ka). reflexivity. }
      { rewrite (kept_base _ _ Ka). exact HBf. }
      exists r4, c4, fc4, rest4. split; [eapply steps_trans; [exact S1|eapply virtual_start; [exact LBk|apply cfg_upd_cur|exact S4|exact N4]]|].
      split.
      { destruct G0 as (C0 & _). destruct M4 as ((C4 & _) & EF4 & _). eapply neq_by_frames; [exact C0|exact C4|].
        rewrite EF4, EF0. cbn. rewrite (forall2_length _ _ _ KR4), (forall2_length _ _ _ Kb). lia. }
      split; [exact M4|]. split; [exact EV4|]. split; [eapply kept_trans; eassumption|eapply kept_all_trans; eassumption].
  - (* a round after which the loop stops (findIf found its element) *) intros k s x rest0 i body acc reg s1 acc1 HB IHb KS KO.
    cbn [IterRuns]. intros r c f fc frest below allarr b A FR EC EP EX KB ED SK LF ENS HBf.
    specialize (IHb r c f fc frest below [] A FR EC EP HBf). cbn in IHb.
    destruct IHb as (r1 & c1 & f1 & rest1 & S1 & A1 & MV1 & P1 & K1).
    inversion K1 as [|fa fc1 ra frest1 Ka Kb Ea Eb]; subst.
    destruct A as ((G0 & EF0 & _) & _).
    destruct A1 as ((G1 & EF1 & (F1 & N1) & B1 & D1) & LB1 & top1 & EV1 & RR1).
    assert (XE : f_exit f1 = Some b) by (rewrite (moved_exit _ _ MV1); exact EX).
    assert (XD : f_die f1 = false) by (rewrite (moved_die _ _ MV1); exact ED).
    assert (XP : f_pos f1 = length (f_code f1)) by (rewrite P1, (moved_code _ _ MV1); reflexivity).
    inversion F1 as [|sc1 f0 scs1 fs1 FM1 F1' E1 E2]; subst.
    destruct (skipn_cons_nth _ _ _ _ SK) as [NX0 SK1].
    destruct (kind_over k allarr i _ acc acc1 reg b r1 c1 f1 (fc1 :: frest1) top1 below false KB KS KO NX0) as (top2 & LO & HD).
    { discriminate. } { exact EF1. } { exact EV1. } { exact LB1. } { exact RR1. }
    destruct (complete_loop r1 c1 f1 fc1 frest1 b top2 below G1 D1 EF1 XP XE XD LO LB1) as [S2 G2].
    eexists _, _, fc1, frest1. split; [eapply steps_trans; eassumption|]. split.
    { destruct G0 as (C0 & _). destruct G2 as (C2 & _). eapply neq_by_frames; [exact C0|exact C2|].
      cbn. rewrite EF0. cbn. rewrite (forall2_length _ _ _ Kb). lia. }
    split.
    { split; [exact G2|]. split; [reflexivity|]. split.
      - apply match_upd. split; [|exact N1]. cbn. rewrite <- E1. cbn. exact F1'.
      - split; [cbn; rewrite (kept_base _ _ Ka); lia|rewrite quirks_upd_cur; exact D1]. }
    split; [cbn; rewrite HD; reflexivity|split; assumption].
  - (* a round left by exitWith: the loop is over *) intros k s x rest0 i body acc v s1 HB IHb.
    cbn [IterRuns]. intros r c f fc frest below allarr b A FR EC EP EX KB ED SK LF ENS HBf.
    specialize (IHb r c f fc frest below [] A FR EC EP HBf). cbn in IHb.
    destruct IHb as (r1 & c1 & fc1 & rest1 & S1 & M1 & EV1 & K1 & KR1).
    exists r1, c1, fc1, rest1. split; [exact S1|]. split.
    { destruct A as ((G0 & EF0 & _) & _). destruct G0 as (C0 & _). destruct M1 as ((C1 & _) & EF1 & _). eapply neq_by_frames; [exact C0|exact C1|].
      rewrite EF1, EF0. cbn. rewrite (forall2_length _ _ _ KR1). lia. }
    split; [exact M1|]. split; [exact EV1|]. split; assumption.
  - (* a round left by breakOut to the name of its own scope: the loop is over *) intros k s x rest0 i body acc t v s1 HK IHk TN.
    cbn [IterRuns]. intros r c f fc frest below allarr b A FR EC EP EX KB ED SK LF ENS HBf.
    exact (own_break _ _ _ t v s1 r c f fc frest below IHk (proj1 (zbreak_facts _ _ _ _ _ _ HK)) TN A FR EC EP HBf).
  - (* a round of for, then the rest *) intros var to st s x first body reg s1 y acc' s' HB IHb HV TV BY HI IHi.
    intros r c f fc frest below A FR EC EP EX ED LF ENS HBf.
    specialize (IHb r c f fc frest below [] A FR EC EP HBf). cbn in IHb.
    destruct IHb as (r1 & c1 & f1 & rest1 & S1 & A1 & MV1 & P1 & K1).
    inversion K1 as [|fa fc1 ra frest1 Ka Kb Ea Eb]; subst.
    destruct A as ((G0 & EF0 & _) & _).
    destruct A1 as ((G1 & EF1 & (F1 & N1) & B1 & D1) & LB1 & top1 & EV1 & RR1).
    assert (XE : f_exit f1 = Some (BFor var to st)) by (rewrite (moved_exit _ _ MV1); exact EX).
    assert (XD : f_die f1 = false) by (rewrite (moved_die _ _ MV1); exact ED).
    assert (XP : f_pos f1 = length (f_code f1)) by (rewrite P1, (moved_code _ _ MV1); reflexivity).
    inversion F1 as [|sc1 f0 scs1 fs1 FM1 F1' E1 E2]; subst.
    assert (AV : assoc (lower var) (f_vars f1) = Some (VNum y)).
    { destruct FM1 as (V1 & _). rewrite (V1 (lower var) HV). unfold top_var in TV. rewrite <- E1 in TV. rewrite TV. reflexivity. }
    destruct LF as (i0 & code' & LC & LL).
    assert (EC1 : f_code f1 = i0 :: code') by (rewrite (moved_code _ _ MV1), EC; exact LC).
    pose proof (for_round var to st y r1 c1 f1 (fc1 :: frest1) top1 below EF1 EV1 LB1 AV BY) as GR.
    pose proof (loop_back r1 c1 f1 (fc1 :: frest1) _ _ _ i0 code' below G1 EF1 XP XE XD EC1 LL GR) as LBk.
    set (fV := round_frame f1 (BFor var to st) [(lower var, VNum (y + st)%Z)]) in *.
    set (cV := set_values (set_frames c1 (fV :: fc1 :: frest1)) below) in *.
    destruct (IHi (upd_cur r1 cV) cV fV fc1 frest1 below) as (r4 & c4 & fc4 & rest4 & S4 & N4 & M4 & EV4 & K4 & KR4).
    { split.
      - split; [apply (good_upd r1 c1 cV G1); destruct G1 as (_ & _ & _ & _ & _ & _ & SU); exact SU|]. split; [reflexivity|]. split.
        + apply match_upd. split; [|exact N1]. cbn. rewrite <- E1. cbn. constructor; [|exact F1'].
          split; [|split; [|cbn; split; [exact (proj1 (proj2 (proj2 FM1)))|reflexivity]]].
          * cbn. apply (vars_match_mvars [(lower var, RNum (y + st)%Z)]).
          * cbn. rewrite (moved_ns _ _ MV1), ENS, <- (kept_ns _ _ Ka).
            inversion F1' as [|sc2 f00 scs2 fs2 FM2 F1'' E3 E4]. destruct FM2 as (_ & NS2 & _).
            unfold cur_ns_of, pop_scope. cbn. rewrite <- E1. cbn. rewrite <- E3. exact NS2.
        + split; [cbn; rewrite LB1; lia|rewrite quirks_upd_cur; exact D1].
      - split; [cbn; exact LB1|]. exists []. split; [reflexivity|reflexivity]. }
    { nil_case. }
    { cbn. rewrite (moved_code _ _ MV1). exact EC. } { reflexivity. } { reflexivity. } { cbn. exact XD. }
    { exists i0, code'. split; assumption. }
    { cbn. rewrite (moved_ns _ _ MV1), ENS, (kept_ns _ _ Ka). reflexivity. }
    { rewrite (kept_base _ _ Ka). exact HBf. }
    exists r4, c4, fc4, rest4. split; [eapply steps_trans; [exact S1|eapply virtual_start; [exact LBk|apply cfg_upd_cur|exact S4|exact N4]]|].
    split.
    { destruct G0 as (C0 & _). destruct M4 as ((C4 & _) & EF4 & _). eapply neq_by_frames; [exact C0|exact C4|].
      rewrite EF4, EF0. cbn. rewrite (forall2_length _ _ _ KR4), (forall2_length _ _ _ Kb). lia. }
    split; [exact M4|]. split; [exact EV4|]. split; [eapply kept_trans; eassumption|eapply kept_all_trans; eassumption].
  - (* the last round of for *) intros var to st s x first body reg s1 y HB IHb HV TV BY.
    intros r c f fc frest below A FR EC EP EX ED LF ENS HBf.
    specialize (IHb r c f fc frest below [] A FR EC EP HBf). cbn in IHb.
    destruct IHb as (r1 & c1 & f1 & rest1 & S1 & A1 & MV1 & P1 & K1).
    inversion K1 as [|fa fc1 ra frest1 Ka Kb Ea Eb]; subst.
    destruct A as ((G0 & EF0 & _) & _).
    destruct A1 as ((G1 & EF1 & (F1 & N1) & B1 & D1) & LB1 & top1 & EV1 & RR1).
    assert (XE : f_exit f1 = Some (BFor var to st)) by (rewrite (moved_exit _ _ MV1); exact EX).
    assert (XD : f_die f1 = false) by (rewrite (moved_die _ _ MV1); exact ED).
    assert (XP : f_pos f1 = length (f_code f1)) by (rewrite P1, (moved_code _ _ MV1); reflexivity).
    inversion F1 as [|sc1 f0 scs1 fs1 FM1 F1' E1 E2]; subst.
    assert (AV : assoc (lower var) (f_vars f1) = Some (VNum y)).
    { destruct FM1 as (V1 & _). rewrite (V1 (lower var) HV). unfold top_var in TV. rewrite <- E1 in TV. rewrite TV. reflexivity. }
    pose proof (for_over var to st y r1 c1 f1 (fc1 :: frest1) top1 below EF1 EV1 AV BY) as LO.
    destruct (complete_loop r1 c1 f1 fc1 frest1 _ top1 below G1 D1 EF1 XP XE XD LO LB1) as [S2 G2].
    eexists _, _, fc1, frest1. split; [eapply steps_trans; eassumption|]. split.
    { destruct G0 as (C0 & _). destruct G2 as (C2 & _). eapply neq_by_frames; [exact C0|exact C2|].
      cbn. rewrite EF0. cbn. rewrite (forall2_length _ _ _ Kb). lia. }
    split.
    { split; [exact G2|]. split; [reflexivity|]. split.
      - apply match_upd. split; [|exact N1]. cbn. rewrite <- E1. cbn. exact F1'.
      - split; [cbn; rewrite (kept_base _ _ Ka); lia|rewrite quirks_upd_cur; exact D1]. }
    split; [|split; assumption].
    cbn. f_equal. destruct top1 as [|y0 top1]; cbn in RR1.
    + rewrite RR1. reflexivity.
    + destruct RR1 as [-> NN]. destruct reg; reflexivity.
  - (* a round of for left by exitWith *) intros var to st s x first body v s1 HB IHb.
    intros r c f fc frest below A FR EC EP EX ED LF ENS HBf.
    specialize (IHb r c f fc frest below [] A FR EC EP HBf). cbn in IHb.
    destruct IHb as (r1 & c1 & fc1 & rest1 & S1 & M1 & EV1 & K1 & KR1).
    exists r1, c1, fc1, rest1. split; [exact S1|]. split.
    { destruct A as ((G0 & EF0 & _) & _). destruct G0 as (C0 & _). destruct M1 as ((C1 & _) & EF1 & _). eapply neq_by_frames; [exact C0|exact C1|].
      rewrite EF1, EF0. cbn. rewrite (forall2_length _ _ _ KR1). lia. }
    split; [exact M1|]. split; [exact EV1|]. split; assumption.
  - (* a round of for left by breakOut to the name of its own scope *) intros var to st s x first body t v s1 HK IHk TN.
    intros r c f fc frest below A FR EC EP EX ED LF ENS HBf.
    exact (own_break _ _ _ t v s1 r c f fc frest below IHk (proj1 (zbreak_facts _ _ _ _ _ _ HK)) TN A FR EC EP HBf).
  - (* while: the condition comes out false *) intros cond body s first s1 HC IHc.
    intros r c f fc frest below loops A FR EC EP EX ED LFc LFb ENS HBf.
    specialize (IHc r c f fc frest below [] A FR EC EP HBf). cbn in IHc.
    destruct IHc as (r1 & c1 & f1 & rest1 & S1 & A1 & MV1 & P1 & K1).
    inversion K1 as [|fa fc1 ra frest1 Ka Kb Ea Eb]; subst.
    destruct A as ((G0 & EF0 & _) & _).
    destruct A1 as ((G1 & EF1 & (F1 & N1) & B1 & D1) & LB1 & top1 & EV1 & RR1).
    assert (XE : f_exit f1 = Some (BWhile loops WCond (compile_block cond) (compile_block body))) by (rewrite (moved_exit _ _ MV1); exact EX).
    assert (XD : f_die f1 = false) by (rewrite (moved_die _ _ MV1); exact ED).
    assert (XP : f_pos f1 = length (f_code f1)) by (rewrite P1, (moved_code _ _ MV1); reflexivity).
    inversion F1 as [|sc1 f0 scs1 fs1 FM1 F1' E1 E2]; subst.
    destruct top1 as [|x0 t]; [discriminate RR1|]. destruct RR1 as (-> & _ & UT). cbn [cv app] in EV1.
    pose proof (while_over r1 c1 f1 (fc1 :: frest1) loops (compile_block cond) (compile_block body) t below EF1 EV1 LB1) as LO.
    destruct (complete_loop r1 c1 f1 fc1 frest1 _ t below G1 D1 EF1 XP XE XD LO LB1) as [S2 G2].
    eexists _, _, fc1, frest1. split; [eapply steps_trans; eassumption|]. split.
    { destruct G0 as (C0 & _). destruct G2 as (C2 & _). eapply neq_by_frames; [exact C0|exact C2|].
      cbn. rewrite EF0. cbn. rewrite (forall2_length _ _ _ Kb). lia. }
    split.
    { split; [exact G2|]. split; [reflexivity|]. split.
      - apply match_upd. split; [|exact N1]. cbn. rewrite <- E1. cbn. exact F1'.
      - split; [cbn; rewrite (kept_base _ _ Ka); lia|rewrite quirks_upd_cur; exact D1]. }
    split; [cbn; rewrite (under_top t UT); reflexivity|split; assumption].
  - (* while: a round, then the rest *) intros cond body s first s1 reg s2 v s' HC IHc HB IHb HW IHw.
    intros r c f fc frest below loops A FR EC EP EX ED LFc LFb ENS HBf.
    specialize (IHc r c f fc frest below [] A FR EC EP HBf). cbn in IHc.
    destruct IHc as (r1 & c1 & f1 & rest1 & S1 & A1 & MV1 & P1 & K1).
    inversion K1 as [|fa fc1 ra frest1 Ka Kb Ea Eb]; subst.
    destruct A as ((G0 & EF0 & _) & _).
    destruct A1 as ((G1 & EF1 & (F1 & N1) & B1 & D1) & LB1 & top1 & EV1 & RR1).
    pose proof LFb as (ib & codeb & LCb & LLb). pose proof LFc as (ic & codec & LCc & LLc).
    assert (XE : f_exit f1 = Some (BWhile loops WCond (ic :: codec) (ib :: codeb))) by (rewrite (moved_exit _ _ MV1), EX, LCc, LCb; reflexivity).
    assert (XD : f_die f1 = false) by (rewrite (moved_die _ _ MV1); exact ED).
    assert (XP : f_pos f1 = length (f_code f1)) by (rewrite P1, (moved_code _ _ MV1); reflexivity).
    inversion F1 as [|sc1 f0 scs1 fs1 FM1 F1' E1 E2]; subst.
    destruct top1 as [|x0 t]; [discriminate RR1|]. destruct RR1 as (-> & _ & UT). cbn [cv app] in EV1.
    pose proof (while_to_body r1 c1 f1 (fc1 :: frest1) loops (ic :: codec) ib codeb t below EF1 EV1 LB1) as XB.
    pose proof (xloop_back r1 c1 f1 (fc1 :: frest1) _ _ ib codeb below G1 EF1 XP XE XD LLb XB) as LBk1.
    set (fB := xframe f1 (BWhile loops WCode (ic :: codec) (ib :: codeb)) (ib :: codeb)) in *.
    set (cB := set_values (set_frames c1 (fB :: fc1 :: frest1)) below) in *.
    assert (GB : Good (upd_cur r1 cB) cB) by (apply (good_upd r1 c1 cB G1); destruct G1 as (_ & _ & _ & _ & _ & _ & SU); exact SU).
    specialize (IHb (upd_cur r1 cB) cB fB fc1 frest1 below []). cbn [app length] in IHb.
    destruct IHb as (r2 & c2 & f2 & rest2 & S2 & A2 & MV2 & P2 & K2).
    { split.
      - split; [exact GB|]. split; [reflexivity|]. split.
        + apply match_upd. unfold set_top_vars. rewrite <- E1. split; [|exact N1]. cbn. constructor; [|exact F1'].
          destruct FM1 as (_ & NS1 & BB1). split; [intros k; reflexivity|split; [cbn; exact NS1|cbn; exact BB1]].
        + split; [cbn; rewrite LB1; lia|rewrite quirks_upd_cur; exact D1].
      - split; [cbn; exact LB1|]. exists []. split; [reflexivity|reflexivity]. }
    { nil_case. }
    { cbn. rewrite LCb. reflexivity. } { reflexivity. } { rewrite (kept_base _ _ Ka). exact HBf. }
    inversion K2 as [|fb fc2 rb frest2 Kc Kd Ec Ed]; subst.
    destruct A2 as ((G2 & EF2 & (F2 & N2) & B2 & D2) & LB2 & top2 & EV2 & RR2).
    set (loops' := if c_can_suspend c2 then loops else S loops).
    assert (XE2 : f_exit f2 = Some (BWhile loops WCode (ic :: codec) (ib :: codeb))) by (rewrite (moved_exit _ _ MV2); reflexivity).
    assert (XD2 : f_die f2 = false) by (rewrite (moved_die _ _ MV2); cbn; exact XD).
    assert (XP2 : f_pos f2 = length (f_code f2)) by (rewrite P2, (moved_code _ _ MV2); reflexivity).
    inversion F2 as [|sc2 f00 scs2 fs2 FM2 F2' E3 E4]; subst.
    pose proof (while_to_cond r2 c2 f2 (fc2 :: frest2) loops ic codec (ib :: codeb) top2 below EF2 EV2 LB2 (quirks_loop _ D2)) as XC.
    pose proof (xloop_back r2 c2 f2 (fc2 :: frest2) _ _ ic codec below G2 EF2 XP2 XE2 XD2 LLc XC) as LBk2.
    fold loops' in LBk2.
    set (fC := xframe f2 (BWhile loops' WCond (ic :: codec) (ib :: codeb)) (ic :: codec)) in *.
    set (cC := set_values (set_frames c2 (fC :: fc2 :: frest2)) below) in *.
    destruct (IHw (upd_cur r2 cC) cC fC fc2 frest2 below loops') as (r4 & c4 & fc4 & rest4 & S4 & N4 & M4 & EV4 & K4 & KR4).
    { split.
      - split; [apply (good_upd r2 c2 cC G2); destruct G2 as (_ & _ & _ & _ & _ & _ & SU); exact SU|]. split; [reflexivity|]. split.
        + apply match_upd. split; [|exact N2]. cbn. rewrite <- E3. cbn. constructor; [|exact F2'].
          split; [intros k; reflexivity|split; [|cbn; split; [exact (proj1 (proj2 (proj2 FM2)))|reflexivity]]].
          cbn. rewrite (moved_ns _ _ MV2). cbn. rewrite (moved_ns _ _ MV1), ENS, <- (kept_ns _ _ Ka), <- (kept_ns _ _ Kc).
          inversion F2' as [|sc3 f000 scs3 fs3 FM3 F2'' E5 E6]. destruct FM3 as (_ & NS3 & _).
          unfold cur_ns_of, pop_scope. cbn. rewrite <- E3. cbn. rewrite <- E5. exact NS3.
        + split; [cbn; rewrite LB2; lia|rewrite quirks_upd_cur; exact D2].
      - split; [cbn; exact LB2|]. exists []. split; [reflexivity|reflexivity]. }
    { nil_case. }
    { cbn. rewrite LCc. reflexivity. } { reflexivity. } { cbn. rewrite LCc, LCb. reflexivity. } { cbn. exact XD2. }
    { exact LFc. } { exact LFb. }
    { cbn. rewrite (moved_ns _ _ MV2). cbn. rewrite (moved_ns _ _ MV1), ENS, (kept_ns _ _ Kc), (kept_ns _ _ Ka). reflexivity. }
    { rewrite (kept_base _ _ Kc), (kept_base _ _ Ka). exact HBf. }
    assert (S24 : Steps r2 r4) by (eapply virtual_start; [exact LBk2|apply cfg_upd_cur|exact S4|exact N4]).
    assert (NB : r4 <> upd_cur r1 cB).
    { destruct GB as (CB & _). destruct M4 as ((C4 & _) & EF4 & _). eapply neq_by_frames; [exact CB|exact C4|].
      rewrite EF4. cbn. rewrite (forall2_length _ _ _ KR4), (forall2_length _ _ _ Kd). lia. }
    exists r4, c4, fc4, rest4. split; [eapply steps_trans; [exact S1|eapply virtual_start; [exact LBk1|apply cfg_upd_cur|eapply steps_trans; [exact S2|exact S24]|exact NB]]|].
    split.
    { destruct G0 as (C0 & _). destruct M4 as ((C4 & _) & EF4 & _). eapply neq_by_frames; [exact C0|exact C4|].
      rewrite EF4, EF0. cbn. rewrite (forall2_length _ _ _ KR4), (forall2_length _ _ _ Kd), (forall2_length _ _ _ Kb). lia. }
    split; [exact M4|]. split; [exact EV4|].
    split; [eapply kept_trans; [exact Ka|eapply kept_trans; eassumption]|eapply kept_all_trans; [exact Kb|eapply kept_all_trans; eassumption]].
  - (* while: the condition is left by exitWith *) intros cond body s first v s1 HC IHc.
    intros r c f fc frest below loops A FR EC EP EX ED LFc LFb ENS HBf.
    specialize (IHc r c f fc frest below [] A FR EC EP HBf). cbn in IHc.
    destruct IHc as (r1 & c1 & fc1 & rest1 & S1 & M1 & EV1 & K1 & KR1).
    exists r1, c1, fc1, rest1. split; [exact S1|]. split.
    { destruct A as ((G0 & EF0 & _) & _). destruct G0 as (C0 & _). destruct M1 as ((C1 & _) & EF1 & _). eapply neq_by_frames; [exact C0|exact C1|].
      rewrite EF1, EF0. cbn. rewrite (forall2_length _ _ _ KR1). lia. }
    split; [exact M1|]. split; [exact EV1|]. split; assumption.
  - (* while: the body is left by exitWith *) intros cond body s first s1 v s2 HC IHc HB IHb.
    intros r c f fc frest below loops A FR EC EP EX ED LFc LFb ENS HBf.
    specialize (IHc r c f fc frest below [] A FR EC EP HBf). cbn in IHc.
    destruct IHc as (r1 & c1 & f1 & rest1 & S1 & A1 & MV1 & P1 & K1).
    inversion K1 as [|fa fc1 ra frest1 Ka Kb Ea Eb]; subst.
    destruct A as ((G0 & EF0 & _) & _).
    destruct A1 as ((G1 & EF1 & (F1 & N1) & B1 & D1) & LB1 & top1 & EV1 & RR1).
    pose proof LFb as (ib & codeb & LCb & LLb). pose proof LFc as (ic & codec & LCc & LLc).
    assert (XE : f_exit f1 = Some (BWhile loops WCond (ic :: codec) (ib :: codeb))) by (rewrite (moved_exit _ _ MV1), EX, LCc, LCb; reflexivity).
    assert (XD : f_die f1 = false) by (rewrite (moved_die _ _ MV1); exact ED).
    assert (XP : f_pos f1 = length (f_code f1)) by (rewrite P1, (moved_code _ _ MV1); reflexivity).
    inversion F1 as [|sc1 f0 scs1 fs1 FM1 F1' E1 E2]; subst.
    destruct top1 as [|x0 t]; [discriminate RR1|]. destruct RR1 as (-> & _ & UT). cbn [cv app] in EV1.
    pose proof (while_to_body r1 c1 f1 (fc1 :: frest1) loops (ic :: codec) ib codeb t below EF1 EV1 LB1) as XB.
    pose proof (xloop_back r1 c1 f1 (fc1 :: frest1) _ _ ib codeb below G1 EF1 XP XE XD LLb XB) as LBk1.
    set (fB := xframe f1 (BWhile loops WCode (ic :: codec) (ib :: codeb)) (ib :: codeb)) in *.
    set (cB := set_values (set_frames c1 (fB :: fc1 :: frest1)) below) in *.
    assert (GB : Good (upd_cur r1 cB) cB) by (apply (good_upd r1 c1 cB G1); destruct G1 as (_ & _ & _ & _ & _ & _ & SU); exact SU).
    specialize (IHb (upd_cur r1 cB) cB fB fc1 frest1 below []). cbn [app length] in IHb.
    destruct IHb as (r2 & c2 & fc2 & rest2 & S2 & M2 & EV2 & K2 & KR2).
    { split.
      - split; [exact GB|]. split; [reflexivity|]. split.
        + apply match_upd. unfold set_top_vars. rewrite <- E1. split; [|exact N1]. cbn. constructor; [|exact F1'].
          destruct FM1 as (_ & NS1 & BB1). split; [intros k; reflexivity|split; [cbn; exact NS1|cbn; exact BB1]].
        + split; [cbn; rewrite LB1; lia|rewrite quirks_upd_cur; exact D1].
      - split; [cbn; exact LB1|]. exists []. split; [reflexivity|reflexivity]. }
    { nil_case. }
    { cbn. rewrite LCb. reflexivity. } { reflexivity. } { rewrite (kept_base _ _ Ka). exact HBf. }
    assert (NB : r2 <> upd_cur r1 cB).
    { destruct GB as (CB & _). destruct M2 as ((C2 & _) & EF2 & _). eapply neq_by_frames; [exact CB|exact C2|].
      rewrite EF2. cbn. rewrite (forall2_length _ _ _ KR2). lia. }
    exists r2, c2, fc2, rest2. split; [eapply steps_trans; [exact S1|eapply virtual_start; [exact LBk1|apply cfg_upd_cur|exact S2|exact NB]]|].
    split.
    { destruct G0 as (C0 & _). destruct M2 as ((C2 & _) & EF2 & _). eapply neq_by_frames; [exact C0|exact C2|].
      rewrite EF2, EF0. cbn. rewrite (forall2_length _ _ _ KR2), (forall2_length _ _ _ Kb). lia. }
    split; [exact M2|]. split; [exact EV2|]. split; [eapply kept_trans; eassumption|eapply kept_all_trans; eassumption].
  - (* while: the condition is left by breakOut to the name of the loop's scope *) intros cond body s first t v s1 HK IHk TN.
    intros r c f fc frest below loops A FR EC EP EX ED LFc LFb ENS HBf.
    exact (own_break _ _ _ t v s1 r c f fc frest below IHk (proj1 (zbreak_facts _ _ _ _ _ _ HK)) TN A FR EC EP HBf).
  - (* while: the body is left by breakOut to the name of the loop's scope *) intros cond body s first s1 t v s2 HC IHc HK IHk TN.
    intros r c f fc frest below loops A FR EC EP EX ED LFc LFb ENS HBf.
    destruct (while_cond_body cond body s first s1 r c f fc frest below loops IHc A FR EC EP EX ED LFc LFb ENS HBf)
      as (rB & cB & fB & fc1 & frest1 & HS1 & AB & FRB & ECB & EPB & EXB & EDB & ENSB & HBB & Ka & Kb & EE1 & EB1).
    destruct (own_break _ _ _ t v s2 rB cB fB fc1 frest1 below IHk (proj1 (zbreak_facts _ _ _ _ _ _ HK)) TN AB FRB ECB EPB HBB)
      as (r2 & c2 & fc2 & rest2 & S2 & N2 & M2 & EV2 & K2 & KR2).
    exists r2, c2, fc2, rest2. split; [apply HS1; assumption|]. split.
    { destruct A as ((G0 & EF0 & _) & _). destruct G0 as (C0 & _). pose proof M2 as ((C2 & _) & EF2 & _). eapply neq_by_frames; [exact C0|exact C2|].
      rewrite EF2, EF0. cbn [length]. rewrite (forall2_length _ _ _ KR2), (forall2_length _ _ _ Kb). lia. }
    split; [exact M2|]. split; [exact EV2|]. split; [eapply kept_trans; eassumption|eapply kept_all_trans; eassumption].
  - (* throw: a statement, then the rest of the block that throws *)
    intros s reg st reg1 s1 st2 rest0 x s' HS IHs HT IHt r c f restf below pre inner ft rest h jn below_t A FR EC EP CH HF HErr EB UJ LBT.
    rewrite compile_block_cons2 in EC.
    destruct (IHs r c f restf below pre _ A FR EC EP) as (r1 & c1 & f1 & rest1 & S1 & A1 & MV1 & P1 & K1).
    assert (EC1 : f_code f1 = (pre ++ compile_stmt st) ++ IEnd :: compile_block (st2 :: rest0)).
    { rewrite (moved_code _ _ MV1), EC, <- app_assoc. reflexivity. }
    assert (EP1 : f_pos f1 = length (pre ++ compile_stmt st)) by (rewrite app_length, P1, EP; reflexivity).
    destruct (end_run s1 reg1 r1 c1 f1 rest1 below _ _ A1 EC1 EP1) as (r2 & c2 & S2 & A2 & FR2).
    destruct (chain_kept f restf inner ft rest (set_pos f1 (S (f_pos f1))) rest1 h (cv x) CH HF HErr) as (inner1 & ft1 & rest1' & CH1 & HF1 & HE1 & HH1 & LEN1 & KR1 & FB1).
    { eapply moved_trans; [exact MV1|apply moved_set_pos]. } { exact K1. }
    destruct (IHt r2 c2 (set_pos f1 (S (f_pos f1))) rest1 below (pre ++ compile_stmt st ++ [IEnd]) inner1 ft1 rest1' h jn below_t A2 FR2) as (r3 & c3 & rest3 & ft0 & S3 & K3 & MT & CA).
    { cbn [set_pos f_code]. rewrite EC1, <- !app_assoc. reflexivity. }
    { cbn [set_pos f_pos]. rewrite EP1, !app_length. cbn. lia. }
    { exact CH1. } { exact HF1. } { exact HE1. } { exact EB. } { exact UJ. } { rewrite FB1. exact LBT. }
    exists r3, c3, rest3, ft0. split; [eapply steps_trans; [exact S1|eapply steps_trans; [exact S2|exact S3]]|].
    split; [eapply kept_all_trans; eassumption|]. split; [eapply moved_trans; eassumption|]. rewrite LEN1 in CA. exact CA.
  - (* throw v *)
    intros s reg n e v s1 rest0 HN NL HE IHe NNv r c f restf below pre inner ft rest h jn below_t (MA & LB & top & EV & RR) FR EC EP CH HF HErr EB UJ LBT.
    rewrite (compile_block_unary n e rest0 NL) in EC.
    post_intro (IHe r c f restf pre _ MA EC EP) r1 c1 f1 rest1 S1 M1 EV1 MV1 P1 K1.
    destruct (after_operands_code f f1 pre _ _ MV1 EC EP P1) as [EC1 EP1].
    destruct M1 as (G1 & EF1 & MM1 & B1 & D1). destruct MA as (_ & _ & _ & B & _).
    destruct (chain_kept f restf inner ft rest f1 rest1 h (cv v) CH HF HErr MV1 K1) as (inner1 & ft1 & rest1' & CH1 & HF1 & HE1 & HH1 & LEN1 & KR1 & FB1).
    destruct (throw_run r1 c1 f1 rest1 _ _ (lower n) (cv v) (c_values c) inner1 ft1 rest1' h G1 EF1 EC1 EP1) as [S2 G2].
    { rewrite lower_idem. exact HN. } { exact EV1. } { apply nonnil_cv; exact NNv. } { rewrite (moved_base _ _ MV1); exact B. }
    { exact CH1. } { exact HF1. } { exact HE1. }
    eexists _, _, rest1', ft1. split; [eapply steps_trans; [exact S1|exact S2]|]. split; [exact KR1|]. split; [exact HH1|].
    split; [exact G2|]. split; [rewrite quirks_upd_cur; exact D1|]. split; [reflexivity|]. split.
    + apply match_upd. rewrite <- LEN1. apply match_after_throw. rewrite <- CH1. exact MM1.
    + exists jn. split; [|exact UJ]. cbn [push_value set_values set_frames c_values].
      rewrite (moved_base _ _ MV1), <- LB, EV, app_length. replace (length top + length below - length below) with (length top) by lia.
      rewrite skipn_app, skipn_all, Nat.sub_diag. cbn [skipn app]. rewrite EB. reflexivity.
  - (* if true throw v *)
    intros s reg n a b v s1 s2 rest0 HN HA IHa HB IHb NNv r c f restf below pre inner ft rest h jn below_t (MA & LB & top & EV & RR) FR EC EP CH HF HErr EB UJ LBT.
    rewrite compile_block_exit in EC.
    post_intro (IHa r c f restf pre _ MA EC EP) r1 c1 f1 rest1 S1 M1 EV1 MV1 P1 K1.
    destruct (after_operands_code f f1 pre _ _ MV1 EC EP P1) as [EC1 EP1].
    post_intro (IHb r1 c1 f1 rest1 (pre ++ compile_expr a) _ M1 EC1 EP1) r2 c2 f2 rest2 S2 M2 EV2 MV2 P2 K2.
    destruct (after_operands_code f1 f2 _ _ _ MV2 EC1 EP1 P2) as [EC2 EP2].
    destruct M2 as (G2 & EF2 & MM2 & B2 & D2). destruct MA as (_ & _ & _ & B & _).
    rewrite EV1 in EV2.
    destruct (chain_kept f restf inner ft rest f2 rest2 h (cv v) CH HF HErr) as (inner1 & ft1 & rest1' & CH1 & HF1 & HE1 & HH1 & LEN1 & KR1 & FB1).
    { eapply moved_trans; eassumption. } { eapply kept_all_trans; eassumption. }
    destruct (throw_if_run r2 c2 f2 rest2 _ _ (lower n) (cv v) (c_values c) inner1 ft1 rest1' h G2 EF2 EC2 EP2) as [S3 G3].
    { rewrite lower_idem. exact HN. } { exact EV2. } { apply nonnil_cv; exact NNv. } { rewrite (moved_base _ _ MV2), (moved_base _ _ MV1); exact B. }
    { exact CH1. } { exact HF1. } { exact HE1. }
    eexists _, _, rest1', ft1. split; [eapply steps_trans; [exact S1|eapply steps_trans; [exact S2|exact S3]]|]. split; [exact KR1|]. split; [exact HH1|].
    split; [exact G3|]. split; [rewrite quirks_upd_cur; exact D2|]. split; [reflexivity|]. split.
    + apply match_upd. rewrite <- LEN1. apply match_after_throw. rewrite <- CH1. exact MM2.
    + exists jn. split; [|exact UJ]. cbn [push_value set_values set_frames c_values].
      rewrite (moved_base _ _ MV2), (moved_base _ _ MV1), <- LB, EV, app_length. replace (length top + length below - length below) with (length top) by lia.
      rewrite skipn_app, skipn_all, Nat.sub_diag. cbn [skipn app]. rewrite EB. reflexivity.
  - (* call {.. throw ..} as a statement *)
    intros s reg n a b s1 x s2 rest0 HN NL HA IHa HT IHt r c f restf below pre inner ft rest h jn below_t (MA & LB & top & EV & RR) FR EC EP CH HF HErr EB UJ LBT.
    rewrite (compile_block_unary n a rest0 NL) in EC.
    post_intro (IHa r c f restf pre _ MA EC EP) r1 c1 f1 rest1 S1 M1 EV1 MV1 P1 K1.
    destruct (after_operands_code f f1 pre _ _ MV1 EC EP P1) as [EC1 EP1].
    destruct M1 as (G1 & EF1 & MM1 & B1 & D1). destruct MA as (_ & _ & _ & B & _).
    set (c0 := set_values (set_frames c1 (set_pos f1 (S (f_pos f1)) :: rest1)) (c_values c)).
    assert (TH : match get_variable c0 "_this" with Some t => t | None => VNil end = cv (this_of s1)).
    { unfold get_variable. cbn [c_frames c0 set_values set_frames]. rewrite lookup_frames_set_pos.
      destruct MM1 as [F1 _]. rewrite (lookup_match (lower "_this") eq_refl _ _ F1). unfold this_of.
      change (lower "_this") with "_this". destruct (lookup_scopes "_this" (st_scopes s1)); reflexivity. }
    destruct (unary_run r1 c1 f1 rest1 _ _ (lower n) (cv (RCode b)) (c_values c)
                (push_frame c0 (mk_frame (cur_ns c0) (compile_block b) None None (mvars [("_this", this_of s1)]))) VNil G1 EF1 EC1 EP1 EV1) as [S2 G2].
    { rewrite (moved_base _ _ MV1); exact B. } { discriminate. }
    { rewrite lower_idem, HN. fold c0. cbn [cv]. unfold op_unary. cbn [String.eqb Ascii.eqb Bool.eqb]. rewrite TH. reflexivity. }
    { destruct G1 as (_ & _ & _ & _ & _ & _ & SU); exact SU. }
    destruct (chain_kept f restf inner ft rest (set_pos f1 (S (f_pos f1))) rest1 h (cv x) CH HF HErr) as (inner1 & ft1 & rest1' & CH1 & HF1 & HE1 & HH1 & LEN1 & KR1 & FB1).
    { eapply moved_trans; [exact MV1|apply moved_set_pos]. } { exact K1. }
    destruct (throw_in_scope s1 [("_this", this_of s1)] b x s2 _ c0 (set_pos f1 (S (f_pos f1))) rest1 inner1 ft1 rest1' h (top ++ jn) below_t IHt G2) as (r3 & c3 & rest3 & ft0 & S3 & K3 & MT & CA).
    { rewrite quirks_upd_cur; exact D1. } { reflexivity. } { apply match_upd, match_set_pos; exact MM1. }
    { exact CH1. } { exact HF1. } { exact HE1. } { cbn [c0 set_values c_values]. rewrite EV, EB, app_assoc. reflexivity. }
    { apply Forall_app. split; [exact (fresh_under c top below EV FR)|exact UJ]. } { rewrite FB1. exact LBT. }
    exists r3, c3, rest3, ft0. split; [eapply steps_trans; [exact S1|eapply steps_trans; [exact S2|exact S3]]|].
    split; [eapply kept_all_trans; eassumption|]. split; [eapply moved_trans; eassumption|]. rewrite LEN1 in CA. exact CA.
  - (* if true then {.. throw ..} as a statement *)
    intros s reg n a b blk s1 s2 x s3 rest0 HN HA IHa HB IHb HT IHt r c f restf below pre inner ft rest h jn below_t (MA & LB & top & EV & RR) FR EC EP CH HF HErr EB UJ LBT.
    rewrite compile_block_exit in EC.
    post_intro (IHa r c f restf pre _ MA EC EP) r1 c1 f1 rest1 S1 M1 EV1 MV1 P1 K1.
    destruct (after_operands_code f f1 pre _ _ MV1 EC EP P1) as [EC1 EP1].
    post_intro (IHb r1 c1 f1 rest1 (pre ++ compile_expr a) _ M1 EC1 EP1) r2 c2 f2 rest2 S2 M2 EV2 MV2 P2 K2.
    destruct (after_operands_code f1 f2 _ _ _ MV2 EC1 EP1 P2) as [EC2 EP2].
    destruct M2 as (G2 & EF2 & MM2 & B2 & D2). destruct MA as (_ & _ & _ & B & _).
    rewrite EV1 in EV2.
    set (c0 := set_values (set_frames c2 (set_pos f2 (S (f_pos f2)) :: rest2)) (c_values c)).
    destruct (binary_run r2 c2 f2 rest2 _ _ (lower n) (cv (RIf true)) (cv (RCode blk)) (c_values c)
                (push_frame c0 (mk_frame (cur_ns c0) (compile_block blk) None None (mvars []))) VNil G2 EF2 EC2 EP2 EV2) as [S3 G3].
    { rewrite (moved_base _ _ MV2), (moved_base _ _ MV1); exact B. } { discriminate. } { discriminate. } { rewrite lower_idem, HN. reflexivity. }
    { destruct G2 as (_ & _ & _ & _ & _ & _ & SU); exact SU. }
    destruct (chain_kept f restf inner ft rest (set_pos f2 (S (f_pos f2))) rest2 h (cv x) CH HF HErr) as (inner1 & ft1 & rest1' & CH1 & HF1 & HE1 & HH1 & LEN1 & KR1 & FB1).
    { eapply moved_trans; [exact MV1|eapply moved_trans; [exact MV2|apply moved_set_pos]]. } { eapply kept_all_trans; eassumption. }
    destruct (throw_in_scope s2 [] blk x s3 _ c0 (set_pos f2 (S (f_pos f2))) rest2 inner1 ft1 rest1' h (top ++ jn) below_t IHt G3) as (r4 & c4 & rest4 & ft0 & S4 & K4 & MT & CA).
    { rewrite quirks_upd_cur; exact D2. } { reflexivity. } { apply match_upd, match_set_pos; exact MM2. }
    { exact CH1. } { exact HF1. } { exact HE1. } { cbn [c0 set_values c_values]. rewrite EV, EB, app_assoc. reflexivity. }
    { apply Forall_app. split; [exact (fresh_under c top below EV FR)|exact UJ]. } { rewrite FB1. exact LBT. }
    exists r4, c4, rest4, ft0. split; [eapply steps_trans; [exact S1|eapply steps_trans; [exact S2|eapply steps_trans; [exact S3|exact S4]]]|].
    split; [eapply kept_all_trans; eassumption|]. split; [eapply moved_trans; eassumption|]. rewrite LEN1 in CA. exact CA.
  - (* if c then {..} else {..} as a statement, the chosen block throws *)
    intros s reg n a b cnd x0 y0 s1 s2 x s3 rest0 HN HA IHa HB IHb HT IHt r c f restf below pre inner ft rest h jn below_t (MA & LB & top & EV & RR) FR EC EP CH HF HErr EB UJ LBT.
    rewrite compile_block_exit in EC.
    post_intro (IHa r c f restf pre _ MA EC EP) r1 c1 f1 rest1 S1 M1 EV1 MV1 P1 K1.
    destruct (after_operands_code f f1 pre _ _ MV1 EC EP P1) as [EC1 EP1].
    post_intro (IHb r1 c1 f1 rest1 (pre ++ compile_expr a) _ M1 EC1 EP1) r2 c2 f2 rest2 S2 M2 EV2 MV2 P2 K2.
    destruct (after_operands_code f1 f2 _ _ _ MV2 EC1 EP1 P2) as [EC2 EP2].
    destruct M2 as (G2 & EF2 & MM2 & B2 & D2). destruct MA as (_ & _ & _ & B & _).
    rewrite EV1 in EV2.
    set (c0 := set_values (set_frames c2 (set_pos f2 (S (f_pos f2)) :: rest2)) (c_values c)).
    destruct (binary_run r2 c2 f2 rest2 _ _ (lower n) (cv (RIf cnd)) (cv (RArr [RCode x0; RCode y0])) (c_values c)
                (push_frame c0 (mk_frame (cur_ns c0) (compile_block (if cnd then x0 else y0)) None None (mvars []))) VNil G2 EF2 EC2 EP2 EV2) as [S3 G3].
    { rewrite (moved_base _ _ MV2), (moved_base _ _ MV1); exact B. } { discriminate. } { discriminate. }
    { rewrite lower_idem, HN. destruct cnd; reflexivity. }
    { destruct G2 as (_ & _ & _ & _ & _ & _ & SU); exact SU. }
    destruct (chain_kept f restf inner ft rest (set_pos f2 (S (f_pos f2))) rest2 h (cv x) CH HF HErr) as (inner1 & ft1 & rest1' & CH1 & HF1 & HE1 & HH1 & LEN1 & KR1 & FB1).
    { eapply moved_trans; [exact MV1|eapply moved_trans; [exact MV2|apply moved_set_pos]]. } { eapply kept_all_trans; eassumption. }
    destruct (throw_in_scope s2 [] (if cnd then x0 else y0) x s3 _ c0 (set_pos f2 (S (f_pos f2))) rest2 inner1 ft1 rest1' h (top ++ jn) below_t IHt G3) as (r4 & c4 & rest4 & ft0 & S4 & K4 & MT & CA).
    { rewrite quirks_upd_cur; exact D2. } { reflexivity. } { apply match_upd, match_set_pos; exact MM2. }
    { exact CH1. } { exact HF1. } { exact HE1. } { cbn [c0 set_values c_values]. rewrite EV, EB, app_assoc. reflexivity. }
    { apply Forall_app. split; [exact (fresh_under c top below EV FR)|exact UJ]. } { rewrite FB1. exact LBT. }
    exists r4, c4, rest4, ft0. split; [eapply steps_trans; [exact S1|eapply steps_trans; [exact S2|eapply steps_trans; [exact S3|exact S4]]]|].
    split; [eapply kept_all_trans; eassumption|]. split; [eapply moved_trans; eassumption|]. rewrite LEN1 in CA. exact CA.
  - (* try {.. throw ..} catch {.. throw ..} as a statement: the handler's throw goes on outwards *)
    intros s reg n a b body hb s1 s2 x s3 y s4 rest0 HN HA IHa HB IHb HX IHx HY IHy r c f restf below pre inner ft rest h jn below_t (MA & LB & top & EV & RR) FR EC EP CH HF HErr EB UJ LBT.
    rewrite compile_block_exit in EC.
    post_intro (IHa r c f restf pre _ MA EC EP) r1 c1 f1 rest1 S1 M1 EV1 MV1 P1 K1.
    destruct (after_operands_code f f1 pre _ _ MV1 EC EP P1) as [EC1 EP1].
    post_intro (IHb r1 c1 f1 rest1 (pre ++ compile_expr a) _ M1 EC1 EP1) r2 c2 f2 rest2 S2 M2 EV2 MV2 P2 K2.
    destruct (after_operands_code f1 f2 _ _ _ MV2 EC1 EP1 P2) as [EC2 EP2].
    destruct M2 as (G2 & EF2 & MM2 & B2 & D2). destruct MA as (_ & _ & _ & B & _).
    rewrite EV1 in EV2.
    set (c0 := set_values (set_frames c2 (set_pos f2 (S (f_pos f2)) :: rest2)) (c_values c)).
    set (newf := mk_frame (cur_ns c0) (compile_block body) None (Some (ECatch (compile_block hb))) (mvars [])).
    destruct (binary_run r2 c2 f2 rest2 _ _ (lower n) (cv (RTry body)) (cv (RCode hb)) (c_values c)
                (push_frame c0 newf) VNil G2 EF2 EC2 EP2 EV2) as [S3 G3].
    { rewrite (moved_base _ _ MV2), (moved_base _ _ MV1); exact B. } { discriminate. } { discriminate. }
    { rewrite lower_idem, HN. reflexivity. }
    { destruct G2 as (_ & _ & _ & _ & _ & _ & SU); exact SU. }
    destruct (throw_in_try s2 body x s3 _ c0 (set_pos f2 (S (f_pos f2))) rest2 (compile_block hb) IHx G3) as (r4 & c4 & rest4 & ftb & S4 & K4 & MTb & CA).
    { rewrite quirks_upd_cur; exact D2. } { reflexivity. } { apply match_upd, match_set_pos; exact MM2. }
    inversion K4 as [|fa fc4 ra rest4' Ka Kb Ea Eb]; subst.
    fold newf in MTb. set (hf := handler_frame ftb (compile_block hb) (cv x)) in *.
    destruct (caught_at _ _ _ _ _ _ CA (eq_sym (moved_base _ _ MTb))) as [A5 FR5].
    destruct (chain_kept f restf inner ft rest fc4 rest4' h (cv y) CH HF HErr) as (inner1 & ft1 & rest1' & CH1 & HF1 & HE1 & HH1 & LEN1 & KR1 & FB1).
    { eapply moved_trans; [exact MV1|eapply moved_trans; [exact MV2|eapply moved_trans; [apply (moved_set_pos f2 (S (f_pos f2)))|apply kept_moved; exact Ka]]]. }
    { eapply kept_all_trans; [exact K1|eapply kept_all_trans; eassumption]. }
    destruct (IHy r4 c4 hf (fc4 :: rest4') (c_values c0) [] (hf :: inner1) ft1 rest1' h (top ++ jn) below_t A5 FR5 eq_refl eq_refl) as (r5 & c5 & rest5 & ft0 & S5 & K5 & MT & CA5).
    { cbn [app]. rewrite CH1. reflexivity. } { constructor; [reflexivity|exact HF1]. } { exact HE1. }
    { cbn [c0 set_values c_values]. rewrite EV, app_assoc. reflexivity. }
    { apply Forall_app. split; [exact (fresh_under c top _ EV FR)|exact UJ]. } { rewrite FB1. exact LBT. }
    exists r5, c5, rest5, ft0. split; [eapply steps_trans; [exact S1|eapply steps_trans; [exact S2|eapply steps_trans; [exact S3|eapply steps_trans; [exact S4|exact S5]]]]|].
    split; [eapply kept_all_trans; eassumption|]. split; [eapply moved_trans; eassumption|]. cbn [length] in CA5. rewrite drop_scopes_S, LEN1 in CA5. exact CA5.
  - (* a loop standing as a statement is left by a throw *)
    intros s reg e y s3 rest0 HL IHl r c f restf below pre inner ft rest h jn below_t A FR EC EP CH HF HErr EB UJ LBT.
    exact (expr_leaves_atm _ _ _ _ IHl reg r c f restf below pre (compile_block_from false rest0) A FR EC EP inner ft rest h jn below_t CH HF HErr EB UJ LBT).
  - (* x = e, the expression is left by a throw *)
    intros s reg n e y s3 rest0 HL IHl r c f restf below pre inner ft rest h jn below_t A FR EC EP CH HF HErr EB UJ LBT.
    unfold compile_block in EC. cbn [compile_block_from compile_stmt app] in EC. rewrite <- app_assoc in EC.
    exact (expr_leaves_atm _ _ _ _ IHl reg r c f restf below pre _ A FR EC EP inner ft rest h jn below_t CH HF HErr EB UJ LBT).
  - (* private _x = e, the expression is left by a throw *)
    intros s reg n e y s3 rest0 HL IHl r c f restf below pre inner ft rest h jn below_t A FR EC EP CH HF HErr EB UJ LBT.
    unfold compile_block in EC. cbn [compile_block_from compile_stmt app] in EC. rewrite <- app_assoc in EC.
    exact (expr_leaves_atm _ _ _ _ IHl reg r c f restf below pre _ A FR EC EP inner ft rest h jn below_t CH HF HErr EB UJ LBT).
  - (* breakOut: a statement, then the rest of the block that breaks out *)
    intros s reg st reg1 s1 st2 rest0 t v s' HS IHs HK IHk r c f restf below pre k top fn fc rest jn below_n A FR EC EP FN CH LT HB HC EB LBN.
    rewrite compile_block_cons2 in EC.
    destruct (IHs r c f restf below pre _ A FR EC EP) as (r1 & c1 & f1 & rest1 & S1 & A1 & MV1 & P1 & K1).
    assert (EC1 : f_code f1 = (pre ++ compile_stmt st) ++ IEnd :: compile_block (st2 :: rest0)).
    { rewrite (moved_code _ _ MV1), EC, <- app_assoc. reflexivity. }
    assert (EP1 : f_pos f1 = length (pre ++ compile_stmt st)) by (rewrite app_length, P1, EP; reflexivity).
    destruct (end_run s1 reg1 r1 c1 f1 rest1 below _ _ A1 EC1 EP1) as (r2 & c2 & S2 & A2 & FR2).
    destruct (chain_kept_b f restf top fn fc rest (set_pos f1 (S (f_pos f1))) rest1 CH) as (top1 & fn1 & fc1 & rest1' & CH1 & LT1 & HB1 & FB1 & KC1 & KR1).
    { eapply moved_trans; [exact MV1|apply moved_set_pos]. } { exact K1. } { exact HB. }
    destruct (IHk r2 c2 (set_pos f1 (S (f_pos f1))) rest1 below (pre ++ compile_stmt st ++ [IEnd]) k top1 fn1 fc1 rest1' jn below_n A2 FR2) as (r3 & c3 & fc3 & rest3 & S3 & M3 & EV3 & K3 & KR3).
    { cbn [set_pos f_code]. rewrite EC1, <- !app_assoc. reflexivity. }
    { cbn [set_pos f_pos]. rewrite EP1, !app_length. cbn. lia. }
    { exact FN. } { exact CH1. } { rewrite LT1. exact LT. } { exact HB1. } { rewrite FB1, (kept_base _ _ KC1). exact HC. } { exact EB. } { rewrite FB1. exact LBN. }
    exists r3, c3, fc3, rest3. split; [eapply steps_trans; [exact S1|eapply steps_trans; [exact S2|exact S3]]|].
    split; [exact M3|]. split; [exact EV3|]. split; [eapply kept_trans; eassumption|eapply kept_all_trans; eassumption].
  - (* breakOut "t" *)
    intros s reg n e t s1 rest0 HN NL HE IHe NT r c f restf below pre k top fn fc rest jn below_n (MA & LB & topv & EV & RR) FR EC EP FN CH LT HB HC EB LBN.
    rewrite (compile_block_unary n e rest0 NL) in EC.
    post_intro (IHe r c f restf pre _ MA EC EP) r1 c1 f1 rest1 S1 M1 EV1 MV1 P1 K1.
    destruct (after_operands_code f f1 pre _ _ MV1 EC EP P1) as [EC1 EP1].
    destruct M1 as (G1 & EF1 & MM1 & B1 & D1). destruct MA as (_ & _ & _ & B & _).
    destruct (chain_kept_b f restf top fn fc rest f1 rest1 CH MV1 K1 HB) as (top1 & fn1 & fc1 & rest1' & CH1 & LT1 & HB1 & FB1 & KC1 & KR1).
    destruct (find_name_frames t (st_scopes s1) (f1 :: rest1) 0 top1 fn1 (fc1 :: rest1') (proj1 MM1)) as [HS1 HE1]; [cbn; rewrite LT1, LT; exact FN|exact CH1|].
    assert (LV : f_base fn1 <= length (c_values c)) by (rewrite FB1, <- LBN, EV, EB, !app_length; lia).
    destruct (breakout_run r1 c1 f1 rest1 _ _ (lower n) t (c_values c) top1 fn1 (fc1 :: rest1') G1 (quirks_defects _ D1) EF1 EC1 EP1) as [S2 G2].
    { rewrite lower_idem. exact HN. } { exact NT. } { exact EV1. } { rewrite (moved_base _ _ MV1); exact B. }
    { exact CH1. } { exact HS1. } { exact HE1. } { exact HB1. } { exact LV. }
    match type of G2 with Good _ ?x => set (cX := x) in * end.
    exists (upd_cur r1 cX), cX, fc1, rest1'. split; [eapply steps_trans; [exact S1|exact S2]|].
    assert (VB : skipn (length (c_values c) - f_base fn1) (c_values c) = below_n).
    { rewrite FB1, <- LBN, EV, EB, !app_length. replace (length topv + (length jn + length below_n) - length below_n) with (length (topv ++ jn)) by (rewrite app_length; lia).
      rewrite app_assoc, skipn_app, skipn_all, Nat.sub_diag. reflexivity. }
    split; [|split; [unfold cX; cbn [push_value set_values set_frames c_values]; rewrite VB; reflexivity|split; [exact KC1|exact KR1]]].
    split; [exact G2|]. split; [reflexivity|]. split; [|split; [|rewrite quirks_upd_cur; exact D1]].
    + apply match_upd. rewrite <- LT, <- LT1. apply (match_after_break s1 r1 top1 fn1 (fc1 :: rest1')). rewrite <- CH1. exact MM1.
    + unfold cX. cbn [push_value set_values set_frames c_values length]. rewrite VB, (kept_base _ _ KC1), LBN. lia.
  - (* v breakOut "t" *)
    intros s reg n a b v t s1 s2 rest0 HN HA IHa NNv HB0 IHb NT r c f restf below pre k top fn fc rest jn below_n (MA & LB & topv & EV & RR) FR EC EP FN CH LT HB HC EB LBN.
    rewrite compile_block_exit in EC.
    post_intro (IHa r c f restf pre _ MA EC EP) r1 c1 f1 rest1 S1 M1 EV1 MV1 P1 K1.
    destruct (after_operands_code f f1 pre _ _ MV1 EC EP P1) as [EC1 EP1].
    post_intro (IHb r1 c1 f1 rest1 (pre ++ compile_expr a) _ M1 EC1 EP1) r2 c2 f2 rest2 S2 M2 EV2 MV2 P2 K2.
    destruct (after_operands_code f1 f2 _ _ _ MV2 EC1 EP1 P2) as [EC2 EP2].
    destruct M2 as (G2 & EF2 & MM2 & B2 & D2). destruct MA as (_ & _ & _ & B & _).
    rewrite EV1 in EV2.
    destruct (chain_kept_b f restf top fn fc rest f2 rest2 CH) as (top1 & fn1 & fc1 & rest1' & CH1 & LT1 & HB1 & FB1 & KC1 & KR1).
    { eapply moved_trans; eassumption. } { eapply kept_all_trans; eassumption. } { exact HB. }
    destruct (find_name_frames t (st_scopes s2) (f2 :: rest2) 0 top1 fn1 (fc1 :: rest1') (proj1 MM2)) as [HS1 HE1]; [cbn; rewrite LT1, LT; exact FN|exact CH1|].
    assert (LV : f_base fn1 <= length (c_values c)) by (rewrite FB1, <- LBN, EV, EB, !app_length; lia).
    destruct (breakout_value_run r2 c2 f2 rest2 _ _ (lower n) t (cv v) (c_values c) top1 fn1 (fc1 :: rest1') G2 (quirks_defects _ D2) EF2 EC2 EP2) as [S3 G3].
    { rewrite lower_idem. exact HN. } { exact NT. } { exact EV2. } { apply nonnil_cv; exact NNv. } { rewrite (moved_base _ _ MV2), (moved_base _ _ MV1); exact B. }
    { exact CH1. } { exact HS1. } { exact HE1. } { exact HB1. } { exact LV. }
    match type of G3 with Good _ ?x => set (cX := x) in * end.
    exists (upd_cur r2 cX), cX, fc1, rest1'. split; [eapply steps_trans; [exact S1|eapply steps_trans; [exact S2|exact S3]]|].
    assert (VB : skipn (length (c_values c) - f_base fn1) (c_values c) = below_n).
    { rewrite FB1, <- LBN, EV, EB, !app_length. replace (length topv + (length jn + length below_n) - length below_n) with (length (topv ++ jn)) by (rewrite app_length; lia).
      rewrite app_assoc, skipn_app, skipn_all, Nat.sub_diag. reflexivity. }
    split; [|split; [unfold cX; cbn [push_value set_values set_frames c_values]; rewrite VB; reflexivity|split; [exact KC1|exact KR1]]].
    split; [exact G3|]. split; [reflexivity|]. split; [|split; [|rewrite quirks_upd_cur; exact D2]].
    + apply match_upd. rewrite <- LT, <- LT1. apply (match_after_break s2 r2 top1 fn1 (fc1 :: rest1')). rewrite <- CH1. exact MM2.
    + unfold cX. cbn [push_value set_values set_frames c_values length]. rewrite VB, (kept_base _ _ KC1), LBN. lia.
  - (* call {.. breakOut ..} as a statement, the scope of the call is not the one *)
    intros s reg n a b s1 t v s2 rest0 HN NL HA IHa HK IHk TN r c f restf below pre k top fn fc rest jn below_n (MA & LB & topv & EV & RR) FR EC EP FN CH LT HB HC EB LBN.
    rewrite (compile_block_unary n a rest0 NL) in EC.
    post_intro (IHa r c f restf pre _ MA EC EP) r1 c1 f1 rest1 S1 M1 EV1 MV1 P1 K1.
    destruct (after_operands_code f f1 pre _ _ MV1 EC EP P1) as [EC1 EP1].
    destruct M1 as (G1 & EF1 & MM1 & B1 & D1). destruct MA as (_ & _ & _ & B & _).
    set (c0 := set_values (set_frames c1 (set_pos f1 (S (f_pos f1)) :: rest1)) (c_values c)).
    assert (TH : match get_variable c0 "_this" with Some t0 => t0 | None => VNil end = cv (this_of s1)).
    { unfold get_variable. cbn [c_frames c0 set_values set_frames]. rewrite lookup_frames_set_pos.
      destruct MM1 as [F1 _]. rewrite (lookup_match (lower "_this") eq_refl _ _ F1). unfold this_of.
      change (lower "_this") with "_this". destruct (lookup_scopes "_this" (st_scopes s1)); reflexivity. }
    destruct (unary_run r1 c1 f1 rest1 _ _ (lower n) (cv (RCode b)) (c_values c)
                (push_frame c0 (mk_frame (cur_ns c0) (compile_block b) None None (mvars [("_this", this_of s1)]))) VNil G1 EF1 EC1 EP1 EV1) as [S2 G2].
    { rewrite (moved_base _ _ MV1); exact B. } { discriminate. }
    { rewrite lower_idem, HN. fold c0. cbn [cv]. unfold op_unary. cbn [String.eqb Ascii.eqb Bool.eqb]. rewrite TH. reflexivity. }
    { destruct G1 as (_ & _ & _ & _ & _ & _ & SU); exact SU. }
    destruct (chain_kept_b f restf top fn fc rest (set_pos f1 (S (f_pos f1))) rest1 CH) as (top1 & fn1 & fc1 & rest1' & CH1 & LT1 & HB1 & FB1 & KC1 & KR1).
    { eapply moved_trans; [exact MV1|apply moved_set_pos]. } { exact K1. } { exact HB. }
    destruct (break_in_scope s1 [("_this", this_of s1)] b t v s2 _ c0 (set_pos f1 (S (f_pos f1))) rest1 k top1 fn1 fc1 rest1' (topv ++ jn) below_n IHk G2) as (r3 & c3 & fc3 & rest3 & S3 & M3 & EV3 & K3 & KR3).
    { rewrite quirks_upd_cur; exact D1. } { reflexivity. } { apply match_upd, match_set_pos; exact MM1. }
    { cbn. rewrite (moved_base _ _ MV1); exact B. } { exact TN. } { exact FN. } { exact CH1. } { rewrite LT1; exact LT. } { exact HB1. }
    { rewrite FB1, (kept_base _ _ KC1). exact HC. } { cbn [c0 set_values c_values]. rewrite EV, EB, app_assoc. reflexivity. } { rewrite FB1. exact LBN. }
    exists r3, c3, fc3, rest3. split; [eapply steps_trans; [exact S1|eapply steps_trans; [exact S2|exact S3]]|].
    split; [exact M3|]. split; [exact EV3|]. split; [eapply kept_trans; eassumption|eapply kept_all_trans; eassumption].
  - (* if true then {.. breakOut ..} as a statement, passing through *)
    intros s reg n a b blk s1 s2 t v s3 rest0 HN HA IHa HB0 IHb HK IHk TN r c f restf below pre k top fn fc rest jn below_n (MA & LB & topv & EV & RR) FR EC EP FN CH LT HB HC EB LBN.
    rewrite compile_block_exit in EC.
    post_intro (IHa r c f restf pre _ MA EC EP) r1 c1 f1 rest1 S1 M1 EV1 MV1 P1 K1.
    destruct (after_operands_code f f1 pre _ _ MV1 EC EP P1) as [EC1 EP1].
    post_intro (IHb r1 c1 f1 rest1 (pre ++ compile_expr a) _ M1 EC1 EP1) r2 c2 f2 rest2 S2 M2 EV2 MV2 P2 K2.
    destruct (after_operands_code f1 f2 _ _ _ MV2 EC1 EP1 P2) as [EC2 EP2].
    destruct M2 as (G2 & EF2 & MM2 & B2 & D2). destruct MA as (_ & _ & _ & B & _).
    rewrite EV1 in EV2.
    set (c0 := set_values (set_frames c2 (set_pos f2 (S (f_pos f2)) :: rest2)) (c_values c)).
    destruct (binary_run r2 c2 f2 rest2 _ _ (lower n) (cv (RIf true)) (cv (RCode blk)) (c_values c)
                (push_frame c0 (mk_frame (cur_ns c0) (compile_block (blk)) None None (mvars []))) VNil G2 EF2 EC2 EP2 EV2) as [S3 G3].
    { rewrite (moved_base _ _ MV2), (moved_base _ _ MV1); exact B. } { discriminate. } { discriminate. } { rewrite lower_idem, HN. reflexivity. }
    { destruct G2 as (_ & _ & _ & _ & _ & _ & SU); exact SU. }
    destruct (chain_kept_b f restf top fn fc rest (set_pos f2 (S (f_pos f2))) rest2 CH) as (top1 & fn1 & fc1 & rest1' & CH1 & LT1 & HB1 & FB1 & KC1 & KR1).
    { eapply moved_trans; [exact MV1|eapply moved_trans; [exact MV2|apply moved_set_pos]]. } { eapply kept_all_trans; eassumption. } { exact HB. }
    destruct (break_in_scope s2 [] (blk) t v s3 _ c0 (set_pos f2 (S (f_pos f2))) rest2 k top1 fn1 fc1 rest1' (topv ++ jn) below_n IHk G3) as (r4 & c4 & fc4 & rest4 & S4 & M4 & EV4 & K4 & KR4).
    { rewrite quirks_upd_cur; exact D2. } { reflexivity. } { apply match_upd, match_set_pos; exact MM2. }
    { cbn. rewrite (moved_base _ _ MV2), (moved_base _ _ MV1); exact B. } { exact TN. } { exact FN. } { exact CH1. } { rewrite LT1; exact LT. } { exact HB1. }
    { rewrite FB1, (kept_base _ _ KC1). exact HC. } { cbn [c0 set_values c_values]. rewrite EV, EB, app_assoc. reflexivity. } { rewrite FB1. exact LBN. }
    exists r4, c4, fc4, rest4. split; [eapply steps_trans; [exact S1|eapply steps_trans; [exact S2|eapply steps_trans; [exact S3|exact S4]]]|].
    split; [exact M4|]. split; [exact EV4|]. split; [eapply kept_trans; eassumption|eapply kept_all_trans; eassumption].
  - (* if c then {..} else {..} as a statement, passing through *)
    intros s reg n a b cnd x0 y0 s1 s2 t v s3 rest0 HN HA IHa HB0 IHb HK IHk TN r c f restf below pre k top fn fc rest jn below_n (MA & LB & topv & EV & RR) FR EC EP FN CH LT HB HC EB LBN.
    rewrite compile_block_exit in EC.
    post_intro (IHa r c f restf pre _ MA EC EP) r1 c1 f1 rest1 S1 M1 EV1 MV1 P1 K1.
    destruct (after_operands_code f f1 pre _ _ MV1 EC EP P1) as [EC1 EP1].
    post_intro (IHb r1 c1 f1 rest1 (pre ++ compile_expr a) _ M1 EC1 EP1) r2 c2 f2 rest2 S2 M2 EV2 MV2 P2 K2.
    destruct (after_operands_code f1 f2 _ _ _ MV2 EC1 EP1 P2) as [EC2 EP2].
    destruct M2 as (G2 & EF2 & MM2 & B2 & D2). destruct MA as (_ & _ & _ & B & _).
    rewrite EV1 in EV2.
    set (c0 := set_values (set_frames c2 (set_pos f2 (S (f_pos f2)) :: rest2)) (c_values c)).
    destruct (binary_run r2 c2 f2 rest2 _ _ (lower n) (cv (RIf cnd)) (cv (RArr [RCode x0; RCode y0])) (c_values c)
                (push_frame c0 (mk_frame (cur_ns c0) (compile_block (if cnd then x0 else y0)) None None (mvars []))) VNil G2 EF2 EC2 EP2 EV2) as [S3 G3].
    { rewrite (moved_base _ _ MV2), (moved_base _ _ MV1); exact B. } { discriminate. } { discriminate. } { rewrite lower_idem, HN. destruct cnd; reflexivity. }
    { destruct G2 as (_ & _ & _ & _ & _ & _ & SU); exact SU. }
    destruct (chain_kept_b f restf top fn fc rest (set_pos f2 (S (f_pos f2))) rest2 CH) as (top1 & fn1 & fc1 & rest1' & CH1 & LT1 & HB1 & FB1 & KC1 & KR1).
    { eapply moved_trans; [exact MV1|eapply moved_trans; [exact MV2|apply moved_set_pos]]. } { eapply kept_all_trans; eassumption. } { exact HB. }
    destruct (break_in_scope s2 [] (if cnd then x0 else y0) t v s3 _ c0 (set_pos f2 (S (f_pos f2))) rest2 k top1 fn1 fc1 rest1' (topv ++ jn) below_n IHk G3) as (r4 & c4 & fc4 & rest4 & S4 & M4 & EV4 & K4 & KR4).
    { rewrite quirks_upd_cur; exact D2. } { reflexivity. } { apply match_upd, match_set_pos; exact MM2. }
    { cbn. rewrite (moved_base _ _ MV2), (moved_base _ _ MV1); exact B. } { exact TN. } { exact FN. } { exact CH1. } { rewrite LT1; exact LT. } { exact HB1. }
    { rewrite FB1, (kept_base _ _ KC1). exact HC. } { cbn [c0 set_values c_values]. rewrite EV, EB, app_assoc. reflexivity. } { rewrite FB1. exact LBN. }
    exists r4, c4, fc4, rest4. split; [eapply steps_trans; [exact S1|eapply steps_trans; [exact S2|eapply steps_trans; [exact S3|exact S4]]]|].
    split; [exact M4|]. split; [exact EV4|]. split; [eapply kept_trans; eassumption|eapply kept_all_trans; eassumption].
  - (* a loop standing as a statement is left by breakOut *)
    intros s reg e t v s3 rest0 HL IHl r c f restf below pre k top fn fc rest jn below_n A FR EC EP FN CH LT HB HC EB LBN.
    exact (expr_leaves_atm _ _ _ _ IHl reg r c f restf below pre (compile_block_from false rest0) A FR EC EP k top fn fc rest jn below_n FN CH LT HB HC EB LBN).
  - (* x = e, the expression is left by breakOut *)
    intros s reg n e t v s3 rest0 HL IHl r c f restf below pre k top fn fc rest jn below_n A FR EC EP FN CH LT HB HC EB LBN.
    unfold compile_block in EC. cbn [compile_block_from compile_stmt app] in EC. rewrite <- app_assoc in EC.
    exact (expr_leaves_atm _ _ _ _ IHl reg r c f restf below pre _ A FR EC EP k top fn fc rest jn below_n FN CH LT HB HC EB LBN).
  - (* private _x = e, the expression is left by breakOut *)
    intros s reg n e t v s3 rest0 HL IHl r c f restf below pre k top fn fc rest jn below_n A FR EC EP FN CH LT HB HC EB LBN.
    unfold compile_block in EC. cbn [compile_block_from compile_stmt app] in EC. rewrite <- app_assoc in EC.
    exact (expr_leaves_atm _ _ _ _ IHl reg r c f restf below pre _ A FR EC EP k top fn fc rest jn below_n FN CH LT HB HC EB LBN).
  - (* {..} forEach / count [x0, ..] is left *)
    intros s n a x body x0 arr k s1 s2 ab s3 HN HK LF HA IHa HX IHx HI IHi.
    eapply (loop_expr_leaves s n a x (RCode body) (RArr (x0 :: arr)) s1 s2 (kvars k 0 x0) (fun ns => kframe k ns body (x0 :: arr) x0) ab s3 IHa IHx).
    + discriminate.
    + discriminate.
    + intros r c0. rewrite <- HN. destruct k; try discriminate HK; reflexivity.
    + intros ns. split; [reflexivity|]. split; [reflexivity|]. split; [reflexivity|]. split; [reflexivity|]. apply kvars0_match.
    + intros r c fc frest below A FR HB. cbn [IterLeaves] in IHi.
      eapply (IHi r c _ fc frest below (x0 :: arr) (kbeh0 k (map cv (x0 :: arr))));
        [exact A|exact FR|reflexivity|reflexivity|reflexivity|apply kb_init|reflexivity|reflexivity|exact LF|reflexivity|exact HB].
  - (* [x0, ..] apply / select / findIf {..} is left *)
    intros s n a x body x0 arr k s1 s2 ab s3 HN HK LF HA IHa HX IHx HI IHi.
    eapply (loop_expr_leaves s n a x (RArr (x0 :: arr)) (RCode body) s1 s2 (kvars k 0 x0) (fun ns => kframe k ns body (x0 :: arr) x0) ab s3 IHa IHx).
    + discriminate.
    + discriminate.
    + intros r c0. rewrite <- HN. destruct k; try discriminate HK; reflexivity.
    + intros ns. split; [reflexivity|]. split; [reflexivity|]. split; [reflexivity|]. split; [reflexivity|]. apply kvars0_match.
    + intros r c fc frest below A FR HB. cbn [IterLeaves] in IHi.
      eapply (IHi r c _ fc frest below (x0 :: arr) (kbeh0 k (map cv (x0 :: arr))));
        [exact A|exact FR|reflexivity|reflexivity|reflexivity|apply kb_init|reflexivity|reflexivity|exact LF|reflexivity|exact HB].
  - (* for .. do {..} is left *)
    intros s n a b var fr to st body s1 s2 ab s3 HN HA IHa HB IHb HE LF HI IHi.
    eapply (loop_expr_leaves s n a b (RFor var fr to st) (RCode body) s1 s2 [(lower var, RNum fr)]
              (fun ns => mk_frame ns (compile_block body) (Some (BFor var to st)) None [(lower var, VNum fr)]) ab s3 IHa IHb).
    + discriminate.
    + discriminate.
    + intros r c0. rewrite HN. cbn [cv]. rewrite for_do_vm, HE. reflexivity.
    + intros ns. split; [reflexivity|]. split; [reflexivity|]. split; [reflexivity|]. split; [reflexivity|].
      apply (vars_match_mvars [(lower var, RNum fr)]).
    + intros r c fc frest below A FR HBf.
      eapply (IHi r c _ fc frest below); [exact A|exact FR|reflexivity|reflexivity|reflexivity|reflexivity|exact LF|reflexivity|exact HBf].
  - (* while {..} do {..} is left *)
    intros s n a b cond body s1 s2 ab s3 HN HA IHa HB IHb LFc LFb HW IHw.
    pose proof LFc as (ic & codec & LCc & _).
    eapply (loop_expr_leaves s n a b (RWhile cond) (RCode body) s1 s2 []
              (fun ns => mk_frame ns (compile_block cond) (Some (BWhile 0 WCond (compile_block cond) (compile_block body))) None []) ab s3 IHa IHb).
    + discriminate.
    + discriminate.
    + intros r c0. rewrite HN. cbn [cv]. rewrite LCc. apply while_do_vm.
    + intros ns. split; [reflexivity|]. split; [reflexivity|]. split; [reflexivity|]. split; [reflexivity|]. intros kk _. reflexivity.
    + intros r c fc frest below A FR HBf.
      eapply (IHw r c _ fc frest below 0); [exact A|exact FR|reflexivity|reflexivity|reflexivity|reflexivity|exact LFc|exact LFb|reflexivity|exact HBf].
  - (* switch v do {..} is left by a throw out of the chosen block *)
    intros s n a b v body s1 s2 sw t ts y s4 HN HA IHa HB IHb HW HT LF HK IHk.
    apply (switch_expr_leaves s n a b v body s1 s2 sw t ts (AThrow y) s4 HN IHa IHb HW HT LF).
    intros r c f restf below A FR EC EP. exact (leavesL_throw _ _ _ y s4 r c f restf below IHk A FR EC EP).
  - (* switch v do {..} is left by breakOut out of the chosen block to a scope outside *)
    intros s n a b v body s1 s2 sw t ts t0 x s4 HN HA IHa HB IHb HW HT LF HK IHk TN.
    apply (switch_expr_leaves s n a b v body s1 s2 sw t ts (ABreak t0 x) s4 HN IHa IHb HW HT LF).
    intros r c f restf below A FR EC EP. exact (leavesL_break _ _ _ t0 x s4 r c f restf below IHk TN A FR EC EP).
  - (* the operand of a unary operator is left *)
    intros s n a ab s1 NL HL IHl r c f restf pre post MA EC EP.
    rewrite (compile_unary_nonlit n a NL), <- app_assoc in EC. exact (IHl r c f restf pre _ MA EC EP).
  - (* the left operand of a binary operator is left *)
    intros s n a b ab s1 HL IHl r c f restf pre post MA EC EP.
    rewrite compile_binary, <- !app_assoc in EC. exact (IHl r c f restf pre _ MA EC EP).
  - (* the right operand is left by breakOut: the left operand's value waits on the stack and is dropped *)
    intros s n a b va t v s1 s2 HA IHa HL IHl r c f restf pre post MA EC EP.
    rewrite compile_binary, <- !app_assoc in EC.
    post_intro (IHa r c f restf pre _ MA EC EP) r1 c1 f1 rest1 S1 M1 EV1 MV1 P1 K1.
    destruct (after_operands_code f f1 pre _ _ MV1 EC EP P1) as [EC1 EP1].
    apply (leaves0_back (ABreak t v) s2 r r1 f f1 restf rest1 [cv va] (c_values c) S1 MV1 K1 I).
    change ([cv va] ++ c_values c) with (cv va :: c_values c). rewrite <- EV1.
    exact (IHl r1 c1 f1 rest1 (pre ++ compile_expr a) _ M1 EC1 EP1).
  - (* an element of an array is left *)
    intros s l ab s1 HL IHl r c f restf pre post MA EC EP.
    rewrite compile_array, <- app_assoc in EC. exact (IHl r c f restf pre _ MA EC EP).
  - (* call {..} as an operand, its block is left *)
    intros s n a b s1 ab s2 HN NL HA IHa HS IHs r c f restf pre post MA EC EP.
    rewrite (compile_unary_nonlit n a NL), <- app_assoc in EC.
    post_intro (IHa r c f restf pre _ MA EC EP) r1 c1 f1 rest1 S1 M1 EV1 MV1 P1 K1.
    destruct (after_operands_code f f1 pre _ _ MV1 EC EP P1) as [EC1 EP1].
    destruct M1 as (G1 & EF1 & MM1 & B1 & D1). destruct MA as (_ & _ & _ & B & _).
    set (c0 := set_values (set_frames c1 (set_pos f1 (S (f_pos f1)) :: rest1)) (c_values c)).
    assert (TH : match get_variable c0 "_this" with Some t => t | None => VNil end = cv (this_of s1)).
    { unfold get_variable. cbn [c_frames c0 set_values set_frames]. rewrite lookup_frames_set_pos.
      destruct MM1 as [F1 _]. rewrite (lookup_match (lower "_this") eq_refl _ _ F1). unfold this_of.
      change (lower "_this") with "_this". destruct (lookup_scopes "_this" (st_scopes s1)); reflexivity. }
    destruct (unary_run r1 c1 f1 rest1 _ _ (lower n) (cv (RCode b)) (c_values c)
                (push_frame c0 (mk_frame (cur_ns c0) (compile_block b) None None (mvars [("_this", this_of s1)]))) VNil G1 EF1 EC1 EP1 EV1) as [S2 G2].
    { rewrite (moved_base _ _ MV1); exact B. } { discriminate. }
    { rewrite lower_idem, HN. fold c0. cbn [cv]. unfold op_unary. cbn [String.eqb Ascii.eqb Bool.eqb]. rewrite TH. reflexivity. }
    { destruct G1 as (_ & _ & _ & _ & _ & _ & SU); exact SU. }
    apply (leaves0_back ab s2 r _ f (set_pos f1 (S (f_pos f1))) restf rest1 [] (c_values c) (steps_trans _ _ _ S1 S2)).
    { eapply moved_trans; [exact MV1|apply moved_set_pos]. } { exact K1. } { apply pend_ok_nil. }
    apply (IHs _ c0 (set_pos f1 (S (f_pos f1))) rest1 G2).
    { rewrite quirks_upd_cur; exact D1. } { reflexivity. } { apply match_upd, match_set_pos; exact MM1. }
    { cbn. rewrite (moved_base _ _ MV1); exact B. }
  - (* x call {..} as an operand, its block is left *)
    intros s n a x va b s1 s2 ab s3 HN HA IHa NNa HX IHx HS IHs r c f restf pre post MA EC EP.
    rewrite compile_binary, <- !app_assoc in EC.
    post_intro (IHa r c f restf pre _ MA EC EP) r1 c1 f1 rest1 S1 M1 EV1 MV1 P1 K1.
    destruct (after_operands_code f f1 pre _ _ MV1 EC EP P1) as [EC1 EP1].
    post_intro (IHx r1 c1 f1 rest1 (pre ++ compile_expr a) _ M1 EC1 EP1) r2 c2 f2 rest2 S2 M2 EV2 MV2 P2 K2.
    destruct (after_operands_code f1 f2 _ _ _ MV2 EC1 EP1 P2) as [EC2 EP2].
    destruct M2 as (G2 & EF2 & MM2 & B2 & D2). destruct MA as (_ & _ & _ & B & _).
    rewrite EV1 in EV2.
    set (c0 := set_values (set_frames c2 (set_pos f2 (S (f_pos f2)) :: rest2)) (c_values c)).
    destruct (binary_run r2 c2 f2 rest2 _ _ (lower n) (cv va) (cv (RCode b)) (c_values c)
                (push_frame c0 (mk_frame (cur_ns c0) (compile_block b) None None (mvars [("_this", va)]))) VNil G2 EF2 EC2 EP2 EV2) as [S3 G3].
    { rewrite (moved_base _ _ MV2), (moved_base _ _ MV1); exact B. } { discriminate. } { apply nonnil_cv; exact NNa. }
    { rewrite lower_idem, HN. reflexivity. }
    { destruct G2 as (_ & _ & _ & _ & _ & _ & SU); exact SU. }
    apply (leaves0_back ab s3 r _ f (set_pos f2 (S (f_pos f2))) restf rest2 [] (c_values c) (steps_trans _ _ _ S1 (steps_trans _ _ _ S2 S3))).
    { eapply moved_trans; [exact MV1|eapply moved_trans; [exact MV2|apply moved_set_pos]]. } { eapply kept_all_trans; eassumption. } { apply pend_ok_nil. }
    apply (IHs _ c0 (set_pos f2 (S (f_pos f2))) rest2 G3).
    { rewrite quirks_upd_cur; exact D2. } { reflexivity. } { apply match_upd, match_set_pos; exact MM2. }
    { cbn. rewrite (moved_base _ _ MV2), (moved_base _ _ MV1); exact B. }
  - (* if true then {..} as an operand, its block is left *)
    intros s n a b blk s1 s2 ab s3 HN HA IHa HB IHb HS IHs r c f restf pre post MA EC EP.
    rewrite compile_binary, <- !app_assoc in EC.
    post_intro (IHa r c f restf pre _ MA EC EP) r1 c1 f1 rest1 S1 M1 EV1 MV1 P1 K1.
    destruct (after_operands_code f f1 pre _ _ MV1 EC EP P1) as [EC1 EP1].
    post_intro (IHb r1 c1 f1 rest1 (pre ++ compile_expr a) _ M1 EC1 EP1) r2 c2 f2 rest2 S2 M2 EV2 MV2 P2 K2.
    destruct (after_operands_code f1 f2 _ _ _ MV2 EC1 EP1 P2) as [EC2 EP2].
    destruct M2 as (G2 & EF2 & MM2 & B2 & D2). destruct MA as (_ & _ & _ & B & _).
    rewrite EV1 in EV2.
    set (c0 := set_values (set_frames c2 (set_pos f2 (S (f_pos f2)) :: rest2)) (c_values c)).
    destruct (binary_run r2 c2 f2 rest2 _ _ (lower n) (cv (RIf true)) (cv (RCode blk)) (c_values c)
                (push_frame c0 (mk_frame (cur_ns c0) (compile_block blk) None None (mvars []))) VNil G2 EF2 EC2 EP2 EV2) as [S3 G3].
    { rewrite (moved_base _ _ MV2), (moved_base _ _ MV1); exact B. } { discriminate. } { discriminate. } { rewrite lower_idem, HN. reflexivity. }
    { destruct G2 as (_ & _ & _ & _ & _ & _ & SU); exact SU. }
    apply (leaves0_back ab s3 r _ f (set_pos f2 (S (f_pos f2))) restf rest2 [] (c_values c) (steps_trans _ _ _ S1 (steps_trans _ _ _ S2 S3))).
    { eapply moved_trans; [exact MV1|eapply moved_trans; [exact MV2|apply moved_set_pos]]. } { eapply kept_all_trans; eassumption. } { apply pend_ok_nil. }
    apply (IHs _ c0 (set_pos f2 (S (f_pos f2))) rest2 G3).
    { rewrite quirks_upd_cur; exact D2. } { reflexivity. } { apply match_upd, match_set_pos; exact MM2. }
    { cbn. rewrite (moved_base _ _ MV2), (moved_base _ _ MV1); exact B. }
  - (* if c then {..} else {..} as an operand, the chosen block is left *)
    intros s n a b cnd x0 y0 s1 s2 ab s3 HN HA IHa HB IHb HS IHs r c f restf pre post MA EC EP.
    rewrite compile_binary, <- !app_assoc in EC.
    post_intro (IHa r c f restf pre _ MA EC EP) r1 c1 f1 rest1 S1 M1 EV1 MV1 P1 K1.
    destruct (after_operands_code f f1 pre _ _ MV1 EC EP P1) as [EC1 EP1].
    post_intro (IHb r1 c1 f1 rest1 (pre ++ compile_expr a) _ M1 EC1 EP1) r2 c2 f2 rest2 S2 M2 EV2 MV2 P2 K2.
    destruct (after_operands_code f1 f2 _ _ _ MV2 EC1 EP1 P2) as [EC2 EP2].
    destruct M2 as (G2 & EF2 & MM2 & B2 & D2). destruct MA as (_ & _ & _ & B & _).
    rewrite EV1 in EV2.
    set (c0 := set_values (set_frames c2 (set_pos f2 (S (f_pos f2)) :: rest2)) (c_values c)).
    destruct (binary_run r2 c2 f2 rest2 _ _ (lower n) (cv (RIf cnd)) (cv (RArr [RCode x0; RCode y0])) (c_values c)
                (push_frame c0 (mk_frame (cur_ns c0) (compile_block (if cnd then x0 else y0)) None None (mvars []))) VNil G2 EF2 EC2 EP2 EV2) as [S3 G3].
    { rewrite (moved_base _ _ MV2), (moved_base _ _ MV1); exact B. } { discriminate. } { discriminate. }
    { rewrite lower_idem, HN. destruct cnd; reflexivity. }
    { destruct G2 as (_ & _ & _ & _ & _ & _ & SU); exact SU. }
    apply (leaves0_back ab s3 r _ f (set_pos f2 (S (f_pos f2))) restf rest2 [] (c_values c) (steps_trans _ _ _ S1 (steps_trans _ _ _ S2 S3))).
    { eapply moved_trans; [exact MV1|eapply moved_trans; [exact MV2|apply moved_set_pos]]. } { eapply kept_all_trans; eassumption. } { apply pend_ok_nil. }
    apply (IHs _ c0 (set_pos f2 (S (f_pos f2))) rest2 G3).
    { rewrite quirks_upd_cur; exact D2. } { reflexivity. } { apply match_upd, match_set_pos; exact MM2. }
    { cbn. rewrite (moved_base _ _ MV2), (moved_base _ _ MV1); exact B. }
  - (* loop over an array: a round, then the rest in which the loop is left *)
    intros k s x rest0 i body acc reg s1 acc1 ab s' HB IHb KS KO HI IHi.
    destruct rest0 as [|x2 rest2]; [inversion HI|].
    cbn [IterLeaves]. intros r c f fc frest below allarr b A FR EC EP EX KB ED SK LF ENS HBf.
    destruct (iter_round k s x x2 rest2 i body acc reg s1 acc1 r c f fc frest below allarr b IHb KS KO A FR EC EP EX KB ED SK LF ENS HBf)
      as (rV & cV & fV & fc1 & frest1 & b' & HS & AV & FRV & ECV & EPV & EXV & KBV & EDV & SKV & ENSV & HBV & Ka & Kb & EE & EBs).
    destruct A as ((G0 & EF0 & _) & _). destruct G0 as (C0 & _).
    apply (leavesL_transfer ab s' r c f fc frest rV fV fc1 frest1 below C0 EF0 HS Ka Kb EE EBs).
    cbn [IterLeaves] in IHi. exact (IHi rV cV fV fc1 frest1 below allarr b' AV FRV ECV EPV EXV KBV EDV SKV LF ENSV HBV).
  - (* loop over an array: the body of this round is left by a throw *)
    intros k s x rest0 i body acc y s1 HT IHt.
    cbn [IterLeaves]. intros r c f fc frest below allarr b A FR EC EP EX KB ED SK LF ENS HBf.
    exact (leavesL_throw _ _ _ y s1 r c f (fc :: frest) below IHt A FR EC EP).
  - (* loop over an array: the body of this round is left by breakOut *)
    intros k s x rest0 i body acc t v s1 HK IHk TN.
    cbn [IterLeaves]. intros r c f fc frest below allarr b A FR EC EP EX KB ED SK LF ENS HBf.
    exact (leavesL_break _ _ _ t v s1 r c f (fc :: frest) below IHk TN A FR EC EP).
  - (* for: a round, then the rest in which the loop is left *)
    intros var to st s x first body reg s1 y ab s' HB IHb HV TV BY HI IHi.
    intros r c f fc frest below A FR EC EP EX ED LF ENS HBf.
    destruct (for_round_next var to st s x first body reg s1 y r c f fc frest below IHb HV TV BY A FR EC EP EX ED LF ENS HBf)
      as (rV & cV & fV & fc1 & frest1 & HS & AV & FRV & ECV & EPV & EXV & EDV & ENSV & HBV & Ka & Kb & EE & EBs).
    destruct A as ((G0 & EF0 & _) & _). destruct G0 as (C0 & _).
    apply (leavesL_transfer ab s' r c f fc frest rV fV fc1 frest1 below C0 EF0 HS Ka Kb EE EBs).
    exact (IHi rV cV fV fc1 frest1 below AV FRV ECV EPV EXV EDV LF ENSV HBV).
  - (* for: the body of this round is left by a throw *)
    intros var to st s x first body y s1 HT IHt.
    intros r c f fc frest below A FR EC EP EX ED LF ENS HBf.
    exact (leavesL_throw _ _ _ y s1 r c f (fc :: frest) below IHt A FR EC EP).
  - (* for: the body of this round is left by breakOut *)
    intros var to st s x first body t v s1 HK IHk TN.
    intros r c f fc frest below A FR EC EP EX ED LF ENS HBf.
    exact (leavesL_break _ _ _ t v s1 r c f (fc :: frest) below IHk TN A FR EC EP).
  - (* while: a round, then the rest in which the loop is left *)
    intros cond body s first s1 reg s2 ab s' HC IHc HB IHb HW IHw.
    intros r c f fc frest below loops A FR EC EP EX ED LFc LFb ENS HBf.
    destruct (while_cond_body cond body s first s1 r c f fc frest below loops IHc A FR EC EP EX ED LFc LFb ENS HBf)
      as (rB & cB & fB & fc1 & frest1 & HS1 & AB & FRB & ECB & EPB & EXB & EDB & ENSB & HBB & Ka & Kb & EE1 & EB1).
    destruct (while_body_cond cond body s1 reg s2 rB cB fB fc1 frest1 below loops IHb AB FRB ECB EPB EXB EDB LFc LFb ENSB HBB)
      as (rC & cC & fC & fc2 & frest2 & loops' & HS2 & AC & FRC & ECC & EPC & EXC & EDC & ENSC & HBC & Kc & Kd & EE2 & EB2).
    destruct A as ((G0 & EF0 & _) & _). destruct G0 as (C0 & _).
    apply (leavesL_transfer ab s' r c f fc frest rB fB fc1 frest1 below C0 EF0 HS1 Ka Kb EE1 EB1).
    pose proof AB as (((CB & _) & EFB & _) & _).
    apply (leavesL_transfer ab s' rB cB fB fc1 frest1 rC fC fc2 frest2 below CB EFB HS2 Kc Kd EE2 EB2).
    exact (IHw rC cC fC fc2 frest2 below loops' AC FRC ECC EPC EXC EDC LFc LFb ENSC HBC).
  - (* while: the condition is left by a throw *)
    intros cond body s first y s1 HT IHt.
    intros r c f fc frest below loops A FR EC EP EX ED LFc LFb ENS HBf.
    exact (leavesL_throw _ _ _ y s1 r c f (fc :: frest) below IHt A FR EC EP).
  - (* while: the condition is left by breakOut *)
    intros cond body s first t v s1 HK IHk TN.
    intros r c f fc frest below loops A FR EC EP EX ED LFc LFb ENS HBf.
    exact (leavesL_break _ _ _ t v s1 r c f (fc :: frest) below IHk TN A FR EC EP).
  - (* while: the body is left by a throw *)
    intros cond body s first s1 y s2 HC IHc HT IHt.
    intros r c f fc frest below loops A FR EC EP EX ED LFc LFb ENS HBf.
    destruct (while_cond_body cond body s first s1 r c f fc frest below loops IHc A FR EC EP EX ED LFc LFb ENS HBf)
      as (rB & cB & fB & fc1 & frest1 & HS1 & AB & FRB & ECB & EPB & EXB & EDB & ENSB & HBB & Ka & Kb & EE1 & EB1).
    destruct A as ((G0 & EF0 & _) & _). destruct G0 as (C0 & _).
    apply (leavesL_transfer (AThrow y) (pop_scope s2) r c f fc frest rB fB fc1 frest1 below C0 EF0 HS1 Ka Kb EE1 EB1).
    exact (leavesL_throw _ _ _ y s2 rB cB fB (fc1 :: frest1) below IHt AB FRB ECB EPB).
  - (* while: the body is left by breakOut *)
    intros cond body s first s1 t v s2 HC IHc HK IHk TN.
    intros r c f fc frest below loops A FR EC EP EX ED LFc LFb ENS HBf.
    destruct (while_cond_body cond body s first s1 r c f fc frest below loops IHc A FR EC EP EX ED LFc LFb ENS HBf)
      as (rB & cB & fB & fc1 & frest1 & HS1 & AB & FRB & ECB & EPB & EXB & EDB & ENSB & HBB & Ka & Kb & EE1 & EB1).
    destruct A as ((G0 & EF0 & _) & _). destruct G0 as (C0 & _).
    apply (leavesL_transfer (ABreak t v) (pop_scope s2) r c f fc frest rB fB fc1 frest1 below C0 EF0 HS1 Ka Kb EE1 EB1).
    exact (leavesL_break _ _ _ t v s2 rB cB fB (fc1 :: frest1) below IHk TN AB FRB ECB EPB).
  - (* a block in its own scope is left by a throw *) intros s vars b y s2 HT IHt. exact (scope_leaves_throw s vars b y s2 IHt).
  - (* ... by breakOut *) intros s vars b t v s2 HK IHk TN. exact (scope_leaves_break s vars b t v s2 IHk TN).
  - (* the first element is left *) intros s e l ab s1 HL IHl r c f restf pre post MA EC EP.
    cbn [flat_map] in EC. rewrite <- app_assoc in EC. exact (IHl r c f restf pre _ MA EC EP).
  - (* a later element is left by breakOut: the elements evaluated so far wait on the stack and are dropped *)
    intros s e v l t v0 s1 s2 HE IHe NN HL IHl r c f restf pre post MA EC EP.
    cbn [flat_map] in EC. rewrite <- app_assoc in EC.
    post_intro (IHe r c f restf pre _ MA EC EP) r1 c1 f1 rest1 S1 M1 EV1 MV1 P1 K1.
    destruct (after_operands_code f f1 pre _ _ MV1 EC EP P1) as [EC1 EP1].
    apply (leaves0_back (ABreak t v0) s2 r r1 f f1 restf rest1 [cv v] (c_values c) S1 MV1 K1 I).
    change ([cv v] ++ c_values c) with (cv v :: c_values c). rewrite <- EV1.
    exact (IHl r1 c1 f1 rest1 (pre ++ compile_expr e) post M1 EC1 EP1).
  - (* if true exitWith {..} in an operand position: pend waits on the stack of the scope that ends *)
    intros s n l x b s1 s2 out s3 HN HL IHl HX IHx HB IHb r c f fc rest pre post pend below MA EC EP EV LB HBf.
    rewrite compile_binary, <- !app_assoc in EC.
    post_intro (IHl r c f (fc :: rest) pre _ MA EC EP) r1 c1 f1 rest1 S1 M1 EV1 MV1 P1 K1.
    destruct (after_operands_code f f1 pre _ _ MV1 EC EP P1) as [EC1 EP1].
    post_intro (IHx r1 c1 f1 rest1 (pre ++ compile_expr l) _ M1 EC1 EP1) r2 c2 f2 rest2 S2 M2 EV2 MV2 P2 K2.
    destruct (after_operands_code f1 f2 _ _ _ MV2 EC1 EP1 P2) as [EC2 EP2].
    destruct M2 as (G2 & EF2 & MM2 & B2 & D2). destruct MA as (_ & _ & _ & B & _).
    rewrite EV1 in EV2.
    assert (KK : Forall2 kept (fc :: rest) rest2) by (eapply kept_all_trans; eassumption).
    inversion KK as [|fa fc2 ra rest2' Ka Kb Ea Eb]; subst.
    set (c0 := set_values (set_frames c2 (set_pos f2 (S (f_pos f2)) :: fc2 :: rest2')) (c_values c)).
    set (fdie := set_die (set_pos (set_pos f2 (S (f_pos f2))) (S (length (f_code f2)))) true).
    set (cX := push_frame (upd_top c0 (fun f => set_die (set_pos f (S (length (f_code f)))) true))
                          (mk_frame (cur_ns c0) (compile_block b) None None [])).
    destruct (binary_run r2 c2 f2 (fc2 :: rest2') _ _ (lower n) (cv (RIf true)) (cv (RCode b)) (c_values c) cX VNil G2 EF2 EC2 EP2 EV2) as [S3 G3].
    { rewrite (moved_base _ _ MV2), (moved_base _ _ MV1); exact B. } { discriminate. } { discriminate. } { rewrite lower_idem, HN. reflexivity. }
    { destruct G2 as (_ & _ & _ & _ & _ & _ & SU); exact SU. }
    set (nf := set_base (mk_frame (cur_ns c0) (compile_block b) None None []) (length (c_values c))).
    assert (A3 : AtM (enter s2 []) RNil (upd_cur r2 (push_value cX VNil)) (push_value cX VNil) nf (fdie :: fc2 :: rest2') (c_values c)).
    { split.
      - split; [exact G3|]. split; [reflexivity|]. split.
        + apply match_upd. destruct MM2 as [F N]. split; [|exact N]. cbn. inversion F as [|sc f0 scs fs FM F' E1 E2]; subst.
          constructor; [|constructor; [exact FM|exact F']].
          split; [intros k; reflexivity|split; [|split; reflexivity]]. cbn. destruct FM as (_ & NS & _). unfold cur_ns_of. rewrite <- E1. exact NS.
        + split; [cbn; lia|rewrite quirks_upd_cur; exact D2].
      - split; [reflexivity|]. exists [VNil]. split; [reflexivity|]. split; [reflexivity|]. split; [discriminate|nil_case]. }
    destruct (scope_ends_of_body _ _ _ _ _ IHb _ _ nf fdie (fc2 :: rest2') (c_values c) [] A3 (fresh_one (push_value cX VNil) (c_values c) eq_refl) eq_refl eq_refl eq_refl) as (r4 & c4 & fd4 & rest4 & S4 & M4 & EV4 & K4 & KR4).
    { cbn. rewrite (moved_base _ _ MV2), (moved_base _ _ MV1); exact B. }
    inversion KR4 as [|fb fc4 rb rest4' Kc Kd Ec Ed]; subst.
    destruct M4 as (G4 & EF4 & MM4 & B4 & D4).
    destruct (complete_dead r4 c4 fd4 fc4 rest4' (cv (val_of out) :: pend) below G4 D4 EF4) as [S5 G5].
    { rewrite (kept_pos _ _ K4), (kept_code _ _ K4). reflexivity. }
    { rewrite (kept_die _ _ K4). reflexivity. }
    { rewrite EV4, EV. reflexivity. }
    { rewrite (kept_base _ _ K4). cbn. rewrite (moved_base _ _ MV2), (moved_base _ _ MV1). exact LB. }
    eexists _, _, fc4, rest4'. split; [eapply steps_trans; [exact S1|eapply steps_trans; [exact S2|eapply steps_trans; [exact S3|eapply steps_trans; [exact S4|exact S5]]]]|].
    split.
    + split; [exact G5|]. split; [reflexivity|]. split.
      * apply match_upd. destruct MM4 as [F N]. split; [|exact N]. inversion F as [|sc f0 scs fs FM F' E1 E2]; subst. cbn. rewrite <- E1. cbn. exact F'.
      * split; [cbn; rewrite (kept_base _ _ Kc), (kept_base _ _ Ka); lia|rewrite quirks_upd_cur; exact D4].
    + split; [reflexivity|]. split; [eapply kept_trans; eassumption|eapply kept_all_trans; eassumption].
  - (* the operand of a unary operator is left by exitWith *)
    intros s n a v s1 NL HX IHx r c f fc rest pre post pend below MA EC EP EV LB HBf.
    rewrite (compile_unary_nonlit n a NL), <- app_assoc in EC. exact (IHx r c f fc rest pre _ pend below MA EC EP EV LB HBf).
  - (* the left operand is left by exitWith *)
    intros s n a b v s1 HX IHx r c f fc rest pre post pend below MA EC EP EV LB HBf.
    rewrite compile_binary, <- !app_assoc in EC. exact (IHx r c f fc rest pre _ pend below MA EC EP EV LB HBf).
  - (* the right operand is left by exitWith: the left operand's value joins what waits *)
    intros s n a b va v s1 s2 HA IHa HX IHx r c f fc rest pre post pend below MA EC EP EV LB HBf.
    rewrite compile_binary, <- !app_assoc in EC.
    post_intro (IHa r c f (fc :: rest) pre _ MA EC EP) r1 c1 f1 rest1 S1 M1 EV1 MV1 P1 K1.
    destruct (after_operands_code f f1 pre _ _ MV1 EC EP P1) as [EC1 EP1].
    inversion K1 as [|fa fc1 ra rest1' Ka Kb Ea Eb]; subst.
    destruct (IHx r1 c1 f1 fc1 rest1' (pre ++ compile_expr a) _ (cv va :: pend) below M1 EC1 EP1) as (r' & c' & fc' & rest' & S2 & M2 & EV2 & K2 & KR2).
    { rewrite EV1, EV. reflexivity. } { rewrite (moved_base _ _ MV1). exact LB. } { rewrite (kept_base _ _ Ka). exact HBf. }
    exists r', c', fc', rest'. split; [eapply steps_trans; eassumption|]. split; [exact M2|]. split; [exact EV2|].
    split; [eapply kept_trans; eassumption|eapply kept_all_trans; eassumption].
  - (* an element of an array is left by exitWith *)
    intros s l v s1 HX IHx r c f fc rest pre post pend below MA EC EP EV LB HBf.
    rewrite compile_array, <- app_assoc in EC. exact (IHx r c f fc rest pre _ pend below MA EC EP EV LB HBf).
  - (* the first element *)
    intros s e l v s1 HX IHx r c f fc rest pre post pend below MA EC EP EV LB HBf.
    cbn [flat_map] in EC. rewrite <- app_assoc in EC. exact (IHx r c f fc rest pre _ pend below MA EC EP EV LB HBf).
  - (* a later element: the elements evaluated so far join what waits *)
    intros s e v0 l v s1 s2 HE IHe NN HX IHx r c f fc rest pre post pend below MA EC EP EV LB HBf.
    cbn [flat_map] in EC. rewrite <- app_assoc in EC.
    post_intro (IHe r c f (fc :: rest) pre _ MA EC EP) r1 c1 f1 rest1 S1 M1 EV1 MV1 P1 K1.
    destruct (after_operands_code f f1 pre _ _ MV1 EC EP P1) as [EC1 EP1].
    inversion K1 as [|fa fc1 ra rest1' Ka Kb Ea Eb]; subst.
    destruct (IHx r1 c1 f1 fc1 rest1' (pre ++ compile_expr e) post (cv v0 :: pend) below M1 EC1 EP1) as (r' & c' & fc' & rest' & S2 & M2 & EV2 & K2 & KR2).
    { rewrite EV1, EV. reflexivity. } { rewrite (moved_base _ _ MV1). exact LB. } { rewrite (kept_base _ _ Ka). exact HBf. }
    exists r', c', fc', rest'. split; [eapply steps_trans; eassumption|]. split; [exact M2|]. split; [exact EV2|].
    split; [eapply kept_trans; eassumption|eapply kept_all_trans; eassumption].
Qed.


(* ---------------------------------------------------------------- the reference semantics *)
Lemma in_scope_out f s sc b out s2 : eval_block f (push_scope s sc) b RNil = (oc out, s2) ->
  in_scope_f f s sc b = (ONormal (val_of out), pop_scope s2).
Proof. intros H. unfold in_scope_f. rewrite H. destruct out as [reg|v]; cbn [oc val_of]; [destruct reg; reflexivity|reflexivity]. Qed.

Lemma eval_binary_exitwith f F s b :
  eval_binary (S f) s "exitwith" (RIf true) (RCode b) (in_scope_f F) plain_scope_f =
  match in_scope_f F s (plain_scope_f s []) b with (ONormal v, s') => (OExit v, s') | other => other end.
Proof. reflexivity. Qed.

(* the iteration of eval_binary, named *)
Definition iterate_f (f:nat) :=
  fix iterate (k:nat) (s:sstate) (arr:list rvalue) (i:nat) (body:list stmt) (with_index:bool)
              (acc:rvalue) (step:rvalue -> nat -> rvalue -> rvalue -> option (bool * rvalue)) {struct k} : outcome * sstate :=
    match k with O => (OFuel, s) | S k =>
    match arr with
    | [] => (ONormal acc, s)
    | x :: rest =>
        let vars := if with_index then [("_foreachindex", RNum (Z.of_nat i)); ("_x", x)] else [("_x", x)] in
        let '(o, s1) := eval_block f (push_scope s (plain_scope_f s vars)) body (match i with O => RNil | _ => RNone end) in
        let s2 := pop_scope s1 in
        match o with
        | ONormal v => match step x i v acc with
                       | Some (true, acc') => iterate k s2 rest (S i) body with_index acc' step
                       | Some (false, acc') => (ONormal acc', s2)
                       | None => (OError, s2) end
        | OExit v => (ONormal v, s2)
        | OBreak name v => match st_scopes s1 with
                           | sc' :: _ => if String.eqb (sc_name sc') name then (ONormal v, s2) else (OBreak name v, s2)
                           | [] => (OBreak name v, s2) end
        | other => (other, s2) end end end.
Lemma eval_binary_loop_ca f F s k body arr : kca k = true ->
  eval_binary (S f) s (kname k) (RCode body) (RArr arr) (in_scope_f F) plain_scope_f =
  iterate_f f (S (length arr)) s arr O body (kwith k) (kinit k) (kstep k).
Proof. destruct k; intros H; try discriminate H; reflexivity. Qed.
Lemma eval_binary_loop_ac f F s k body arr : kca k = false ->
  eval_binary (S f) s (kname k) (RArr arr) (RCode body) (in_scope_f F) plain_scope_f =
  iterate_f f (S (length arr)) s arr O body (kwith k) (kinit k) (kstep k).
Proof. destruct k; intros H; try discriminate H; reflexivity. Qed.
Lemma kvars_iter k i x : (if kwith k then [("_foreachindex", RNum (Z.of_nat i)); ("_x", x)] else [("_x", x)]) = kvars k i x.
Proof. destruct k; reflexivity. Qed.

Lemma lazy_ref m sk f F s b : lazy_skip m = Some sk ->
  eval_binary (S f) s m (RBool (negb sk)) (RCode b) (in_scope_f F) plain_scope_f = in_scope_f F s (plain_scope_f s []) b /\
  eval_binary (S f) s m (RBool sk) (RCode b) (in_scope_f F) plain_scope_f = (ONormal (RBool sk), s).
Proof.
  unfold lazy_skip. intros H.
  destruct (String.eqb m "&&") eqn:E1; [apply String.eqb_eq in E1; subst m; inversion H; subst; split; reflexivity|].
  destruct (String.eqb m "and") eqn:E2; [apply String.eqb_eq in E2; subst m; inversion H; subst; split; reflexivity|].
  destruct (String.eqb m "||") eqn:E3; [apply String.eqb_eq in E3; subst m; inversion H; subst; split; reflexivity|].
  destruct (String.eqb m "or") eqn:E4; [apply String.eqb_eq in E4; subst m; inversion H; subst; split; reflexivity|].
  discriminate H.
Qed.

(* the for loop of eval_binary, named *)
Definition for_loop_f (f:nat) (var:string) (to step:Z) (body:list stmt) :=
  fix loop (k:nat) (s:sstate) (x:Z) (first:bool) : outcome * sstate :=
    match k with O => (OFuel, s) | S k =>
    let '(o, s1) := eval_block f (push_scope s (plain_scope_f s [(lower var, RNum x)])) body (if first then RNil else RNone) in
    let s2 := pop_scope s1 in
    match o with
    | ONormal v0 =>
        let v := match v0 with RNone => RNil | _ => v0 end in
        match st_scopes s1 with
        | sc :: _ => match assoc (lower var) (sc_vars sc) with
                     | Some (RNum y) => let u := (y + step)%Z in
                                        if (if Z.leb 0 step then Z.ltb to u else Z.ltb u to) then (ONormal v, s2)
                                        else loop k s2 u false
                     | _ => (ONormal v, s2) end
        | [] => (ONormal v, s2) end
    | OExit v => (ONormal v, s2)
    | OBreak name v => match st_scopes s1 with
                       | sc' :: _ => if String.eqb (sc_name sc') name then (ONormal v, s2) else (OBreak name v, s2)
                       | [] => (OBreak name v, s2) end
    | other => (other, s2) end end.
Lemma eval_binary_for f F s var fr to st body :
  eval_binary (S f) s "do" (RFor var fr to st) (RCode body) (in_scope_f F) plain_scope_f =
  if for_empty fr to st then (ONormal RNil, s) else for_loop_f f var to st body f s fr true.
Proof. reflexivity. Qed.
Lemma for_set_ref m var fr to st x fr' to' st' f F s : for_set m fr to st x = Some (fr', to', st') ->
  eval_binary (S f) s m (RFor var fr to st) (RNum x) (in_scope_f F) plain_scope_f = (ONormal (RFor var fr' to' st'), s).
Proof.
  unfold for_set. intros H.
  destruct (String.eqb m "from") eqn:E1; [apply String.eqb_eq in E1; subst m; inversion H; subst; reflexivity|].
  destruct (String.eqb m "to") eqn:E2; [apply String.eqb_eq in E2; subst m; inversion H; subst; reflexivity|].
  destruct (String.eqb m "step") eqn:E3; [apply String.eqb_eq in E3; subst m; inversion H; subst; reflexivity|discriminate H].
Qed.

(* the while loop of eval_binary, named *)
Definition while_loop_f (f:nat) (cond body:list stmt) :=
  fix loop (k:nat) (s:sstate) (n:nat) : outcome * sstate :=
    match k with O => (OFuel, s) | S k =>
    let '(o1, s1) := eval_block f (push_scope s (plain_scope_f s [])) cond (match n with O => RNil | _ => RNone end) in
    let leave := fun (o:outcome) (s1:sstate) =>
      match o with
      | OExit v => (ONormal v, pop_scope s1)
      | OBreak name v => match st_scopes s1 with
                         | sc' :: _ => if String.eqb (sc_name sc') name then (ONormal v, pop_scope s1) else (OBreak name v, pop_scope s1)
                         | [] => (OBreak name v, pop_scope s1) end
      | other => (other, pop_scope s1) end in
    match o1 with
    | ONormal (RBool true) =>
        let '(ob, s2) := eval_block f (set_top_vars s1 []) body RNone in
        match ob with
        | ONormal v => loop k (pop_scope s2) (S n)
        | other => leave other s2 end
    | ONormal (RBool false) => (ONormal RNil, pop_scope s1)
    | ONormal RNil => (ONormal RNil, pop_scope s1)
    | ONormal _ => (OError, pop_scope s1)
    | other => leave other s1 end end.
Lemma eval_binary_while f F s st cond body :
  eval_binary (S f) s "do" (RWhile (st :: cond)) (RCode body) (in_scope_f F) plain_scope_f = while_loop_f f (st :: cond) body f s O.
Proof. reflexivity. Qed.
Lemma eval_unary_while f F s cond : eval_unary (S f) s "while" (RCode cond) (in_scope_f F) plain_scope_f = (ONormal (RWhile cond), s).
Proof. reflexivity. Qed.
Lemma leaf_first_cons b : leaf_first b -> exists st rest, b = st :: rest.
Proof. intros (i & code & E & _). destruct b as [|st rest]; [discriminate E|eauto]. Qed.

(* try-catch in the reference semantics, named *)
Definition finish_f (o:outcome) (s1:sstate) : outcome * sstate :=
  match o with
  | ONormal RNone => (ONormal RNil, pop_scope s1)
  | OExit v => (ONormal v, pop_scope s1)
  | OBreak name v => match st_scopes s1 with
                     | sc' :: _ => if String.eqb (sc_name sc') name then (ONormal v, pop_scope s1) else (OBreak name v, pop_scope s1)
                     | [] => (OBreak name v, pop_scope s1) end
  | other => (other, pop_scope s1) end.
Definition handler_after (p:outcome * sstate) : outcome * sstate := let '(o2, s2) := p in finish_f o2 s2.
Definition catch_after (f:nat) (h:list stmt) (p:outcome * sstate) : outcome * sstate :=
  let '(o, s1) := p in
  match o with
  | OThrow x => handler_after (eval_block f (set_top_vars s1 [("_exception", x)]) h RNil)
  | other => finish_f other s1 end.
Lemma eval_binary_catch f F s body h :
  eval_binary (S f) s "catch" (RTry body) (RCode h) (in_scope_f F) plain_scope_f =
  catch_after f h (eval_block f (push_scope s (plain_scope_f s [])) body RNil).
Proof. reflexivity. Qed.
Lemma handler_after_out out s : handler_after (oc out, s) = (ONormal (val_of out), pop_scope s).
Proof. destruct out as [reg|v]; cbn; [destruct reg; reflexivity|reflexivity]. Qed.
Lemma handler_after_throw y s : handler_after (OThrow y, s) = (OThrow y, pop_scope s).
Proof. reflexivity. Qed.
Lemma catch_after_out f h out s : catch_after f h (oc out, s) = (ONormal (val_of out), pop_scope s).
Proof. destruct out as [reg|v]; cbn; [destruct reg; reflexivity|reflexivity]. Qed.
Lemma catch_after_throw f h x s : catch_after f h (OThrow x, s) = handler_after (eval_block f (set_top_vars s [("_exception", x)]) h RNil).
Proof. reflexivity. Qed.
Lemma in_scope_throw f s sc b x s2 : eval_block f (push_scope s sc) b RNil = (OThrow x, s2) ->
  in_scope_f f s sc b = (OThrow x, pop_scope s2).
Proof. intros H. unfold in_scope_f. rewrite H. reflexivity. Qed.

Lemma in_scope_break_caught f s sc b t v s2 : eval_block f (push_scope s sc) b RNil = (OBreak t v, s2) -> t <> "" -> top_name s2 = t ->
  in_scope_f f s sc b = (ONormal v, pop_scope s2).
Proof.
  intros H NT TN. unfold in_scope_f. rewrite H. unfold top_name in TN. destruct (st_scopes s2) as [|sc' l]; [exfalso; apply NT; symmetry; exact TN|].
  rewrite TN, String.eqb_refl. reflexivity.
Qed.
Lemma in_scope_break_pass f s sc b t v s2 : eval_block f (push_scope s sc) b RNil = (OBreak t v, s2) -> top_name s2 <> t ->
  in_scope_f f s sc b = (OBreak t v, pop_scope s2).
Proof.
  intros H TN. unfold in_scope_f. rewrite H. unfold top_name in TN. destruct (st_scopes s2) as [|sc' l]; [reflexivity|].
  destruct (String.eqb_spec (sc_name sc') t) as [E|_]; [contradiction|reflexivity].
Qed.

(* switch in the reference semantics, named *)
Definition switch_after (f:nat) (p:outcome * sstate * swst) : outcome * sstate :=
  let '(o, s1, sw) := p in
  match o with
  | ONormal _ =>
      match sw_target sw with
      | Some (t :: ts) => let '(o2, s2) := eval_block f s1 (t :: ts) RNil in
                     let s3 := pop_scope s2 in
                     match o2 with
                     | ONormal RNone => (ONormal RNil, s3)
                     | OExit x => (ONormal x, s3)
                     | OBreak name x => match st_scopes s2 with
                                        | sc' :: _ => if String.eqb (sc_name sc') name then (ONormal x, s3) else (OBreak name x, s3)
                                        | [] => (OBreak name x, s3) end
                     | other => (other, s3) end
      | _ => (ONormal RNil, pop_scope s1) end
  | other => (other, pop_scope s1) end.
Lemma eval_binary_switch f F s v body :
  eval_binary (S f) s "do" (RSwitch v) (RCode body) (in_scope_f F) plain_scope_f =
  switch_after f (eval_switch_body f (push_scope s (plain_scope_f s [])) body (sw_start v)).
Proof. reflexivity. Qed.

Lemma switch_body_ref s body sw sw' : zswitch s body sw sw' ->
  exists f0, forall f, f0 <= f -> eval_switch_body f s body sw = (ONormal RNil, s, sw').
Proof.
  induction 1 as [sw|n x v st2 rest0 sw sw' HN HX HR [f0 IH]|cc k x blk v rest0 sw sw' HC HK HX HD HR [f0 IH]|cc k x blk v rest0 sw HC HK HX HD|n blk rest0 sw sw' HN HR [f0 IH]].
  - exists 1. intros [|f] L; [lia|]. reflexivity.
  - exists (S (f0 + esize x)). intros [|f] L; [lia|]. cbn [eval_switch_body]. rewrite HN. cbn [String.eqb Ascii.eqb Bool.eqb].
    rewrite (proj2 (proj1 (pure_ref _ _) x v HX) s f (renv_ok_of s)) by lia. apply IH. lia.
  - exists (S (f0 + esize x)). intros [|f] L; [lia|]. cbn [eval_switch_body]. rewrite HC, HK. cbn [String.eqb Ascii.eqb Bool.eqb andb].
    rewrite (proj2 (proj1 (pure_ref _ _) x v HX) s f (renv_ok_of s)) by lia.
    change (if req true v (sw_v sw) then true else sw_now sw) with (sw_now (sw_see sw v)). rewrite HD. apply IH. lia.
  - exists (S (esize x)). intros [|f] L; [lia|]. cbn [eval_switch_body]. rewrite HC, HK. cbn [String.eqb Ascii.eqb Bool.eqb andb].
    rewrite (proj2 (proj1 (pure_ref _ _) x v HX) s f (renv_ok_of s)) by lia.
    change (if req true v (sw_v sw) then true else sw_now sw) with (sw_now (sw_see sw v)). rewrite HD. reflexivity.
  - exists (S f0). intros [|f] L; [lia|]. cbn [eval_switch_body]. rewrite HN. cbn [String.eqb Ascii.eqb Bool.eqb]. apply IH. lia.
Qed.

(* breakOut to the name the scope being closed carries ends there *)
Lemma break_own_f (t:string) (v:rvalue) s1 : t <> "" -> top_name s1 = t ->
  match st_scopes s1 with
  | sc' :: _ => if String.eqb (sc_name sc') t then (ONormal v, pop_scope s1) else (OBreak t v, pop_scope s1)
  | [] => (OBreak t v, pop_scope s1) end = (ONormal v, pop_scope s1).
Proof.
  unfold top_name. destruct (st_scopes s1) as [|sc' l]; intros NT TN; [exfalso; apply NT; symmetry; exact TN|].
  rewrite TN, String.eqb_refl. reflexivity.
Qed.
(* breakOut to a name the scope being closed does not carry goes on outwards *)
Lemma break_pass_f (t:string) (v:rvalue) s1 : top_name s1 <> t ->
  match st_scopes s1 with
  | sc' :: _ => if String.eqb (sc_name sc') t then (ONormal v, pop_scope s1) else (OBreak t v, pop_scope s1)
  | [] => (OBreak t v, pop_scope s1) end = (OBreak t v, pop_scope s1).
Proof.
  unfold top_name. destruct (st_scopes s1) as [|sc' l]; intros TN; [reflexivity|].
  destruct (String.eqb_spec (sc_name sc') t) as [E|_]; [contradiction|reflexivity].
Qed.

Theorem ref_runs_z :
  (forall s e v s', zev s e v s' -> exists f0, forall f, f0 <= f -> eval f s e = (ONormal v, s')) /\
  (forall s l vs s', zevs s l vs s' -> exists f0, forall f, f0 <= f -> forall acc, go_arr f s l acc = (ONormal (RArr (rev acc ++ vs)), s')) /\
  (forall s reg st reg1 s1, zstmt s reg st reg1 s1 -> exists f0, forall f, f0 <= f -> forall rest,
      eval_block (S f) s (st :: rest) reg = cont f rest s1 reg1) /\
  (forall s reg b out s', zblock s reg b out s' -> exists f0, forall f, f0 <= f -> eval_block f s b reg = (oc out, s')) /\
  (forall k s arr i body acc acc' s', ziter k s arr i body acc acc' s' -> exists f0, forall f, f0 <= f -> forall kk, length arr < kk ->
      iterate_f f kk s arr i body (kwith k) acc (kstep k) = (ONormal acc', s')) /\
  (forall var to st s x first body acc s', zfor var to st s x first body acc s' -> exists f0 k0, forall f, f0 <= f -> forall k, k0 <= k ->
      for_loop_f f var to st body k s x first = (ONormal acc, s')) /\
  (forall cond body s first v s', zwhile cond body s first v s' -> exists f0 k0, forall f, f0 <= f -> forall k, k0 <= k -> forall n, first = Nat.eqb n 0 ->
      while_loop_f f cond body k s n = (ONormal v, s')) /\
  (forall s reg b x s', zthrow s reg b x s' -> exists f0, forall f, f0 <= f -> eval_block f s b reg = (OThrow x, s')) /\
  (forall s reg b t v s', zbreak s reg b t v s' -> exists f0, forall f, f0 <= f -> eval_block f s b reg = (OBreak t v, s')) /\
  (forall s e a s', zloopleave s e a s' -> exists f0, forall f, f0 <= f -> eval f s e = (oa a, s')) /\
  (forall k s arr i body acc a s', zileave k s arr i body acc a s' -> exists f0, forall f, f0 <= f -> forall kk, length arr < kk ->
      iterate_f f kk s arr i body (kwith k) acc (kstep k) = (oa a, s')) /\
  (forall var to st s x first body a s', zfleave var to st s x first body a s' -> exists f0 k0, forall f, f0 <= f -> forall k, k0 <= k ->
      for_loop_f f var to st body k s x first = (oa a, s')) /\
  (forall cond body s first a s', zwleave cond body s first a s' -> exists f0 k0, forall f, f0 <= f -> forall k, k0 <= k -> forall n, first = Nat.eqb n 0 ->
      while_loop_f f cond body k s n = (oa a, s')) /\
  (forall s vars b a s', zscopeleave s vars b a s' -> exists f0, forall f, f0 <= f -> in_scope_f f s (plain_scope_f s vars) b = (oa a, s')) /\
  (forall s l a s', zelemsleave s l a s' -> exists f0, forall f, f0 <= f -> forall acc, go_arr f s l acc = (oa a, s')) /\
  (forall s e v s', zexexit s e v s' -> exists f0, forall f, f0 <= f -> eval f s e = (OExit v, s')) /\
  (forall s l v s', zelemsexit s l v s' -> exists f0, forall f, f0 <= f -> forall acc, go_arr f s l acc = (OExit v, s')).
Proof.
  apply z_ind.
  - (* pure *) intros s e v HE. exists (esize e). intros f L. exact (proj2 (proj1 (pure_ref _ _) e v HE) s f (renv_ok_of s) L).
  - (* local *) intros s n v IL HH HL NN. exists 1. intros [|f] L; [lia|]. cbn [eval]. rewrite IL. unfold loc_of in HL. rewrite HL. reflexivity.
  - (* global *) intros s n v IL HL NN. exists 1. intros [|f] L; [lia|]. cbn [eval]. rewrite IL. unfold rns_get. unfold glob_of in HL. rewrite HL. reflexivity.
  - (* code *) intros s b. exists 1. intros [|f] L; [lia|]. reflexivity.
  - (* array *) intros s l vs s' HL [f0 IH]. exists (S f0). intros [|f] L; [lia|]. rewrite eval_S_arr. rewrite (IH f) by lia. reflexivity.
  - (* pure unary *) intros s n a va v s1 NL HA [f0 IH] HU. exists (S (S f0)). intros [|[|f]] L; try lia.
    rewrite (eval_S_unary _ _ _ _ NL), (IH (S f)) by lia.
    transitivity (eval_unary (S f) s1 (lower n) va (in_scope_f (S f)) plain_scope_f).
    + destruct (pure_unary_arg _ _ _ HU) as [A1 A2]. destruct va; try contradiction; reflexivity.
    + apply pure_unary_ref. exact HU.
  - (* pure binary *) intros s n a b va vb v s1 s2 HA [fa IHa] HB [fb IHb] HBin. exists (S (S (fa + fb))). intros [|[|f]] L; try lia.
    rewrite eval_S_binary, (IHa (S f)), (IHb (S f)) by lia.
    destruct (pure_binary_args _ _ _ _ HBin) as [[A1 A2] [B1 B2]].
    transitivity (eval_binary (S f) s2 (lower n) va vb (in_scope_f (S f)) plain_scope_f);
      [destruct va; try contradiction; destruct vb; try contradiction; reflexivity|].
    apply pure_binary_ref. exact HBin.
  - (* call {..} *) intros s n a b s1 reg s2 HN NL HA [fa IHa] HB [fb IHb]. exists (S (S (fa + fb))). intros [|[|f]] L; try lia.
    rewrite (eval_S_unary _ _ _ _ NL), (IHa (S f)) by lia. rewrite HN.
    change (eval_unary (S f) s1 "call" (RCode b) (in_scope_f (S f)) plain_scope_f)
      with (in_scope_f (S f) s1 (plain_scope_f s1 [("_this", this_of s1)]) b).
    apply in_scope_out. apply IHb. lia.
  - (* x call {..} *) intros s n a x va b s1 s2 reg s3 HN HA [fa IHa] NNa HX [fx IHx] HB [fb IHb]. exists (S (S (fa + fx + fb))). intros [|[|f]] L; try lia.
    rewrite eval_S_binary, (IHa (S f)), (IHx (S f)) by lia.
    rewrite HN.
    transitivity (eval_binary (S f) s2 "call" va (RCode b) (in_scope_f (S f)) plain_scope_f);
      [destruct NNa as [A1 A2]; destruct va; try contradiction; reflexivity|].
    change (eval_binary (S f) s2 "call" va (RCode b) (in_scope_f (S f)) plain_scope_f)
      with (in_scope_f (S f) s2 (plain_scope_f s2 [("_this", va)]) b).
    apply in_scope_out. apply IHb. lia.
  - (* if *) intros s n a c s1 HN NL HA [fa IHa]. exists (S (S fa)). intros [|[|f]] L; try lia.
    rewrite (eval_S_unary _ _ _ _ NL), (IHa (S f)) by lia. rewrite HN. reflexivity.
  - (* else *) intros s n a b x y s1 s2 HN HA [fa IHa] HB [fb IHb]. exists (S (S (fa + fb))). intros [|[|f]] L; try lia.
    rewrite eval_S_binary, (IHa (S f)), (IHb (S f)) by lia. rewrite HN. reflexivity.
  - (* if false then *) intros s n a b x s1 s2 HN HA [fa IHa] HB [fb IHb]. exists (S (S (fa + fb))). intros [|[|f]] L; try lia.
    rewrite eval_S_binary, (IHa (S f)), (IHb (S f)) by lia. rewrite HN. reflexivity.
  - (* if true then *) intros s n a b x s1 s2 reg s3 HN HA [fa IHa] HB [fb IHb] HX [fx IHx]. exists (S (S (fa + fb + fx))). intros [|[|f]] L; try lia.
    rewrite eval_S_binary, (IHa (S f)), (IHb (S f)) by lia. rewrite HN.
    change (match RIf true, RCode x with
            | _, RNone => (OError, s2) | RNil, RNil => (ONormal RNil, s2)
            | _, RNil => (OUnsupported "nil right operand (the implementation then leaves the left operand behind)", s2)
            | RNone, _ => (OError, s2) | RNil, _ => (ONormal RNone, s2)
            | _, _ => eval_binary (S f) s2 "then" (RIf true) (RCode x) (in_scope_f (S f)) plain_scope_f end)
      with (in_scope_f (S f) s2 (plain_scope_f s2 []) x).
    apply in_scope_out. apply IHx. lia.
  - (* if then else *) intros s n a b c x y s1 s2 reg s3 HN HA [fa IHa] HB [fb IHb] HX [fx IHx]. exists (S (S (fa + fb + fx))). intros [|[|f]] L; try lia.
    rewrite eval_S_binary, (IHa (S f)), (IHb (S f)) by lia. rewrite HN.
    change (match RIf c, RArr [RCode x; RCode y] with
            | _, RNone => (OError, s2) | RNil, RNil => (ONormal RNil, s2)
            | _, RNil => (OUnsupported "nil right operand (the implementation then leaves the left operand behind)", s2)
            | RNone, _ => (OError, s2) | RNil, _ => (ONormal RNone, s2)
            | _, _ => eval_binary (S f) s2 "then" (RIf c) (RArr [RCode x; RCode y]) (in_scope_f (S f)) plain_scope_f end)
      with (in_scope_f (S f) s2 (plain_scope_f s2 []) (if c then x else y)).
    apply in_scope_out. apply IHx. lia.
  - (* if false exitWith *) intros s n a b x s1 s2 HN HA [fa IHa] HB [fb IHb]. exists (S (S (fa + fb))). intros [|[|f]] L; try lia.
    rewrite eval_S_binary, (IHa (S f)), (IHb (S f)) by lia. rewrite HN. reflexivity.
  - (* forEach / count [] *) intros s n a x body k s1 s2 HN HK HA [fa IHa] HX [fx IHx]. exists (S (S (fa + fx))). intros [|[|f]] L; try lia.
    rewrite eval_S_binary, (IHa (S f)), (IHx (S f)) by lia. rewrite <- HN.
    change (eval_binary (S f) s2 (kname k) (RCode body) (RArr []) (in_scope_f (S f)) plain_scope_f = (ONormal (kinit k), s2)).
    rewrite (eval_binary_loop_ca f (S f) s2 k body [] HK). reflexivity.
  - (* [] apply / select / findIf *) intros s n a x body k s1 s2 HN HK HA [fa IHa] HX [fx IHx]. exists (S (S (fa + fx))). intros [|[|f]] L; try lia.
    rewrite eval_S_binary, (IHa (S f)), (IHx (S f)) by lia. rewrite <- HN.
    change (eval_binary (S f) s2 (kname k) (RArr []) (RCode body) (in_scope_f (S f)) plain_scope_f = (ONormal (kinit k), s2)).
    rewrite (eval_binary_loop_ac f (S f) s2 k body [] HK). reflexivity.
  - (* forEach / count *) intros s n a x body x0 arr k s1 s2 acc s3 HN HK LF HA [fa IHa] HX [fx IHx] HI [fi IHi]. exists (S (S (fa + fx + fi))).
    intros [|f] L; [lia|]. rewrite eval_S_binary, (IHa f), (IHx f) by lia. rewrite <- HN.
    destruct f as [|f]; [lia|].
    change (eval_binary (S f) s2 (kname k) (RCode body) (RArr (x0 :: arr)) (in_scope_f (S f)) plain_scope_f = (ONormal acc, s3)).
    rewrite (eval_binary_loop_ca f (S f) s2 k body _ HK). apply IHi; [lia|cbn; lia].
  - (* apply / select / findIf *) intros s n a x body x0 arr k s1 s2 acc s3 HN HK LF HA [fa IHa] HX [fx IHx] HI [fi IHi]. exists (S (S (fa + fx + fi))).
    intros [|f] L; [lia|]. rewrite eval_S_binary, (IHa f), (IHx f) by lia. rewrite <- HN.
    destruct f as [|f]; [lia|].
    change (eval_binary (S f) s2 (kname k) (RArr (x0 :: arr)) (RCode body) (in_scope_f (S f)) plain_scope_f = (ONormal acc, s3)).
    rewrite (eval_binary_loop_ac f (S f) s2 k body _ HK). apply IHi; [lia|cbn; lia].
  - (* lazy operator, right side not needed *) intros s n a b x sk s1 s2 HN HA [fa IHa] HB [fb IHb]. exists (S (S (fa + fb))). intros [|[|f]] L; try lia.
    rewrite eval_S_binary, (IHa (S f)), (IHb (S f)) by lia.
    exact (proj2 (lazy_ref _ sk f (S f) s2 x HN)).
  - (* lazy operator, right side evaluated *) intros s n a b x sk s1 s2 out s3 HN HA [fa IHa] HB [fb IHb] HX [fx IHx]. exists (S (S (fa + fb + fx))). intros [|[|f]] L; try lia.
    rewrite eval_S_binary, (IHa (S f)), (IHb (S f)) by lia.
    transitivity (eval_binary (S f) s2 (lower n) (RBool (negb sk)) (RCode x) (in_scope_f (S f)) plain_scope_f); [reflexivity|].
    rewrite (proj1 (lazy_ref _ sk f (S f) s2 x HN)). apply in_scope_out. apply IHx. lia.
  - (* for "_i" *) intros s n a var s1 HN NL HA [fa IHa]. exists (S (S fa)). intros [|[|f]] L; try lia.
    rewrite (eval_S_unary _ _ _ _ NL), (IHa (S f)) by lia. rewrite HN. reflexivity.
  - (* from / to / step *) intros s n a b var fr to st x fr' to' st' s1 s2 HN HA [fa IHa] HB [fb IHb]. exists (S (S (fa + fb))). intros [|[|f]] L; try lia.
    rewrite eval_S_binary, (IHa (S f)), (IHb (S f)) by lia.
    exact (for_set_ref _ var fr to st x fr' to' st' f (S f) s2 HN).
  - (* for over an empty range *) intros s n a b var fr to st body s1 s2 HN HA [fa IHa] HB [fb IHb] HE. exists (S (S (fa + fb))). intros [|[|f]] L; try lia.
    rewrite eval_S_binary, (IHa (S f)), (IHb (S f)) by lia. rewrite HN.
    transitivity (eval_binary (S f) s2 "do" (RFor var fr to st) (RCode body) (in_scope_f (S f)) plain_scope_f); [reflexivity|].
    rewrite eval_binary_for, HE. reflexivity.
  - (* for *) intros s n a b var fr to st body s1 s2 acc s3 HN HA [fa IHa] HB [fb IHb] HE LF HI (fi & ki & IHi). exists (S (S (fa + fb + fi + ki))).
    intros [|f] L; [lia|]. rewrite eval_S_binary, (IHa f), (IHb f) by lia. rewrite HN.
    destruct f as [|f]; [lia|].
    transitivity (eval_binary (S f) s2 "do" (RFor var fr to st) (RCode body) (in_scope_f (S f)) plain_scope_f); [reflexivity|].
    rewrite eval_binary_for, HE. apply IHi; lia.
  - (* while {..} *) intros s n a cond s1 HN NL HA [fa IHa]. exists (S (S fa)). intros [|[|f]] L; try lia.
    rewrite (eval_S_unary _ _ _ _ NL), (IHa (S f)) by lia. rewrite HN. apply eval_unary_while.
  - (* while {..} do {..} *) intros s n a b cond body s1 s2 v s3 HN HA [fa IHa] HB [fb IHb] LFc LFb HW (fw & kw & IHw). exists (S (S (fa + fb + fw + kw))).
    intros [|f] L; [lia|]. rewrite eval_S_binary, (IHa f), (IHb f) by lia. rewrite HN.
    destruct f as [|f]; [lia|].
    destruct (leaf_first_cons _ LFc) as (st & crest & ->).
    transitivity (eval_binary (S f) s2 "do" (RWhile (st :: crest)) (RCode body) (in_scope_f (S f)) plain_scope_f); [reflexivity|].
    rewrite eval_binary_while. apply IHw; [lia|lia|reflexivity].
  - (* diag_log *) intros s n a va t s1 HN NL HA [fa IHa] NNa HS. exists (S (S fa)). intros [|[|f]] L; try lia.
    rewrite (eval_S_unary _ _ _ _ NL), (IHa (S f)) by lia. rewrite HN.
    transitivity (eval_unary (S f) s1 "diag_log" va (in_scope_f (S f)) plain_scope_f);
      [destruct NNa as [A1 A2]; destruct va; try contradiction; reflexivity|].
    unfold eval_unary. cbn [String.eqb Ascii.eqb Bool.eqb]. rewrite HS. reflexivity.
  - (* missionNamespace, uiNamespace *) intros s n ns HN. exists 1. intros [|f] L; [lia|]. cbn [eval]. unfold ns_nular in HN.
    destruct (String.eqb (lower n) "nil") eqn:E0. { apply String.eqb_eq in E0. rewrite E0 in HN. discriminate HN. }
    destruct (String.eqb (lower n) "missionnamespace"); [inversion HN; reflexivity|].
    destruct (String.eqb (lower n) "uinamespace"); [inversion HN; reflexivity|discriminate HN].
  - (* with ns *) intros s n a ns s1 HN NL HA [fa IHa]. exists (S (S fa)). intros [|[|f]] L; try lia.
    rewrite (eval_S_unary _ _ _ _ NL), (IHa (S f)) by lia. rewrite HN. reflexivity.
  - (* with ns do {..} *) intros s n a b ns body s1 s2 out s3 HN HA [fa IHa] HB [fb IHb] HX [fx IHx]. exists (S (S (fa + fb + fx))). intros [|[|f]] L; try lia.
    rewrite eval_S_binary, (IHa (S f)), (IHb (S f)) by lia. rewrite HN.
    transitivity (in_scope_f (S f) s2 (mk_scope ns []) body); [reflexivity|].
    apply in_scope_out. apply IHx. lia.
  - (* getVariable, bound *) intros s n a b ns x s1 s2 v HN HA [fa IHa] HB [fb IHb] HG NV. exists (S (S (fa + fb))). intros [|[|f]] L; try lia.
    rewrite eval_S_binary, (IHa (S f)), (IHb (S f)) by lia. rewrite HN.
    transitivity (eval_binary (S f) s2 "getvariable" (RNs ns) (RStr x) (in_scope_f (S f)) plain_scope_f); [reflexivity|].
    unfold eval_binary. cbn [String.eqb Ascii.eqb Bool.eqb]. rewrite HG. reflexivity.
  - (* getVariable, not bound *) intros s n a b ns x s1 s2 HN HA [fa IHa] HB [fb IHb] HG. exists (S (S (fa + fb))). intros [|[|f]] L; try lia.
    rewrite eval_S_binary, (IHa (S f)), (IHb (S f)) by lia. rewrite HN.
    transitivity (eval_binary (S f) s2 "getvariable" (RNs ns) (RStr x) (in_scope_f (S f)) plain_scope_f); [reflexivity|].
    unfold eval_binary. cbn [String.eqb Ascii.eqb Bool.eqb]. rewrite HG. reflexivity.
  - (* setVariable *) intros s n a b ns x v s1 s2 HN HA [fa IHa] HB [fb IHb]. exists (S (S (fa + fb))). intros [|[|f]] L; try lia.
    rewrite eval_S_binary, (IHa (S f)), (IHb (S f)) by lia. rewrite HN. reflexivity.
  - (* private "x" *) intros s n a x s1 HN NL HA [fa IHa] HH. exists (S (S fa)). intros [|[|f]] L; try lia.
    rewrite (eval_S_unary _ _ _ _ NL), (IHa (S f)) by lia. rewrite HN. reflexivity.
  - (* try {..} *) intros s n a b s1 HN NL HA [fa IHa]. exists (S (S fa)). intros [|[|f]] L; try lia.
    rewrite (eval_S_unary _ _ _ _ NL), (IHa (S f)) by lia. rewrite HN. reflexivity.
  - (* try {..} catch {..}, no throw *) intros s n a b body h s1 s2 out s3 HN HA [fa IHa] HB [fb IHb] HX [fx IHx]. exists (S (S (fa + fb + fx))). intros [|[|f]] L; try lia.
    rewrite eval_S_binary, (IHa (S f)), (IHb (S f)) by lia. rewrite HN.
    transitivity (eval_binary (S f) s2 "catch" (RTry body) (RCode h) (in_scope_f (S f)) plain_scope_f); [reflexivity|].
    rewrite eval_binary_catch. change (push_scope s2 (plain_scope_f s2 [])) with (enter s2 []). rewrite (IHx f) by lia.
    apply catch_after_out.
  - (* try {.. throw ..} catch {..} *) intros s n a b body h s1 s2 x s3 out s4 HN HA [fa IHa] HB [fb IHb] HX [fx IHx] HH [fh IHh].
    exists (S (S (fa + fb + fx + fh))). intros [|[|f]] L; try lia.
    rewrite eval_S_binary, (IHa (S f)), (IHb (S f)) by lia. rewrite HN.
    transitivity (eval_binary (S f) s2 "catch" (RTry body) (RCode h) (in_scope_f (S f)) plain_scope_f); [reflexivity|].
    rewrite eval_binary_catch. change (push_scope s2 (plain_scope_f s2 [])) with (enter s2 []). rewrite (IHx f) by lia.
    rewrite catch_after_throw, (IHh f) by lia. apply handler_after_out.
  - (* scopeName "t" *) intros s n a t s1 sc scs HN NL HA [fa IHa] ES EN. exists (S (S fa)). intros [|[|f]] L; try lia.
    rewrite (eval_S_unary _ _ _ _ NL), (IHa (S f)) by lia. rewrite HN.
    unfold eval_unary. cbn [String.eqb Ascii.eqb Bool.eqb]. rewrite ES, EN. reflexivity.
  - (* call {.. breakOut own name ..} *) intros s n a b s1 t v s2 HN NL HA [fa IHa] HK [fk IHk] TN. exists (S (S (fa + fk))). intros [|[|f]] L; try lia.
    rewrite (eval_S_unary _ _ _ _ NL), (IHa (S f)) by lia. rewrite HN.
    change (eval_unary (S f) s1 "call" (RCode b) (in_scope_f (S f)) plain_scope_f)
      with (in_scope_f (S f) s1 (plain_scope_f s1 [("_this", this_of s1)]) b).
    eapply (in_scope_break_caught _ _ _ _ t); [apply IHk; lia|exact (proj1 (zbreak_facts _ _ _ _ _ _ HK))|exact TN].
  - (* if true then {.. breakOut own name ..} *) intros s n a b blk s1 s2 t v s3 HN HA [fa IHa] HB [fb IHb] HK [fk IHk] TN.
    exists (S (S (fa + fb + fk))). intros [|[|f]] L; try lia.
    rewrite eval_S_binary, (IHa (S f)), (IHb (S f)) by lia. rewrite HN.
    transitivity (in_scope_f (S f) s2 (plain_scope_f s2 []) blk); [reflexivity|].
    eapply (in_scope_break_caught _ _ _ _ t); [apply IHk; lia|exact (proj1 (zbreak_facts _ _ _ _ _ _ HK))|exact TN].
  - (* if c then {..} else {..}, own name *) intros s n a b c x0 y0 s1 s2 t v s3 HN HA [fa IHa] HB [fb IHb] HK [fk IHk] TN.
    exists (S (S (fa + fb + fk))). intros [|[|f]] L; try lia.
    rewrite eval_S_binary, (IHa (S f)), (IHb (S f)) by lia. rewrite HN.
    transitivity (in_scope_f (S f) s2 (plain_scope_f s2 []) (if c then x0 else y0)); [reflexivity|].
    eapply (in_scope_break_caught _ _ _ _ t); [apply IHk; lia|exact (proj1 (zbreak_facts _ _ _ _ _ _ HK))|exact TN].
  - (* switch v *) intros s n a v s1 HN NL HA [fa IHa] NNv. exists (S (S fa)). intros [|[|f]] L; try lia.
    rewrite (eval_S_unary _ _ _ _ NL), (IHa (S f)) by lia. rewrite HN.
    destruct NNv as [A1 A2]. destruct v; try contradiction; reflexivity.
  - (* switch v do {..}, no block chosen *) intros s n a b v body s1 s2 sw HN HA [fa IHa] HB [fb IHb] HW HT.
    destruct (switch_body_ref _ _ _ _ HW) as [fw IHw].
    exists (S (S (fa + fb + fw))). intros [|[|f]] L; try lia.
    rewrite eval_S_binary, (IHa (S f)), (IHb (S f)) by lia. rewrite HN.
    transitivity (eval_binary (S f) s2 "do" (RSwitch v) (RCode body) (in_scope_f (S f)) plain_scope_f); [reflexivity|].
    rewrite eval_binary_switch. change (push_scope s2 (plain_scope_f s2 [])) with (enter s2 []). rewrite (IHw f) by lia.
    cbn [switch_after]. rewrite pop_enter. destruct HT as [-> | ->]; reflexivity.
  - (* switch v do {..}, the chosen block runs *) intros s n a b v body s1 s2 sw t ts reg s4 HN HA [fa IHa] HB [fb IHb] HW HT LF HK [fk IHk].
    destruct (switch_body_ref _ _ _ _ HW) as [fw IHw].
    exists (S (S (fa + fb + fw + fk))). intros [|[|f]] L; try lia.
    rewrite eval_S_binary, (IHa (S f)), (IHb (S f)) by lia. rewrite HN.
    transitivity (eval_binary (S f) s2 "do" (RSwitch v) (RCode body) (in_scope_f (S f)) plain_scope_f); [reflexivity|].
    rewrite eval_binary_switch. change (push_scope s2 (plain_scope_f s2 [])) with (enter s2 []). rewrite (IHw f) by lia.
    cbn [switch_after]. rewrite HT. rewrite (IHk f) by lia. cbn [oc]. destruct reg; reflexivity.
  - (* switch v do {..}, the chosen block is left by exitWith *) intros s n a b v body s1 s2 sw t ts x s4 HN HA [fa IHa] HB [fb IHb] HW HT LF HK [fk IHk].
    destruct (switch_body_ref _ _ _ _ HW) as [fw IHw].
    exists (S (S (fa + fb + fw + fk))). intros [|[|f]] L; try lia.
    rewrite eval_S_binary, (IHa (S f)), (IHb (S f)) by lia. rewrite HN.
    transitivity (eval_binary (S f) s2 "do" (RSwitch v) (RCode body) (in_scope_f (S f)) plain_scope_f); [reflexivity|].
    rewrite eval_binary_switch. change (push_scope s2 (plain_scope_f s2 [])) with (enter s2 []). rewrite (IHw f) by lia.
    cbn [switch_after]. rewrite HT. rewrite (IHk f) by lia. reflexivity.
  - (* switch v do {..}, the chosen block breaks out of the switch's own scope *) intros s n a b v body s1 s2 sw t ts t0 x s4 HN HA [fa IHa] HB [fb IHb] HW HT LF HK [fk IHk] TN.
    destruct (switch_body_ref _ _ _ _ HW) as [fw IHw].
    exists (S (S (fa + fb + fw + fk))). intros [|[|f]] L; try lia.
    rewrite eval_S_binary, (IHa (S f)), (IHb (S f)) by lia. rewrite HN.
    transitivity (eval_binary (S f) s2 "do" (RSwitch v) (RCode body) (in_scope_f (S f)) plain_scope_f); [reflexivity|].
    rewrite eval_binary_switch. change (push_scope s2 (plain_scope_f s2 [])) with (enter s2 []). rewrite (IHw f) by lia.
    cbn [switch_after]. rewrite HT. rewrite (IHk f) by lia. exact (break_own_f t0 x s4 (proj1 (zbreak_facts _ _ _ _ _ _ HK)) TN).
  - (* no elements *) intros s. exists 0. intros f _ acc. cbn. rewrite app_nil_r. reflexivity.
  - (* elements *) intros s e v s1 l vs s2 HE [fe IHe] NN HL [fl IHl]. exists (fe + fl). intros f L acc.
    cbn [go_arr]. rewrite (IHe f) by lia. fold (go_arr f).
    transitivity (go_arr f s1 l (v :: acc)).
    + destruct NN as [A1 A2]. destruct v; try contradiction; reflexivity.
    + rewrite (IHl f) by lia. cbn [rev]. rewrite <- app_assoc. reflexivity.
  - (* expression statement *) intros s reg e v s1 HE [fe IHe]. exists fe. intros f L rest. cbn [eval_block]. rewrite (IHe f L).
    pose proof (zev_not_none _ _ _ _ HE) as NN. unfold cont. destruct v; try contradiction; reflexivity.
  - (* assignment *) intros s reg n e v s1 NN HH HE [fe IHe] NV. exists fe. intros f L rest. cbn [eval_block]. rewrite (IHe f L).
    destruct NV as [A1 A2]. unfold cont. destruct v; try contradiction; reflexivity.
  - (* private *) intros s reg n e v s1 NN HE [fe IHe] NV. exists fe. intros f L rest. cbn [eval_block]. rewrite (IHe f L).
    destruct NV as [A1 A2]. unfold cont. destruct v; try contradiction; reflexivity.
  - (* empty block *) intros s reg. exists 1. intros [|f] L; [lia|]. reflexivity.
  - (* last statement *) intros s reg st reg1 s1 HS [fs IHs]. exists (S fs). intros [|f] L; [lia|]. rewrite (IHs f) by lia. reflexivity.
  - (* statement; block *) intros s reg st reg1 s1 st2 rest out s' HS [fs IHs] HB [fb IHb]. exists (S (fs + fb)). intros [|f] L; [lia|].
    rewrite (IHs f) by lia. unfold cont. apply IHb. lia.
  - (* exitWith *) intros s reg n l x b s1 s2 out s3 rest HN HL [fl IHl] HX [fx IHx] HB [fb IHb]. exists (S (S (S (fl + fx + fb)))).
    intros [|f] L; [lia|]. cbn [eval_block].
    destruct f as [|f]; [lia|]. rewrite eval_S_binary, (IHl f), (IHx f) by lia. rewrite HN.
    destruct f as [|f]; [lia|].
    rewrite eval_binary_exitwith.
    rewrite (in_scope_out (S f) s2 (plain_scope_f s2 []) b out s3) by (apply IHb; lia).
    reflexivity.
  - (* expression left by exitWith *) intros s reg e v s1 rest HX [fx IHx]. exists (S fx). intros [|f] L; [lia|].
    cbn [eval_block]. rewrite (IHx f) by lia. reflexivity.
  - (* x = e left by exitWith *) intros s reg n e v s1 rest HX [fx IHx]. exists (S fx). intros [|f] L; [lia|].
    cbn [eval_block]. rewrite (IHx f) by lia. reflexivity.
  - (* private _x = e left by exitWith *) intros s reg n e v s1 rest HX [fx IHx]. exists (S fx). intros [|f] L; [lia|].
    cbn [eval_block]. rewrite (IHx f) by lia. reflexivity.
  - (* no more rounds *) intros k s i body acc. exists 0. intros f _ [|kk] L; [cbn in L; lia|]. reflexivity.
  - (* a round, then the rest *) intros k s x rest0 i body acc reg s1 acc1 acc' s' HB [fb IHb] KS KO HI [fi IHi]. exists (fb + fi).
    intros f L [|kk] LK; [lia|]. cbn [iterate_f]. fold (iterate_f f). rewrite kvars_iter.
    change (push_scope s (plain_scope_f s (kvars k i x))) with (enter s (kvars k i x)).
    rewrite (IHb f) by lia. cbn [oc]. rewrite KS.
    apply IHi; [lia|cbn in LK; lia].
  - (* a round after which the loop stops *) intros k s x rest0 i body acc reg s1 acc1 HB [fb IHb] KS KO. exists fb.
    intros f L [|kk] LK; [lia|]. cbn [iterate_f]. fold (iterate_f f). rewrite kvars_iter.
    change (push_scope s (plain_scope_f s (kvars k i x))) with (enter s (kvars k i x)).
    rewrite (IHb f) by lia. cbn [oc]. rewrite KS. reflexivity.
  - (* a round left by exitWith *) intros k s x rest0 i body acc v s1 HB [fb IHb]. exists fb.
    intros f L [|kk] LK; [lia|]. cbn [iterate_f]. fold (iterate_f f). rewrite kvars_iter.
    change (push_scope s (plain_scope_f s (kvars k i x))) with (enter s (kvars k i x)).
    rewrite (IHb f) by lia. reflexivity.
  - (* a round left by breakOut to its own name *) intros k s x rest0 i body acc t v s1 HK [fk IHk] TN. exists fk.
    intros f L [|kk] LK; [lia|]. cbn [iterate_f]. fold (iterate_f f). rewrite kvars_iter.
    change (push_scope s (plain_scope_f s (kvars k i x))) with (enter s (kvars k i x)).
    rewrite (IHk f) by lia. exact (break_own_f t v s1 (proj1 (zbreak_facts _ _ _ _ _ _ HK)) TN).
  - (* a round of for, then the rest *) intros var to st s x first body reg s1 y acc' s' HB [fb IHb] HV TV BY HI (fi & ki & IHi). exists (fb + fi), (S ki).
    intros f L [|k] LK; [lia|]. cbn [for_loop_f]. fold (for_loop_f f var to st body).
    change (push_scope s (plain_scope_f s [(lower var, RNum x)])) with (enter s [(lower var, RNum x)]).
    rewrite (IHb f) by lia. cbn [oc]. unfold top_var in TV. destruct (st_scopes s1) as [|sc scs] eqn:ES; [discriminate TV|]. rewrite TV.
    unfold beyond in BY. cbv zeta. rewrite BY. apply IHi; lia.
  - (* the last round of for *) intros var to st s x first body reg s1 y HB [fb IHb] HV TV BY. exists fb, 1.
    intros f L [|k] LK; [lia|]. cbn [for_loop_f]. fold (for_loop_f f var to st body).
    change (push_scope s (plain_scope_f s [(lower var, RNum x)])) with (enter s [(lower var, RNum x)]).
    rewrite (IHb f) by lia. cbn [oc]. unfold top_var in TV. destruct (st_scopes s1) as [|sc scs] eqn:ES; [discriminate TV|]. rewrite TV.
    unfold beyond in BY. cbv zeta. rewrite BY. reflexivity.
  - (* a round of for left by exitWith *) intros var to st s x first body v s1 HB [fb IHb]. exists fb, 1.
    intros f L [|k] LK; [lia|]. cbn [for_loop_f]. fold (for_loop_f f var to st body).
    change (push_scope s (plain_scope_f s [(lower var, RNum x)])) with (enter s [(lower var, RNum x)]).
    rewrite (IHb f) by lia. reflexivity.
  - (* a round of for left by breakOut to its own name *) intros var to st s x first body t v s1 HK [fk IHk] TN. exists fk, 1.
    intros f L [|k] LK; [lia|]. cbn [for_loop_f]. fold (for_loop_f f var to st body).
    change (push_scope s (plain_scope_f s [(lower var, RNum x)])) with (enter s [(lower var, RNum x)]).
    rewrite (IHk f) by lia. exact (break_own_f t v s1 (proj1 (zbreak_facts _ _ _ _ _ _ HK)) TN).
  - (* while: the condition comes out false *) intros cond body s first s1 HC [fc IHc]. exists fc, 1.
    intros f L [|k] LK n Hn; [lia|]. cbn [while_loop_f]. fold (while_loop_f f cond body).
    change (push_scope s (plain_scope_f s [])) with (enter s []).
    replace (match n with O => RNil | _ => RNone end) with (if first then RNil else RNone) by (subst first; destruct n; reflexivity).
    rewrite (IHc f) by lia. reflexivity.
  - (* while: a round, then the rest *) intros cond body s first s1 reg s2 v s' HC [fc IHc] HB [fb IHb] HW (fw & kw & IHw). exists (fc + fb + fw), (S kw).
    intros f L [|k] LK n Hn; [lia|]. cbn [while_loop_f]. fold (while_loop_f f cond body).
    change (push_scope s (plain_scope_f s [])) with (enter s []).
    replace (match n with O => RNil | _ => RNone end) with (if first then RNil else RNone) by (subst first; destruct n; reflexivity).
    rewrite (IHc f) by lia. cbn [oc]. rewrite (IHb f) by lia. cbn [oc]. apply IHw; [lia|lia|reflexivity].
  - (* while: the condition is left by exitWith *) intros cond body s first v s1 HC [fc IHc]. exists fc, 1.
    intros f L [|k] LK n Hn; [lia|]. cbn [while_loop_f]. fold (while_loop_f f cond body).
    change (push_scope s (plain_scope_f s [])) with (enter s []).
    replace (match n with O => RNil | _ => RNone end) with (if first then RNil else RNone) by (subst first; destruct n; reflexivity).
    rewrite (IHc f) by lia. reflexivity.
  - (* while: the body is left by exitWith *) intros cond body s first s1 v s2 HC [fc IHc] HB [fb IHb]. exists (fc + fb), 1.
    intros f L [|k] LK n Hn; [lia|]. cbn [while_loop_f]. fold (while_loop_f f cond body).
    change (push_scope s (plain_scope_f s [])) with (enter s []).
    replace (match n with O => RNil | _ => RNone end) with (if first then RNil else RNone) by (subst first; destruct n; reflexivity).
    rewrite (IHc f) by lia. cbn [oc]. rewrite (IHb f) by lia. reflexivity.
  - (* while: the condition is left by breakOut to the loop's own name *) intros cond body s first t v s1 HK [fk IHk] TN. exists fk, 1.
    intros f L [|k] LK n Hn; [lia|]. cbn [while_loop_f]. fold (while_loop_f f cond body).
    change (push_scope s (plain_scope_f s [])) with (enter s []).
    replace (match n with O => RNil | _ => RNone end) with (if first then RNil else RNone) by (subst first; destruct n; reflexivity).
    rewrite (IHk f) by lia. exact (break_own_f t v s1 (proj1 (zbreak_facts _ _ _ _ _ _ HK)) TN).
  - (* while: the body is left by breakOut to the loop's own name *) intros cond body s first s1 t v s2 HC [fc IHc] HK [fk IHk] TN. exists (fc + fk), 1.
    intros f L [|k] LK n Hn; [lia|]. cbn [while_loop_f]. fold (while_loop_f f cond body).
    change (push_scope s (plain_scope_f s [])) with (enter s []).
    replace (match n with O => RNil | _ => RNone end) with (if first then RNil else RNone) by (subst first; destruct n; reflexivity).
    rewrite (IHc f) by lia. cbn [oc]. rewrite (IHk f) by lia. exact (break_own_f t v s2 (proj1 (zbreak_facts _ _ _ _ _ _ HK)) TN).
  - (* throw: a statement, then the rest *) intros s reg st reg1 s1 st2 rest x s' HS [fs IHs] HT [ft IHt]. exists (S (fs + ft)). intros [|f] L; [lia|].
    rewrite (IHs f) by lia. unfold cont. apply IHt. lia.
  - (* throw v *) intros s reg n e v s1 rest HN NL HE [fe IHe] NNv. exists (S (S (S fe))). intros [|f] L; [lia|]. cbn [eval_block].
    destruct f as [|f]; [lia|]. rewrite (eval_S_unary _ _ _ _ NL), (IHe f) by lia. rewrite HN.
    destruct f as [|f]; [lia|]. destruct NNv as [A1 A2]. destruct v; try contradiction; reflexivity.
  - (* if true throw v *) intros s reg n a b v s1 s2 rest HN HA [fa IHa] HB [fb IHb] NNv. exists (S (S (S (fa + fb)))). intros [|f] L; [lia|]. cbn [eval_block].
    destruct f as [|f]; [lia|]. rewrite eval_S_binary, (IHa f), (IHb f) by lia. rewrite HN.
    destruct f as [|f]; [lia|]. destruct NNv as [A1 A2]. destruct v; try contradiction; reflexivity.
  - (* call {.. throw ..} *) intros s reg n a b s1 x s2 rest HN NL HA [fa IHa] HT [ft IHt]. exists (S (S (S (fa + ft)))). intros [|f] L; [lia|]. cbn [eval_block].
    destruct f as [|f]; [lia|]. rewrite (eval_S_unary _ _ _ _ NL), (IHa f) by lia. rewrite HN.
    destruct f as [|f]; [lia|].
    change (eval_unary (S f) s1 "call" (RCode b) (in_scope_f (S f)) plain_scope_f)
      with (in_scope_f (S f) s1 (plain_scope_f s1 [("_this", this_of s1)]) b).
    rewrite (in_scope_throw (S f) s1 _ b x s2) by (apply IHt; lia). reflexivity.
  - (* if true then {.. throw ..} *) intros s reg n a b blk s1 s2 x s3 rest HN HA [fa IHa] HB [fb IHb] HT [ft IHt]. exists (S (S (S (fa + fb + ft)))).
    intros [|f] L; [lia|]. cbn [eval_block].
    destruct f as [|f]; [lia|]. rewrite eval_S_binary, (IHa f), (IHb f) by lia. rewrite HN.
    destruct f as [|f]; [lia|].
    change (eval_binary (S f) s2 "then" (RIf true) (RCode blk) (in_scope_f (S f)) plain_scope_f)
      with (in_scope_f (S f) s2 (plain_scope_f s2 []) blk).
    rewrite (in_scope_throw (S f) s2 _ blk x s3) by (apply IHt; lia). reflexivity.
  - (* if c then {..} else {..}, the chosen block throws *) intros s reg n a b c x0 y0 s1 s2 x s3 rest HN HA [fa IHa] HB [fb IHb] HT [ft IHt].
    exists (S (S (S (fa + fb + ft)))). intros [|f] L; [lia|]. cbn [eval_block].
    destruct f as [|f]; [lia|]. rewrite eval_S_binary, (IHa f), (IHb f) by lia. rewrite HN.
    destruct f as [|f]; [lia|].
    change (eval_binary (S f) s2 "then" (RIf c) (RArr [RCode x0; RCode y0]) (in_scope_f (S f)) plain_scope_f)
      with (in_scope_f (S f) s2 (plain_scope_f s2 []) (if c then x0 else y0)).
    rewrite (in_scope_throw (S f) s2 _ (if c then x0 else y0) x s3) by (apply IHt; lia). reflexivity.
  - (* try {.. throw ..} catch {.. throw ..} *) intros s reg n a b body h s1 s2 x s3 y s4 rest HN HA [fa IHa] HB [fb IHb] HX [fx IHx] HY [fy IHy].
    exists (S (S (S (fa + fb + fx + fy)))). intros [|f] L; [lia|]. cbn [eval_block].
    destruct f as [|f]; [lia|]. rewrite eval_S_binary, (IHa f), (IHb f) by lia. rewrite HN.
    destruct f as [|f]; [lia|].
    rewrite eval_binary_catch. change (push_scope s2 (plain_scope_f s2 [])) with (enter s2 []). rewrite (IHx f) by lia.
    rewrite catch_after_throw, (IHy f) by lia. rewrite handler_after_throw. reflexivity.
  - (* a loop standing as a statement is left by a throw *) intros s reg e y s3 rest HL [fl IHl]. exists (S fl). intros [|f] L; [lia|].
    cbn [eval_block]. rewrite (IHl f) by lia. reflexivity.
  - (* x = e left by a throw *) intros s reg n e y s3 rest HL [fl IHl]. exists (S fl). intros [|f] L; [lia|].
    cbn [eval_block]. rewrite (IHl f) by lia. reflexivity.
  - (* private _x = e left by a throw *) intros s reg n e y s3 rest HL [fl IHl]. exists (S fl). intros [|f] L; [lia|].
    cbn [eval_block]. rewrite (IHl f) by lia. reflexivity.
  - (* breakOut: a statement, then the rest *) intros s reg st reg1 s1 st2 rest t v s' HS [fs IHs] HK [fk IHk]. exists (S (fs + fk)). intros [|f] L; [lia|].
    rewrite (IHs f) by lia. unfold cont. apply IHk. lia.
  - (* breakOut "t" *) intros s reg n e t s1 rest HN NL HE [fe IHe] NT. exists (S (S (S fe))). intros [|f] L; [lia|]. cbn [eval_block].
    destruct f as [|f]; [lia|]. rewrite (eval_S_unary _ _ _ _ NL), (IHe f) by lia. rewrite HN.
    destruct f as [|f]; [lia|]. reflexivity.
  - (* v breakOut "t" *) intros s reg n a b v t s1 s2 rest HN HA [fa IHa] NNv HB [fb IHb] NT. exists (S (S (S (fa + fb)))). intros [|f] L; [lia|]. cbn [eval_block].
    destruct f as [|f]; [lia|]. rewrite eval_S_binary, (IHa f), (IHb f) by lia. rewrite HN.
    destruct f as [|f]; [lia|]. destruct NNv as [A1 A2]. destruct v; try contradiction; reflexivity.
  - (* call {.. breakOut ..}, passing through *) intros s reg n a b s1 t v s2 rest HN NL HA [fa IHa] HK [fk IHk] TN. exists (S (S (S (fa + fk)))). intros [|f] L; [lia|]. cbn [eval_block].
    destruct f as [|f]; [lia|]. rewrite (eval_S_unary _ _ _ _ NL), (IHa f) by lia. rewrite HN.
    destruct f as [|f]; [lia|].
    change (eval_unary (S f) s1 "call" (RCode b) (in_scope_f (S f)) plain_scope_f)
      with (in_scope_f (S f) s1 (plain_scope_f s1 [("_this", this_of s1)]) b).
    rewrite (in_scope_break_pass (S f) s1 _ b t v s2) by (try (apply IHk; lia); exact TN). reflexivity.
  - (* if true then {.. breakOut ..}, passing through *) intros s reg n a b blk s1 s2 t v s3 rest HN HA [fa IHa] HB [fb IHb] HK [fk IHk] TN.
    exists (S (S (S (fa + fb + fk)))). intros [|f] L; [lia|]. cbn [eval_block].
    destruct f as [|f]; [lia|]. rewrite eval_S_binary, (IHa f), (IHb f) by lia. rewrite HN.
    destruct f as [|f]; [lia|].
    change (eval_binary (S f) s2 "then" (RIf true) (RCode blk) (in_scope_f (S f)) plain_scope_f)
      with (in_scope_f (S f) s2 (plain_scope_f s2 []) blk).
    rewrite (in_scope_break_pass (S f) s2 _ blk t v s3) by (try (apply IHk; lia); exact TN). reflexivity.
  - (* if c then {..} else {..}, passing through *) intros s reg n a b c x0 y0 s1 s2 t v s3 rest HN HA [fa IHa] HB [fb IHb] HK [fk IHk] TN.
    exists (S (S (S (fa + fb + fk)))). intros [|f] L; [lia|]. cbn [eval_block].
    destruct f as [|f]; [lia|]. rewrite eval_S_binary, (IHa f), (IHb f) by lia. rewrite HN.
    destruct f as [|f]; [lia|].
    change (eval_binary (S f) s2 "then" (RIf c) (RArr [RCode x0; RCode y0]) (in_scope_f (S f)) plain_scope_f)
      with (in_scope_f (S f) s2 (plain_scope_f s2 []) (if c then x0 else y0)).
    rewrite (in_scope_break_pass (S f) s2 _ (if c then x0 else y0) t v s3) by (try (apply IHk; lia); exact TN). reflexivity.
  - (* a loop standing as a statement is left by breakOut *) intros s reg e t v s3 rest HL [fl IHl]. exists (S fl). intros [|f] L; [lia|].
    cbn [eval_block]. rewrite (IHl f) by lia. reflexivity.
  - (* x = e left by breakOut *) intros s reg n e t v s3 rest HL [fl IHl]. exists (S fl). intros [|f] L; [lia|].
    cbn [eval_block]. rewrite (IHl f) by lia. reflexivity.
  - (* private _x = e left by breakOut *) intros s reg n e t v s3 rest HL [fl IHl]. exists (S fl). intros [|f] L; [lia|].
    cbn [eval_block]. rewrite (IHl f) by lia. reflexivity.
  - (* forEach / count is left *) intros s n a x body x0 arr k s1 s2 ab s3 HN HK LF HA [fa IHa] HX [fx IHx] HI [fi IHi]. exists (S (S (fa + fx + fi))).
    intros [|f] L; [lia|]. rewrite eval_S_binary, (IHa f), (IHx f) by lia. rewrite <- HN.
    destruct f as [|f]; [lia|].
    change (eval_binary (S f) s2 (kname k) (RCode body) (RArr (x0 :: arr)) (in_scope_f (S f)) plain_scope_f = (oa ab, s3)).
    rewrite (eval_binary_loop_ca f (S f) s2 k body _ HK). apply IHi; [lia|cbn; lia].
  - (* apply / select / findIf is left *) intros s n a x body x0 arr k s1 s2 ab s3 HN HK LF HA [fa IHa] HX [fx IHx] HI [fi IHi]. exists (S (S (fa + fx + fi))).
    intros [|f] L; [lia|]. rewrite eval_S_binary, (IHa f), (IHx f) by lia. rewrite <- HN.
    destruct f as [|f]; [lia|].
    change (eval_binary (S f) s2 (kname k) (RArr (x0 :: arr)) (RCode body) (in_scope_f (S f)) plain_scope_f = (oa ab, s3)).
    rewrite (eval_binary_loop_ac f (S f) s2 k body _ HK). apply IHi; [lia|cbn; lia].
  - (* for is left *) intros s n a b var fr to st body s1 s2 ab s3 HN HA [fa IHa] HB [fb IHb] HE LF HI (fi & ki & IHi). exists (S (S (fa + fb + fi + ki))).
    intros [|f] L; [lia|]. rewrite eval_S_binary, (IHa f), (IHb f) by lia. rewrite HN.
    destruct f as [|f]; [lia|].
    transitivity (eval_binary (S f) s2 "do" (RFor var fr to st) (RCode body) (in_scope_f (S f)) plain_scope_f); [reflexivity|].
    rewrite eval_binary_for, HE. apply IHi; lia.
  - (* while is left *) intros s n a b cond body s1 s2 ab s3 HN HA [fa IHa] HB [fb IHb] LFc LFb HW (fw & kw & IHw). exists (S (S (fa + fb + fw + kw))).
    intros [|f] L; [lia|]. rewrite eval_S_binary, (IHa f), (IHb f) by lia. rewrite HN.
    destruct f as [|f]; [lia|].
    destruct (leaf_first_cons _ LFc) as (st & crest & ->).
    transitivity (eval_binary (S f) s2 "do" (RWhile (st :: crest)) (RCode body) (in_scope_f (S f)) plain_scope_f); [reflexivity|].
    rewrite eval_binary_while. apply IHw; [lia|lia|reflexivity].
  - (* switch is left by a throw *) intros s n a b v body s1 s2 sw t ts y s4 HN HA [fa IHa] HB [fb IHb] HW HT LF HK [fk IHk].
    destruct (switch_body_ref _ _ _ _ HW) as [fw IHw].
    exists (S (S (fa + fb + fw + fk))). intros [|[|f]] L; try lia.
    rewrite eval_S_binary, (IHa (S f)), (IHb (S f)) by lia. rewrite HN.
    transitivity (eval_binary (S f) s2 "do" (RSwitch v) (RCode body) (in_scope_f (S f)) plain_scope_f); [reflexivity|].
    rewrite eval_binary_switch. change (push_scope s2 (plain_scope_f s2 [])) with (enter s2 []). rewrite (IHw f) by lia.
    cbn [switch_after]. rewrite HT. rewrite (IHk f) by lia. reflexivity.
  - (* switch is left by breakOut *) intros s n a b v body s1 s2 sw t ts t0 x s4 HN HA [fa IHa] HB [fb IHb] HW HT LF HK [fk IHk] TN.
    destruct (switch_body_ref _ _ _ _ HW) as [fw IHw].
    exists (S (S (fa + fb + fw + fk))). intros [|[|f]] L; try lia.
    rewrite eval_S_binary, (IHa (S f)), (IHb (S f)) by lia. rewrite HN.
    transitivity (eval_binary (S f) s2 "do" (RSwitch v) (RCode body) (in_scope_f (S f)) plain_scope_f); [reflexivity|].
    rewrite eval_binary_switch. change (push_scope s2 (plain_scope_f s2 [])) with (enter s2 []). rewrite (IHw f) by lia.
    cbn [switch_after]. rewrite HT. rewrite (IHk f) by lia. exact (break_pass_f t0 x s4 TN).
  - (* operand of a unary operator *) intros s n a ab s1 NL HL [fl IHl]. exists (S fl). intros [|f] L; [lia|].
    rewrite (eval_S_unary _ _ _ _ NL), (IHl f) by lia. destruct ab; reflexivity.
  - (* left operand *) intros s n a b ab s1 HL [fl IHl]. exists (S fl). intros [|f] L; [lia|].
    rewrite eval_S_binary, (IHl f) by lia. destruct ab; reflexivity.
  - (* right operand, breakOut *) intros s n a b va t v s1 s2 HA [fa IHa] HL [fl IHl]. exists (S (fa + fl)). intros [|f] L; [lia|].
    rewrite eval_S_binary, (IHa f), (IHl f) by lia. reflexivity.
  - (* array *) intros s l ab s1 HL [fl IHl]. exists (S fl). intros [|f] L; [lia|]. rewrite eval_S_arr. apply IHl. lia.
  - (* call {..} *) intros s n a b s1 ab s2 HN NL HA [fa IHa] HS [fs IHs]. exists (S (S (fa + fs))). intros [|[|f]] L; try lia.
    rewrite (eval_S_unary _ _ _ _ NL), (IHa (S f)) by lia. rewrite HN.
    change (eval_unary (S f) s1 "call" (RCode b) (in_scope_f (S f)) plain_scope_f)
      with (in_scope_f (S f) s1 (plain_scope_f s1 [("_this", this_of s1)]) b).
    apply IHs. lia.
  - (* x call {..} *) intros s n a x va b s1 s2 ab s3 HN HA [fa IHa] NNa HX [fx IHx] HS [fs IHs]. exists (S (S (fa + fx + fs))). intros [|[|f]] L; try lia.
    rewrite eval_S_binary, (IHa (S f)), (IHx (S f)) by lia. rewrite HN.
    transitivity (eval_binary (S f) s2 "call" va (RCode b) (in_scope_f (S f)) plain_scope_f);
      [destruct NNa as [A1 A2]; destruct va; try contradiction; reflexivity|].
    change (eval_binary (S f) s2 "call" va (RCode b) (in_scope_f (S f)) plain_scope_f)
      with (in_scope_f (S f) s2 (plain_scope_f s2 [("_this", va)]) b).
    apply IHs. lia.
  - (* if true then {..} *) intros s n a b blk s1 s2 ab s3 HN HA [fa IHa] HB [fb IHb] HS [fs IHs]. exists (S (S (fa + fb + fs))). intros [|[|f]] L; try lia.
    rewrite eval_S_binary, (IHa (S f)), (IHb (S f)) by lia. rewrite HN.
    transitivity (in_scope_f (S f) s2 (plain_scope_f s2 []) blk); [reflexivity|]. apply IHs. lia.
  - (* if c then {..} else {..} *) intros s n a b c x0 y0 s1 s2 ab s3 HN HA [fa IHa] HB [fb IHb] HS [fs IHs]. exists (S (S (fa + fb + fs))). intros [|[|f]] L; try lia.
    rewrite eval_S_binary, (IHa (S f)), (IHb (S f)) by lia. rewrite HN.
    transitivity (in_scope_f (S f) s2 (plain_scope_f s2 []) (if c then x0 else y0)); [reflexivity|]. apply IHs. lia.
  - (* loop over an array: a round, then the rest *) intros k s x rest0 i body acc reg s1 acc1 ab s' HB [fb IHb] KS KO HI [fi IHi]. exists (fb + fi).
    intros f L [|kk] LK; [lia|]. cbn [iterate_f]. fold (iterate_f f). rewrite kvars_iter.
    change (push_scope s (plain_scope_f s (kvars k i x))) with (enter s (kvars k i x)).
    rewrite (IHb f) by lia. cbn [oc]. rewrite KS.
    apply IHi; [lia|cbn in LK; lia].
  - (* loop over an array: the round is left by a throw *) intros k s x rest0 i body acc y s1 HT [ft IHt]. exists ft.
    intros f L [|kk] LK; [lia|]. cbn [iterate_f]. fold (iterate_f f). rewrite kvars_iter.
    change (push_scope s (plain_scope_f s (kvars k i x))) with (enter s (kvars k i x)).
    rewrite (IHt f) by lia. reflexivity.
  - (* loop over an array: the round is left by breakOut *) intros k s x rest0 i body acc t v s1 HK [fk IHk] TN. exists fk.
    intros f L [|kk] LK; [lia|]. cbn [iterate_f]. fold (iterate_f f). rewrite kvars_iter.
    change (push_scope s (plain_scope_f s (kvars k i x))) with (enter s (kvars k i x)).
    rewrite (IHk f) by lia. exact (break_pass_f t v s1 TN).
  - (* for: a round, then the rest *) intros var to st s x first body reg s1 y ab s' HB [fb IHb] HV TV BY HI (fi & ki & IHi). exists (fb + fi), (S ki).
    intros f L [|k] LK; [lia|]. cbn [for_loop_f]. fold (for_loop_f f var to st body).
    change (push_scope s (plain_scope_f s [(lower var, RNum x)])) with (enter s [(lower var, RNum x)]).
    rewrite (IHb f) by lia. cbn [oc]. unfold top_var in TV. destruct (st_scopes s1) as [|sc scs] eqn:ES; [discriminate TV|]. rewrite TV.
    unfold beyond in BY. cbv zeta. rewrite BY. apply IHi; lia.
  - (* for: the round is left by a throw *) intros var to st s x first body y s1 HT [ft IHt]. exists ft, 1.
    intros f L [|k] LK; [lia|]. cbn [for_loop_f]. fold (for_loop_f f var to st body).
    change (push_scope s (plain_scope_f s [(lower var, RNum x)])) with (enter s [(lower var, RNum x)]).
    rewrite (IHt f) by lia. reflexivity.
  - (* for: the round is left by breakOut *) intros var to st s x first body t v s1 HK [fk IHk] TN. exists fk, 1.
    intros f L [|k] LK; [lia|]. cbn [for_loop_f]. fold (for_loop_f f var to st body).
    change (push_scope s (plain_scope_f s [(lower var, RNum x)])) with (enter s [(lower var, RNum x)]).
    rewrite (IHk f) by lia. exact (break_pass_f t v s1 TN).
  - (* while: a round, then the rest *) intros cond body s first s1 reg s2 ab s' HC [fc IHc] HB [fb IHb] HW (fw & kw & IHw). exists (fc + fb + fw), (S kw).
    intros f L [|k] LK n Hn; [lia|]. cbn [while_loop_f]. fold (while_loop_f f cond body).
    change (push_scope s (plain_scope_f s [])) with (enter s []).
    replace (match n with O => RNil | _ => RNone end) with (if first then RNil else RNone) by (subst first; destruct n; reflexivity).
    rewrite (IHc f) by lia. cbn [oc]. rewrite (IHb f) by lia. cbn [oc]. apply IHw; [lia|lia|reflexivity].
  - (* while: the condition is left by a throw *) intros cond body s first y s1 HT [ft IHt]. exists ft, 1.
    intros f L [|k] LK n Hn; [lia|]. cbn [while_loop_f]. fold (while_loop_f f cond body).
    change (push_scope s (plain_scope_f s [])) with (enter s []).
    replace (match n with O => RNil | _ => RNone end) with (if first then RNil else RNone) by (subst first; destruct n; reflexivity).
    rewrite (IHt f) by lia. reflexivity.
  - (* while: the condition is left by breakOut *) intros cond body s first t v s1 HK [fk IHk] TN. exists fk, 1.
    intros f L [|k] LK n Hn; [lia|]. cbn [while_loop_f]. fold (while_loop_f f cond body).
    change (push_scope s (plain_scope_f s [])) with (enter s []).
    replace (match n with O => RNil | _ => RNone end) with (if first then RNil else RNone) by (subst first; destruct n; reflexivity).
    rewrite (IHk f) by lia. exact (break_pass_f t v s1 TN).
  - (* while: the body is left by a throw *) intros cond body s first s1 y s2 HC [fc IHc] HT [ft IHt]. exists (fc + ft), 1.
    intros f L [|k] LK n Hn; [lia|]. cbn [while_loop_f]. fold (while_loop_f f cond body).
    change (push_scope s (plain_scope_f s [])) with (enter s []).
    replace (match n with O => RNil | _ => RNone end) with (if first then RNil else RNone) by (subst first; destruct n; reflexivity).
    rewrite (IHc f) by lia. cbn [oc]. rewrite (IHt f) by lia. reflexivity.
  - (* while: the body is left by breakOut *) intros cond body s first s1 t v s2 HC [fc IHc] HK [fk IHk] TN. exists (fc + fk), 1.
    intros f L [|k] LK n Hn; [lia|]. cbn [while_loop_f]. fold (while_loop_f f cond body).
    change (push_scope s (plain_scope_f s [])) with (enter s []).
    replace (match n with O => RNil | _ => RNone end) with (if first then RNil else RNone) by (subst first; destruct n; reflexivity).
    rewrite (IHc f) by lia. cbn [oc]. rewrite (IHk f) by lia. exact (break_pass_f t v s2 TN).
  - (* a scope left by a throw *) intros s vars b y s2 HT [ft IHt]. exists ft. intros f L.
    apply (in_scope_throw f s (plain_scope_f s vars) b y s2). apply IHt. exact L.
  - (* a scope left by breakOut *) intros s vars b t v s2 HK [fk IHk] TN. exists fk. intros f L.
    apply (in_scope_break_pass f s (plain_scope_f s vars) b t v s2); [apply IHk; exact L|exact TN].
  - (* the first element is left *) intros s e l ab s1 HL [fl IHl]. exists fl. intros f L acc.
    cbn [go_arr]. rewrite (IHl f) by lia. destruct ab; reflexivity.
  - (* a later element is left *) intros s e v l t v0 s1 s2 HE [fe IHe] NN HL [fl IHl]. exists (fe + fl). intros f L acc.
    cbn [go_arr]. rewrite (IHe f) by lia. fold (go_arr f).
    transitivity (go_arr f s1 l (v :: acc)).
    + destruct NN as [A1 A2]. destruct v; try contradiction; reflexivity.
    + apply IHl. lia.
  - (* if true exitWith {..} *) intros s n l x b s1 s2 out s3 HN HL [fl IHl] HX [fx IHx] HB [fb IHb]. exists (S (S (fl + fx + fb))).
    intros [|f] L; [lia|]. rewrite eval_S_binary, (IHl f), (IHx f) by lia. rewrite HN.
    destruct f as [|f]; [lia|].
    rewrite eval_binary_exitwith.
    rewrite (in_scope_out (S f) s2 (plain_scope_f s2 []) b out s3) by (apply IHb; lia).
    reflexivity.
  - (* unary operand *) intros s n a v s1 NL HX [fx IHx]. exists (S fx). intros [|f] L; [lia|].
    rewrite (eval_S_unary _ _ _ _ NL), (IHx f) by lia. reflexivity.
  - (* left operand *) intros s n a b v s1 HX [fx IHx]. exists (S fx). intros [|f] L; [lia|].
    rewrite eval_S_binary, (IHx f) by lia. reflexivity.
  - (* right operand *) intros s n a b va v s1 s2 HA [fa IHa] HX [fx IHx]. exists (S (fa + fx)). intros [|f] L; [lia|].
    rewrite eval_S_binary, (IHa f), (IHx f) by lia. reflexivity.
  - (* array *) intros s l v s1 HX [fx IHx]. exists (S fx). intros [|f] L; [lia|]. rewrite eval_S_arr. apply IHx. lia.
  - (* first element *) intros s e l v s1 HX [fx IHx]. exists fx. intros f L acc. cbn [go_arr]. rewrite (IHx f) by lia. reflexivity.
  - (* later element *) intros s e v0 l v s1 s2 HE [fe IHe] NN HX [fx IHx]. exists (fe + fx). intros f L acc.
    cbn [go_arr]. rewrite (IHe f) by lia. fold (go_arr f).
    transitivity (go_arr f s1 l (v0 :: acc)).
    + destruct NN as [A1 A2]. destruct v0; try contradiction; reflexivity.
    + apply IHx. lia.
Qed.
