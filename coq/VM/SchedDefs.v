(* Scheduler / execution-bound extension of the VM model (properties C11 and C12).
   The functions below are the shared ones of VmDefs.v / VmExec.v (frame_next, do_iter, execute_do,
   start_pass, start_loop, execute) with
     - two switches for the two halves of repo commit f22674f (on = the code BEFORE that repair):
         sw_restart  frame::next() restarted a scope without instructions by itself (frame.h),
                     so `waitUntil {}`, `for ... step 0 do {}` never came back to execute_do and the
                     deadline was never looked at;
         sw_idle     the scheduler loop did not look at the deadline while every script sleeps
                     (runtime.cpp action::start);
       with both switches OFF the functions are the shared ones (proved in SchedEquiv.v); the settings
       with a switch on exist only for the `_refuted` witnesses of C11;
     - ghost instrumentation that does not influence any result: execute_do counts the instructions
       it executed and the empty restarts separately (the shared do_iter reports a restart as
       Executed), a scheduler pass logs its visits.
   No proofs here. *)
From Coq Require Import String Ascii.
From Coq Require Import ZArith List Bool.
From SqfVerif Require Import Gen.DiagCodes VM.VmDefs VM.VmExec.
Import ListNotations.
Local Open Scope string_scope.
Local Open Scope list_scope.

Definition sw_restart : string := "empty_restart_skips_deadline".
Definition sw_idle : string := "idle_scheduler_skips_deadline".

(* ------------------------------------------------------------------ the time limit *)
(* runtime.cpp max_runtime_reached(): the clock is read only when a limit is configured *)
Definition deadline_test (r:rt) : bool * rt :=
  if Z.eqb (r_max_runtime r) 0 then (false, r)
  else let (t, r') := now r in (Z.ltb (r_max_runtime r + r_run_ts r) t, r').
(* ... and once it is exceeded: reported (fatal level), exit requested, no error state left behind *)
Definition abort_run (r:rt) : rt :=
  set_msgs (set_errflag (set_exit_req (logmsg r d_MaximumRuntimeReached) true) false) [].

(* ------------------------------------------------------------------ frame::next(runtime)  (frame.h:256) *)
Inductive fres2 := F2Done | F2Ok | F2Restarted.
(* top_code_empty: VmDefs.v *)

Fixpoint frame_next2 (old_restart:bool) (fuel:nat) (r:rt) (c:context) : res (fres2 * rt * context) :=
  match fuel with O => Hang "frame::next does not return" | S fuel' =>
  match c_frames c with
  | [] => UB "frame::next without a frame"
  | f :: rest =>
    let '(res0, f1) := if at_end f then (F2Done, f) else
                         let f' := set_pos f (S (f_pos f)) in ((if at_end f' then F2Done else F2Ok), f') in
    let c1 := set_frames c (f1 :: rest) in
    match f_exit f1 with
    | Some b =>
      if andb (at_end f1) (negb (f_die f1)) then
        bindr (enact b r c1) (fun '(br, b', r2, c2) =>
          let c3 := upd_top c2 (fun f => set_exit f (Some b')) in
          match br with
          | BrSeekEnd => Ok (F2Done, r2, upd_top c3 (fun f => set_pos f (S (length (f_code f)))))
          | BrSeekStart =>
              let c4 := clear_values (upd_top c3 (fun f => set_scope (set_pos f 0) "")) in
              (* repaired: nothing to execute before the behaviour runs again -> back to execute_do *)
              if andb (negb old_restart) (top_code_empty c4) then Ok (F2Restarted, r2, c4)
              else frame_next2 old_restart fuel' r2 c4
          | BrExchange code' =>
              let rename := fun f => match b' with BWhile _ WCond _ _ => set_scope f "" | _ => f end in
              frame_next2 old_restart fuel' r2 (upd_top c3 (fun f => set_pos (set_code (rename f) code') 0))
          | BrOk | BrFail => Ok (res0, r2, c3) end)
      else Ok (res0, r, c1)
    | None => Ok (res0, r, c1) end
  end end.

(* ------------------------------------------------------------------ execute_do (runtime.cpp) *)
Inductive iter2 := Continue2 (r:rt) | Executed2 (r:rt) | Restarted2 (r:rt) | Return2 (x:rresult) (r:rt).

Definition do_iter2 (old_restart:bool) (r:rt) : res iter2 :=
  if r_exit_req r then Ok (Return2 ROk r) else
  match cur r with
  | None => UB "execute_do on a null active context"
  | Some c =>
    if c_suspended c then Ok (Return2 ROk r)
    else match c_frames c with
    | [] => Ok (Return2 REmpty r)
    | _ =>
      match r_state r with
      | StRunning =>
        let frame_count := length (c_frames c) in
        bindr (frame_next2 old_restart frame_fuel r c) (fun '(fr, r1, c1) =>
          if r_err r1 then
            bindr (on_error (upd_cur r1 c1)) (fun '(recovered, r2) =>
              if recovered then Ok (Continue2 r2) else Ok (Return2 RRuntimeError r2))
          else
          match fr with
          | F2Restarted =>
              (* an empty loop body went round once: deadline test, then one unit of the slice *)
              let '(expired, r2) := deadline_test r1 in
              if expired then Ok (Return2 RRuntimeError (abort_run (upd_cur r2 c1)))
              else Ok (Restarted2 (upd_cur r2 c1))
          | _ =>
          match fr, Nat.eqb (length (c_frames c1)) frame_count with
          | F2Done, true =>
              let popped := pop_value c1 in
              let c2 := match popped with Some (_, c') => c' | None => c1 end in
              let c3 := pop_frame (clear_values c2) in
              let c4 := match popped with
                        | Some (v, _) => push_value c3 v
                        | None => if defect r "block_value_dropped" then c3
                                  else match c_frames c3 with [] => c3 | _ => push_value c3 VNil end end in
              Ok (Continue2 (upd_cur r1 c4))
          | _, _ =>
              match current_instr c1 with
              | None => UB "frame.current() dereferenced at the end of the instruction set"
              | Some i =>
                let '(expired, r2) := deadline_test r1 in
                if expired then Ok (Return2 RRuntimeError (abort_run (upd_cur r2 c1)))
                else
                bindr (exec_instr i r2 c1) (fun '(r3, c5) =>
                  let r4 := upd_cur r3 c5 in
                  if negb (r_err r4) then Ok (Executed2 (set_msgs r4 []))
                  else bindr (on_error r4) (fun '(recovered, r5) =>
                         if recovered then Ok (Executed2 r5) else Ok (Return2 RRuntimeError r5))) end end end)
      | _ => Ok (Return2 ROk r) end end end.

(* ki = instructions executed so far, kr = empty restarts so far (ghost counters) *)
Fixpoint execute_do2 (old_restart:bool) (fuel:nat) (r:rt) (exit_after:nat) (ki kr:nat) : res (rresult * rt * (nat * nat)) :=
  match fuel with O => Hang "execute_do fuel" | S fuel' =>
    if r_exit_req r then Ok (ROk, r, (ki, kr))
    else match exit_after with
    | O => Ok (ROk, r, (ki, kr))
    | S ea =>
      bindr (do_iter2 old_restart r) (fun it =>
        match it with
        | Continue2 r1 => execute_do2 old_restart fuel' r1 exit_after ki kr
        | Executed2 r1 => execute_do2 old_restart fuel' r1 ea (S ki) kr
        | Restarted2 r1 => execute_do2 old_restart fuel' r1 ea ki (S kr)
        | Return2 x r1 => Ok (x, r1, (ki, kr)) end) end end.

(* ------------------------------------------------------------------ the scheduler pass (runtime.cpp action::start) *)
(* ghost record of one visit of the pass loop: which script, whether execute_do was entered
   (false = still asleep), how many instructions / empty restarts the slice performed, its result *)
Record visit := { v_id : nat; v_entered : bool; v_instr : nat; v_restarts : nat; v_result : rresult }.

Inductive passres2 := PassDone2 (x:rresult) (r:rt) (log:list visit) | PassExit2 (x:rresult) (r:rt) (log:list visit).

(* what the loop body does for the context at index i, before the bookkeeping *)
Definition visit_ctx (old_restart old_idle:bool) (r:rt) (i:nat) : res (rresult * rt * visit) :=
  let r00 := set_active r (Some i) in
  match cur r00 with
  | None => UB "context index"
  | Some c00 =>
    let c := if c_terminate c00 then set_suspended (set_values (set_frames c00 []) []) false (c_wakeup c00) else c00 in
    let r0 := upd_cur r00 c in
    let run := fun (r1:rt) =>
      bindr (execute_do2 old_restart exec_fuel r1 (r_slice r1) 0 0) (fun '(x, r2, (ki, kr)) =>
        Ok (x, r2, {| v_id := c_id c; v_entered := true; v_instr := ki; v_restarts := kr; v_result := x |})) in
    let idle := fun (x:rresult) => {| v_id := c_id c; v_entered := false; v_instr := 0; v_restarts := 0; v_result := x |} in
    if c_suspended c then
      let (t, r1) := now r0 in
      if Z.leb (c_wakeup c) t then run (upd_cur r1 (set_suspended c false (c_wakeup c)))
      else if old_idle then Ok (ROk, r1, idle ROk)
      else
        (* repaired: nothing executes while scripts sleep, the time limit applies nevertheless *)
        let '(expired, r2) := deadline_test r1 in
        if expired then Ok (RRuntimeError, abort_run r2, idle RRuntimeError) else Ok (ROk, r2, idle ROk)
    else run r0
  end.

Fixpoint start_pass2 (old_restart old_idle:bool) (fuel:nat) (r:rt) (i:nat) (x:rresult) (log:list visit) : res passres2 :=
  match fuel with O => Hang "start pass fuel" | S fuel' =>
    if Nat.leb (length (r_ctxs r)) i then Ok (PassDone2 x r log)
    else
      bindr (visit_ctx old_restart old_idle r i) (fun '(x1, r2, v) =>
        let log1 := log ++ [v] in
        if r_exit_req r2 then Ok (PassExit2 x1 (set_state (set_ctxs r2 []) StEmpty) log1)
        else match x1 with
        | REmpty =>
            let r3 := match cur r2 with
                      | Some c2 => match c_values c2 with
                                   | v :: _ => match show true v with
                                               | Some s => mark (logmsg r2 d_ContextValuePrint) (append "VALUE " s)
                                               | None => mark (logmsg r2 d_ContextValuePrint) "VALUE ?" end
                                   | [] => r2 end
                      | None => r2 end in
            let r4 := set_ctxs r3 (remove_nth (r_ctxs r3) i) in
            match r_ctxs r4 with
            | [] => Ok (PassExit2 x1 (set_active r4 None) log1)
            | _ => start_pass2 old_restart old_idle fuel' r4 i x1 log1 end
        | RInvalid | RActionError | RRuntimeError => Ok (PassExit2 x1 r2 log1)
        | ROk => start_pass2 old_restart old_idle fuel' r2 (S i) x1 log1 end)
  end.

(* passes = the visit logs of the passes so far, oldest first *)
Fixpoint start_loop2 (old_restart old_idle:bool) (fuel:nat) (r:rt) (x:rresult) (passes:list (list visit))
  : res (rresult * rt * list (list visit)) :=
  match fuel with O => Hang "start loop fuel" | S fuel' =>
    match r_ctxs r with
    | [] => Ok (x, r, passes)
    | _ => bindr (start_pass2 old_restart old_idle exec_fuel r 0 x []) (fun p =>
             match p with
             | PassExit2 x1 r1 log => Ok (x1, r1, passes ++ [log])
             | PassDone2 x1 r1 log => start_loop2 old_restart old_idle fuel' r1 x1 (passes ++ [log]) end) end end.

Definition execute_sw (old_restart old_idle:bool) (a:action) (r:rt) : res (rresult * rt * list (list visit)) :=
  match a with
  | AStart =>
      if r_run r then Ok (RActionError, r, [])
      else
        let r0 := set_state (set_halt_req (set_exit_req (begin_run_if_empty (set_run r true)) false) false) StRunning in
        bindr (start_loop2 old_restart old_idle exec_fuel r0 RInvalid []) (fun '(x, r1, ps) => Ok (x, finish_action x r1, ps))
  | AAssemblyStep =>
      if r_run r then Ok (RActionError, r, [])
      else
        let r0 := set_state (set_halt_req (set_exit_req (begin_run_if_empty (set_run r true)) false) false) StRunning in
        bindr (execute_do2 old_restart exec_fuel (resolve_active r0) 1 0 0) (fun '(x, r1, _) => Ok (x, finish_action x r1, []))
  | _ => bindr (execute a r) (fun '(x, r1) => Ok (x, r1, [])) end.

(* the switches are read from the machine's defect list *)
Definition execute2 (a:action) (r:rt) : res (rresult * rt * list (list visit)) :=
  execute_sw (defect r sw_restart) (defect r sw_idle) a r.

(* ------------------------------------------------------------------ histories on one VM *)
(* the embedder's view: load scripts, start runs, single-step, abort, and let time pass in between *)
Inductive cmd := CLoad (c:code) | CStart | CSteps (n:nat) | CAbort | CJump (dt:Z).

Definition flush (r:rt) : rt := set_out r [].
Definition events_of (r:rt) : string := show_events (rev (r_out r)) 3.

Fixpoint show_pass (l:list visit) : string :=
  match l with
  | [] => ""
  | v :: r => append (show_nat (v_id v)) (append (if v_entered v then ":" else "z")
                (append (show_nat (v_instr v)) (append "+" (append (show_nat (v_restarts v))
                (match r with [] => "" | _ => append "," (show_pass r) end))))) end.
Fixpoint show_passes (l:list (list visit)) : string :=
  match l with
  | [] => ""
  | p :: r => append (show_pass p) (match r with [] => "" | _ => append ";" (show_passes r) end) end.

Fixpoint steps2 (n:nat) (r:rt) (acc:string) : string * rt :=
  match n with O => (append acc "+MORE", r) | S n' =>
    match execute2 AAssemblyStep r with
    | Ok (x, r1, _) =>
        let acc1 := append acc (append (match acc with EmptyString => "" | _ => "+" end) (observe_step x r1)) in
        match x with ROk => (match n' with O => (acc1, r1) | _ => steps2 n' r1 acc1 end) | _ => (acc1, r1) end
    | Unsupported w => (append acc (append "+UNSUPPORTED " w), r)
    | Hang w => (append acc (append "+HANG " w), r)
    | UB w => (append acc (append "+UB " w), r) end end.

(* one observation per command (a run also shows the virtual clock before and after it); the second
   component collects the pass logs of the runs (model side only) *)
Fixpoint run_history (cmds:list cmd) (r:rt) (obs:list string) (sched:list string) : list string * list string :=
  match cmds with
  | [] => (rev obs, rev sched)
  | CLoad c :: rest => run_history rest (load r c) ("L" :: obs) sched
  | CJump dt :: rest => run_history rest (set_clock r (r_clock r + dt)%Z) ("J" :: obs) sched
  | CStart :: rest =>
      match execute2 AStart r with
      | Ok (x, r1, ps) =>
          run_history rest (flush r1)
            (append "S" (append (show_result x) (append ":" (append (show_state (r_state r1)) (append ":"
               (append (show_Z (r_clock r)) (append "-" (append (show_Z (r_clock r1)) (append ":" (events_of r1))))))))) :: obs)
            (show_passes ps :: sched)
      | Unsupported w => (rev (append "UNSUPPORTED " w :: obs), rev sched)
      | Hang w => (rev (append "HANG " w :: obs), rev sched)
      | UB w => (rev (append "UB " w :: obs), rev sched) end
  | CSteps n :: rest =>
      let (s, r1) := steps2 n r "" in
      run_history rest (flush r1) (append "T" (append s (append ":" (events_of r1))) :: obs) sched
  | CAbort :: rest =>
      match execute2 AAbort r with
      | Ok (x, r1, _) =>
          run_history rest (flush r1)
            (append "A" (append (show_result x) (append ":" (show_state (r_state r1)))) :: obs) sched
      | Unsupported w => (rev (append "UNSUPPORTED " w :: obs), rev sched)
      | Hang w => (rev (append "HANG " w :: obs), rev sched)
      | UB w => (rev (append "UB " w :: obs), rev sched) end
  end.
