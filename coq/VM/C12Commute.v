(* C12 - isolation, part 3: the turns of two scheduled scripts that touch disjoint state commute. *)
From Coq Require Import String Ascii ZArith List Bool Lia Arith.
From SqfVerif Require Import Gen.DiagCodes Gen.Overloads VM.VmDefs VM.VmExec VM.SchedDefs VM.SchedOps VM.SchedBase VM.SchedIter VM.C12FrameOps VM.C12Frame.
Import ListNotations.
Local Open Scope list_scope.
Opaque frame_fuel exec_fuel.

(* ------------------------------------------------------------------ overwriting variables that exist *)
Definition mapv {A} (g:string -> A -> A) (l:list (string * A)) : list (string * A) :=
  map (fun e => (fst e, g (fst e) (snd e))) l.
Lemma assoc_mapv {A} (g:string -> A -> A) k l : assoc k (mapv g l) = option_map (g k) (assoc k l).
Proof.
  induction l as [|[k' v] l IH]; cbn; auto.
  destruct (String.eqb k k') eqn:E; auto. apply String.eqb_eq in E. subst. reflexivity.
Qed.
Lemma assoc_set_mapv {A} (g:string -> A -> A) k v l : mapv g (assoc_set k v l) = assoc_set k (g k v) (mapv g l).
Proof.
  induction l as [|[k' v'] l IH]; cbn; auto.
  destruct (String.eqb k k') eqn:E; cbn; [reflexivity|].
  unfold mapv in IH. rewrite IH. reflexivity.
Qed.
Lemma mapv_mapv {A} (g1 g2:string -> A -> A) l : mapv g1 (mapv g2 l) = mapv (fun k v => g1 k (g2 k v)) l.
Proof. unfold mapv. rewrite map_map. reflexivity. Qed.
Lemma mapv_ext {A} (g1 g2:string -> A -> A) l : (forall k v, g1 k v = g2 k v) -> mapv g1 l = mapv g2 l.
Proof. intro H. unfold mapv. apply map_ext. intros [k v]. cbn. rewrite H. reflexivity. Qed.

(* every existing variable whose key is in W takes the value it has in src; nothing is added or removed *)
Definition ov1 (W:list key) (src:list (string * list (string * value))) (ns n:string) (v:value) : value :=
  if kin (ns, n) W then match raw_get src ns n with Some v' => v' | None => v end else v.
Definition ov (W:list key) (src nss:list (string * list (string * value))) : list (string * list (string * value)) :=
  mapv (fun ns m => mapv (ov1 W src ns) m) nss.

Lemma ov_get W src nss ns n : kin (ns, n) W = false -> raw_get (ov W src nss) ns n = raw_get nss ns n.
Proof.
  intro K. unfold raw_get, ov. rewrite assoc_mapv. destruct (assoc ns nss) as [m|]; cbn; auto.
  rewrite assoc_mapv. unfold ov1. rewrite K. destruct (assoc n m); reflexivity.
Qed.
Lemma ov_set W src nss ns n v : kin (ns, n) W = false -> ov W src (raw_set nss ns n v) = raw_set (ov W src nss) ns n v.
Proof.
  intro K. unfold raw_set, ov. rewrite assoc_set_mapv, assoc_set_mapv, assoc_mapv.
  unfold ov1 at 1. rewrite K. destruct (assoc ns nss); reflexivity.
Qed.
Definition disjoint (a b:list key) : bool := forallb (fun k => negb (kin k b)) a.
Lemma kin_true_iff k l : kin k l = true <-> In k l.
Proof.
  unfold kin. rewrite existsb_exists. split.
  - intros (x & I & E). unfold key_eqb in E. apply andb_prop in E. destruct E as [E1 E2].
    apply String.eqb_eq in E1. apply String.eqb_eq in E2. destruct k, x. cbn in *. subst. auto.
  - intro I. exists k. split; auto. unfold key_eqb. rewrite !String.eqb_refl. reflexivity.
Qed.
Lemma disjoint_spec a b k : disjoint a b = true -> kin k a = true -> kin k b = false.
Proof.
  unfold disjoint. rewrite forallb_forall. intros H K. apply kin_true_iff in K. specialize (H _ K).
  destruct (kin k b); auto; discriminate.
Qed.
Lemma disjoint_sym a b : disjoint a b = true -> disjoint b a = true.
Proof.
  intro H. unfold disjoint. apply forallb_forall. intros k I. apply kin_true_iff in I.
  destruct (kin k a) eqn:K; auto. rewrite (disjoint_spec _ _ _ H K) in I. discriminate.
Qed.
Lemma ov_comm W1 W2 s1 s2 nss : disjoint W1 W2 = true -> ov W1 s1 (ov W2 s2 nss) = ov W2 s2 (ov W1 s1 nss).
Proof.
  intro D. unfold ov. rewrite !mapv_mapv. apply mapv_ext. intros ns m. rewrite !mapv_mapv. apply mapv_ext. intros n v.
  unfold ov1. destruct (kin (ns, n) W1) eqn:K1; destruct (kin (ns, n) W2) eqn:K2; auto.
  rewrite (disjoint_spec _ _ _ D K1) in K2. discriminate.
Qed.

(* ------------------------------------------------------------------ the effect of a turn as a frame transformer *)
Lemma rt_eta r : r = {| r_ctxs := r_ctxs r; r_active := r_active r; r_state := r_state r; r_exit_req := r_exit_req r;
  r_halt_req := r_halt_req r; r_run := r_run r; r_err := r_err r; r_msgs := r_msgs r; r_out := r_out r; r_nss := r_nss r;
  r_clock := r_clock r; r_tick := r_tick r; r_timestamp := r_timestamp r; r_run_ts := r_run_ts r;
  r_max_runtime := r_max_runtime r; r_max_loop := r_max_loop r; r_slice := r_slice r; r_next_id := r_next_id r;
  r_defects := r_defects r |}.
Proof. destruct r; reflexivity. Qed.

Lemma visit_ctx_active b1 b2 r a i : visit_ctx b1 b2 (set_active r a) i = visit_ctx b1 b2 r i.
Proof. reflexivity. Qed.

Lemma list_upd_same {A} (l:list A) : forall k x, nth_error l k = Some x -> list_upd l k x = l.
Proof. induction l; intros [|k] x H; cbn in *; try discriminate; [inversion H; auto|f_equal; auto]. Qed.

(* the transformer that changes nothing *)
Definition tr_id (k:nat) (ck:context) : tr := {| t_ctx := fun l => list_upd l k ck; t_out := []; t_nss := fun nss => nss |}.
Lemma app_tr_id k ck r : nth_error (r_ctxs r) k = Some ck -> app (tr_id k ck) r = r.
Proof.
  intro H. rewrite (rt_eta r) at 2. unfold app, tr_id. cbn. rewrite app_nil_r, (list_upd_same _ _ _ H). reflexivity.
Qed.
Lemma tr_id_ok k ck i R W : k <> i -> tr_ok (tr_id k ck) i R W.
Proof.
  intro H. split; cbn; auto.
  - intro l. apply list_upd_nth_other. auto.
  - intros l c. apply list_upd_comm. auto.
  - intro l. apply list_upd_length.
Qed.

(* a turn whose instructions stay inside (R, W) leaves every other script exactly as it is *)
Lemma turn_leaves_others b1 b2 R W r i x ri v k ck :
  visit_ctx b1 b2 r i = Ok (x, ri, v) -> i < length (r_ctxs r) -> visit_ok b1 R W r i = true ->
  k <> i -> nth_error (r_ctxs r) k = Some ck -> nth_error (r_ctxs ri) k = Some ck.
Proof.
  intros V Hi OK Hk Hn.
  pose proof (app_visit_ctx (tr_id k ck) i R W b1 b2 r (tr_id_ok k ck i R W Hk) Hi OK) as A.
  rewrite (app_tr_id _ _ _ Hn), V in A. cbn [map_v] in A.
  assert (E : ri = app (tr_id k ck) ri) by congruence. clear A.
  assert (L : k < length (r_ctxs ri)).
  { destruct (nth_error (r_ctxs r) i) as [c00|] eqn:Hc; [|apply nth_error_None in Hc; lia].
    destruct (visit_ctx_shape _ _ _ _ _ _ _ _ V Hc) as (_ & _ & Sh).
    pose proof (vs_ctxs _ _ _ (visit_shape_vstep _ _ _ _ _ _ _ _ Sh Hc)) as Ev. apply evolves_len in Ev.
    assert (k < length (r_ctxs r)) by (apply nth_error_Some; congruence). lia. }
  assert (E2 : r_ctxs ri = list_upd (r_ctxs ri) k ck) by (rewrite E at 1; reflexivity).
  rewrite E2. apply list_upd_nth_same. auto.
Qed.

Lemma nth_error_ext {A} (l l':list A) : length l = length l' -> (forall k, nth_error l k = nth_error l' k) -> l = l'.
Proof.
  revert l'; induction l; intros [|b l'] L H; cbn in *; try discriminate; auto.
  f_equal; [specialize (H 0); cbn in H; congruence|]. apply IHl; [lia|]. intro k. apply (H (S k)).
Qed.

(* what a turn may do besides running its own script: nothing that is recorded in these fields *)
Record quiet (r ri:rt) : Prop := {
  q_exit : r_exit_req ri = r_exit_req r;
  q_err : r_err ri = r_err r;
  q_msgs : r_msgs ri = r_msgs r;
  q_next : r_next_id ri = r_next_id r }.
(* the turn changed the namespaces only by giving new values to existing variables of W *)
Definition nss_effect (W:list key) (r ri:rt) : Prop := r_nss ri = ov W (r_nss ri) (r_nss r).

Definition eff (i:nat) (W:list key) (ri:rt) : tr :=
  {| t_ctx := match nth_error (r_ctxs ri) i with Some c => fun l => list_upd l i c | None => fun l => l end;
     t_out := r_out ri; t_nss := ov W (r_nss ri) |}.

Lemma turn_as_tr b1 b2 R W r i x ri v a :
  visit_ctx b1 b2 r i = Ok (x, ri, v) -> i < length (r_ctxs r) -> visit_ok b1 R W r i = true ->
  r_out r = [] -> r_tick r = 0%Z -> quiet r ri -> nss_effect W r ri ->
  set_active ri a = set_active (app (eff i W ri) r) a.
Proof.
  intros V Hi OK O0 T0 [Q1 Q2 Q3 Q4] NE.
  destruct (nth_error (r_ctxs r) i) as [c00|] eqn:Hc; [|apply nth_error_None in Hc; lia].
  destruct (visit_ctx_shape _ _ _ _ _ _ _ _ V Hc) as (_ & _ & Sh).
  pose proof (visit_shape_vstep _ _ _ _ _ _ _ _ Sh Hc) as [C A2 A3 A4 A5 [k A6] Ev].
  unfold rcfg in C.
  assert (Len : length (r_ctxs ri) = length (r_ctxs r)).
  { destruct Ev as (l1 & sp & E & F & (Le & Fr & _) & _). rewrite E, app_length, <- (Forall2_len _ _ _ F).
    destruct sp as [|s sp]; [cbn; lia|]. inversion Fr; subst. rewrite Q4 in *. lia. }
  destruct (nth_error (r_ctxs ri) i) as [ci|] eqn:Hci; [|apply nth_error_None in Hci; lia].
  assert (Cx : r_ctxs ri = list_upd (r_ctxs r) i ci).
  { apply nth_error_ext; [rewrite list_upd_length; auto|]. intro k0.
    destruct (Nat.eq_dec k0 i) as [->|Ne].
    - rewrite Hci, list_upd_nth_same; auto.
    - rewrite list_upd_nth_other by auto.
      destruct (nth_error (r_ctxs r) k0) as [ck|] eqn:Hk.
      + eapply turn_leaves_others; eauto.
      + apply nth_error_None in Hk. apply nth_error_None. lia. }
  rewrite (rt_eta ri) at 1. unfold set_active, rt_with, app, eff. cbn. rewrite Hci.
  rewrite Cx, Q1, Q2, Q3, Q4, A2, A3, A4, A6, T0, O0, <- NE. cbn [app].
  replace (r_clock r + Z.of_nat k * 0)%Z with (r_clock r) by lia.
  f_equal; congruence.
Qed.

Lemma eff_ok i j Wj R W rj : i <> j -> disjoint R Wj = true -> disjoint W Wj = true -> tr_ok (eff j Wj rj) i R W.
Proof.
  intros Ne D1 D2. unfold eff. split; cbn.
  - intro l. destruct (nth_error (r_ctxs rj) j); auto. apply list_upd_nth_other. auto.
  - intros l c. destruct (nth_error (r_ctxs rj) j); auto. apply list_upd_comm. auto.
  - intro l. destruct (nth_error (r_ctxs rj) j); auto. apply list_upd_length.
  - intros nss ns n K. apply ov_get. apply (disjoint_spec _ _ _ D1 K).
  - intros nss ns n v K. apply ov_set. apply (disjoint_spec _ _ _ D2 K).
Qed.

(* ------------------------------------------------------------------ independence and commutation *)
(* The turn of script i from machine r, taken alone, and what it touches:
   - it comes back with result xi, machine ri and visit record vi;
   - every instruction it executes reads globals only in R and assigns globals only in W, and none is spawn,
     terminate or scriptDone (visit_ok: an executable check that runs the turn);
   - it does not request exit, leaves no error state and hands out no script id (quiet);
   - its effect on the namespaces is to give new values to EXISTING variables of W (nss_effect): a turn that creates a
     global is outside the theorem, because the model keeps namespaces as association lists and the position of a new
     entry depends on the order of creation. *)
Record solo_turn (b1 b2:bool) (r:rt) (i:nat) (R W:list key) (xi:rresult) (ri:rt) (vi:visit) : Prop := {
  st_run : visit_ctx b1 b2 r i = Ok (xi, ri, vi);
  st_idx : i < length (r_ctxs r);
  st_ok : visit_ok b1 R W r i = true;
  st_quiet : quiet r ri;
  st_nss : nss_effect W r ri }.

(* two turns are independent if neither assigns what the other reads or assigns *)
Definition independent (Ri Wi Rj Wj:list key) : bool :=
  andb (disjoint Ri Wj) (andb (disjoint Wi Wj) (disjoint Rj Wi)).

(* the machine without the fields in which the order of two independent turns is visible by construction: the log
   (lines of different scripts interleave differently) and the index of the script that ran last *)
Definition shared_state (r:rt) : rt := set_out (set_active r None) [].

Theorem independent_turns_commute b1 b2 r i j Ri Wi Rj Wj xi ri vi xj rj vj :
  i <> j -> r_out r = [] -> r_tick r = 0%Z ->
  solo_turn b1 b2 r i Ri Wi xi ri vi -> solo_turn b1 b2 r j Rj Wj xj rj vj ->
  independent Ri Wi Rj Wj = true ->
  exists m1 m2,
    visit_ctx b1 b2 rj i = Ok (xi, m1, vi) /\      (* j then i: i does exactly what it does alone *)
    visit_ctx b1 b2 ri j = Ok (xj, m2, vj) /\      (* i then j: j does exactly what it does alone *)
    shared_state m1 = shared_state m2 /\
    r_out m1 = r_out ri ++ r_out rj /\ r_out m2 = r_out rj ++ r_out ri.
Proof.
  intros Ne O0 T0 [Vi Hi OKi Qi Ni] [Vj Hj OKj Qj Nj] Ind.
  unfold independent in Ind. apply andb_prop in Ind. destruct Ind as [D1 D]. apply andb_prop in D. destruct D as [D2 D3].
  assert (Tj : tr_ok (eff j Wj rj) i Ri Wi) by (apply eff_ok; auto).
  assert (Ti : tr_ok (eff i Wi ri) j Rj Wj) by (apply eff_ok; auto using disjoint_sym).
  pose proof (turn_as_tr b1 b2 Ri Wi r i xi ri vi None Vi Hi OKi O0 T0 Qi Ni) as Ei.
  pose proof (turn_as_tr b1 b2 Rj Wj r j xj rj vj None Vj Hj OKj O0 T0 Qj Nj) as Ej.
  exists (app (eff j Wj rj) ri), (app (eff i Wi ri) rj).
  split; [|split; [|split; [|split]]].
  - rewrite <- (visit_ctx_active b1 b2 rj None i), Ej, visit_ctx_active.
    rewrite (app_visit_ctx _ i Ri Wi) by auto. rewrite Vi. reflexivity.
  - rewrite <- (visit_ctx_active b1 b2 ri None j), Ei, visit_ctx_active.
    rewrite (app_visit_ctx _ j Rj Wj) by auto. rewrite Vj. reflexivity.
  - unfold shared_state. rewrite !app_set_active, Ei, Ej, <- !app_set_active.
    unfold app, set_out, set_active, rt_with, eff.
    cbn [t_ctx t_out t_nss r_ctxs r_active r_state r_exit_req r_halt_req r_run r_err r_msgs r_out r_nss r_clock r_tick
         r_timestamp r_run_ts r_max_runtime r_max_loop r_slice r_next_id r_defects].
    assert (N : ov Wj (r_nss rj) (ov Wi (r_nss ri) (r_nss r)) = ov Wi (r_nss ri) (ov Wj (r_nss rj) (r_nss r)))
      by (apply ov_comm; apply disjoint_sym; auto).
    rewrite N.
    destruct (nth_error (r_ctxs ri) i) as [ci|]; destruct (nth_error (r_ctxs rj) j) as [cj|]; try reflexivity.
    rewrite (list_upd_comm _ i j) by auto. reflexivity.
  - reflexivity.
  - reflexivity.
Qed.

(* ------------------------------------------------------------------ non-vacuity *)
Local Open Scope string_scope.
Set Warnings "-abstract-large-number".
(* two spawned scripts: `ga = ga + 1; diag_log ga` and `gb = gb + 2; diag_log gb`, both globals exist *)
Definition ex_script (g:string) (k:Z) : code :=
  compile_block [SAssign g (EBinary "+" (EVar g) (ENum k)); SExpr (EUnary "diag_log" (EVar g))].
Definition ex_ctx (id:nat) (c:code) : context := push_frame (new_context id true) (mk_frame default_ns c None None []).
Definition ex_machine : rt :=
  set_nss (set_state (set_next_id (set_ctxs (init_rt [] 0 0 10000 150)
     [ex_ctx 0 (ex_script "ga" 1); ex_ctx 1 (ex_script "gb" 2)]) 2) StRunning)
     [(default_ns, [("ga", VNum 10); ("gb", VNum 20)])].
Definition ex_Ka : list key := [(default_ns, "ga")].
Definition ex_Kb : list key := [(default_ns, "gb")].

Definition ex_turn (i:nat) : rresult * rt * visit :=
  match visit_ctx false false ex_machine i with
  | Ok p => p
  | _ => (RInvalid, ex_machine, {| v_id := 0; v_entered := false; v_instr := 0; v_restarts := 0; v_result := RInvalid |}) end.
Lemma ex_solo_a : solo_turn false false ex_machine 0 ex_Ka ex_Ka (fst (fst (ex_turn 0))) (snd (fst (ex_turn 0))) (snd (ex_turn 0)).
Proof.
  split; [vm_compute; reflexivity | vm_compute; repeat constructor | vm_compute; reflexivity
         | split; vm_compute; reflexivity | vm_compute; reflexivity].
Qed.
Lemma ex_solo_b : solo_turn false false ex_machine 1 ex_Kb ex_Kb (fst (fst (ex_turn 1))) (snd (fst (ex_turn 1))) (snd (ex_turn 1)).
Proof.
  split; [vm_compute; reflexivity | vm_compute; repeat constructor | vm_compute; reflexivity
         | split; vm_compute; reflexivity | vm_compute; reflexivity].
Qed.
Example ex_independent_turns :
  independent ex_Ka ex_Ka ex_Kb ex_Kb = true /\ r_out ex_machine = [] /\ r_tick ex_machine = 0%Z /\
  r_out (snd (fst (ex_turn 0))) <> [] /\ r_out (snd (fst (ex_turn 1))) <> [] /\
  r_nss (snd (fst (ex_turn 0))) <> r_nss ex_machine /\ r_nss (snd (fst (ex_turn 1))) <> r_nss ex_machine.
Proof. repeat split; vm_compute; try reflexivity; discriminate. Qed.

(* ------------------------------------------------------------------ the log is write-only *)
Definition tr_log (old:list event) : tr := {| t_ctx := fun l => l; t_out := old; t_nss := fun nss => nss |}.
Lemma tr_log_ok old i R W : tr_ok (tr_log old) i R W.
Proof. split; reflexivity. Qed.
Lemma app_tr_log r : app (tr_log (r_out r)) (set_out r []) = r.
Proof. rewrite (rt_eta r) at 3. reflexivity. Qed.
(* a turn from a machine whose log already holds `old` does what it does from the empty log, with `old` underneath *)
Theorem log_is_write_only b1 b2 R W r i old :
  i < length (r_ctxs r) -> visit_ok b1 R W r i = true ->
  visit_ctx b1 b2 (app (tr_log old) r) i = map_v (app (tr_log old)) (visit_ctx b1 b2 r i).
Proof. intros. apply (app_visit_ctx _ i R W); auto using tr_log_ok. Qed.

(* ------------------------------------------------------------------ turns that spawn do not commute *)
(* two scripts that each spawn a child: the children's positions in the scheduler's list follow the order of the parents'
   turns (as in runtime.cpp: spawn appends to m_contexts) *)
Definition sp_script (k:Z) : code :=
  compile_block [SExpr (EBinary "spawn" (ENum 0) (ECode [SExpr (EUnary "diag_log" (ENum k))]))].
Definition sp_machine : rt :=
  set_state (set_next_id (set_ctxs (init_rt [] 0 0 10000 150) [ex_ctx 0 (sp_script 1); ex_ctx 1 (sp_script 2)]) 2) StRunning.
Definition two_turns (r:rt) (i j:nat) : option rt :=
  match visit_ctx false false r i with
  | Ok (_, r1, _) => match visit_ctx false false r1 j with Ok (_, r2, _) => Some r2 | _ => None end
  | _ => None end.
Definition child_codes (r:rt) : list string :=
  map (fun c => match c_frames c with f :: _ => show_code (f_code f) | [] => "" end) (r_ctxs r).
Theorem spawning_turns_commute_refuted :
  exists m1 m2, two_turns sp_machine 0 1 = Some m1 /\ two_turns sp_machine 1 0 = Some m2 /\
                shared_state m1 <> shared_state m2.
Proof.
  destruct (two_turns sp_machine 0 1) as [m1|] eqn:E1; [|vm_compute in E1; discriminate].
  destruct (two_turns sp_machine 1 0) as [m2|] eqn:E2; [|vm_compute in E2; discriminate].
  exists m1, m2. repeat split. intro H.
  assert (C : child_codes (shared_state m1) = child_codes (shared_state m2)) by (rewrite H; reflexivity).
  assert (C1 : option_map (fun m => child_codes (shared_state m)) (two_turns sp_machine 0 1) =
               option_map (fun m => child_codes (shared_state m)) (two_turns sp_machine 1 0)) by (rewrite E1, E2; cbn [option_map]; rewrite C; reflexivity).
  vm_compute in C1. discriminate.
Qed.

Local Close Scope string_scope.
(* ------------------------------------------------------------------ the same from a machine with any log *)
Lemma shared_state_tr_log old m : shared_state (app (tr_log old) m) = shared_state m.
Proof. reflexivity. Qed.

Theorem independent_turns_commute_any_log b1 b2 r i j Ri Wi Rj Wj xi ri vi xj rj vj :
  i <> j -> r_tick r = 0%Z ->
  solo_turn b1 b2 (set_out r []) i Ri Wi xi ri vi -> solo_turn b1 b2 (set_out r []) j Rj Wj xj rj vj ->
  independent Ri Wi Rj Wj = true ->
  exists ri' rj' m1 m2,
    visit_ctx b1 b2 r i = Ok (xi, ri', vi) /\ visit_ctx b1 b2 r j = Ok (xj, rj', vj) /\
    visit_ctx b1 b2 rj' i = Ok (xi, m1, vi) /\ visit_ctx b1 b2 ri' j = Ok (xj, m2, vj) /\
    shared_state m1 = shared_state m2 /\
    r_out m1 = r_out ri ++ r_out rj ++ r_out r /\ r_out m2 = r_out rj ++ r_out ri ++ r_out r.
Proof.
  intros Ne T0 Si Sj Ind.
  set (r0 := set_out r []) in *. set (L := tr_log (r_out r)).
  assert (Er : r = app L r0) by (unfold L, r0; rewrite app_tr_log; reflexivity).
  assert (O0 : r_out r0 = []) by reflexivity. assert (T00 : r_tick r0 = 0%Z) by exact T0.
  destruct (independent_turns_commute b1 b2 r0 i j Ri Wi Rj Wj xi ri vi xj rj vj Ne O0 T00 Si Sj Ind)
    as (m10 & m20 & V1 & V2 & Sh & Lo1 & Lo2).
  pose proof Ind as Ind'. unfold independent in Ind'. apply andb_prop in Ind'. destruct Ind' as [D1 D]. apply andb_prop in D. destruct D as [D2 D3].
  destruct Si as [Vi Hi OKi Qi Ni]. destruct Sj as [Vj Hj OKj Qj Nj].
  pose proof (turn_as_tr b1 b2 Ri Wi r0 i xi ri vi None Vi Hi OKi O0 T00 Qi Ni) as Ei.
  pose proof (turn_as_tr b1 b2 Rj Wj r0 j xj rj vj None Vj Hj OKj O0 T00 Qj Nj) as Ej.
  assert (Tj : tr_ok (eff j Wj rj) i Ri Wi) by (apply eff_ok; auto).
  assert (Ti : tr_ok (eff i Wi ri) j Rj Wj) by (apply eff_ok; auto using disjoint_sym).
  (* the other script's turn does not change what the footprint check sees *)
  assert (OKi' : visit_ok b1 Ri Wi rj i = true).
  { rewrite <- (visit_ok_active b1 Ri Wi rj None i), Ej, visit_ok_active, (visit_ok_app _ i Ri Wi) by auto. exact OKi. }
  assert (OKj' : visit_ok b1 Rj Wj ri j = true).
  { rewrite <- (visit_ok_active b1 Rj Wj ri None j), Ei, visit_ok_active, (visit_ok_app _ j Rj Wj) by auto. exact OKj. }
  assert (Li : i < length (r_ctxs rj)).
  { assert (E : r_ctxs rj = r_ctxs (app (eff j Wj rj) r0)) by (change (r_ctxs (set_active rj None) = r_ctxs (set_active (app (eff j Wj rj) r0) None)); rewrite Ej; reflexivity).
    rewrite E. cbn [r_ctxs app]. rewrite (tk_len _ _ _ _ Tj). exact Hi. }
  assert (Lj : j < length (r_ctxs ri)).
  { assert (E : r_ctxs ri = r_ctxs (app (eff i Wi ri) r0)) by (change (r_ctxs (set_active ri None) = r_ctxs (set_active (app (eff i Wi ri) r0) None)); rewrite Ei; reflexivity).
    rewrite E. cbn [r_ctxs app]. rewrite (tk_len _ _ _ _ Ti). exact Hj. }
  exists (app L ri), (app L rj), (app L m10), (app L m20).
  split; [|split; [|split; [|split; [|split; [|split]]]]].
  - rewrite Er at 1. unfold L. rewrite (log_is_write_only b1 b2 Ri Wi) by auto. rewrite Vi. reflexivity.
  - rewrite Er at 1. unfold L. rewrite (log_is_write_only b1 b2 Rj Wj) by auto. rewrite Vj. reflexivity.
  - unfold L. rewrite (log_is_write_only b1 b2 Ri Wi) by auto. rewrite V1. reflexivity.
  - unfold L. rewrite (log_is_write_only b1 b2 Rj Wj) by auto. rewrite V2. reflexivity.
  - unfold L. rewrite !shared_state_tr_log. exact Sh.
  - cbn [r_out app tr_log t_out L]. rewrite Lo1, <- app_assoc. reflexivity.
  - cbn [r_out app tr_log t_out L]. rewrite Lo2, <- app_assoc. reflexivity.
Qed.

(* ------------------------------------------------------------------ whole rounds *)
From Coq Require Import Permutation.
Definition comp (T1 T2:tr) : tr :=
  {| t_ctx := fun l => t_ctx T1 (t_ctx T2 l); t_out := t_out T2 ++ t_out T1; t_nss := fun n => t_nss T1 (t_nss T2 n) |}.
Lemma app_comp T1 T2 r : app T1 (app T2 r) = app (comp T1 T2) r.
Proof. unfold app, comp. cbn. rewrite app_assoc. reflexivity. Qed.
Lemma comp_ok T1 T2 i R W : tr_ok T1 i R W -> tr_ok T2 i R W -> tr_ok (comp T1 T2) i R W.
Proof.
  intros A B. split; cbn.
  - intro l. rewrite (tk_nth _ _ _ _ A), (tk_nth _ _ _ _ B). reflexivity.
  - intros l c. rewrite (tk_upd _ _ _ _ B), (tk_upd _ _ _ _ A). reflexivity.
  - intro l. rewrite (tk_len _ _ _ _ A), (tk_len _ _ _ _ B). reflexivity.
  - intros nss ns n K. rewrite (tk_get _ _ _ _ A), (tk_get _ _ _ _ B); auto.
  - intros nss ns n v K. rewrite (tk_set _ _ _ _ B), (tk_set _ _ _ _ A); auto.
Qed.
Definition tr_none : tr := {| t_ctx := fun l => l; t_out := []; t_nss := fun n => n |}.
Lemma tr_none_ok i R W : tr_ok tr_none i R W.
Proof. split; reflexivity. Qed.
Lemma app_tr_none r : app tr_none r = r.
Proof. rewrite (rt_eta r) at 2. unfold app, tr_none. cbn. rewrite app_nil_r. reflexivity. Qed.

(* a turn together with what it touches and what it does when taken alone *)
Record turn := { u_idx : nat; u_R : list key; u_W : list key; u_x : rresult; u_r : rt; u_v : visit }.
Definition solo (b1 b2:bool) (r:rt) (u:turn) : Prop := solo_turn b1 b2 r (u_idx u) (u_R u) (u_W u) (u_x u) (u_r u) (u_v u).
Definition eff_of (u:turn) : tr := eff (u_idx u) (u_W u) (u_r u).
(* the turns are taken one after the other, each returns exactly the result and visit record it has alone *)
Inductive runs (b1 b2:bool) : rt -> list turn -> rt -> Prop :=
| runs_nil r : runs b1 b2 r [] r
| runs_cons r u r' us m : visit_ctx b1 b2 r (u_idx u) = Ok (u_x u, r', u_v u) -> runs b1 b2 r' us m -> runs b1 b2 r (u :: us) m.
(* turns of different scripts are independent *)
Definition all_independent (us:list turn) : Prop :=
  NoDup (map u_idx us) /\
  forall u w, In u us -> In w us -> u_idx u <> u_idx w -> independent (u_R u) (u_W u) (u_R w) (u_W w) = true.

Lemma independent_parts Ri Wi Rj Wj : independent Ri Wi Rj Wj = true ->
  disjoint Ri Wj = true /\ disjoint Wi Wj = true /\ disjoint Rj Wi = true.
Proof. unfold independent. intro H. apply andb_prop in H. destruct H as [A H]. apply andb_prop in H. tauto. Qed.

Definition effs (T:tr) (us:list turn) : tr := fold_left (fun T u => comp T (eff_of u)) us T.

Lemma runs_effs b1 b2 r : r_out r = [] -> r_tick r = 0%Z -> forall us T M,
  set_active M None = set_active (app T r) None ->
  Forall (solo b1 b2 r) us -> all_independent us ->
  (forall u, In u us -> tr_ok T (u_idx u) (u_R u) (u_W u)) ->
  exists m, runs b1 b2 M us m /\ set_active m None = set_active (app (effs T us) r) None.
Proof.
  intros O0 T0. induction us as [|u us IH]; intros T M EM So [Nd In] OKT.
  - exists M. split; [constructor|exact EM].
  - inversion So as [|? ? Su Sus]; subst. destruct Su as [Vu Hu OKu Qu Nu].
    pose proof (turn_as_tr b1 b2 _ _ r _ _ _ _ None Vu Hu OKu O0 T0 Qu Nu) as Eu.
    assert (OKTu : tr_ok T (u_idx u) (u_R u) (u_W u)) by (apply OKT; left; auto).
    assert (V : visit_ctx b1 b2 M (u_idx u) = Ok (u_x u, app T (u_r u), u_v u)).
    { rewrite <- (visit_ctx_active b1 b2 M None), EM, visit_ctx_active.
      rewrite (app_visit_ctx _ _ (u_R u) (u_W u)) by auto. rewrite Vu. reflexivity. }
    inversion Nd as [|? ? Nu1 Nd']; subst.
    destruct (IH (comp T (eff_of u)) (app T (u_r u))) as (m & Rm & Em).
    + rewrite <- app_comp. rewrite (app_set_active T (u_r u)), (app_set_active T (app (eff_of u) r)). unfold eff_of. rewrite Eu. reflexivity.
    + exact Sus.
    + split; auto. intros a b Ia Ib. apply In; right; auto.
    + intros w Iw. apply comp_ok; [apply OKT; right; auto|].
      assert (Ne : u_idx w <> u_idx u).
      { intro E. apply Nu1. rewrite <- E. apply in_map. auto. }
      destruct (independent_parts _ _ _ _ (In u w (or_introl eq_refl) (or_intror Iw) (fun E => Ne (eq_sym E)))) as (D1 & D2 & D3).
      apply eff_ok; auto using disjoint_sym.
    + exists m. split; [exact (runs_cons b1 b2 M u _ us m V Rm)|exact Em].
Qed.

(* two machines that agree on everything but the log and r_active still do after the same frame transformer *)
Lemma shared_state_app T a b : shared_state a = shared_state b -> shared_state (app T a) = shared_state (app T b).
Proof.
  intro H.
  assert (F0 : r_ctxs a = r_ctxs b) by exact (f_equal r_ctxs H).
  assert (F1 : r_state a = r_state b) by exact (f_equal r_state H).
  assert (F2 : r_exit_req a = r_exit_req b) by exact (f_equal r_exit_req H).
  assert (F3 : r_halt_req a = r_halt_req b) by exact (f_equal r_halt_req H).
  assert (F4 : r_run a = r_run b) by exact (f_equal r_run H).
  assert (F5 : r_err a = r_err b) by exact (f_equal r_err H).
  assert (F6 : r_msgs a = r_msgs b) by exact (f_equal r_msgs H).
  assert (F7 : r_nss a = r_nss b) by exact (f_equal r_nss H).
  assert (F8 : r_clock a = r_clock b) by exact (f_equal r_clock H).
  assert (F9 : r_tick a = r_tick b) by exact (f_equal r_tick H).
  assert (F10 : r_timestamp a = r_timestamp b) by exact (f_equal r_timestamp H).
  assert (F11 : r_run_ts a = r_run_ts b) by exact (f_equal r_run_ts H).
  assert (F12 : r_max_runtime a = r_max_runtime b) by exact (f_equal r_max_runtime H).
  assert (F13 : r_max_loop a = r_max_loop b) by exact (f_equal r_max_loop H).
  assert (F14 : r_slice a = r_slice b) by exact (f_equal r_slice H).
  assert (F15 : r_next_id a = r_next_id b) by exact (f_equal r_next_id H).
  assert (F16 : r_defects a = r_defects b) by exact (f_equal r_defects H).
  unfold shared_state, set_out, set_active, rt_with, app.
  cbn [r_ctxs r_active r_state r_exit_req r_halt_req r_run r_err r_msgs r_out r_nss r_clock r_tick
       r_timestamp r_run_ts r_max_runtime r_max_loop r_slice r_next_id r_defects].
  rewrite F0, F1, F2, F3, F4, F5, F6, F7, F8, F9, F10, F11, F12, F13, F14, F15, F16. reflexivity.
Qed.
Lemma shared_state_active a b : set_active a None = set_active b None -> shared_state a = shared_state b.
Proof. intro H. unfold shared_state. rewrite H. reflexivity. Qed.

Lemma eff_of_comm u w r : u_idx u <> u_idx w -> disjoint (u_W u) (u_W w) = true ->
  shared_state (app (eff_of u) (app (eff_of w) r)) = shared_state (app (eff_of w) (app (eff_of u) r)).
Proof.
  intros Ne D. unfold shared_state, eff_of, app, set_out, set_active, rt_with, eff.
  cbn [t_ctx t_out t_nss r_ctxs r_active r_state r_exit_req r_halt_req r_run r_err r_msgs r_out r_nss r_clock r_tick
       r_timestamp r_run_ts r_max_runtime r_max_loop r_slice r_next_id r_defects].
  rewrite (ov_comm (u_W u) (u_W w)) by auto.
  destruct (nth_error (r_ctxs (u_r u)) (u_idx u)); destruct (nth_error (r_ctxs (u_r w)) (u_idx w)); try reflexivity.
  rewrite (list_upd_comm _ (u_idx w) (u_idx u)) by auto. reflexivity.
Qed.

Definition teq (T T':tr) : Prop := forall r, shared_state (app T r) = shared_state (app T' r).
Lemma effs_teq us : forall T T', teq T T' -> teq (effs T us) (effs T' us).
Proof.
  induction us as [|u us IH]; intros T T' H; cbn; auto.
  apply IH. intro r. rewrite <- !app_comp. apply H.
Qed.

Lemma effs_perm us us' : Permutation us us' -> all_independent us -> forall T, teq (effs T us) (effs T us').
Proof.
  induction 1; intros AI T.
  - intro r. reflexivity.
  - cbn. apply IHPermutation. destruct AI as [Nd In]. inversion Nd; subst. split; auto. intros a b Ia Ib. apply In; right; auto.
  - cbn. apply effs_teq. intro r. rewrite <- !app_comp. apply shared_state_app.
    destruct AI as [Nd In]. inversion Nd as [|? ? N1 N2]; subst.
    assert (Ne : u_idx x <> u_idx y) by (intro E; apply N1; rewrite <- E; left; reflexivity).
    destruct (independent_parts _ _ _ _ (In x y (or_intror (or_introl eq_refl)) (or_introl eq_refl) Ne)) as (_ & D & _).
    symmetry. apply eff_of_comm; auto.
  - intro r. rewrite (IHPermutation1 AI T r). apply IHPermutation2.
    destruct AI as [Nd In]. split.
    + eapply Permutation_NoDup; [apply Permutation_map; eassumption|exact Nd].
    + intros a b Ia Ib. apply In; eapply Permutation_in; try eassumption; apply Permutation_sym; assumption.
Qed.

(* A round of pairwise independent turns can be taken in any order: every order is possible, every script does in it exactly
   what it does alone, and the final machines agree on everything but the order of the log lines and r_active. *)
Theorem round_order_irrelevant b1 b2 r us us' :
  r_out r = [] -> r_tick r = 0%Z ->
  Forall (solo b1 b2 r) us -> all_independent us -> Permutation us us' ->
  exists m m', runs b1 b2 r us m /\ runs b1 b2 r us' m' /\ shared_state m = shared_state m'.
Proof.
  intros O0 T0 So AI P.
  assert (AI' : all_independent us').
  { destruct AI as [Nd In]. split.
    - eapply Permutation_NoDup; [apply Permutation_map; eassumption|exact Nd].
    - intros a b Ia Ib. apply In; eapply Permutation_in; try eassumption; apply Permutation_sym; assumption. }
  assert (So' : Forall (solo b1 b2 r) us') by (eapply Permutation_Forall; eauto).
  assert (E0 : set_active r None = set_active (app tr_none r) None) by (rewrite app_tr_none; reflexivity).
  destruct (runs_effs b1 b2 r O0 T0 us tr_none r E0 So AI (fun u _ => tr_none_ok _ _ _)) as (m & Rm & Em).
  destruct (runs_effs b1 b2 r O0 T0 us' tr_none r E0 So' AI' (fun u _ => tr_none_ok _ _ _)) as (m' & Rm' & Em').
  exists m, m'. split; [exact Rm|]. split; [exact Rm'|].
  rewrite (shared_state_active _ _ Em), (shared_state_active _ _ Em'). apply effs_perm; auto.
Qed.

(* non-vacuity: the two example turns form a round *)
Definition ex_ta : turn := {| u_idx := 0; u_R := ex_Ka; u_W := ex_Ka; u_x := fst (fst (ex_turn 0)); u_r := snd (fst (ex_turn 0)); u_v := snd (ex_turn 0) |}.
Definition ex_tb : turn := {| u_idx := 1; u_R := ex_Kb; u_W := ex_Kb; u_x := fst (fst (ex_turn 1)); u_r := snd (fst (ex_turn 1)); u_v := snd (ex_turn 1) |}.
Example ex_round : Forall (solo false false ex_machine) [ex_ta; ex_tb] /\ all_independent [ex_ta; ex_tb].
Proof.
  split.
  - constructor; [exact ex_solo_a|]. constructor; [exact ex_solo_b|]. constructor.
  - split.
    + cbn [map u_idx ex_ta ex_tb]. constructor; [intros [H|[]]; discriminate|]. constructor; [intros []|constructor].
    + intros u w [<-|[<-|[]]] [<-|[<-|[]]] Ne; cbn [u_idx u_R u_W ex_ta ex_tb] in *;
        try (exfalso; apply Ne; reflexivity); reflexivity.
Qed.
