(* C04 - shape lemmas: what any instruction or exit behaviour of the shared VM model can do to the event list and the error flag. *)
From Coq Require Import String Ascii.
From Coq Require Import ZArith List Bool Lia.
From SqfVerif Require Import Gen.DiagCodes VM.VmDefs VM.VmExec VM.C04Defs.
Import ListNotations.
Local Open Scope list_scope.

Opaque frame_fuel exec_fuel.

(* ================================================================== 1. logmsg and the flag *)
Lemma error_raises_flag : forall r d, (fst d <= 1)%Z ->
  r_err (logmsg r d) = true /\ r_msgs (logmsg r d) = r_msgs r ++ [d] /\ r_out (logmsg r d) = ev_of d :: r_out r.
Proof.
  intros r d H. unfold logmsg. apply Z.leb_le in H. rewrite H. cbn. auto.
Qed.

Lemma warning_keeps_flag : forall r d, (1 < fst d)%Z ->
  r_err (logmsg r d) = r_err r /\ r_msgs (logmsg r d) = r_msgs r /\ r_out (logmsg r d) = ev_of d :: r_out r.
Proof.
  intros r d H. unfold logmsg. destruct (Z.leb (fst d) 1) eqn:E.
  - apply Z.leb_le in E. lia.
  - cbn. auto.
Qed.

(* ================================================================== 2. what a step can do to the event list and the flag *)
(* r' was reached from r by logging the events s (newest first); the flag is raised exactly by the
   error-level ones and never lowered *)
Definition ext (r r':rt) : Prop := exists s, r_out r' = s ++ r_out r /\ r_err r' = orb (has_err s) (r_err r).

Lemma has_err_app : forall a b, has_err (a ++ b) = orb (has_err a) (has_err b).
Proof. intros. unfold has_err. apply existsb_app. Qed.

Lemma ext_refl : forall r, ext r r.
Proof. intros r. exists []. cbn. auto. Qed.

Lemma ext_trans : forall a b c, ext a b -> ext b c -> ext a c.
Proof.
  intros a b c [s1 [H1 H2]] [s2 [H3 H4]]. exists (s2 ++ s1). split.
  - rewrite H3, H1. apply app_assoc.
  - rewrite H4, H2, has_err_app. apply orb_assoc.
Qed.

Lemma ext_same : forall r a b, r_out b = r_out a -> r_err b = r_err a -> ext r a -> ext r b.
Proof. intros r a b Ho He [s [H1 H2]]. exists s. rewrite Ho, He. auto. Qed.

Lemma ext_logmsg : forall r a d, ext r a -> ext r (logmsg a d).
Proof.
  intros r a d H. eapply ext_trans; [exact H|]. exists [ev_of d]. unfold logmsg, has_err, ev_of.
  destruct (Z.leb (fst d) 1) eqn:E; cbn; rewrite E; cbn; auto.
Qed.

Lemma ext_mark : forall r a s, ext r a -> ext r (mark a s).
Proof. intros r a s H. eapply ext_trans; [exact H|]. exists [EMark s]. cbn. auto. Qed.

Lemma ext_set_ctxs : forall r a x, ext r a -> ext r (set_ctxs a x).
Proof. intros. eapply ext_same; [| |eassumption]; reflexivity. Qed.
Lemma ext_set_next_id : forall r a x, ext r a -> ext r (set_next_id a x).
Proof. intros. eapply ext_same; [| |eassumption]; reflexivity. Qed.
Lemma ext_set_clock : forall r a x, ext r a -> ext r (set_clock a x).
Proof. intros. eapply ext_same; [| |eassumption]; reflexivity. Qed.
Lemma ext_set_nss : forall r a x, ext r a -> ext r (set_nss a x).
Proof. intros. eapply ext_same; [| |eassumption]; reflexivity. Qed.
Lemma ext_ns_set : forall r a ns n v, ext r a -> ext r (ns_set a ns n v).
Proof. intros. unfold ns_set. apply ext_set_nss. assumption. Qed.
Lemma ext_set_active : forall r a x, ext r a -> ext r (set_active a x).
Proof. intros. eapply ext_same; [| |eassumption]; reflexivity. Qed.
Lemma ext_upd_cur : forall r a c, ext r a -> ext r (upd_cur a c).
Proof. intros. unfold upd_cur. destruct (r_active a); [apply ext_set_ctxs|]; assumption. Qed.

Lemma now_ext : forall r t r1, now r = (t, r1) -> ext r r1.
Proof. intros r t r1 H. unfold now in H. injection H as _ <-. apply ext_set_clock, ext_refl. Qed.

Ltac ext_tac :=
  repeat first
    [ assumption
    | apply ext_refl
    | apply ext_logmsg
    | apply ext_mark
    | apply ext_set_ctxs
    | apply ext_set_next_id
    | apply ext_set_clock
    | apply ext_ns_set
    | apply ext_set_nss
    | apply ext_upd_cur
    | match goal with E : ext ?a ?b |- ext ?r ?b => apply (ext_trans r a b); [|exact E] end ].

(* destruct the innermost scrutinee that is not under a binder, again and again *)
Ltac break1 H :=
  match type of H with
  | context [match ?x with _ => _ end] =>
      lazymatch x with
      | context [match _ with _ => _ end] => fail
      | _ => first [ is_var x; destruct x | destruct x eqn:? ]
      end
  end.
Ltac break H := repeat (break1 H; try discriminate H).

Lemma err_enact_rt : forall r c k failed r' c', err_enact r c k = Ok (failed, r', c') -> r' = r.
Proof.
  intros r c k failed r' c' H. unfold err_enact in H. break H; injection H as _ <- _; reflexivity.
Qed.

Lemma op_throw_ext : forall r c v r' c' y, op_throw r c v = Ok (r', c', y) -> ext r r'.
Proof.
  intros r c v r' c' y H. unfold op_throw in H.
  destruct (find_handler (c_frames c) 0).
  - destruct (err_enact r (push_value c (VTrace v)) n) as [[[failed r2] c2]| | |] eqn:E; cbn [bindr] in H; try discriminate H.
    apply err_enact_rt in E. subst r2.
    destruct failed; injection H as <- _ _; ext_tac.
  - injection H as <- _ _. ext_tac.
Qed.

Lemma op_breakout_ext : forall r c v t r' c' y, op_breakout r c v t = Ok (r', c', y) -> ext r r'.
Proof.
  intros r c v t r' c' y H. unfold op_breakout in H. break H; injection H as <- _ _; ext_tac.
Qed.

Lemma op_nular_ext : forall n r c r' c' y, op_nular n r c = Ok (r', c', y) -> ext r r'.
Proof.
  intros n r c r' c' y H. unfold op_nular in H. break H; injection H as <- _ _; ext_tac.
Qed.

Ltac use_subops :=
  repeat match goal with
  | E : op_throw _ _ _ = Ok _ |- _ => apply op_throw_ext in E
  | E : op_breakout _ _ _ _ = Ok _ |- _ => apply op_breakout_ext in E
  | E : now _ = (_, _) |- _ => apply now_ext in E
  end.
Ltac finish_op H :=
  first [ apply op_throw_ext in H; exact H
        | apply op_breakout_ext in H; exact H
        | injection H as <- _ _; use_subops; ext_tac ].
Ltac op_branch H := break H; finish_op H.
(* walk down an if/else-if chain, closing every then-branch before going on *)
Ltac chain H :=
  repeat match type of H with
  | (if ?b then _ else _) = _ => destruct b; [ solve [op_branch H] | ]
  end.

Lemma op_unary_ext : forall n v r c r' c' y, op_unary n v r c = Ok (r', c', y) -> ext r r'.
Proof.
  intros n v r c r' c' y H. unfold op_unary, bindr in H. cbv zeta in H.
  chain H. discriminate H.
Qed.

Lemma op_binary_ext : forall n l v r c r' c' y, op_binary n l v r c = Ok (r', c', y) -> ext r r'.
Proof.
  intros n l v r c r' c' y H. unfold op_binary, bindr in H. cbv zeta in H.
  chain H. first [discriminate H | op_branch H].
Qed.

Lemma exec_instr_ext : forall i r c r' c', exec_instr i r c = Ok (r', c') -> ext r r'.
Proof.
  intros i r c r' c' H. destruct i; cbn [exec_instr] in H.
  - injection H as <- _. ext_tac.
  - break H; injection H as <- _; ext_tac.
  - break H; injection H as <- _; ext_tac.
  - break H; injection H as <- _; ext_tac.
  - (* INular *)
    destruct (op_nular (lower n) r c) as [[[r1 c1] v1]| | |] eqn:E; cbn [bindr] in H; try discriminate H.
    + apply op_nular_ext in E. injection H as <- _. ext_tac.
    + destruct (has_nular (lower n)); discriminate H.
  - (* IUnary *)
    destruct (pop_value c) as [[v c1]|]; [|injection H as <- _; ext_tac].
    destruct v; try (injection H as <- _; ext_tac; fail);
    match type of H with context [op_unary ?a ?b ?c ?d] =>
      destruct (op_unary a b c d) as [[[r1 c2] y]| | |] eqn:E; cbn [bindr] in H; try discriminate H;
      [ apply op_unary_ext in E; injection H as <- _; ext_tac
      | match type of H with (if ?b then _ else _) = _ => destruct b; [discriminate H | injection H as <- _; ext_tac] end ]
    end.
  - (* IBinary *)
    destruct (pop_value c) as [[v c1]|]; [|injection H as <- _; ext_tac].
    assert (G: forall v0, (match pop_value c1 with
          | None => Ok (logmsg r (no_value_diag c d_NoValueFoundForRightArgument d_NoValueFoundForRightArgumentWeak), c1)
          | Some (VNil, c2) => Ok (logmsg r d_NilValueFoundForRightArgumentWeak, c2)
          | Some (l, c2) =>
              match op_binary (lower n) l v0 r c2 with
              | Unsupported w => if has_binary (lower n) (type_of l) (type_of v0) then Unsupported w
                                 else Ok (logmsg r d_UnknownInputTypeCombinationBinary, c2)
              | x => bindr x (fun '(r1, c3, y) => Ok (r1, push_value c3 y)) end end) = Ok (r', c') -> ext r r').
    { intros v0 G. destruct (pop_value c1) as [[l c2]|]; [|injection G as <- _; ext_tac].
      destruct l; try (injection G as <- _; ext_tac; fail);
      match type of G with context [op_binary ?a ?b ?c ?d ?e] =>
        destruct (op_binary a b c d e) as [[[r1 c3] y]| | |] eqn:E; cbn [bindr] in G; try discriminate G;
        [ apply op_binary_ext in E; injection G as <- _; ext_tac
        | match type of G with (if ?b then _ else _) = _ => destruct b; [discriminate G | injection G as <- _; ext_tac] end ]
      end. }
    destruct v; try (injection H as <- _; ext_tac; fail); eapply G; exact H.
  - (* IMakeArray *)
    cbv zeta in H.
    match type of H with (match ?g with _ => _ end) = _ => destruct g as [[vals c1] ok] end.
    destruct ok; injection H as <- _; ext_tac.
  - injection H as <- _. ext_tac.
Qed.

Lemma enact_ext : forall b r c br b' r' c', enact b r c = Ok (br, b', r', c') -> ext r r'.
Proof.
  intros b r c br b' r' c' H. destruct b; cbn [enact] in H;
    break H; injection H as _ _ <- _; use_subops; ext_tac.
Qed.

Lemma frame_next_ext : forall fuel r c fr r' c', frame_next fuel r c = Ok (fr, r', c') -> ext r r'.
Proof.
  induction fuel as [|fuel IH]; intros r c fr r' c' H; cbn [frame_next] in H; [discriminate H|].
  destruct (c_frames c) as [|f rest]; [discriminate H|].
  destruct (if at_end f then (FDone, f) else (if at_end (set_pos f (S (f_pos f))) then FDone else FOk, set_pos f (S (f_pos f)))) as [res0 f1].
  destruct (f_exit f1) as [b|]; [|injection H as _ <- _; ext_tac].
  destruct (andb (at_end f1) (negb (f_die f1))); [|injection H as _ <- _; ext_tac].
  destruct (enact b r (set_frames c (f1 :: rest))) as [[[[br b'] r2] c2]| | |] eqn:E; cbn [bindr] in H; try discriminate H.
  apply enact_ext in E.
  destruct br.
  - injection H as _ <- _. ext_tac.
  - destruct (top_code_empty _); [injection H as _ <- _; ext_tac|]. apply IH in H. eapply ext_trans; eassumption.
  - injection H as _ <- _. ext_tac.
  - apply IH in H. eapply ext_trans; eassumption.
  - injection H as _ <- _. ext_tac.
Qed.
