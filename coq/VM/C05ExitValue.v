(* C05 - a finished scope yields exactly one value to the exit behaviour that ends it (repair C05 exit-behaviour-no-value:
   context.h pop_value_or_nil, used by the behaviours of count / select / apply / findIf / isNil / while / waitUntil /
   configClasses / configProperties).  Lemmas about VmDefs.enact; the theorems are restated in Properties_C05.v. *)
From Coq Require Import String Ascii.
From Coq Require Import ZArith List Bool Lia.
From SqfVerif Require Import Gen.DiagCodes VM.VmDefs VM.C05Proofs VM.C05Regions.
Import ListNotations.
Local Open Scope string_scope.
Local Open Scope list_scope.

(* the behaviours that take the value of the scope they end (the others - forEach, for, switch, the body round of while - look
   at the frame's variables only) *)
Definition takes_value (b:behavior) : bool :=
  match b with
  | BCount _ _ _ | BSelect _ _ _ | BApply _ _ _ | BFindIf _ _ | BIsNil | BWaitUntil _ => true
  | BWhile _ WCond _ _ => true
  | _ => false end.

(* the scope's own part of the operand stack is empty *)
Definition region_empty (c:context) : Prop := c_frames c <> [] /\ height c = top_base c.

Lemma pop_none_of_empty c : region_empty c -> pop_value c = None.
Proof.
  intros [NE H]. unfold pop_value, height, top_base in *. destruct (c_frames c) as [|f rest]; [contradiction|].
  destruct (c_values c) as [|v vs] eqn:EV; [reflexivity|].
  destruct (Nat.leb_spec (length (v :: vs)) (f_base f)) as [L|L]; [reflexivity|]. rewrite H in L. lia.
Qed.

Lemma pop_push_of_empty c v : region_empty c -> pop_value (push_value c v) = Some (v, c).
Proof.
  intros [NE H]. unfold pop_value, push_value, height, top_base in *. cbn [c_values c_frames set_values].
  destruct (c_frames c) as [|f rest] eqn:EF; [contradiction|].
  destruct (Nat.leb_spec (length (v :: c_values c)) (f_base f)) as [L|L]; [cbn [length] in L; lia|].
  f_equal. f_equal. destruct c; cbn in *. subst. reflexivity.
Qed.

Lemma frames_push c v : c_frames (push_value c v) = c_frames c. Proof. reflexivity. Qed.
Lemma can_suspend_push c v : c_can_suspend (push_value c v) = c_can_suspend c. Proof. reflexivity. Qed.

(* The value a finished scope yields is nil when its part of the stack is empty: every behaviour that takes the value does on an
   empty part exactly what it does when the part holds a nil.  (With the switch on - the code before the repair - it logged
   CallstackFoundNoValue instead; see exit_value_missing_logs below.) *)
Lemma enact_empty_is_nil b r c : exit_value_missing r = false -> takes_value b = true -> region_empty c ->
  enact b r c = enact b r (push_value c VNil).
Proof.
  intros SW TV RE. pose proof (pop_none_of_empty c RE) as PN. pose proof (pop_push_of_empty c VNil RE) as PP.
  destruct b as [arr idx cnt|loops m cnd body|var tt step|arr idx|arr out idx|arr out idx|arr idx| |sw|cnt]; try discriminate TV.
  2: destruct m; [|discriminate TV].
  all: cbn [enact]; rewrite PN, PP, SW; reflexivity.
Qed.

(* what enact appends to the machine's output *)
Lemma out_logmsg r d : r_out (logmsg r d) = EDiag (fst d) (snd d) :: r_out r.
Proof. unfold logmsg. destruct (Z.leb (fst d) 1); reflexivity. Qed.
Lemma out_now r : r_out (snd (now r)) = r_out r. Proof. reflexivity. Qed.
Lemma out_set_clock r t : r_out (set_clock r t) = r_out r. Proof. reflexivity. Qed.
Lemma sw_logmsg r d : exit_value_missing (logmsg r d) = exit_value_missing r.
Proof. unfold logmsg, exit_value_missing, defect. destruct (Z.leb (fst d) 1); reflexivity. Qed.

Definition no_value_event : event := EDiag (fst d_CallstackFoundNoValue) (snd d_CallstackFoundNoValue).

(* every diagnostic enact can log, other than the one of the missing value *)
Definition other_diag (d:Z*Z) : Prop :=
  d = d_TypeMissmatchWeak \/ d = d_TypeMissmatch \/ d = d_ForStepVariableTypeMissmatch \/ d = d_WaitUntilMaxLoopReached.
Lemma other_diag_event d : other_diag d -> EDiag (fst d) (snd d) <> no_value_event.
Proof.
  unfold other_diag, no_value_event. intros [-> | [-> | [-> | ->]]]; vm_compute; intros H; discriminate H.
Qed.

Inductive adds : rt -> rt -> Prop :=
| adds_none r r' : r_out r' = r_out r -> adds r r'
| adds_one r r' d : other_diag d -> r_out r' = EDiag (fst d) (snd d) :: r_out r -> adds r r'.

Lemma adds_spec r r' : adds r r' -> exists added, r_out r' = added ++ r_out r /\ ~ In no_value_event added.
Proof.
  intros [a b E|a b d O E].
  - exists []. split; [exact E|intros []].
  - exists [EDiag (fst d) (snd d)]. split; [exact E|]. intros [H|[]]. exact (other_diag_event d O H).
Qed.

Ltac out_solve :=
  first [ apply adds_none; reflexivity
        | eapply adds_one; [|rewrite out_logmsg; reflexivity]; unfold other_diag; tauto
        | eapply adds_one; [|rewrite out_set_clock, out_logmsg; reflexivity]; unfold other_diag; tauto ].

(* With the repair no exit behaviour misses a value: whatever the stack holds, enact never logs CallstackFoundNoValue. *)
Lemma enact_never_misses b r c br b' r' c' : exit_value_missing r = false -> enact b r c = Ok (br, b', r', c') -> adds r r'.
Proof.
  intros SW H. destruct b; cbn [enact] in H; rewrite ?SW in H.
  all: try (destruct (pop_value c) as [[v c1]|]; [destruct v|]).
  all: cbn [bool_result_diag] in H.
  all: kcrunch.
  all: repeat match goal with
       | H : (_, _) = (_, _) |- _ => inversion H; subst; try clear H
       | H : (match ?x with _ => _ end) = (_, _) |- _ => destruct x eqn:?
       end.
  all: out_solve.
Qed.

(* ... and before the repair it did: on an empty part every value-taking behaviour logged the error *)
Lemma exit_value_missing_logs b r c br b' r' c' : exit_value_missing r = true -> takes_value b = true -> region_empty c ->
  (forall n, b <> BWaitUntil n) ->
  enact b r c = Ok (br, b', r', c') -> r_out r' = no_value_event :: r_out r /\ r_err r' = true.
Proof.
  intros SW TV RE NW H. pose proof (pop_none_of_empty c RE) as PN.
  assert (L : forall x, r_out (logmsg x d_CallstackFoundNoValue) = no_value_event :: r_out x /\ r_err (logmsg x d_CallstackFoundNoValue) = true)
    by (intros x; split; reflexivity).
  destruct b as [arr idx cnt|loops m cnd body|var tt step|arr idx|arr out idx|arr out idx|arr idx| |sw|cnt]; try discriminate TV.
  2: destruct m; [|discriminate TV].
  all: cbn [enact] in H; rewrite ?PN, ?SW in H; cbv beta iota in H.
  all: try (exfalso; exact (NW cnt eq_refl)).
  all: repeat match type of H with context [if ?x then _ else _] => destruct x end.
  all: inversion H; subst; apply L.
Qed.
