(* C12 - the scheduler: round-robin passes, bounded slices, sleep, scriptDone, terminate.
   Proofs about the scheduler of the VM model (SchedDefs.start_pass2 / start_loop2 / execute_do2, which are the
   shared start_pass / start_loop / execute_do with ghost instrumentation, see SchedEquiv). *)
From Coq Require Import String Ascii ZArith List Bool Lia Arith.
From SqfVerif Require Import Gen.DiagCodes Gen.Overloads VM.VmDefs VM.VmExec VM.SchedDefs VM.SchedOps VM.SchedBase VM.SchedIter VM.C12Defs.
Import ListNotations.
Local Open Scope list_scope.

Opaque frame_fuel exec_fuel.

(* ================================================================== slices *)
(* execute_do performs at most exit_after units: executed instructions plus rounds of empty loop bodies *)
Theorem slice_bounded b fuel : forall r n ki kr x r' ki' kr',
  execute_do2 b fuel r n ki kr = Ok (x, r', (ki', kr')) -> ki <= ki' /\ kr <= kr' /\ (ki' - ki) + (kr' - kr) <= n.
Proof.
  induction fuel; intros r n ki kr x r' ki' kr' H; cbn [execute_do2] in H; [discriminate|].
  destruct (r_exit_req r); [inversion H; subst; lia|].
  destruct n; [inversion H; subst; lia|].
  destruct (do_iter2 b r) as [it| | |]; cbn [bindr] in H; try discriminate.
  destruct it.
  - apply IHfuel in H. lia.
  - apply IHfuel in H. lia.
  - apply IHfuel in H. lia.
  - inversion H; subst. lia.
Qed.

(* ================================================================== ids *)
Lemma remove_nth_map {A B} (f:A->B) l : forall i, map f (remove_nth l i) = remove_nth (map f l) i.
Proof. induction l; intros [|i]; cbn; auto. f_equal. auto. Qed.
Lemma remove_nth_mid {A} (d:list A) c rest : remove_nth (d ++ c :: rest) (length d) = d ++ rest.
Proof. induction d; cbn; auto. f_equal. auto. Qed.
Lemma nth_error_mid {A} (d:list A) c rest : nth_error (d ++ c :: rest) (length d) = Some c.
Proof. rewrite nth_error_app2 by lia. rewrite Nat.sub_diag. reflexivity. Qed.

Lemma evolves_ids i l n l' n' : evolves i l n l' n' ->
  exists sp, map c_id l' = map c_id l ++ sp /\ Forall (fun id => n <= id < n') sp /\ NoDup sp /\ n <= n'.
Proof.
  intros (l1 & sp & -> & F & (Le & Fr & Nd) & _). exists (map c_id sp).
  rewrite map_app, (Forall2_ctx_ok_ids _ _ F). repeat split; auto.
  rewrite Forall_forall in *. intros id Hid. apply in_map_iff in Hid. destruct Hid as (c & <- & Hc). auto.
Qed.

Lemma wf_ids_ext r r' sp : wf_ids r -> ids r' = ids r ++ sp ->
  Forall (fun id => r_next_id r <= id < r_next_id r') sp -> NoDup sp -> r_next_id r <= r_next_id r' -> wf_ids r'.
Proof.
  intros [Nd Lt] E Fr Nds Le. unfold wf_ids. rewrite E. split.
  - apply NoDup_app_intro; auto. intros x Hx Hy. rewrite Forall_forall in *. specialize (Lt _ Hx). specialize (Fr _ Hy). lia.
  - apply Forall_app; split; (eapply Forall_impl; [|eassumption]); cbn; intros; lia.
Qed.

(* what a visit does to the ids: the visited script is the one at index i; everybody keeps its place; newly
   spawned scripts are appended with fresh ids *)
Lemma visit_ids b1 b2 r i x r2 v c00 :
  visit_ctx b1 b2 r i = Ok (x, r2, v) -> nth_error (r_ctxs r) i = Some c00 -> wf_ids r ->
  v_id v = c_id c00 /\ v_result v = x /\
  exists sp, ids r2 = ids r ++ sp /\ Forall (fun id => r_next_id r <= id < r_next_id r2) sp /\ NoDup sp /\
             r_next_id r <= r_next_id r2 /\ wf_ids r2.
Proof.
  intros V Hc W. destruct (visit_ctx_shape _ _ _ _ _ _ _ _ V Hc) as (A & B & Sh). split; auto. split; auto.
  pose proof (vs_ctxs _ _ _ (visit_shape_vstep _ _ _ _ _ _ _ _ Sh Hc)) as E.
  destruct (evolves_ids _ _ _ _ _ E) as (sp & E1 & E2 & E3 & E4).
  exists sp. repeat split; auto. eapply wf_ids_ext; eauto.
Qed.

Lemma retire_ids r2 i : ids (retire r2 i) = remove_nth (ids r2) i.
Proof. unfold ids. rewrite retire_ctxs. apply remove_nth_map. Qed.
Lemma remove_nth_incl {A} (l:list A) : forall i x, In x (remove_nth l i) -> In x l.
Proof. induction l; intros [|i] x H; cbn in *; auto. destruct H; eauto. Qed.
Lemma remove_nth_NoDup {A} (l:list A) : forall i, NoDup l -> NoDup (remove_nth l i).
Proof.
  induction l; intros [|i] H; cbn; auto; inversion H; subst; auto.
  constructor; auto. intro Hx. apply remove_nth_incl in Hx. auto.
Qed.
Lemma wf_ids_retire r2 i : wf_ids r2 -> wf_ids (retire r2 i).
Proof.
  intros [Nd Lt]. unfold wf_ids. rewrite retire_ids, retire_next_id. split; [apply remove_nth_NoDup; auto|].
  rewrite Forall_forall in *. intros x Hx. apply remove_nth_incl in Hx. auto.
Qed.

(* ================================================================== one pass is one round of the queue *)
Lemma filter_app_kept (a b:list visit) : filter kept (a ++ b) = filter kept a ++ filter kept b.
Proof. apply filter_app. Qed.

(* the pass loop from index i on, with done = the ids before i (already served in this pass) and todo = the ids
   from i on: the turns still to come are todo, then whatever is spawned meanwhile; a finished script is erased
   and nobody is skipped; if the pass is cut short (time limit, runtime error, last script gone) the turns taken
   are a prefix of that order *)
Lemma pass_run_round b1 b2 r i x log p : pass_run b1 b2 r i x log p ->
  forall done todo, wf_ids r -> ids r = done ++ todo -> length done = i ->
  exists new spawned,
    pass_log p = log ++ new /\
    Forall (fun id => r_next_id r <= id) spawned /\ NoDup (todo ++ spawned) /\
    match p with
    | PassDone2 _ r' _ =>
        map v_id new = todo ++ spawned /\ ids r' = done ++ map v_id (filter kept new) /\ wf_ids r' /\
        Forall (fun v => kept v = true \/ finished v = true) new
    | PassExit2 _ _ _ => exists later, todo ++ spawned = map v_id new ++ later
    end.
Proof.
  induction 1; intros done todo W E L.
  - (* end of the list *)
    assert (todo = []).
    { assert (length (ids r) = length (r_ctxs r)) by (unfold ids; apply map_length).
      rewrite E, app_length in H0. destruct todo; auto. cbn in H0. lia. }
    subst todo. exists [], []. rewrite !app_nil_r in *. repeat split; auto; constructor.
  - (* cut: exit requested *)
    destruct todo as [|c rest]; [exfalso; rewrite app_nil_r in E; unfold ids in E; rewrite <- E, map_length in L; lia|].
    destruct (nth_error (r_ctxs r) i) as [c00|] eqn:Hc; [|apply nth_error_None in Hc; lia].
    destruct (visit_ids _ _ _ _ _ _ _ _ H0 Hc W) as (Vid & _ & sp & E2 & Fr & Nd & Le & W2).
    assert (c_id c00 = c).
    { assert (Q : nth_error (ids r) i = Some (c_id c00)) by (unfold ids; rewrite nth_error_map, Hc; auto).
      rewrite E, <- L, nth_error_mid in Q. congruence. }
    exists [v], sp. repeat split; auto.
    + eapply Forall_impl; [|exact Fr]. cbn; intros; lia.
    + destruct W2 as [N2 _]. rewrite E2, E, <- app_assoc in N2. apply NoDup_app_elim in N2. tauto.
    + exists (rest ++ sp). cbn. congruence.
  - destruct todo as [|c rest]; [exfalso; rewrite app_nil_r in E; unfold ids in E; rewrite <- E, map_length in L; lia|].
    destruct (nth_error (r_ctxs r) i) as [c00|] eqn:Hc; [|apply nth_error_None in Hc; lia].
    destruct (visit_ids _ _ _ _ _ _ _ _ H0 Hc W) as (Vid & _ & sp & E2 & Fr & Nd & Le & W2).
    assert (c_id c00 = c).
    { assert (Q : nth_error (ids r) i = Some (c_id c00)) by (unfold ids; rewrite nth_error_map, Hc; auto).
      rewrite E, <- L, nth_error_mid in Q. congruence. }
    exists [v], sp. repeat split; auto.
    + eapply Forall_impl; [|exact Fr]. cbn; intros; lia.
    + destruct W2 as [N2 _]. rewrite E2, E, <- app_assoc in N2. apply NoDup_app_elim in N2. tauto.
    + exists (rest ++ sp). cbn. congruence.
  - destruct todo as [|c rest]; [exfalso; rewrite app_nil_r in E; unfold ids in E; rewrite <- E, map_length in L; lia|].
    destruct (nth_error (r_ctxs r) i) as [c00|] eqn:Hc; [|apply nth_error_None in Hc; lia].
    destruct (visit_ids _ _ _ _ _ _ _ _ H0 Hc W) as (Vid & _ & sp & E2 & Fr & Nd & Le & W2).
    assert (c_id c00 = c).
    { assert (Q : nth_error (ids r) i = Some (c_id c00)) by (unfold ids; rewrite nth_error_map, Hc; auto).
      rewrite E, <- L, nth_error_mid in Q. congruence. }
    exists [v], sp. repeat split; auto.
    + eapply Forall_impl; [|exact Fr]. cbn; intros; lia.
    + destruct W2 as [N2 _]. rewrite E2, E, <- app_assoc in N2. apply NoDup_app_elim in N2. tauto.
    + exists (rest ++ sp). cbn. congruence.
  - (* the script finished: erased, the index stays *)
    destruct todo as [|c rest]; [exfalso; rewrite app_nil_r in E; unfold ids in E; rewrite <- E, map_length in L; lia|].
    destruct (nth_error (r_ctxs r) i) as [c00|] eqn:Hc; [|apply nth_error_None in Hc; lia].
    destruct (visit_ids _ _ _ _ _ _ _ _ H0 Hc W) as (Vid & Vres & sp & E2 & Fr & Nd & Le & W2).
    assert (Ec : c_id c00 = c).
    { assert (Q : nth_error (ids r) i = Some (c_id c00)) by (unfold ids; rewrite nth_error_map, Hc; auto).
      rewrite E, <- L, nth_error_mid in Q. congruence. }
    assert (E3 : ids (retire r2 i) = done ++ (rest ++ sp)).
    { rewrite retire_ids, E2, E, <- app_assoc. cbn [app]. rewrite <- L. apply remove_nth_mid. }
    destruct (IHpass_run done (rest ++ sp) (wf_ids_retire _ _ W2) E3 L) as (new & spawned & P1 & P2 & P3 & P4).
    rewrite retire_next_id in P2.
    assert (Nall : NoDup (done ++ c :: rest ++ sp)).
    { destruct W2 as [N2 _]. rewrite E2, E, <- app_assoc in N2. exact N2. }
    exists (v :: new), (sp ++ spawned). rewrite P1, <- app_assoc. cbn [app]. split; auto. split; [|split].
    + apply Forall_app. split; (eapply Forall_impl; [|eassumption]); cbn; intros; lia.
    + cbn [app]. rewrite app_assoc. constructor; [|rewrite <- app_assoc in P3; rewrite <- app_assoc; exact P3].
      rewrite <- app_assoc, !in_app_iff. intros [Hin|[Hin|Hin]].
      * apply NoDup_app_elim in Nall. destruct Nall as (_ & Nc & _). inversion Nc; subst. apply H6. apply in_or_app; auto.
      * apply NoDup_app_elim in Nall. destruct Nall as (_ & Nc & _). inversion Nc; subst. apply H6. apply in_or_app; auto.
      * rewrite Forall_forall in P2. specialize (P2 _ Hin).
        destruct W as [_ Lt]. rewrite Forall_forall in Lt. assert (In c (ids r)) by (rewrite E; apply in_or_app; right; left; auto).
        specialize (Lt _ H5). lia.
    + destruct p.
      * destruct P4 as (Q1 & Q2 & Q3 & Q4). cbn [map]. rewrite Vid, Ec, Q1, <- app_assoc. split; auto. split; [|split; auto].
        -- cbn [filter]. unfold kept at 1. rewrite Vres. exact Q2.
        -- constructor; auto. right. unfold finished. rewrite Vres. auto.
      * destruct P4 as (later & Q). exists later. cbn [map]. rewrite Vid, Ec. cbn [app]. rewrite <- Q, <- app_assoc. reflexivity.
  - (* the script goes on: next index *)
    destruct todo as [|c rest]; [exfalso; rewrite app_nil_r in E; unfold ids in E; rewrite <- E, map_length in L; lia|].
    destruct (nth_error (r_ctxs r) i) as [c00|] eqn:Hc; [|apply nth_error_None in Hc; lia].
    destruct (visit_ids _ _ _ _ _ _ _ _ H0 Hc W) as (Vid & Vres & sp & E2 & Fr & Nd & Le & W2).
    assert (Ec : c_id c00 = c).
    { assert (Q : nth_error (ids r) i = Some (c_id c00)) by (unfold ids; rewrite nth_error_map, Hc; auto).
      rewrite E, <- L, nth_error_mid in Q. congruence. }
    assert (E3 : ids r2 = (done ++ [c]) ++ (rest ++ sp)).
    { rewrite E2, E, <- !app_assoc. reflexivity. }
    assert (L3 : length (done ++ [c]) = S i) by (rewrite app_length; cbn; lia).
    destruct (IHpass_run (done ++ [c]) (rest ++ sp) W2 E3 L3) as (new & spawned & P1 & P2 & P3 & P4).
    assert (Nall : NoDup (done ++ c :: rest ++ sp)).
    { destruct W2 as [N2 _]. rewrite E2, E, <- app_assoc in N2. exact N2. }
    exists (v :: new), (sp ++ spawned). rewrite P1, <- app_assoc. cbn [app]. split; auto. split; [|split].
    + apply Forall_app. split; (eapply Forall_impl; [|eassumption]); cbn; intros; lia.
    + cbn [app]. rewrite app_assoc. constructor; [|rewrite <- app_assoc in P3; rewrite <- app_assoc; exact P3].
      rewrite <- app_assoc, !in_app_iff. intros [Hin|[Hin|Hin]].
      * apply NoDup_app_elim in Nall. destruct Nall as (_ & Nc & _). inversion Nc; subst. apply H5. apply in_or_app; auto.
      * apply NoDup_app_elim in Nall. destruct Nall as (_ & Nc & _). inversion Nc; subst. apply H5. apply in_or_app; auto.
      * rewrite Forall_forall in P2. specialize (P2 _ Hin).
        destruct W as [_ Lt]. rewrite Forall_forall in Lt. assert (In c (ids r)) by (rewrite E; apply in_or_app; right; left; auto).
        specialize (Lt _ H4). lia.
    + destruct p.
      * destruct P4 as (Q1 & Q2 & Q3 & Q4). cbn [map]. rewrite Vid, Ec, Q1, <- app_assoc. split; auto. split; [|split; auto].
        -- cbn [filter]. unfold kept at 1. rewrite Vres. cbn [map]. rewrite Vid, Ec, Q2, <- app_assoc. reflexivity.
        -- constructor; auto. left. unfold kept. rewrite Vres. auto.
      * destruct P4 as (later & Q). exists later. cbn [map]. rewrite Vid, Ec. cbn [app]. rewrite <- Q, <- app_assoc. reflexivity.
Qed.
