(* C12 - the scheduler: round-robin passes, bounded slices, sleep, scriptDone, terminate.
   Proofs about the scheduler of the VM model (SchedDefs.start_pass2 / start_loop2 / execute_do2, which are the
   shared start_pass / start_loop / execute_do with ghost instrumentation, see SchedEquiv). *)
From Coq Require Import String Ascii ZArith List Bool Lia Arith.
From SqfVerif Require Import Gen.DiagCodes Gen.Overloads VM.VmDefs VM.VmExec VM.SchedDefs VM.SchedOps VM.SchedBase VM.SchedIter VM.C12Defs.
Import ListNotations.
Local Open Scope list_scope.

Opaque frame_fuel exec_fuel.

(* ================================================================== slices *)
(* execute_do performs at most exit_after units: executed instructions plus rounds of empty loop bodies *)
Theorem slice_bounded b fuel : forall r n ki kr x r' ki' kr',
  execute_do2 b fuel r n ki kr = Ok (x, r', (ki', kr')) -> ki <= ki' /\ kr <= kr' /\ (ki' - ki) + (kr' - kr) <= n.
Proof.
  induction fuel; intros r n ki kr x r' ki' kr' H; cbn [execute_do2] in H; [discriminate|].
  destruct (r_exit_req r); [inversion H; subst; lia|].
  destruct n; [inversion H; subst; lia|].
  destruct (do_iter2 b r) as [it| | |]; cbn [bindr] in H; try discriminate.
  destruct it.
  - apply IHfuel in H. lia.
  - apply IHfuel in H. lia.
  - apply IHfuel in H. lia.
  - inversion H; subst. lia.
Qed.

(* a turn of the scheduler executes at most r_slice units *)
Theorem turn_bounded b1 b2 r i x r' v :
  visit_ctx b1 b2 r i = Ok (x, r', v) -> i < length (r_ctxs r) -> v_instr v + v_restarts v <= r_slice r.
Proof.
  intros V Hi. destruct (nth_error (r_ctxs r) i) as [c00|] eqn:Hc; [|apply nth_error_None in Hc; lia].
  destruct (visit_ctx_shape _ _ _ _ _ _ _ _ V Hc) as (_ & _ & Sh). eapply visit_shape_slice; eauto.
Qed.

(* ================================================================== ids *)
Lemma remove_nth_map {A B} (f:A->B) l : forall i, map f (remove_nth l i) = remove_nth (map f l) i.
Proof. induction l; intros [|i]; cbn; auto. f_equal. auto. Qed.
Lemma remove_nth_mid {A} (d:list A) c rest : remove_nth (d ++ c :: rest) (length d) = d ++ rest.
Proof. induction d; cbn; auto. f_equal. auto. Qed.
Lemma nth_error_mid {A} (d:list A) c rest : nth_error (d ++ c :: rest) (length d) = Some c.
Proof. rewrite nth_error_app2 by lia. rewrite Nat.sub_diag. reflexivity. Qed.

Lemma evolves_ids i l n l' n' : evolves i l n l' n' ->
  exists sp, map c_id l' = map c_id l ++ sp /\ Forall (fun id => n <= id < n') sp /\ NoDup sp /\ n <= n'.
Proof.
  intros (l1 & sp & -> & F & (Le & Fr & Nd) & _). exists (map c_id sp).
  rewrite map_app, (Forall2_ctx_ok_ids _ _ F). repeat split; auto.
  rewrite Forall_forall in *. intros id Hid. apply in_map_iff in Hid. destruct Hid as (c & <- & Hc). auto.
Qed.

Lemma wf_ids_ext r r' sp : wf_ids r -> ids r' = ids r ++ sp ->
  Forall (fun id => r_next_id r <= id < r_next_id r') sp -> NoDup sp -> r_next_id r <= r_next_id r' -> wf_ids r'.
Proof.
  intros [Nd Lt] E Fr Nds Le. unfold wf_ids. rewrite E. split.
  - apply NoDup_app_intro; auto. intros x Hx Hy. rewrite Forall_forall in *. specialize (Lt _ Hx). specialize (Fr _ Hy). lia.
  - apply Forall_app; split; (eapply Forall_impl; [|eassumption]); cbn; intros; lia.
Qed.

(* what a visit does to the ids: the visited script is the one at index i; everybody keeps its place; newly
   spawned scripts are appended with fresh ids *)
Lemma visit_ids b1 b2 r i x r2 v c00 :
  visit_ctx b1 b2 r i = Ok (x, r2, v) -> nth_error (r_ctxs r) i = Some c00 -> wf_ids r ->
  v_id v = c_id c00 /\ v_result v = x /\
  exists sp, ids r2 = ids r ++ sp /\ Forall (fun id => r_next_id r <= id < r_next_id r2) sp /\ NoDup sp /\
             r_next_id r <= r_next_id r2 /\ wf_ids r2.
Proof.
  intros V Hc W. destruct (visit_ctx_shape _ _ _ _ _ _ _ _ V Hc) as (A & B & Sh). split; auto. split; auto.
  pose proof (vs_ctxs _ _ _ (visit_shape_vstep _ _ _ _ _ _ _ _ Sh Hc)) as E.
  destruct (evolves_ids _ _ _ _ _ E) as (sp & E1 & E2 & E3 & E4).
  exists sp. split; [exact E1|]. split; auto. split; auto. split; auto. eapply wf_ids_ext; eauto.
Qed.

Lemma retire_ids r2 i : ids (retire r2 i) = remove_nth (ids r2) i.
Proof. unfold ids. rewrite retire_ctxs. apply remove_nth_map. Qed.
Lemma remove_nth_incl {A} (l:list A) : forall i x, In x (remove_nth l i) -> In x l.
Proof. induction l; intros [|i] x H; cbn in *; auto. destruct H; eauto. Qed.
Lemma remove_nth_NoDup {A} (l:list A) : forall i, NoDup l -> NoDup (remove_nth l i).
Proof.
  induction l; intros [|i] H; cbn; auto; inversion H; subst; auto.
  constructor; auto. intro Hx. apply remove_nth_incl in Hx. auto.
Qed.
Lemma wf_ids_retire r2 i : wf_ids r2 -> wf_ids (retire r2 i).
Proof.
  intros [Nd Lt]. unfold wf_ids. rewrite retire_ids, retire_next_id. split; [apply remove_nth_NoDup; auto|].
  rewrite Forall_forall in *. intros x Hx. apply remove_nth_incl in Hx. auto.
Qed.

Lemma NoDup_mid_notin {A} (d:list A) c t : NoDup (d ++ c :: t) -> ~ In c t.
Proof. intros H Hin. apply NoDup_remove_2 in H. apply H. apply in_or_app; auto. Qed.

(* ================================================================== one pass is one round of the queue *)
Lemma filter_app_kept (a b:list visit) : filter kept (a ++ b) = filter kept a ++ filter kept b.
Proof. apply filter_app. Qed.

(* the pass loop from index i on, with done = the ids before i (already served in this pass) and todo = the ids
   from i on: the turns still to come are todo, then whatever is spawned meanwhile; a finished script is erased
   and nobody is skipped; if the pass is cut short (time limit, runtime error, last script gone) the turns taken
   are a prefix of that order *)
Lemma pass_run_round b1 b2 r i x log p : pass_run b1 b2 r i x log p ->
  forall done todo, wf_ids r -> ids r = done ++ todo -> length done = i ->
  exists new spawned,
    pass_log p = log ++ new /\
    Forall (fun id => r_next_id r <= id) spawned /\ NoDup (todo ++ spawned) /\
    match p with
    | PassDone2 _ r' _ =>
        map v_id new = todo ++ spawned /\ ids r' = done ++ map v_id (filter kept new) /\ wf_ids r' /\
        Forall (fun v => kept v = true \/ finished v = true) new
    | PassExit2 _ _ _ => exists later, todo ++ spawned = map v_id new ++ later
    end.
Proof.
  induction 1; intros done todo W E L.
  - (* end of the list *)
    assert (todo = []).
    { assert (length (ids r) = length (r_ctxs r)) by (unfold ids; apply map_length).
      rewrite E, app_length in H0. destruct todo; auto. cbn in H0. lia. }
    subst todo. exists [], []. rewrite !app_nil_r in *. cbn [pass_log app map filter].
    split; [reflexivity|]. split; [constructor|]. split; [constructor|].
    split; [reflexivity|]. split; [auto|]. split; [auto|constructor].
  - (* cut: exit requested *)
    destruct todo as [|c rest]; [exfalso; rewrite app_nil_r in E; unfold ids in E; rewrite <- E, map_length in L; lia|].
    destruct (nth_error (r_ctxs r) i) as [c00|] eqn:Hc; [|apply nth_error_None in Hc; lia].
    destruct (visit_ids _ _ _ _ _ _ _ _ H0 Hc W) as (Vid & _ & sp & E2 & Fr & Nd & Le & W2).
    assert (c_id c00 = c).
    { assert (Q : nth_error (ids r) i = Some (c_id c00)) by (unfold ids; rewrite nth_error_map, Hc; auto).
      rewrite E, <- L, nth_error_mid in Q. congruence. }
    exists [v], sp. repeat split; auto.
    + eapply Forall_impl; [|exact Fr]. cbn; intros; lia.
    + destruct W2 as [N2 _]. rewrite E2, E, <- app_assoc in N2. apply NoDup_app_elim in N2. tauto.
    + exists (rest ++ sp). cbn. congruence.
  - destruct todo as [|c rest]; [exfalso; rewrite app_nil_r in E; unfold ids in E; rewrite <- E, map_length in L; lia|].
    destruct (nth_error (r_ctxs r) i) as [c00|] eqn:Hc; [|apply nth_error_None in Hc; lia].
    destruct (visit_ids _ _ _ _ _ _ _ _ H0 Hc W) as (Vid & _ & sp & E2 & Fr & Nd & Le & W2).
    assert (c_id c00 = c).
    { assert (Q : nth_error (ids r) i = Some (c_id c00)) by (unfold ids; rewrite nth_error_map, Hc; auto).
      rewrite E, <- L, nth_error_mid in Q. congruence. }
    exists [v], sp. repeat split; auto.
    + eapply Forall_impl; [|exact Fr]. cbn; intros; lia.
    + destruct W2 as [N2 _]. rewrite E2, E, <- app_assoc in N2. apply NoDup_app_elim in N2. tauto.
    + exists (rest ++ sp). cbn. congruence.
  - destruct todo as [|c rest]; [exfalso; rewrite app_nil_r in E; unfold ids in E; rewrite <- E, map_length in L; lia|].
    destruct (nth_error (r_ctxs r) i) as [c00|] eqn:Hc; [|apply nth_error_None in Hc; lia].
    destruct (visit_ids _ _ _ _ _ _ _ _ H0 Hc W) as (Vid & _ & sp & E2 & Fr & Nd & Le & W2).
    assert (c_id c00 = c).
    { assert (Q : nth_error (ids r) i = Some (c_id c00)) by (unfold ids; rewrite nth_error_map, Hc; auto).
      rewrite E, <- L, nth_error_mid in Q. congruence. }
    exists [v], sp. repeat split; auto.
    + eapply Forall_impl; [|exact Fr]. cbn; intros; lia.
    + destruct W2 as [N2 _]. rewrite E2, E, <- app_assoc in N2. apply NoDup_app_elim in N2. tauto.
    + exists (rest ++ sp). cbn. congruence.
  - (* the script finished: erased, the index stays *)
    destruct todo as [|c rest]; [exfalso; rewrite app_nil_r in E; unfold ids in E; rewrite <- E, map_length in L; lia|].
    destruct (nth_error (r_ctxs r) i) as [c00|] eqn:Hc; [|apply nth_error_None in Hc; lia].
    destruct (visit_ids _ _ _ _ _ _ _ _ H0 Hc W) as (Vid & Vres & sp & E2 & Fr & Nd & Le & W2).
    assert (Ec : c_id c00 = c).
    { assert (Q : nth_error (ids r) i = Some (c_id c00)) by (unfold ids; rewrite nth_error_map, Hc; auto).
      rewrite E, <- L, nth_error_mid in Q. congruence. }
    assert (E3 : ids (retire r2 i) = done ++ (rest ++ sp)).
    { rewrite retire_ids, E2, E, <- app_assoc. cbn [app]. rewrite <- L. apply remove_nth_mid. }
    destruct (IHpass_run done (rest ++ sp) (wf_ids_retire _ _ W2) E3 L) as (new & spawned & P1 & P2 & P3 & P4).
    rewrite retire_next_id in P2.
    assert (Nall : NoDup (done ++ c :: rest ++ sp)).
    { destruct W2 as [N2 _]. rewrite E2, E, <- app_assoc in N2. exact N2. }
    exists (v :: new), (sp ++ spawned). rewrite P1, <- app_assoc. cbn [app]. split; auto. split; [|split].
    + apply Forall_app. split; (eapply Forall_impl; [|eassumption]); cbn; intros; lia.
    + cbn [app]. rewrite app_assoc. constructor; [|rewrite <- app_assoc in P3; rewrite <- app_assoc; exact P3].
      rewrite <- app_assoc, !in_app_iff. intros [Hin|[Hin|Hin]].
      * apply (NoDup_mid_notin _ _ _ Nall). apply in_or_app; auto.
      * apply (NoDup_mid_notin _ _ _ Nall). apply in_or_app; auto.
      * rewrite Forall_forall in P2. specialize (P2 _ Hin).
        destruct W as [_ Lt]. rewrite Forall_forall in Lt.
        assert (Inc : In c (ids r)) by (rewrite E; apply in_or_app; right; left; auto).
        specialize (Lt _ Inc). lia.
    + destruct p.
      * destruct P4 as (Q1 & Q2 & Q3 & Q4). cbn [map]. rewrite Vid, Ec, Q1, <- app_assoc. split; auto. split; [|split; auto].
        -- cbn [filter]. unfold kept at 1. rewrite Vres. exact Q2.
        -- constructor; auto. right. unfold finished. rewrite Vres. auto.
      * destruct P4 as (later & Q). exists later. cbn [map]. rewrite Vid, Ec. cbn [app]. rewrite <- Q, <- app_assoc. reflexivity.
  - (* the script goes on: next index *)
    destruct todo as [|c rest]; [exfalso; rewrite app_nil_r in E; unfold ids in E; rewrite <- E, map_length in L; lia|].
    destruct (nth_error (r_ctxs r) i) as [c00|] eqn:Hc; [|apply nth_error_None in Hc; lia].
    destruct (visit_ids _ _ _ _ _ _ _ _ H0 Hc W) as (Vid & Vres & sp & E2 & Fr & Nd & Le & W2).
    assert (Ec : c_id c00 = c).
    { assert (Q : nth_error (ids r) i = Some (c_id c00)) by (unfold ids; rewrite nth_error_map, Hc; auto).
      rewrite E, <- L, nth_error_mid in Q. congruence. }
    assert (E3 : ids r2 = (done ++ [c]) ++ (rest ++ sp)).
    { rewrite E2, E, <- !app_assoc. reflexivity. }
    assert (L3 : length (done ++ [c]) = S i) by (rewrite app_length; cbn; lia).
    destruct (IHpass_run (done ++ [c]) (rest ++ sp) W2 E3 L3) as (new & spawned & P1 & P2 & P3 & P4).
    assert (Nall : NoDup (done ++ c :: rest ++ sp)).
    { destruct W2 as [N2 _]. rewrite E2, E, <- app_assoc in N2. exact N2. }
    exists (v :: new), (sp ++ spawned). rewrite P1, <- app_assoc. cbn [app]. split; auto. split; [|split].
    + apply Forall_app. split; (eapply Forall_impl; [|eassumption]); cbn; intros; lia.
    + cbn [app]. rewrite app_assoc. constructor; [|rewrite <- app_assoc in P3; rewrite <- app_assoc; exact P3].
      rewrite <- app_assoc, !in_app_iff. intros [Hin|[Hin|Hin]].
      * apply (NoDup_mid_notin _ _ _ Nall). apply in_or_app; auto.
      * apply (NoDup_mid_notin _ _ _ Nall). apply in_or_app; auto.
      * rewrite Forall_forall in P2. specialize (P2 _ Hin).
        destruct W as [_ Lt]. rewrite Forall_forall in Lt.
        assert (Inc : In c (ids r)) by (rewrite E; apply in_or_app; right; left; auto).
        specialize (Lt _ Inc). lia.
    + destruct p.
      * destruct P4 as (Q1 & Q2 & Q3 & Q4). cbn [map]. rewrite Vid, Ec, Q1, <- app_assoc. split; auto. split; [|split; auto].
        -- cbn [filter]. unfold kept at 1. rewrite Vres. cbn [map]. rewrite Vid, Ec, Q2, <- app_assoc. reflexivity.
        -- constructor; auto. left. unfold kept. rewrite Vres. auto.
      * destruct P4 as (later & Q). exists later. cbn [map]. rewrite Vid, Ec. cbn [app]. rewrite <- Q, <- app_assoc. reflexivity.
Qed.

(* A complete pass: every script scheduled at its start gets exactly one turn, in list order, then the scripts
   spawned meanwhile, in spawn order; the scripts still scheduled afterwards are those whose turn did not end
   with "finished", in the same order. Nobody is skipped when a finished script is erased. *)
Theorem round_robin_pass b1 b2 fuel r x x' r' log :
  start_pass2 b1 b2 fuel r 0 x [] = Ok (PassDone2 x' r' log) -> wf_ids r ->
  pass_order (ids r) log /\ pass_survivors log (ids r') /\ wf_ids r' /\
  Forall (fun v => kept v = true \/ finished v = true) log.
Proof.
  intros H W. apply start_pass2_pass_run in H.
  destruct (pass_run_round _ _ _ _ _ _ _ H [] (ids r) W eq_refl eq_refl) as (new & spawned & P1 & P2 & P3 & Q1 & Q2 & Q3 & Q4).
  cbn in P1. subst new. split; [exists spawned; auto|]. split; [exact Q2|]. split; auto.
Qed.

(* A pass that is cut short (time limit, runtime error, or the last script finished): the turns taken are a
   prefix of that same order. *)
Theorem round_robin_pass_cut b1 b2 fuel r x x' r' log :
  start_pass2 b1 b2 fuel r 0 x [] = Ok (PassExit2 x' r' log) -> wf_ids r ->
  exists spawned later, ids r ++ spawned = map v_id log ++ later /\ NoDup (ids r ++ spawned).
Proof.
  intros H W. apply start_pass2_pass_run in H.
  destruct (pass_run_round _ _ _ _ _ _ _ H [] (ids r) W eq_refl eq_refl) as (new & spawned & P1 & P2 & P3 & later & Q).
  cbn in P1. subst new. exists spawned, later. auto.
Qed.

(* the passes of a run: each complete pass starts with the survivors of the one before, in the same order *)
Fixpoint chained (start:list nat) (ps:list (list visit)) : Prop :=
  match ps with
  | [] => True
  | [l] => pass_order start l \/ (exists spawned later, start ++ spawned = map v_id l ++ later /\ NoDup (start ++ spawned))
  | l :: rest => pass_order start l /\ chained (map v_id (filter kept l)) rest
  end.

Lemma loop_run_chained b1 b2 r x ps x' r' ps' : loop_run b1 b2 r x ps x' r' ps' -> wf_ids r ->
  exists new, ps' = ps ++ new /\ chained (ids r) new.
Proof.
  induction 1; intro W.
  - exists []. rewrite app_nil_r. cbn. auto.
  - exists [log]. split; auto. cbn. right.
    destruct (pass_run_round _ _ _ _ _ _ _ H0 [] (ids r) W eq_refl eq_refl) as (new & spawned & P1 & P2 & P3 & later & Q).
    cbn in P1. subst new. exists spawned, later. auto.
  - destruct (pass_run_round _ _ _ _ _ _ _ H0 [] (ids r) W eq_refl eq_refl) as (new & spawned & P1 & P2 & P3 & Q1 & Q2 & Q3 & Q4).
    cbn in P1. subst new. cbn [app] in Q2.
    destruct (IHloop_run Q3) as (new2 & E & C). exists (log :: new2). rewrite E, <- app_assoc. split; auto.
    assert (PO : pass_order (ids r) log) by (exists spawned; auto).
    rewrite Q2 in C. destruct new2; cbn [chained]; auto.
Qed.

Theorem round_robin_run b1 b2 fuel r x x' r' ps :
  start_loop2 b1 b2 fuel r x [] = Ok (x', r', ps) -> wf_ids r -> chained (ids r) ps.
Proof.
  intros H W. apply start_loop2_loop_run in H. destruct (loop_run_chained _ _ _ _ _ _ _ _ H W) as (new & E & C).
  cbn in E. subst. auto.
Qed.

(* Between two consecutive turns of one script every other script that is scheduled throughout gets exactly one:
   if pass k has the turns a ++ v :: b and v's script stays scheduled, the turns between this one and its next
   (in pass k+1, which starts with the survivors of pass k in order) are b followed by the survivors of a, and
   every other survivor of pass k occurs in them exactly once. *)
Lemma count_occ_notin {A} (dec:forall x y:A, {x=y}+{x<>y}) l x : ~ In x l -> count_occ dec l x = 0.
Proof. intro H. apply count_occ_not_In; auto. Qed.
Lemma count_occ_NoDup_in {A} (dec:forall x y:A, {x=y}+{x<>y}) l x : NoDup l -> In x l -> count_occ dec l x = 1.
Proof. intros N I. rewrite NoDup_count_occ with (decA := dec) in N. apply (count_occ_In dec) in I. specialize (N x). lia. Qed.
Lemma filter_map_in (f:visit->bool) l x : In x (map v_id (filter f l)) -> In x (map v_id l).
Proof. intro H. apply in_map_iff in H. destruct H as (v & E & I). apply filter_In in I. apply in_map_iff. exists v. tauto. Qed.
Lemma NoDup_map_filter (f:visit->bool) l : NoDup (map v_id l) -> NoDup (map v_id (filter f l)).
Proof.
  induction l; cbn; intro H; [constructor|]. inversion H; subst. destruct (f a); cbn; auto.
  constructor; auto. intro Hx. apply filter_map_in in Hx. auto.
Qed.

Theorem between_two_turns (a b:list visit) (v:visit) (t:nat) :
  NoDup (map v_id (a ++ v :: b)) -> kept v = true ->
  In t (map v_id (filter kept (a ++ v :: b))) -> t <> v_id v ->
  count_occ Nat.eq_dec (map v_id b ++ map v_id (filter kept a)) t = 1.
Proof.
  intros N K I Ne.
  rewrite filter_app in I. cbn [filter] in I. rewrite K in I. rewrite map_app in I. cbn [map] in I.
  rewrite map_app in N. cbn [map] in N.
  apply NoDup_app_elim in N. destruct N as (Na & Nvb & Dab). inversion Nvb; subst.
  rewrite count_occ_app.
  apply in_app_iff in I. destruct I as [I|[I|I]]; [| congruence |].
  - (* t survived from a *)
    rewrite (count_occ_NoDup_in _ _ _ (NoDup_map_filter kept a Na) I).
    rewrite count_occ_notin; auto. intro Hb. apply (Dab t); [apply filter_map_in in I; auto|right; auto].
  - (* t survived from b *)
    assert (Ib : In t (map v_id b)) by (apply filter_map_in in I; auto).
    rewrite (count_occ_NoDup_in _ _ _ H2 Ib).
    rewrite count_occ_notin; auto. intro Ha. apply filter_map_in in Ha. apply (Dab t Ha). right; auto.
Qed.

(* ================================================================== sleep *)
(* sleep d in a scheduled script: the script is suspended until the clock value read now plus d seconds *)
Theorem sleep_sets_wakeup d r c : c_can_suspend c = true ->
  op_unary "sleep" (VNum d) r c =
    Ok (set_clock r (r_clock r + r_tick r)%Z, set_suspended c true (r_clock r + r_tick r + d * 1000000)%Z, VNil).
Proof. intro H. cbn. rewrite H. reflexivity. Qed.

(* a suspended script executes nothing: execute_do returns at once *)
Theorem suspended_executes_nothing b fuel r n ki kr i c :
  r_active r = Some i -> nth_error (r_ctxs r) i = Some c -> c_suspended c = true ->
  r_exit_req r = false ->
  execute_do2 b (S fuel) r (S n) ki kr = Ok (ROk, r, (ki, kr)).
Proof.
  intros Ha Hc Su Ex. cbn [execute_do2]. rewrite Ex. unfold do_iter2. rewrite Ex. unfold cur. rewrite Ha, Hc, Su. reflexivity.
Qed.

(* When the scheduler comes to a sleeping script it reads the clock once: the script gets its slice only if
   that clock value is not before its wake-up time; otherwise nothing of it executes in this pass and it is
   left as it is. *)
Theorem no_early_wake b1 b2 r i c x r' v :
  visit_ctx b1 b2 r i = Ok (x, r', v) -> nth_error (r_ctxs r) i = Some c ->
  c_suspended c = true -> c_terminate c = false ->
  (v_entered v = true -> (c_wakeup c <= r_clock r + r_tick r)%Z) /\
  ((r_clock r + r_tick r < c_wakeup c)%Z ->
     v_entered v = false /\ v_instr v = 0 /\ v_restarts v = 0 /\ (x = ROk -> nth_error (r_ctxs r') i = Some c)).
Proof.
  intros V Hc Su Te. destruct (visit_ctx_shape _ _ _ _ _ _ _ _ V Hc) as (_ & _ & Sh).
  eapply visit_shape_sleep; eauto.
Qed.

(* ================================================================== scriptDone *)
Theorem scriptdone_spec id r c :
  op_unary "scriptdone" (VScript id) r c = Ok (r, c, VBool (negb (existsb (fun x => Nat.eqb (c_id x) id) (r_ctxs r)))).
Proof. reflexivity. Qed.
Lemma existsb_ids id l : existsb (fun x => Nat.eqb (c_id x) id) l = true <-> In id (map c_id l).
Proof.
  rewrite existsb_exists. split.
  - intros (c & I & E). apply Nat.eqb_eq in E. subst. apply in_map; auto.
  - intro H. apply in_map_iff in H. destruct H as (c & E & I). exists c. split; auto. apply Nat.eqb_eq; auto.
Qed.
(* scriptDone h is true exactly when no scheduled script has h's id *)
Theorem scriptdone_true_iff id r c :
  op_unary "scriptdone" (VScript id) r c = Ok (r, c, VBool true) <-> ~ In id (ids r).
Proof.
  rewrite scriptdone_spec. unfold ids. rewrite <- existsb_ids.
  destruct (existsb _ _); cbn; split; intro H; try congruence; try reflexivity;
  try (exfalso; apply H; reflexivity); try (intro; discriminate).
Qed.

(* a script is erased from the schedule only after a turn that found it without frames (nothing left to run) *)
Theorem retired_only_when_finished b1 b2 r i c r2 v :
  visit_ctx b1 b2 r i = Ok (REmpty, r2, v) -> nth_error (r_ctxs r) i = Some c -> r_exit_req r = false ->
  exists c', nth_error (r_ctxs r2) i = Some c' /\ c_id c' = c_id c /\ c_frames c' = [] /\ c_suspended c' = false.
Proof.
  intros V Hc Ex. destruct (visit_ctx_shape _ _ _ _ _ _ _ _ V Hc) as (_ & _ & Sh).
  destruct (visit_shape_exit _ _ _ _ _ _ _ _ Sh Hc Ex) as [_ E]. destruct (E eq_refl) as (_ & c' & N & F & S).
  exists c'. repeat split; auto.
  pose proof (vs_ctxs _ _ _ (visit_shape_vstep _ _ _ _ _ _ _ _ Sh Hc)) as (l1 & sp & E1 & F2 & _).
  destruct (Forall2_nth_ex _ _ _ _ _ F2 Hc) as (c1 & N1 & Ok1).
  rewrite E1, nth_error_app1 in N by (apply nth_error_Some; congruence). rewrite N1 in N. inversion N; subst.
  apply ctx_ok_id; auto.
Qed.

Lemma remove_nth_notin {A} (l:list A) : forall i x, NoDup l -> nth_error l i = Some x -> ~ In x (remove_nth l i).
Proof.
  induction l; intros [|i] x N H; cbn in *; try discriminate; inversion N; subst.
  - inversion H; subst. auto.
  - intros [->|Hin]; [apply H2; eapply nth_error_In; eauto|eapply IHl; eauto].
Qed.
(* ... and once erased its id is not scheduled any more (scriptDone is true) *)
Theorem scriptdone_true_once_retired b1 b2 r i c r2 v :
  visit_ctx b1 b2 r i = Ok (REmpty, r2, v) -> nth_error (r_ctxs r) i = Some c -> wf_ids r ->
  ~ In (c_id c) (ids (retire r2 i)) /\ wf_ids (retire r2 i) /\ c_id c < r_next_id (retire r2 i).
Proof.
  intros V Hc W. destruct (visit_ids _ _ _ _ _ _ _ _ V Hc W) as (_ & _ & sp & E2 & Fr & Nd & Le & W2).
  assert (Q : nth_error (ids r2) i = Some (c_id c)).
  { rewrite E2, nth_error_app1 by (unfold ids; rewrite map_length; apply nth_error_Some; congruence).
    unfold ids. rewrite nth_error_map, Hc. reflexivity. }
  split; [|split; [apply wf_ids_retire; auto|]].
  - rewrite retire_ids. apply remove_nth_notin; auto. apply W2.
  - rewrite retire_next_id. destruct W as [_ Lt]. rewrite Forall_forall in Lt.
    assert (In (c_id c) (ids r)) by (unfold ids; apply in_map; eapply nth_error_In; eauto).
    specialize (Lt _ H). lia.
Qed.
(* ... and it stays that way: ids are never reused *)
Theorem retired_id_never_returns b1 b2 r i x r2 v id :
  visit_ctx b1 b2 r i = Ok (x, r2, v) -> i < length (r_ctxs r) -> wf_ids r ->
  ~ In id (ids r) -> id < r_next_id r -> ~ In id (ids r2) /\ id < r_next_id r2.
Proof.
  intros V Hi W Nin Lt. destruct (nth_error (r_ctxs r) i) as [c00|] eqn:Hc; [|apply nth_error_None in Hc; lia].
  destruct (visit_ids _ _ _ _ _ _ _ _ V Hc W) as (_ & _ & sp & E2 & Fr & Nd & Le & W2).
  split; [|lia]. rewrite E2, in_app_iff. intros [H|H]; auto. rewrite Forall_forall in Fr. specialize (Fr _ H). lia.
Qed.

(* ================================================================== terminate *)
(* terminate h (another script, still scheduled, not yet terminated): its flag is raised, nothing else *)
Theorem terminate_sets_flag id r c x :
  existsb (fun y => Nat.eqb (c_id y) id) (r_ctxs r) = true -> Nat.eqb id (c_id c) = false ->
  find (fun y => Nat.eqb (c_id y) id) (r_ctxs r) = Some x -> c_terminate x = false ->
  op_unary "terminate" (VScript id) r c =
    Ok (set_ctxs r (map (fun y => if Nat.eqb (c_id y) id then set_terminate y true else y) (r_ctxs r)), c, VNil).
Proof. intros A B C D. cbn. rewrite A, B, C, D. reflexivity. Qed.
Theorem terminate_self_sets_flag r c :
  existsb (fun y => Nat.eqb (c_id y) (c_id c)) (r_ctxs r) = true -> c_terminate c = false ->
  op_unary "terminate" (VScript (c_id c)) r c = Ok (r, set_terminate c true, VNil).
Proof. intros A D. cbn. rewrite A, Nat.eqb_refl, D. reflexivity. Qed.

(* the turn of a terminated script: nothing executes, the script is reported as finished *)
Theorem terminated_turn b1 b2 r i c x r' v :
  visit_ctx b1 b2 r i = Ok (x, r', v) -> nth_error (r_ctxs r) i = Some c -> c_terminate c = true ->
  r_exit_req r = false -> 0 < r_slice r ->
  x = REmpty /\ v_instr v = 0 /\ v_restarts v = 0.
Proof.
  intros V Hc Te Ex Sl. destruct (visit_ctx_shape _ _ _ _ _ _ _ _ V Hc) as (_ & _ & Sh).
  destruct (visit_shape_terminated _ _ _ _ _ _ _ _ Sh Hc Te Ex Sl) as (A & B & C & _). auto.
Qed.

(* the flag stays raised until the script's turn comes, whatever the other scripts do *)
Definition flagged (r:rt) (id:nat) : Prop := exists c, In c (r_ctxs r) /\ c_id c = id /\ c_terminate c = true.
(* T: a set of script ids, all of them flagged as long as they are scheduled *)
Definition term_inv (T:nat -> Prop) (r:rt) : Prop :=
  wf_ids r /\ (forall id, T id -> id < r_next_id r) /\ (forall id, T id -> In id (ids r) -> flagged r id).

Lemma NoDup_ids_same_ctx l c1 c2 j : NoDup (map c_id l) -> In c1 l -> nth_error l j = Some c2 -> c_id c1 = c_id c2 -> c1 = c2.
Proof.
  revert j; induction l; intros j N I H E; cbn in *; [contradiction|]. inversion N; subst.
  destruct j; cbn in H.
  - inversion H; subst. destruct I as [->|I]; auto. exfalso. apply H2. rewrite <- E. apply in_map; auto.
  - destruct I as [->|I]; [|eauto]. exfalso. apply H2. rewrite E. apply in_map. eapply nth_error_In; eauto.
Qed.

Lemma visit_term_inv T b1 b2 r i x r2 v c00 :
  visit_ctx b1 b2 r i = Ok (x, r2, v) -> nth_error (r_ctxs r) i = Some c00 -> term_inv T r ->
  term_inv T r2 /\ (T (c_id c00) -> c_terminate c00 = true).
Proof.
  intros V Hc (W & Lt & Fl).
  destruct (visit_ids _ _ _ _ _ _ _ _ V Hc W) as (_ & _ & sp & E2 & Fr & Nd & Le & W2).
  destruct (visit_ctx_shape _ _ _ _ _ _ _ _ V Hc) as (_ & _ & Sh).
  pose proof (vs_ctxs _ _ _ (visit_shape_vstep _ _ _ _ _ _ _ _ Sh Hc)) as (l1 & sp0 & E1 & F2 & _).
  split; [split; [auto|split]|].
  - intros id Tid. specialize (Lt _ Tid). lia.
  - intros id Tid Hin. rewrite E2, in_app_iff in Hin. destruct Hin as [Hin|Hin].
    + destruct (Fl _ Tid Hin) as (c & Ic & Eid & Fc).
      destruct (In_nth_error _ _ Ic) as [j Hj]. destruct (Forall2_nth_ex _ _ _ _ _ F2 Hj) as (c1 & N1 & Ok1).
      exists c1. split; [rewrite E1; apply in_or_app; left; eapply nth_error_In; eauto|].
      split; [rewrite (ctx_ok_id _ _ Ok1); auto|eapply ctx_ok_flag; eauto].
    + rewrite Forall_forall in Fr. specialize (Fr _ Hin). specialize (Lt _ Tid). lia.
  - intro Tc. assert (Hin : In (c_id c00) (ids r)) by (unfold ids; apply in_map; eapply nth_error_In; eauto).
    destruct (Fl _ Tc Hin) as (c & Ic & Eid & Fc). destruct W as [Nd0 _].
    rewrite <- (NoDup_ids_same_ctx _ _ _ _ Nd0 Ic Hc Eid). auto.
Qed.

Lemma remove_nth_in_other {A} (l:list A) : forall i x, In x l -> nth_error l i <> Some x -> In x (remove_nth l i).
Proof.
  induction l; intros [|i] x I H; cbn in *; auto.
  - destruct I as [->|I]; auto. congruence.
  - destruct I as [->|I]; auto.
Qed.
Lemma retire_term_inv T r2 i : term_inv T r2 -> term_inv T (retire r2 i).
Proof.
  intros (W & Lt & Fl). split; [apply wf_ids_retire; auto|split].
  - intros id Tid. rewrite retire_next_id. auto.
  - intros id Tid Hin. rewrite retire_ids in Hin.
    destruct (Fl _ Tid (remove_nth_incl _ _ _ Hin)) as (c & Ic & Eid & Fc).
    exists c. split; auto. rewrite retire_ctxs. apply remove_nth_in_other; auto.
    intro Hn. destruct W as [Nd _].
    assert (Q : nth_error (ids r2) i = Some id) by (unfold ids; rewrite nth_error_map, Hn; cbn; congruence).
    apply (remove_nth_notin _ _ _ Nd Q). auto.
Qed.

Lemma visit_keeps_exit_slice b1 b2 r i x r2 v : visit_ctx b1 b2 r i = Ok (x, r2, v) -> i < length (r_ctxs r) ->
  r_slice r2 = r_slice r.
Proof.
  intros V Hi. destruct (nth_error (r_ctxs r) i) as [c00|] eqn:Hc; [|apply nth_error_None in Hc; lia].
  destruct (visit_ctx_shape _ _ _ _ _ _ _ _ V Hc) as (_ & _ & Sh).
  pose proof (vs_cfg _ _ _ (visit_shape_vstep _ _ _ _ _ _ _ _ Sh Hc)) as C. unfold rcfg in C. congruence.
Qed.

(* in a pass (from any index on) every turn of a script of T executes nothing and reports it as finished *)
Lemma pass_run_terminated T b1 b2 r i x log p : pass_run b1 b2 r i x log p ->
  r_exit_req r = false -> 0 < r_slice r -> term_inv T r ->
  exists new, pass_log p = log ++ new /\
    Forall (fun v => T (v_id v) -> v_instr v = 0 /\ v_restarts v = 0 /\ v_result v = REmpty) new /\
    match p with PassDone2 _ r' _ => r_exit_req r' = false /\ 0 < r_slice r' /\ term_inv T r' | _ => True end.
Proof.
  assert (Turn : forall r i x r2 v, i < length (r_ctxs r) -> visit_ctx b1 b2 r i = Ok (x, r2, v) ->
            r_exit_req r = false -> 0 < r_slice r -> term_inv T r ->
            (T (v_id v) -> v_instr v = 0 /\ v_restarts v = 0 /\ v_result v = REmpty) /\ term_inv T r2 /\ r_slice r2 = r_slice r).
  { intros r0 i0 x0 r2 v Hi V Ex Sl Inv.
    destruct (nth_error (r_ctxs r0) i0) as [c00|] eqn:Hc; [|apply nth_error_None in Hc; lia].
    destruct (visit_term_inv _ _ _ _ _ _ _ _ _ V Hc Inv) as [Inv2 Fl].
    destruct (visit_ctx_shape _ _ _ _ _ _ _ _ V Hc) as (Vid & Vres & _).
    split; [|split; auto; eapply visit_keeps_exit_slice; eauto].
    intro Tv. rewrite Vid in Tv. destruct (terminated_turn _ _ _ _ _ _ _ _ V Hc (Fl Tv) Ex Sl) as (A & B & C).
    rewrite Vres. auto. }
  induction 1; intros Ex Sl Inv.
  - exists []. rewrite app_nil_r. split; [reflexivity|]. split; [constructor|]. auto.
  - destruct (Turn _ _ _ _ _ H H0 Ex Sl Inv) as (A & _ & _). exists [v]. repeat split; auto.
  - destruct (Turn _ _ _ _ _ H H0 Ex Sl Inv) as (A & _ & _). exists [v]. repeat split; auto.
  - destruct (Turn _ _ _ _ _ H H0 Ex Sl Inv) as (A & _ & _). exists [v]. repeat split; auto.
  - destruct (Turn _ _ _ _ _ H H0 Ex Sl Inv) as (A & Inv2 & Sl2).
    destruct IHpass_run as (new & E & F & G).
    + rewrite retire_exit; auto.
    + pose proof (retire_cfg r2 i) as C. unfold rcfg in C. assert (r_slice (retire r2 i) = r_slice r2) by congruence. lia.
    + apply retire_term_inv; auto.
    + exists (v :: new). rewrite E, <- app_assoc. split; auto.
  - destruct (Turn _ _ _ _ _ H H0 Ex Sl Inv) as (A & Inv2 & Sl2).
    destruct IHpass_run as (new & E & F & G); auto; [lia|].
    exists (v :: new). rewrite E, <- app_assoc. split; auto.
Qed.

Lemma loop_run_terminated T b1 b2 r x ps x' r' ps' : loop_run b1 b2 r x ps x' r' ps' ->
  r_exit_req r = false -> 0 < r_slice r -> term_inv T r ->
  exists new, ps' = ps ++ new /\
    Forall (Forall (fun v => T (v_id v) -> v_instr v = 0 /\ v_restarts v = 0 /\ v_result v = REmpty)) new.
Proof.
  induction 1; intros Ex Sl Inv.
  - exists []. rewrite app_nil_r. auto.
  - destruct (pass_run_terminated T _ _ _ _ _ _ _ H0 Ex Sl Inv) as (new & E & F & _). cbn in E. subst log.
    exists [new]. auto.
  - destruct (pass_run_terminated T _ _ _ _ _ _ _ H0 Ex Sl Inv) as (new & E & F & Ex1 & Sl1 & Inv1). cbn in E. subst log.
    destruct (IHloop_run Ex1 Sl1 Inv1) as (new2 & E2 & F2). exists (new :: new2). rewrite E2, <- app_assoc. auto.
Qed.

(* A script whose terminate flag is up executes no instruction in any later turn: every turn it gets, in this
   pass and in all later passes of the run, executes nothing and reports it as finished. *)
Theorem terminated_runs_nothing b1 b2 fuel r x x' r' ps :
  start_loop2 b1 b2 fuel r x [] = Ok (x', r', ps) -> r_exit_req r = false -> 0 < r_slice r -> wf_ids r ->
  Forall (Forall (fun v => flagged r (v_id v) -> v_instr v = 0 /\ v_restarts v = 0 /\ v_result v = REmpty)) ps.
Proof.
  intros H Ex Sl W. apply start_loop2_loop_run in H.
  destruct (loop_run_terminated (flagged r) _ _ _ _ _ _ _ _ H Ex Sl) as (new & E & F).
  - split; auto. split; auto.
    intros id (c & Ic & Eid & _). destruct W as [_ Lt]. rewrite Forall_forall in Lt. apply Lt. unfold ids. rewrite <- Eid. apply in_map; auto.
  - cbn in E. subst. auto.
Qed.

(* ... and it is erased by the first complete pass that starts after the flag went up. *)
Theorem terminated_removed_by_next_pass b1 b2 fuel r x x' r' log id :
  start_pass2 b1 b2 fuel r 0 x [] = Ok (PassDone2 x' r' log) ->
  r_exit_req r = false -> 0 < r_slice r -> wf_ids r -> flagged r id ->
  ~ In id (ids r').
Proof.
  intros H Ex Sl W Fl.
  destruct (round_robin_pass _ _ _ _ _ _ _ _ H W) as ((spawned & PO & Nd) & PS & _ & _).
  apply start_pass2_pass_run in H.
  destruct (pass_run_terminated (flagged r) _ _ _ _ _ _ _ H Ex Sl) as (new & E & F & _).
  - split; auto. split; auto.
    intros id0 (c & Ic & Eid & _). destruct W as [_ Lt]. rewrite Forall_forall in Lt. apply Lt. unfold ids. rewrite <- Eid. apply in_map; auto.
  - cbn in E. subst new. rewrite PS. intro Hin. apply in_map_iff in Hin. destruct Hin as (v & Ev & Iv).
    apply filter_In in Iv. destruct Iv as [Iv K]. rewrite Forall_forall in F. specialize (F _ Iv).
    rewrite Ev in F. destruct (F Fl) as (_ & _ & R). unfold kept in K. rewrite R in K. discriminate.
Qed.

(* ================================================================== isolation (part of it) *)
(* A turn of script i leaves every other scheduled script exactly as it was - frames, operand stack, local
   variables, suspension - except that its terminate flag may have been raised. (That the values a script
   computes do not depend on the interleaving with scripts it shares no global data with is NOT proved here:
   it needs a footprint analysis of every operator over namespaces and the clock.) *)
Theorem other_scripts_untouched b1 b2 r i x r' v c0 j c :
  visit_ctx b1 b2 r i = Ok (x, r', v) -> nth_error (r_ctxs r) i = Some c0 ->
  j <> i -> nth_error (r_ctxs r) j = Some c ->
  exists c', nth_error (r_ctxs r') j = Some c' /\ (c' = c \/ c' = set_terminate c true).
Proof.
  intros V Hc Hj Hn. destruct (visit_ctx_shape _ _ _ _ _ _ _ _ V Hc) as (_ & _ & Sh).
  pose proof (vs_ctxs _ _ _ (visit_shape_vstep _ _ _ _ _ _ _ _ Sh Hc)) as (l1 & sp & E1 & F2 & _ & O).
  destruct (Forall2_nth_ex _ _ _ _ _ F2 Hn) as (c1 & N1 & _).
  exists c1. split; [rewrite E1, nth_error_app1; auto; apply nth_error_Some; congruence|].
  apply (O j c c1 Hj Hn N1).
Qed.
