(* C02 - towards the simulation between the reference semantics and the VM model.
   Part 1 (this file + SimProofs.v): straight-line expression code.  A big-step evaluation relation for the
   frame-free expression fragment (literals, variables, arrays, pure operators), shown (a) to be what the
   reference semantics computes and (b) to be what the VM model computes when it runs the compiled code. *)
From Coq Require Import String Ascii.
From Coq Require Import ZArith List Bool.
From SqfVerif Require Import Gen.DiagCodes Gen.Overloads VM.VmDefs VM.VmExec VM.RefSem.
Import ListNotations.
Local Open Scope string_scope.
Local Open Scope list_scope.

(* reference values that have a VM counterpart *)
Fixpoint cv (v:rvalue) : value :=
  match v with
  | RNil | RNone => VNil
  | RNum n => VNum n
  | RBool b => VBool b
  | RStr s => VStr s
  | RArr l => VArr (map cv l)
  | RCode b => VCode (compile_block b)
  | RIf b => VIf b
  | RWhile c => VWhile (compile_block c)
  | RFor x a b st => VFor x a b st
  | RSwitch v => VSwitch (cv v) [] false false
  | RTry b => VExc (compile_block b)
  | RNs s => VNs s
  | RWith s => VWith s end.

(* first-order data: numbers, booleans, strings, arrays of those *)
Fixpoint is_data (v:rvalue) : bool :=
  match v with
  | RNum _ | RBool _ | RStr _ => true
  | RArr l => forallb is_data l
  | _ => false end.

(* the pure operators of the fragment and their meaning (the same arithmetic on both sides) *)
Definition pure_unary (n:string) (v:rvalue) : option rvalue :=
  if String.eqb n "!" then match v with RBool b => Some (RBool (negb b)) | _ => None end
  else if String.eqb n "count" then match v with RArr l => Some (RNum (Z.of_nat (length l))) | _ => None end
  else if String.eqb n "str" then match v with RNil | RNone => None | _ => option_map RStr (rshow true v) end
  else if String.eqb n "-" then
    match v with RNum x => if Z.eqb x 0 then None else if is_int_in_range (- x) then Some (RNum (- x)) else None | _ => None end
  else if String.eqb n "+" then match v with RNum _ | RArr _ => Some v | _ => None end
  else None.
Definition pure_binary (n:string) (l r:rvalue) : option rvalue :=
  if String.eqb n "+" then
    match l, r with
    | RNum x, RNum y => if is_int_in_range (x + y) then Some (RNum (x + y)) else None
    | RArr x, RArr y => Some (RArr (x ++ y))
    | RStr x, RStr y => Some (RStr (append x y))
    | _, _ => None end
  else if String.eqb n "-" then
    match l, r with RNum x, RNum y => if is_int_in_range (x - y) then Some (RNum (x - y)) else None | _, _ => None end
  else if String.eqb n "&&" then match l, r with RBool a, RBool b => Some (RBool (andb a b)) | _, _ => None end
  else if String.eqb n "||" then match l, r with RBool a, RBool b => Some (RBool (orb a b)) | _, _ => None end
  else if String.eqb n "<" then match l, r with RNum x, RNum y => Some (RBool (Z.ltb x y)) | _, _ => None end
  else if String.eqb n ">" then match l, r with RNum x, RNum y => Some (RBool (Z.gtb x y)) | _, _ => None end
  else if String.eqb n "<=" then match l, r with RNum x, RNum y => Some (RBool (Z.leb x y)) | _, _ => None end
  else if String.eqb n ">=" then match l, r with RNum x, RNum y => Some (RBool (Z.geb x y)) | _, _ => None end
  else if String.eqb n "*" then
    match l, r with
    | RNum x, RNum y => if andb (Z.eqb (x * y) 0) (orb (Z.ltb x 0) (Z.ltb y 0)) then None
                        else if is_int_in_range (x * y) then Some (RNum (x * y)) else None
    | _, _ => None end
  else if String.eqb n "==" then
    match l, r with RNum _, RNum _ | RBool _, RBool _ | RStr _, RStr _ => Some (RBool (req false l r)) | _, _ => None end
  else if String.eqb n "!=" then
    match l, r with RNum _, RNum _ | RBool _, RBool _ | RStr _, RStr _ => Some (RBool (negb (req false l r))) | _, _ => None end
  else if String.eqb n "isequalto" then
    match l, r with
    | RNil, _ | RNone, _ | _, RNil | _, RNone => None
    | _, _ => match rshow true l, rshow true r with Some _, Some _ => Some (RBool (req true l r)) | _, _ => None end end
  else None.

(* case analysis on a definition by cases that is known to yield a value *)
Ltac crack H := repeat (first [ progress cbv beta iota in H
                              | match type of H with match ?x with _ => _ end = _ => destruct x end ]; try discriminate H).

(* the one name a program must not use for a variable of its own: the switch construct keeps its bookkeeping in the frame's variable
   of that name (ops_generic.cpp: "___switch"); the frames match the reference scopes on every other name *)
Definition hidden (k:string) : bool := String.eqb k "___switch".

(* big-step evaluation of a frame-free expression in a fixed environment: [loc] resolves local names, [glob] global ones *)
Inductive pev (loc glob : string -> option rvalue) : expr -> rvalue -> Prop :=
| PNum n : pev loc glob (ENum n) (RNum n)
| PBool b : pev loc glob (EBool b) (RBool b)
| PStr s : pev loc glob (EStr s) (RStr s)
| PVarL n v : is_local n = true -> hidden (lower n) = false -> loc (lower n) = Some v -> is_data v = true -> pev loc glob (EVar n) v
| PVarG n v : is_local n = false -> glob (lower n) = Some v -> is_data v = true -> pev loc glob (EVar n) v
| PArr l vs : pevs loc glob l vs -> pev loc glob (EArr l) (RArr vs)
| PUn n a va v : (forall k, a <> ENum k) -> pev loc glob a va -> pure_unary (lower n) va = Some v -> pev loc glob (EUnary n a) v
| PBin n a b va vb v : pev loc glob a va -> pev loc glob b vb -> pure_binary (lower n) va vb = Some v -> pev loc glob (EBinary n a b) v
with pevs (loc glob : string -> option rvalue) : list expr -> list rvalue -> Prop :=
| PNil : pevs loc glob [] []
| PCons e v l vs : pev loc glob e v -> pevs loc glob l vs -> pevs loc glob (e :: l) (v :: vs).

Scheme pev_ind2 := Induction for pev Sort Prop
  with pevs_ind2 := Induction for pevs Sort Prop.
Combined Scheme pev_pevs_ind from pev_ind2, pevs_ind2.

(* the machine is in a state in which execute_do keeps going: running, no exit request, no error pending, no deadline,
   the current context not suspended *)
Definition Good (r:rt) (c:context) : Prop :=
  cur r = Some c /\ r_exit_req r = false /\ r_state r = StRunning /\ r_err r = false /\ r_msgs r = [] /\
  r_max_runtime r = 0%Z /\ c_suspended c = false.

(* the configuration of the machine - loop cap, time limit, slice length, tick, defect switches - is not touched *)
Definition cfg_same (r r1:rt) : Prop :=
  r_max_loop r1 = r_max_loop r /\ r_max_runtime r1 = r_max_runtime r /\ r_slice r1 = r_slice r /\
  r_tick r1 = r_tick r /\ r_defects r1 = r_defects r.

(* one or more passes of execute_do's loop that neither return nor fail (and leave the configuration alone) *)
Inductive Steps : rt -> rt -> Prop :=
| StepsRefl r : Steps r r
| StepsExec r r1 r2 : do_iter r = Ok (Executed r1) -> cfg_same r r1 -> Steps r1 r2 -> Steps r r2
| StepsCont r r1 r2 : do_iter r = Ok (Continue r1) -> cfg_same r r1 -> Steps r1 r2 -> Steps r r2.

Lemma cfg_refl r : cfg_same r r. Proof. unfold cfg_same. auto. Qed.
Lemma cfg_trans a b c : cfg_same a b -> cfg_same b c -> cfg_same a c.
Proof. unfold cfg_same. intros (A1 & A2 & A3 & A4 & A5) (B1 & B2 & B3 & B4 & B5). repeat split; congruence. Qed.
Lemma cfg_upd_cur r c : cfg_same r (upd_cur r c).
Proof. unfold cfg_same, upd_cur. destruct (r_active r); cbn; auto. Qed.
Lemma steps_cfg r r' : Steps r r' -> cfg_same r r'.
Proof. induction 1; [apply cfg_refl|eapply cfg_trans; eassumption|eapply cfg_trans; eassumption]. Qed.
Lemma steps_exec_upd r c : do_iter r = Ok (Executed (upd_cur r c)) -> Steps r (upd_cur r c).
Proof. intros H. eapply StepsExec; [exact H|apply cfg_upd_cur|apply StepsRefl]. Qed.
Lemma steps_cont_upd r c : do_iter r = Ok (Continue (upd_cur r c)) -> Steps r (upd_cur r c).
Proof. intros H. eapply StepsCont; [exact H|apply cfg_upd_cur|apply StepsRefl]. Qed.
