(* C12 - isolation with turns that CREATE globals, part 1: namespaces as finite maps.
   The model keeps the namespaces as association lists (VmDefs.r_nss: namespace name -> variable name -> value);
   a variable that does not exist yet is appended (assoc_set), so the position of an entry records the order of
   creation. nss_eq identifies two such lists when they are the same finite map: the same namespaces are defined
   and every (namespace, variable) has the same value or is undefined in both - the order of entries is free.
   req lifts this to machines: equal in every field except r_nss, which is nss_eq. *)
From Coq Require Import String Ascii ZArith List Bool Lia Arith Permutation.
From SqfVerif Require Import Gen.DiagCodes Gen.Overloads VM.VmDefs VM.VmExec VM.SchedDefs VM.SchedOps VM.SchedBase VM.SchedIter VM.C12FrameOps VM.C12Frame VM.C12Commute.
Import ListNotations.
Local Open Scope list_scope.

(* ------------------------------------------------------------------ association lists *)
Lemma assoc_set_get {A} k k' (v:A) l : assoc k (assoc_set k' v l) = if String.eqb k k' then Some v else assoc k l.
Proof.
  induction l as [|[k0 v0] l IH]; cbn.
  - destruct (String.eqb k k'); reflexivity.
  - destruct (String.eqb k' k0) eqn:E0; cbn.
    + apply String.eqb_eq in E0. subst k0. destruct (String.eqb k k'); reflexivity.
    + destruct (String.eqb k k0) eqn:E1.
      * apply String.eqb_eq in E1. subst k0. destruct (String.eqb k k') eqn:E2; auto.
        apply String.eqb_eq in E2. subst k'. rewrite String.eqb_refl in E0. discriminate.
      * exact IH.
Qed.

Definition ns_def (a:list (string * list (string * value))) (ns:string) : bool :=
  match assoc ns a with Some _ => true | None => false end.

Lemma raw_get_set a ns n v ns' n' :
  raw_get (raw_set a ns n v) ns' n' = if key_eqb (ns', n') (ns, n) then Some v else raw_get a ns' n'.
Proof.
  unfold raw_get, raw_set, key_eqb. cbn [fst snd]. rewrite assoc_set_get.
  destruct (String.eqb ns' ns) eqn:E; cbn [andb]; [|reflexivity].
  apply String.eqb_eq in E. subst ns'. rewrite assoc_set_get.
  destruct (String.eqb n' n); [reflexivity|]. destruct (assoc ns a); reflexivity.
Qed.
Lemma ns_def_set a ns n v ns' : ns_def (raw_set a ns n v) ns' = orb (String.eqb ns' ns) (ns_def a ns').
Proof. unfold ns_def, raw_set. rewrite assoc_set_get. destruct (String.eqb ns' ns); reflexivity. Qed.

Lemma key_eqb_eq a b : key_eqb a b = true -> a = b.
Proof.
  unfold key_eqb. intro H. apply andb_prop in H. destruct H as [H1 H2].
  apply String.eqb_eq in H1. apply String.eqb_eq in H2. destruct a, b. cbn in *. subst. reflexivity.
Qed.
Lemma key_eqb_refl a : key_eqb a a = true.
Proof. unfold key_eqb. rewrite !String.eqb_refl. reflexivity. Qed.

(* ------------------------------------------------------------------ the same finite map *)
Definition nss_eq (a b:list (string * list (string * value))) : Prop :=
  (forall ns n, raw_get a ns n = raw_get b ns n) /\ (forall ns, ns_def a ns = ns_def b ns).

Lemma nss_eq_refl a : nss_eq a a.
Proof. split; reflexivity. Qed.
Lemma nss_eq_sym a b : nss_eq a b -> nss_eq b a.
Proof. intros [H1 H2]. split; intros; symmetry; auto. Qed.
Lemma nss_eq_trans a b c : nss_eq a b -> nss_eq b c -> nss_eq a c.
Proof. intros [H1 H2] [H3 H4]. split; intros; [rewrite H1|rewrite H2]; auto. Qed.
Lemma nss_eq_set a b ns n v : nss_eq a b -> nss_eq (raw_set a ns n v) (raw_set b ns n v).
Proof.
  intros [H1 H2]. split; intros.
  - rewrite !raw_get_set, H1. reflexivity.
  - rewrite !ns_def_set, H2. reflexivity.
Qed.

(* the order of entries is the only freedom: for association lists without repeated keys (all that assoc_set
   builds from the empty list), the same lookups mean a permutation of the entries *)
Lemma assoc_in_nodup {A} (l:list (string * A)) k v : NoDup (map fst l) -> (In (k, v) l <-> assoc k l = Some v).
Proof.
  induction l as [|[k0 v0] l IH]; cbn; intro ND.
  - split; [tauto|discriminate].
  - inversion ND as [|? ? N1 N2]; subst. destruct (String.eqb k k0) eqn:E.
    + apply String.eqb_eq in E. subst k0. split.
      * intros [H|H]; [congruence|]. exfalso. apply N1. apply (in_map fst) in H. exact H.
      * intro H. left. congruence.
    + split.
      * intros [H|H]; [inversion H; subst; rewrite String.eqb_refl in E; discriminate|]. apply IH; auto.
      * intro H. right. apply IH; auto.
Qed.
Lemma same_lookups_permutation {A} (l l':list (string * A)) :
  NoDup (map fst l) -> NoDup (map fst l') -> (forall k, assoc k l = assoc k l') -> Permutation l l'.
Proof.
  intros N N' H. apply NoDup_Permutation.
  - eapply NoDup_map_inv; eauto.
  - eapply NoDup_map_inv; eauto.
  - intros [k v]. rewrite (assoc_in_nodup l k v N), (assoc_in_nodup l' k v N'), H. tauto.
Qed.

(* ------------------------------------------------------------------ the writes of a turn, replayed *)
(* wr W src a: every key of W that is defined in src takes its value from src - overwritten where it exists in a,
   created (appended) where it does not *)
Definition is_some {A} (o:option A) : bool := match o with Some _ => true | None => false end.
Definition wr1 (src a:list (string * list (string * value))) (k:key) :=
  match raw_get src (fst k) (snd k) with Some v => raw_set a (fst k) (snd k) v | None => a end.
Fixpoint wr (W:list key) (src a:list (string * list (string * value))) :=
  match W with [] => a | k :: W' => wr1 src (wr W' src a) k end.

Lemma wr_get W s a ns n :
  raw_get (wr W s a) ns n =
    if kin (ns, n) W then match raw_get s ns n with Some v => Some v | None => raw_get a ns n end else raw_get a ns n.
Proof.
  induction W as [|k W IH]; [reflexivity|].
  cbn [wr]. unfold wr1. unfold kin in *. cbn [existsb].
  destruct (raw_get s (fst k) (snd k)) as [v|] eqn:S.
  - rewrite raw_get_set. change (fst k, snd k) with (fst k, snd k).
    assert (K : key_eqb (ns, n) (fst k, snd k) = key_eqb (ns, n) k) by reflexivity. rewrite K.
    destruct (key_eqb (ns, n) k) eqn:E; cbn [orb].
    + apply key_eqb_eq in E. subst k. cbn [fst snd] in S. rewrite S. reflexivity.
    + exact IH.
  - destruct (key_eqb (ns, n) k) eqn:E; cbn [orb].
    + apply key_eqb_eq in E. subst k. cbn [fst snd] in S. rewrite IH, S.
      destruct (existsb (key_eqb (ns, n)) W); reflexivity.
    + exact IH.
Qed.
Definition creates (s:list (string * list (string * value))) (ns:string) (k:key) : bool :=
  andb (String.eqb ns (fst k)) (is_some (raw_get s (fst k) (snd k))).
Lemma wr_def W s a ns : ns_def (wr W s a) ns = orb (ns_def a ns) (existsb (creates s ns) W).
Proof.
  induction W as [|k W IH]; [cbn; rewrite orb_false_r; reflexivity|].
  cbn [wr existsb]. unfold wr1, creates at 1.
  destruct (raw_get s (fst k) (snd k)); cbn [is_some].
  - rewrite ns_def_set, IH. destruct (String.eqb ns (fst k)), (ns_def a ns), (existsb (creates s ns) W); reflexivity.
  - rewrite IH, andb_false_r. reflexivity.
Qed.

Lemma wr_cong W s a b : nss_eq a b -> nss_eq (wr W s a) (wr W s b).
Proof.
  intros [H1 H2]. split; intros.
  - rewrite !wr_get, H1. reflexivity.
  - rewrite !wr_def, H2. reflexivity.
Qed.
Lemma wr_get_other W s a ns n : kin (ns, n) W = false -> raw_get (wr W s a) ns n = raw_get a ns n.
Proof. intro K. rewrite wr_get, K. reflexivity. Qed.
Lemma wr_set_comm W s a ns n v : kin (ns, n) W = false -> nss_eq (wr W s (raw_set a ns n v)) (raw_set (wr W s a) ns n v).
Proof.
  intro K. split.
  - intros ns' n'. rewrite raw_get_set, !wr_get, raw_get_set.
    destruct (key_eqb (ns', n') (ns, n)) eqn:E; [|reflexivity].
    apply key_eqb_eq in E. inversion E; subst. rewrite K. reflexivity.
  - intro ns'. rewrite ns_def_set, !wr_def, ns_def_set.
    destruct (String.eqb ns' ns), (ns_def a ns'), (existsb (creates s ns') W); reflexivity.
Qed.
Lemma wr_comm W1 W2 s1 s2 a : disjoint W1 W2 = true -> nss_eq (wr W1 s1 (wr W2 s2 a)) (wr W2 s2 (wr W1 s1 a)).
Proof.
  intro D. split.
  - intros ns n. rewrite !wr_get.
    destruct (kin (ns, n) W1) eqn:K1; destruct (kin (ns, n) W2) eqn:K2; try reflexivity.
    rewrite (disjoint_spec _ _ _ D K1) in K2. discriminate.
  - intro ns. rewrite !wr_def.
    destruct (ns_def a ns), (existsb (creates s1 ns) W1), (existsb (creates s2 ns) W2); reflexivity.
Qed.

(* ------------------------------------------------------------------ changes of the namespaces a script does not see *)
(* G changes the namespaces in a way that a script with read footprint R and write footprint W cannot observe:
   the globals of R read the same, an assignment to a global of W commutes with G up to the order of entries,
   and G does not look at the order of entries *)
Record sem_ok (G:list (string * list (string * value)) -> list (string * list (string * value))) (R W:list key) : Prop := {
  so_get : forall a ns n, kin (ns, n) R = true -> raw_get (G a) ns n = raw_get a ns n;
  so_set : forall a ns n v, kin (ns, n) W = true -> nss_eq (G (raw_set a ns n v)) (raw_set (G a) ns n v);
  so_cong : forall a b, nss_eq a b -> nss_eq (G a) (G b) }.

Lemma sem_ok_id R W : sem_ok (fun a => a) R W.
Proof. split; intros; auto using nss_eq_refl. Qed.
Lemma sem_ok_wr Wj s R W : disjoint R Wj = true -> disjoint W Wj = true -> sem_ok (wr Wj s) R W.
Proof.
  intros D1 D2. split.
  - intros a ns n K. apply wr_get_other. apply (disjoint_spec _ _ _ D1 K).
  - intros a ns n v K. apply wr_set_comm. apply (disjoint_spec _ _ _ D2 K).
  - intros a b. apply wr_cong.
Qed.
Lemma sem_ok_comp G1 G2 R W : sem_ok G1 R W -> sem_ok G2 R W -> sem_ok (fun a => G1 (G2 a)) R W.
Proof.
  intros A B. split.
  - intros a ns n K. rewrite (so_get _ _ _ A), (so_get _ _ _ B); auto.
  - intros a ns n v K. eapply nss_eq_trans; [apply (so_cong _ _ _ A); apply (so_set _ _ _ B); auto|]. apply (so_set _ _ _ A); auto.
  - intros a b H. apply (so_cong _ _ _ A). apply (so_cong _ _ _ B). exact H.
Qed.

(* ------------------------------------------------------------------ machines *)
(* req: the same machine up to the order of the entries of its namespaces *)
Definition req (r r':rt) : Prop := set_nss r [] = set_nss r' [] /\ nss_eq (r_nss r) (r_nss r').
Lemma req_refl r : req r r.
Proof. split; [reflexivity|apply nss_eq_refl]. Qed.
Lemma req_sym r r' : req r r' -> req r' r.
Proof. intros [A B]. split; [auto|apply nss_eq_sym; auto]. Qed.
Lemma req_trans a b c : req a b -> req b c -> req a c.
Proof. intros [A B] [C D]. split; [congruence|eapply nss_eq_trans; eauto]. Qed.
