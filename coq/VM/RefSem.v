(* M2s - the reference semantics of SQF control structures: a fuelled big-step interpreter over the
   source AST (VmExec.expr/stmt) with a dynamic scope chain.  This is the SPEC layer for C02: it follows
   the property text; where the text is silent it follows DESIGN.md Appendix A (observed behaviour).
   Outcomes: normal value, exitWith (leaves the current scope with a value), breakOut (leaves up to and
   including the named scope), throw, runtime error.  No frames, no operand stack, no instruction pointer. *)
From Coq Require Import String Ascii.
From Coq Require Import ZArith List Bool.
From SqfVerif Require Import VM.VmDefs VM.VmExec.
Import ListNotations.
Local Open Scope string_scope.
Local Open Scope list_scope.

(* ------------------------------------------------------------------ values *)
Inductive rvalue :=
| RNil | RNum (n:Z) | RBool (b:bool) | RStr (s:string) | RArr (l:list rvalue) | RCode (b:list stmt)
| RIf (b:bool) | RWhile (c:list stmt) | RFor (var:string) (from to step:Z)
| RSwitch (v:rvalue) | RTry (b:list stmt) | RNs (ns:string) | RWith (ns:string)
| RNone.   (* no value at all: what a call skipped because of a nil operand leaves behind *)

Fixpoint req (cs:bool) (a b:rvalue) {struct a} : bool :=
  match a, b with
  | RNum x, RNum y => Z.eqb x y
  | RBool x, RBool y => Bool.eqb x y
  | RStr x, RStr y => if cs then String.eqb x y else String.eqb (lower x) (lower y)
  | RArr x, RArr y =>
      (fix go (l1 l2:list rvalue) : bool :=
         match l1, l2 with [], [] => true | u :: l1', w :: l2' => andb (req cs u w) (go l1' l2') | _, _ => false end) x y
  | RNs x, RNs y => String.eqb x y
  | _, _ => false end.

Fixpoint rshow (sqf:bool) (v:rvalue) {struct v} : option string :=
  match v with
  | RNil => Some (if sqf then "nil" else "")
  | RNum n => if andb (Z.ltb (-1000000) n) (Z.ltb n 1000000) then Some (show_Z n) else None
  | RBool b => Some (if b then "true" else "false")
  | RStr s => Some (if sqf then append """" (append (quote_str s) """") else s)
  | RArr l =>
      match (fix go (l:list rvalue) : option string :=
               match l with
               | [] => Some ""
               | u :: l' => match rshow sqf u, go l' with
                            | Some a, Some b => Some (append a (match l' with [] => b | _ => append "," b end))
                            | _, _ => None end end) l with
      | Some s => Some (append "[" (append s "]")) | None => None end
  | _ => None end.

(* ------------------------------------------------------------------ state *)
Record scope := { sc_vars : list (string * rvalue); sc_ns : string; sc_name : string }.
Record sstate := {
  st_scopes : list scope;                                (* innermost first *)
  st_nss : list (string * list (string * rvalue));
  st_trace : list string }.                              (* diag_log markers, newest first *)

Definition mk_scope (ns:string) (vars:list (string*rvalue)) : scope := {| sc_vars := vars; sc_ns := ns; sc_name := "" |}.
Definition with_scopes (s:sstate) (l:list scope) : sstate := {| st_scopes := l; st_nss := st_nss s; st_trace := st_trace s |}.
Definition cur_ns_of (s:sstate) : string := match st_scopes s with sc :: _ => sc_ns sc | [] => default_ns end.
Definition push_scope (s:sstate) (sc:scope) : sstate := with_scopes s (sc :: st_scopes s).
Definition pop_scope (s:sstate) : sstate := with_scopes s (tl (st_scopes s)).
Definition set_top_vars (s:sstate) (vars:list (string*rvalue)) : sstate :=
  match st_scopes s with
  | sc :: r => with_scopes s ({| sc_vars := vars; sc_ns := sc_ns sc; sc_name := sc_name sc |} :: r)
  | [] => s end.

Fixpoint lookup_scopes (n:string) (l:list scope) : option rvalue :=
  match l with [] => None | sc :: r => match assoc n (sc_vars sc) with Some v => Some v | None => lookup_scopes n r end end.
Fixpoint assign_scopes (n:string) (v:rvalue) (l:list scope) : option (list scope) :=
  match l with
  | [] => None
  | sc :: r => match assoc n (sc_vars sc) with
               | Some _ => Some ({| sc_vars := assoc_set n v (sc_vars sc); sc_ns := sc_ns sc; sc_name := sc_name sc |} :: r)
               | None => match assign_scopes n v r with Some r' => Some (sc :: r') | None => None end end
  end.
Definition bind_here (s:sstate) (n:string) (v:rvalue) : sstate :=
  match st_scopes s with
  | sc :: r => with_scopes s ({| sc_vars := assoc_set (lower n) v (sc_vars sc); sc_ns := sc_ns sc; sc_name := sc_name sc |} :: r)
  | [] => s end.
(* a plain assignment updates the nearest scope that already holds the name, otherwise creates it in the current one *)
Definition assign_local (s:sstate) (n:string) (v:rvalue) : sstate :=
  match assign_scopes (lower n) v (st_scopes s) with Some l => with_scopes s l | None => bind_here s n v end.
Definition rns_get (s:sstate) (ns n:string) : option rvalue :=
  match assoc ns (st_nss s) with Some m => assoc (lower n) m | None => None end.
Definition rns_set (s:sstate) (ns n:string) (v:rvalue) : sstate :=
  let m := match assoc ns (st_nss s) with Some m => m | None => [] end in
  {| st_scopes := st_scopes s; st_nss := assoc_set ns (assoc_set (lower n) v m) (st_nss s); st_trace := st_trace s |}.
Definition rmark (s:sstate) (t:string) : sstate := {| st_scopes := st_scopes s; st_nss := st_nss s; st_trace := t :: st_trace s |}.

(* ------------------------------------------------------------------ outcomes *)
Inductive outcome :=
| ONormal (v:rvalue)
| OExit (v:rvalue)                 (* exitWith: the current scope ends with this value *)
| OBreak (name:string) (v:rvalue)  (* breakOut: scopes end up to and including the named one *)
| OThrow (v:rvalue)
| OError                           (* runtime error without handler *)
| OUnsupported (why:string)
| OFuel.

Definition rnum (n:Z) : outcome := if is_int_in_range n then ONormal (RNum n) else OUnsupported "number range".

(* the switch body's bookkeeping (d_switch): value, chosen code, match_now, has_match *)
Record swst := { sw_v : rvalue; sw_target : option (list stmt); sw_now : bool; sw_has : bool }.

Fixpoint nth_r (l:list rvalue) (i:nat) : rvalue := match l, i with [], _ => RNil | x :: _, O => x | _ :: r, S i' => nth_r r i' end.

Section Eval.
(* The interpreter.  [eval_block f s stmts] evaluates a statement list in the CURRENT scope and returns the
   value of the last statement executed (nil if none / if it was an assignment).  [in_scope] opens a scope,
   evaluates a block in it and closes it, turning OExit into the block's value. *)
Fixpoint eval (f:nat) (s:sstate) (e:expr) {struct f} : outcome * sstate :=
  match f with O => (OFuel, s) | S f =>
  let in_scope := fun (s:sstate) (sc:scope) (b:list stmt) =>
    let '(o, s1) := eval_block f (push_scope s sc) b RNil in
    let s2 := pop_scope s1 in
    match o with
    | ONormal RNone => (ONormal RNil, s2)             (* a finished scope always yields one value *)
    | OExit v => (ONormal v, s2)
    | OBreak name v => (* the scope being left may be the named one *)
        match st_scopes s1 with
        | sc' :: _ => if String.eqb (sc_name sc') name then (ONormal v, s2) else (OBreak name v, s2)
        | [] => (OBreak name v, s2) end
    | other => (other, s2) end in
  let plain_scope := fun (s:sstate) (vars:list (string*rvalue)) => mk_scope (cur_ns_of s) vars in
  match e with
  | ENum n => (ONormal (RNum n), s)
  | EBool b => (ONormal (RBool b), s)
  | EStr t => (ONormal (RStr t), s)
  | ECode b => (ONormal (RCode b), s)
  | EVar n =>
      if is_local n then (ONormal (match lookup_scopes (lower n) (st_scopes s) with Some v => v | None => RNil end), s)
      else (ONormal (match rns_get s (cur_ns_of s) n with Some v => v | None => RNil end), s)
  | EArr l =>
      (fix go (s:sstate) (l:list expr) (acc:list rvalue) : outcome * sstate :=
         match l with
         | [] => (ONormal (RArr (rev acc)), s)
         | x :: r => match eval f s x with
                     | (ONormal RNone, s1) => (OError, s1)
                     | (ONormal v, s1) => go s1 r (v :: acc)
                     | other => other end end) s l []
  | ENular n =>
      let n := lower n in
      if String.eqb n "nil" then (ONormal RNil, s)
      else if String.eqb n "missionnamespace" then (ONormal (RNs "missionNamespace"), s)
      else if String.eqb n "uinamespace" then (ONormal (RNs "uiNamespace"), s)
      else (OUnsupported (append "nular " n), s)
  | EUnary n a =>
      let n := lower n in
      match e with
      | EUnary _ (ENum k) => if String.eqb n "-" then (ONormal (RNum (- k)), s) else if String.eqb n "+" then (ONormal (RNum k), s)
                             else eval_unary f s n (RNum k) in_scope plain_scope
      | _ =>
        match eval f s a with
        | (ONormal RNil, s1) => (ONormal RNone, s1)       (* a nil operand: the call is skipped (warning), nothing is produced *)
        | (ONormal RNone, s1) => (OError, s1)             (* no operand at all: error *)
        | (ONormal v, s1) => eval_unary f s1 n v in_scope plain_scope
        | other => other end end
  | EBinary n a b =>
      let n := lower n in
      match eval f s a with
      | (ONormal va, s1) =>
          match eval f s1 b with
          | (ONormal vb, s2) =>
              match va, vb with
              | _, RNone => (OError, s2)
              | RNil, RNil => (ONormal RNil, s2)       (* the call is skipped: the right nil is consumed, the left one stays as the value *)
              | _, RNil => (OUnsupported "nil right operand (the implementation then leaves the left operand behind)", s2)
              | RNone, _ => (OError, s2)
              | RNil, _ => (ONormal RNone, s2)
              | _, _ => eval_binary f s2 n va vb in_scope plain_scope end
          | other => other end
      | other => other end
  end end
with eval_unary (f:nat) (s:sstate) (n:string) (v:rvalue)
       (in_scope : sstate -> scope -> list stmt -> outcome * sstate)
       (plain_scope : sstate -> list (string*rvalue) -> scope) {struct f} : outcome * sstate :=
  match f with O => (OFuel, s) | S f =>
  if String.eqb n "call" then
    match v with
    | RCode b => let this := match lookup_scopes "_this" (st_scopes s) with Some t => t | None => RNil end in
                 in_scope s (plain_scope s [("_this", this)]) b
    | _ => (OUnsupported "call", s) end
  else if String.eqb n "if" then match v with RBool b => (ONormal (RIf b), s) | _ => (OError, s) end
  else if String.eqb n "while" then match v with RCode b => (ONormal (RWhile b), s) | _ => (OUnsupported "while", s) end
  else if String.eqb n "for" then match v with RStr x => (ONormal (RFor x 0 0 1), s) | _ => (OUnsupported "for", s) end
  else if String.eqb n "switch" then (ONormal (RSwitch v), s)
  else if String.eqb n "try" then match v with RCode b => (ONormal (RTry b), s) | _ => (OUnsupported "try", s) end
  else if String.eqb n "throw" then (OThrow v, s)
  else if String.eqb n "scopename" then
    match v, st_scopes s with
    | RStr t, sc :: r => if String.eqb (sc_name sc) "" then (ONormal RNil, with_scopes s ({| sc_vars := sc_vars sc; sc_ns := sc_ns sc; sc_name := t |} :: r))
                         else (OError, s)
    | _, _ => (OUnsupported "scopeName", s) end
  else if String.eqb n "breakout" then match v with RStr t => (OBreak t RNil, s) | _ => (OUnsupported "breakOut", s) end
  else if String.eqb n "private" then
    match v with
    | RStr x => (ONormal RNil, match st_scopes s with
                               | sc :: _ => match assoc (lower x) (sc_vars sc) with Some _ => s | None => bind_here s x RNil end
                               | [] => s end)
    | _ => (OUnsupported "private", s) end
  else if String.eqb n "with" then match v with RNs t => (ONormal (RWith t), s) | _ => (OUnsupported "with", s) end
  else if String.eqb n "diag_log" then
    match rshow false v with Some t => (ONormal RNil, rmark s t) | None => (OUnsupported "diag_log", s) end
  else if String.eqb n "str" then match rshow true v with Some t => (ONormal (RStr t), s) | None => (OUnsupported "str", s) end
  else if String.eqb n "count" then match v with RArr l => (ONormal (RNum (Z.of_nat (length l))), s) | _ => (OUnsupported "count", s) end
  else if String.eqb n "!" then match v with RBool b => (ONormal (RBool (negb b)), s) | _ => (OError, s) end
  else if String.eqb n "-" then match v with RNum x => if Z.eqb x 0 then (OUnsupported "negative zero", s) else (rnum (- x), s) | _ => (OUnsupported "unary -", s) end
  else if String.eqb n "+" then match v with RNum x => (ONormal v, s) | RArr _ => (ONormal v, s) | _ => (OUnsupported "unary +", s) end
  else (OUnsupported (append "unary " n), s) end
with eval_binary (f:nat) (s:sstate) (n:string) (l r:rvalue)
       (in_scope : sstate -> scope -> list stmt -> outcome * sstate)
       (plain_scope : sstate -> list (string*rvalue) -> scope) {struct f} : outcome * sstate :=
  match f with O => (OFuel, s) | S f =>
  (* iteration over an array: [step] is given the element, the index and the body's value, and says whether to
     go on; a fresh scope per iteration; exitWith inside the body ends the whole loop with its value *)
  let iterate := fix iterate (k:nat) (s:sstate) (arr:list rvalue) (i:nat) (body:list stmt) (with_index:bool)
                     (acc:rvalue) (step:rvalue -> nat -> rvalue -> rvalue -> option (bool * rvalue)) {struct k}
                     : outcome * sstate :=
    match k with O => (OFuel, s) | S k =>
    match arr with
    | [] => (ONormal acc, s)
    | x :: rest =>
        let vars := if with_index then [("_foreachindex", RNum (Z.of_nat i)); ("_x", x)] else [("_x", x)] in
        let '(o, s1) := eval_block f (push_scope s (plain_scope s vars)) body (match i with O => RNil | _ => RNone end) in
        let s2 := pop_scope s1 in
        match o with
        | ONormal v => match step x i v acc with
                       | Some (true, acc') => iterate k s2 rest (S i) body with_index acc' step
                       | Some (false, acc') => (ONormal acc', s2)
                       | None => (OError, s2) end
        | OExit v => (ONormal v, s2)
        | OBreak name v => match st_scopes s1 with
                           | sc' :: _ => if String.eqb (sc_name sc') name then (ONormal v, s2) else (OBreak name v, s2)
                           | [] => (OBreak name v, s2) end
        | other => (other, s2) end end end in
  if String.eqb n "call" then
    match r with RCode b => in_scope s (plain_scope s [("_this", l)]) b | _ => (OUnsupported "call", s) end
  else if String.eqb n "then" then
    match l, r with
    | RIf c, RCode b => if c then in_scope s (plain_scope s []) b else (ONormal RNil, s)
    | RIf c, RArr [RCode a; RCode b] => in_scope s (plain_scope s []) (if c then a else b)
    | _, _ => (OUnsupported "then", s) end
  else if String.eqb n "else" then
    match l, r with RCode a, RCode b => (ONormal (RArr [RCode a; RCode b]), s) | _, _ => (OUnsupported "else", s) end
  else if String.eqb n "exitwith" then
    match l, r with
    | RIf c, RCode b => if c then match in_scope s (plain_scope s []) b with
                                   | (ONormal v, s1) => (OExit v, s1)
                                   | other => other end
                        else (ONormal RNil, s)
    | _, _ => (OUnsupported "exitWith", s) end
  else if String.eqb n "do" then
    match l, r with
    | RWhile cond, RCode body =>
        match cond with
        | [] => (OError, s)
        | _ =>
          (fix loop (k:nat) (s:sstate) (n:nat) : outcome * sstate :=
             match k with O => (OFuel, s) | S k =>
             (* the condition and the body run in one scope that is emptied before each of them *)
             let '(oc, s1) := eval_block f (push_scope s (plain_scope s [])) cond (match n with O => RNil | _ => RNone end) in
             let leave := fun (o:outcome) (s1:sstate) =>
               match o with
               | OExit v => (ONormal v, pop_scope s1)
               | OBreak name v => match st_scopes s1 with
                                  | sc' :: _ => if String.eqb (sc_name sc') name then (ONormal v, pop_scope s1) else (OBreak name v, pop_scope s1)
                                  | [] => (OBreak name v, pop_scope s1) end
               | other => (other, pop_scope s1) end in
             match oc with
             | ONormal (RBool true) =>
                 let '(ob, s2) := eval_block f (set_top_vars s1 []) body RNone in
                 match ob with
                 | ONormal v => loop k (pop_scope s2) (S n)
                 | other => leave other s2 end
             | ONormal (RBool false) => (ONormal RNil, pop_scope s1)
             | ONormal RNil => (ONormal RNil, pop_scope s1)       (* warning only *)
             | ONormal _ => (OError, pop_scope s1)                (* not a boolean, or no value at all *)
             | other => leave other s1 end end) f s O end
    | RFor var from to step, RCode body =>
        if andb (negb (Z.eqb step 0)) (if Z.ltb 0 step then Z.ltb to from else Z.ltb from to) then (ONormal RNil, s)
        else
          (fix loop (k:nat) (s:sstate) (x:Z) (first:bool) : outcome * sstate :=
             match k with O => (OFuel, s) | S k =>
             let '(o, s1) := eval_block f (push_scope s (plain_scope s [(lower var, RNum x)])) body (if first then RNil else RNone) in
             let s2 := pop_scope s1 in
             match o with
             | ONormal v0 =>
                 let v := match v0 with RNone => RNil | _ => v0 end in
                 (* the loop variable is read back from the scope: assigning it in the body changes the iteration *)
                 match st_scopes s1 with
                 | sc :: _ => match assoc (lower var) (sc_vars sc) with
                              | Some (RNum y) => let u := (y + step)%Z in
                                                 if (if Z.leb 0 step then Z.ltb to u else Z.ltb u to) then (ONormal v, s2)
                                                 else loop k s2 u false
                              | _ => (ONormal v, s2) end
                 | [] => (ONormal v, s2) end
             | OExit v => (ONormal v, s2)
             | OBreak name v => match st_scopes s1 with
                                | sc' :: _ => if String.eqb (sc_name sc') name then (ONormal v, s2) else (OBreak name v, s2)
                                | [] => (OBreak name v, s2) end
             | other => (other, s2) end end) f s from true
    | RSwitch v, RCode body =>
        (* the cases are the statements of the body, evaluated in the switch scope; exactly one block runs *)
        let '(o, s1, sw) := eval_switch_body f (push_scope s (plain_scope s [])) body {| sw_v := v; sw_target := None; sw_now := false; sw_has := false |} in
        match o with
        | ONormal _ =>
            match sw_target sw with
            | Some (t :: ts) => let '(o2, s2) := eval_block f s1 (t :: ts) RNil in
                           let s3 := pop_scope s2 in
                           match o2 with
                           | ONormal RNone => (ONormal RNil, s3)
                           | OExit x => (ONormal x, s3)
                           | OBreak name x => match st_scopes s2 with
                                              | sc' :: _ => if String.eqb (sc_name sc') name then (ONormal x, s3) else (OBreak name x, s3)
                                              | [] => (OBreak name x, s3) end
                           | other => (other, s3) end
            | _ => (ONormal RNil, pop_scope s1) end
        | other => (other, pop_scope s1) end
    | RWith ns, RCode body => in_scope s (mk_scope ns []) body
    | _, _ => (OUnsupported "do", s) end
  else if String.eqb n "from" then match l, r with RFor v _ t st, RNum x => (ONormal (RFor v x t st), s) | _, _ => (OUnsupported "from", s) end
  else if String.eqb n "to" then match l, r with RFor v fr _ st, RNum x => (ONormal (RFor v fr x st), s) | _, _ => (OUnsupported "to", s) end
  else if String.eqb n "step" then match l, r with RFor v fr t _, RNum x => (ONormal (RFor v fr t x), s) | _, _ => (OUnsupported "step", s) end
  else if String.eqb n "foreach" then
    match l, r with
    | RCode body, RArr arr => iterate (S (length arr)) s arr O body true RNil (fun _ _ v _ => Some (true, match v with RNone => RNil | _ => v end))
    | _, _ => (OUnsupported "forEach", s) end
  else if String.eqb n "count" then
    match l, r with
    | RCode body, RArr arr =>
        iterate (S (length arr)) s arr O body false (RNum 0)
          (fun _ _ v acc => match v, acc with
                            | RBool t, RNum c => Some (true, RNum (if t then c + 1 else c)%Z)
                            | RNil, _ => Some (true, acc)
                            | _, _ => None end)
    | _, _ => (OUnsupported "count", s) end
  else if String.eqb n "select" then
    match l, r with
    | RArr arr, RNum i =>
        if orb (Z.ltb (Z.of_nat (length arr)) i) (Z.ltb i 0) then (OError, s)
        else if Z.eqb (Z.of_nat (length arr)) i then (ONormal RNil, s)
        else (ONormal (nth_r arr (Z.to_nat i)), s)
    | RArr arr, RCode body =>
        iterate (S (length arr)) s arr O body false (RArr [])
          (fun x _ v acc => match v, acc with
                            | RBool t, RArr out => Some (true, RArr (if t then out ++ [x] else out))
                            | RNil, _ => Some (true, acc)
                            | _, _ => None end)
    | _, _ => (OUnsupported "select", s) end
  else if String.eqb n "apply" then
    match l, r with
    | RArr arr, RCode body =>
        iterate (S (length arr)) s arr O body false (RArr [])
          (fun _ _ v acc => match v, acc with RNone, _ => None | _, RArr out => Some (true, RArr (out ++ [v])) | _, _ => None end)
    | _, _ => (OUnsupported "apply", s) end
  else if String.eqb n "findif" then
    match l, r with
    | RArr arr, RCode body =>
        iterate (S (length arr)) s arr O body false (RNum (-1))
          (fun _ i v acc => match v with
                            | RBool true => Some (false, RNum (Z.of_nat i))
                            | RBool false => Some (true, acc)
                            | _ => None end)
    | _, _ => (OUnsupported "findIf", s) end
  else if String.eqb n "catch" then
    match l, r with
    | RTry body, RCode handler =>
        (* the try block runs in its own scope; a throw from anywhere inside is caught here: the handler runs in
           that scope, emptied, with _exception bound; its value is the value of the construct *)
        let '(o, s1) := eval_block f (push_scope s (plain_scope s [])) body RNil in
        let finish := fun (o:outcome) (s1:sstate) =>
          match o with
          | ONormal RNone => (ONormal RNil, pop_scope s1)
          | OExit v => (ONormal v, pop_scope s1)
          | OBreak name v => match st_scopes s1 with
                             | sc' :: _ => if String.eqb (sc_name sc') name then (ONormal v, pop_scope s1) else (OBreak name v, pop_scope s1)
                             | [] => (OBreak name v, pop_scope s1) end
          | other => (other, pop_scope s1) end in
        match o with
        | OThrow x => let '(o2, s2) := eval_block f (set_top_vars s1 [("_exception", x)]) handler RNil in finish o2 s2
        | other => finish other s1 end
    | _, _ => (OUnsupported "catch", s) end
  else if String.eqb n "breakout" then match r with RStr t => (OBreak t l, s) | _ => (OUnsupported "breakOut", s) end
  else if String.eqb n "throw" then match l with RIf c => if c then (OThrow r, s) else (ONormal RNil, s) | _ => (OUnsupported "throw", s) end
  else if String.eqb n "getvariable" then
    match l, r with
    | RNs ns, RStr x => (ONormal (match rns_get s ns x with Some v => v | None => RNil end), s)
    | RNs ns, RArr [RStr x; d] => (ONormal (match rns_get s ns x with Some v => v | None => d end), s)
    | _, _ => (OUnsupported "getVariable", s) end
  else if String.eqb n "setvariable" then
    match l, r with RNs ns, RArr [RStr x; v] => (ONormal RNil, rns_set s ns x v) | _, _ => (OUnsupported "setVariable", s) end
  else if String.eqb n "+" then
    match l, r with
    | RNum x, RNum y => (rnum (x + y), s)
    | RArr x, RArr y => (ONormal (RArr (x ++ y)), s)
    | RStr x, RStr y => (ONormal (RStr (append x y)), s)
    | _, _ => (OError, s) end
  else if String.eqb n "-" then match l, r with RNum x, RNum y => (rnum (x - y), s) | _, _ => (OUnsupported "-", s) end
  else if String.eqb n "*" then
    match l, r with
    | RNum x, RNum y => if andb (Z.eqb (x * y) 0) (orb (Z.ltb x 0) (Z.ltb y 0)) then (OUnsupported "negative zero", s) else (rnum (x * y), s)
    | _, _ => (OError, s) end
  else if orb (String.eqb n "==") (String.eqb n "!=") then
    match l, r with
    | RNum _, RNum _ | RBool _, RBool _ | RStr _, RStr _ => let e := req false l r in (ONormal (RBool (if String.eqb n "==" then e else negb e)), s)
    | _, _ => (OError, s) end
  else if String.eqb n "isequalto" then
    match rshow true l, rshow true r with Some _, Some _ => (ONormal (RBool (req true l r)), s) | _, _ => (OUnsupported "isEqualTo", s) end
  else if orb (String.eqb n "&&") (String.eqb n "and") then
    match l, r with
    | RBool a, RBool b => (ONormal (RBool (andb a b)), s)
    | RBool a, RCode body => if a then in_scope s (plain_scope s []) body else (ONormal (RBool false), s)   (* right side only when needed *)
    | _, _ => (OError, s) end
  else if orb (String.eqb n "||") (String.eqb n "or") then
    match l, r with
    | RBool a, RBool b => (ONormal (RBool (orb a b)), s)
    | RBool a, RCode body => if a then (ONormal (RBool true), s) else in_scope s (plain_scope s []) body
    | _, _ => (OError, s) end
  else match cmp_op n 0 0, l, r with
       | Some _, RNum x, RNum y => match cmp_op n x y with Some b => (ONormal (RBool b), s) | None => (OUnsupported n, s) end
       | Some _, _, _ => (OError, s)
       | None, _, _ => (OUnsupported (append "binary " n), s) end
  end
(* statements of a block, in the current scope.  [region] is what the scope's operand region holds on entry:
   nil (the placeholder every scope opened by an operator starts with), or nothing (RNone) after a separator /
   an iteration restart.  An expression statement leaves its value there, an assignment leaves the region as it
   was, a separator empties it.  The block's value is the region after its last statement. *)
with eval_block (f:nat) (s:sstate) (b:list stmt) (region:rvalue) {struct f} : outcome * sstate :=
  match f with O => (OFuel, s) | S f =>
  match b with
  | [] => (ONormal region, s)
  | st :: rest =>
      let continue := fun (s1:sstate) (region1:rvalue) =>
        match rest with [] => (ONormal region1, s1) | _ => eval_block f s1 rest RNone end in
      match st with
      | SExpr e =>
          match eval f s e with
          | (ONormal RNone, s1) => continue s1 region
          | (ONormal v, s1) => continue s1 v
          | other => other end
      | SAssign n e =>
          match eval f s e with
          | (ONormal RNone, s1) =>
              (* the expression produced nothing: the assignment takes what the region holds (the nil a scope starts
                 with), or fails when the region is empty *)
              match region with
              | RNone => (OError, s1)
              | w => let s2 := if is_local n then assign_local s1 n w else rns_set s1 (cur_ns_of s1) n w in
                     continue s2 RNone end
          | (ONormal v, s1) =>
              let s2 := if is_local n then assign_local s1 n v else rns_set s1 (cur_ns_of s1) n v in
              continue s2 region
          | other => other end
      | SLocal n e =>
          match eval f s e with
          | (ONormal RNone, s1) =>
              match region with
              | RNone => (OError, s1)
              | w => continue (bind_here s1 n w) RNone end
          | (ONormal v, s1) => continue (bind_here s1 n v) region
          | other => other end
      end
  end end
(* the statements of a switch body: `case x`, `case x : {..}`, `default {..}`; anything else is evaluated normally *)
with eval_switch_body (f:nat) (s:sstate) (b:list stmt) (sw:swst) {struct f} : outcome * sstate * swst :=
  match f with O => (OFuel, s, sw) | S f =>
  match b with
  | [] => (ONormal RNil, s, sw)
  | st :: rest =>
      match st with
      | SExpr (EUnary c x) =>
          if String.eqb (lower c) "case" then
            match eval f s x with
            | (ONormal v, s1) => eval_switch_body f s1 rest {| sw_v := sw_v sw; sw_target := sw_target sw; sw_now := if req true v (sw_v sw) then true else sw_now sw; sw_has := sw_has sw |}
            | (o, s1) => (o, s1, sw) end
          else if String.eqb (lower c) "default" then
            match x with
            | ECode blk => eval_switch_body f s rest {| sw_v := sw_v sw; sw_target := if sw_has sw then sw_target sw else Some blk; sw_now := sw_now sw; sw_has := sw_has sw |}
            | _ => (OUnsupported "default", s, sw) end
          else match eval f s (EUnary c x) with
               | (ONormal _, s1) => eval_switch_body f s1 rest sw
               | (o, s1) => (o, s1, sw) end
      | SExpr (EBinary c (EUnary k x) (ECode blk)) =>
          if andb (String.eqb (lower c) ":") (String.eqb (lower k) "case") then
            match eval f s x with
            | (ONormal v, s1) =>
                let now := if req true v (sw_v sw) then true else sw_now sw in
                if andb (negb (sw_has sw)) now
                then (ONormal RNil, s1, {| sw_v := sw_v sw; sw_target := Some blk; sw_now := false; sw_has := true |})   (* first match wins, the rest is skipped *)
                else eval_switch_body f s1 rest {| sw_v := sw_v sw; sw_target := sw_target sw; sw_now := now; sw_has := sw_has sw |}
            | (o, s1) => (o, s1, sw) end
          else match eval f s (EBinary c (EUnary k x) (ECode blk)) with
               | (ONormal _, s1) => eval_switch_body f s1 rest sw
               | (o, s1) => (o, s1, sw) end
      | _ => match eval_block f s [st] RNil with
             | (ONormal _, s1) => eval_switch_body f s1 rest sw
             | (o, s1) => (o, s1, sw) end
      end
  end end.
End Eval.

(* ------------------------------------------------------------------ running a program *)
Definition init_state : sstate := {| st_scopes := [mk_scope default_ns []]; st_nss := []; st_trace := [] |}.

Fixpoint show_marks (l:list string) : string :=
  match l with [] => "" | t :: r => append "M<" (append t (append ">," (show_marks r))) end.

(* observation comparable with the implementation: outcome class, markers in order, value of the script *)
Definition run_ref (fuel:nat) (p:list stmt) : string :=
  let '(o, s) := eval_block fuel init_state p RNone in
  let marks := show_marks (rev (st_trace s)) in
  match o with
  | ONormal v | OExit v => append "OK:" (append marks (append "V<" (append (match v with RNone => "-" | _ => match rshow true v with Some t => t | None => "?" end end) ">")))
  | OBreak _ _ => append "BREAK:" marks
  | OThrow _ => append "ERR:" marks
  | OError => append "ERR:" marks
  | OUnsupported w => append "UNSUPPORTED " w
  | OFuel => "FUEL" end.
