(* Shape lemmas, part 3: what one iteration of the execute_do loop, one slice and one scheduler visit do.
   Used by the C11 and C12 proofs. *)
From Coq Require Import String Ascii ZArith List Bool Lia Arith.
From SqfVerif Require Import Gen.DiagCodes Gen.Overloads VM.VmDefs VM.VmExec VM.SchedDefs VM.SchedOps VM.SchedBase.
Import ListNotations.
Local Open Scope list_scope.

Opaque frame_fuel exec_fuel.

Definition rt_of (it:iter2) : rt := match it with Continue2 r | Executed2 r | Restarted2 r | Return2 _ r => r end.

(* the time-limit test *)
Lemma deadline_test_reach r b r' : deadline_test r = (b, r') -> reach r r'.
Proof.
  unfold deadline_test, now. destruct (Z.eqb _ _); intro H; inversion H; subst; [apply reach_refl|].
  apply reach_clock; [apply reach_refl|reflexivity].
Qed.
(* it passes exactly when the clock value it reads is not beyond run start + limit *)
Lemma deadline_test_spec r :
  deadline_test r =
    if Z.eqb (r_max_runtime r) 0 then (false, r)
    else (Z.ltb (r_max_runtime r + r_run_ts r) (r_clock r + r_tick r), set_clock r (r_clock r + r_tick r)%Z).
Proof. reflexivity. Qed.
Lemma deadline_passed_time r r' : deadline_test r = (false, r') -> r_max_runtime r <> 0%Z ->
  r_clock r' = (r_clock r + r_tick r)%Z /\ (r_clock r' <= r_max_runtime r + r_run_ts r)%Z.
Proof.
  rewrite deadline_test_spec. intros H Hm. destruct (Z.eqb_spec (r_max_runtime r) 0); [contradiction|].
  inversion H; subst. cbn. split; auto. apply Z.ltb_ge; auto.
Qed.

(* a time-limit test that passed lies between r and r' *)
Definition passed_test (r r':rt) : Prop :=
  exists r1 r2, reach r r1 /\ deadline_test r1 = (false, r2) /\
    exists k:nat, r_clock r' = (r_clock r2 + Z.of_nat k * r_tick r)%Z.

Definition running (r:rt) (c:context) : Prop :=
  r_exit_req r = false /\ c_suspended c = false /\ c_frames c <> [] /\ r_state r = StRunning.

(* frame::next reports a restart only in the repaired setting *)
Lemma frame_next2_restarted b fuel : forall r c r' c', frame_next2 b fuel r c = Ok (F2Restarted, r', c') -> b = false.
Proof.
  induction fuel; intros r c r' c' H; cbn [frame_next2] in H; [discriminate|].
  destruct (c_frames c) as [|f rest]; [discriminate|].
  destruct (at_end f); [|destruct (at_end (set_pos f (S (f_pos f))))];
  (match type of H with context [f_exit ?x] => destruct (f_exit x) as [bh|] end; [|discriminate]);
  (match type of H with context [if ?x then _ else _] => destruct x end; [|discriminate]);
  unfold bindr in H;
  (match type of H with context [enact ?a ?b0 ?c0] => destruct (enact a b0 c0) as [[[[br b'] r2] c2]| | |] end; try discriminate);
  destruct br; try discriminate; eauto;
  destruct b; cbn [negb andb] in H; eauto.
Qed.

(* every way one pass through the execute_do loop body can go, for the executing context c at index i *)
Inductive iter_spec (old_restart:bool) (i:nat) (c:context) (r:rt) : iter2 -> Prop :=
| is_exit : r_exit_req r = true -> iter_spec old_restart i c r (Return2 ROk r)
| is_suspended : r_exit_req r = false -> c_suspended c = true -> iter_spec old_restart i c r (Return2 ROk r)
| is_empty : r_exit_req r = false -> c_suspended c = false -> c_frames c = [] -> iter_spec old_restart i c r (Return2 REmpty r)
| is_not_running : r_exit_req r = false -> c_suspended c = false -> c_frames c <> [] -> r_state r <> StRunning ->
    iter_spec old_restart i c r (Return2 ROk r)
| is_continue r' : running r c -> dstep i r r' -> r_exit_req r' = false -> iter_spec old_restart i c r (Continue2 r')
| is_error r' : running r c -> dstep i r r' -> r_exit_req r' = false -> r_err r' = false ->
    iter_spec old_restart i c r (Return2 RRuntimeError r')
| is_abort r1 r2 c1 : running r c -> reach r r1 -> ctx_ok c c1 -> deadline_test r1 = (true, r2) ->
    iter_spec old_restart i c r (Return2 RRuntimeError (abort_run (upd_cur r2 c1)))
| is_executed r' : running r c -> dstep i r r' -> r_exit_req r' = false -> passed_test r r' ->
    iter_spec old_restart i c r (Executed2 r')
| is_restarted r' : running r c -> old_restart = false -> dstep i r r' -> r_exit_req r' = false -> passed_test r r' ->
    iter_spec old_restart i c r (Restarted2 r').

Lemma do_iter2_spec b i c r it :
  do_iter2 b r = Ok it -> r_active r = Some i -> nth_error (r_ctxs r) i = Some c -> iter_spec b i c r it.
Proof.
  intros H Ha Hc. unfold do_iter2 in H.
  destruct (r_exit_req r) eqn:Ex; [inversion H; subst; apply is_exit; auto|].
  assert (Hcur : cur r = Some c) by (unfold cur; rewrite Ha; auto). rewrite Hcur in H.
  destruct (c_suspended c) eqn:Su; [inversion H; subst; apply is_suspended; auto|].
  destruct (c_frames c) as [|f0 fs] eqn:Fr; [inversion H; subst; apply is_empty; auto|].
  destruct (r_state r) eqn:St; try (inversion H; subst; apply is_not_running; auto; congruence).
  assert (Run : running r c) by (repeat split; auto; congruence).
  assert (Hi : i < length (r_ctxs r)) by (apply nth_error_Some; congruence).
  unfold bindr in H.
  destruct (frame_next2 b frame_fuel r c) as [[[fr r1] c1]| | |] eqn:FN; try discriminate.
  destruct (frame_next2_shape _ _ _ _ _ _ _ FN) as [R1 C1].
  assert (Ha1 : r_active r1 = Some i) by (rewrite (reach_active _ _ R1); auto).
  assert (Hi1 : i < length (r_ctxs r1)) by (pose proof (reach_len _ _ R1); lia).
  assert (D1 : dstep i r (upd_cur r1 c1)) by (eapply dstep_upd_cur; eauto using reach_dstep).
  destruct (r_err r1) eqn:Er.
  { (* an exit behaviour raised an error *)
    destruct (on_error (upd_cur r1 c1)) as [[rec r2]| | |] eqn:OE; try discriminate.
    eapply on_error_shape in OE; [|rewrite upd_cur_active; eauto|apply upd_cur_nth; eauto].
    destruct OE as (D2 & E2 & _ & Er2).
    assert (Ex2 : r_exit_req r2 = false) by (rewrite E2, upd_cur_exit, (reach_exit _ _ R1); auto).
    destruct rec; inversion H; subst.
    - apply is_continue; eauto using dstep_trans.
    - apply is_error; eauto using dstep_trans. }
  assert (Test : forall exp r2, deadline_test r1 = (exp, r2) ->
            r_active r2 = Some i /\ i < length (r_ctxs r2) /\ reach r r2 /\ r_exit_req r2 = false).
  { intros exp r2 T. apply deadline_test_reach in T.
    repeat split; [rewrite (reach_active _ _ T); auto | pose proof (reach_len _ _ T); lia
                  | eapply reach_trans; eauto | rewrite (reach_exit _ _ T), (reach_exit _ _ R1); auto]. }
  destruct fr.
  - (* done *)
    destruct (Nat.eqb _ _).
    + inversion H; subst. apply is_continue; auto.
      * eapply dstep_upd_cur; eauto using reach_dstep.
        eapply ctx_ok_trans; [exact C1|].
        destruct (pop_value c1) as [[v cx]|] eqn:P.
        -- ctx_solve.
        -- destruct (defect r "block_value_dropped"); [ctx_solve|].
           match goal with |- ctx_ok _ (match ?x with _ => _ end) => destruct x end; ctx_solve.
      * rewrite upd_cur_exit, (reach_exit _ _ R1); auto.
    + destruct (current_instr c1); [|discriminate].
      destruct (deadline_test r1) as [exp r2] eqn:T. destruct (Test _ _ eq_refl) as (Ha2 & Hi2 & R2 & Ex2).
      destruct exp.
      * inversion H; subst. apply (is_abort _ _ _ _ r1 r2 c1); auto.
      * destruct (exec_instr i0 r2 c1) as [[r3 c5]| | |] eqn:EI; cbn [bindr] in H; try discriminate.
        apply exec_instr_shape in EI. destruct EI as [R3 C5].
        assert (R03 : reach r r3) by (eapply reach_trans; eauto).
        assert (D3 : dstep i r (upd_cur r3 c5)) by (eapply dstep_upd_cur; eauto using reach_dstep, ctx_ok_trans).
        assert (Ha3 : r_active r3 = Some i) by (rewrite (reach_active _ _ R03); auto).
        assert (Hi3 : i < length (r_ctxs r3)) by (pose proof (reach_len _ _ R03); lia).
        assert (Ex3 : r_exit_req r3 = false) by (rewrite (reach_exit _ _ R03); auto).
        destruct (reach_clock_reads _ _ R3) as [k K3].
        assert (Tk : r_tick r2 = r_tick r) by (pose proof (reach_cfg _ _ R2) as Q; unfold rcfg in Q; congruence).
        destruct (negb (r_err (upd_cur r3 c5))) eqn:NE.
        -- inversion H; subst. apply is_executed; auto.
           ++ eapply dstep_reach; [exact D3|apply reach_msgs, reach_refl].
           ++ cbn. rewrite upd_cur_exit; auto.
           ++ exists r1, r2. repeat split; auto. exists k. cbn. rewrite upd_cur_clock, K3, Tk. auto.
        -- destruct (on_error (upd_cur r3 c5)) as [[rec r5]| | |] eqn:OE; cbn [bindr] in H; try discriminate.
           eapply on_error_shape in OE; [|rewrite upd_cur_active; eauto|apply upd_cur_nth; eauto].
           destruct OE as (D5 & E5 & K5 & Er5).
           assert (Ex5 : r_exit_req r5 = false) by (rewrite E5, upd_cur_exit; auto).
           destruct rec; inversion H; subst.
           ++ apply is_executed; eauto using dstep_trans.
              exists r1, r2. repeat split; auto. exists k. rewrite K5, upd_cur_clock, K3, Tk. auto.
           ++ apply is_error; eauto using dstep_trans.
  - (* ok: an instruction is due *)
    destruct (current_instr c1); [|discriminate].
    destruct (deadline_test r1) as [exp r2] eqn:T. destruct (Test _ _ eq_refl) as (Ha2 & Hi2 & R2 & Ex2).
    destruct exp.
    * inversion H; subst. apply (is_abort _ _ _ _ r1 r2 c1); auto.
    * destruct (exec_instr i0 r2 c1) as [[r3 c5]| | |] eqn:EI; cbn [bindr] in H; try discriminate.
      apply exec_instr_shape in EI. destruct EI as [R3 C5].
      assert (R03 : reach r r3) by (eapply reach_trans; eauto).
      assert (D3 : dstep i r (upd_cur r3 c5)) by (eapply dstep_upd_cur; eauto using reach_dstep, ctx_ok_trans).
      assert (Ha3 : r_active r3 = Some i) by (rewrite (reach_active _ _ R03); auto).
      assert (Hi3 : i < length (r_ctxs r3)) by (pose proof (reach_len _ _ R03); lia).
      assert (Ex3 : r_exit_req r3 = false) by (rewrite (reach_exit _ _ R03); auto).
      destruct (reach_clock_reads _ _ R3) as [k K3].
      assert (Tk : r_tick r2 = r_tick r) by (pose proof (reach_cfg _ _ R2) as Q; unfold rcfg in Q; congruence).
      destruct (negb (r_err (upd_cur r3 c5))) eqn:NE.
      -- inversion H; subst. apply is_executed; auto.
         ++ eapply dstep_reach; [exact D3|apply reach_msgs, reach_refl].
         ++ cbn. rewrite upd_cur_exit; auto.
         ++ exists r1, r2. repeat split; auto. exists k. cbn. rewrite upd_cur_clock, K3, Tk. auto.
      -- destruct (on_error (upd_cur r3 c5)) as [[rec r5]| | |] eqn:OE; cbn [bindr] in H; try discriminate.
         eapply on_error_shape in OE; [|rewrite upd_cur_active; eauto|apply upd_cur_nth; eauto].
         destruct OE as (D5 & E5 & K5 & Er5).
         assert (Ex5 : r_exit_req r5 = false) by (rewrite E5, upd_cur_exit; auto).
         destruct rec; inversion H; subst.
         ++ apply is_executed; eauto using dstep_trans.
            exists r1, r2. repeat split; auto. exists k. rewrite K5, upd_cur_clock, K3, Tk. auto.
         ++ apply is_error; eauto using dstep_trans.
  - (* restarted *)
    destruct (deadline_test r1) as [exp r2] eqn:T. destruct (Test _ _ eq_refl) as (Ha2 & Hi2 & R2 & Ex2).
    destruct exp; inversion H; subst.
    + apply (is_abort _ _ _ _ r1 r2 c1); auto.
    + apply is_restarted; auto.
      * eapply frame_next2_restarted; eauto.
      * eapply dstep_upd_cur; eauto using reach_dstep.
      * rewrite upd_cur_exit; auto.
      * exists r1, r2. repeat split; auto. exists O. rewrite upd_cur_clock. cbn. lia.
Qed.

(* ------------------------------------------------------------------ consequences for one iteration *)
Lemma evolves_len i l n l' n' : evolves i l n l' n' -> length l <= length l'.
Proof. intros (l1 & sp & -> & F & _). rewrite app_length, <- (Forall2_len _ _ _ F). lia. Qed.
Lemma dstep_len i r r' : dstep i r r' -> length (r_ctxs r) <= length (r_ctxs r').
Proof. intros [_ _ _ _ _ _ E]. eapply evolves_len; eauto. Qed.
Lemma dstep_tick i r r' : dstep i r r' -> r_tick r' = r_tick r.
Proof. intros [E _ _ _ _ _ _]. unfold rcfg in E. congruence. Qed.

Lemma abort_run_dstep i r r' : dstep i r r' -> dstep i r (abort_run r').
Proof.
  intro D. unfold abort_run. eapply dstep_reach; [|apply reach_msgs, reach_errflag, reach_refl].
  apply dstep_exit_req. eapply dstep_reach; [exact D|apply reach_log, reach_refl].
Qed.
Lemma abort_run_facts r : r_exit_req (abort_run r) = true /\ r_err (abort_run r) = false /\
  r_out (abort_run r) = EDiag (fst d_MaximumRuntimeReached) (snd d_MaximumRuntimeReached) :: r_out r /\
  r_clock (abort_run r) = r_clock r.
Proof. repeat split. Qed.

Lemma iter_spec_dstep b i c r it : iter_spec b i c r it -> r_active r = Some i -> nth_error (r_ctxs r) i = Some c ->
  dstep i r (rt_of it).
Proof.
  intros H Ha Hc. inversion H; subst; cbn [rt_of]; auto using dstep_refl.
  apply abort_run_dstep. eapply dstep_upd_cur; eauto. apply reach_dstep.
  eapply reach_trans; [eassumption|]. eapply deadline_test_reach; eauto.
Qed.

(* ------------------------------------------------------------------ a slice, without the fuel *)
Inductive slice_run (b:bool) (i:nat) : rt -> nat -> nat -> nat -> rresult -> rt -> nat -> nat -> Prop :=
| sr_exit r n ki kr : r_exit_req r = true -> slice_run b i r n ki kr ROk r ki kr
| sr_zero r ki kr : r_exit_req r = false -> slice_run b i r 0 ki kr ROk r ki kr
| sr_return r n ki kr c x r' : r_exit_req r = false -> nth_error (r_ctxs r) i = Some c -> r_active r = Some i ->
    iter_spec b i c r (Return2 x r') -> slice_run b i r (S n) ki kr x r' ki kr
| sr_continue r n ki kr c r1 x r' ki' kr' : r_exit_req r = false -> nth_error (r_ctxs r) i = Some c -> r_active r = Some i ->
    iter_spec b i c r (Continue2 r1) -> slice_run b i r1 (S n) ki kr x r' ki' kr' ->
    slice_run b i r (S n) ki kr x r' ki' kr'
| sr_executed r n ki kr c r1 x r' ki' kr' : r_exit_req r = false -> nth_error (r_ctxs r) i = Some c -> r_active r = Some i ->
    iter_spec b i c r (Executed2 r1) -> slice_run b i r1 n (S ki) kr x r' ki' kr' ->
    slice_run b i r (S n) ki kr x r' ki' kr'
| sr_restarted r n ki kr c r1 x r' ki' kr' : r_exit_req r = false -> nth_error (r_ctxs r) i = Some c -> r_active r = Some i ->
    iter_spec b i c r (Restarted2 r1) -> slice_run b i r1 n ki (S kr) x r' ki' kr' ->
    slice_run b i r (S n) ki kr x r' ki' kr'.

Lemma execute_do2_slice_run b i fuel : forall r n ki kr x r' ki' kr',
  execute_do2 b fuel r n ki kr = Ok (x, r', (ki', kr')) -> r_active r = Some i -> i < length (r_ctxs r) ->
  slice_run b i r n ki kr x r' ki' kr'.
Proof.
  induction fuel; intros r n ki kr x r' ki' kr' H Ha Hi; cbn [execute_do2] in H; [discriminate|].
  destruct (r_exit_req r) eqn:Ex; [inversion H; subst; apply sr_exit; auto|].
  destruct n as [|n]; [inversion H; subst; apply sr_zero; auto|].
  destruct (nth_error (r_ctxs r) i) as [c|] eqn:Hc; [|apply nth_error_None in Hc; lia].
  destruct (do_iter2 b r) as [it| | |] eqn:DI; cbn [bindr] in H; try discriminate.
  pose proof (do_iter2_spec _ _ _ _ _ DI Ha Hc) as IS.
  pose proof (iter_spec_dstep _ _ _ _ _ IS Ha Hc) as D.
  assert (Ha1 : r_active (rt_of it) = Some i) by (rewrite (ds_active _ _ _ D); auto).
  assert (Hi1 : i < length (r_ctxs (rt_of it))) by (pose proof (dstep_len _ _ _ D); lia).
  destruct it; cbn [rt_of] in *.
  - eapply sr_continue; eauto.
  - eapply sr_executed; eauto.
  - eapply sr_restarted; eauto.
  - inversion H; subst. eapply sr_return; eauto.
Qed.

(* a slice consumes at most n units: executed instructions plus empty restarts *)
Lemma slice_run_counts b i r n ki kr x r' ki' kr' : slice_run b i r n ki kr x r' ki' kr' ->
  ki <= ki' /\ kr <= kr' /\ (ki' - ki) + (kr' - kr) <= n.
Proof. induction 1; try lia. Qed.

Lemma slice_run_dstep b i r n ki kr x r' ki' kr' : slice_run b i r n ki kr x r' ki' kr' -> dstep i r r'.
Proof.
  induction 1; auto using dstep_refl;
  match goal with IS : iter_spec _ _ _ _ _ |- _ => eapply iter_spec_dstep in IS; eauto end;
  eauto using dstep_trans.
Qed.

(* the only way a slice ends with the exit flag raised is the time limit *)
Definition aborted (r:rt) : Prop := exists r0, r = abort_run r0.
Lemma slice_run_exit b i r n ki kr x r' ki' kr' : slice_run b i r n ki kr x r' ki' kr' -> r_exit_req r = false ->
  (r_exit_req r' = true -> x = RRuntimeError /\ aborted r') /\
  (x = REmpty -> r_exit_req r' = false /\ exists c', nth_error (r_ctxs r') i = Some c' /\ c_frames c' = [] /\ c_suspended c' = false).
Proof.
  induction 1; intro Ex0; try congruence.
  - split; [congruence|discriminate].
  - match goal with IS : iter_spec _ _ _ _ _ |- _ => inversion IS; subst end;
    (split; intro E); try congruence; try discriminate.
    + split; auto. exists c. auto.
    + split; auto. eexists; eauto.
  - match goal with IS : iter_spec _ _ _ _ _ |- _ => inversion IS; subst end. auto.
  - match goal with IS : iter_spec _ _ _ _ _ |- _ => inversion IS; subst end. auto.
  - match goal with IS : iter_spec _ _ _ _ _ |- _ => inversion IS; subst end. auto.
Qed.

(* a context without frames: the slice ends at once with "empty" *)
Lemma slice_run_no_frames b i r n ki kr x r' ki' kr' c : slice_run b i r n ki kr x r' ki' kr' ->
  0 < n -> r_exit_req r = false -> nth_error (r_ctxs r) i = Some c -> c_frames c = [] -> c_suspended c = false ->
  x = REmpty /\ r' = r /\ ki' = ki /\ kr' = kr.
Proof.
  intros H Hn Ex Hc Fr Su.
  destruct H; try congruence; try lia;
  match goal with N : nth_error (r_ctxs _) _ = Some ?c0 |- _ => rewrite Hc in N; inversion N; subst c0 end;
  match goal with IS : iter_spec _ _ _ _ _ |- _ => inversion IS; subst end; try congruence;
  try (match goal with R : running _ _ |- _ => destruct R as (_ & _ & F & _); congruence end).
  all: auto.
Qed.

(* a suspended context: the slice ends at once without executing anything *)
Lemma slice_run_suspended b i r n ki kr x r' ki' kr' c : slice_run b i r n ki kr x r' ki' kr' ->
  nth_error (r_ctxs r) i = Some c -> c_suspended c = true ->
  x = ROk /\ r' = r /\ ki' = ki /\ kr' = kr.
Proof.
  intros H Hc Su.
  destruct H; auto;
  match goal with N : nth_error (r_ctxs _) _ = Some ?c0 |- _ => rewrite Hc in N; inversion N; subst c0 end;
  match goal with IS : iter_spec _ _ _ _ _ |- _ => inversion IS; subst end; try congruence; auto;
  try (match goal with R : running _ _ |- _ => destruct R as (_ & F & _ & _); congruence end).
Qed.

(* ------------------------------------------------------------------ time *)
Local Open Scope Z_scope.
Lemma dstep_clock_le i r r' : dstep i r r' -> 0 <= r_tick r -> r_clock r <= r_clock r'.
Proof. intros [_ _ _ _ _ [k K] _] T. rewrite K. nia. Qed.
Lemma reach_clock_le r r' : reach r r' -> 0 <= r_tick r -> r_clock r <= r_clock r'.
Proof. intros H T. destruct (reach_clock_reads _ _ H) as [k K]. rewrite K. nia. Qed.
Lemma dstep_max i r r' : dstep i r r' -> r_max_runtime r' = r_max_runtime r.
Proof. intros [E _ _ _ _ _ _]. unfold rcfg in E. congruence. Qed.
Lemma dstep_run_ts i r r' : dstep i r r' -> r_run_ts r' = r_run_ts r.
Proof. intros [E _ _ _ _ _ _]. unfold rcfg in E. congruence. Qed.

(* a passed test: one tick was consumed and the clock value read was within the limit *)
Lemma passed_test_time r r' : passed_test r r' -> r_max_runtime r <> 0 -> 0 <= r_tick r ->
  exists t, r_clock r + r_tick r <= t /\ t <= r_clock r' /\ t <= r_max_runtime r + r_run_ts r.
Proof.
  intros (r1 & r2 & R1 & T & k & K) Hm Ht.
  pose proof (reach_cfg _ _ R1) as C. unfold rcfg in C.
  assert (E1 : r_tick r1 = r_tick r) by congruence.
  assert (E2 : r_max_runtime r1 = r_max_runtime r) by congruence.
  assert (E3 : r_run_ts r1 = r_run_ts r) by congruence.
  destruct (deadline_passed_time _ _ T) as [T1 T2]; [congruence|].
  pose proof (reach_clock_le _ _ R1 Ht).
  exists (r_clock r2). rewrite T1, E1 in *. rewrite E2, E3 in T2. repeat split; try lia; try (rewrite K; nia).
Qed.

(* k units (instructions, empty restarts) were performed between clock values c0 and c1 under the limit d:
   each consumed at least one tick, and the last one started before the limit *)
Definition units_ok (tick d c0 c1:Z) (k:nat) : Prop :=
  c0 + Z.of_nat k * tick <= c1 /\ (k = O \/ c0 + Z.of_nat k * tick <= d).
Lemma units_ok_zero tick d c0 c1 : c0 <= c1 -> units_ok tick d c0 c1 0.
Proof. intro H. split; [cbn; lia|auto]. Qed.
Lemma units_ok_seq tick d c0 c1 c2 k1 k2 : 0 <= tick -> units_ok tick d c0 c1 k1 -> units_ok tick d c1 c2 k2 ->
  units_ok tick d c0 c2 (k1 + k2).
Proof.
  intros T [A1 A2] [B1 B2]. split; [rewrite Nat2Z.inj_add; nia|].
  destruct B2 as [->|B2].
  - rewrite Nat.add_0_r. destruct A2; auto.
  - right. rewrite Nat2Z.inj_add. nia.
Qed.
Lemma units_ok_one tick d c0 c1 t : 0 <= tick -> c0 + tick <= t -> t <= c1 -> t <= d -> units_ok tick d c0 c1 1.
Proof. intros. change (Z.of_nat 1) with 1. split; [lia|right; lia]. Qed.

Lemma slice_run_time b i r n ki kr x r' ki' kr' : slice_run b i r n ki kr x r' ki' kr' ->
  r_max_runtime r <> 0 -> 0 <= r_tick r ->
  units_ok (r_tick r) (r_max_runtime r + r_run_ts r) (r_clock r) (r_clock r') ((ki' - ki) + (kr' - kr)).
Proof.
  induction 1; intros Hm Ht.
  - rewrite !Nat.sub_diag. apply units_ok_zero. lia.
  - rewrite !Nat.sub_diag. apply units_ok_zero. lia.
  - rewrite !Nat.sub_diag. apply units_ok_zero.
    match goal with IS : iter_spec _ _ _ _ _, HA : r_active _ = Some _, HN : nth_error _ _ = Some _ |- _ => pose proof (iter_spec_dstep _ _ _ _ _ IS HA HN) as D end. cbn [rt_of] in D. eapply dstep_clock_le; eauto.
  - match goal with IS : iter_spec _ _ _ _ _, HA : r_active _ = Some _, HN : nth_error _ _ = Some _ |- _ => pose proof (iter_spec_dstep _ _ _ _ _ IS HA HN) as D end. cbn [rt_of] in D.
    assert (IH : units_ok (r_tick r) (r_max_runtime r + r_run_ts r) (r_clock r1) (r_clock r') ((ki' - ki) + (kr' - kr))).
    { rewrite <- (dstep_tick _ _ _ D), <- (dstep_max _ _ _ D), <- (dstep_run_ts _ _ _ D).
      apply IHslice_run; [rewrite (dstep_max _ _ _ D)|rewrite (dstep_tick _ _ _ D)]; auto. }
    replace ((ki' - ki) + (kr' - kr))%nat with (0 + ((ki' - ki) + (kr' - kr)))%nat by lia.
    eapply units_ok_seq; [auto| |exact IH]. apply units_ok_zero. eapply dstep_clock_le; eauto.
  - match goal with IS : iter_spec _ _ _ _ _, HA : r_active _ = Some _, HN : nth_error _ _ = Some _ |- _ => pose proof (iter_spec_dstep _ _ _ _ _ IS HA HN) as D end.
    match goal with IS : iter_spec _ _ _ _ _ |- _ => inversion IS; subst end.
    cbn [rt_of] in D. match goal with SR : slice_run _ _ _ _ _ _ _ _ _ _ |- _ => pose proof (slice_run_counts _ _ _ _ _ _ _ _ _ _ SR) as Cn end.
    match goal with PT : passed_test _ _ |- _ => destruct (passed_test_time _ _ PT Hm Ht) as (t & T1 & T2 & T3) end.
    assert (IH : units_ok (r_tick r) (r_max_runtime r + r_run_ts r) (r_clock r1) (r_clock r') ((ki' - S ki) + (kr' - kr))).
    { rewrite <- (dstep_tick _ _ _ D), <- (dstep_max _ _ _ D), <- (dstep_run_ts _ _ _ D).
      apply IHslice_run; [rewrite (dstep_max _ _ _ D)|rewrite (dstep_tick _ _ _ D)]; auto. }
    replace ((ki' - ki) + (kr' - kr))%nat with (1 + ((ki' - S ki) + (kr' - kr)))%nat by lia.
    eapply units_ok_seq; [auto| |exact IH]. eapply units_ok_one; eauto.
  - match goal with IS : iter_spec _ _ _ _ _, HA : r_active _ = Some _, HN : nth_error _ _ = Some _ |- _ => pose proof (iter_spec_dstep _ _ _ _ _ IS HA HN) as D end.
    match goal with IS : iter_spec _ _ _ _ _ |- _ => inversion IS; subst end.
    cbn [rt_of] in D. match goal with SR : slice_run _ _ _ _ _ _ _ _ _ _ |- _ => pose proof (slice_run_counts _ _ _ _ _ _ _ _ _ _ SR) as Cn end.
    match goal with PT : passed_test _ _ |- _ => destruct (passed_test_time _ _ PT Hm Ht) as (t & T1 & T2 & T3) end.
    assert (IH : units_ok (r_tick r) (r_max_runtime r + r_run_ts r) (r_clock r1) (r_clock r') ((ki' - ki) + (kr' - S kr))).
    { rewrite <- (dstep_tick _ _ _ D), <- (dstep_max _ _ _ D), <- (dstep_run_ts _ _ _ D).
      apply IHslice_run; [rewrite (dstep_max _ _ _ D)|rewrite (dstep_tick _ _ _ D)]; auto. }
    replace ((ki' - ki) + (kr' - kr))%nat with (1 + ((ki' - ki) + (kr' - S kr)))%nat by lia.
    eapply units_ok_seq; [auto| |exact IH]. eapply units_ok_one; eauto.
Qed.
Local Close Scope Z_scope.

(* ------------------------------------------------------------------ one scheduler visit *)
Definition v_units (v:visit) : nat :=
  v_instr v + v_restarts v +
  (if v_entered v then 0 else match v_result v with ROk => 1 | _ => 0 end).

(* the context the scheduler actually runs: a terminated one has its remaining work dropped *)
Definition prepared (c00:context) : context :=
  if c_terminate c00 then set_suspended (set_values (set_frames c00 []) []) false (c_wakeup c00) else c00.
Lemma prepared_ok c : ctx_ok c (prepared c).
Proof. unfold prepared. destruct (c_terminate c); ctx_solve. Qed.

(* the machine as the scheduler hands it to execute_do for index i *)
Definition handed (r:rt) (i:nat) (c00:context) : rt := upd_cur (set_active r (Some i)) (prepared c00).

Inductive visit_shape (old_restart old_idle:bool) (i:nat) (c00:context) (r:rt) (x:rresult) (r':rt) (v:visit) : Prop :=
| vsh_ran rs :
    v_entered v = true ->
    (c_suspended (prepared c00) = false /\ rs = handed r i c00) \/
    (c_suspended (prepared c00) = true /\ (c_wakeup (prepared c00) <= r_clock (handed r i c00) + r_tick (handed r i c00))%Z /\
       rs = upd_cur (set_clock (handed r i c00) (r_clock (handed r i c00) + r_tick (handed r i c00))%Z)
                    (set_suspended (prepared c00) false (c_wakeup (prepared c00)))) ->
    slice_run old_restart i rs (r_slice rs) 0 0 x r' (v_instr v) (v_restarts v) ->
    visit_shape old_restart old_idle i c00 r x r' v
| vsh_asleep r1 :
    v_entered v = false -> v_instr v = 0 -> v_restarts v = 0 ->
    c_suspended (prepared c00) = true ->
    (r_clock (handed r i c00) + r_tick (handed r i c00) < c_wakeup (prepared c00))%Z ->
    r1 = set_clock (handed r i c00) (r_clock (handed r i c00) + r_tick (handed r i c00))%Z ->
    (old_idle = true /\ x = ROk /\ r' = r1) \/
    (old_idle = false /\ exists r2, (deadline_test r1 = (false, r2) /\ x = ROk /\ r' = r2) \/
                                   (deadline_test r1 = (true, r2) /\ x = RRuntimeError /\ r' = abort_run r2)) ->
    visit_shape old_restart old_idle i c00 r x r' v.

Lemma handed_active r i c : r_active (handed r i c) = Some i.
Proof. unfold handed. rewrite upd_cur_active. reflexivity. Qed.
Lemma handed_len r i c : length (r_ctxs (handed r i c)) = length (r_ctxs r).
Proof. unfold handed, upd_cur. cbn. apply list_upd_length. Qed.
Lemma handed_clock r i c : r_clock (handed r i c) = r_clock r.
Proof. unfold handed. rewrite upd_cur_clock. reflexivity. Qed.
Lemma handed_cfg r i c : rcfg (handed r i c) = rcfg r.
Proof. unfold handed. rewrite upd_cur_cfg. reflexivity. Qed.
Lemma handed_exit r i c : r_exit_req (handed r i c) = r_exit_req r.
Proof. unfold handed. rewrite upd_cur_exit. reflexivity. Qed.
Lemma handed_nth r i c : i < length (r_ctxs r) -> nth_error (r_ctxs (handed r i c)) i = Some (prepared c).
Proof. intro H. unfold handed. apply upd_cur_nth; auto. Qed.

Lemma visit_ctx_shape b1 b2 r i c00 x r' v :
  visit_ctx b1 b2 r i = Ok (x, r', v) -> nth_error (r_ctxs r) i = Some c00 ->
  v_id v = c_id c00 /\ v_result v = x /\ visit_shape b1 b2 i c00 r x r' v.
Proof.
  intros H Hc. unfold visit_ctx in H.
  assert (Hi : i < length (r_ctxs r)) by (apply nth_error_Some; congruence).
  assert (Hcur : cur (set_active r (Some i)) = Some c00) by (unfold cur; cbn; auto). rewrite Hcur in H.
  fold (prepared c00) in H. fold (handed r i c00) in H.
  assert (Key : c_id (prepared c00) = c_id c00) by (apply ctx_ok_id, prepared_ok).
  assert (Run : forall rs, r_active rs = Some i -> i < length (r_ctxs rs) ->
            bindr (execute_do2 b1 exec_fuel rs (r_slice rs) 0 0)
              (fun '(x0, r2, (ki, kr)) => Ok (x0, r2, {| v_id := c_id (prepared c00); v_entered := true; v_instr := ki; v_restarts := kr; v_result := x0 |}))
            = Ok (x, r', v) ->
            v_id v = c_id c00 /\ v_result v = x /\ v_entered v = true /\ slice_run b1 i rs (r_slice rs) 0 0 x r' (v_instr v) (v_restarts v)).
  { intros rs Ha Hl E. destruct (execute_do2 b1 exec_fuel rs (r_slice rs) 0 0) as [[[x0 r2] [ki kr]]| | |] eqn:X; cbn [bindr] in E; try discriminate.
    inversion E; subst. cbn. repeat split; auto. eapply execute_do2_slice_run; eauto. }
  destruct (c_suspended (prepared c00)) eqn:Su.
  - unfold now in H.
    destruct (Z.leb_spec (c_wakeup (prepared c00)) (r_clock (handed r i c00) + r_tick (handed r i c00))).
    + apply Run in H.
      * destruct H as (A & B & C & D). repeat split; auto. eapply vsh_ran; eauto.
      * rewrite upd_cur_active. cbn [r_active set_clock rt_with]. apply handed_active.
      * unfold upd_cur. cbn [r_active set_clock rt_with]. rewrite handed_active. cbn [r_ctxs set_ctxs set_clock rt_with]. rewrite list_upd_length, handed_len. auto.
    + destruct b2.
      * inversion H; subst. cbn. repeat split; auto. eapply vsh_asleep; eauto.
      * destruct (deadline_test _) as [exp r2] eqn:T. destruct exp; inversion H; subst; cbn; repeat split; auto;
        (eapply vsh_asleep; eauto; right; split; auto; eexists; eauto).
  - apply Run in H.
    + destruct H as (A & B & C & D). repeat split; auto. eapply vsh_ran; eauto.
    + apply handed_active.
    + rewrite handed_len; auto.
Qed.

(* relation between the machine before and after a visit of index i (the active index is set to i) *)
Record vstep (i:nat) (r r':rt) : Prop := {
  vs_cfg : rcfg r' = rcfg r;
  vs_halt : r_halt_req r' = r_halt_req r;
  vs_run : r_run r' = r_run r;
  vs_state : r_state r' = r_state r;
  vs_active : r_active r' = Some i;
  vs_clock : exists k:nat, r_clock r' = (r_clock r + Z.of_nat k * r_tick r)%Z;
  vs_ctxs : evolves i (r_ctxs r) (r_next_id r) (r_ctxs r') (r_next_id r') }.

Lemma dstep_vstep i r r' : dstep i (set_active r (Some i)) r' -> vstep i r r'.
Proof. intros [A1 A2 A3 A4 A5 A6 A7]. constructor; auto. Qed.

Lemma handed_dstep r i c00 : nth_error (r_ctxs r) i = Some c00 -> dstep i (set_active r (Some i)) (handed r i c00).
Proof.
  intro Hc. unfold handed. eapply dstep_upd_cur; [apply dstep_refl|reflexivity|exact Hc|apply prepared_ok].
Qed.

Lemma woken_dstep r i c00 : nth_error (r_ctxs r) i = Some c00 ->
  dstep i (set_active r (Some i))
    (upd_cur (set_clock (handed r i c00) (r_clock (handed r i c00) + r_tick (handed r i c00))%Z)
             (set_suspended (prepared c00) false (c_wakeup (prepared c00)))).
Proof.
  intro Hc. assert (Hi : i < length (r_ctxs r)) by (apply nth_error_Some; congruence).
  eapply dstep_trans; [apply handed_dstep; eauto|].
  eapply dstep_upd_cur; [apply reach_dstep; apply reach_clock; [apply reach_refl|reflexivity]|apply handed_active|apply handed_nth; auto|ctx_solve].
Qed.

Lemma visit_shape_vstep b1 b2 i c00 r x r' v :
  visit_shape b1 b2 i c00 r x r' v -> nth_error (r_ctxs r) i = Some c00 -> vstep i r r'.
Proof.
  intros H Hc. apply dstep_vstep. destruct H.
  - eapply dstep_trans; [|eapply slice_run_dstep; eauto].
    destruct H0 as [[_ ->]|(_ & _ & ->)]; [apply handed_dstep|apply woken_dstep]; auto.
  - assert (D1 : dstep i (set_active r (Some i)) r1).
    { subst r1. eapply dstep_reach; [apply handed_dstep; eauto|]. apply reach_clock; [apply reach_refl|reflexivity]. }
    destruct H5 as [(_ & _ & ->)|(_ & r2 & [(T & _ & ->)|(T & _ & ->)])]; auto.
    + eapply dstep_reach; [exact D1|eapply deadline_test_reach; eauto].
    + apply abort_run_dstep. eapply dstep_reach; [exact D1|eapply deadline_test_reach; eauto].
Qed.

Lemma visit_shape_exit b1 b2 i c00 r x r' v :
  visit_shape b1 b2 i c00 r x r' v -> nth_error (r_ctxs r) i = Some c00 -> r_exit_req r = false ->
  (r_exit_req r' = true -> x = RRuntimeError /\ aborted r') /\
  (x = REmpty -> r_exit_req r' = false /\ exists c', nth_error (r_ctxs r') i = Some c' /\ c_frames c' = [] /\ c_suspended c' = false).
Proof.
  intros H Hc Ex. destruct H.
  - eapply slice_run_exit; eauto.
    destruct H0 as [[_ ->]|(_ & _ & ->)].
    + rewrite handed_exit; auto.
    + rewrite upd_cur_exit. cbn [r_exit_req set_clock rt_with]. rewrite handed_exit; auto.
  - assert (E1 : r_exit_req r1 = false) by (subst r1; cbn [r_exit_req set_clock rt_with]; rewrite handed_exit; auto).
    destruct H5 as [(_ & -> & ->)|(_ & r2 & [(T & -> & ->)|(T & -> & ->)])].
    + split; [congruence|discriminate].
    + split; [|discriminate]. rewrite (reach_exit _ _ (deadline_test_reach _ _ _ T)). congruence.
    + split; [|discriminate]. intros _. split; auto. eexists; eauto.
Qed.

Lemma visit_shape_slice b1 b2 i c00 r x r' v :
  visit_shape b1 b2 i c00 r x r' v -> v_instr v + v_restarts v <= r_slice r.
Proof.
  intros H. destruct H; [|lia].
  apply slice_run_counts in H1.
  assert (E : rcfg rs = rcfg r).
  { destruct H0 as [[_ ->]|(_ & _ & ->)]; [apply handed_cfg|].
    transitivity (rcfg (handed r i c00)); [rewrite upd_cur_cfg; reflexivity|apply handed_cfg]. }
  unfold rcfg in E. assert (r_slice rs = r_slice r) by congruence.
  lia.
Qed.

(* repaired scheduler: every visit that does not abort consumed v_units tested units *)
Lemma visit_shape_time b1 i c00 r x r' v :
  visit_shape b1 false i c00 r x r' v -> v_result v = x -> nth_error (r_ctxs r) i = Some c00 ->
  r_max_runtime r <> 0%Z -> (0 <= r_tick r)%Z ->
  units_ok (r_tick r) (r_max_runtime r + r_run_ts r) (r_clock r) (r_clock r') (v_units v).
Proof.
  intros H Hx Hc Hm Ht. 
  pose proof (handed_cfg r i c00) as Q. unfold rcfg in Q.
  assert (Q1 : r_tick (handed r i c00) = r_tick r) by congruence.
  assert (Q2 : r_max_runtime (handed r i c00) = r_max_runtime r) by congruence.
  assert (Q3 : r_run_ts (handed r i c00) = r_run_ts r) by congruence.
  pose proof (handed_clock r i c00) as Q4.
  destruct H.
  - unfold v_units. rewrite H. rewrite Nat.add_0_r.
    pose proof (slice_run_time _ _ _ _ _ _ _ _ _ _ H1) as T. rewrite !Nat.sub_0_r in T.
    destruct H0 as [[_ ->]|(_ & _ & ->)].
    + rewrite Q1, Q2, Q3, Q4 in T. apply T; auto.
    + set (rw := upd_cur _ _) in *.
      assert (W : rcfg rw = rcfg (handed r i c00)) by (unfold rw; rewrite upd_cur_cfg; reflexivity). unfold rcfg in W.
      assert (W1 : r_tick rw = r_tick r) by congruence.
      assert (W2 : r_max_runtime rw = r_max_runtime r) by congruence.
      assert (W3 : r_run_ts rw = r_run_ts r) by congruence.
      assert (W4 : r_clock rw = (r_clock r + r_tick r)%Z) by (unfold rw; rewrite upd_cur_clock; cbn [r_clock set_clock rt_with]; rewrite Q4, Q1; auto).
      rewrite W1, W2, W3, W4 in T.
      replace (v_instr v + v_restarts v) with (0 + (v_instr v + v_restarts v)) by lia.
      eapply units_ok_seq; [auto|apply units_ok_zero|apply T; auto]. lia.
  - unfold v_units. rewrite H, H0, H1, Hx. cbn [Nat.add].
    assert (C1 : r_clock r1 = (r_clock r + r_tick r)%Z) by (subst r1; cbn [r_clock set_clock rt_with]; rewrite Q4, Q1; auto).
    assert (M1 : r_max_runtime r1 = r_max_runtime r) by (subst r1; cbn [r_max_runtime set_clock rt_with]; congruence).
    assert (T1 : r_tick r1 = r_tick r) by (subst r1; cbn [r_tick set_clock rt_with]; congruence).
    assert (S1 : r_run_ts r1 = r_run_ts r) by (subst r1; cbn [r_run_ts set_clock rt_with]; congruence).
    destruct H5 as [(? & _)|(_ & r2 & [(T & -> & ->)|(T & -> & ->)])]; [discriminate| |].
    + destruct (deadline_passed_time _ _ T) as [P1 P2]; [congruence|].
      rewrite M1, S1 in P2. rewrite C1, T1 in P1.
      eapply units_ok_one with (t := r_clock r2); auto; lia.
    + apply units_ok_zero. destruct (abort_run_facts r2) as (_ & _ & _ & ->).
      pose proof (reach_clock_le _ _ (deadline_test_reach _ _ _ T)). lia.
Qed.

(* a script that sleeps is not resumed before its wake-up time: a visit either leaves it alone, or the clock
   value the scheduler read was not before the wake-up time *)
Lemma visit_shape_sleep b1 b2 i c00 r x r' v :
  visit_shape b1 b2 i c00 r x r' v -> nth_error (r_ctxs r) i = Some c00 ->
  c_suspended c00 = true -> c_terminate c00 = false ->
  (v_entered v = true -> (c_wakeup c00 <= r_clock r + r_tick r)%Z) /\
  ((r_clock r + r_tick r < c_wakeup c00)%Z ->
     v_entered v = false /\ v_instr v = 0 /\ v_restarts v = 0 /\ (x = ROk -> nth_error (r_ctxs r') i = Some c00)).
Proof.
  intros H Hc Su Te.
  assert (P : prepared c00 = c00) by (unfold prepared; rewrite Te; auto).
  pose proof (handed_cfg r i c00) as Q. unfold rcfg in Q.
  assert (Q1 : r_tick (handed r i c00) = r_tick r) by congruence.
  pose proof (handed_clock r i c00) as Q4.
  assert (Hi : i < length (r_ctxs r)) by (apply nth_error_Some; congruence).
  destruct H.
  - rewrite P, Q1, Q4 in H0. destruct H0 as [[? _]|(_ & W & _)]; [congruence|]. split; auto. intro. lia.
  - rewrite P, Q1, Q4 in H3. split; [congruence|]. intros _. repeat split; auto. intros ->.
    assert (N1 : nth_error (r_ctxs r1) i = Some c00) by (subst r1; cbn; rewrite <- P at 2; apply handed_nth; auto).
    destruct H5 as [(_ & _ & ->)|(_ & r2 & [(T & _ & ->)|(T & ? & _)])]; auto; [|discriminate].
    unfold deadline_test, now in T. destruct (Z.eqb _ _); inversion T; subst r2; auto.
Qed.

(* a terminated script executes nothing when its turn comes and is reported as finished *)
Lemma visit_shape_terminated b1 b2 i c00 r x r' v :
  visit_shape b1 b2 i c00 r x r' v -> nth_error (r_ctxs r) i = Some c00 ->
  c_terminate c00 = true -> r_exit_req r = false -> 0 < r_slice r ->
  x = REmpty /\ v_instr v = 0 /\ v_restarts v = 0 /\ r' = handed r i c00.
Proof.
  intros H Hc Te Ex Sl.
  assert (P : prepared c00 = set_suspended (set_values (set_frames c00 []) []) false (c_wakeup c00)) by (unfold prepared; rewrite Te; auto).
  assert (Hi : i < length (r_ctxs r)) by (apply nth_error_Some; congruence).
  destruct H.
  - destruct H0 as [[_ ->]|(S1 & _)]; [|rewrite P in S1; discriminate].
    assert (E : r_slice (handed r i c00) = r_slice r) by (pose proof (handed_cfg r i c00) as Q; unfold rcfg in Q; congruence).
    rewrite E in H1.
    assert (X1 : r_exit_req (handed r i c00) = false) by (rewrite handed_exit; auto).
    assert (X2 : nth_error (r_ctxs (handed r i c00)) i = Some (prepared c00)) by (apply handed_nth; auto).
    assert (X3 : c_frames (prepared c00) = []) by (rewrite P; reflexivity).
    assert (X4 : c_suspended (prepared c00) = false) by (rewrite P; reflexivity).
    destruct (slice_run_no_frames _ _ _ _ _ _ _ _ _ _ _ H1 Sl X1 X2 X3 X4) as (-> & -> & -> & ->). auto.
  - rewrite P in H2. discriminate.
Qed.

(* ------------------------------------------------------------------ a scheduler pass and the scheduler loop, without the fuel *)
(* runtime.cpp:356-369: the finished context's remaining value is printed, the context is erased *)
Definition retire (r2:rt) (i:nat) : rt :=
  let r3 := match cur r2 with
            | Some c2 => match c_values c2 with
                         | v :: _ => match show true v with
                                     | Some s => mark (logmsg r2 d_ContextValuePrint) (append "VALUE " s)
                                     | None => mark (logmsg r2 d_ContextValuePrint) "VALUE ?" end
                         | [] => r2 end
            | None => r2 end in
  set_ctxs r3 (remove_nth (r_ctxs r3) i).

Lemma retire_reach r2 i : exists r3, reach r2 r3 /\ retire r2 i = set_ctxs r3 (remove_nth (r_ctxs r3) i).
Proof.
  unfold retire. destruct (cur r2) as [c2|]; [|eexists; split; [apply reach_refl|reflexivity]].
  destruct (c_values c2); [eexists; split; [apply reach_refl|reflexivity]|].
  destruct (show true v); eexists; (split; [apply reach_mark, reach_log, reach_refl|reflexivity]).
Qed.
Lemma retire_ctxs r2 i : r_ctxs (retire r2 i) = remove_nth (r_ctxs r2) i.
Proof.
  unfold retire. destruct (cur r2) as [c2|]; auto. destruct (c_values c2); auto.
  destruct (show true v); reflexivity.
Qed.
Lemma retire_exit r2 i : r_exit_req (retire r2 i) = r_exit_req r2.
Proof. destruct (retire_reach r2 i) as (r3 & R & ->). cbn. apply reach_exit; auto. Qed.
Lemma retire_cfg r2 i : rcfg (retire r2 i) = rcfg r2.
Proof. destruct (retire_reach r2 i) as (r3 & R & ->). transitivity (rcfg r3); [reflexivity|apply reach_cfg; auto]. Qed.
Lemma retire_clock r2 i : r_clock (retire r2 i) = r_clock r2.
Proof.
  unfold retire. destruct (cur r2) as [c2|]; auto. destruct (c_values c2); auto.
  destruct (show true v); reflexivity.
Qed.
Lemma retire_next_id r2 i : r_next_id (retire r2 i) = r_next_id r2.
Proof.
  unfold retire. destruct (cur r2) as [c2|]; auto. destruct (c_values c2); auto.
  destruct (show true v); reflexivity.
Qed.
Lemma retire_state r2 i : r_state (retire r2 i) = r_state r2.
Proof. destruct (retire_reach r2 i) as (r3 & R & ->). cbn. apply reach_state; auto. Qed.

Definition pass_rt (p:passres2) : rt := match p with PassDone2 _ r _ | PassExit2 _ r _ => r end.
Definition pass_log (p:passres2) : list visit := match p with PassDone2 _ _ l | PassExit2 _ _ l => l end.
Definition pass_result (p:passres2) : rresult := match p with PassDone2 x _ _ | PassExit2 x _ _ => x end.

Inductive pass_run (b1 b2:bool) : rt -> nat -> rresult -> list visit -> passres2 -> Prop :=
| pr_done r i x log : length (r_ctxs r) <= i -> pass_run b1 b2 r i x log (PassDone2 x r log)
| pr_exit r i x log x1 r2 v : i < length (r_ctxs r) -> visit_ctx b1 b2 r i = Ok (x1, r2, v) -> r_exit_req r2 = true ->
    pass_run b1 b2 r i x log (PassExit2 x1 (set_state (set_ctxs r2 []) StEmpty) (log ++ [v]))
| pr_error r i x log x1 r2 v : i < length (r_ctxs r) -> visit_ctx b1 b2 r i = Ok (x1, r2, v) -> r_exit_req r2 = false ->
    x1 <> REmpty -> x1 <> ROk ->
    pass_run b1 b2 r i x log (PassExit2 x1 r2 (log ++ [v]))
| pr_last r i x log r2 v : i < length (r_ctxs r) -> visit_ctx b1 b2 r i = Ok (REmpty, r2, v) -> r_exit_req r2 = false ->
    r_ctxs (retire r2 i) = [] ->
    pass_run b1 b2 r i x log (PassExit2 REmpty (set_active (retire r2 i) None) (log ++ [v]))
| pr_retire r i x log r2 v p : i < length (r_ctxs r) -> visit_ctx b1 b2 r i = Ok (REmpty, r2, v) -> r_exit_req r2 = false ->
    r_ctxs (retire r2 i) <> [] -> pass_run b1 b2 (retire r2 i) i REmpty (log ++ [v]) p ->
    pass_run b1 b2 r i x log p
| pr_next r i x log r2 v p : i < length (r_ctxs r) -> visit_ctx b1 b2 r i = Ok (ROk, r2, v) -> r_exit_req r2 = false ->
    pass_run b1 b2 r2 (S i) ROk (log ++ [v]) p ->
    pass_run b1 b2 r i x log p.

Lemma start_pass2_pass_run b1 b2 fuel : forall r i x log p,
  start_pass2 b1 b2 fuel r i x log = Ok p -> pass_run b1 b2 r i x log p.
Proof.
  induction fuel; intros r i x log p H; cbn [start_pass2] in H; [discriminate|].
  destruct (Nat.leb_spec (length (r_ctxs r)) i); [inversion H; subst; apply pr_done; auto|].
  destruct (visit_ctx b1 b2 r i) as [[[x1 r2] v]| | |] eqn:V; cbn [bindr] in H; try discriminate.
  destruct (r_exit_req r2) eqn:Ex; [inversion H; subst; eapply pr_exit; eauto|].
  destruct x1.
  - inversion H; subst. eapply pr_error; eauto; discriminate.
  - fold (retire r2 i) in H. destruct (r_ctxs (retire r2 i)) eqn:RC.
    + inversion H; subst. eapply pr_last; eauto.
    + eapply pr_retire; eauto. congruence.
  - eapply pr_next; eauto.
  - inversion H; subst. eapply pr_error; eauto; discriminate.
  - inversion H; subst. eapply pr_error; eauto; discriminate.
Qed.

Inductive loop_run (b1 b2:bool) : rt -> rresult -> list (list visit) -> rresult -> rt -> list (list visit) -> Prop :=
| lr_done r x ps : r_ctxs r = [] -> loop_run b1 b2 r x ps x r ps
| lr_exit r x ps x1 r1 log : r_ctxs r <> [] -> pass_run b1 b2 r 0 x [] (PassExit2 x1 r1 log) ->
    loop_run b1 b2 r x ps x1 r1 (ps ++ [log])
| lr_pass r x ps x1 r1 log x' r' ps' : r_ctxs r <> [] -> pass_run b1 b2 r 0 x [] (PassDone2 x1 r1 log) ->
    loop_run b1 b2 r1 x1 (ps ++ [log]) x' r' ps' ->
    loop_run b1 b2 r x ps x' r' ps'.

Lemma start_loop2_loop_run b1 b2 fuel : forall r x ps x' r' ps',
  start_loop2 b1 b2 fuel r x ps = Ok (x', r', ps') -> loop_run b1 b2 r x ps x' r' ps'.
Proof.
  induction fuel; intros r x ps x' r' ps' H; cbn [start_loop2] in H; [discriminate|].
  destruct (r_ctxs r) eqn:RC; [inversion H; subst; apply lr_done; auto|].
  destruct (start_pass2 b1 b2 exec_fuel r 0 x []) as [p| | |] eqn:P; cbn [bindr] in H; try discriminate.
  apply start_pass2_pass_run in P. destruct p.
  - eapply lr_pass; eauto. congruence.
  - inversion H; subst. eapply lr_exit; eauto. congruence.
Qed.
