(* C04 - definitions on top of the shared VM model (VM/VmDefs.v, VM/VmExec.v): histories of runs
   on ONE machine the way the embedders drive it (src/export/sqfvm.cpp:228-247 sqfvm_call,
   src/cli/cli.cpp:878-886), and the vocabulary of the C04 theorems.  No proofs here. *)
From Coq Require Import String Ascii.
From Coq Require Import ZArith List Bool.
From SqfVerif Require Import Gen.DiagCodes VM.VmDefs VM.VmExec.
Import ListNotations.
Local Open Scope string_scope.
Local Open Scope list_scope.

(* ------------------------------------------------------------------ events *)
(* an error-level (or worse) diagnostic: loglevel <= error, runtime.h:409 *)
Definition is_err (e:event) : bool := match e with EDiag l _ => Z.leb l 1 | EMark _ => false end.
Definition has_err (s:list event) : bool := existsb is_err s.
Definition ev_of (d:Z*Z) : event := EDiag (fst d) (snd d).

(* the machine carried by the result of one pass of execute_do's loop *)
Definition rt_of (it:iter) : rt := match it with Continue r => r | Executed r => r | Return _ r => r end.

(* the deadline test of execute_do (runtime.cpp:175-176) as do_iter performs it *)
Definition deadline_test (r1:rt) : bool * rt :=
  if Z.eqb (r_max_runtime r1) 0 then (false, r1)
  else let (t, r') := now r1 in (Z.ltb (r_max_runtime r1 + r_run_ts r1) t, r').

(* how a frame answers recover_runtime_error (frame.h:138, ops_generic.cpp:2017, ops_sqfvm.cpp:427) *)
Definition accepts (r:rt) (f:frame) : Prop :=
  match f_err f with
  | Some (ECatch _) => r_err r = false
  | Some (EExcept _ exchanged) => exchanged = false
  | None => False end.
Definition declines (r:rt) (f:frame) : Prop :=
  match f_err f with
  | Some (ECatch _) => r_err r = true
  | Some (EExcept _ exchanged) => exchanged = true
  | None => True end.
Definition handler_code (f:frame) : code :=
  match f_err f with Some (ECatch h) => h | Some (EExcept h _) => h | None => [] end.
(* what the handler finds in _exception when the value v was handed over on the operand stack *)
Definition exception_value (f:frame) (v:value) : value :=
  match f_err f with
  | Some (ECatch _) => match v with VTrace x => x | _ => VNil end
  | _ => v end.
(* the frame after recover_runtime_error switched it to its handler *)
Definition handler_frame (f:frame) (exc:value) : frame :=
  set_err (set_pos (set_code (set_vars f [("_exception", exc)]) (handler_code f)) 0) None.
(* the value handle_runtime_error pushes for a runtime error: the messages of the failing instruction *)
Definition messages_value (msgs:list (Z*Z)) : value := VTrace (VArr (map (fun d => VNum (snd d)) msgs)).

(* ------------------------------------------------------------------ one pass of execute_do's loop, case by case *)
(* the loop body gets as far as frame.next(): runtime.cpp:85-140 *)
Definition ready (r:rt) (c:context) : Prop :=
  r_exit_req r = false /\ cur r = Some c /\ c_suspended c = false /\ c_frames c <> [] /\ r_state r = StRunning.
(* frame.next() did not finish the frame (runtime.cpp:151) and did not report a restarted scope
   without instructions: an instruction is fetched *)
Definition fetches (fr:fres) (c c1:context) : Prop :=
  fr = FOk \/ (fr = FDone /\ length (c_frames c1) <> length (c_frames c)).
(* frame completion, runtime.cpp:151-172 *)
Definition complete_frame (r:rt) (c1:context) : context :=
  let popped := pop_value c1 in
  let c2 := match popped with Some (_, c') => c' | None => c1 end in
  let c3 := pop_frame (clear_values c2) in
  match popped with
  | Some (v, _) => push_value c3 v
  | None => if defect r "block_value_dropped" then c3
            else match c_frames c3 with [] => c3 | _ => push_value c3 VNil end end.
(* the machine the time-limit abort leaves behind, runtime.cpp:184-189 *)
Definition expired_machine (r2:rt) (c1:context) : rt :=
  set_msgs (set_errflag (set_exit_req (logmsg (upd_cur r2 c1) d_MaximumRuntimeReached) true) false) [].

Inductive pass (r:rt) : iter -> Prop :=
| PExitRequested : r_exit_req r = true -> pass r (Return ROk r)
| PSuspended c : r_exit_req r = false -> cur r = Some c -> c_suspended c = true -> pass r (Return ROk r)
| PEmpty c : r_exit_req r = false -> cur r = Some c -> c_suspended c = false -> c_frames c = [] -> pass r (Return REmpty r)
| PNotRunning c : r_exit_req r = false -> cur r = Some c -> c_suspended c = false -> c_frames c <> [] ->
    r_state r <> StRunning -> pass r (Return ROk r)
(* an exit behaviour inside frame.next() raised the flag: handled at once, at that scope *)
| PBehaviourError c fr r1 c1 b r2 : ready r c -> frame_next frame_fuel r c = Ok (fr, r1, c1) -> r_err r1 = true ->
    on_error (upd_cur r1 c1) = Ok (b, r2) ->
    pass r (if b then Continue r2 else Return RRuntimeError r2)
| PCompletion c r1 c1 : ready r c -> frame_next frame_fuel r c = Ok (FDone, r1, c1) -> r_err r1 = false ->
    length (c_frames c1) = length (c_frames c) ->
    pass r (Continue (upd_cur r1 (complete_frame r c1)))
| PExpired c fr r1 c1 i r2 : ready r c -> frame_next frame_fuel r c = Ok (fr, r1, c1) -> r_err r1 = false ->
    fetches fr c c1 -> current_instr c1 = Some i -> deadline_test r1 = (true, r2) ->
    pass r (Return RRuntimeError (expired_machine r2 c1))
| PExecuted c fr r1 c1 i r2 r3 c5 : ready r c -> frame_next frame_fuel r c = Ok (fr, r1, c1) -> r_err r1 = false ->
    fetches fr c c1 -> current_instr c1 = Some i -> deadline_test r1 = (false, r2) ->
    exec_instr i r2 c1 = Ok (r3, c5) -> r_err (upd_cur r3 c5) = false ->
    pass r (Executed (set_msgs (upd_cur r3 c5) []))
(* the instruction raised the flag: handled before anything else runs *)
| PInstrError c fr r1 c1 i r2 r3 c5 b r5 : ready r c -> frame_next frame_fuel r c = Ok (fr, r1, c1) -> r_err r1 = false ->
    fetches fr c c1 -> current_instr c1 = Some i -> deadline_test r1 = (false, r2) ->
    exec_instr i r2 c1 = Ok (r3, c5) -> r_err (upd_cur r3 c5) = true ->
    on_error (upd_cur r3 c5) = Ok (b, r5) ->
    pass r (if b then Executed r5 else Return RRuntimeError r5)
(* frame.next() restarted a scope that has no instructions (an empty loop body went round once): nothing
   is executed, the deadline is tested and the round counts against the slice; the messages stay *)
| PRestartExpired c r1 c1 r2 : ready r c -> frame_next frame_fuel r c = Ok (FRestarted, r1, c1) -> r_err r1 = false ->
    deadline_test r1 = (true, r2) ->
    pass r (Return RRuntimeError (expired_machine r2 c1))
| PRestarted c r1 c1 r2 : ready r c -> frame_next frame_fuel r c = Ok (FRestarted, r1, c1) -> r_err r1 = false ->
    deadline_test r1 = (false, r2) ->
    pass r (Executed (upd_cur r2 c1)).

(* the machine at the moment a pass notices the raised flag: after frame.next() (runtime.cpp:142) or
   after the instruction (runtime.cpp:289) *)
Inductive raised_in_pass (r:rt) (c:context) : rt -> Prop :=
| RaisedByBehaviour fr r1 c1 : frame_next frame_fuel r c = Ok (fr, r1, c1) -> r_err r1 = true ->
    raised_in_pass r c (upd_cur r1 c1)
| RaisedByInstr fr r1 c1 i r2 r3 c5 : frame_next frame_fuel r c = Ok (fr, r1, c1) -> r_err r1 = false ->
    fetches fr c c1 -> current_instr c1 = Some i -> deadline_test r1 = (false, r2) ->
    exec_instr i r2 c1 = Ok (r3, c5) -> r_err (upd_cur r3 c5) = true ->
    raised_in_pass r c (upd_cur r3 c5).

(* a failed run is explained by its own events (newest first): the time-limit diagnostic, or the
   stack trace with an error-level diagnostic logged before it *)
Definition failure_explained (s:list event) : Prop :=
  exists a b, s = a ++ ev_of d_MaximumRuntimeReached :: b \/ (s = a ++ ev_of d_Stacktrace :: b /\ has_err b = true).

(* ------------------------------------------------------------------ histories of runs on one machine *)
(* what the embedder does after execute(start) returned:
   HAbortOnFailure = sqfvm_call (abort unless ok/empty), HAbortUnlessOk = the CLI loop, HKeep = nothing *)
Inductive hmode := HAbortOnFailure | HAbortUnlessOk | HKeep.
Record hrun := { h_code : code; h_mode : hmode }.

Definition wants_abort (m:hmode) (x:rresult) : bool :=
  match m, x with
  | HKeep, _ => false
  | HAbortOnFailure, (ROk | REmpty) => false
  | HAbortOnFailure, _ => true
  | HAbortUnlessOk, ROk => false
  | HAbortUnlessOk, _ => true end.

Record hobs := { ho_before : rt;            (* machine when the run's script was loaded *)
                 ho_result : rresult;       (* result of execute(start) *)
                 ho_after : rt;             (* machine when execute(start) returned *)
                 ho_abort : option rresult  (* result of the embedder's abort, if it issued one *) }.

Definition hist_step (r:rt) (h:hrun) : res (hobs * rt) :=
  let r0 := load r (h_code h) in
  bindr (execute AStart r0) (fun '(x, r1) =>
    if wants_abort (h_mode h) x then
      bindr (execute AAbort r1) (fun '(xa, r2) =>
        Ok ({| ho_before := r0; ho_result := x; ho_after := r1; ho_abort := Some xa |}, r2))
    else Ok ({| ho_before := r0; ho_result := x; ho_after := r1; ho_abort := None |}, r1)).

Fixpoint hist (r:rt) (hs:list hrun) : res (list hobs * rt) :=
  match hs with
  | [] => Ok ([], r)
  | h :: rest =>
      bindr (hist_step r h) (fun '(o, r1) =>
        bindr (hist r1 rest) (fun '(os, r2) => Ok (o :: os, r2))) end.

(* the events a run added, oldest first *)
Definition events_added (before after:rt) : list event :=
  rev (firstn (length (r_out after) - length (r_out before)) (r_out after)).

(* printed observation of a history: per run  result:state:events[:abortresult:state] , joined by | ;
   an outcome outside Ok ends the history with its name *)
Definition show_hobs (o:hobs) (final:rt) : string :=
  append (show_result (ho_result o)) (append ":" (append (show_state (r_state (ho_after o))) (append ":"
    (append (show_events (events_added (ho_before o) (ho_after o)) 3)
      (match ho_abort o with
       | Some xa => append ":" (append (show_result xa) (append ":" (show_state (r_state final))))
       | None => "" end))))).

Fixpoint hist_trace (r:rt) (hs:list hrun) (acc:list string) : list string :=
  match hs with
  | [] => rev acc
  | h :: rest =>
      match hist_step r h with
      | Ok (o, r1) => hist_trace r1 rest (show_hobs o r1 :: acc)
      | Unsupported w => rev (append "UNSUPPORTED " w :: acc)
      | Hang w => rev (append "HANG " w :: acc)
      | UB w => rev (append "UB " w :: acc) end end.
