(* C02 simulation, part 3: structured programs.  Expressions may now enter blocks: `call {..}`, `x call {..}`,
   `if c then {..}`, `if c then {..} else {..}`, with code values held in variables, nested to any depth inside
   operands, array elements, assignments and blocks.  Expressions therefore change the state; the big-step
   relation xev/xevs/xstmt/xblock threads it.  Proved: (block_runs) the VM model, started at the compiled code in
   a state that Matches the reference state, pushes the frame, runs the block, completes the frame, hands over
   exactly the block's value and ends in a state that Matches the reference result; (block_eval) the reference
   semantics RefSem.eval_block computes that same result. *)
From Coq Require Import String Ascii.
From Coq Require Import ZArith List Bool Lia.
From SqfVerif Require Import Gen.DiagCodes Gen.Overloads VM.VmDefs VM.VmExec VM.RefSem VM.C02Proofs VM.SimDefs VM.SimProofs VM.SimBlock.
Import ListNotations.
Local Open Scope string_scope.
Local Open Scope list_scope.

Definition nonnil (v:rvalue) : Prop := v <> RNil /\ v <> RNone.
Definition res_of (reg:rvalue) : rvalue := match reg with RNone => RNil | v => v end.
Definition enter (s:sstate) (vars:list (string*rvalue)) : sstate := push_scope s (mk_scope (cur_ns_of s) vars).
Definition this_of (s:sstate) : rvalue := match lookup_scopes "_this" (st_scopes s) with Some t => t | None => RNil end.

Inductive xev : sstate -> expr -> rvalue -> sstate -> Prop :=
| XPure s e v : pev (loc_of s) (glob_of s) e v -> xev s e v s
| XVarL s n v : is_local n = true -> hidden (lower n) = false -> loc_of s (lower n) = Some v -> nonnil v -> xev s (EVar n) v s
| XVarG s n v : is_local n = false -> glob_of s (lower n) = Some v -> nonnil v -> xev s (EVar n) v s
| XCode s b : xev s (ECode b) (RCode b) s
| XArr s l vs s' : xevs s l vs s' -> xev s (EArr l) (RArr vs) s'
| XUn s n a va v s1 : (forall k, a <> ENum k) -> xev s a va s1 -> pure_unary (lower n) va = Some v -> xev s (EUnary n a) v s1
| XBin s n a b va vb v s1 s2 : xev s a va s1 -> xev s1 b vb s2 -> pure_binary (lower n) va vb = Some v -> xev s (EBinary n a b) v s2
| XCallU s n a b s1 reg s2 : lower n = "call" -> (forall k, a <> ENum k) -> xev s a (RCode b) s1 ->
    xblock (enter s1 [("_this", this_of s1)]) RNil b reg s2 -> xev s (EUnary n a) (res_of reg) (pop_scope s2)
| XCallB s n a x va b s1 s2 reg s3 : lower n = "call" -> xev s a va s1 -> nonnil va -> xev s1 x (RCode b) s2 ->
    xblock (enter s2 [("_this", va)]) RNil b reg s3 -> xev s (EBinary n a x) (res_of reg) (pop_scope s3)
| XIf s n a c s1 : lower n = "if" -> (forall k, a <> ENum k) -> xev s a (RBool c) s1 -> xev s (EUnary n a) (RIf c) s1
| XElse s n a b x y s1 s2 : lower n = "else" -> xev s a (RCode x) s1 -> xev s1 b (RCode y) s2 ->
    xev s (EBinary n a b) (RArr [RCode x; RCode y]) s2
| XThenSkip s n a b x s1 s2 : lower n = "then" -> xev s a (RIf false) s1 -> xev s1 b (RCode x) s2 -> xev s (EBinary n a b) RNil s2
| XThen s n a b x s1 s2 reg s3 : lower n = "then" -> xev s a (RIf true) s1 -> xev s1 b (RCode x) s2 ->
    xblock (enter s2 []) RNil x reg s3 -> xev s (EBinary n a b) (res_of reg) (pop_scope s3)
| XThenElse s n a b c x y s1 s2 reg s3 : lower n = "then" -> xev s a (RIf c) s1 -> xev s1 b (RArr [RCode x; RCode y]) s2 ->
    xblock (enter s2 []) RNil (if c then x else y) reg s3 -> xev s (EBinary n a b) (res_of reg) (pop_scope s3)
with xevs : sstate -> list expr -> list rvalue -> sstate -> Prop :=
| XNil s : xevs s [] [] s
| XCons s e v s1 l vs s2 : xev s e v s1 -> nonnil v -> xevs s1 l vs s2 -> xevs s (e :: l) (v :: vs) s2
with xstmt : sstate -> rvalue -> stmt -> rvalue -> sstate -> Prop :=
| XSExprV s reg e v s1 : xev s e v s1 -> xstmt s reg (SExpr e) v s1
| XSAssign s reg n e v s1 : n <> "" -> hidden (lower n) = false -> xev s e v s1 -> nonnil v ->
    xstmt s reg (SAssign n e) reg (if is_local n then assign_local s1 n v else rns_set s1 (cur_ns_of s1) n v)
| XSLocal s reg n e v s1 : n <> "" -> xev s e v s1 -> nonnil v -> xstmt s reg (SLocal n e) reg (bind_here s1 n v)
with xblock : sstate -> rvalue -> list stmt -> rvalue -> sstate -> Prop :=
| XBNil s reg : xblock s reg [] reg s
| XBLast s reg st reg1 s1 : xstmt s reg st reg1 s1 -> xblock s reg [st] reg1 s1
| XBCons s reg st reg1 s1 st2 rest reg' s' :
    xstmt s reg st reg1 s1 -> xblock s1 RNone (st2 :: rest) reg' s' -> xblock s reg (st :: st2 :: rest) reg' s'.

Scheme xev_i := Induction for xev Sort Prop
  with xevs_i := Induction for xevs Sort Prop
  with xstmt_i := Induction for xstmt Sort Prop
  with xblock_i := Induction for xblock Sort Prop.
Combined Scheme x_ind from xev_i, xevs_i, xstmt_i, xblock_i.

(* ---------------------------------------------------------------- machine states *)
(* the configuration the simulation is stated for: none of the model's defect switches, no cap on loop rounds *)
Definition quirks (r:rt) : list string * nat := (r_defects r, r_max_loop r).
Definition Mach (s:sstate) (r:rt) (c:context) (f:frame) (rest:list frame) : Prop :=
  Good r c /\ c_frames c = f :: rest /\ Match s r (f :: rest) /\ f_base f <= length (c_values c) /\ quirks r = ([], 0).

(* after k instructions of the running frame: value v on top of the old stack, state s' *)
Definition Post (s':sstate) (v:value) (k:nat) (r:rt) (c:context) (f:frame) (rest:list frame) : Prop :=
  exists r' c' f' rest', Steps r r' /\ Mach s' r' c' f' rest' /\ c_values c' = v :: c_values c /\
    moved f f' /\ f_pos f' = f_pos f + k /\ Forall2 kept rest rest'.

Definition AtM (s:sstate) (reg:rvalue) (r:rt) (c:context) (f:frame) (rest:list frame) (below:list value) : Prop :=
  Mach s r c f rest /\ length below = f_base f /\ exists top, c_values c = top ++ below /\ reg_rep reg top.

Definition BlockRuns (s:sstate) (reg:rvalue) (code:list instr) (reg':rvalue) (s':sstate) : Prop :=
  forall r c f rest below pre post, AtM s reg r c f rest below -> Fresh c below ->
    f_code f = pre ++ code ++ post -> f_pos f = length pre ->
    exists r' c' f' rest', Steps r r' /\ AtM s' reg' r' c' f' rest' below /\
      moved f f' /\ f_pos f' = f_pos f + length code /\ Forall2 kept rest rest'.

Lemma defects_upd_cur r c : r_defects (upd_cur r c) = r_defects r.
Proof. unfold upd_cur. destruct (r_active r); reflexivity. Qed.
Lemma quirks_upd_cur r c : quirks (upd_cur r c) = quirks r.
Proof. unfold quirks, upd_cur. destruct (r_active r); reflexivity. Qed.
Lemma quirks_defects r : quirks r = ([], 0) -> r_defects r = [].
Proof. intros H. exact (f_equal fst H). Qed.
Lemma quirks_loop r : quirks r = ([], 0) -> r_max_loop r = 0.
Proof. intros H. exact (f_equal snd H). Qed.

Lemma moved_refl f : moved f f. Proof. destruct f; reflexivity. Qed.
Lemma kept_moved f f' : kept f f' -> moved f f'.
Proof. unfold kept, moved. intros H. rewrite <- H. destruct f; reflexivity. Qed.
Lemma moved_base f f' : moved f f' -> f_base f' = f_base f. Proof. intros H. rewrite <- H. reflexivity. Qed.
Lemma moved_code f f' : moved f f' -> f_code f' = f_code f. Proof. intros H. rewrite <- H. reflexivity. Qed.
Lemma moved_exit f f' : moved f f' -> f_exit f' = f_exit f. Proof. intros H. rewrite <- H. reflexivity. Qed.
Lemma kept_pos f f' : kept f f' -> f_pos f' = f_pos f. Proof. intros H. rewrite <- H. reflexivity. Qed.

Lemma match_set_pos s r f p rest : Match s r (f :: rest) -> Match s r (set_pos f p :: rest).
Proof. intros [F N]. split; [|exact N]. inversion F as [|sc f0 scs fs FM F' E1 E2]; subst. constructor; assumption. Qed.
Lemma match_upd s r c fs : Match s r fs -> Match s (upd_cur r c) fs.
Proof. intros [F N]. split; [exact F|rewrite world_upd_cur; exact N]. Qed.

(* ---------------------------------------------------------------- single steps, existential style *)
Lemma push_post s r c f rest pre post i v :
  Mach s r c f rest -> f_code f = pre ++ i :: post -> f_pos f = length pre ->
  (forall c1, c_frames c1 = set_pos f (S (f_pos f)) :: rest -> exec_instr i r c1 = Ok (r, push_value c1 v)) ->
  Post s v 1 r c f rest.
Proof.
  intros (G & EF & M & B & D) EC EP EX.
  pose proof (run_push r c f rest pre post i v G EF EC EP EX) as S1.
  eexists _, _, _, rest. split; [exact S1|]. split.
  - split; [apply good_adv; exact G|]. split; [reflexivity|]. split; [apply match_upd, match_set_pos; exact M|].
    split; [cbn; lia|rewrite quirks_upd_cur; exact D].
  - split; [reflexivity|]. split; [apply moved_set_pos|]. split; [reflexivity|apply kept_all_refl].
Qed.

Lemma unary_run r c f rest pre post n' w vals c3 y :
  Good r c -> c_frames c = f :: rest -> f_code f = pre ++ IUnary n' :: post -> f_pos f = length pre ->
  c_values c = w :: vals -> f_base f <= length vals -> w <> VNil ->
  op_unary (lower n') w r (set_values (set_frames c (set_pos f (S (f_pos f)) :: rest)) vals) = Ok (r, c3, y) ->
  c_suspended c3 = false ->
  Steps r (upd_cur r (push_value c3 y)) /\ Good (upd_cur r (push_value c3 y)) (push_value c3 y).
Proof.
  intros G EF EC EP EV B NW OP SU.
  assert (N : nth_error (f_code f) (f_pos f) = Some (IUnary n')) by (rewrite EC, EP; apply nth_error_mid).
  apply (run_one r c f rest (IUnary n') _ G EF N); [|exact SU].
  eapply exec_unary_nonnil; [|exact NW|exact OP].
  apply (pop_value_top _ (set_pos f (S (f_pos f))) rest); [reflexivity|exact EV|exact B].
Qed.

Lemma binary_run r c f rest pre post n' l w vals c3 y :
  Good r c -> c_frames c = f :: rest -> f_code f = pre ++ IBinary n' :: post -> f_pos f = length pre ->
  c_values c = w :: l :: vals -> f_base f <= length vals -> w <> VNil -> l <> VNil ->
  op_binary (lower n') l w r (set_values (set_frames c (set_pos f (S (f_pos f)) :: rest)) vals) = Ok (r, c3, y) ->
  c_suspended c3 = false ->
  Steps r (upd_cur r (push_value c3 y)) /\ Good (upd_cur r (push_value c3 y)) (push_value c3 y).
Proof.
  intros G EF EC EP EV B NW NL OP SU.
  assert (N : nth_error (f_code f) (f_pos f) = Some (IBinary n')) by (rewrite EC, EP; apply nth_error_mid).
  apply (run_one r c f rest (IBinary n') _ G EF N); [|exact SU].
  eapply (exec_binary_nonnil n' l w r _ (set_values (set_frames c (set_pos f (S (f_pos f)) :: rest)) (l :: vals))); [|exact NW| |exact NL|exact OP].
  - apply (pop_value_top _ (set_pos f (S (f_pos f))) rest); [reflexivity|exact EV|cbn; lia].
  - rewrite (pop_value_top _ (set_pos f (S (f_pos f))) rest l vals); [reflexivity|reflexivity|reflexivity|exact B].
Qed.

(* a frame that has run all its instructions completes: it hands the top of its region (nil if the region is empty)
   to the frame below and disappears *)
Lemma complete_run r c f fc rest top vals :
  Good r c -> quirks r = ([], 0) -> c_frames c = f :: fc :: rest -> f_pos f = length (f_code f) -> f_exit f = None ->
  c_values c = top ++ vals -> length vals = f_base f ->
  let c4 := set_values (set_frames c (fc :: rest)) (match top with [] => VNil | x :: _ => x end :: vals) in
  Steps r (upd_cur r c4) /\ Good (upd_cur r c4) c4.
Proof.
  intros G D EF EP EX EV LB c4. pose proof G as (C & X & St & E & M & MR & SU).
  split; [|apply (good_upd r c c4 G); exact SU].
  apply steps_cont_upd.
  unfold do_iter. rewrite X, C, SU, EF, St.
  destruct frame_fuel_S as [k Hk]. rewrite Hk. cbn [frame_next]. rewrite EF.
  assert (A1 : at_end f = false) by (unfold at_end; apply Nat.eqb_neq; lia).
  assert (A2 : at_end (set_pos f (S (f_pos f))) = true) by (unfold at_end; cbn; apply Nat.eqb_eq; lia).
  rewrite A1, A2. cbn [f_exit set_pos]. rewrite EX. cbn [bindr]. rewrite E.
  cbn [c_frames set_frames length]. rewrite Nat.eqb_refl.
  unfold defect. rewrite (quirks_defects _ D). cbn [existsb].
  set (c1 := set_frames c (set_pos f (S (f_pos f)) :: fc :: rest)).
  destruct top as [|x top].
  - cbn [app] in EV.
    assert (P : pop_value c1 = None).
    { unfold pop_value. cbn [c_values c1 set_frames c_frames f_base set_pos]. rewrite EV. destruct vals; [reflexivity|].
      destruct (Nat.leb_spec (length (v :: vals)) (f_base f)) as [L|L]; [reflexivity|lia]. }
    rewrite P. unfold clear_values, pop_frame. cbn [c_frames c1 set_frames c_values f_base set_pos tl set_values].
    rewrite EV, LB, Nat.sub_diag. cbn [skipn]. unfold push_value. subst c4. cbn. reflexivity.
  - cbn [app] in EV.
    assert (P : pop_value c1 = Some (x, set_values c1 (top ++ vals))).
    { apply (pop_value_top c1 (set_pos f (S (f_pos f))) (fc :: rest)); [reflexivity|exact EV|cbn; rewrite app_length; lia]. }
    rewrite P. unfold clear_values, pop_frame. cbn [c_frames c1 set_frames c_values f_base set_pos tl set_values].
    rewrite app_length, <- LB. replace (length top + length vals - length vals) with (length top) by lia.
    rewrite skipn_app, skipn_all, Nat.sub_diag. cbn [skipn app]. unfold push_value. cbn. reflexivity.
Qed.

(* enter a block as a new frame, run it, leave it *)
Lemma scope_run s vars b reg s3 r1 c0 fc rest :
  BlockRuns (enter s vars) RNil (compile_block b) reg s3 ->
  let newf := mk_frame (cur_ns c0) (compile_block b) None None (mvars vars) in
  let c1 := push_value (push_frame c0 newf) VNil in
  Good r1 c1 -> quirks r1 = ([], 0) -> c_frames c0 = fc :: rest -> Match s r1 (fc :: rest) -> f_base fc <= length (c_values c0) ->
  exists r' c' fc' rest', Steps r1 r' /\ Mach (pop_scope s3) r' c' fc' rest' /\ c_values c' = cv (res_of reg) :: c_values c0 /\
    kept fc fc' /\ Forall2 kept rest rest'.
Proof.
  intros BR newf c1 G D EF M B.
  set (nf := set_base newf (length (c_values c0))).
  assert (A : AtM (enter s vars) RNil r1 c1 nf (fc :: rest) (c_values c0)).
  { split.
    - split; [exact G|]. split; [cbn; rewrite EF; reflexivity|]. split.
      + destruct M as [F N]. split; [|exact N]. cbn. constructor; [|exact F].
        split; [apply vars_match_mvars|split; [|split; reflexivity]]. cbn. unfold cur_ns. rewrite EF. inversion F as [|sc f0 scs fs (V & NS & BB) F' E1 E2]; subst.
        unfold cur_ns_of. rewrite <- E1. exact NS.
      + split; [cbn; lia|exact D].
    - split; [reflexivity|]. exists [VNil]. split; [reflexivity|]. split; [reflexivity|]. split; [discriminate|nil_case]. }
  destruct (BR r1 c1 nf (fc :: rest) (c_values c0) [] [] A (fresh_one c1 (c_values c0) eq_refl)) as (r2 & c2 & f2 & rest2 & S2 & A2 & MV & P2 & K2).
  { cbn. rewrite app_nil_r. reflexivity. }
  { reflexivity. }
  destruct A2 as ((G2 & EF2 & M2 & B2 & D2) & LB2 & top & EV2 & RR).
  inversion K2 as [|fa fc2 ra rest2' K2a K2b Ea Eb]; subst.
  destruct (complete_run r2 c2 f2 fc2 rest2' top (c_values c0) G2 D2 EF2) as [S3 G3].
  { rewrite P2, (moved_code _ _ MV). reflexivity. }
  { rewrite (moved_exit _ _ MV). reflexivity. }
  { exact EV2. }
  { exact LB2. }
  eexists _, _, fc2, rest2'. split; [eapply steps_trans; [exact S2|exact S3]|]. split.
  - split; [exact G3|]. split; [reflexivity|]. split.
    + apply match_upd. destruct M2 as [F2 N2]. split; [|exact N2].
      inversion F2 as [|sc f0 scs fs FM F' E1 E2]; subst. cbn. rewrite <- E1. cbn. exact F'.
    + split; [cbn; rewrite <- K2a; cbn; lia|rewrite quirks_upd_cur; exact D2].
  - split.
    + cbn. f_equal. destruct top as [|x top]; cbn in RR.
      * rewrite RR. reflexivity.
      * destruct RR as [-> NN]. destruct reg; reflexivity.
    + split; assumption.
Qed.

Lemma nth_mid2 {A} (pre a:list A) i post : nth_error (pre ++ a ++ i :: post) (length pre + length a) = Some i.
Proof. apply nth_error_app_mid. Qed.

Lemma xev_nonnil_code b : nonnil (RCode b). Proof. split; discriminate. Qed.

Lemma pure_unary_nonnil n va v : pure_unary n va = Some v -> cv v <> VNil.
Proof.
  unfold pure_unary, option_map. intros HU. crack HU; inversion HU; discriminate.
Qed.
Lemma pure_binary_nonnil n va vb v : pure_binary n va vb = Some v -> cv v <> VNil.
Proof.
  unfold pure_binary. intros HBin. crack HBin; inversion HBin; discriminate.
Qed.
Lemma nonnil_cv v : nonnil v -> cv v <> VNil.
Proof. intros [A B]. destruct v; try discriminate; contradiction. Qed.

(* composition of Post with a following step that starts where Post ended *)
Ltac post_intro H r1 c1 f1 rest1 S1 M1 EV1 MV1 P1 K1 :=
  destruct H as (r1 & c1 & f1 & rest1 & S1 & M1 & EV1 & MV1 & P1 & K1).

(* the operand(s) are on the stack, the operator instruction is next: what remains of a Post *)
Lemma after_operands_code f f1 pre a post : moved f f1 -> f_code f = pre ++ a ++ post -> f_pos f = length pre ->
  f_pos f1 = f_pos f + length a -> f_code f1 = (pre ++ a) ++ post /\ f_pos f1 = length (pre ++ a).
Proof. intros MV EC EP P1. rewrite (moved_code _ _ MV), EC, P1, EP, app_length, app_assoc. split; reflexivity. Qed.


Lemma xev_not_none s e v s' : xev s e v s' -> v <> RNone.
Proof.
  destruct 1; try discriminate;
    try (match goal with H : nonnil _ |- _ => exact (proj2 H) end);
    try (match goal with |- res_of ?r <> _ => destruct r; discriminate end).
  - match goal with H : pev _ _ _ _ |- _ => exact (proj2 (data_not_nil _ (pev_data _ _ _ _ H))) end.
  - match goal with H : pure_unary _ _ = Some _ |- _ => intros ->; exact (pure_unary_nonnil _ _ _ H eq_refl) end.
  - match goal with H : pure_binary _ _ _ = Some _ |- _ => intros ->; exact (pure_binary_nonnil _ _ _ _ H eq_refl) end.
Qed.

(* the two assignment instructions, with the value on top of the stack *)
Lemma assign_run s1 r1 c1 f1 rest1 pre post n v vals :
  Mach s1 r1 c1 f1 rest1 -> f_code f1 = pre ++ IAssign n :: post -> f_pos f1 = length pre ->
  c_values c1 = cv v :: vals -> f_base f1 <= length vals -> n <> "" -> hidden (lower n) = false -> nonnil v ->
  exists r' c' f' rest', Steps r1 r' /\
     Mach (if is_local n then assign_local s1 n v else rns_set s1 (cur_ns_of s1) n v) r' c' f' rest' /\
     c_values c' = vals /\ moved f1 f' /\ f_pos f' = S (f_pos f1) /\ Forall2 kept rest1 rest'.
Proof.
  intros (G1 & EF1 & M & B1 & D1) EC EP EV B NN HH NV0. pose proof (nonnil_cv _ NV0) as NV.
  assert (N1 : nth_error (f_code f1) (f_pos f1) = Some (IAssign n)) by (rewrite EC, EP; apply nth_error_mid).
  set (c1' := set_frames c1 (set_pos f1 (S (f_pos f1)) :: rest1)).
  assert (P : pop_value c1' = Some (cv v, set_values c1' vals)).
  { apply (pop_value_top c1' (set_pos f1 (S (f_pos f1))) rest1); [reflexivity|exact EV|exact B]. }
  assert (NE : String.eqb n "" = false) by (apply String.eqb_neq; exact NN).
  assert (SU : c_suspended c1 = false) by (destruct G1 as (_ & _ & _ & _ & _ & _ & SU); exact SU).
  destruct M as [F NS]. inversion F as [|sc f0 scs fs FM F' E1 E2]; subst f0 fs.
  set (c2 := set_values c1' vals).
  destruct (is_local n) eqn:IL.
  - assert (F2 : Forall2 frame_match (sc :: scs) (c_frames c2)) by (cbn; constructor; [exact FM|exact F']).
    assert (EX : exec_instr (IAssign n) r1 c1' = Ok (r1, assign_local_var c2 n (cv v))).
    { cbn [exec_instr]. rewrite P. rewrite NE, IL. destruct (cv v); try reflexivity. exfalso. apply NV. reflexivity. }
    destruct (run_one r1 c1 f1 rest1 (IAssign n) _ G1 EF1 N1 EX) as [S2 G2].
    { unfold assign_local_var. destruct (assign_frames _ _ _); unfold upd_top; cbn; try exact SU. }
    unfold assign_local. rewrite <- E1.
    destruct (assign_match (lower n) v HH _ _ F2) as [(scs' & fs' & A1 & A2 & M' & K)|[A1 A2]].
    + unfold assign_local_var in *. rewrite A2 in *. rewrite A1.
      cbn [c_frames c2 set_values c1' set_frames] in K. inversion K as [|fa fb ra rb K1 K2 Ea Eb]; subst.
      inversion M' as [|sc' fb' scs'' rb' FM' F'' Ea' Eb']; subst.
      eexists _, _, fb, rb. split; [exact S2|]. split.
      { split; [exact G2|]. split; [reflexivity|]. split.
        { split; [cbn; constructor; assumption|]. rewrite world_upd_cur. exact NS. }
        split; [rewrite <- K1; cbn; exact B|rewrite quirks_upd_cur; exact D1]. }
      split; [reflexivity|]. split; [unfold moved; rewrite <- K1; destruct f1; reflexivity|].
      split; [rewrite <- K1; reflexivity|exact K2].
    + unfold assign_local_var in *. rewrite A2 in *. rewrite A1. unfold bind_here. rewrite <- E1.
      eexists _, _, _, rest1. split; [exact S2|]. split.
      { split; [exact G2|]. split; [reflexivity|]. split.
        { split; [|rewrite world_upd_cur; exact NS]. cbn. constructor; [|exact F'].
          destruct FM as (V & N0 & B0). split; [cbn; apply vars_match_set; exact V|split; [exact N0|exact B0]]. }
        split; [cbn; exact B|rewrite quirks_upd_cur; exact D1]. }
      split; [reflexivity|]. split; [unfold moved; destruct f1; reflexivity|]. split; [reflexivity|apply kept_all_refl].
  - assert (EX : exec_instr (IAssign n) r1 c1' = Ok (ns_set r1 (f_ns f1) n (cv v), c2)).
    { cbn [exec_instr]. rewrite P. rewrite NE, IL. destruct (cv v); try reflexivity. exfalso. apply NV. reflexivity. }
    destruct (run_one_g r1 c1 f1 rest1 (IAssign n) _ _ G1 EF1 N1 EX) as [S2 G2].
    { exact SU. } { unfold ns_set, set_nss, rt_with, ctl_same, cfg_same. cbn. auto 15. }
    eexists _, _, _, rest1. split; [exact S2|]. split.
    { split; [exact G2|]. split; [reflexivity|]. split.
      { split; [cbn; rewrite <- E1; constructor; [exact FM|exact F']|].
        rewrite world_upd_cur. unfold world. f_equal; [|exact (world_marks _ _ _ NS)].
        unfold ns_set. rewrite nss_set_nss, (world_nss _ _ _ NS).
        destruct FM as (V & N0 & B0). unfold cur_ns_of. rewrite <- E1. rewrite N0. cbn [rns_set st_nss].
        rewrite assoc_mnss. destruct (assoc (sc_ns sc) (st_nss s1)) as [m|]; cbn [option_map].
        - rewrite assoc_set_mvars, assoc_set_mnss. reflexivity.
        - change (assoc_set (lower n) (cv v) []) with (mvars (assoc_set (lower n) v [])). rewrite assoc_set_mnss. reflexivity. }
      split; [cbn; exact B|rewrite quirks_upd_cur; exact D1]. }
    split; [reflexivity|]. split; [unfold moved; destruct f1; reflexivity|]. split; [reflexivity|apply kept_all_refl].
Qed.

Lemma local_run s1 r1 c1 f1 rest1 pre post n v vals :
  Mach s1 r1 c1 f1 rest1 -> f_code f1 = pre ++ IAssignLocal n :: post -> f_pos f1 = length pre ->
  c_values c1 = cv v :: vals -> f_base f1 <= length vals -> n <> "" -> nonnil v ->
  exists r' c' f' rest', Steps r1 r' /\ Mach (bind_here s1 n v) r' c' f' rest' /\
     c_values c' = vals /\ moved f1 f' /\ f_pos f' = S (f_pos f1) /\ Forall2 kept rest1 rest'.
Proof.
  intros (G1 & EF1 & M & B1 & D1) EC EP EV B NN NV0. pose proof (nonnil_cv _ NV0) as NV.
  assert (N1 : nth_error (f_code f1) (f_pos f1) = Some (IAssignLocal n)) by (rewrite EC, EP; apply nth_error_mid).
  set (c1' := set_frames c1 (set_pos f1 (S (f_pos f1)) :: rest1)).
  assert (P : pop_value c1' = Some (cv v, set_values c1' vals)).
  { apply (pop_value_top c1' (set_pos f1 (S (f_pos f1))) rest1); [reflexivity|exact EV|exact B]. }
  assert (NE : String.eqb n "" = false) by (apply String.eqb_neq; exact NN).
  assert (SU : c_suspended c1 = false) by (destruct G1 as (_ & _ & _ & _ & _ & _ & SU); exact SU).
  destruct M as [F NS]. inversion F as [|sc f0 scs fs FM F' E1 E2]; subst f0 fs.
  set (c2 := set_values c1' vals).
  assert (EX : exec_instr (IAssignLocal n) r1 c1' = Ok (r1, set_top_var c2 n (cv v))).
  { cbn [exec_instr]. rewrite P. rewrite NE. destruct (cv v); try reflexivity. exfalso. apply NV. reflexivity. }
  destruct (run_one r1 c1 f1 rest1 (IAssignLocal n) _ G1 EF1 N1 EX) as [S2 G2].
  { exact SU. }
  unfold bind_here. rewrite <- E1.
  eexists _, _, _, rest1. split; [exact S2|]. split.
  { split; [exact G2|]. split; [reflexivity|]. split.
    { split; [|rewrite world_upd_cur; exact NS]. cbn. constructor; [|exact F'].
      destruct FM as (V & N0 & B0). split; [cbn; apply vars_match_set; exact V|split; [exact N0|exact B0]]. }
    split; [cbn; exact B|rewrite quirks_upd_cur; exact D1]. }
  split; [reflexivity|]. split; [unfold moved; destruct f1; reflexivity|]. split; [reflexivity|apply kept_all_refl].
Qed.

(* ENDSTATEMENT empties the region *)
Lemma end_run s reg r c f rest below pre post : AtM s reg r c f rest below ->
  f_code f = pre ++ IEnd :: post -> f_pos f = length pre ->
  exists r' c', Steps r r' /\ AtM s RNone r' c' (set_pos f (S (f_pos f))) rest below /\ Fresh c' below.
Proof.
  intros ((G & EF & M & B & D) & LB & top & EV & RR) EC EP.
  assert (N : nth_error (f_code f) (f_pos f) = Some IEnd) by (rewrite EC, EP; apply nth_error_mid).
  set (c1 := set_frames c (set_pos f (S (f_pos f)) :: rest)).
  assert (EX : exec_instr IEnd r c1 = Ok (r, set_values c1 below)).
  { cbn [exec_instr]. unfold clear_values. cbn [c_frames c1 set_frames set_pos f_base c_values]. rewrite EV, app_length, <- LB.
    replace (length top + length below - length below) with (length top) by lia. rewrite skipn_app, skipn_all, Nat.sub_diag. reflexivity. }
  destruct (run_one r c f rest IEnd _ G EF N EX) as [S1 G1].
  { destruct G as (_ & _ & _ & _ & _ & _ & SU). exact SU. }
  exists (upd_cur r (set_values c1 below)), (set_values c1 below). split; [exact S1|]. split; [|nil_case]. split.
  - split; [exact G1|]. split; [reflexivity|]. split; [apply match_upd, match_set_pos; exact M|].
    split; [cbn; lia|rewrite quirks_upd_cur; exact D].
  - split; [exact LB|]. exists []. split; reflexivity.
Qed.

Section VM.

Theorem vm_runs :
  (forall s e v s', xev s e v s' -> forall r c f rest pre post, Mach s r c f rest ->
      f_code f = pre ++ compile_expr e ++ post -> f_pos f = length pre -> Post s' (cv v) (length (compile_expr e)) r c f rest) /\
  (forall s l vs s', xevs s l vs s' -> forall r c f rest pre post, Mach s r c f rest ->
      f_code f = pre ++ flat_map compile_expr l ++ post -> f_pos f = length pre ->
      (exists r' c' f' rest', Steps r r' /\ Mach s' r' c' f' rest' /\ c_values c' = rev (map cv vs) ++ c_values c /\
         moved f f' /\ f_pos f' = f_pos f + length (flat_map compile_expr l) /\ Forall2 kept rest rest') /\ length l = length vs) /\
  (forall s reg st reg1 s1, xstmt s reg st reg1 s1 -> BlockRuns s reg (compile_stmt st) reg1 s1) /\
  (forall s reg b reg' s', xblock s reg b reg' s' -> BlockRuns s reg (compile_block b) reg' s').
Proof.
  apply x_ind.
  - (* pure *) intros s e v HE r c f rest pre post (G & EF & M & B & D) EC EP.
    destruct (proj1 (pure_sim _ _) e v HE r c f rest pre post G EF EC EP B (env_ok_of s r f rest M)) as [S1 NV].
    eexists _, _, _, rest. split; [exact S1|]. split.
    + split; [apply good_adv; exact G|]. split; [reflexivity|]. split; [apply match_upd, match_set_pos; exact M|].
      split; [cbn; lia|rewrite quirks_upd_cur; exact D].
    + split; [reflexivity|]. split; [apply moved_set_pos|]. split; [reflexivity|apply kept_all_refl].
  - (* local variable *) intros s n v IL HH HL NN r c f rest pre post MA EC EP. cbn [compile_expr app length] in *.
    eapply push_post; eauto. intros c1 F1. cbn [exec_instr]. rewrite IL. unfold get_variable. rewrite F1.
    rewrite lookup_frames_set_pos. destruct MA as (_ & _ & [F _] & _). rewrite (lookup_match _ HH _ _ F). unfold loc_of in HL. rewrite HL. reflexivity.
  - (* global variable *) intros s n v IL HL NN r c f rest pre post MA EC EP. cbn [compile_expr app length] in *.
    eapply push_post; eauto. intros c1 F1. cbn [exec_instr]. rewrite IL, F1. unfold ns_get. cbn [f_ns set_pos].
    destruct MA as (_ & _ & MM & _). destruct (env_ok_of s r f rest MM) as [_ EG]. rewrite (EG _ _ HL). reflexivity.
  - (* code *) intros s b r c f rest pre post MA EC EP. rewrite compile_code in *. cbn [app length] in *.
    eapply push_post; eauto; intros c1 F1; reflexivity.
  - (* array *) intros s l vs s' HL IH r c f rest pre post MA EC EP.
    rewrite compile_array in *. rewrite app_length. cbn [length]. rewrite <- app_assoc in EC.
    destruct (IH r c f rest pre ([IMakeArray (length l)] ++ post) MA EC EP) as [(r1 & c1 & f1 & rest1 & S1 & M1 & EV1 & MV1 & P1 & K1) LEN].
    destruct (after_operands_code f f1 pre _ _ MV1 EC EP P1) as [EC1 EP1].
    destruct M1 as (G1 & EF1 & MM1 & B1 & D1). destruct MA as (_ & _ & _ & B & _).
    assert (N : nth_error (f_code f1) (f_pos f1) = Some (IMakeArray (length l))) by (rewrite EC1, EP1; apply nth_error_mid).
    set (c2 := set_values (set_frames c1 (set_pos f1 (S (f_pos f1)) :: rest1)) (cv (RArr vs) :: c_values c)).
    destruct (run_one r1 c1 f1 rest1 (IMakeArray (length l)) c2 G1 EF1 N) as [S2 G2].
    + cbn [exec_instr]. rewrite LEN, <- (map_length cv vs), <- (rev_length (map cv vs)).
      match goal with |- context [pop_args _ ?x []] =>
        replace x with (set_values (set_frames c1 (set_pos f1 (S (f_pos f1)) :: rest1)) (rev (map cv vs) ++ c_values c))
          by (destruct c1; cbn in *; rewrite EV1; reflexivity) end.
      erewrite pop_args_stack; [|reflexivity|cbn; rewrite (moved_base _ _ MV1); exact B]. rewrite rev_involutive, app_nil_r. reflexivity.
    + destruct G1 as (_ & _ & _ & _ & _ & _ & SU); exact SU.
    + eexists _, _, _, rest1. split; [eapply steps_trans; [exact S1|exact S2]|]. split.
      * split; [exact G2|]. split; [reflexivity|]. split; [apply match_upd, match_set_pos; exact MM1|].
        split; [cbn; rewrite (moved_base _ _ MV1); lia|rewrite quirks_upd_cur; exact D1].
      * split; [reflexivity|]. split; [eapply moved_trans; [exact MV1|apply moved_set_pos]|]. split; [cbn; rewrite P1; lia|exact K1].
  - (* pure unary on any operand *) intros s n a va v s1 NL HA IHa HU r c f rest pre post MA EC EP.
    rewrite (compile_unary_nonlit n a NL) in *. rewrite app_length. cbn [length]. rewrite <- app_assoc in EC.
    post_intro (IHa r c f rest pre ([IUnary (lower n)] ++ post) MA EC EP) r1 c1 f1 rest1 S1 M1 EV1 MV1 P1 K1.
    destruct (after_operands_code f f1 pre _ _ MV1 EC EP P1) as [EC1 EP1].
    destruct M1 as (G1 & EF1 & MM1 & B1 & D1). destruct MA as (_ & _ & _ & B & _).
    set (c0 := set_values (set_frames c1 (set_pos f1 (S (f_pos f1)) :: rest1)) (c_values c)).
    destruct (pure_unary_vm (lower n) va v r1 c0 HU) as [OP NV].
    destruct (unary_run r1 c1 f1 rest1 _ _ (lower n) (cv va) (c_values c) c0 (cv v) G1 EF1 EC1 EP1 EV1) as [S2 G2].
    { rewrite (moved_base _ _ MV1); exact B. } { exact NV. } { rewrite lower_idem. exact OP. }
    { destruct G1 as (_ & _ & _ & _ & _ & _ & SU); exact SU. }
    eexists _, _, _, rest1. split; [eapply steps_trans; [exact S1|exact S2]|]. split.
    + split; [exact G2|]. split; [reflexivity|]. split; [apply match_upd, match_set_pos; exact MM1|].
      split; [cbn; rewrite (moved_base _ _ MV1); lia|rewrite quirks_upd_cur; exact D1].
    + split; [reflexivity|]. split; [eapply moved_trans; [exact MV1|apply moved_set_pos]|]. split; [cbn; rewrite P1; lia|exact K1].
  - (* pure binary on any operands *) intros s n a b va vb v s1 s2 HA IHa HB IHb HBin r c f rest pre post MA EC EP.
    rewrite compile_binary in *. rewrite !app_length. cbn [length]. rewrite <- !app_assoc in EC.
    post_intro (IHa r c f rest pre (compile_expr b ++ [IBinary (lower n)] ++ post) MA EC EP) r1 c1 f1 rest1 S1 M1 EV1 MV1 P1 K1.
    destruct (after_operands_code f f1 pre _ _ MV1 EC EP P1) as [EC1 EP1].
    post_intro (IHb r1 c1 f1 rest1 (pre ++ compile_expr a) ([IBinary (lower n)] ++ post) M1 EC1 EP1) r2 c2 f2 rest2 S2 M2 EV2 MV2 P2 K2.
    destruct (after_operands_code f1 f2 _ _ _ MV2 EC1 EP1 P2) as [EC2 EP2].
    destruct M2 as (G2 & EF2 & MM2 & B2 & D2). destruct MA as (_ & _ & _ & B & _).
    set (c0 := set_values (set_frames c2 (set_pos f2 (S (f_pos f2)) :: rest2)) (c_values c)).
    destruct (pure_binary_vm (lower n) va vb v r2 c0 HBin) as (OP & NA & NB).
    rewrite EV1 in EV2.
    destruct (binary_run r2 c2 f2 rest2 _ _ (lower n) (cv va) (cv vb) (c_values c) c0 (cv v) G2 EF2 EC2 EP2 EV2) as [S3 G3].
    { rewrite (moved_base _ _ MV2), (moved_base _ _ MV1); exact B. } { exact NB. } { exact NA. } { rewrite lower_idem. exact OP. }
    { destruct G2 as (_ & _ & _ & _ & _ & _ & SU); exact SU. }
    eexists _, _, _, rest2. split; [eapply steps_trans; [exact S1|eapply steps_trans; [exact S2|exact S3]]|]. split.
    + split; [exact G3|]. split; [reflexivity|]. split; [apply match_upd, match_set_pos; exact MM2|].
      split; [cbn; rewrite (moved_base _ _ MV2), (moved_base _ _ MV1); lia|rewrite quirks_upd_cur; exact D2].
    + split; [reflexivity|]. split; [eapply moved_trans; [exact MV1|eapply moved_trans; [exact MV2|apply moved_set_pos]]|].
      split; [cbn; rewrite P2, P1; lia|eapply kept_all_trans; eassumption].
  - (* call {..} *) intros s n a b s1 reg s2 HN NL HA IHa HB IHb r c f rest pre post MA EC EP.
    rewrite (compile_unary_nonlit n a NL) in *. rewrite app_length. cbn [length]. rewrite <- app_assoc in EC.
    post_intro (IHa r c f rest pre ([IUnary (lower n)] ++ post) MA EC EP) r1 c1 f1 rest1 S1 M1 EV1 MV1 P1 K1.
    destruct (after_operands_code f f1 pre _ _ MV1 EC EP P1) as [EC1 EP1].
    destruct M1 as (G1 & EF1 & MM1 & B1 & D1). destruct MA as (_ & _ & _ & B & _).
    set (c0 := set_values (set_frames c1 (set_pos f1 (S (f_pos f1)) :: rest1)) (c_values c)).
    assert (TH : match get_variable c0 "_this" with Some t => t | None => VNil end = cv (this_of s1)).
    { unfold get_variable. cbn [c_frames c0 set_values set_frames]. rewrite lookup_frames_set_pos.
      destruct MM1 as [F1 _]. rewrite (lookup_match (lower "_this") eq_refl _ _ F1). unfold this_of.
      change (lower "_this") with "_this". destruct (lookup_scopes "_this" (st_scopes s1)); reflexivity. }
    destruct (unary_run r1 c1 f1 rest1 _ _ (lower n) (cv (RCode b)) (c_values c)
                (push_frame c0 (mk_frame (cur_ns c0) (compile_block b) None None (mvars [("_this", this_of s1)]))) VNil G1 EF1 EC1 EP1 EV1) as [S2 G2].
    { rewrite (moved_base _ _ MV1); exact B. } { discriminate. }
    { rewrite lower_idem, HN. fold c0. cbn [cv]. unfold op_unary. cbn [String.eqb Ascii.eqb Bool.eqb]. rewrite TH. reflexivity. }
    { destruct G1 as (_ & _ & _ & _ & _ & _ & SU); exact SU. }
    destruct (scope_run s1 [("_this", this_of s1)] b reg s2 _ c0 (set_pos f1 (S (f_pos f1))) rest1 IHb G2) as (r3 & c3 & fc3 & rest3 & S3 & M3 & EV3 & K3 & KR3).
    { rewrite quirks_upd_cur; exact D1. } { reflexivity. } { apply match_upd, match_set_pos; exact MM1. }
    { cbn. rewrite (moved_base _ _ MV1); exact B. }
    eexists _, _, fc3, rest3. split; [eapply steps_trans; [exact S1|eapply steps_trans; [exact S2|exact S3]]|]. split; [exact M3|].
    split; [exact EV3|]. split; [eapply moved_trans; [exact MV1|eapply moved_trans; [apply (moved_set_pos f1 (S (f_pos f1)))|apply kept_moved; exact K3]]|].
    split; [rewrite (kept_pos _ _ K3); cbn; rewrite P1; lia|eapply kept_all_trans; eassumption].
  - (* x call {..} *) intros s n a x va b s1 s2 reg s3 HN HA IHa NNa HX IHx HB IHb r c f rest pre post MA EC EP.
    rewrite compile_binary in *. rewrite !app_length. cbn [length]. rewrite <- !app_assoc in EC.
    post_intro (IHa r c f rest pre (compile_expr x ++ [IBinary (lower n)] ++ post) MA EC EP) r1 c1 f1 rest1 S1 M1 EV1 MV1 P1 K1.
    destruct (after_operands_code f f1 pre _ _ MV1 EC EP P1) as [EC1 EP1].
    post_intro (IHx r1 c1 f1 rest1 (pre ++ compile_expr a) ([IBinary (lower n)] ++ post) M1 EC1 EP1) r2 c2 f2 rest2 S2 M2 EV2 MV2 P2 K2.
    destruct (after_operands_code f1 f2 _ _ _ MV2 EC1 EP1 P2) as [EC2 EP2].
    destruct M2 as (G2 & EF2 & MM2 & B2 & D2). destruct MA as (_ & _ & _ & B & _).
    rewrite EV1 in EV2.
    set (c0 := set_values (set_frames c2 (set_pos f2 (S (f_pos f2)) :: rest2)) (c_values c)).
    destruct (binary_run r2 c2 f2 rest2 _ _ (lower n) (cv va) (cv (RCode b)) (c_values c)
                (push_frame c0 (mk_frame (cur_ns c0) (compile_block b) None None (mvars [("_this", va)]))) VNil G2 EF2 EC2 EP2 EV2) as [S3 G3].
    { rewrite (moved_base _ _ MV2), (moved_base _ _ MV1); exact B. } { discriminate. } { apply nonnil_cv; exact NNa. }
    { rewrite lower_idem, HN. reflexivity. }
    { destruct G2 as (_ & _ & _ & _ & _ & _ & SU); exact SU. }
    destruct (scope_run s2 [("_this", va)] b reg s3 _ c0 (set_pos f2 (S (f_pos f2))) rest2 IHb G3) as (r4 & c4 & fc4 & rest4 & S4 & M4 & EV4 & K4 & KR4).
    { rewrite quirks_upd_cur; exact D2. } { reflexivity. } { apply match_upd, match_set_pos; exact MM2. }
    { cbn. rewrite (moved_base _ _ MV2), (moved_base _ _ MV1); exact B. }
    eexists _, _, fc4, rest4. split; [eapply steps_trans; [exact S1|eapply steps_trans; [exact S2|eapply steps_trans; [exact S3|exact S4]]]|].
    split; [exact M4|]. split; [exact EV4|].
    split; [eapply moved_trans; [exact MV1|eapply moved_trans; [exact MV2|eapply moved_trans; [apply (moved_set_pos f2 (S (f_pos f2)))|apply kept_moved; exact K4]]]|].
    split; [rewrite (kept_pos _ _ K4); cbn; rewrite P2, P1; lia|eapply kept_all_trans; [exact K1|eapply kept_all_trans; eassumption]].
  - (* if c *) intros s n a cnd s1 HN NL HA IHa r c f rest pre post MA EC EP.
    rewrite (compile_unary_nonlit n a NL) in *. rewrite app_length. cbn [length]. rewrite <- app_assoc in EC.
    post_intro (IHa r c f rest pre ([IUnary (lower n)] ++ post) MA EC EP) r1 c1 f1 rest1 S1 M1 EV1 MV1 P1 K1.
    destruct (after_operands_code f f1 pre _ _ MV1 EC EP P1) as [EC1 EP1].
    destruct M1 as (G1 & EF1 & MM1 & B1 & D1). destruct MA as (_ & _ & _ & B & _).
    set (c0 := set_values (set_frames c1 (set_pos f1 (S (f_pos f1)) :: rest1)) (c_values c)).
    destruct (unary_run r1 c1 f1 rest1 _ _ (lower n) (cv (RBool cnd)) (c_values c) c0 (cv (RIf cnd)) G1 EF1 EC1 EP1 EV1) as [S2 G2].
    { rewrite (moved_base _ _ MV1); exact B. } { discriminate. } { rewrite lower_idem, HN. reflexivity. }
    { destruct G1 as (_ & _ & _ & _ & _ & _ & SU); exact SU. }
    eexists _, _, _, rest1. split; [eapply steps_trans; [exact S1|exact S2]|]. split.
    + split; [exact G2|]. split; [reflexivity|]. split; [apply match_upd, match_set_pos; exact MM1|].
      split; [cbn; rewrite (moved_base _ _ MV1); lia|rewrite quirks_upd_cur; exact D1].
    + split; [reflexivity|]. split; [eapply moved_trans; [exact MV1|apply moved_set_pos]|]. split; [cbn; rewrite P1; lia|exact K1].
  - (* {..} else {..} *) intros s n a b x y s1 s2 HN HA IHa HB IHb r c f rest pre post MA EC EP.
    rewrite compile_binary in *. rewrite !app_length. cbn [length]. rewrite <- !app_assoc in EC.
    post_intro (IHa r c f rest pre (compile_expr b ++ [IBinary (lower n)] ++ post) MA EC EP) r1 c1 f1 rest1 S1 M1 EV1 MV1 P1 K1.
    destruct (after_operands_code f f1 pre _ _ MV1 EC EP P1) as [EC1 EP1].
    post_intro (IHb r1 c1 f1 rest1 (pre ++ compile_expr a) ([IBinary (lower n)] ++ post) M1 EC1 EP1) r2 c2 f2 rest2 S2 M2 EV2 MV2 P2 K2.
    destruct (after_operands_code f1 f2 _ _ _ MV2 EC1 EP1 P2) as [EC2 EP2].
    destruct M2 as (G2 & EF2 & MM2 & B2 & D2). destruct MA as (_ & _ & _ & B & _).
    rewrite EV1 in EV2.
    set (c0 := set_values (set_frames c2 (set_pos f2 (S (f_pos f2)) :: rest2)) (c_values c)).
    destruct (binary_run r2 c2 f2 rest2 _ _ (lower n) (cv (RCode x)) (cv (RCode y)) (c_values c) c0 (cv (RArr [RCode x; RCode y])) G2 EF2 EC2 EP2 EV2) as [S3 G3].
    { rewrite (moved_base _ _ MV2), (moved_base _ _ MV1); exact B. } { discriminate. } { discriminate. } { rewrite lower_idem, HN. reflexivity. }
    { destruct G2 as (_ & _ & _ & _ & _ & _ & SU); exact SU. }
    eexists _, _, _, rest2. split; [eapply steps_trans; [exact S1|eapply steps_trans; [exact S2|exact S3]]|]. split.
    + split; [exact G3|]. split; [reflexivity|]. split; [apply match_upd, match_set_pos; exact MM2|].
      split; [cbn; rewrite (moved_base _ _ MV2), (moved_base _ _ MV1); lia|rewrite quirks_upd_cur; exact D2].
    + split; [reflexivity|]. split; [eapply moved_trans; [exact MV1|eapply moved_trans; [exact MV2|apply moved_set_pos]]|].
      split; [cbn; rewrite P2, P1; lia|eapply kept_all_trans; eassumption].
  - (* if false then {..} *) intros s n a b x s1 s2 HN HA IHa HB IHb r c f rest pre post MA EC EP.
    rewrite compile_binary in *. rewrite !app_length. cbn [length]. rewrite <- !app_assoc in EC.
    post_intro (IHa r c f rest pre (compile_expr b ++ [IBinary (lower n)] ++ post) MA EC EP) r1 c1 f1 rest1 S1 M1 EV1 MV1 P1 K1.
    destruct (after_operands_code f f1 pre _ _ MV1 EC EP P1) as [EC1 EP1].
    post_intro (IHb r1 c1 f1 rest1 (pre ++ compile_expr a) ([IBinary (lower n)] ++ post) M1 EC1 EP1) r2 c2 f2 rest2 S2 M2 EV2 MV2 P2 K2.
    destruct (after_operands_code f1 f2 _ _ _ MV2 EC1 EP1 P2) as [EC2 EP2].
    destruct M2 as (G2 & EF2 & MM2 & B2 & D2). destruct MA as (_ & _ & _ & B & _).
    rewrite EV1 in EV2.
    set (c0 := set_values (set_frames c2 (set_pos f2 (S (f_pos f2)) :: rest2)) (c_values c)).
    destruct (binary_run r2 c2 f2 rest2 _ _ (lower n) (cv (RIf false)) (cv (RCode x)) (c_values c) c0 VNil G2 EF2 EC2 EP2 EV2) as [S3 G3].
    { rewrite (moved_base _ _ MV2), (moved_base _ _ MV1); exact B. } { discriminate. } { discriminate. } { rewrite lower_idem, HN. reflexivity. }
    { destruct G2 as (_ & _ & _ & _ & _ & _ & SU); exact SU. }
    eexists _, _, _, rest2. split; [eapply steps_trans; [exact S1|eapply steps_trans; [exact S2|exact S3]]|]. split.
    + split; [exact G3|]. split; [reflexivity|]. split; [apply match_upd, match_set_pos; exact MM2|].
      split; [cbn; rewrite (moved_base _ _ MV2), (moved_base _ _ MV1); lia|rewrite quirks_upd_cur; exact D2].
    + split; [reflexivity|]. split; [eapply moved_trans; [exact MV1|eapply moved_trans; [exact MV2|apply moved_set_pos]]|].
      split; [cbn; rewrite P2, P1; lia|eapply kept_all_trans; eassumption].
  - (* if true then {..} *) intros s n a b x s1 s2 reg s3 HN HA IHa HB IHb HX IHx r c f rest pre post MA EC EP.
    rewrite compile_binary in *. rewrite !app_length. cbn [length]. rewrite <- !app_assoc in EC.
    post_intro (IHa r c f rest pre (compile_expr b ++ [IBinary (lower n)] ++ post) MA EC EP) r1 c1 f1 rest1 S1 M1 EV1 MV1 P1 K1.
    destruct (after_operands_code f f1 pre _ _ MV1 EC EP P1) as [EC1 EP1].
    post_intro (IHb r1 c1 f1 rest1 (pre ++ compile_expr a) ([IBinary (lower n)] ++ post) M1 EC1 EP1) r2 c2 f2 rest2 S2 M2 EV2 MV2 P2 K2.
    destruct (after_operands_code f1 f2 _ _ _ MV2 EC1 EP1 P2) as [EC2 EP2].
    destruct M2 as (G2 & EF2 & MM2 & B2 & D2). destruct MA as (_ & _ & _ & B & _).
    rewrite EV1 in EV2.
    set (c0 := set_values (set_frames c2 (set_pos f2 (S (f_pos f2)) :: rest2)) (c_values c)).
    destruct (binary_run r2 c2 f2 rest2 _ _ (lower n) (cv (RIf true)) (cv (RCode x)) (c_values c)
                (push_frame c0 (mk_frame (cur_ns c0) (compile_block x) None None (mvars []))) VNil G2 EF2 EC2 EP2 EV2) as [S3 G3].
    { rewrite (moved_base _ _ MV2), (moved_base _ _ MV1); exact B. } { discriminate. } { discriminate. } { rewrite lower_idem, HN. reflexivity. }
    { destruct G2 as (_ & _ & _ & _ & _ & _ & SU); exact SU. }
    destruct (scope_run s2 [] x reg s3 _ c0 (set_pos f2 (S (f_pos f2))) rest2 IHx G3) as (r4 & c4 & fc4 & rest4 & S4 & M4 & EV4 & K4 & KR4).
    { rewrite quirks_upd_cur; exact D2. } { reflexivity. } { apply match_upd, match_set_pos; exact MM2. }
    { cbn. rewrite (moved_base _ _ MV2), (moved_base _ _ MV1); exact B. }
    eexists _, _, fc4, rest4. split; [eapply steps_trans; [exact S1|eapply steps_trans; [exact S2|eapply steps_trans; [exact S3|exact S4]]]|].
    split; [exact M4|]. split; [exact EV4|].
    split; [eapply moved_trans; [exact MV1|eapply moved_trans; [exact MV2|eapply moved_trans; [apply (moved_set_pos f2 (S (f_pos f2)))|apply kept_moved; exact K4]]]|].
    split; [rewrite (kept_pos _ _ K4); cbn; rewrite P2, P1; lia|eapply kept_all_trans; [exact K1|eapply kept_all_trans; eassumption]].
  - (* if c then {..} else {..} *) intros s n a b cnd x y s1 s2 reg s3 HN HA IHa HB IHb HX IHx r c f rest pre post MA EC EP.
    rewrite compile_binary in *. rewrite !app_length. cbn [length]. rewrite <- !app_assoc in EC.
    post_intro (IHa r c f rest pre (compile_expr b ++ [IBinary (lower n)] ++ post) MA EC EP) r1 c1 f1 rest1 S1 M1 EV1 MV1 P1 K1.
    destruct (after_operands_code f f1 pre _ _ MV1 EC EP P1) as [EC1 EP1].
    post_intro (IHb r1 c1 f1 rest1 (pre ++ compile_expr a) ([IBinary (lower n)] ++ post) M1 EC1 EP1) r2 c2 f2 rest2 S2 M2 EV2 MV2 P2 K2.
    destruct (after_operands_code f1 f2 _ _ _ MV2 EC1 EP1 P2) as [EC2 EP2].
    destruct M2 as (G2 & EF2 & MM2 & B2 & D2). destruct MA as (_ & _ & _ & B & _).
    rewrite EV1 in EV2.
    set (c0 := set_values (set_frames c2 (set_pos f2 (S (f_pos f2)) :: rest2)) (c_values c)).
    destruct (binary_run r2 c2 f2 rest2 _ _ (lower n) (cv (RIf cnd)) (cv (RArr [RCode x; RCode y])) (c_values c)
                (push_frame c0 (mk_frame (cur_ns c0) (compile_block (if cnd then x else y)) None None (mvars []))) VNil G2 EF2 EC2 EP2 EV2) as [S3 G3].
    { rewrite (moved_base _ _ MV2), (moved_base _ _ MV1); exact B. } { discriminate. } { discriminate. }
    { rewrite lower_idem, HN. destruct cnd; reflexivity. }
    { destruct G2 as (_ & _ & _ & _ & _ & _ & SU); exact SU. }
    destruct (scope_run s2 [] (if cnd then x else y) reg s3 _ c0 (set_pos f2 (S (f_pos f2))) rest2 IHx G3) as (r4 & c4 & fc4 & rest4 & S4 & M4 & EV4 & K4 & KR4).
    { rewrite quirks_upd_cur; exact D2. } { reflexivity. } { apply match_upd, match_set_pos; exact MM2. }
    { cbn. rewrite (moved_base _ _ MV2), (moved_base _ _ MV1); exact B. }
    eexists _, _, fc4, rest4. split; [eapply steps_trans; [exact S1|eapply steps_trans; [exact S2|eapply steps_trans; [exact S3|exact S4]]]|].
    split; [exact M4|]. split; [exact EV4|].
    split; [eapply moved_trans; [exact MV1|eapply moved_trans; [exact MV2|eapply moved_trans; [apply (moved_set_pos f2 (S (f_pos f2)))|apply kept_moved; exact K4]]]|].
    split; [rewrite (kept_pos _ _ K4); cbn; rewrite P2, P1; lia|eapply kept_all_trans; [exact K1|eapply kept_all_trans; eassumption]].
  - (* no elements *) intros s r c f rest pre post MA EC EP. split; [|reflexivity].
    exists r, c, f, rest. split; [apply StepsRefl|]. split; [exact MA|]. split; [reflexivity|]. split; [apply moved_refl|].
    split; [cbn; lia|apply kept_all_refl].
  - (* element, elements *) intros s e v s1 l vs s2 HE IHe NN HL IHl r c f rest pre post MA EC EP.
    cbn [flat_map map rev] in *. rewrite app_length. rewrite <- app_assoc in EC.
    post_intro (IHe r c f rest pre (flat_map compile_expr l ++ post) MA EC EP) r1 c1 f1 rest1 S1 M1 EV1 MV1 P1 K1.
    destruct (after_operands_code f f1 pre _ _ MV1 EC EP P1) as [EC1 EP1].
    destruct (IHl r1 c1 f1 rest1 (pre ++ compile_expr e) post M1 EC1 EP1) as [(r2 & c2 & f2 & rest2 & S2 & M2 & EV2 & MV2 & P2 & K2) LEN].
    split; [|cbn; lia].
    exists r2, c2, f2, rest2. split; [eapply steps_trans; eassumption|]. split; [exact M2|].
    split; [rewrite EV2, EV1, <- app_assoc; reflexivity|]. split; [eapply moved_trans; eassumption|].
    split; [rewrite P2, P1; lia|eapply kept_all_trans; eassumption].
  - (* statement: expression *) intros s reg e v s1 HE IHe r c f rest below pre post (MA & LB & top & EV & RR) FR EC EP.
    cbn [compile_stmt] in *.
    post_intro (IHe r c f rest pre post MA EC EP) r1 c1 f1 rest1 S1 M1 EV1 MV1 P1 K1.
    exists r1, c1, f1, rest1. split; [exact S1|]. split; [|split; [exact MV1|split; [exact P1|exact K1]]].
    split; [exact M1|]. split; [rewrite (moved_base _ _ MV1); exact LB|]. exists (cv v :: top). split; [rewrite EV1, EV; reflexivity|].
    split; [reflexivity|]. split; [exact (xev_not_none _ _ _ _ HE)|exact (fresh_under c top below EV FR)].
  - (* statement: x = e *) intros s reg n e v s1 NN HH HE IHe NV r c f rest below pre post (MA & LB & top & EV & RR) FR EC EP.
    cbn [compile_stmt] in *. rewrite app_length. cbn [length]. rewrite <- app_assoc in EC.
    post_intro (IHe r c f rest pre ([IAssign n] ++ post) MA EC EP) r1 c1 f1 rest1 S1 M1 EV1 MV1 P1 K1.
    destruct (after_operands_code f f1 pre _ _ MV1 EC EP P1) as [EC1 EP1].
    destruct MA as (_ & _ & _ & B & _).
    destruct (assign_run s1 r1 c1 f1 rest1 _ _ n v (c_values c) M1 EC1 EP1 EV1) as (r2 & c2 & f2 & rest2 & S2 & M2 & EV2 & MV2 & P2 & K2).
    { rewrite (moved_base _ _ MV1); exact B. } { exact NN. } { exact HH. } { exact NV. }
    exists r2, c2, f2, rest2. split; [eapply steps_trans; eassumption|]. split.
    + split; [exact M2|]. split; [rewrite (moved_base _ _ MV2), (moved_base _ _ MV1); exact LB|]. exists top. split; [rewrite EV2; exact EV|exact RR].
    + split; [eapply moved_trans; eassumption|]. split; [rewrite P2, P1; lia|eapply kept_all_trans; eassumption].
  - (* statement: private _x = e *) intros s reg n e v s1 NN HE IHe NV r c f rest below pre post (MA & LB & top & EV & RR) FR EC EP.
    cbn [compile_stmt] in *. rewrite app_length. cbn [length]. rewrite <- app_assoc in EC.
    post_intro (IHe r c f rest pre ([IAssignLocal n] ++ post) MA EC EP) r1 c1 f1 rest1 S1 M1 EV1 MV1 P1 K1.
    destruct (after_operands_code f f1 pre _ _ MV1 EC EP P1) as [EC1 EP1].
    destruct MA as (_ & _ & _ & B & _).
    destruct (local_run s1 r1 c1 f1 rest1 _ _ n v (c_values c) M1 EC1 EP1 EV1) as (r2 & c2 & f2 & rest2 & S2 & M2 & EV2 & MV2 & P2 & K2).
    { rewrite (moved_base _ _ MV1); exact B. } { exact NN. } { exact NV. }
    exists r2, c2, f2, rest2. split; [eapply steps_trans; eassumption|]. split.
    + split; [exact M2|]. split; [rewrite (moved_base _ _ MV2), (moved_base _ _ MV1); exact LB|]. exists top. split; [rewrite EV2; exact EV|exact RR].
    + split; [eapply moved_trans; eassumption|]. split; [rewrite P2, P1; lia|eapply kept_all_trans; eassumption].
  - (* empty block *) intros s reg r c f rest below pre post A FR EC EP.
    exists r, c, f, rest. split; [apply StepsRefl|]. split; [exact A|]. split; [apply moved_refl|]. split; [cbn; lia|apply kept_all_refl].
  - (* last statement *) intros s reg st reg1 s1 HS IHs r c f rest below pre post A FR EC EP.
    unfold compile_block in *. cbn [compile_block_from app] in *. rewrite app_nil_r in *.
    exact (IHs r c f rest below pre post A FR EC EP).
  - (* statement; block *) intros s reg st reg1 s1 st2 rest0 reg' s' HS IHs HB IHb r c f rest below pre post A FR EC EP.
    unfold compile_block in *. rewrite compile_block_from_cons in *. cbn [app] in *.
    rewrite compile_block_from_cons in EC. cbn [app] in EC. rewrite <- app_assoc in EC. cbn [app] in EC.
    destruct (IHs r c f rest below pre _ A FR EC EP) as (r1 & c1 & f1 & rest1 & S1 & A1 & MV1 & P1 & K1).
    assert (EC1 : f_code f1 = (pre ++ compile_stmt st) ++ IEnd :: compile_stmt st2 ++ compile_block_from false rest0 ++ post).
    { rewrite (moved_code _ _ MV1), EC, <- !app_assoc. reflexivity. }
    assert (EP1 : f_pos f1 = length (pre ++ compile_stmt st)) by (rewrite app_length, P1, EP; reflexivity).
    destruct (end_run s1 reg1 r1 c1 f1 rest1 below _ _ A1 EC1 EP1) as (r2 & c2 & S2 & A2 & FR2).
    set (f2 := set_pos f1 (S (f_pos f1))) in *.
    destruct (IHb r2 c2 f2 rest1 below (pre ++ compile_stmt st ++ [IEnd]) post A2 FR2) as (r3 & c3 & f3 & rest3 & S3 & A3 & MV3 & P3 & K3).
    { cbn [f2 set_pos f_code]. rewrite EC1. try rewrite compile_block_from_cons. cbn [app]. rewrite <- !app_assoc. cbn [app]. reflexivity. }
    { cbn [f2 set_pos f_pos]. rewrite EP1, !app_length. cbn. lia. }
    exists r3, c3, f3, rest3. split; [eapply steps_trans; [exact S1|eapply steps_trans; [exact S2|exact S3]]|].
    split; [exact A3|]. split.
    { eapply moved_trans; [exact MV1|]. eapply moved_trans; [apply (moved_set_pos f1 (S (f_pos f1)))|exact MV3]. }
    split; [|eapply kept_all_trans; eassumption].
    rewrite P3. cbn [f2 set_pos f_pos]. rewrite P1. try rewrite compile_block_from_cons. cbn [app].
    rewrite !app_length. cbn [length]. rewrite ?app_length. lia.
Qed.

End VM.

(* ---------------------------------------------------------------- the reference semantics computes the same thing *)
Definition in_scope_f (f:nat) : sstate -> scope -> list stmt -> outcome * sstate :=
  fun (s:sstate) (sc:scope) (b:list stmt) =>
    let '(o, s1) := eval_block f (push_scope s sc) b RNil in
    let s2 := pop_scope s1 in
    match o with
    | ONormal RNone => (ONormal RNil, s2)
    | OExit v => (ONormal v, s2)
    | OBreak name v => match st_scopes s1 with
                       | sc' :: _ => if String.eqb (sc_name sc') name then (ONormal v, s2) else (OBreak name v, s2)
                       | [] => (OBreak name v, s2) end
    | other => (other, s2) end.
Definition plain_scope_f : sstate -> list (string*rvalue) -> scope := fun s vars => mk_scope (cur_ns_of s) vars.

Lemma eval_S_unary f s n a : (forall k, a <> ENum k) ->
  eval (S f) s (EUnary n a) =
  match eval f s a with
  | (ONormal RNil, s1) => (ONormal RNone, s1)
  | (ONormal RNone, s1) => (OError, s1)
  | (ONormal v, s1) => eval_unary f s1 (lower n) v (in_scope_f f) plain_scope_f
  | other => other end.
Proof. intros NL. destruct a; try reflexivity. exfalso. eapply NL; reflexivity. Qed.

Lemma eval_S_binary f s n a b :
  eval (S f) s (EBinary n a b) =
  match eval f s a with
  | (ONormal va, s1) =>
      match eval f s1 b with
      | (ONormal vb, s2) =>
          match va, vb with
          | _, RNone => (OError, s2)
          | RNil, RNil => (ONormal RNil, s2)
          | _, RNil => (OUnsupported "nil right operand (the implementation then leaves the left operand behind)", s2)
          | RNone, _ => (OError, s2)
          | RNil, _ => (ONormal RNone, s2)
          | _, _ => eval_binary f s2 (lower n) va vb (in_scope_f f) plain_scope_f end
      | other => other end
  | other => other end.
Proof. reflexivity. Qed.

Lemma in_scope_normal f s sc b reg s2 : eval_block f (push_scope s sc) b RNil = (ONormal reg, s2) ->
  in_scope_f f s sc b = (ONormal (res_of reg), pop_scope s2).
Proof. intros H. unfold in_scope_f. rewrite H. destruct reg; reflexivity. Qed.

Lemma pure_unary_arg n va v : pure_unary n va = Some v -> nonnil va.
Proof.
  unfold pure_unary, option_map. intros H. crack H; split; discriminate.
Qed.
Lemma pure_binary_args n va vb v : pure_binary n va vb = Some v -> nonnil va /\ nonnil vb.
Proof.
  unfold pure_binary. intros H.
  crack H; repeat split; discriminate.
Qed.

Lemma binary_dispatch {T} va vb (A B C D E : T) F : nonnil va -> nonnil vb ->
  match va, vb with
  | _, RNone => A
  | RNil, RNil => B
  | _, RNil => C
  | RNone, _ => D
  | RNil, _ => E
  | _, _ => F end = F.
Proof. intros [A1 A2] [B1 B2]. destruct va; try contradiction; destruct vb; try contradiction; reflexivity. Qed.

Lemma unary_dispatch {T} va (A B : T) (F : rvalue -> T) : nonnil va ->
  match va with RNil => A | RNone => B | v => F v end = F va.
Proof. intros [A1 A2]. destruct va; try contradiction; reflexivity. Qed.

Definition go_arr (f:nat) := fix go (s:sstate) (l:list expr) (acc:list rvalue) : outcome * sstate :=
  match l with
  | [] => (ONormal (RArr (rev acc)), s)
  | x :: r => match eval f s x with
              | (ONormal RNone, s1) => (OError, s1)
              | (ONormal v, s1) => go s1 r (v :: acc)
              | other => other end end.
Lemma eval_S_arr f s l : eval (S f) s (EArr l) = go_arr f s l [].
Proof. reflexivity. Qed.

Definition cont (f:nat) (rest:list stmt) (s1:sstate) (reg1:rvalue) : outcome * sstate :=
  match rest with [] => (ONormal reg1, s1) | _ => eval_block f s1 rest RNone end.

Theorem ref_runs :
  (forall s e v s', xev s e v s' -> exists f0, forall f, f0 <= f -> eval f s e = (ONormal v, s')) /\
  (forall s l vs s', xevs s l vs s' -> exists f0, forall f, f0 <= f -> forall acc, go_arr f s l acc = (ONormal (RArr (rev acc ++ vs)), s')) /\
  (forall s reg st reg1 s1, xstmt s reg st reg1 s1 -> exists f0, forall f, f0 <= f -> forall rest,
      eval_block (S f) s (st :: rest) reg = cont f rest s1 reg1) /\
  (forall s reg b reg' s', xblock s reg b reg' s' -> exists f0, forall f, f0 <= f -> eval_block f s b reg = (ONormal reg', s')).
Proof.
  apply x_ind.
  - (* pure *) intros s e v HE. exists (esize e). intros f L. exact (proj2 (proj1 (pure_ref _ _) e v HE) s f (renv_ok_of s) L).
  - (* local *) intros s n v IL HH HL NN. exists 1. intros [|f] L; [lia|]. cbn [eval]. rewrite IL. unfold loc_of in HL. rewrite HL. reflexivity.
  - (* global *) intros s n v IL HL NN. exists 1. intros [|f] L; [lia|]. cbn [eval]. rewrite IL. unfold rns_get. unfold glob_of in HL. rewrite HL. reflexivity.
  - (* code *) intros s b. exists 1. intros [|f] L; [lia|]. reflexivity.
  - (* array *) intros s l vs s' HL [f0 IH]. exists (S f0). intros [|f] L; [lia|]. rewrite eval_S_arr. rewrite (IH f) by lia. reflexivity.
  - (* pure unary *) intros s n a va v s1 NL HA [f0 IH] HU. exists (S (S f0)). intros [|[|f]] L; try lia.
    rewrite (eval_S_unary _ _ _ _ NL), (IH (S f)) by lia.
    transitivity (eval_unary (S f) s1 (lower n) va (in_scope_f (S f)) plain_scope_f).
    + destruct (pure_unary_arg _ _ _ HU) as [A1 A2]. destruct va; try contradiction; reflexivity.
    + apply pure_unary_ref. exact HU.
  - (* pure binary *) intros s n a b va vb v s1 s2 HA [fa IHa] HB [fb IHb] HBin. exists (S (S (fa + fb))). intros [|[|f]] L; try lia.
    rewrite eval_S_binary, (IHa (S f)), (IHb (S f)) by lia.
    destruct (pure_binary_args _ _ _ _ HBin) as [[A1 A2] [B1 B2]].
    transitivity (eval_binary (S f) s2 (lower n) va vb (in_scope_f (S f)) plain_scope_f);
      [destruct va; try contradiction; destruct vb; try contradiction; reflexivity|].
    apply pure_binary_ref. exact HBin.
  - (* call {..} *) intros s n a b s1 reg s2 HN NL HA [fa IHa] HB [fb IHb]. exists (S (S (fa + fb))). intros [|[|f]] L; try lia.
    rewrite (eval_S_unary _ _ _ _ NL), (IHa (S f)) by lia. rewrite HN.
    change (eval_unary (S f) s1 "call" (RCode b) (in_scope_f (S f)) plain_scope_f)
      with (in_scope_f (S f) s1 (plain_scope_f s1 [("_this", this_of s1)]) b).
    apply in_scope_normal. apply IHb. lia.
  - (* x call {..} *) intros s n a x va b s1 s2 reg s3 HN HA [fa IHa] NNa HX [fx IHx] HB [fb IHb]. exists (S (S (fa + fx + fb))). intros [|[|f]] L; try lia.
    rewrite eval_S_binary, (IHa (S f)), (IHx (S f)) by lia.
    rewrite HN.
    transitivity (eval_binary (S f) s2 "call" va (RCode b) (in_scope_f (S f)) plain_scope_f);
      [destruct NNa as [A1 A2]; destruct va; try contradiction; reflexivity|].
    change (eval_binary (S f) s2 "call" va (RCode b) (in_scope_f (S f)) plain_scope_f)
      with (in_scope_f (S f) s2 (plain_scope_f s2 [("_this", va)]) b).
    apply in_scope_normal. apply IHb. lia.
  - (* if *) intros s n a c s1 HN NL HA [fa IHa]. exists (S (S fa)). intros [|[|f]] L; try lia.
    rewrite (eval_S_unary _ _ _ _ NL), (IHa (S f)) by lia. rewrite HN. reflexivity.
  - (* else *) intros s n a b x y s1 s2 HN HA [fa IHa] HB [fb IHb]. exists (S (S (fa + fb))). intros [|[|f]] L; try lia.
    rewrite eval_S_binary, (IHa (S f)), (IHb (S f)) by lia. rewrite HN. reflexivity.
  - (* if false then *) intros s n a b x s1 s2 HN HA [fa IHa] HB [fb IHb]. exists (S (S (fa + fb))). intros [|[|f]] L; try lia.
    rewrite eval_S_binary, (IHa (S f)), (IHb (S f)) by lia. rewrite HN. reflexivity.
  - (* if true then *) intros s n a b x s1 s2 reg s3 HN HA [fa IHa] HB [fb IHb] HX [fx IHx]. exists (S (S (fa + fb + fx))). intros [|[|f]] L; try lia.
    rewrite eval_S_binary, (IHa (S f)), (IHb (S f)) by lia. rewrite HN.
    change (match RIf true, RCode x with
            | _, RNone => (OError, s2) | RNil, RNil => (ONormal RNil, s2)
            | _, RNil => (OUnsupported "nil right operand (the implementation then leaves the left operand behind)", s2)
            | RNone, _ => (OError, s2) | RNil, _ => (ONormal RNone, s2)
            | _, _ => eval_binary (S f) s2 "then" (RIf true) (RCode x) (in_scope_f (S f)) plain_scope_f end)
      with (in_scope_f (S f) s2 (plain_scope_f s2 []) x).
    apply in_scope_normal. apply IHx. lia.
  - (* if then else *) intros s n a b c x y s1 s2 reg s3 HN HA [fa IHa] HB [fb IHb] HX [fx IHx]. exists (S (S (fa + fb + fx))). intros [|[|f]] L; try lia.
    rewrite eval_S_binary, (IHa (S f)), (IHb (S f)) by lia. rewrite HN.
    change (match RIf c, RArr [RCode x; RCode y] with
            | _, RNone => (OError, s2) | RNil, RNil => (ONormal RNil, s2)
            | _, RNil => (OUnsupported "nil right operand (the implementation then leaves the left operand behind)", s2)
            | RNone, _ => (OError, s2) | RNil, _ => (ONormal RNone, s2)
            | _, _ => eval_binary (S f) s2 "then" (RIf c) (RArr [RCode x; RCode y]) (in_scope_f (S f)) plain_scope_f end)
      with (in_scope_f (S f) s2 (plain_scope_f s2 []) (if c then x else y)).
    apply in_scope_normal. apply IHx. lia.
  - (* no elements *) intros s. exists 0. intros f _ acc. cbn. rewrite app_nil_r. reflexivity.
  - (* elements *) intros s e v s1 l vs s2 HE [fe IHe] NN HL [fl IHl]. exists (fe + fl). intros f L acc.
    cbn [go_arr]. rewrite (IHe f) by lia. fold (go_arr f).
    transitivity (go_arr f s1 l (v :: acc)).
    + destruct NN as [A1 A2]. destruct v; try contradiction; reflexivity.
    + rewrite (IHl f) by lia. cbn [rev]. rewrite <- app_assoc. reflexivity.
  - (* expression statement *) intros s reg e v s1 HE [fe IHe]. exists fe. intros f L rest. cbn [eval_block]. rewrite (IHe f L).
    pose proof (xev_not_none _ _ _ _ HE) as NN. unfold cont. destruct v; try contradiction; reflexivity.
  - (* assignment *) intros s reg n e v s1 NN HH HE [fe IHe] NV. exists fe. intros f L rest. cbn [eval_block]. rewrite (IHe f L).
    destruct NV as [A1 A2]. unfold cont. destruct v; try contradiction; reflexivity.
  - (* private *) intros s reg n e v s1 NN HE [fe IHe] NV. exists fe. intros f L rest. cbn [eval_block]. rewrite (IHe f L).
    destruct NV as [A1 A2]. unfold cont. destruct v; try contradiction; reflexivity.
  - (* empty block *) intros s reg. exists 1. intros [|f] L; [lia|]. reflexivity.
  - (* last statement *) intros s reg st reg1 s1 HS [fs IHs]. exists (S fs). intros [|f] L; [lia|]. rewrite (IHs f) by lia. reflexivity.
  - (* statement; block *) intros s reg st reg1 s1 st2 rest reg' s' HS [fs IHs] HB [fb IHb]. exists (S (fs + fb)). intros [|f] L; [lia|].
    rewrite (IHs f) by lia. unfold cont. apply IHb. lia.
Qed.
