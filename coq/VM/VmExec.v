(* M2 continued: runtime::execute(action) (runtime.cpp:262-598), a source AST with its compiler
   (mirror of sqf_parser.cpp to_assembly) and printer, and the observations used by the
   correspondence. No proofs here. *)
From Coq Require Import String Ascii.
From Coq Require Import ZArith List Bool.
From SqfVerif Require Import Gen.DiagCodes VM.VmDefs.
Import ListNotations.
Local Open Scope string_scope.
Local Open Scope list_scope.

(* ------------------------------------------------------------------ execute(action) *)
Inductive action := AStart | AStop | AAbort | AAssemblyStep | ALineStep | ALeaveScope.

(* runtime.h:278 context_active(): lazily picks / creates the active context *)
Definition resolve_active (r:rt) : rt :=
  match r_active r with
  | Some _ => r
  | None => match r_ctxs r with
            | [] => let id := r_next_id r in
                    set_active (set_next_id (set_ctxs r [new_context id false]) (S id)) (Some 0)
            | _ => set_active r (Some 0) end end.

Definition state_of_result (x:rresult) (r:rt) : rt :=
  match x with
  | REmpty => set_state r StEmpty
  | ROk => set_state r StHalted
  | RInvalid | RActionError | RRuntimeError => set_state r StHaltedError end.

Definition finish_action (x:rresult) (r:rt) : rt :=
  let r1 := state_of_result x r in
  let r2 := if r_exit_req r1 then set_state (set_active (set_ctxs r1 []) None) StEmpty else r1 in
  set_run r2 false.

Definition exec_fuel : nat := 1000 * 1000.

Fixpoint remove_nth {A} (l:list A) (i:nat) : list A :=
  match l, i with [], _ => [] | _ :: r, O => r | a :: r, S i' => a :: remove_nth r i' end.

Inductive passres := PassDone (x:rresult) (r:rt) | PassExit (x:rresult) (r:rt).

(* the for-loop over m_contexts of action::start (runtime.cpp:318-383); i may be "-1" after an
   erase at index 0, so the index is carried as the NEXT index to visit *)
Fixpoint start_pass (fuel:nat) (r:rt) (i:nat) (x:rresult) : res passres :=
  match fuel with O => Hang "start pass fuel" | S fuel' =>
    if Nat.leb (length (r_ctxs r)) i then Ok (PassDone x r)
    else
      let r00 := set_active r (Some i) in
      match cur r00 with
      | None => UB "context index"
      | Some c00 =>
        (* a terminated script is not scheduled again: its remaining work is dropped *)
        let c := if c_terminate c00 then set_suspended (set_values (set_frames c00 []) []) false (c_wakeup c00) else c00 in
        let r0 := upd_cur r00 c in
        let run := fun (r1:rt) => execute_do exec_fuel r1 (r_slice r1) in
        let step :=
          if c_suspended c then
            let (t, r1) := now r0 in
            if Z.leb (c_wakeup c) t then run (upd_cur r1 (set_suspended c false (c_wakeup c)))
            else
              (* nothing executes while the script sleeps, the time limit applies nevertheless *)
              let '(expired, r2) :=
                if Z.eqb (r_max_runtime r1) 0 then (false, r1)
                else let (t', r') := now r1 in (Z.ltb (r_max_runtime r1 + r_run_ts r1) t', r') in
              if expired then
                Ok (RRuntimeError, set_msgs (set_errflag (set_exit_req (logmsg r2 d_MaximumRuntimeReached) true) false) [])
              else Ok (ROk, r2)
          else run r0 in
        bindr step (fun '(x1, r2) =>
          if r_exit_req r2 then Ok (PassExit x1 (set_state (set_ctxs r2 []) StEmpty))
          else match x1 with
          | REmpty =>
              (* runtime.cpp:356-369: print the remaining value, erase the context, i-- *)
              let r3 := match cur r2 with
                        | Some c2 => match c_values c2 with
                                     | v :: _ => match show true v with
                                                 | Some s => mark (logmsg r2 d_ContextValuePrint) (append "VALUE " s)
                                                 | None => mark (logmsg r2 d_ContextValuePrint) "VALUE ?" end
                                     | [] => r2 end
                        | None => r2 end in
              let r4 := set_ctxs r3 (remove_nth (r_ctxs r3) i) in
              match r_ctxs r4 with
              | [] => Ok (PassExit x1 (set_active r4 None))
              | _ => start_pass fuel' r4 i x1 end
          | RInvalid | RActionError | RRuntimeError => Ok (PassExit x1 r2)
          | ROk => start_pass fuel' r2 (S i) x1 end)
      end end.

Fixpoint start_loop (fuel:nat) (r:rt) (x:rresult) : res (rresult * rt) :=
  match fuel with O => Hang "start loop fuel" | S fuel' =>
    match r_ctxs r with
    | [] => Ok (x, r)
    | _ => bindr (start_pass exec_fuel r 0 x) (fun p =>
             match p with
             | PassExit x1 r1 => Ok (x1, r1)
             | PassDone x1 r1 => start_loop fuel' r1 x1 end) end end.

(* runtime.h begin_run_if_empty: a run starts with the first executing action on an empty runtime *)
Definition begin_run_if_empty (r:rt) : rt :=
  match r_state r with
  | StEmpty => let (t, r1) := now r in set_msgs (set_errflag (set_run_ts r1 t) false) []
  | _ => r end.

Definition execute (a:action) (r:rt) : res (rresult * rt) :=
  match a with
  | AStart =>
      if r_run r then Ok (RActionError, r)
      else
        let r0 := set_state (set_halt_req (set_exit_req (begin_run_if_empty (set_run r true)) false) false) StRunning in
        bindr (start_loop exec_fuel r0 RInvalid) (fun '(x, r1) => Ok (x, finish_action x r1))
  | AAssemblyStep =>
      if r_run r then Ok (RActionError, r)
      else
        let r0 := set_state (set_halt_req (set_exit_req (begin_run_if_empty (set_run r true)) false) false) StRunning in
        bindr (execute_do exec_fuel (resolve_active r0) 1) (fun '(x, r1) => Ok (x, finish_action x r1))
  | AStop =>
      match r_state r with
      | StRunning => if r_run r then Ok (ROk, set_exit_req r true) else Ok (RActionError, r)
      | _ => Ok (RActionError, r) end
  | AAbort =>
      match r_state r with
      | StRunning => if r_run r then Ok (ROk, set_exit_req r true) else Ok (RActionError, r)
      | StHalted | StHaltedError =>
          if r_run r then Ok (RActionError, r)
          else Ok (ROk, set_run (set_state (set_active (set_ctxs r []) None) StEmpty) false)
      | StEmpty => Ok (RActionError, r) end
  | ALineStep | ALeaveScope => Unsupported "line_step / leave_scope need diag positions" end.

(* ------------------------------------------------------------------ source AST, compiler, printer *)
Inductive expr :=
| ENum (n:Z) | EBool (b:bool) | EStr (s:string) | EVar (n:string)
| EArr (l:list expr) | ECode (b:list stmt)
| ENular (n:string) | EUnary (n:string) (e:expr) | EBinary (n:string) (l r:expr)
with stmt := SExpr (e:expr) | SAssign (n:string) (e:expr) | SLocal (n:string) (e:expr).

(* sqf_parser.cpp:42 to_assembly: post-order; operator names lower-cased; a sign on a number literal
   is folded into the PUSH; statements are separated (not terminated) by ENDSTATEMENT *)
Fixpoint compile_expr (e:expr) : code :=
  match e with
  | ENum n => [IPush (VNum n)]
  | EBool b => [IPush (VBool b)]
  | EStr s => [IPush (VStr s)]
  | EVar n => [IGet n]
  | EArr l => (fix go (l:list expr) : code := match l with [] => [] | x :: r => compile_expr x ++ go r end) l
              ++ [IMakeArray (length l)]
  | ECode b =>
      [IPush (VCode ((fix go (first:bool) (b:list stmt) : code :=
                        match b with
                        | [] => []
                        | s :: r => (if first then [] else [IEnd]) ++
                                    match s with
                                    | SExpr e => compile_expr e
                                    | SAssign n e => compile_expr e ++ [IAssign n]
                                    | SLocal n e => compile_expr e ++ [IAssignLocal n] end ++ go false r end) true b))]
  | ENular n => [INular (lower n)]
  | EUnary n e =>
      match e, String.eqb n "-", String.eqb n "+" with
      | ENum k, true, _ => [IPush (VNum (- k))]
      | ENum k, _, true => [IPush (VNum k)]
      | _, _, _ => compile_expr e ++ [IUnary (lower n)] end
  | EBinary n l r => compile_expr l ++ compile_expr r ++ [IBinary (lower n)]
  end.
Definition compile_stmt (s:stmt) : code :=
  match s with
  | SExpr e => compile_expr e
  | SAssign n e => compile_expr e ++ [IAssign n]
  | SLocal n e => compile_expr e ++ [IAssignLocal n] end.
Fixpoint compile_block_from (first:bool) (b:list stmt) : code :=
  match b with
  | [] => []
  | s :: r => (if first then [] else [IEnd]) ++ compile_stmt s ++ compile_block_from false r end.
Definition compile_block (b:list stmt) : code := compile_block_from true b.

(* fully parenthesised source text *)
Fixpoint print_expr (e:expr) : string :=
  match e with
  | ENum n => if Z.ltb n 0 then append "(" (append (show_Z n) ")") else show_Z n
  | EBool b => if b then "true" else "false"
  | EStr s => append """" (append (quote_str s) """")
  | EVar n => n
  | EArr l => append "[" (append ((fix go (l:list expr) : string :=
                 match l with [] => "" | x :: r => append (print_expr x) (match r with [] => "" | _ => append ", " (go r) end) end) l) "]")
  | ECode b => append "{ " (append ((fix go (b:list stmt) : string :=
                 match b with
                 | [] => ""
                 | s :: r => append (match s with
                                     | SExpr e => print_expr e
                                     | SAssign n e => append n (append " = " (print_expr e))
                                     | SLocal n e => append "private " (append n (append " = " (print_expr e))) end)
                                    (match r with [] => "" | _ => append "; " (go r) end) end) b) " }")
  | ENular n => n
  | EUnary n e => append "(" (append n (append " " (append (print_expr e) ")")))
  | EBinary n l r => append "(" (append (print_expr l) (append " " (append n (append " " (append (print_expr r) ")")))))
  end.
Definition print_stmt (s:stmt) : string :=
  match s with
  | SExpr e => print_expr e
  | SAssign n e => append n (append " = " (print_expr e))
  | SLocal n e => append "private " (append n (append " = " (print_expr e))) end.
Fixpoint print_block (b:list stmt) : string :=
  match b with
  | [] => ""
  | s :: r => append (print_stmt s) (match r with [] => "" | _ => append "; " (print_block r) end) end.

(* instruction listing, as the harness prints the implementation's instruction_set *)
Fixpoint show_instr (i:instr) : string :=
  match i with
  | IPush (VCode c) => append "PUSHCODE[" (append ((fix go (c:code) : string :=
                          match c with [] => "" | x :: r => append (show_instr x) (match r with [] => "" | _ => append ";" (go r) end) end) c) "]")
  | IPush v => append "PUSH " (match show true v with Some s => s | None => "?" end)
  | IGet n => append "GETVARIABLE " n
  | IAssign n => append "ASSIGNTO " n
  | IAssignLocal n => append "ASSIGNTOLOCAL " n
  | INular n => append "CALLNULAR " n
  | IUnary n => append "CALLUNARY " n
  | IBinary n => append "CALLBINARY " n
  | IMakeArray n => append "MAKEARRAY " (show_Z (Z.of_nat n))
  | IEnd => "ENDSTATEMENT" end.
Fixpoint show_code (c:code) : string :=
  match c with [] => "" | x :: r => append (show_instr x) (match r with [] => "" | _ => append ";" (show_code r) end) end.

(* ------------------------------------------------------------------ initial machine, loading *)
Definition init_rt (defects:list string) (max_runtime tick:Z) (max_loop slice:nat) : rt :=
  {| r_ctxs := []; r_active := None; r_state := StEmpty; r_exit_req := false; r_halt_req := false; r_run := false;
     r_err := false; r_msgs := []; r_out := []; r_nss := []; r_clock := 0; r_tick := tick; r_timestamp := tick; r_run_ts := tick;
     r_max_runtime := max_runtime; r_max_loop := max_loop; r_slice := slice; r_next_id := 0; r_defects := defects |}.
(* the constructor reads the clock once (runtime.h:332) *)
Definition create_rt (defects:list string) (max_runtime tick:Z) (max_loop slice:nat) : rt :=
  set_clock (init_rt defects max_runtime tick max_loop slice) tick.

(* harness VM::load: context_create + push_frame of the parsed set in the default namespace *)
Definition load (r:rt) (c:code) : rt :=
  let id := r_next_id r in
  let nc := push_frame (new_context id false) (mk_frame default_ns c None None []) in
  set_next_id (set_ctxs r (r_ctxs r ++ [nc])) (S id).

(* ------------------------------------------------------------------ observations *)
Definition show_nat (n:nat) : string := show_Z (Z.of_nat n).
Definition show_result (x:rresult) : string :=
  match x with RInvalid => "-2" | REmpty => "-1" | ROk => "0" | RActionError => "1" | RRuntimeError => "2" end.
Definition show_state (s:rstate) : string :=
  match s with StEmpty => "0" | StHalted => "1" | StRunning => "2" | StHaltedError => "3" end.
Fixpoint show_frames (fs:list frame) : string :=
  match fs with
  | [] => ""
  | f :: r => append (show_nat (f_pos f)) (append "/" (append (show_nat (f_base f)) (match r with [] => "" | _ => append "," (show_frames r) end))) end.
(* after an assembly_step: result:state:height:frames of the first context (top frame first) *)
Definition observe_step (x:rresult) (r:rt) : string :=
  append (show_result x) (append ":" (append (show_state (r_state r)) (append ":"
    (match r_ctxs r with
     | c :: _ => append (show_nat (length (c_values c))) (append ":" (show_frames (c_frames c)))
     | [] => "-" end)))).

Fixpoint show_events (l:list event) (max_level:Z) : string :=
  match l with
  | [] => ""
  | e :: r =>
      let rest := show_events r max_level in
      match e with
      | EDiag lvl code => if Z.leb lvl max_level then append (show_Z lvl) (append ":" (append (show_Z code) (append "," rest))) else rest
      | EMark s => append "M<" (append s (append ">," rest)) end end.
Definition observe_final (x:rresult) (r:rt) : string :=
  append (show_result x) (append ":" (append (show_state (r_state r)) (append ":" (show_events (rev (r_out r)) 3)))).

(* step the machine with assembly_step until it is empty/failed or n steps were made *)
Fixpoint step_trace (n:nat) (r:rt) (acc:list string) : list string :=
  match n with O => rev ("MORE" :: acc) | S n' =>
    match execute AAssemblyStep r with
    | Ok (x, r1) =>
        let acc1 := observe_step x r1 :: acc in
        match x with ROk => step_trace n' r1 acc1 | _ => rev acc1 end
    | Unsupported w => rev (append "UNSUPPORTED " w :: acc)
    | Hang w => rev (append "HANG " w :: acc)
    | UB w => rev (append "UB " w :: acc) end end.

Definition run_final (r:rt) : string :=
  match execute AStart r with
  | Ok (x, r1) => observe_final x r1
  | Unsupported w => append "UNSUPPORTED " w
  | Hang w => append "HANG " w
  | UB w => append "UB " w end.
