(* C02 - the machine side of switch: the construct keeps its bookkeeping - the value switched on, the chosen block, "the label in
   front matched", "a block has been chosen" - in the variable ___switch of the switch frame; `case x`, `case x : {..}` and
   `default {..}` read and rewrite it (ops_generic.cpp case_any, colon_switch_code, default_code). *)
From Coq Require Import String Ascii.
From Coq Require Import ZArith List Bool Lia.
From SqfVerif Require Import Gen.DiagCodes Gen.Overloads VM.VmDefs VM.VmExec VM.RefSem VM.SimDefs VM.SimProofs VM.SimBlock VM.SimCtl.
Import ListNotations.
Local Open Scope string_scope.
Local Open Scope list_scope.

Definition set_sw (f:frame) (w:value) : frame := set_vars f (assoc_set "___switch" w (f_vars f)).

Lemma get_sw c f rest w : c_frames c = f :: rest -> assoc "___switch" (f_vars f) = Some w -> get_variable c "___switch" = Some w.
Proof. intros EF A. unfold get_variable. rewrite EF. change (lower "___switch") with "___switch". cbn [lookup_frames]. rewrite A. reflexivity. Qed.

Lemma assign_sw c f rest w w' : c_frames c = f :: rest -> assoc "___switch" (f_vars f) = Some w ->
  assign_local_var c "___switch" w' = set_frames c (set_sw f w' :: rest).
Proof. intros EF A. unfold assign_local_var. rewrite EF. change (lower "___switch") with "___switch". cbn [assign_frames]. rewrite A. reflexivity. Qed.

Lemma sw_after f w : assoc "___switch" (f_vars (set_sw f w)) = Some w.
Proof. unfold set_sw. cbn [f_vars set_vars]. rewrite assoc_assoc_set, String.eqb_refl. reflexivity. Qed.

Lemma op_case v r c f rest sv tgt nw hs : c_frames c = f :: rest -> assoc "___switch" (f_vars f) = Some (VSwitch sv tgt nw hs) ->
  op_unary "case" v r c =
  Ok (r, set_frames c (set_sw f (VSwitch sv tgt (if veqb true v sv then true else nw) hs) :: rest),
      VSwitch sv tgt (if veqb true v sv then true else nw) hs).
Proof.
  intros EF A. unfold op_unary. cbn [String.eqb Ascii.eqb Bool.eqb]. rewrite (get_sw c f rest _ EF A).
  rewrite (assign_sw c f rest _ _ EF A). reflexivity.
Qed.

Lemma op_default code r c f rest sv tgt nw hs : c_frames c = f :: rest -> assoc "___switch" (f_vars f) = Some (VSwitch sv tgt nw hs) ->
  op_unary "default" (VCode code) r c = Ok (r, set_frames c (set_sw f (VSwitch sv (if hs then tgt else code) nw hs) :: rest), VNil).
Proof.
  intros EF A. unfold op_unary. cbn [String.eqb Ascii.eqb Bool.eqb]. rewrite (get_sw c f rest _ EF A).
  rewrite (assign_sw c f rest _ _ EF A). reflexivity.
Qed.

Lemma op_colon l1 l2 l3 l4 body r c f rest sv tgt nw hs : c_frames c = f :: rest -> assoc "___switch" (f_vars f) = Some (VSwitch sv tgt nw hs) ->
  op_binary ":" (VSwitch l1 l2 l3 l4) (VCode body) r c =
  if andb (negb hs) nw
  then Ok (r, set_frames c (set_pos (set_sw f (VSwitch sv body false true)) (S (length (f_code f))) :: rest), VNil)
  else Ok (r, set_frames c (f :: rest), VNil).
Proof.
  intros EF A. unfold op_binary. cbn [String.eqb Ascii.eqb Bool.eqb]. rewrite (get_sw c f rest _ EF A).
  destruct (andb (negb hs) nw); [|rewrite <- EF; destruct c; reflexivity].
  rewrite (assign_sw c f rest _ _ EF A). unfold upd_top. cbn [c_frames set_frames]. destruct c; reflexivity.
Qed.

(* the hidden variable is no business of the reference scope *)
Lemma vars_match_set_sw l f w : vars_match l (f_vars f) -> vars_match l (f_vars (set_sw f w)).
Proof.
  intros V k HK. unfold set_sw. cbn [f_vars set_vars]. rewrite assoc_assoc_set. unfold hidden in HK. rewrite HK. apply V. exact HK.
Qed.
Lemma frame_match_set_sw sc f w : frame_match sc f -> frame_match sc (set_sw f w).
Proof. intros (V & NS & BB). split; [apply vars_match_set_sw; exact V|split; [exact NS|exact BB]]. Qed.
Lemma match_set_sw s r f w rest : Match s r (f :: rest) -> Match s r (set_sw f w :: rest).
Proof. intros [F N]. split; [|exact N]. inversion F as [|sc f0 scs fs FM F' E1 E2]; subst. constructor; [apply frame_match_set_sw; exact FM|exact F']. Qed.
Lemma moved_set_sw f w : moved f (set_sw f w).
Proof. unfold set_sw. destruct f; reflexivity. Qed.
