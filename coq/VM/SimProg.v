(* C02 simulation, part 6: whole programs.  A program whose top-level statements are statements of the relation of
   SimExit.v - expressions, assignments and private bindings over calls, if-then-else, the loops over arrays, for, while,
   lazy operators, with exitWith anywhere below the top level - loaded as the root frame of a context: execute_do runs it
   slice by slice; the slice that finishes it returns `empty`, the context has no frame left and holds exactly the
   program's value, and the namespaces are those of the reference result.  (An exitWith statement in the root scope itself
   is not covered here: the frame it abandons has no caller to hand its value to.) *)
From Coq Require Import String Ascii.
From Coq Require Import ZArith List Bool Lia.
From SqfVerif Require Import Gen.DiagCodes Gen.Overloads VM.VmDefs VM.VmExec VM.RefSem VM.C02Proofs VM.SimDefs VM.SimProofs VM.SimBlock VM.SimCtl VM.SimRun VM.SimExit.
Import ListNotations.
Local Open Scope string_scope.
Local Open Scope list_scope.

Inductive zprog : sstate -> rvalue -> list stmt -> rvalue -> sstate -> Prop :=
| ZPNil s reg : zprog s reg [] reg s
| ZPLast s reg st reg1 s1 : zstmt s reg st reg1 s1 -> zprog s reg [st] reg1 s1
| ZPCons s reg st reg1 s1 st2 rest reg' s' :
    zstmt s reg st reg1 s1 -> zprog s1 RNone (st2 :: rest) reg' s' -> zprog s reg (st :: st2 :: rest) reg' s'.

(* such a program is a block of the relation that runs to its end *)
Lemma zprog_zblock s reg b reg' s' : zprog s reg b reg' s' -> zblock s reg b (BNorm reg') s'.
Proof. induction 1; [apply ZBNil|apply ZBLast; assumption|eapply ZBCons; eassumption]. Qed.

Theorem zprog_ref s reg b reg' s' : zprog s reg b reg' s' ->
  exists f0, forall f, f0 <= f -> eval_block f s b reg = (ONormal reg', s').
Proof. intros H. exact (proj1 (proj2 (proj2 (proj2 ref_runs_z))) s reg b (BNorm reg') s' (zprog_zblock _ _ _ _ _ H)). Qed.

(* the machine runs it, wherever its code stands in the frame *)
Theorem zprog_vm : forall s reg b reg' s', zprog s reg b reg' s' -> BlockRuns s reg (compile_block b) reg' s'.
Proof.
  induction 1 as [s reg|s reg st reg1 s1 HS|s reg st reg1 s1 st2 rest0 reg' s' HS HB IHb]; intros r c f rest below pre post A FR EC EP.
  - exists r, c, f, rest. split; [apply StepsRefl|]. split; [exact A|]. split; [apply moved_refl|]. split; [cbn; lia|apply kept_all_refl].
  - unfold compile_block in *. cbn [compile_block_from app] in *. rewrite app_nil_r in *.
    exact (proj1 (proj2 (proj2 vm_runs_z)) s reg st reg1 s1 HS r c f rest below pre post A FR EC EP).
  - pose proof (proj1 (proj2 (proj2 vm_runs_z)) s reg st reg1 s1 HS) as IHs.
    unfold compile_block in *. rewrite compile_block_from_cons in *. cbn [app] in *.
    rewrite compile_block_from_cons in EC. cbn [app] in EC. rewrite <- app_assoc in EC. cbn [app] in EC.
    destruct (IHs r c f rest below pre _ A FR EC EP) as (r1 & c1 & f1 & rest1 & S1 & A1 & MV1 & P1 & K1).
    assert (EC1 : f_code f1 = (pre ++ compile_stmt st) ++ IEnd :: compile_stmt st2 ++ compile_block_from false rest0 ++ post).
    { rewrite (moved_code _ _ MV1), EC, <- !app_assoc. reflexivity. }
    assert (EP1 : f_pos f1 = length (pre ++ compile_stmt st)) by (rewrite app_length, P1, EP; reflexivity).
    destruct (end_run s1 reg1 r1 c1 f1 rest1 below _ _ A1 EC1 EP1) as (r2 & c2 & S2 & A2 & FR2).
    set (f2 := set_pos f1 (S (f_pos f1))) in *.
    destruct (IHb r2 c2 f2 rest1 below (pre ++ compile_stmt st ++ [IEnd]) post A2 FR2) as (r3 & c3 & f3 & rest3 & S3 & A3 & MV3 & P3 & K3).
    { cbn [f2 set_pos f_code]. rewrite EC1. try rewrite compile_block_from_cons. cbn [app]. rewrite <- !app_assoc. cbn [app]. reflexivity. }
    { cbn [f2 set_pos f_pos]. rewrite EP1, !app_length. cbn. lia. }
    exists r3, c3, f3, rest3. split; [eapply steps_trans; [exact S1|eapply steps_trans; [exact S2|exact S3]]|].
    split; [exact A3|]. split.
    { eapply moved_trans; [exact MV1|]. eapply moved_trans; [apply (moved_set_pos f1 (S (f_pos f1)))|exact MV3]. }
    split; [|eapply kept_all_trans; eassumption].
    rewrite P3. cbn [f2 set_pos f_pos]. rewrite P1. try rewrite compile_block_from_cons. cbn [app].
    rewrite !app_length. cbn [length]. rewrite ?app_length. lia.
Qed.

(* a whole program in the root frame *)
Theorem program_run_z s p reg s' r c f :
  zprog s RNone p reg s' ->
  AtM s RNone r c f [] [] -> f_code f = compile_block p -> f_pos f = 0 -> f_exit f = None ->
  exists rf cf,
    Steps r rf /\ cur rf = Some cf /\ c_frames cf = [] /\
    c_values cf = match reg with RNone => [] | v => [cv v] end /\
    world rf = (mnss (st_nss s'), st_trace s') /\
    do_iter rf = Ok (Return REmpty rf) /\
    forall fuel n x r', execute_do fuel r n = Ok (x, r') ->
      (x = REmpty /\ r' = rf) \/ (x = ROk /\ Steps r r' /\ Steps r' rf).
Proof.
  intros HB A EC EP EX.
  assert (FR : Fresh c []).
  { destruct A as (_ & _ & top & EV & RR). apply fresh_nil. destruct top as [|x t]; [rewrite EV; reflexivity|]. destruct RR as (_ & N & _). exfalso. apply N. reflexivity. }
  destruct (zprog_vm s RNone p reg s' HB r c f [] [] [] [] A FR) as (r1 & c1 & f1 & rest1 & S1 & A1 & MV & P1 & K1).
  { cbn. rewrite app_nil_r. exact EC. } { exact EP. }
  inversion K1; subst. destruct A1 as ((G1 & EF1 & (F1 & N1) & B1 & D1) & LB1 & top & EV1 & RR).
  destruct (complete_root r1 c1 f1 top [] G1 EF1) as [S2 T].
  { rewrite P1, EP, (moved_code _ _ MV), EC. reflexivity. }
  { rewrite (moved_exit _ _ MV). exact EX. }
  { exact EV1. } { exact LB1. }
  set (c4 := set_values (set_frames c1 []) (match top with [] => [] | x :: _ => [x] end)) in *.
  exists (upd_cur r1 c4), c4. split; [eapply steps_trans; eassumption|].
  destruct G1 as (C1 & _). split; [eapply cur_upd_cur; exact C1|]. split; [reflexivity|]. split.
  { cbn. destruct top as [|x top]; cbn in RR.
    - rewrite RR. reflexivity.
    - destruct RR as (-> & NN & _). destruct reg; try reflexivity. exfalso. apply NN. reflexivity. }
  split; [rewrite world_upd_cur; exact N1|]. split; [exact T|].
  intros fuel n x r' H.
  destruct (execute_do_follows r (upd_cur r1 c4) (steps_trans _ _ _ S1 S2) fuel n x r' H) as [(f2 & n2 & _ & _ & E)|Q]; [|right; exact Q].
  destruct f2 as [|f2]; [discriminate E|]. cbn [execute_do] in E.
  destruct (r_exit_req (upd_cur r1 c4)) eqn:XR.
  { exfalso. unfold do_iter in T. rewrite XR in T. inversion T. }
  destruct n2 as [|n2].
  - inversion E; subst. right. split; [reflexivity|]. split; [eapply steps_trans; eassumption|apply StepsRefl].
  - rewrite T in E. cbn [bindr] in E. inversion E; subst. left. split; reflexivity.
Qed.

(* ---------------------------------------------------------------- exitWith in the root scope itself *)
(* the root frame, marked as finished by exitWith, with the handler's value on top of what it still held: it completes and hands
   exactly that value over; nothing is left to run *)
Lemma complete_dead_root r c f x top :
  Good r c -> c_frames c = [f] -> f_pos f = S (length (f_code f)) -> f_die f = true ->
  c_values c = x :: top -> f_base f = 0 ->
  let c4 := set_values (set_frames c []) [x] in
  Steps r (upd_cur r c4) /\ do_iter (upd_cur r c4) = Ok (Return REmpty (upd_cur r c4)).
Proof.
  intros G EF EP ED EV LB c4. pose proof G as (C & X & St & E & M & MR & SU).
  assert (G4 : Good (upd_cur r c4) c4) by (apply (good_upd r c c4 G); exact SU).
  split.
  - apply steps_cont_upd.
    unfold do_iter. rewrite X, C, SU, EF, St.
    destruct frame_fuel_S as [k Hk]. rewrite Hk. cbn [frame_next]. rewrite EF.
    assert (A1 : at_end f = true) by (unfold at_end; apply Nat.eqb_eq; lia).
    rewrite A1.
    set (c1 := set_frames c [f]).
    assert (P : pop_value c1 = Some (x, set_values c1 top)).
    { apply (pop_value_top c1 f []); [reflexivity|exact EV|lia]. }
    destruct (f_exit f) as [b|]; [rewrite A1, ED; cbn [andb negb]|]; cbn [bindr]; rewrite E;
      cbn [c_frames set_frames length]; rewrite Nat.eqb_refl; fold c1; rewrite P;
      unfold clear_values, pop_frame; cbn [c_frames c1 set_frames c_values tl set_values];
      rewrite LB, Nat.sub_0_r, skipn_all; unfold push_value; subst c4; cbn; reflexivity.
  - destruct G4 as (C4 & X4 & _ & _ & _ & _ & SU4). unfold do_iter. rewrite X4, C4, SU4. reflexivity.
Qed.

(* what a program hands over when its root scope ends *)
Definition root_value (out:bout) : list value :=
  match out with BNorm RNone => [] | BNorm v => [cv v] | BExit v => [cv v] end.

(* an expression of the ROOT frame's code that is left by an exitWith inside an operand: the root scope ends with the handler's value,
   whatever waits on the operand stack is dropped *)
Definition RootExits (s:sstate) (e:expr) (v:rvalue) (s':sstate) : Prop :=
  forall r c f pre post, Mach s r c f [] -> f_base f = 0 -> f_code f = pre ++ compile_expr e ++ post -> f_pos f = length pre ->
  exists rf cf, Steps r rf /\ cur rf = Some cf /\ c_frames cf = [] /\ c_values cf = [cv v] /\
    world rf = (mnss (st_nss s'), st_trace s') /\ do_iter rf = Ok (Return REmpty rf).
Definition RootElemsExit (s:sstate) (l:list expr) (v:rvalue) (s':sstate) : Prop :=
  forall r c f pre post, Mach s r c f [] -> f_base f = 0 -> f_code f = pre ++ flat_map compile_expr l ++ post -> f_pos f = length pre ->
  exists rf cf, Steps r rf /\ cur rf = Some cf /\ c_frames cf = [] /\ c_values cf = [cv v] /\
    world rf = (mnss (st_nss s'), st_trace s') /\ do_iter rf = Ok (Return REmpty rf).
Lemma root_exits :
  (forall s e v s', zev s e v s' -> True) /\ (forall s l vs s', zevs s l vs s' -> True) /\
  (forall s reg st reg1 s1, zstmt s reg st reg1 s1 -> True) /\ (forall s reg b out s', zblock s reg b out s' -> True) /\
  (forall k s arr i body acc acc' s', ziter k s arr i body acc acc' s' -> True) /\
  (forall var to st s x first body acc s', zfor var to st s x first body acc s' -> True) /\
  (forall cond body s first v s', zwhile cond body s first v s' -> True) /\
  (forall s reg b x s', zthrow s reg b x s' -> True) /\
  (forall s reg b t v s', zbreak s reg b t v s' -> True) /\
  (forall s e a s', zloopleave s e a s' -> True) /\
  (forall k s arr i body acc a s', zileave k s arr i body acc a s' -> True) /\
  (forall var to st s x first body a s', zfleave var to st s x first body a s' -> True) /\
  (forall cond body s first a s', zwleave cond body s first a s' -> True) /\
  (forall s vars b a s', zscopeleave s vars b a s' -> True) /\
  (forall s l a s', zelemsleave s l a s' -> True) /\
  (forall s e v s', zexexit s e v s' -> RootExits s e v s') /\ (forall s l v s', zelemsexit s l v s' -> RootElemsExit s l v s').
Proof.
  pose proof (proj1 vm_runs_z) as EVX.
  apply z_ind; try (intros; exact I).
  - (* if true exitWith {..} *)
    intros s n l x b s1 s2 out s3 HN HL _ HX _ HB _ r c f pre post MA FB EC EP.
    rewrite compile_binary, <- !app_assoc in EC.
    post_intro (EVX s l (RIf true) s1 HL r c f [] pre _ MA EC EP) r1 c1 f1 rest1 S1 M1 EV1 MV1 P1 K1.
    destruct (after_operands_code f f1 pre _ _ MV1 EC EP P1) as [EC1 EP1].
    post_intro (EVX s1 x (RCode b) s2 HX r1 c1 f1 rest1 (pre ++ compile_expr l) _ M1 EC1 EP1) r2 c2 f2 rest2 S2 M2 EV2 MV2 P2 K2.
    destruct (after_operands_code f1 f2 _ _ _ MV2 EC1 EP1 P2) as [EC2 EP2].
    destruct M2 as (G2 & EF2 & MM2 & B2 & D2). destruct MA as (_ & _ & _ & B & _).
    rewrite EV1 in EV2.
    assert (KK : Forall2 kept [] rest2) by (eapply kept_all_trans; eassumption).
    inversion KK; subst.
    set (c0 := set_values (set_frames c2 [set_pos f2 (S (f_pos f2))]) (c_values c)).
    set (fdie := set_die (set_pos (set_pos f2 (S (f_pos f2))) (S (length (f_code f2)))) true).
    set (cX := push_frame (upd_top c0 (fun f => set_die (set_pos f (S (length (f_code f)))) true))
                          (mk_frame (cur_ns c0) (compile_block b) None None [])).
    destruct (binary_run r2 c2 f2 [] _ _ (lower n) (cv (RIf true)) (cv (RCode b)) (c_values c) cX VNil G2 EF2 EC2 EP2 EV2) as [S3 G3].
    { rewrite (moved_base _ _ MV2), (moved_base _ _ MV1); exact B. } { discriminate. } { discriminate. } { rewrite lower_idem, HN. reflexivity. }
    { destruct G2 as (_ & _ & _ & _ & _ & _ & SU); exact SU. }
    set (nf := set_base (mk_frame (cur_ns c0) (compile_block b) None None []) (length (c_values c))).
    assert (A3 : AtM (enter s2 []) RNil (upd_cur r2 (push_value cX VNil)) (push_value cX VNil) nf [fdie] (c_values c)).
    { split.
      - split; [exact G3|]. split; [reflexivity|]. split.
        + apply match_upd. destruct MM2 as [F N]. split; [|exact N]. cbn. inversion F as [|sc f0 scs fs FM F' E1 E2]; subst.
          constructor; [|constructor; [exact FM|exact F']].
          split; [intros k; reflexivity|split; [|split; reflexivity]]. cbn. destruct FM as (_ & NS & _). unfold cur_ns_of. rewrite <- E1. exact NS.
        + split; [cbn; lia|rewrite quirks_upd_cur; exact D2].
      - split; [reflexivity|]. exists [VNil]. split; [reflexivity|]. split; [reflexivity|]. split; [discriminate|nil_case]. }
    pose proof (proj1 (proj2 (proj2 (proj2 vm_runs_z))) (enter s2 []) RNil b out s3 HB) as BE.
    destruct (scope_ends_of_body _ _ _ _ _ BE _ _ nf fdie [] (c_values c) [] A3 (fresh_one (push_value cX VNil) (c_values c) eq_refl) eq_refl eq_refl eq_refl) as (r4 & c4 & fd4 & rest4 & S4 & M4 & EV4 & K4 & KR4).
    { cbn. rewrite (moved_base _ _ MV2), (moved_base _ _ MV1); exact B. }
    inversion KR4; subst.
    destruct M4 as (G4 & EF4 & (F4 & N4) & B4 & D4).
    destruct (complete_dead_root r4 c4 fd4 (cv (val_of out)) (c_values c) G4 EF4) as [S5 T].
    { rewrite (kept_pos _ _ K4), (kept_code _ _ K4). reflexivity. }
    { rewrite (kept_die _ _ K4). reflexivity. }
    { exact EV4. }
    { rewrite (kept_base _ _ K4). cbn. rewrite (moved_base _ _ MV2), (moved_base _ _ MV1). exact FB. }
    set (c5 := set_values (set_frames c4 []) [cv (val_of out)]) in *.
    exists (upd_cur r4 c5), c5.
    split; [eapply steps_trans; [exact S1|eapply steps_trans; [exact S2|eapply steps_trans; [exact S3|eapply steps_trans; [exact S4|exact S5]]]]|].
    destruct G4 as (C4 & _). split; [eapply cur_upd_cur; exact C4|]. split; [reflexivity|]. split; [reflexivity|].
    split; [rewrite world_upd_cur; exact N4|exact T].
  - (* unary operand *) intros s n a v s1 NL HX IHx r c f pre post MA FB EC EP.
    rewrite (compile_unary_nonlit n a NL), <- app_assoc in EC. exact (IHx r c f pre _ MA FB EC EP).
  - (* left operand *) intros s n a b v s1 HX IHx r c f pre post MA FB EC EP.
    rewrite compile_binary, <- !app_assoc in EC. exact (IHx r c f pre _ MA FB EC EP).
  - (* right operand *) intros s n a b va v s1 s2 HA _ HX IHx r c f pre post MA FB EC EP.
    rewrite compile_binary, <- !app_assoc in EC.
    post_intro (EVX s a va s1 HA r c f [] pre _ MA EC EP) r1 c1 f1 rest1 S1 M1 EV1 MV1 P1 K1.
    destruct (after_operands_code f f1 pre _ _ MV1 EC EP P1) as [EC1 EP1].
    inversion K1; subst.
    destruct (IHx r1 c1 f1 (pre ++ compile_expr a) ([IBinary (lower n)] ++ post) M1) as (rf & cf & S2 & R2); [rewrite (moved_base _ _ MV1); exact FB|exact EC1|exact EP1|].
    exists rf, cf. split; [eapply steps_trans; eassumption|exact R2].
  - (* array *) intros s l v s1 HX IHx r c f pre post MA FB EC EP.
    rewrite compile_array, <- app_assoc in EC. exact (IHx r c f pre _ MA FB EC EP).
  - (* first element *) intros s e l v s1 HX IHx r c f pre post MA FB EC EP.
    cbn [flat_map] in EC. rewrite <- app_assoc in EC. exact (IHx r c f pre _ MA FB EC EP).
  - (* later element *) intros s e v0 l v s1 s2 HE _ NN HX IHx r c f pre post MA FB EC EP.
    cbn [flat_map] in EC. rewrite <- app_assoc in EC.
    post_intro (EVX s e v0 s1 HE r c f [] pre _ MA EC EP) r1 c1 f1 rest1 S1 M1 EV1 MV1 P1 K1.
    destruct (after_operands_code f f1 pre _ _ MV1 EC EP P1) as [EC1 EP1].
    inversion K1; subst.
    destruct (IHx r1 c1 f1 (pre ++ compile_expr e) post M1) as (rf & cf & S2 & R2); [rewrite (moved_base _ _ MV1); exact FB|exact EC1|exact EP1|].
    exists rf, cf. split; [eapply steps_trans; eassumption|exact R2].
Qed.

(* a block of the relation as (the rest of) the root frame's code: it runs, or is left by exitWith, and the root frame completes *)
Theorem root_block : forall s reg b out s', zblock s reg b out s' ->
  forall r c f pre, AtM s reg r c f [] [] -> Fresh c [] -> f_code f = pre ++ compile_block b -> f_pos f = length pre -> f_exit f = None ->
  exists rf cf, Steps r rf /\ cur rf = Some cf /\ c_frames cf = [] /\ c_values cf = root_value out /\
    world rf = (mnss (st_nss s'), st_trace s') /\ do_iter rf = Ok (Return REmpty rf).
Proof.
  assert (FIN : forall s reg r c f, AtM s reg r c f [] [] -> f_pos f = length (f_code f) -> f_exit f = None ->
            exists rf cf, Steps r rf /\ cur rf = Some cf /\ c_frames cf = [] /\ c_values cf = root_value (BNorm reg) /\
              world rf = (mnss (st_nss s), st_trace s) /\ do_iter rf = Ok (Return REmpty rf)).
  { intros s reg r c f ((G & EF & (F & N) & B & D) & LB & top & EV & RR) EP EX.
    destruct (complete_root r c f top [] G EF EP EX EV LB) as [S2 T].
    set (c4 := set_values (set_frames c []) (match top with [] => [] | x :: _ => [x] end)) in *.
    exists (upd_cur r c4), c4. split; [exact S2|].
    destruct G as (C1 & _). split; [eapply cur_upd_cur; exact C1|]. split; [reflexivity|]. split.
    { cbn. destruct top as [|x top]; cbn in RR.
      - rewrite RR. reflexivity.
      - destruct RR as (-> & NN & _). destruct reg; try reflexivity. exfalso. apply NN. reflexivity. }
    split; [rewrite world_upd_cur; exact N|exact T]. }
  induction 1 as [s reg|s reg st reg1 s1 HS|s reg st reg1 s1 st2 rest0 out s' HS HB IHb|s reg n l x b s1 s2 out s3 rest0 HN HL HX HB _
                   |s reg e v s1 rest0 HXX|s reg n e v s1 rest0 HXX|s reg n e v s1 rest0 HXX];
    intros r c f pre A FR EC EP EX.
  - (* nothing left *) apply (FIN s reg r c f A); [|exact EX].
    rewrite EP, EC. unfold compile_block. cbn [compile_block_from]. rewrite app_nil_r. reflexivity.
  - (* the last statement *)
    unfold compile_block in EC. cbn [compile_block_from app] in EC.
    destruct (proj1 (proj2 (proj2 vm_runs_z)) s reg st reg1 s1 HS r c f [] [] pre [] A FR EC EP) as (r1 & c1 & f1 & rest1 & S1 & A1 & MV1 & P1 & K1).
    inversion K1; subst.
    destruct (FIN s1 reg1 r1 c1 f1 A1) as (rf & cf & S2 & R2).
    { rewrite P1, EP, (moved_code _ _ MV1), EC, !app_length. cbn. lia. } { rewrite (moved_exit _ _ MV1). exact EX. }
    exists rf, cf. split; [eapply steps_trans; eassumption|exact R2].
  - (* a statement, then the rest *)
    rewrite compile_block_cons2 in EC.
    destruct (proj1 (proj2 (proj2 vm_runs_z)) s reg st reg1 s1 HS r c f [] [] pre _ A FR EC EP) as (r1 & c1 & f1 & rest1 & S1 & A1 & MV1 & P1 & K1).
    inversion K1; subst.
    assert (EC1 : f_code f1 = (pre ++ compile_stmt st) ++ IEnd :: compile_block (st2 :: rest0)).
    { rewrite (moved_code _ _ MV1), EC, <- app_assoc. reflexivity. }
    assert (EP1 : f_pos f1 = length (pre ++ compile_stmt st)) by (rewrite app_length, P1, EP; reflexivity).
    destruct (end_run s1 reg1 r1 c1 f1 [] [] _ _ A1 EC1 EP1) as (r2 & c2 & S2 & A2 & FR2).
    destruct (IHb r2 c2 (set_pos f1 (S (f_pos f1))) (pre ++ compile_stmt st ++ [IEnd]) A2 FR2) as (rf & cf & S3 & R3).
    { cbn [set_pos f_code]. rewrite EC1, <- !app_assoc. reflexivity. }
    { cbn [set_pos f_pos]. rewrite EP1, !app_length. cbn. lia. }
    { cbn [set_pos f_exit]. rewrite (moved_exit _ _ MV1). exact EX. }
    exists rf, cf. split; [eapply steps_trans; [exact S1|eapply steps_trans; [exact S2|exact S3]]|exact R3].
  - (* if true exitWith {..} in the root scope *)
    destruct A as (MA & LB & top & EV & RR).
    rewrite compile_block_exit in EC.
    pose proof (proj1 vm_runs_z) as EVX.
    post_intro (EVX s l (RIf true) s1 HL r c f [] pre _ MA EC EP) r1 c1 f1 rest1 S1 M1 EV1 MV1 P1 K1.
    destruct (after_operands_code f f1 pre _ _ MV1 EC EP P1) as [EC1 EP1].
    post_intro (EVX s1 x (RCode b) s2 HX r1 c1 f1 rest1 (pre ++ compile_expr l) _ M1 EC1 EP1) r2 c2 f2 rest2 S2 M2 EV2 MV2 P2 K2.
    destruct (after_operands_code f1 f2 _ _ _ MV2 EC1 EP1 P2) as [EC2 EP2].
    destruct M2 as (G2 & EF2 & MM2 & B2 & D2). destruct MA as (_ & _ & _ & B & _).
    rewrite EV1 in EV2.
    assert (KK : Forall2 kept [] rest2) by (eapply kept_all_trans; eassumption).
    inversion KK; subst.
    set (c0 := set_values (set_frames c2 [set_pos f2 (S (f_pos f2))]) (c_values c)).
    set (fdie := set_die (set_pos (set_pos f2 (S (f_pos f2))) (S (length (f_code f2)))) true).
    set (cX := push_frame (upd_top c0 (fun f => set_die (set_pos f (S (length (f_code f)))) true))
                          (mk_frame (cur_ns c0) (compile_block b) None None [])).
    destruct (binary_run r2 c2 f2 [] _ _ (lower n) (cv (RIf true)) (cv (RCode b)) (c_values c) cX VNil G2 EF2 EC2 EP2 EV2) as [S3 G3].
    { rewrite (moved_base _ _ MV2), (moved_base _ _ MV1); exact B. } { discriminate. } { discriminate. } { rewrite lower_idem, HN. reflexivity. }
    { destruct G2 as (_ & _ & _ & _ & _ & _ & SU); exact SU. }
    set (nf := set_base (mk_frame (cur_ns c0) (compile_block b) None None []) (length (c_values c))).
    assert (A3 : AtM (enter s2 []) RNil (upd_cur r2 (push_value cX VNil)) (push_value cX VNil) nf [fdie] (c_values c)).
    { split.
      - split; [exact G3|]. split; [reflexivity|]. split.
        + apply match_upd. destruct MM2 as [F N]. split; [|exact N]. cbn. inversion F as [|sc f0 scs fs FM F' E1 E2]; subst.
          constructor; [|constructor; [exact FM|exact F']].
          split; [intros k; reflexivity|split; [|split; reflexivity]]. cbn. destruct FM as (_ & NS & _). unfold cur_ns_of. rewrite <- E1. exact NS.
        + split; [cbn; lia|rewrite quirks_upd_cur; exact D2].
      - split; [reflexivity|]. exists [VNil]. split; [reflexivity|]. split; [reflexivity|]. split; [discriminate|nil_case]. }
    pose proof (proj1 (proj2 (proj2 (proj2 vm_runs_z))) (enter s2 []) RNil b out s3 HB) as BE.
    destruct (scope_ends_of_body _ _ _ _ _ BE _ _ nf fdie [] (c_values c) [] A3 (fresh_one (push_value cX VNil) (c_values c) eq_refl) eq_refl eq_refl eq_refl) as (r4 & c4 & fd4 & rest4 & S4 & M4 & EV4 & K4 & KR4).
    { cbn. rewrite (moved_base _ _ MV2), (moved_base _ _ MV1); exact B. }
    inversion KR4; subst.
    destruct M4 as (G4 & EF4 & (F4 & N4) & B4 & D4).
    destruct (complete_dead_root r4 c4 fd4 (cv (val_of out)) (c_values c) G4 EF4) as [S5 T].
    { rewrite (kept_pos _ _ K4), (kept_code _ _ K4). reflexivity. }
    { rewrite (kept_die _ _ K4). reflexivity. }
    { exact EV4. }
    { rewrite (kept_base _ _ K4). cbn. rewrite (moved_base _ _ MV2), (moved_base _ _ MV1), <- LB. reflexivity. }
    set (c5 := set_values (set_frames c4 []) [cv (val_of out)]) in *.
    exists (upd_cur r4 c5), c5.
    split; [eapply steps_trans; [exact S1|eapply steps_trans; [exact S2|eapply steps_trans; [exact S3|eapply steps_trans; [exact S4|exact S5]]]]|].
    destruct G4 as (C4 & _). split; [eapply cur_upd_cur; exact C4|]. split; [reflexivity|]. split; [reflexivity|].
    split; [rewrite world_upd_cur; exact N4|exact T].
  - (* a statement of the root scope whose expression is left by an exitWith inside an operand *)
    destruct A as (MA & LB & top & EV & RR).
    exact (proj1 (proj2 (proj2 (proj2 (proj2 (proj2 (proj2 (proj2 (proj2 (proj2 (proj2 (proj2 (proj2 (proj2 (proj2 (proj2 root_exits))))))))))))))) s e v s1 HXX r c f pre (compile_block_from false rest0) MA (eq_sym LB) EC EP).
  - (* x = e *)
    destruct A as (MA & LB & top & EV & RR).
    unfold compile_block in EC. cbn [compile_block_from compile_stmt app] in EC. rewrite <- app_assoc in EC.
    exact (proj1 (proj2 (proj2 (proj2 (proj2 (proj2 (proj2 (proj2 (proj2 (proj2 (proj2 (proj2 (proj2 (proj2 (proj2 (proj2 root_exits))))))))))))))) s e v s1 HXX r c f pre _ MA (eq_sym LB) EC EP).
  - (* private _x = e *)
    destruct A as (MA & LB & top & EV & RR).
    unfold compile_block in EC. cbn [compile_block_from compile_stmt app] in EC. rewrite <- app_assoc in EC.
    exact (proj1 (proj2 (proj2 (proj2 (proj2 (proj2 (proj2 (proj2 (proj2 (proj2 (proj2 (proj2 (proj2 (proj2 (proj2 (proj2 root_exits))))))))))))))) s e v s1 HXX r c f pre _ MA (eq_sym LB) EC EP).
Qed.

(* a whole program whose root scope may be left by exitWith *)
Theorem program_run_exit s p out s' r c f :
  zblock s RNone p out s' ->
  AtM s RNone r c f [] [] -> f_code f = compile_block p -> f_pos f = 0 -> f_exit f = None ->
  exists rf cf,
    Steps r rf /\ cur rf = Some cf /\ c_frames cf = [] /\ c_values cf = root_value out /\
    world rf = (mnss (st_nss s'), st_trace s') /\
    do_iter rf = Ok (Return REmpty rf) /\
    forall fuel n x r', execute_do fuel r n = Ok (x, r') ->
      (x = REmpty /\ r' = rf) \/ (x = ROk /\ Steps r r' /\ Steps r' rf).
Proof.
  intros HB A EC EP EX.
  assert (FR : Fresh c []).
  { destruct A as (_ & _ & top & EV & RR). apply fresh_nil. destruct top as [|x t]; [rewrite EV; reflexivity|]. destruct RR as (_ & N & _). exfalso. apply N. reflexivity. }
  destruct (root_block s RNone p out s' HB r c f [] A FR EC EP EX) as (rf & cf & S1 & C1 & F1 & V1 & N1 & T).
  exists rf, cf. split; [exact S1|]. split; [exact C1|]. split; [exact F1|]. split; [exact V1|]. split; [exact N1|]. split; [exact T|].
  intros fuel n x r' H.
  destruct (execute_do_follows r rf S1 fuel n x r' H) as [(f2 & n2 & _ & _ & E)|Q]; [|right; exact Q].
  destruct f2 as [|f2]; [discriminate E|]. cbn [execute_do] in E.
  destruct (r_exit_req rf) eqn:XR.
  { exfalso. unfold do_iter in T. rewrite XR in T. inversion T. }
  destruct n2 as [|n2].
  - inversion E; subst. right. split; [reflexivity|]. split; [exact S1|apply StepsRefl].
  - rewrite T in E. cbn [bindr] in E. inversion E; subst. left. split; reflexivity.
Qed.

(* what the property observes - "the sequence of statements executed", seen through the markers a program logs: the
   markers the machine has logged when the program is finished are those of the reference run, in the same order *)
Theorem program_trace s p reg s' r c f :
  zprog s RNone p reg s' ->
  AtM s RNone r c f [] [] -> f_code f = compile_block p -> f_pos f = 0 -> f_exit f = None ->
  (exists f0, forall fl, f0 <= fl -> st_trace (snd (eval_block fl s p RNone)) = st_trace s') /\
  exists rf, Steps r rf /\ do_iter rf = Ok (Return REmpty rf) /\ marks (r_out rf) = st_trace s' /\
             forall fuel n x r', execute_do fuel r n = Ok (x, r') -> x = REmpty -> marks (r_out r') = st_trace s'.
Proof.
  intros HP A EC EP EX. split.
  - destruct (zprog_ref s RNone p reg s' HP) as [f0 H]. exists f0. intros fl L. rewrite (H fl L). reflexivity.
  - destruct (program_run_z s p reg s' r c f HP A EC EP EX) as (rf & cf & S & _ & _ & _ & W & T & FO).
    exists rf. split; [exact S|]. split; [exact T|]. split; [exact (world_marks _ _ _ W)|].
    intros fuel n x r' H XE. destruct (FO fuel n x r' H) as [[_ ->]|[XO _]]; [exact (world_marks _ _ _ W)|].
    rewrite XE in XO. discriminate XO.
Qed.
