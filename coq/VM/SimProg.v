(* C02 simulation, part 6: whole programs.  A program whose top-level statements are statements of the relation of
   SimExit.v - expressions, assignments and private bindings over calls, if-then-else, the loops over arrays, for, while,
   lazy operators, with exitWith anywhere below the top level - loaded as the root frame of a context: execute_do runs it
   slice by slice; the slice that finishes it returns `empty`, the context has no frame left and holds exactly the
   program's value, and the namespaces are those of the reference result.  (An exitWith statement in the root scope itself
   is not covered here: the frame it abandons has no caller to hand its value to.) *)
From Coq Require Import String Ascii.
From Coq Require Import ZArith List Bool Lia.
From SqfVerif Require Import Gen.DiagCodes Gen.Overloads VM.VmDefs VM.VmExec VM.RefSem VM.C02Proofs VM.SimDefs VM.SimProofs VM.SimBlock VM.SimCtl VM.SimRun VM.SimExit.
Import ListNotations.
Local Open Scope string_scope.
Local Open Scope list_scope.

Inductive zprog : sstate -> rvalue -> list stmt -> rvalue -> sstate -> Prop :=
| ZPNil s reg : zprog s reg [] reg s
| ZPLast s reg st reg1 s1 : zstmt s reg st reg1 s1 -> zprog s reg [st] reg1 s1
| ZPCons s reg st reg1 s1 st2 rest reg' s' :
    zstmt s reg st reg1 s1 -> zprog s1 RNone (st2 :: rest) reg' s' -> zprog s reg (st :: st2 :: rest) reg' s'.

(* such a program is a block of the relation that runs to its end *)
Lemma zprog_zblock s reg b reg' s' : zprog s reg b reg' s' -> zblock s reg b (BNorm reg') s'.
Proof. induction 1; [apply ZBNil|apply ZBLast; assumption|eapply ZBCons; eassumption]. Qed.

Theorem zprog_ref s reg b reg' s' : zprog s reg b reg' s' ->
  exists f0, forall f, f0 <= f -> eval_block f s b reg = (ONormal reg', s').
Proof. intros H. exact (proj1 (proj2 (proj2 (proj2 ref_runs_z))) s reg b (BNorm reg') s' (zprog_zblock _ _ _ _ _ H)). Qed.

(* the machine runs it, wherever its code stands in the frame *)
Theorem zprog_vm : forall s reg b reg' s', zprog s reg b reg' s' -> BlockRuns s reg (compile_block b) reg' s'.
Proof.
  induction 1 as [s reg|s reg st reg1 s1 HS|s reg st reg1 s1 st2 rest0 reg' s' HS HB IHb]; intros r c f rest below pre post A FR EC EP.
  - exists r, c, f, rest. split; [apply StepsRefl|]. split; [exact A|]. split; [apply moved_refl|]. split; [cbn; lia|apply kept_all_refl].
  - unfold compile_block in *. cbn [compile_block_from app] in *. rewrite app_nil_r in *.
    exact (proj1 (proj2 (proj2 vm_runs_z)) s reg st reg1 s1 HS r c f rest below pre post A FR EC EP).
  - pose proof (proj1 (proj2 (proj2 vm_runs_z)) s reg st reg1 s1 HS) as IHs.
    unfold compile_block in *. rewrite compile_block_from_cons in *. cbn [app] in *.
    rewrite compile_block_from_cons in EC. cbn [app] in EC. rewrite <- app_assoc in EC. cbn [app] in EC.
    destruct (IHs r c f rest below pre _ A FR EC EP) as (r1 & c1 & f1 & rest1 & S1 & A1 & MV1 & P1 & K1).
    assert (EC1 : f_code f1 = (pre ++ compile_stmt st) ++ IEnd :: compile_stmt st2 ++ compile_block_from false rest0 ++ post).
    { rewrite (moved_code _ _ MV1), EC, <- !app_assoc. reflexivity. }
    assert (EP1 : f_pos f1 = length (pre ++ compile_stmt st)) by (rewrite app_length, P1, EP; reflexivity).
    destruct (end_run s1 reg1 r1 c1 f1 rest1 below _ _ A1 EC1 EP1) as (r2 & c2 & S2 & A2 & FR2).
    set (f2 := set_pos f1 (S (f_pos f1))) in *.
    destruct (IHb r2 c2 f2 rest1 below (pre ++ compile_stmt st ++ [IEnd]) post A2 FR2) as (r3 & c3 & f3 & rest3 & S3 & A3 & MV3 & P3 & K3).
    { cbn [f2 set_pos f_code]. rewrite EC1. try rewrite compile_block_from_cons. cbn [app]. rewrite <- !app_assoc. cbn [app]. reflexivity. }
    { cbn [f2 set_pos f_pos]. rewrite EP1, !app_length. cbn. lia. }
    exists r3, c3, f3, rest3. split; [eapply steps_trans; [exact S1|eapply steps_trans; [exact S2|exact S3]]|].
    split; [exact A3|]. split.
    { eapply moved_trans; [exact MV1|]. eapply moved_trans; [apply (moved_set_pos f1 (S (f_pos f1)))|exact MV3]. }
    split; [|eapply kept_all_trans; eassumption].
    rewrite P3. cbn [f2 set_pos f_pos]. rewrite P1. try rewrite compile_block_from_cons. cbn [app].
    rewrite !app_length. cbn [length]. rewrite ?app_length. lia.
Qed.

(* a whole program in the root frame *)
Theorem program_run_z s p reg s' r c f :
  zprog s RNone p reg s' ->
  AtM s RNone r c f [] [] -> f_code f = compile_block p -> f_pos f = 0 -> f_exit f = None ->
  exists rf cf,
    Steps r rf /\ cur rf = Some cf /\ c_frames cf = [] /\
    c_values cf = match reg with RNone => [] | v => [cv v] end /\
    r_nss rf = mnss (st_nss s') /\
    do_iter rf = Ok (Return REmpty rf) /\
    forall fuel n x r', execute_do fuel r n = Ok (x, r') ->
      (x = REmpty /\ r' = rf) \/ (x = ROk /\ Steps r r' /\ Steps r' rf).
Proof.
  intros HB A EC EP EX.
  assert (FR : Fresh c []).
  { destruct A as (_ & _ & top & EV & RR). left. destruct top as [|x t]; [rewrite EV; reflexivity|]. destruct RR as (_ & N & _). exfalso. apply N. reflexivity. }
  destruct (zprog_vm s RNone p reg s' HB r c f [] [] [] [] A FR) as (r1 & c1 & f1 & rest1 & S1 & A1 & MV & P1 & K1).
  { cbn. rewrite app_nil_r. exact EC. } { exact EP. }
  inversion K1; subst. destruct A1 as ((G1 & EF1 & (F1 & N1) & B1 & D1) & LB1 & top & EV1 & RR).
  destruct (complete_root r1 c1 f1 top [] G1 EF1) as [S2 T].
  { rewrite P1, EP, (moved_code _ _ MV), EC. reflexivity. }
  { rewrite (moved_exit _ _ MV). exact EX. }
  { exact EV1. } { exact LB1. }
  set (c4 := set_values (set_frames c1 []) (match top with [] => [] | x :: _ => [x] end)) in *.
  exists (upd_cur r1 c4), c4. split; [eapply steps_trans; eassumption|].
  destruct G1 as (C1 & _). split; [eapply cur_upd_cur; exact C1|]. split; [reflexivity|]. split.
  { cbn. destruct top as [|x top]; cbn in RR.
    - rewrite RR. reflexivity.
    - destruct RR as (-> & NN & _). destruct reg; try reflexivity. exfalso. apply NN. reflexivity. }
  split; [rewrite nss_upd_cur; exact N1|]. split; [exact T|].
  intros fuel n x r' H.
  destruct (execute_do_follows r (upd_cur r1 c4) (steps_trans _ _ _ S1 S2) fuel n x r' H) as [(f2 & n2 & _ & _ & E)|Q]; [|right; exact Q].
  destruct f2 as [|f2]; [discriminate E|]. cbn [execute_do] in E.
  destruct (r_exit_req (upd_cur r1 c4)) eqn:XR.
  { exfalso. unfold do_iter in T. rewrite XR in T. inversion T. }
  destruct n2 as [|n2].
  - inversion E; subst. right. split; [reflexivity|]. split; [eapply steps_trans; eassumption|apply StepsRefl].
  - rewrite T in E. cbn [bindr] in E. inversion E; subst. left. split; reflexivity.
Qed.
