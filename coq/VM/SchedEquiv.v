(* With both switches off, the functions of SchedDefs.v are the shared ones of VmDefs.v / VmExec.v (the ghost
   counters and visit logs erased; an empty restart, which SchedDefs counts separately, is an `Executed`
   iteration of the shared do_iter): the extension describes the same code. *)
From Coq Require Import String Ascii ZArith List Bool Lia Arith.
From SqfVerif Require Import Gen.DiagCodes VM.VmDefs VM.VmExec VM.SchedDefs.
Import ListNotations.
Local Open Scope list_scope.

Opaque frame_fuel exec_fuel.

Definition map_res {A B} (f:A->B) (x:res A) : res B :=
  match x with Ok a => Ok (f a) | Unsupported w => Unsupported w | Hang w => Hang w | UB w => UB w end.
Definition lift_f (x:fres) : fres2 := match x with FDone => F2Done | FOk => F2Ok | FRestarted => F2Restarted end.
Definition erase_iter (x:iter2) : iter :=
  match x with Continue2 r => Continue r | Executed2 r => Executed r | Restarted2 r => Executed r | Return2 x r => Return x r end.
Definition erase_pass (p:passres2) : passres :=
  match p with PassDone2 x r _ => PassDone x r | PassExit2 x r _ => PassExit x r end.

Lemma frame_next2_shared fuel : forall r c,
  frame_next2 false fuel r c = map_res (fun '(f, r, c) => (lift_f f, r, c)) (frame_next fuel r c).
Proof.
  induction fuel; intros r c; cbn [frame_next2 frame_next map_res]; auto.
  destruct (c_frames c) as [|f rest]; auto.
  destruct (at_end f); [|destruct (at_end (set_pos f (S (f_pos f))))];
  (match goal with |- context [f_exit ?x] => destruct (f_exit x) as [bh|] end; auto);
  (match goal with |- context [if ?x then _ else _] => destruct x end; auto);
  (match goal with |- context [enact ?a ?b0 ?c0] => destruct (enact a b0 c0) as [[[[br b'] r2] c2]| | |] end; cbn [bindr map_res]; auto);
  destruct br; cbn [negb andb map_res lift_f]; auto;
  match goal with |- context [top_code_empty ?x] => destruct (top_code_empty x) end; auto.
Qed.

Lemma do_iter2_shared r : map_res erase_iter (do_iter2 false r) = do_iter r.
Proof.
  unfold do_iter2, do_iter. destruct (r_exit_req r); auto.
  destruct (cur r) as [c|]; auto. destruct (c_suspended c); auto. destruct (c_frames c) eqn:Fr; auto.
  destruct (r_state r); auto.
  rewrite frame_next2_shared. destruct (frame_next frame_fuel r c) as [[[fr r1] c1]| | |]; cbn [bindr map_res]; auto.
  destruct (r_err r1).
  { destruct (on_error (upd_cur r1 c1)) as [[rec r2]| | |]; cbn [bindr map_res]; auto. destruct rec; auto. }
  unfold deadline_test, abort_run.
  destruct fr; cbn [lift_f].
  - destruct (Nat.eqb _ _); auto.
    destruct (current_instr c1); auto.
    destruct (Z.eqb (r_max_runtime r1) 0).
    + destruct (exec_instr i r1 c1) as [[r3 c5]| | |]; cbn [bindr map_res]; auto.
      destruct (negb (r_err (upd_cur r3 c5))); auto.
      destruct (on_error (upd_cur r3 c5)) as [[rec r5]| | |]; cbn [bindr map_res]; auto. destruct rec; auto.
    + unfold now. destruct (Z.ltb _ _); auto.
      match goal with |- context [exec_instr i ?a c1] => destruct (exec_instr i a c1) as [[r3 c5]| | |] end; cbn [bindr map_res]; auto.
      destruct (negb (r_err (upd_cur r3 c5))); auto.
      destruct (on_error (upd_cur r3 c5)) as [[rec r5]| | |]; cbn [bindr map_res]; auto. destruct rec; auto.
  - destruct (current_instr c1); auto.
    destruct (Z.eqb (r_max_runtime r1) 0).
    + destruct (exec_instr i r1 c1) as [[r3 c5]| | |]; cbn [bindr map_res]; auto.
      destruct (negb (r_err (upd_cur r3 c5))); auto.
      destruct (on_error (upd_cur r3 c5)) as [[rec r5]| | |]; cbn [bindr map_res]; auto. destruct rec; auto.
    + unfold now. destruct (Z.ltb _ _); auto.
      match goal with |- context [exec_instr i ?a c1] => destruct (exec_instr i a c1) as [[r3 c5]| | |] end; cbn [bindr map_res]; auto.
      destruct (negb (r_err (upd_cur r3 c5))); auto.
      destruct (on_error (upd_cur r3 c5)) as [[rec r5]| | |]; cbn [bindr map_res]; auto. destruct rec; auto.
  - destruct (Z.eqb (r_max_runtime r1) 0); auto.
    unfold now. destruct (Z.ltb _ _); auto.
Qed.

Lemma execute_do2_shared fuel : forall r n ki kr,
  map_res (fun '(x, r, _) => (x, r)) (execute_do2 false fuel r n ki kr) = execute_do fuel r n.
Proof.
  induction fuel; intros r n ki kr; cbn [execute_do2 execute_do map_res]; auto.
  destruct (r_exit_req r); auto. destruct n; auto.
  rewrite <- do_iter2_shared. destruct (do_iter2 false r) as [it| | |]; cbn [bindr map_res]; auto.
  destruct it; cbn [erase_iter]; auto.
Qed.

Lemma visit_ctx_shared r i :
  map_res (fun '(x, r, _) => (x, r)) (visit_ctx false false r i) =
  (let r00 := set_active r (Some i) in
   match cur r00 with
   | None => UB "context index"
   | Some c00 =>
     let c := if c_terminate c00 then set_suspended (set_values (set_frames c00 []) []) false (c_wakeup c00) else c00 in
     let r0 := upd_cur r00 c in
     let run := fun (r1:rt) => execute_do exec_fuel r1 (r_slice r1) in
     if c_suspended c then
       let (t, r1) := now r0 in
       if Z.leb (c_wakeup c) t then run (upd_cur r1 (set_suspended c false (c_wakeup c)))
       else
         let '(expired, r2) :=
           if Z.eqb (r_max_runtime r1) 0 then (false, r1)
           else let (t', r') := now r1 in (Z.ltb (r_max_runtime r1 + r_run_ts r1) t', r') in
         if expired then
           Ok (RRuntimeError, set_msgs (set_errflag (set_exit_req (logmsg r2 d_MaximumRuntimeReached) true) false) [])
         else Ok (ROk, r2)
     else run r0 end).
Proof.
  unfold visit_ctx. cbv zeta. destruct (cur (set_active r (Some i))) as [c00|]; auto.
  set (c := if c_terminate c00 then _ else c00).
  assert (Run : forall r1, map_res (fun '(x, r, _) => (x, r))
            (bindr (execute_do2 false exec_fuel r1 (r_slice r1) 0 0)
               (fun '(x, r2, (ki, kr)) => Ok (x, r2, {| v_id := c_id c; v_entered := true; v_instr := ki; v_restarts := kr; v_result := x |})))
            = execute_do exec_fuel r1 (r_slice r1)).
  { intro r1. rewrite <- (execute_do2_shared exec_fuel r1 (r_slice r1) 0 0).
    destruct (execute_do2 false exec_fuel r1 (r_slice r1) 0 0) as [[[x r2] [ki kr]]| | |]; auto. }
  destruct (c_suspended c); [|apply Run].
  unfold now. destruct (Z.leb _ _); [apply Run|].
  unfold deadline_test, abort_run, now. cbn [r_max_runtime set_clock rt_with].
  destruct (Z.eqb _ 0); [reflexivity|]. destruct (Z.ltb _ _); reflexivity.
Qed.

Lemma start_pass2_shared fuel : forall r i x log,
  map_res erase_pass (start_pass2 false false fuel r i x log) = start_pass fuel r i x.
Proof.
  induction fuel; intros r i x log; cbn [start_pass2 start_pass map_res]; auto.
  destruct (Nat.leb _ _); auto.
  pose proof (visit_ctx_shared r i) as V. cbv zeta in V.
  destruct (cur (set_active r (Some i))) as [c00|] eqn:Cu.
  2:{ unfold visit_ctx. rewrite Cu. reflexivity. }
  cbv zeta. rewrite <- V. clear V.
  destruct (visit_ctx false false r i) as [[[x1 r2] v]| | |]; cbn [bindr map_res]; auto.
  destruct (r_exit_req r2); auto.
  destruct x1; auto.
  match goal with |- context [r_ctxs ?a] => destruct (r_ctxs a) end; auto.
Qed.

Lemma start_loop2_shared fuel : forall r x ps,
  map_res (fun '(x, r, _) => (x, r)) (start_loop2 false false fuel r x ps) = start_loop fuel r x.
Proof.
  induction fuel; intros r x ps; cbn [start_loop2 start_loop map_res]; auto.
  destruct (r_ctxs r); auto.
  rewrite <- (start_pass2_shared exec_fuel r 0 x []).
  destruct (start_pass2 false false exec_fuel r 0 x []) as [p| | |]; cbn [bindr map_res]; auto.
  destruct p; cbn [erase_pass]; auto.
Qed.

Theorem execute_sw_shared a r :
  map_res (fun '(x, r, _) => (x, r)) (execute_sw false false a r) = execute a r.
Proof.
  destruct a; cbn [execute_sw execute].
  - destruct (r_run r); auto.
    rewrite <- start_loop2_shared with (ps := []).
    match goal with |- context [start_loop2 false false exec_fuel ?a ?b ?c] => destruct (start_loop2 false false exec_fuel a b c) as [[[x r1] ps]| | |] end; cbn [bindr map_res]; auto.
  - destruct (r_state r); destruct (r_run r); reflexivity.
  - destruct (r_state r); destruct (r_run r); reflexivity.
  - destruct (r_run r); auto.
    match goal with |- context [execute_do exec_fuel ?a 1] => rewrite <- (execute_do2_shared exec_fuel a 1 0 0);
      destruct (execute_do2 false exec_fuel a 1 0 0) as [[[x r1] [ki kr]]| | |] end; cbn [bindr map_res]; auto.
  - reflexivity.
  - reflexivity.
Qed.

(* a machine that carries neither switch: the extension is the shared model *)
Theorem extension_is_shared_model a r :
  defect r sw_restart = false -> defect r sw_idle = false ->
  map_res (fun '(x, r, _) => (x, r)) (execute2 a r) = execute a r.
Proof. intros H1 H2. unfold execute2. rewrite H1, H2. apply execute_sw_shared. Qed.
