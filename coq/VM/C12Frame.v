(* C12 - isolation, part 2: frame transformers commute with instructions, exit behaviours, frame::next, error
   handling, one execute_do iteration, a slice and a scheduler turn of a script that does not look at them. *)
From Coq Require Import String Ascii ZArith List Bool Lia Arith.
From SqfVerif Require Import Gen.DiagCodes Gen.Overloads VM.VmDefs VM.VmExec VM.SchedDefs VM.SchedOps VM.SchedBase VM.SchedIter VM.C12FrameOps.
Import ListNotations.
Local Open Scope list_scope.
Opaque frame_fuel exec_fuel.

(* what one instruction may touch, given the operands on the stack: globals inside the footprints, no look at
   other scripts *)
Definition instr_ok (R W:list key) (ins:instr) (c:context) : bool :=
  match ins with
  | IGet n => if is_local n then true else match c_frames c with f :: _ => kin (f_ns f, lower n) R | [] => true end
  | IAssign n =>
      match pop_value c with
      | Some (_, c1) => if String.eqb n "" then true else if is_local n then true
                        else match c_frames c1 with f :: _ => kin (f_ns f, lower n) W | [] => true end
      | None => true end
  | IUnary n => match pop_value c with Some (v, c1) => uop_ok R (lower n) v c1 | None => true end
  | IBinary n =>
      match pop_value c with
      | Some (v, c1) => match pop_value c1 with Some (l, c2) => bop_ok R W (lower n) l v | None => true end
      | None => true end
  | _ => true end.

Definition map_ex (f:rt -> rt) (x:res (rt * context)) : res (rt * context) :=
  match x with Ok (r, c) => Ok (f r, c) | Unsupported w => Unsupported w | Hang w => Hang w | UB w => UB w end.

Ltac ex_leaf := cbn [map_ex map_op bindr]; rewrite ?app_logmsg, ?app_mark, ?app_set_clock; try reflexivity.

Lemma app_exec_instr T i R W ins r c : tr_ok T i R W -> instr_ok R W ins c = true ->
  exec_instr ins (app T r) c = map_ex (app T) (exec_instr ins r c).
Proof.
  intros OK H. destruct ins; cbn [exec_instr instr_ok] in *.
  - reflexivity.
  - destruct (is_local n).
    + destruct (get_variable c n); ex_leaf.
    + destruct (c_frames c); [reflexivity|]. erewrite app_ns_get by eauto. destruct (ns_get r _ n); ex_leaf.
  - destruct (pop_value c) as [[v c1]|]; [|ex_leaf].
    assert (L : (match v with VNil => logmsg (app T r) d_AssigningNilValue | _ => app T r end) =
                app T (match v with VNil => logmsg r d_AssigningNilValue | _ => r end)) by (destruct v; ex_leaf).
    rewrite L. destruct (String.eqb n ""); [reflexivity|]. destruct (is_local n); [reflexivity|].
    destruct (c_frames c1); [reflexivity|]. erewrite app_ns_set by eauto. reflexivity.
  - destruct (pop_value c) as [[v c1]|]; destruct (String.eqb n ""); try reflexivity; ex_leaf.
    destruct v; ex_leaf.
  - rewrite app_op_nular. destruct (op_nular (lower n) r c) as [[[r1 c1] v1]| | |]; cbn [map_op bindr map_ex]; try reflexivity.
    destruct (has_nular _); reflexivity.
  - destruct (pop_value c) as [[v c1]|]; [|ex_leaf].
    destruct v; ex_leaf;
    (erewrite app_op_unary by eauto;
     match goal with |- context [op_unary ?a ?b r ?d] => destruct (op_unary a b r d) as [[[rr1 cc2] yy]| | |] end;
     cbn [map_op bindr map_ex]; try reflexivity; destruct (has_unary _ _); ex_leaf).
  - destruct (pop_value c) as [[v c1]|]; [|ex_leaf].
    destruct v; ex_leaf;
    (destruct (pop_value c1) as [[lft cc2]|]; [|ex_leaf]);
    destruct lft; ex_leaf;
    (erewrite app_op_binary by eauto;
     match goal with |- context [op_binary ?a ?b ?e r ?d] => destruct (op_binary a b e r d) as [[[rr1 cc3] yy]| | |] end;
     cbn [map_op bindr map_ex]; try reflexivity; destruct (has_binary _ _ _); ex_leaf).
  - destruct (pop_args n c []) as [[vals c1] ok]. destruct ok; ex_leaf.
  - reflexivity.
Qed.

Definition map_en (f:rt -> rt) (x:res (bresult * behavior * rt * context)) : res (bresult * behavior * rt * context) :=
  match x with Ok (a, b, r, c) => Ok (a, b, f r, c) | Unsupported w => Unsupported w | Hang w => Hang w | UB w => UB w end.

Ltac app_split2 :=
  repeat match goal with
         | |- context [match ?x with _ => _ end] =>
             lazymatch x with
             | context [app] => fail
             | context [match _ with _ => _ end] => fail
             | _ => destruct x eqn:?; cbv beta iota
             end
         end.
Ltac en_leaf := cbn [map_en]; rewrite ?app_logmsg, ?app_mark, ?app_set_clock, ?app_logmsg; try reflexivity.

Lemma app_enact T b r c : enact b (app T r) c = map_en (app T) (enact b r c).
Proof.
  destruct b; cbn [enact]; unfold exit_value_missing; app_norm; app_split2; en_leaf.
Qed.

Definition map_fn (f:rt -> rt) (x:res (fres2 * rt * context)) : res (fres2 * rt * context) :=
  match x with Ok (a, r, c) => Ok (a, f r, c) | Unsupported w => Unsupported w | Hang w => Hang w | UB w => UB w end.

Lemma app_frame_next2 T b fuel : forall r c, frame_next2 b fuel (app T r) c = map_fn (app T) (frame_next2 b fuel r c).
Proof.
  induction fuel; intros r c; cbn [frame_next2 map_fn]; auto.
  destruct (c_frames c) as [|f rest]; auto.
  destruct (at_end f); [|destruct (at_end (set_pos f (S (f_pos f))))];
  (match goal with |- context [f_exit ?x] => destruct (f_exit x) as [bh|] end; auto);
  (match goal with |- context [if ?x then _ else _] => destruct x end; auto);
  rewrite app_enact;
  (match goal with |- context [enact ?a r ?c0] => destruct (enact a r c0) as [[[[br b'] r2] c2]| | |] end; cbn [bindr map_en map_fn]; auto);
  destruct br; auto;
  match goal with |- context [if ?x then _ else _] => destruct x end; auto.
Qed.

Lemma list_upd_comm {A} (l:list A) : forall i j x y, i <> j -> list_upd (list_upd l i x) j y = list_upd (list_upd l j y) i x.
Proof. induction l; intros [|i] [|j] x y H; cbn; auto; try congruence. f_equal. apply IHl. congruence. Qed.

Lemma app_cur T i R W r : tr_ok T i R W -> r_active r = Some i -> cur (app T r) = cur r.
Proof. intros OK Ha. unfold cur. cbn [r_active app r_ctxs]. rewrite Ha. apply (tk_nth _ _ _ _ OK). Qed.
Lemma app_upd_cur T i R W r c : tr_ok T i R W -> r_active r = Some i -> upd_cur (app T r) c = app T (upd_cur r c).
Proof.
  intros OK Ha. unfold upd_cur. cbn [r_active app]. rewrite Ha. unfold app, set_ctxs. cbn.
  rewrite (tk_upd _ _ _ _ OK). reflexivity.
Qed.

Definition map_he (f:rt -> rt) (x:res (bool * rt * context)) := map_err f x.
Lemma app_handle_error T fuel : forall r c msgs skip,
  handle_error fuel (app T r) c msgs skip = map_err (app T) (handle_error fuel r c msgs skip).
Proof.
  induction fuel; intros r c msgs skip; cbn [handle_error map_err]; auto.
  destruct (find_handler _ _); auto.
  rewrite app_err_enact.
  match goal with |- context [err_enact r ?a ?k] => destruct (err_enact r a k) as [[[failed r3] c3]| | |] end; cbn [bindr map_err]; auto.
  destruct failed; auto.
Qed.

Definition map_oe (f:rt -> rt) (x:res (bool * rt)) : res (bool * rt) :=
  match x with Ok (b, r) => Ok (b, f r) | Unsupported w => Unsupported w | Hang w => Hang w | UB w => UB w end.
Lemma app_on_error T i R W r : tr_ok T i R W -> r_active r = Some i -> on_error (app T r) = map_oe (app T) (on_error r).
Proof.
  intros OK Ha. unfold on_error. cbn [r_msgs app]. rewrite app_set_msgs.
  rewrite (app_cur T i R W) by auto. destruct (cur (set_msgs r [])) as [c|]; auto.
  rewrite app_handle_error.
  match goal with |- context [handle_error ?f (set_msgs r []) ?a ?m ?s] => destruct (handle_error f (set_msgs r []) a m s) as [[[rec r2] c2]| | |] eqn:HE end;
    cbn [bindr map_err map_oe]; auto.
  apply handle_error_shape in HE. destruct HE as [-> _].
  rewrite (app_upd_cur T i R W) by auto.
  destruct rec; cbn [map_oe]; rewrite <- ?app_logmsg, <- ?app_set_errflag; reflexivity.
Qed.

Lemma app_deadline_test T r : deadline_test (app T r) = (fst (deadline_test r), app T (snd (deadline_test r))).
Proof. unfold deadline_test, now. cbn [r_max_runtime r_clock r_tick r_run_ts app]. destruct (Z.eqb _ 0); reflexivity. Qed.
Lemma app_abort_run T r : abort_run (app T r) = app T (abort_run r).
Proof. unfold abort_run. rewrite app_logmsg, app_set_exit_req, app_set_errflag, app_set_msgs. reflexivity. Qed.

Definition map_it (f:rt -> rt) (x:res iter2) : res iter2 :=
  match x with
  | Ok (Continue2 r) => Ok (Continue2 (f r)) | Ok (Executed2 r) => Ok (Executed2 (f r))
  | Ok (Restarted2 r) => Ok (Restarted2 (f r)) | Ok (Return2 x r) => Ok (Return2 x (f r))
  | Unsupported w => Unsupported w | Hang w => Hang w | UB w => UB w end.

(* the instruction that the next iteration of execute_do is going to execute (if any) stays inside the footprints *)
Definition iter_ok (b:bool) (R W:list key) (r:rt) : bool :=
  match cur r with
  | None => true
  | Some c =>
    match frame_next2 b frame_fuel r c with
    | Ok (fr, r1, c1) =>
        if r_err r1 then true else
        match fr with
        | F2Restarted => true
        | F2Done => if Nat.eqb (length (c_frames c1)) (length (c_frames c)) then true
                    else match current_instr c1 with Some ins => instr_ok R W ins c1 | None => true end
        | F2Ok => match current_instr c1 with Some ins => instr_ok R W ins c1 | None => true end
        end
    | _ => true end
  end.

Lemma app_do_iter2 T i R W b r : tr_ok T i R W -> r_active r = Some i -> iter_ok b R W r = true ->
  do_iter2 b (app T r) = map_it (app T) (do_iter2 b r).
Proof.
  intros OK Ha H. unfold do_iter2, iter_ok in *. cbn [r_exit_req r_state app].
  destruct (r_exit_req r); [reflexivity|].
  rewrite (app_cur T i R W) by auto. destruct (cur r) as [c|]; [|reflexivity].
  destruct (c_suspended c); [reflexivity|]. destruct (c_frames c) eqn:Fr; [reflexivity|].
  destruct (r_state r); try reflexivity.
  rewrite app_frame_next2.
  destruct (frame_next2 b frame_fuel r c) as [[[fr r1] c1]| | |] eqn:FN; cbn [bindr map_fn map_it]; try reflexivity.
  destruct (frame_next2_shape _ _ _ _ _ _ _ FN) as [R1 _].
  assert (Ha1 : r_active r1 = Some i) by (rewrite (reach_active _ _ R1); auto).
  cbn [r_err app]. destruct (r_err r1).
  { rewrite (app_upd_cur T i R W) by auto.
    rewrite (app_on_error T i R W) by (auto; rewrite upd_cur_active; auto).
    destruct (on_error (upd_cur r1 c1)) as [[rec r2]| | |]; cbn [bindr map_oe map_it]; try reflexivity. destruct rec; reflexivity. }
  assert (Exec : forall ins, instr_ok R W ins c1 = true ->
     (let '(expired, r2) := deadline_test (app T r1) in
      if expired then Ok (Return2 RRuntimeError (abort_run (upd_cur r2 c1)))
      else bindr (exec_instr ins r2 c1) (fun '(r3, c5) =>
             let r4 := upd_cur r3 c5 in
             if negb (r_err r4) then Ok (Executed2 (set_msgs r4 []))
             else bindr (on_error r4) (fun '(recovered, r5) => if recovered then Ok (Executed2 r5) else Ok (Return2 RRuntimeError r5)))) =
     map_it (app T)
     (let '(expired, r2) := deadline_test r1 in
      if expired then Ok (Return2 RRuntimeError (abort_run (upd_cur r2 c1)))
      else bindr (exec_instr ins r2 c1) (fun '(r3, c5) =>
             let r4 := upd_cur r3 c5 in
             if negb (r_err r4) then Ok (Executed2 (set_msgs r4 []))
             else bindr (on_error r4) (fun '(recovered, r5) => if recovered then Ok (Executed2 r5) else Ok (Return2 RRuntimeError r5))))).
  { intros ins IO. rewrite app_deadline_test. destruct (deadline_test r1) as [exp r2] eqn:DT. cbn [fst snd].
    assert (Ha2 : r_active r2 = Some i) by (rewrite (reach_active _ _ (deadline_test_reach _ _ _ DT)); auto).
    destruct exp.
    - rewrite (app_upd_cur T i R W) by auto. rewrite app_abort_run. reflexivity.
    - rewrite (app_exec_instr T i R W) by auto.
      destruct (exec_instr ins r2 c1) as [[r3 c5]| | |] eqn:EI; cbn [bindr map_ex map_it]; try reflexivity.
      destruct (exec_instr_shape _ _ _ _ _ EI) as [R3 _].
      assert (Ha3 : r_active r3 = Some i) by (rewrite (reach_active _ _ R3); auto).
      rewrite (app_upd_cur T i R W) by auto. cbn [r_err app].
      destruct (negb (r_err (upd_cur r3 c5))); [rewrite app_set_msgs; reflexivity|].
      rewrite (app_on_error T i R W) by (auto; rewrite upd_cur_active; auto).
      destruct (on_error (upd_cur r3 c5)) as [[rec r5]| | |]; cbn [bindr map_oe map_it]; try reflexivity. destruct rec; reflexivity. }
  destruct fr.
  - destruct (Nat.eqb _ _).
    + rewrite (app_upd_cur T i R W) by auto. reflexivity.
    + destruct (current_instr c1); [|reflexivity]. apply Exec; auto.
  - destruct (current_instr c1); [|reflexivity]. apply Exec; auto.
  - rewrite app_deadline_test. destruct (deadline_test r1) as [exp r2] eqn:DT. cbn [fst snd].
    assert (Ha2 : r_active r2 = Some i) by (rewrite (reach_active _ _ (deadline_test_reach _ _ _ DT)); auto).
    rewrite (app_upd_cur T i R W) by auto. destruct exp; [rewrite app_abort_run|]; reflexivity.
Qed.

(* ------------------------------------------------------------------ a slice *)
(* every instruction the slice executes stays inside the footprints (the check runs the slice) *)
Fixpoint slice_ok (b:bool) (R W:list key) (fuel:nat) (r:rt) (n:nat) : bool :=
  match fuel with O => true | S fuel' =>
    if r_exit_req r then true else
    match n with
    | O => true
    | S ea =>
      andb (iter_ok b R W r)
        match do_iter2 b r with
        | Ok (Continue2 r1) => slice_ok b R W fuel' r1 n
        | Ok (Executed2 r1) => slice_ok b R W fuel' r1 ea
        | Ok (Restarted2 r1) => slice_ok b R W fuel' r1 ea
        | _ => true end
    end end.

Definition map_sl (f:rt -> rt) (x:res (rresult * rt * (nat * nat))) : res (rresult * rt * (nat * nat)) :=
  match x with Ok (a, r, k) => Ok (a, f r, k) | Unsupported w => Unsupported w | Hang w => Hang w | UB w => UB w end.

Lemma app_execute_do2 T i R W b fuel : tr_ok T i R W -> forall r n ki kr,
  r_active r = Some i -> i < length (r_ctxs r) -> slice_ok b R W fuel r n = true ->
  execute_do2 b fuel (app T r) n ki kr = map_sl (app T) (execute_do2 b fuel r n ki kr).
Proof.
  intro OK. induction fuel; intros r n ki kr Ha Hi H; cbn [execute_do2 slice_ok map_sl] in *; auto.
  cbn [r_exit_req app]. destruct (r_exit_req r); [reflexivity|]. destruct n; [reflexivity|].
  apply andb_prop in H. destruct H as [H1 H2].
  rewrite (app_do_iter2 T i R W) by auto.
  destruct (nth_error (r_ctxs r) i) as [c|] eqn:Hc; [|apply nth_error_None in Hc; lia].
  destruct (do_iter2 b r) as [it| | |] eqn:DI; cbn [bindr map_it]; try reflexivity.
  pose proof (iter_spec_dstep _ _ _ _ _ (do_iter2_spec _ _ _ _ _ DI Ha Hc) Ha Hc) as D.
  assert (Ha1 : r_active (rt_of it) = Some i) by (rewrite (ds_active _ _ _ D); auto).
  assert (Hi1 : i < length (r_ctxs (rt_of it))) by (pose proof (dstep_len _ _ _ D); lia).
  destruct it; cbn [rt_of map_it bindr] in *; auto.
Qed.

(* ------------------------------------------------------------------ a scheduler turn *)
Definition visit_ok (b1:bool) (R W:list key) (r:rt) (i:nat) : bool :=
  match nth_error (r_ctxs r) i with
  | None => true
  | Some c00 =>
    let c := prepared c00 in
    let r0 := handed r i c00 in
    if c_suspended c then
      if Z.leb (c_wakeup c) (r_clock r0 + r_tick r0) then
        let rs := upd_cur (set_clock r0 (r_clock r0 + r_tick r0)%Z) (set_suspended c false (c_wakeup c)) in
        slice_ok b1 R W exec_fuel rs (r_slice rs)
      else true
    else slice_ok b1 R W exec_fuel r0 (r_slice r0)
  end.

Definition map_v (f:rt -> rt) (x:res (rresult * rt * visit)) : res (rresult * rt * visit) :=
  match x with Ok (a, r, k) => Ok (a, f r, k) | Unsupported w => Unsupported w | Hang w => Hang w | UB w => UB w end.

Lemma app_visit_ctx T i R W b1 b2 r : tr_ok T i R W -> i < length (r_ctxs r) -> visit_ok b1 R W r i = true ->
  visit_ctx b1 b2 (app T r) i = map_v (app T) (visit_ctx b1 b2 r i).
Proof.
  intros OK Hi H. unfold visit_ctx, visit_ok in *. rewrite app_set_active.
  rewrite (app_cur T i R W) by auto.
  destruct (nth_error (r_ctxs r) i) as [c00|] eqn:Hc; [|apply nth_error_None in Hc; lia].
  assert (Hcur : cur (set_active r (Some i)) = Some c00) by (unfold cur; cbn; auto). rewrite Hcur.
  fold (prepared c00). cbv zeta in H. unfold handed in H.
  rewrite (app_upd_cur T i R W) by auto.
  set (r0 := upd_cur (set_active r (Some i)) (prepared c00)) in *.
  assert (Ha0 : r_active r0 = Some i) by (unfold r0; rewrite upd_cur_active; reflexivity).
  assert (Hi0 : i < length (r_ctxs r0)) by (unfold r0, upd_cur; cbn; rewrite list_upd_length; auto).
  assert (Run : forall rs, r_active rs = Some i -> i < length (r_ctxs rs) -> slice_ok b1 R W exec_fuel rs (r_slice rs) = true ->
     bindr (execute_do2 b1 exec_fuel (app T rs) (r_slice (app T rs)) 0 0)
       (fun '(x, r2, (ki, kr)) => Ok (x, r2, {| v_id := c_id (prepared c00); v_entered := true; v_instr := ki; v_restarts := kr; v_result := x |})) =
     map_v (app T) (bindr (execute_do2 b1 exec_fuel rs (r_slice rs) 0 0)
       (fun '(x, r2, (ki, kr)) => Ok (x, r2, {| v_id := c_id (prepared c00); v_entered := true; v_instr := ki; v_restarts := kr; v_result := x |})))).
  { intros rs A L S. cbn [r_slice app]. rewrite (app_execute_do2 T i R W) by auto.
    destruct (execute_do2 b1 exec_fuel rs (r_slice rs) 0 0) as [[[x r2] [ki kr]]| | |]; reflexivity. }
  destruct (c_suspended (prepared c00)).
  - unfold now. cbn [r_clock r_tick app].
    destruct (Z.leb _ _).
    + rewrite app_set_clock. rewrite (app_upd_cur T i R W) by auto.
      match goal with |- context [execute_do2 b1 exec_fuel (app T ?rs)] =>
        assert (A : r_active rs = Some i) by (rewrite upd_cur_active; exact Ha0);
        assert (L : i < length (r_ctxs rs)) by (unfold upd_cur; cbn [r_active set_clock rt_with]; rewrite Ha0; cbn [r_ctxs set_ctxs set_clock rt_with]; rewrite list_upd_length; exact Hi0)
      end.
      apply Run; auto.
    + rewrite app_set_clock. destruct b2; [reflexivity|].
      rewrite app_deadline_test. destruct (deadline_test _) as [exp r2]. cbn [fst snd].
      destruct exp; [rewrite app_abort_run|]; reflexivity.
  - apply Run; auto.
Qed.

(* ------------------------------------------------------------------ the footprint check does not see such a change either *)
Lemma iter_ok_app T i R W b r : tr_ok T i R W -> r_active r = Some i -> iter_ok b R W (app T r) = iter_ok b R W r.
Proof.
  intros OK Ha. unfold iter_ok. rewrite (app_cur T i R W) by auto. destruct (cur r) as [c|]; auto.
  rewrite app_frame_next2. destruct (frame_next2 b frame_fuel r c) as [[[fr r1] c1]| | |]; reflexivity.
Qed.

Lemma slice_ok_app T i R W b fuel : tr_ok T i R W -> forall r n,
  r_active r = Some i -> i < length (r_ctxs r) -> slice_ok b R W fuel (app T r) n = slice_ok b R W fuel r n.
Proof.
  intro OK. induction fuel; intros r n Ha Hi; cbn [slice_ok]; auto.
  cbn [r_exit_req app]. destruct (r_exit_req r); auto. destruct n; auto.
  rewrite (iter_ok_app T i R W) by auto. destruct (iter_ok b R W r) eqn:IO; cbn [andb]; auto.
  rewrite (app_do_iter2 T i R W) by auto.
  destruct (nth_error (r_ctxs r) i) as [c|] eqn:Hc; [|apply nth_error_None in Hc; lia].
  destruct (do_iter2 b r) as [it| | |] eqn:DI; cbn [map_it]; auto.
  pose proof (iter_spec_dstep _ _ _ _ _ (do_iter2_spec _ _ _ _ _ DI Ha Hc) Ha Hc) as D.
  assert (Ha1 : r_active (rt_of it) = Some i) by (rewrite (ds_active _ _ _ D); auto).
  assert (Hi1 : i < length (r_ctxs (rt_of it))) by (pose proof (dstep_len _ _ _ D); lia).
  destruct it; cbn [rt_of map_it] in *; auto.
Qed.

Lemma visit_ok_app T i R W b1 r : tr_ok T i R W -> i < length (r_ctxs r) -> visit_ok b1 R W (app T r) i = visit_ok b1 R W r i.
Proof.
  intros OK Hi. unfold visit_ok.
  assert (N : nth_error (r_ctxs (app T r)) i = nth_error (r_ctxs r) i) by (cbn [r_ctxs app]; apply (tk_nth _ _ _ _ OK)).
  rewrite N. destruct (nth_error (r_ctxs r) i) as [c00|] eqn:Hc; [|reflexivity]. cbv zeta.
  unfold handed. rewrite app_set_active, (app_upd_cur T i R W) by auto.
  set (r0 := upd_cur (set_active r (Some i)) (prepared c00)).
  assert (Ha0 : r_active r0 = Some i) by (unfold r0; rewrite upd_cur_active; reflexivity).
  assert (Hi0 : i < length (r_ctxs r0)) by (unfold r0, upd_cur; cbn; rewrite list_upd_length; auto).
  cbn [r_clock r_tick r_slice app].
  destruct (c_suspended (prepared c00)).
  - destruct (Z.leb _ _); [|reflexivity].
    rewrite app_set_clock, (app_upd_cur T i R W) by auto.
    match goal with |- slice_ok b1 R W exec_fuel (app T ?rs) _ = _ =>
      assert (A : r_active rs = Some i) by (rewrite upd_cur_active; exact Ha0);
      assert (L : i < length (r_ctxs rs)) by (unfold upd_cur; cbn [r_active set_clock rt_with]; rewrite Ha0; cbn [r_ctxs set_ctxs set_clock rt_with]; rewrite list_upd_length; exact Hi0)
    end.
    cbn [r_slice app]. apply (slice_ok_app T i R W); assumption.
  - apply (slice_ok_app T i R W); assumption.
Qed.
Lemma visit_ok_active b1 R W r a i : visit_ok b1 R W (set_active r a) i = visit_ok b1 R W r i.
Proof.
  unfold visit_ok, handed. cbn [r_ctxs set_active rt_with].
  replace (set_active (set_active r a) (Some i)) with (set_active r (Some i)) by reflexivity. reflexivity.
Qed.
