(* C12 - isolation with turns that CREATE globals, part 3: the turns of two scripts with disjoint footprints commute up to
   the order of the entries of the namespaces (req), each may create new globals; whole rounds in any order. *)
From Coq Require Import String Ascii ZArith List Bool Lia Arith Permutation.
From SqfVerif Require Import Gen.DiagCodes Gen.Overloads VM.VmDefs VM.VmExec VM.SchedDefs VM.SchedOps VM.SchedBase VM.SchedIter VM.C12FrameOps VM.C12Frame VM.C12Commute VM.C12NsEq VM.C12Globals.
Import ListNotations.
Local Open Scope list_scope.
Opaque frame_fuel exec_fuel.

(* ------------------------------------------------------------------ req is a congruence for a scheduler turn *)
(* Equivalent machines take equivalent turns: same result, same visit record, same log, same contexts. Stated for a turn
   with ANY footprint (R, W): the turn may read, assign and create whatever globals it likes, (R, W) only have to list them;
   visit_ok additionally excludes spawn / terminate / scriptDone (they do not touch the namespaces; not lifted). *)
Theorem req_turn_congruence b1 b2 R W r r' i x r1 v :
  req r r' -> i < length (r_ctxs r) -> visit_ok b1 R W r i = true ->
  visit_ctx b1 b2 r i = Ok (x, r1, v) ->
  exists r1', visit_ctx b1 b2 r' i = Ok (x, r1', v) /\ req r1 r1'.
Proof.
  intros [E N] Hi OK V.
  assert (Er : r' = app (cst (r_nss r')) r).
  { rewrite <- (app_cst_self r') at 1. unfold app, cst. cbn.
    assert (F0 : r_ctxs r = r_ctxs r') by exact (f_equal r_ctxs E).
    assert (F1 : r_state r = r_state r') by exact (f_equal r_state E).
    assert (F2 : r_exit_req r = r_exit_req r') by exact (f_equal r_exit_req E).
    assert (F3 : r_halt_req r = r_halt_req r') by exact (f_equal r_halt_req E).
    assert (F4 : r_run r = r_run r') by exact (f_equal r_run E).
    assert (F5 : r_err r = r_err r') by exact (f_equal r_err E).
    assert (F6 : r_msgs r = r_msgs r') by exact (f_equal r_msgs E).
    assert (F7 : r_active r = r_active r') by exact (f_equal r_active E).
    assert (F8 : r_clock r = r_clock r') by exact (f_equal r_clock E).
    assert (F9 : r_tick r = r_tick r') by exact (f_equal r_tick E).
    assert (F10 : r_timestamp r = r_timestamp r') by exact (f_equal r_timestamp E).
    assert (F11 : r_run_ts r = r_run_ts r') by exact (f_equal r_run_ts E).
    assert (F12 : r_max_runtime r = r_max_runtime r') by exact (f_equal r_max_runtime E).
    assert (F13 : r_max_loop r = r_max_loop r') by exact (f_equal r_max_loop E).
    assert (F14 : r_slice r = r_slice r') by exact (f_equal r_slice E).
    assert (F15 : r_next_id r = r_next_id r') by exact (f_equal r_next_id E).
    assert (F16 : r_defects r = r_defects r') by exact (f_equal r_defects E).
    assert (F17 : r_out r = r_out r') by exact (f_equal r_out E).
    rewrite F0, F1, F2, F3, F4, F5, F6, F7, F8, F9, F10, F11, F12, F13, F14, F15, F16, F17. reflexivity. }
  pose proof (turn_up_to_order (fun a => a) R W i b1 b2 r (r_nss r') (sem_ok_id R W) (nss_eq_sym _ _ N) Hi OK) as H.
  rewrite V in H. cbn [rres_v] in H. destruct H as (a1 & H & RL).
  exists (app (cst a1) r1). split; [rewrite Er; exact H|].
  split.
  - unfold app, cst, set_nss, rt_with. cbn. rewrite app_nil_r. reflexivity.
  - cbn [r_nss app cst t_nss]. apply nss_eq_sym. exact RL.
Qed.

(* ------------------------------------------------------------------ the effect of a turn *)
(* on the other scripts and the log: an exact frame transformer that leaves the namespaces alone *)
Definition effx (i:nat) (ri:rt) : tr :=
  {| t_ctx := match nth_error (r_ctxs ri) i with Some c => fun l => list_upd l i c | None => fun l => l end;
     t_out := r_out ri; t_nss := fun a => a |}.
Lemma effx_ok i j rj R W : i <> j -> tr_ok (effx j rj) i R W.
Proof.
  intros Ne. unfold effx. split; cbn; auto.
  - intro l. destruct (nth_error (r_ctxs rj) j); auto. apply list_upd_nth_other. auto.
  - intros l c. destruct (nth_error (r_ctxs rj) j); auto. apply list_upd_comm. auto.
  - intro l. destruct (nth_error (r_ctxs rj) j); auto. apply list_upd_length.
Qed.

(* the machine after a quiet turn = the machine before, with the script's context, its log lines and the namespaces replaced *)
Lemma turn_as_trx b1 b2 R W r i x ri v a :
  visit_ctx b1 b2 r i = Ok (x, ri, v) -> i < length (r_ctxs r) -> visit_ok b1 R W r i = true ->
  r_out r = [] -> r_tick r = 0%Z -> quiet r ri ->
  set_active ri a = set_active (app (cst (r_nss ri)) (app (effx i ri) r)) a.
Proof.
  intros V Hi OK O0 T0 [Q1 Q2 Q3 Q4].
  destruct (nth_error (r_ctxs r) i) as [c00|] eqn:Hc; [|apply nth_error_None in Hc; lia].
  destruct (visit_ctx_shape _ _ _ _ _ _ _ _ V Hc) as (_ & _ & Sh).
  pose proof (visit_shape_vstep _ _ _ _ _ _ _ _ Sh Hc) as [C A2 A3 A4 A5 [k A6] Ev].
  unfold rcfg in C.
  assert (Len : length (r_ctxs ri) = length (r_ctxs r)).
  { destruct Ev as (l1 & sp & E & F & (Le & Fr & _) & _). rewrite E, app_length, <- (Forall2_len _ _ _ F).
    destruct sp as [|s sp]; [cbn; lia|]. inversion Fr; subst. rewrite Q4 in *. lia. }
  destruct (nth_error (r_ctxs ri) i) as [ci|] eqn:Hci; [|apply nth_error_None in Hci; lia].
  assert (Cx : r_ctxs ri = list_upd (r_ctxs r) i ci).
  { apply nth_error_ext; [rewrite list_upd_length; auto|]. intro k0.
    destruct (Nat.eq_dec k0 i) as [->|Ne].
    - rewrite Hci, list_upd_nth_same; auto.
    - rewrite list_upd_nth_other by auto.
      destruct (nth_error (r_ctxs r) k0) as [ck|] eqn:Hk.
      + eapply turn_leaves_others; eauto.
      + apply nth_error_None in Hk. apply nth_error_None. lia. }
  rewrite (rt_eta ri) at 1. unfold set_active, rt_with, app, effx, cst. cbn. rewrite Hci.
  rewrite Cx, Q1, Q2, Q3, Q4, A2, A3, A4, A6, T0, O0. cbn [List.app]. rewrite app_nil_r.
  replace (r_clock r + Z.of_nat k * 0)%Z with (r_clock r) by lia.
  f_equal; congruence.
Qed.

(* ------------------------------------------------------------------ independence with creation *)
(* the turn changed the namespaces only at keys of W - by new values for existing variables or by NEW variables; up to the
   order of entries its namespaces are those before the turn with its final values at W written over them *)
Definition nss_effect_c (W:list key) (r ri:rt) : Prop := nss_eq (r_nss ri) (wr W (r_nss ri) (r_nss r)).

Record solo_turn_c (b1 b2:bool) (r:rt) (i:nat) (R W:list key) (xi:rresult) (ri:rt) (vi:visit) : Prop := {
  sc_run : visit_ctx b1 b2 r i = Ok (xi, ri, vi);
  sc_idx : i < length (r_ctxs r);
  sc_ok : visit_ok b1 R W r i = true;
  sc_quiet : quiet r ri;
  sc_nss : nss_effect_c W r ri }.

(* the old notion (existing variables only) is a special case *)
Lemma ov_wr_get W src a ns n : raw_get (ov W src a) ns n =
  match raw_get a ns n with Some v => Some (ov1 W src ns n v) | None => None end.
Proof.
  unfold raw_get at 1, ov. rewrite assoc_mapv. unfold raw_get. destruct (assoc ns a) as [m|]; cbn; auto.
  rewrite assoc_mapv. destruct (assoc n m); reflexivity.
Qed.

Lemma visit_ctx_act b1 b2 r a i : visit_ctx b1 b2 (set_active r a) i = visit_ctx b1 b2 r i.
Proof. reflexivity. Qed.

Lemma shared_split m m' a a' : set_nss (shared_state m) [] = set_nss (shared_state m') [] -> nss_eq a a' ->
  req (shared_state (app (cst a) m)) (shared_state (app (cst a') m')).
Proof. intros E N. split; [exact E|exact N]. Qed.

(* the turn of i after the turn of j *)
Lemma turn_after_turn b1 b2 r i j Ri Wi Rj Wj xi ri vi xj rj vj :
  i <> j -> r_out r = [] -> r_tick r = 0%Z ->
  solo_turn_c b1 b2 r i Ri Wi xi ri vi -> solo_turn_c b1 b2 r j Rj Wj xj rj vj ->
  disjoint Ri Wj = true -> disjoint Wi Wj = true ->
  exists a1, visit_ctx b1 b2 rj i = Ok (xi, app (cst a1) (app (effx j rj) ri), vi) /\
             nss_eq a1 (wr Wj (r_nss rj) (r_nss ri)).
Proof.
  intros Ne O0 T0 [Vi Hi OKi Qi Ni] [Vj Hj OKj Qj Nj] D1 D2.
  pose proof (turn_as_trx b1 b2 Rj Wj r j xj rj vj None Vj Hj OKj O0 T0 Qj) as Ej.
  assert (Tj : tr_ok (effx j rj) i Ri Wi) by (apply effx_ok; auto).
  set (Y := app (effx j rj) r) in *.
  assert (HiY : i < length (r_ctxs Y)) by (unfold Y; cbn [r_ctxs app]; rewrite (tk_len _ _ _ _ Tj); exact Hi).
  assert (OKY : visit_ok b1 Ri Wi Y i = true) by (unfold Y; rewrite (visit_ok_app _ i Ri Wi) by auto; exact OKi).
  assert (RL : relN (wr Wj (r_nss rj)) Y (r_nss rj)) by exact Nj.
  pose proof (turn_up_to_order (wr Wj (r_nss rj)) Ri Wi i b1 b2 Y (r_nss rj) (sem_ok_wr Wj _ Ri Wi D1 D2) RL HiY OKY) as H.
  unfold Y in H at 2. rewrite (app_visit_ctx (effx j rj) i Ri Wi b1 b2 r Tj Hi OKi) in H. rewrite Vi in H. cbn [map_v rres_v] in H.
  destruct H as (a1 & H & RL1). exists a1. split.
  - rewrite <- (visit_ctx_act b1 b2 rj None i), Ej, visit_ctx_act. exact H.
  - exact RL1.
Qed.

Theorem independent_turns_commute_c b1 b2 r i j Ri Wi Rj Wj xi ri vi xj rj vj :
  i <> j -> r_out r = [] -> r_tick r = 0%Z ->
  solo_turn_c b1 b2 r i Ri Wi xi ri vi -> solo_turn_c b1 b2 r j Rj Wj xj rj vj ->
  independent Ri Wi Rj Wj = true ->
  exists m1 m2,
    visit_ctx b1 b2 rj i = Ok (xi, m1, vi) /\      (* j then i: i does exactly what it does alone *)
    visit_ctx b1 b2 ri j = Ok (xj, m2, vj) /\      (* i then j: j does exactly what it does alone *)
    req (shared_state m1) (shared_state m2) /\
    r_out m1 = r_out ri ++ r_out rj /\ r_out m2 = r_out rj ++ r_out ri.
Proof.
  intros Ne O0 T0 Si Sj Ind.
  destruct (independent_parts _ _ _ _ Ind) as (D1 & D2 & D3).
  destruct (turn_after_turn b1 b2 r i j Ri Wi Rj Wj xi ri vi xj rj vj Ne O0 T0 Si Sj D1 D2) as (a1 & V1 & N1).
  destruct (turn_after_turn b1 b2 r j i Rj Wj Ri Wi xj rj vj xi ri vi (fun E => Ne (eq_sym E)) O0 T0 Sj Si D3 (disjoint_sym _ _ D2)) as (a2 & V2 & N2).
  destruct Si as [Vi Hi OKi Qi Ni]. destruct Sj as [Vj Hj OKj Qj Nj].
  pose proof (turn_as_trx b1 b2 Ri Wi r i xi ri vi None Vi Hi OKi O0 T0 Qi) as Ei.
  pose proof (turn_as_trx b1 b2 Rj Wj r j xj rj vj None Vj Hj OKj O0 T0 Qj) as Ej.
  eexists. eexists. split; [exact V1|]. split; [exact V2|]. split; [|split].
  - apply shared_split.
    + unfold shared_state. rewrite !app_set_active, Ei, Ej, <- !app_set_active.
      change (set_nss (set_out (set_active (app (effx j rj) (app (effx i ri) r)) None) []) [] =
              set_nss (set_out (set_active (app (effx i ri) (app (effx j rj) r)) None) []) []).
      unfold app, set_out, set_active, set_nss, rt_with, effx.
      cbn [t_ctx t_out t_nss r_ctxs r_active r_state r_exit_req r_halt_req r_run r_err r_msgs r_out r_nss r_clock r_tick
           r_timestamp r_run_ts r_max_runtime r_max_loop r_slice r_next_id r_defects].
      destruct (nth_error (r_ctxs ri) i) as [ci|]; destruct (nth_error (r_ctxs rj) j) as [cj|]; try reflexivity.
      rewrite (list_upd_comm _ i j) by auto. reflexivity.
    + unfold nss_effect_c in Ni, Nj.
      eapply nss_eq_trans; [exact N1|].
      eapply nss_eq_trans; [apply wr_cong; exact Ni|].
      eapply nss_eq_trans; [apply wr_comm; apply disjoint_sym; exact D2|].
      eapply nss_eq_trans; [apply wr_cong; apply nss_eq_sym; exact Nj|].
      apply nss_eq_sym. exact N2.
  - cbn [r_out app cst effx t_out]. rewrite app_nil_r. reflexivity.
  - cbn [r_out app cst effx t_out]. rewrite app_nil_r. reflexivity.
Qed.

(* ------------------------------------------------------------------ whole rounds *)
Definition solo_c (b1 b2:bool) (r:rt) (u:turn) : Prop := solo_turn_c b1 b2 r (u_idx u) (u_R u) (u_W u) (u_x u) (u_r u) (u_v u).
Definition effx_of (u:turn) : tr := effx (u_idx u) (u_r u).
Definition effxs (T:tr) (us:list turn) : tr := fold_left (fun T u => comp T (effx_of u)) us T.
(* the writes of the turns of a list, replayed (the first turn of the list outermost) *)
Fixpoint wrl (us:list turn) (a:list (string * list (string * value))) :=
  match us with [] => a | u :: us' => wr (u_W u) (r_nss (u_r u)) (wrl us' a) end.

Lemma cst_absorb a b T Z : app (cst a) (app T (app (cst b) Z)) = app (cst a) (app T Z).
Proof.
  destruct Z, T. unfold app, cst. cbn. rewrite !app_nil_r. reflexivity.
Qed.

Lemma runs_c b1 b2 r : r_out r = [] -> r_tick r = 0%Z -> forall us T Gd aM M,
  set_active M None = set_active (app (cst aM) (app T r)) None ->
  (forall a, t_nss T a = a) -> nss_eq aM (Gd (r_nss r)) ->
  Forall (solo_c b1 b2 r) us -> all_independent us ->
  (forall u, In u us -> tr_ok T (u_idx u) (u_R u) (u_W u) /\ sem_ok Gd (u_R u) (u_W u)) ->
  exists m aF, runs b1 b2 M us m /\ set_active m None = set_active (app (cst aF) (app (effxs T us) r)) None /\
               nss_eq aF (Gd (wrl us (r_nss r))).
Proof.
  intros O0 T0. induction us as [|u us IH]; intros T Gd aM M EM Tid NM So [Nd In] OKT.
  - exists M, aM. split; [constructor|]. split; [exact EM|exact NM].
  - inversion So as [|? ? Su Sus]; subst. destruct Su as [Vu Hu OKu Qu Nu].
    pose proof (turn_as_trx b1 b2 _ _ r _ _ _ _ None Vu Hu OKu O0 T0 Qu) as Eu.
    destruct (OKT u (or_introl eq_refl)) as [OKTu GOKu].
    set (Y := app T r) in *.
    assert (HuY : u_idx u < length (r_ctxs Y)) by (unfold Y; cbn [r_ctxs app]; rewrite (tk_len _ _ _ _ OKTu); exact Hu).
    assert (OKY : visit_ok b1 (u_R u) (u_W u) Y (u_idx u) = true) by (unfold Y; rewrite (visit_ok_app _ _ (u_R u) (u_W u)) by auto; exact OKu).
    assert (RL : relN Gd Y aM) by (unfold relN, Y; cbn [r_nss app]; rewrite Tid; exact NM).
    pose proof (turn_up_to_order Gd (u_R u) (u_W u) (u_idx u) b1 b2 Y aM GOKu RL HuY OKY) as H.
    unfold Y in H at 2. rewrite (app_visit_ctx T (u_idx u) (u_R u) (u_W u) b1 b2 r OKTu Hu OKu) in H. rewrite Vu in H. cbn [map_v rres_v] in H.
    destruct H as (a1 & H & RL1).
    assert (V : visit_ctx b1 b2 M (u_idx u) = Ok (u_x u, app (cst a1) (app T (u_r u)), u_v u)).
    { rewrite <- (visit_ctx_act b1 b2 M None), EM, visit_ctx_act. exact H. }
    inversion Nd as [|? ? Nu1 Nd']; subst.
    destruct (IH (comp T (effx_of u)) (fun a => Gd (wr (u_W u) (r_nss (u_r u)) a)) a1 (app (cst a1) (app T (u_r u)))) as (m & aF & Rm & Em & NF).
    + rewrite <- app_comp. rewrite !app_set_active. unfold effx_of. rewrite Eu. rewrite <- !app_set_active.
      rewrite cst_absorb. reflexivity.
    + intro a. cbn. apply Tid.
    + unfold relN in RL1. cbn [r_nss app] in RL1. rewrite Tid in RL1.
      eapply nss_eq_trans; [exact RL1|]. apply (so_cong _ _ _ GOKu). exact Nu.
    + exact Sus.
    + split; auto. intros a b Ia Ib. apply In; right; auto.
    + intros w Iw. destruct (OKT w (or_intror Iw)) as [OKTw GOKw].
      assert (Ne : u_idx w <> u_idx u).
      { intro E. apply Nu1. rewrite <- E. apply in_map. auto. }
      destruct (independent_parts _ _ _ _ (In u w (or_introl eq_refl) (or_intror Iw) (fun E => Ne (eq_sym E)))) as (D1 & D2 & D3).
      split.
      * apply comp_ok; [exact OKTw|]. apply effx_ok. exact Ne.
      * apply (sem_ok_comp Gd (wr (u_W u) (r_nss (u_r u)))); [exact GOKw|]. apply sem_ok_wr; auto using disjoint_sym.
    + exists m, aF. split; [exact (runs_cons b1 b2 M u _ us m V Rm)|]. split; [exact Em|exact NF].
Qed.

(* the exact part of the effects: the same as in C12Commute.v up to the namespaces *)
Lemma nss_blind T y : set_nss (app T y) [] = set_nss (app T (set_nss y [])) [].
Proof. reflexivity. Qed.
Lemma effxs_effs us : forall T T', (forall x, set_nss (app T x) [] = set_nss (app T' x) []) ->
  forall x, set_nss (app (effxs T us) x) [] = set_nss (app (effs T' us) x) [].
Proof.
  induction us as [|u us IH]; intros T T' H x; cbn; [apply H|].
  apply IH. intro y. rewrite <- !app_comp. rewrite H. rewrite (nss_blind T'). symmetry. rewrite (nss_blind T'). reflexivity.
Qed.

Lemma all_independent_perm us us' : Permutation us us' -> all_independent us -> all_independent us'.
Proof.
  intros P [Nd In]. split.
  - eapply Permutation_NoDup; [apply Permutation_map; eassumption|exact Nd].
  - intros a b Ia Ib. apply In; eapply Permutation_in; try eassumption; apply Permutation_sym; assumption.
Qed.

Lemma wrl_cong us a b : nss_eq a b -> nss_eq (wrl us a) (wrl us b).
Proof. intro H. induction us; cbn [wrl]; auto using wr_cong. Qed.
Lemma wrl_perm us us' : Permutation us us' -> all_independent us -> forall a, nss_eq (wrl us a) (wrl us' a).
Proof.
  induction 1; intros AI a.
  - apply nss_eq_refl.
  - cbn [wrl]. apply wr_cong. apply IHPermutation. destruct AI as [Nd In]. inversion Nd; subst. split; auto. intros p q Ip Iq. apply In; right; auto.
  - cbn [wrl]. destruct AI as [Nd In]. inversion Nd as [|? ? N1 N2]; subst.
    assert (Ne : u_idx x <> u_idx y) by (intro E; apply N1; rewrite <- E; left; reflexivity).
    destruct (independent_parts _ _ _ _ (In x y (or_intror (or_introl eq_refl)) (or_introl eq_refl) Ne)) as (_ & D & _).
    apply wr_comm. apply disjoint_sym. exact D.
  - eapply nss_eq_trans; [apply IHPermutation1; auto|]. apply IHPermutation2. eapply all_independent_perm; eauto.
Qed.

(* A round of pairwise independent turns - each may create globals - can be taken in any order: every order is possible, every
   script does in it exactly what it does alone, and the final machines agree, up to the order of namespace entries, on
   everything but the order of the log lines and r_active. *)
Theorem round_order_irrelevant_c b1 b2 r us us' :
  r_out r = [] -> r_tick r = 0%Z ->
  Forall (solo_c b1 b2 r) us -> all_independent us -> Permutation us us' ->
  exists m m', runs b1 b2 r us m /\ runs b1 b2 r us' m' /\ req (shared_state m) (shared_state m').
Proof.
  intros O0 T0 So AI P.
  assert (AI' : all_independent us') by (eapply all_independent_perm; eauto).
  assert (So' : Forall (solo_c b1 b2 r) us') by (eapply Permutation_Forall; eauto).
  assert (E0 : set_active r None = set_active (app (cst (r_nss r)) (app tr_none r)) None) by (rewrite app_tr_none, app_cst_self; reflexivity).
  destruct (runs_c b1 b2 r O0 T0 us tr_none (fun a => a) (r_nss r) r E0 (fun a => eq_refl) (nss_eq_refl _) So AI
              (fun u _ => conj (tr_none_ok _ _ _) (sem_ok_id _ _))) as (m & aF & Rm & Em & NF).
  destruct (runs_c b1 b2 r O0 T0 us' tr_none (fun a => a) (r_nss r) r E0 (fun a => eq_refl) (nss_eq_refl _) So' AI'
              (fun u _ => conj (tr_none_ok _ _ _) (sem_ok_id _ _))) as (m' & aF' & Rm' & Em' & NF').
  exists m, m'. split; [exact Rm|]. split; [exact Rm'|].
  rewrite (shared_state_active _ _ Em), (shared_state_active _ _ Em'). apply shared_split.
  - change (set_nss (shared_state (app (effxs tr_none us) r)) []) with (shared_state (set_nss (app (effxs tr_none us) r) [])).
    change (set_nss (shared_state (app (effxs tr_none us') r)) []) with (shared_state (set_nss (app (effxs tr_none us') r) [])).
    rewrite (effxs_effs us tr_none tr_none (fun x => eq_refl)), (effxs_effs us' tr_none tr_none (fun x => eq_refl)).
    change (set_nss (shared_state (app (effs tr_none us) r)) [] = set_nss (shared_state (app (effs tr_none us') r)) []).
    rewrite (effs_perm us us' P AI tr_none r). reflexivity.
  - eapply nss_eq_trans; [exact NF|]. eapply nss_eq_trans; [apply (wrl_perm us us' P AI)|]. apply nss_eq_sym. exact NF'.
Qed.

(* ------------------------------------------------------------------ non-vacuity *)
Local Open Scope string_scope.
Set Warnings "-abstract-large-number".
(* two spawned scripts `ga = 1; diag_log ga` and `gb = 2; diag_log gb` on a machine without any global: each CREATES its
   variable (and whoever runs first creates the namespace) *)
Definition cr_script (g:string) (k:Z) : code :=
  compile_block [SAssign g (ENum k); SExpr (EUnary "diag_log" (EVar g))].
Definition cr_machine : rt :=
  set_state (set_next_id (set_ctxs (init_rt [] 0 0 10000 150)
     [ex_ctx 0 (cr_script "ga" 1); ex_ctx 1 (cr_script "gb" 2)]) 2) StRunning.
Definition cr_turn (i:nat) : rresult * rt * visit :=
  match visit_ctx false false cr_machine i with
  | Ok p => p
  | _ => (RInvalid, cr_machine, {| v_id := 0; v_entered := false; v_instr := 0; v_restarts := 0; v_result := RInvalid |}) end.
Lemma cr_solo_a : solo_turn_c false false cr_machine 0 ex_Ka ex_Ka (fst (fst (cr_turn 0))) (snd (fst (cr_turn 0))) (snd (cr_turn 0)).
Proof.
  split; [vm_compute; reflexivity | vm_compute; repeat constructor | vm_compute; reflexivity
         | split; vm_compute; reflexivity | ].
  unfold nss_effect_c.
  assert (E : wr ex_Ka (r_nss (snd (fst (cr_turn 0)))) (r_nss cr_machine) = r_nss (snd (fst (cr_turn 0)))) by (vm_compute; reflexivity).
  rewrite E. apply nss_eq_refl.
Qed.
Lemma cr_solo_b : solo_turn_c false false cr_machine 1 ex_Kb ex_Kb (fst (fst (cr_turn 1))) (snd (fst (cr_turn 1))) (snd (cr_turn 1)).
Proof.
  split; [vm_compute; reflexivity | vm_compute; repeat constructor | vm_compute; reflexivity
         | split; vm_compute; reflexivity | ].
  unfold nss_effect_c.
  assert (E : wr ex_Kb (r_nss (snd (fst (cr_turn 1)))) (r_nss cr_machine) = r_nss (snd (fst (cr_turn 1)))) by (vm_compute; reflexivity).
  rewrite E. apply nss_eq_refl.
Qed.
(* the hypotheses hold; no global exists before; both turns log, both create their global; the two orders end with namespaces
   that differ (in the order of their entries), so the theorem of C12Commute.v does not apply to this pair *)
Definition cr_both (i j:nat) : list (string * list (string * value)) :=
  match visit_ctx false false (snd (fst (cr_turn i))) j with Ok (_, m, _) => r_nss m | _ => [] end.
Example cr_facts :
  independent ex_Ka ex_Ka ex_Kb ex_Kb = true /\ r_out cr_machine = [] /\ r_tick cr_machine = 0%Z /\ r_nss cr_machine = [] /\
  r_out (snd (fst (cr_turn 0))) <> [] /\ r_out (snd (fst (cr_turn 1))) <> [] /\
  r_nss (snd (fst (cr_turn 0))) = [(default_ns, [("ga", VNum 1)])] /\
  r_nss (snd (fst (cr_turn 1))) = [(default_ns, [("gb", VNum 2)])] /\
  cr_both 0 1 = [(default_ns, [("ga", VNum 1); ("gb", VNum 2)])] /\
  cr_both 1 0 = [(default_ns, [("gb", VNum 2); ("ga", VNum 1)])].
Proof. repeat split; vm_compute; try reflexivity; discriminate. Qed.

Definition cr_ta : turn := {| u_idx := 0; u_R := ex_Ka; u_W := ex_Ka; u_x := fst (fst (cr_turn 0)); u_r := snd (fst (cr_turn 0)); u_v := snd (cr_turn 0) |}.
Definition cr_tb : turn := {| u_idx := 1; u_R := ex_Kb; u_W := ex_Kb; u_x := fst (fst (cr_turn 1)); u_r := snd (fst (cr_turn 1)); u_v := snd (cr_turn 1) |}.
Example cr_round : Forall (solo_c false false cr_machine) [cr_ta; cr_tb] /\ all_independent [cr_ta; cr_tb].
Proof.
  split.
  - constructor; [exact cr_solo_a|]. constructor; [exact cr_solo_b|]. constructor.
  - split.
    + cbn [map u_idx cr_ta cr_tb]. constructor; [intros [H|[]]; discriminate|]. constructor; [intros []|constructor].
    + intros u w [<-|[<-|[]]] [<-|[<-|[]]] Ne; cbn [u_idx u_R u_W cr_ta cr_tb] in *;
        try (exfalso; apply Ne; reflexivity); reflexivity.
Qed.
