(* C03 - variable scoping.  Theorems about the executable VM model (VmDefs.v / VmExec.v):
   dynamic lookup of locals, plain assignment, the current-scope binders, what disappears when a
   scope ends or a loop iterates, spawn, globals and the namespace selected by with-do. *)
From Coq Require Import String Ascii.
From Coq Require Import ZArith List Bool Lia.
From SqfVerif Require Import Gen.DiagCodes Gen.Overloads VM.VmDefs VM.VmExec VM.C03Defs.
Import ListNotations.
Local Open Scope string_scope.
Local Open Scope list_scope.

Opaque frame_fuel exec_fuel waituntil_cap.

(* ================================================================ association lists, names *)
Lemma assoc_set_same {A} k (v:A) : forall l, assoc k (assoc_set k v l) = Some v.
Proof.
  induction l as [|[k' v'] l IH]; cbn.
  - now rewrite String.eqb_refl.
  - destruct (String.eqb k k') eqn:E; cbn.
    + now rewrite String.eqb_refl.
    + now rewrite E.
Qed.

Lemma assoc_set_other {A} k k' (v:A) : k' <> k -> forall l, assoc k' (assoc_set k v l) = assoc k' l.
Proof.
  intros N. induction l as [|[k2 v2] l IH]; cbn.
  - apply String.eqb_neq in N. now rewrite N.
  - destruct (String.eqb k k2) eqn:E; cbn.
    + apply String.eqb_eq in E; subst k2. apply String.eqb_neq in N. now rewrite N.
    + destruct (String.eqb k' k2); [reflexivity|exact IH].
Qed.

Lemma lower_ascii_idem c : lower_ascii (lower_ascii c) = lower_ascii c.
Proof. destruct c as [[] [] [] [] [] [] [] []]; reflexivity. Qed.
Lemma lower_idem s : lower (lower s) = lower s.
Proof. induction s as [|c s IH]; cbn; [reflexivity|]. now rewrite lower_ascii_idem, IH. Qed.

Lemma is_local_nonempty n : is_local n = true -> n <> "".
Proof. destruct n; [discriminate|intros _ H; discriminate]. Qed.

(* ================================================================ record plumbing *)
Lemma pop_value_inv c v c1 : pop_value c = Some (v, c1) ->
  exists vs f rest, c_values c = v :: vs /\ c_frames c = f :: rest /\ c1 = set_values c vs.
Proof.
  unfold pop_value. destruct (c_values c) as [|x vs]; [discriminate|].
  destruct (c_frames c) as [|f rest]; [discriminate|].
  destruct (Nat.leb _ _); [discriminate|]. intros H; inversion H; subst. eauto 6.
Qed.

Lemma frames_clear_values c : c_frames (clear_values c) = c_frames c.
Proof. unfold clear_values. destruct (c_frames c) eqn:E; cbn; auto. Qed.
Lemma frames_restart_with c vars f rest : c_frames c = f :: rest ->
  c_frames (restart_with c vars) = set_vars f vars :: rest.
Proof. intros E. unfold restart_with, upd_top. rewrite frames_clear_values, E. reflexivity. Qed.
Lemma frames_upd_top c g f rest : c_frames c = f :: rest -> c_frames (upd_top c g) = g f :: rest.
Proof. intros E. unfold upd_top. now rewrite E. Qed.

Lemma nss_logmsg r d : r_nss (logmsg r d) = r_nss r.
Proof. unfold logmsg. destruct (Z.leb (fst d) 1); reflexivity. Qed.
Lemma ctxs_logmsg r d : r_ctxs (logmsg r d) = r_ctxs r.
Proof. unfold logmsg. destruct (Z.leb (fst d) 1); reflexivity. Qed.
Lemma active_logmsg r d : r_active (logmsg r d) = r_active r.
Proof. unfold logmsg. destruct (Z.leb (fst d) 1); reflexivity. Qed.

Lemma same_store_refl r : same_store r r. Proof. repeat split. Qed.
Lemma same_store_logmsg r d : same_store r (logmsg r d).
Proof. repeat split; [apply nss_logmsg|apply ctxs_logmsg|apply active_logmsg]. Qed.
Lemma same_store_trans a b c : same_store a b -> same_store b c -> same_store a c.
Proof. unfold same_store. intros (A1 & A2 & A3) (B1 & B2 & B3). repeat split; congruence. Qed.


(* ================================================================ 1. lookup of a local *)
Lemma lookup_frames_some k v : forall fs,
  lookup_frames k fs = Some v <->
  exists pre f post, fs = pre ++ f :: post /\ Forall (passes k) pre /\ assoc k (f_vars f) = Some v.
Proof.
  induction fs as [|g fs IH]; cbn.
  - split; [discriminate|]. intros (pre & f & post & E & _). destruct pre; discriminate.
  - destruct (assoc k (f_vars g)) as [x|] eqn:A.
    + split.
      * intros H; inversion H; subst. exists [], g, fs. repeat split; auto.
      * intros (pre & f & post & E & P & S). destruct pre as [|p pre]; cbn in E; inversion E; subst.
        -- congruence.
        -- inversion P as [|? ? [P1 _] _]; subst. congruence.
    + destruct (f_bubble g) eqn:Bu.
      * rewrite IH. split.
        -- intros (pre & f & post & E & P & S). exists (g :: pre), f, post. subst. repeat split; auto.
           constructor; [split; assumption|assumption].
        -- intros (pre & f & post & E & P & S). destruct pre as [|p pre]; cbn in E; inversion E; subst.
           ++ congruence.
           ++ inversion P; subst. eauto 6.
      * split; [discriminate|]. intros (pre & f & post & E & P & S).
        destruct pre as [|p pre]; cbn in E; inversion E; subst.
        -- congruence.
        -- inversion P as [|? ? [_ P2] _]; subst. congruence.
Qed.

Lemma lookup_frames_none k : forall fs,
  lookup_frames k fs = None <->
  (Forall (passes k) fs \/
   exists pre f post, fs = pre ++ f :: post /\ Forall (passes k) pre /\ lacks k f /\ f_bubble f = false).
Proof.
  unfold lacks. induction fs as [|g fs IH]; cbn.
  - split; auto.
  - destruct (assoc k (f_vars g)) as [x|] eqn:A.
    + split; [discriminate|]. intros [F|(pre & f & post & E & P & L & Bu)].
      * inversion F as [|? ? [F1 _] _]; subst. congruence.
      * destruct pre as [|p pre]; cbn in E; inversion E; subst; [congruence|].
        inversion P as [|? ? [P1 _] _]; subst. congruence.
    + destruct (f_bubble g) eqn:Bu.
      * rewrite IH. split.
        -- intros [F|(pre & f & post & E & P & L & B2)].
           ++ left. constructor; [split; assumption|assumption].
           ++ right. exists (g :: pre), f, post. subst. repeat split; auto. constructor; [split; assumption|assumption].
        -- intros [F|(pre & f & post & E & P & L & B2)].
           ++ left. inversion F; assumption.
           ++ destruct pre as [|p pre]; cbn in E; inversion E; subst; [congruence|].
              right. inversion P; subst. eauto 8.
      * split; [|reflexivity]. intros _. right. exists [], g, fs. repeat split; auto.
Qed.

(* the name is used through its lower-cased form only *)
Lemma get_variable_case c n m : lower n = lower m -> get_variable c n = get_variable c m.
Proof. unfold get_variable. now intros ->. Qed.

(* when every scope lets the search through (the only frames that do not are those of the
   isolating operators of ops_sqfvm.cpp, outside the model), the search is over the whole chain *)
Lemma lookup_frames_all_bubble k fs : Forall (fun g => f_bubble g = true) fs ->
  lookup_frames k fs = None <-> Forall (lacks k) fs.
Proof.
  intros B. induction B as [|g fs Bg B IH]; cbn; [split; auto|].
  unfold lacks at 1. destruct (assoc k (f_vars g)) eqn:A.
  - split; [discriminate|]. intros F; inversion F; subst. unfold lacks in *. congruence.
  - rewrite Bg, IH. split; [intros; constructor; assumption|intros F; inversion F; assumption].
Qed.

(* ================================================================ 2. plain assignment to a local *)
Lemma assign_frames_none k v : forall fs, assign_frames k v fs = None <-> Forall (lacks k) fs.
Proof.
  unfold lacks. induction fs as [|g fs IH]; cbn; [split; auto|].
  destruct (assoc k (f_vars g)) eqn:A.
  - split; [discriminate|]. intros F; inversion F; congruence.
  - destruct (assign_frames k v fs) eqn:E.
    + split; [discriminate|]. intros F; inversion F; subst. apply IH in H2. discriminate.
    + split; [|reflexivity]. intros _. constructor; [assumption|]. now apply IH.
Qed.

Lemma assign_frames_some k v : forall fs fs', assign_frames k v fs = Some fs' ->
  exists pre f post, fs = pre ++ f :: post /\ Forall (lacks k) pre /\ holds k f /\
                     fs' = pre ++ set_vars f (assoc_set k v (f_vars f)) :: post.
Proof.
  unfold lacks, holds. induction fs as [|g fs IH]; cbn; intros fs' H; [discriminate|].
  destruct (assoc k (f_vars g)) eqn:A.
  - inversion H; subst. exists [], g, fs. repeat split; eauto.
  - destruct (assign_frames k v fs) as [r'|] eqn:E; [|discriminate]. inversion H; subst.
    destruct (IH _ eq_refl) as (pre & f & post & E1 & P & Hd & E2). subst.
    exists (g :: pre), f, post. repeat split; auto.
Qed.


Lemma assign_local_var_assigned c n v f rest : c_frames c = f :: rest ->
  assigned (lower n) v (c_frames c) (c_frames (assign_local_var c n v)).
Proof.
  intros E. unfold assign_local_var. destruct (assign_frames (lower n) v (c_frames c)) as [fs|] eqn:A.
  - apply assign_frames_some in A. destruct A as (pre & g & post & E1 & P & Hd & E2). cbn. rewrite E1, E2.
    now constructor.
  - apply assign_frames_none in A. rewrite (frames_upd_top _ _ _ _ E). rewrite E in *. now constructor.
Qed.

Lemma assign_local_var_rest c n v :
  assign_local_var c n v = set_frames c (c_frames (assign_local_var c n v)).
Proof.
  unfold assign_local_var. destruct (assign_frames (lower n) v (c_frames c)); [reflexivity|].
  unfold upd_top. destruct (c_frames c); [destruct c|]; reflexivity.
Qed.

Lemma exec_assign_local n r c r' c' : is_local n = true -> exec_instr (IAssign n) r c = Ok (r', c') ->
  same_store r r' /\
  ((pop_value c = None /\ c' = c) \/
   exists v, c_values c = v :: c_values c' /\
             assigned (lower n) v (c_frames c) (c_frames c') /\
             c' = set_frames (set_values c (c_values c')) (c_frames c')).
Proof.
  intros L H. cbn [exec_instr] in H.
  destruct (pop_value c) as [[v c1]|] eqn:P.
  - rewrite L in H. destruct (String.eqb n "") eqn:En.
    { apply String.eqb_eq in En. subst n. discriminate. }
    inversion H; subst; clear H.
    apply pop_value_inv in P. destruct P as (vs & f & rest & EV & EF & ->).
    split; [destruct v; auto using same_store_refl, same_store_logmsg|].
    right. exists v.
    assert (EF1 : c_frames (set_values c vs) = f :: rest) by exact EF.
    pose proof (assign_local_var_assigned (set_values c vs) n v f rest EF1) as As.
    rewrite assign_local_var_rest.
    split; [exact EV|]. split; [exact As|]. reflexivity.
  - inversion H; subst. split; [apply same_store_logmsg|]. left. auto.
Qed.

(* consequences of [assigned]: one map changed, nothing else of any frame *)
Lemma assigned_only_vars k v fs fs' : assigned k v fs fs' ->
  Forall2 (fun g g' => g' = set_vars g (f_vars g')) fs fs'.
Proof.
  assert (R : forall l, Forall2 (fun g g' : frame => g' = set_vars g (f_vars g')) l l).
  { induction l as [|[] l IH]; constructor; auto. }
  intros [pre f post P Hd|f rest P].
  - apply Forall2_app; [apply R|]. constructor; [reflexivity|apply R].
  - constructor; [reflexivity|apply R].
Qed.

Lemma assigned_projections k v fs fs' : assigned k v fs fs' ->
  map f_base fs' = map f_base fs /\ map f_pos fs' = map f_pos fs /\ map f_ns fs' = map f_ns fs /\
  map f_code fs' = map f_code fs /\ map f_exit fs' = map f_exit fs /\ map f_err fs' = map f_err fs /\
  map f_scope fs' = map f_scope fs /\ map f_bubble fs' = map f_bubble fs /\ map f_die fs' = map f_die fs.
Proof.
  intros [pre f post P Hd|f rest P]; rewrite ?map_app; cbn; repeat split; reflexivity.
Qed.

(* exactly one frame's map differs, and there only at the assigned key *)
Lemma assigned_other_keys k v fs fs' : assigned k v fs fs' ->
  forall k', k' <> k -> Forall2 (fun g g' => assoc k' (f_vars g') = assoc k' (f_vars g)) fs fs'.
Proof.
  assert (R : forall k' l, Forall2 (fun g g' : frame => assoc k' (f_vars g') = assoc k' (f_vars g)) l l).
  { induction l; constructor; auto. }
  intros [pre f post P Hd|f rest P] k' N.
  - apply Forall2_app; [apply R|]. constructor; [cbn; now apply assoc_set_other|apply R].
  - constructor; [cbn; now apply assoc_set_other|apply R].
Qed.

Lemma lacks_passes k pre : Forall (lacks k) pre -> Forall (fun g => f_bubble g = true) pre -> Forall (passes k) pre.
Proof. intros L B. induction L; inversion B; subst; constructor; [split|]; auto. Qed.

(* the written value is what the next read of the name sees *)
Lemma assigned_read_back k v fs fs' : assigned k v fs fs' -> Forall (fun g => f_bubble g = true) fs ->
  lookup_frames k fs' = Some v.
Proof.
  intros [pre f post P Hd|f rest P] B; apply lookup_frames_some.
  - apply Forall_app in B. destruct B as [B _].
    exists pre, (set_vars f (assoc_set k v (f_vars f))), post. repeat split; [now apply lacks_passes|].
    cbn. apply assoc_set_same.
  - exists [], (set_vars f (assoc_set k v (f_vars f))), rest. repeat split; [constructor|]. cbn. apply assoc_set_same.
Qed.

Lemma lookup_frames_ext k : forall fs fs',
  Forall2 (fun g g' => assoc k (f_vars g') = assoc k (f_vars g) /\ f_bubble g' = f_bubble g) fs fs' ->
  lookup_frames k fs' = lookup_frames k fs.
Proof.
  induction 1 as [|g g' fs fs' [A Bu] F IH]; cbn; [reflexivity|]. rewrite A, Bu, IH. reflexivity.
Qed.

(* ... and a read of any other name sees what it saw before *)
Lemma assigned_read_other k v fs fs' : assigned k v fs fs' -> forall k', k' <> k ->
  lookup_frames k' fs' = lookup_frames k' fs.
Proof.
  intros As k' N. apply lookup_frames_ext.
  assert (R : forall l, Forall2 (fun g g' : frame => assoc k' (f_vars g') = assoc k' (f_vars g) /\ f_bubble g' = f_bubble g) l l).
  { induction l; constructor; auto. }
  destruct As as [pre f post P Hd|f rest P].
  - apply Forall2_app; [apply R|]. constructor; [|apply R]. split; [cbn; now apply assoc_set_other|reflexivity].
  - constructor; [|apply R]. split; [cbn; now apply assoc_set_other|reflexivity].
Qed.

(* ================================================================ 3. binders of the current scope *)
(* private _x = v  (assign_to_local.h:24) *)
Lemma exec_assign_to_local n r c r' c' : exec_instr (IAssignLocal n) r c = Ok (r', c') ->
  same_store r r' /\
  (n = "" -> c_frames c' = c_frames c) /\
  (n <> "" ->
   (pop_value c = None /\ c' = c) \/
   exists v f rest, c_values c = v :: c_values c' /\ c_frames c = f :: rest /\
                    c_frames c' = set_vars f (assoc_set (lower n) v (f_vars f)) :: rest /\
                    c' = set_frames (set_values c (c_values c')) (c_frames c')).
Proof.
  intros H. cbn [exec_instr] in H. destruct (String.eqb n "") eqn:En.
  - apply String.eqb_eq in En. subst n. inversion H; subst; clear H. split; [apply same_store_refl|].
    split; [|intros N; now elim N]. intros _.
    destruct (pop_value c) as [[v c1]|] eqn:P; [|reflexivity].
    apply pop_value_inv in P. destruct P as (vs & f & rest & _ & _ & ->). reflexivity.
  - apply String.eqb_neq in En. destruct (pop_value c) as [[v c1]|] eqn:P.
    + inversion H; subst; clear H. apply pop_value_inv in P. destruct P as (vs & f & rest & EV & EF & ->).
      split; [destruct v; auto using same_store_refl, same_store_logmsg|]. split; [intros; contradiction|]. intros _.
      right. exists v, f, rest. unfold set_top_var, upd_top. cbn. rewrite EF. cbn. repeat split; assumption.
    + inversion H; subst; clear H. split; [apply same_store_logmsg|]. split; [intros; contradiction|]. intros _. left. auto.
Qed.


(* private "x" / private [..] *)
Lemma declared_nil old : declared [] old old.
Proof. intros k. cbn. destruct (assoc k old); reflexivity. Qed.

Lemma declared_step s names old mid new :
  (forall k, assoc k mid = match assoc k old with Some x => Some x
                                             | None => if String.eqb k s then Some VNil else None end) ->
  declared names mid new -> declared (s :: names) old new.
Proof.
  intros M D k. rewrite (D k), (M k). cbn. destruct (assoc k old); [reflexivity|].
  destruct (String.eqb k s); [reflexivity|]. reflexivity.
Qed.

Lemma declare_top_var_frames c s f rest : c_frames c = f :: rest ->
  exists vars, c_frames (declare_top_var c s) = set_vars f vars :: rest /\
    (forall k, assoc k vars = match assoc k (f_vars f) with Some x => Some x
                                                       | None => if String.eqb k (lower s) then Some VNil else None end) /\
    declare_top_var c s = set_frames c (c_frames (declare_top_var c s)).
Proof.
  intros E. unfold declare_top_var, upd_top. rewrite E. cbn.
  destruct (assoc (lower s) (f_vars f)) as [x|] eqn:A.
  - exists (f_vars f). split; [destruct f; reflexivity|]. split; [|reflexivity]. intros k.
    destruct (assoc k (f_vars f)) eqn:A2; [reflexivity|].
    destruct (String.eqb k (lower s)) eqn:Ek; [|reflexivity]. apply String.eqb_eq in Ek. congruence.
  - exists (assoc_set (lower s) VNil (f_vars f)). split; [reflexivity|]. split; [|reflexivity]. intros k.
    destruct (String.eqb k (lower s)) eqn:Ek.
    + apply String.eqb_eq in Ek. subst k. rewrite assoc_set_same, A. reflexivity.
    + apply String.eqb_neq in Ek. rewrite (assoc_set_other _ _ _ Ek). destruct (assoc k (f_vars f)); reflexivity.
Qed.


Lemma fold_declare_frames : forall l c f rest, c_frames c = f :: rest ->
  let c' := fold_left (fun c' x => match x with VStr s => declare_top_var c' s | _ => c' end) l c in
  exists vars, c_frames c' = set_vars f vars :: rest /\ declared (names_of l) (f_vars f) vars /\
               c' = set_frames c (c_frames c').
Proof.
  induction l as [|x l IH]; intros c f rest E; cbn.
  - exists (f_vars f). split; [rewrite E; destruct f; reflexivity|]. split; [apply declared_nil|]. destruct c; reflexivity.
  - assert (Skip : forall c0, c_frames c0 = f :: rest -> c0 = set_frames c (c_frames c0) ->
        names_of (x :: l) = names_of l ->
        exists vars, c_frames (fold_left (fun c' x => match x with VStr s => declare_top_var c' s | _ => c' end) l c0)
                     = set_vars f vars :: rest /\ declared (names_of (x :: l)) (f_vars f) vars /\
          fold_left (fun c' x => match x with VStr s => declare_top_var c' s | _ => c' end) l c0 =
          set_frames c (c_frames (fold_left (fun c' x => match x with VStr s => declare_top_var c' s | _ => c' end) l c0))).
    { intros c0 E0 R0 Nm. destruct (IH c0 f rest E0) as (vars & F & D & R). exists vars. rewrite Nm.
      split; [exact F|]. split; [exact D|]. rewrite R at 1. rewrite R0. reflexivity. }
    destruct x; try (apply Skip; [exact E|destruct c; reflexivity|reflexivity]).
    destruct (declare_top_var_frames c s f rest E) as (mid & F1 & M & R1).
    destruct (IH (declare_top_var c s) (set_vars f mid) rest F1) as (vars & F & D & R).
    exists vars. split; [rewrite F; reflexivity|]. split.
    + change (names_of (VStr s :: l)) with (lower s :: names_of l). eapply declared_step; [exact M|exact D].
    + rewrite R at 1. rewrite R1. reflexivity.
Qed.

Lemma op_private_string s r c r' c' x : op_unary "private" (VStr s) r c = Ok (r', c', x) ->
  r' = r /\ x = VNil /\ c' = declare_top_var c s.
Proof. cbn. intros H; inversion H; auto. Qed.

Lemma op_private_array l r c r' c' x : op_unary "private" (VArr l) r c = Ok (r', c', x) ->
  r' = r /\ x = VNil /\ arr_all_strings l = true /\
  c' = fold_left (fun c' x => match x with VStr s => declare_top_var c' s | _ => c' end) l c.
Proof. cbn. destruct (arr_all_strings l); [|discriminate]. intros H; inversion H; auto. Qed.



(* ================================================================ 5. what an iteration starts with *)
Ltac pops :=
  repeat match goal with
  | P : pop_value ?c = Some (_, _) |- _ =>
      let vs := fresh "vs" in let g := fresh "g" in let rs := fresh "rs" in
      let EV := fresh "EV" in let EF := fresh "EF" in
      apply pop_value_inv in P; destruct P as (vs & g & rs & EV & EF & ->)
  end.

Ltac crunch :=
  repeat match goal with
  | H : Ok _ = Ok _ |- _ => inversion H; subst; clear H
  | H : (_, _) = (_, _) |- _ => inversion H; subst; clear H
  | H : Some _ = Some _ |- _ => inversion H; subst; clear H
  | H : Unsupported _ = Ok _ |- _ => discriminate H
  | H : Hang _ = Ok _ |- _ => discriminate H
  | H : UB _ = Ok _ |- _ => discriminate H
  | H : context [bindr _ _] |- _ => unfold bindr in H
  | H : (match ?x with _ => _ end) = _ |- _ => destruct x eqn:?
  end.

Ltac store :=
  unfold same_store;
  repeat match goal with |- context [match ?x with _ => _ end] => destruct x end;
  cbn; rewrite ?nss_logmsg, ?ctxs_logmsg, ?active_logmsg; cbn; repeat split; reflexivity.

Lemma enact_effect b r c br b' r' c' f rest : enact b r c = Ok (br, b', r', c') -> c_frames c = f :: rest ->
  same_store r r' /\ same_kind b b' /\
  if restarts br b
  then exists vars, c_frames c' = set_vars f vars :: rest /\ fresh_scope b' vars /\ for_advances b f vars
  else (c_frames c' = f :: rest \/ (c_frames c' = set_vars f [] :: rest /\ fresh_scope b' [])).
Proof.
  intros H E. unfold enact, now in H. rewrite ?E in H.
  destruct b; crunch; pops;
    (split; [store|]); (split; [cbn; auto|]); cbn [restarts];
    first [ left; exact E
          | right; split; [apply frames_restart_with; exact E|reflexivity]
          | eexists; split; [apply frames_restart_with; exact E|split; cbn; eauto] ].
Qed.

Lemma same_kind_trans a b c : same_kind a b -> same_kind b c -> same_kind a c.
Proof. destruct a, b; cbn; try contradiction; destruct c; cbn; try contradiction; intuition congruence. Qed.
Lemma same_kind_refl a : same_kind a a.
Proof. destruct a; cbn; auto. Qed.



Lemma same_scope_id_trans a b c : same_scope_id a b -> same_scope_id b c -> same_scope_id a c.
Proof. unfold same_scope_id. intros (A1 & A2 & A3 & A4) (B1 & B2 & B3 & B4). repeat split; try congruence. destruct B4 as [B4|B4]; [destruct A4 as [A4|A4]; [left|right]; congruence|right; exact B4]. Qed.

(* ---------------------------------------------------------------- frame::next touches the current scope only *)
Lemma frame_next_effect : forall fuel r c fr r1 c1 f rest,
  frame_next fuel r c = Ok (fr, r1, c1) -> c_frames c = f :: rest ->
  same_store r r1 /\
  exists f1, c_frames c1 = f1 :: rest /\ same_scope_id f f1 /\ vars_kept_or_fresh f f1.
Proof.
  induction fuel as [|fuel IH]; intros r c fr r1 c1 f rest H E; [discriminate|].
  cbn [frame_next] in H. rewrite E in H.
  set (p := if at_end f then (FDone, f) else (if at_end (set_pos f (S (f_pos f))) then FDone else FOk, set_pos f (S (f_pos f)))) in H.
  assert (P : exists res0 f1, p = (res0, f1) /\ same_scope_id f f1 /\ f_vars f1 = f_vars f /\ f_exit f1 = f_exit f).
  { unfold p. destruct (at_end f); eexists; eexists; (split; [reflexivity|]); repeat split; left; reflexivity. }
  destruct P as (res0 & f1 & -> & S1 & V1 & X1).
  destruct (f_exit f1) as [b|] eqn:X.
  - destruct (andb (at_end f1) (negb (f_die f1))).
    + unfold bindr in H. destruct (enact b r (set_frames c (f1 :: rest))) as [[[[br b'] r2] c2]| | |] eqn:En; try discriminate.
      assert (E1 : c_frames (set_frames c (f1 :: rest)) = f1 :: rest) by reflexivity.
      destruct (enact_effect _ _ _ _ _ _ _ _ _ En E1) as (St & K & Fr).
      assert (G : exists F, c_frames c2 = F :: rest /\ same_scope_id f F /\
                  (f_vars F = f_vars f \/ fresh_scope b' (f_vars F))).
      { destruct (restarts br b).
        - destruct Fr as (vars & Fr & Fs & _). exists (set_vars f1 vars). split; [exact Fr|]. split; [exact S1|]. right. exact Fs.
        - destruct Fr as [Fr|[Fr Fs]].
          + exists f1. split; [exact Fr|]. split; [exact S1|]. left. exact V1.
          + exists (set_vars f1 []). split; [exact Fr|]. split; [exact S1|]. right. exact Fs. }
      destruct G as (F & EF & SF & VF).
      (* any frame that keeps F's variables and carries the updated behaviour b' *)
      assert (VK : forall F', f_vars F' = f_vars F -> vars_kept_or_fresh f F').
      { intros F' HV. destruct VF as [VF|VF]; [left; congruence|]. right. exists b, b'.
        rewrite <- X1. repeat split; auto. now rewrite HV. }
      assert (REC : forall F' r1 c1 fr, f_vars F' = f_vars F -> f_exit F' = Some b' -> same_scope_id F F' ->
                forall cc, c_frames cc = F' :: rest -> frame_next fuel r2 cc = Ok (fr, r1, c1) ->
                same_store r r1 /\ exists f1, c_frames c1 = f1 :: rest /\ same_scope_id f f1 /\ vars_kept_or_fresh f f1).
      { intros F' r1' c1' fr' HV HX HS cc Ecc Hn.
        destruct (IH _ _ _ _ _ _ _ Hn Ecc) as (St2 & f2 & E2 & S2 & V2).
        split; [eapply same_store_trans; eauto|]. exists f2. split; [exact E2|].
        split; [eapply same_scope_id_trans; [exact SF|eapply same_scope_id_trans; eauto]|].
        destruct V2 as [V2|(b0 & b1 & Y0 & K2 & Fs2)].
        - apply VK. congruence.
        - right. rewrite HX in Y0. inversion Y0; subst b0. exists b, b1. rewrite <- X1.
          repeat split; auto. eapply same_kind_trans; eauto. }
      destruct br.
      * inversion H; subst; clear H. split; [exact St|]. eexists. split; [apply frames_upd_top; exact EF|].
        split; [exact SF|]. apply VK; reflexivity.
      * destruct (top_code_empty _).
        { inversion H; subst; clear H. split; [exact St|]. eexists.
          split; [rewrite frames_clear_values; apply frames_upd_top; apply frames_upd_top; exact EF|]. split; [|apply VK; reflexivity].
          destruct SF as (Q1 & Q2 & Q3 & _). repeat split; [exact Q1|exact Q2|exact Q3|right; reflexivity]. }
        eapply REC; [| | | |exact H];
          [| | |rewrite frames_clear_values; apply frames_upd_top; apply frames_upd_top; exact EF];
          [reflexivity|reflexivity|repeat split; right; reflexivity].
      * inversion H; subst; clear H. split; [exact St|]. eexists.
        split; [apply frames_upd_top; apply frames_upd_top; exact EF|]. split; [exact SF|]. apply VK; reflexivity.
      * eapply REC; [| | | |exact H];
          [| | |apply frames_upd_top; apply frames_upd_top; exact EF];
          [destruct b' as [|? [|] ? ?| | | | | | | |]; reflexivity|destruct b' as [|? [|] ? ?| | | | | | | |]; reflexivity
          |repeat split; try reflexivity; destruct b' as [|? [|] ? ?| | | | | | | |]; cbn; auto].
      * inversion H; subst; clear H. split; [exact St|]. eexists. split; [apply frames_upd_top; exact EF|].
        split; [exact SF|]. apply VK; reflexivity.
    + inversion H; subst; clear H. split; [apply same_store_refl|]. exists f1. split; [reflexivity|]. split; [exact S1|]. left; exact V1.
  - inversion H; subst; clear H. split; [apply same_store_refl|]. exists f1. split; [reflexivity|]. split; [exact S1|]. left; exact V1.
Qed.

(* ================================================================ 4. a completed scope takes exactly its own bindings with it *)
Lemma nth_error_list_upd_same {A} : forall (l:list A) i x y, nth_error l i = Some x -> nth_error (list_upd l i y) i = Some y.
Proof. induction l as [|a l IH]; intros [|i] x y H; cbn in *; try discriminate; [reflexivity|eauto]. Qed.
Lemma nth_error_list_upd_other {A} : forall (l:list A) i j y, i <> j -> nth_error (list_upd l i y) j = nth_error l j.
Proof.
  induction l as [|a l IH]; intros [|i] [|j] y N; cbn; try reflexivity; try congruence.
  apply IH. congruence.
Qed.

Lemma cur_upd_cur r c c' : cur r = Some c -> cur (upd_cur r c') = Some c'.
Proof.
  unfold cur, upd_cur. destruct (r_active r) as [i|] eqn:A; [|discriminate]. cbn. rewrite A.
  intros H. eapply nth_error_list_upd_same; eauto.
Qed.
Lemma nss_upd_cur r c : r_nss (upd_cur r c) = r_nss r.
Proof. unfold upd_cur. destruct (r_active r); reflexivity. Qed.
Lemma active_upd_cur r c : r_active (upd_cur r c) = r_active r.
Proof. unfold upd_cur. destruct (r_active r) eqn:A; cbn; auto. Qed.
Lemma cur_same_store r r1 : same_store r r1 -> cur r1 = cur r.
Proof. intros (_ & C & A). unfold cur. now rewrite C, A. Qed.

Lemma frames_push_nil_if c3 :
  c_frames (match c_frames c3 with [] => c3 | _ => push_value c3 VNil end) = c_frames c3.
Proof. destruct (c_frames c3) eqn:X; cbn; auto. Qed.

Lemma pop_completed_scope r c f rest r' :
  cur r = Some c -> c_frames c = f :: rest -> do_iter r = Ok (Continue r') ->
  (forall fr r1 c1, frame_next frame_fuel r c = Ok (fr, r1, c1) -> r_err r1 = false) ->
  exists c', cur r' = Some c' /\ c_frames c' = rest /\
             r_nss r' = r_nss r /\ r_active r' = r_active r /\
             (forall j, r_active r <> Some j -> nth_error (r_ctxs r') j = nth_error (r_ctxs r) j).
Proof.
  intros C E H NoErr. unfold do_iter in H. rewrite C, E in H.
  destruct (r_exit_req r); [discriminate|]. destruct (c_suspended c); [discriminate|].
  destruct (r_state r); try discriminate.
  unfold bindr at 1 in H.
  destruct (frame_next frame_fuel r c) as [[[fr r1] c1]| | |] eqn:FN; try discriminate.
  rewrite (NoErr _ _ _ eq_refl) in H.
  destruct (frame_next_effect _ _ _ _ _ _ _ _ FN E) as (St & f1 & E1 & _).
  assert (C1 : cur r1 = Some c) by (rewrite (cur_same_store _ _ St); exact C).
  destruct fr.
  - destruct (Nat.eqb (length (c_frames c1)) (length (f :: rest))).
    + inversion H; subst; clear H. eexists. split; [eapply cur_upd_cur; exact C1|].
      destruct St as (N & Cx & A).
      split.
      { destruct (pop_value c1) as [[v c2]|] eqn:P.
        - pops. cbn. rewrite frames_clear_values. cbn. rewrite E1. reflexivity.
        - assert (T : c_frames (pop_frame (clear_values c1)) = rest)
            by (cbn; rewrite frames_clear_values, E1; reflexivity).
          destruct (defect r "block_value_dropped"); [exact T|].
          rewrite <- T. exact (frames_push_nil_if (pop_frame (clear_values c1))). }
      split; [rewrite nss_upd_cur; exact N|].
      split; [rewrite active_upd_cur; exact A|].
      intros j Nj. unfold upd_cur. rewrite A. destruct (r_active r) as [i|]; cbn; [|now rewrite Cx].
      rewrite Cx. apply nth_error_list_upd_other. congruence.
    + destruct (current_instr c1); [|discriminate].
      destruct (if Z.eqb (r_max_runtime r1) 0 then (false, r1) else let (t, r'0) := now r1 in (Z.ltb (r_max_runtime r1 + r_run_ts r1) t, r'0)) as [ex r2].
      destruct ex; [discriminate|]. unfold bindr in H. destruct (exec_instr i r2 c1) as [[r3 c5]| | |]; try discriminate.
      destruct (negb _); [discriminate|]. destruct (on_error _) as [[[] ?]| | |]; discriminate.
  - destruct (current_instr c1); [|discriminate].
    destruct (if Z.eqb (r_max_runtime r1) 0 then (false, r1) else let (t, r'0) := now r1 in (Z.ltb (r_max_runtime r1 + r_run_ts r1) t, r'0)) as [ex r2].
    destruct ex; [discriminate|]. unfold bindr in H. destruct (exec_instr i r2 c1) as [[r3 c5]| | |]; try discriminate.
    destruct (negb _); [discriminate|]. destruct (on_error _) as [[[] ?]| | |]; discriminate.
  - destruct (if Z.eqb (r_max_runtime r1) 0 then (false, r1) else let (t, r'0) := now r1 in (Z.ltb (r_max_runtime r1 + r_run_ts r1) t, r'0)) as [ex r2].
    destruct ex; discriminate.
Qed.

(* ================================================================ 6. spawn *)
Lemma spawn_effect l body r c r' c' x : op_binary "spawn" l (VCode body) r c = Ok (r', c', x) ->
  c' = c /\ x = VScript (r_next_id r) /\ r_nss r' = r_nss r /\ r_active r' = r_active r /\
  exists nc f, r_ctxs r' = r_ctxs r ++ [nc] /\ c_frames nc = [f] /\ c_values nc = [] /\ c_id nc = r_next_id r /\
    f_vars f = [("_thisscript", VScript (r_next_id r)); ("_this", l)] /\ f_ns f = default_ns /\ f_code f = body /\
    (forall n, lower n <> "_thisscript" -> lower n <> "_this" -> get_variable nc n = None) /\
    get_variable nc "_this" = Some l.
Proof.
  cbn. intros H; inversion H; subst; clear H. repeat split.
  eexists; eexists. repeat split.
  intros n N1 N2. unfold get_variable. cbn.
  apply String.eqb_neq in N1. apply String.eqb_neq in N2. now rewrite N1, N2.
Qed.

(* ================================================================ 7. globals *)
Lemma ns_get_case r ns n m : lower n = lower m -> ns_get r ns n = ns_get r ns m.
Proof. unfold ns_get. now intros ->. Qed.
Lemma ns_set_case r ns n m v : lower n = lower m -> ns_set r ns n v = ns_set r ns m v.
Proof. unfold ns_set. now intros ->. Qed.

Lemma ns_get_set_same r ns n m v : lower n = lower m -> ns_get (ns_set r ns n v) ns m = Some v.
Proof. intros E. unfold ns_get, ns_set. cbn. rewrite assoc_set_same, E. apply assoc_set_same. Qed.

Lemma ns_get_set_other_name r ns n m v : lower n <> lower m -> ns_get (ns_set r ns n v) ns m = ns_get r ns m.
Proof.
  intros N. unfold ns_get, ns_set. cbn. rewrite assoc_set_same.
  rewrite assoc_set_other by congruence. destruct (assoc ns (r_nss r)); reflexivity.
Qed.

Lemma ns_get_set_other_ns r ns ns' n m v : ns' <> ns -> ns_get (ns_set r ns n v) ns' m = ns_get r ns' m.
Proof. intros N. unfold ns_get, ns_set. cbn. now rewrite assoc_set_other. Qed.

(* GETVARIABLE / ASSIGNTO of a global name: the current frame's namespace, the lower-cased name *)
Lemma exec_get_global n r c f rest : is_local n = false -> c_frames c = f :: rest ->
  exec_instr (IGet n) r c =
  match ns_get r (f_ns f) n with
  | Some v => Ok (r, push_value c v)
  | None => Ok (logmsg r d_VariableNotFound, push_value c VNil) end.
Proof. intros L E. cbn [exec_instr]. now rewrite L, E. Qed.

Lemma exec_assign_global n r c r' c' : is_local n = false -> n <> "" -> exec_instr (IAssign n) r c = Ok (r', c') ->
  (pop_value c = None /\ c' = c /\ same_store r r') \/
  exists v f rest, pop_value c = Some (v, c') /\ c_frames c = f :: rest /\ c_frames c' = c_frames c /\
     r_nss r' = r_nss (ns_set r (f_ns f) n v) /\ r_ctxs r' = r_ctxs r /\
     ns_get r' (f_ns f) n = Some v.
Proof.
  intros L N H. cbn [exec_instr] in H. apply String.eqb_neq in N. rewrite N, L in H.
  destruct (pop_value c) as [[v c1]|] eqn:P.
  - right. destruct (pop_value_inv _ _ _ P) as (vs & f & rest & EV & EF & ->).
    change (c_frames (set_values c vs)) with (c_frames c) in H. rewrite EF in H. inversion H; subst; clear H.
    exists v, f, rest. repeat split; auto.
    + destruct v; cbn; rewrite ?nss_logmsg; reflexivity.
    + destruct v; cbn; rewrite ?ctxs_logmsg; reflexivity.
    + apply ns_get_set_same. reflexivity.
  - inversion H; subst. left. repeat split; auto using nss_logmsg, ctxs_logmsg, active_logmsg.
Qed.

(* setVariable / getVariable on a namespace value *)
Lemma op_setvariable s name x r c r' c' y :
  op_binary "setvariable" (VNs s) (VArr [VStr name; x]) r c = Ok (r', c', y) ->
  r' = ns_set r s name x /\ c' = c /\ y = VNil.
Proof. cbn. intros H; inversion H; auto. Qed.
Lemma op_getvariable_string s name r c :
  op_binary "getvariable" (VNs s) (VStr name) r c =
  Ok (r, c, match ns_get r s name with Some x => x | None => VNil end).
Proof. reflexivity. Qed.
Lemma op_getvariable_default s name d r c :
  op_binary "getvariable" (VNs s) (VArr [VStr name; d]) r c =
  Ok (r, c, match ns_get r s name with Some x => x | None => d end).
Proof. reflexivity. Qed.



(* ================================================================ 8. the namespace of a scope *)
Lemma map_skipn {A B} (g:A->B) : forall k l, map g (skipn k l) = skipn k (map g l).
Proof. induction k; intros [|a l]; cbn; auto. Qed.

Lemma ns_of_push_frame c ns code ex er vars : ns_of (push_frame c (mk_frame ns code ex er vars)) = ns :: ns_of c.
Proof. reflexivity. Qed.
Lemma ns_of_upd_top c g : (forall f, f_ns (g f) = f_ns f) -> ns_of (upd_top c g) = ns_of c.
Proof. intros G. unfold ns_of, upd_top. destruct (c_frames c) eqn:E; cbn; rewrite ?E; cbn; [reflexivity|now rewrite G]. Qed.
Lemma ns_of_clear_values c : ns_of (clear_values c) = ns_of c.
Proof. unfold ns_of. now rewrite frames_clear_values. Qed.
Lemma assign_frames_ns k v : forall fs fs', assign_frames k v fs = Some fs' -> map f_ns fs' = map f_ns fs.
Proof.
  induction fs as [|g fs IH]; cbn; intros fs' H; [discriminate|].
  destruct (assoc k (f_vars g)); [inversion H; reflexivity|].
  destruct (assign_frames k v fs) eqn:E; [|discriminate]. inversion H; subst. cbn. f_equal. now apply IH.
Qed.
Lemma ns_of_assign_local_var c n v : ns_of (assign_local_var c n v) = ns_of c.
Proof.
  unfold assign_local_var. destruct (assign_frames (lower n) v (c_frames c)) eqn:E.
  - unfold ns_of. cbn. eapply assign_frames_ns; eauto.
  - now apply ns_of_upd_top.
Qed.
Lemma ns_of_declare_top_var c s : ns_of (declare_top_var c s) = ns_of c.
Proof. apply ns_of_upd_top. intros f. destruct (assoc (lower s) (f_vars f)); reflexivity. Qed.
Lemma ns_of_fold_declare : forall l c,
  ns_of (fold_left (fun c' x => match x with VStr s => declare_top_var c' s | _ => c' end) l c) = ns_of c.
Proof. induction l as [|x l IH]; intros c; cbn; [reflexivity|]. rewrite IH. destruct x; auto using ns_of_declare_top_var. Qed.
Lemma ns_of_pop_clearing : forall k c, ns_of (pop_clearing k c) = skipn k (ns_of c).
Proof.
  induction k as [|k IH]; intros c; cbn; [reflexivity|]. rewrite IH. unfold ns_of, pop_frame. cbn.
  rewrite frames_clear_values. destruct (c_frames c); cbn; [now destruct k|reflexivity].
Qed.
Lemma ns_of_drop c k : ns_of (set_frames c (skipn k (c_frames c))) = skipn k (ns_of c).
Proof. unfold ns_of. cbn. apply map_skipn. Qed.
Lemma map_ns_list_upd : forall fs k f f', nth_error fs k = Some f -> f_ns f' = f_ns f ->
  map f_ns (list_upd fs k f') = map f_ns fs.
Proof.
  induction fs as [|g fs IH]; intros [|k] f f' N E; cbn in *; try discriminate.
  - inversion N; subst. now rewrite E.
  - f_equal. eauto.
Qed.

Lemma cur_ns_frames c c1 : c_frames c1 = c_frames c -> cur_ns c1 = cur_ns c.
Proof. unfold cur_ns. now intros ->. Qed.

Lemma err_enact_ns r c k failed r' c' : err_enact r c k = Ok (failed, r', c') ->
  ns_of c' = ns_of c /\ same_store r r'.
Proof.
  unfold err_enact. intros H.
  destruct (nth_error (c_frames c) k) as [f|] eqn:N; [|discriminate].
  assert (U : forall cc f', c_frames cc = c_frames c -> f_ns f' = f_ns f ->
              ns_of (set_frames (clear_values cc) (list_upd (c_frames (clear_values cc)) k f')) = ns_of c).
  { intros cc f' Ec En. unfold ns_of. cbn. rewrite frames_clear_values, Ec. eapply map_ns_list_upd; eauto. }
  crunch; pops; (split; [|apply same_store_refl]); try reflexivity; apply U; reflexivity.
Qed.

Lemma op_throw_ns r c v r' c' x : op_throw r c v = Ok (r', c', x) -> ns_step c c' /\ same_store r r'.
Proof.
  unfold op_throw. intros H.
  destruct (find_handler (c_frames c) 0) as [k|].
  2:{ inversion H; subst. split; [now apply NsSame|apply same_store_logmsg]. }
  unfold bindr in H. destruct (err_enact r (push_value c (VTrace v)) k) as [[[failed r2] c2]| | |] eqn:En; try discriminate.
  apply err_enact_ns in En. destruct En as (Ns & St). change (ns_of (push_value c (VTrace v))) with (ns_of c) in Ns.
  destruct failed.
  - assert (N3 : ns_of (if Nat.ltb 0 (length (c_values c))
                        then match pop_value c2 with Some (_, c'0) => c'0 | None => c2 end else c2) = ns_of c).
    { destruct (Nat.ltb _ _); [|exact Ns]. destruct (pop_value c2) as [[y c3]|] eqn:P; [|exact Ns]. pops. exact Ns. }
    inversion H; subst; clear H. split; [apply NsSame; exact N3|].
    eapply same_store_trans; [exact St|apply same_store_logmsg].
  - inversion H; subst; clear H. split; [|exact St]. apply (NsDrop _ _ k). rewrite ns_of_drop. now rewrite Ns.
Qed.

Lemma op_breakout_ns r c v t r' c' x : op_breakout r c v t = Ok (r', c', x) -> ns_step c c' /\ same_store r r'.
Proof.
  unfold op_breakout. intros H. destruct (c_frames c) as [|f fs] eqn:EF; [discriminate|].
  assert (L : forall k, ns_of (if defect r "breakout_leaks_regions" then set_frames c (skipn k (f :: fs)) else pop_clearing k c)
                        = skipn k (ns_of c)).
  { intros k. destruct (defect r _); [rewrite <- EF; apply ns_of_drop|apply ns_of_pop_clearing]. }
  destruct (String.eqb t "").
  - inversion H; subst; clear H. split; [apply (NsDrop _ _ 1); exact (L 1)|apply same_store_refl].
  - destruct (find_scope t (f :: fs) 0) as [k|]; inversion H; subst; clear H.
    + split; [apply (NsDrop _ _ k); exact (L k)|apply same_store_refl].
    + split; [now apply NsSame|apply same_store_logmsg].
Qed.

Ltac nsof :=
  repeat first [ rewrite ns_of_push_frame | rewrite ns_of_clear_values
               | rewrite ns_of_assign_local_var | rewrite ns_of_declare_top_var | rewrite ns_of_fold_declare
               | rewrite ns_of_upd_top by (intros; reflexivity) ];
  try reflexivity.

Ltac ns_leaf :=
  first [ apply NsSame; reflexivity
        | apply NsPush; reflexivity
        | apply NsSame; solve [nsof]
        | apply NsPush; solve [nsof]
        | match goal with H : op_throw _ _ _ = Ok _ |- _ => apply op_throw_ns in H; destruct H; assumption end
        | match goal with H : op_breakout _ _ _ _ = Ok _ |- _ => apply op_breakout_ns in H; destruct H; assumption end ].

Lemma op_nular_same n r c r' c' x : op_nular n r c = Ok (r', c', x) -> r' = r /\ c' = c.
Proof. unfold op_nular. intros H. crunch; auto. Qed.

Lemma op_unary_ns n v r c r' c' x : op_unary n v r c = Ok (r', c', x) -> ns_step c c'.
Proof. unfold op_unary, num. intros H. crunch; ns_leaf. Qed.

Lemma op_binary_ns n l v r c r' c' x : op_binary n l v r c = Ok (r', c', x) ->
  ns_step c c' \/ exists s body, n = "do" /\ l = VWith s /\ v = VCode body /\ ns_of c' = s :: ns_of c.
Proof.
  unfold op_binary, num. intros H. crunch;
    first [ left; ns_leaf
          | right; match goal with E : String.eqb ?n "do" = true |- _ => apply String.eqb_eq in E; subst n end;
            eexists; eexists; repeat split ].
Qed.


(* ---------------------------------------------------------------- who writes namespace storage, who creates contexts *)
Lemma ctx_frames_terminate r id :
  ctx_frames (set_ctxs r (map (fun y => if Nat.eqb (c_id y) id then set_terminate y true else y) (r_ctxs r))) = ctx_frames r.
Proof.
  unfold ctx_frames. cbn. rewrite map_map. apply map_ext. intros y. destruct (Nat.eqb (c_id y) id); reflexivity.
Qed.

Ltac store2 :=
  repeat match goal with |- context [match ?x with _ => _ end] => destruct x end;
  cbn; rewrite ?nss_logmsg, ?ctxs_logmsg, ?active_logmsg; cbn; try reflexivity.

Lemma op_unary_store n v r c r' c' x : op_unary n v r c = Ok (r', c', x) ->
  r_nss r' = r_nss r /\ ctx_frames r' = ctx_frames r /\ r_active r' = r_active r.
Proof.
  unfold op_unary, num, now. intros H.
  crunch;
    try match goal with H : op_throw _ _ _ = Ok _ |- _ => apply op_throw_ns in H; destruct H as (_ & (? & ? & ?)) end;
    try match goal with H : op_breakout _ _ _ _ = Ok _ |- _ => apply op_breakout_ns in H; destruct H as (_ & (? & ? & ?)) end;
    (split; [store2; auto|]); (split; [|store2; auto]); unfold ctx_frames;
    first [ apply ctx_frames_terminate | store2; congruence ].
Qed.

Lemma op_binary_store n l v r c r' c' x : op_binary n l v r c = Ok (r', c', x) ->
  (r_nss r' = r_nss r \/ exists s name y, n = "setvariable" /\ l = VNs s /\ v = VArr [VStr name; y] /\ r' = ns_set r s name y) /\
  (ctx_frames r' = ctx_frames r \/
   exists nc f, n = "spawn" /\ r_ctxs r' = r_ctxs r ++ [nc] /\ c_frames nc = [f] /\ f_ns f = default_ns /\
                f_vars f = [("_thisscript", VScript (r_next_id r)); ("_this", l)]) /\
  r_active r' = r_active r.
Proof.
  unfold op_binary, num, now. intros H.
  crunch;
    try match goal with H : op_throw _ _ _ = Ok _ |- _ => apply op_throw_ns in H; destruct H as (_ & (? & ? & ?)) end;
    try match goal with H : op_breakout _ _ _ _ = Ok _ |- _ => apply op_breakout_ns in H; destruct H as (_ & (? & ? & ?)) end;
    (split;
     [ first [ left; store2; solve [auto]
             | right; match goal with E : String.eqb ?n "setvariable" = true |- _ => apply String.eqb_eq in E; subst n end;
               eexists; eexists; eexists; repeat split ]
     | split; [|store2; auto]; unfold ctx_frames;
       first [ left; store2; congruence
             | right; match goal with E : String.eqb ?n "spawn" = true |- _ => apply String.eqb_eq in E; subst n end;
               eexists; eexists; repeat split ] ]).
Qed.

(* ---------------------------------------------------------------- every instruction *)
Lemma make_array_frames : forall n c acc vals c1 ok,
  (fix go (k:nat) (c:context) (acc:list value) {struct k} : (list value * context * bool) :=
     match k with
     | O => (acc, c, true)
     | S k' => match pop_value c with
               | Some (v, c') => go k' c' (v :: acc)
               | None => (repeat VNil (S k') ++ acc, c, false) end end) n c acc = (vals, c1, ok) ->
  c_frames c1 = c_frames c.
Proof.
  induction n as [|n IH]; intros c acc vals c1 ok H.
  - inversion H; reflexivity.
  - destruct (pop_value c) as [[v c0]|] eqn:P.
    + apply IH in H. pops. exact H.
    + inversion H; reflexivity.
Qed.

Lemma ns_step_transport c1 c2 c c' : ns_step c1 c2 -> c_frames c1 = c_frames c -> ns_of c' = ns_of c2 -> ns_step c c'.
Proof.
  intros S E E'. assert (N : ns_of c1 = ns_of c) by (unfold ns_of; now rewrite E).
  pose proof (cur_ns_frames _ _ E) as Cn.
  destruct S as [S|S|k S]; [apply NsSame|apply NsPush|apply (NsDrop _ _ k)]; congruence.
Qed.


Lemma exec_unary_eq n r c : exec_instr (IUnary n) r c =
  match pop_value c with
  | None => Ok (logmsg r (no_value_diag c d_NoValueFoundForRightArgument d_NoValueFoundForRightArgumentWeak), c)
  | Some (v, c1) =>
      if is_nil v then Ok (logmsg r d_NilValueFoundForRightArgumentWeak, c1)
      else match op_unary (lower n) v r c1 with
           | Unsupported w => if has_unary (lower n) (type_of v) then Unsupported w
                              else Ok (logmsg r d_UnknownInputTypeCombinationUnary, c1)
           | x => bindr x (fun '(r1, c2, y) => Ok (r1, push_value c2 y)) end end.
Proof. cbn [exec_instr]. destruct (pop_value c) as [[[] c1]|]; reflexivity. Qed.

Lemma exec_binary_eq n r c : exec_instr (IBinary n) r c =
  match pop_value c with
  | None => Ok (logmsg r (no_value_diag c d_NoValueFoundForRightArgument d_NoValueFoundForRightArgumentWeak), c)
  | Some (v, c1) =>
      if is_nil v then Ok (logmsg r d_NilValueFoundForRightArgumentWeak, c1)
      else match pop_value c1 with
           | None => Ok (logmsg r (no_value_diag c d_NoValueFoundForRightArgument d_NoValueFoundForRightArgumentWeak), c1)
           | Some (l, c2) =>
               if is_nil l then Ok (logmsg r d_NilValueFoundForRightArgumentWeak, c2)
               else match op_binary (lower n) l v r c2 with
                    | Unsupported w => if has_binary (lower n) (type_of l) (type_of v) then Unsupported w
                                       else Ok (logmsg r d_UnknownInputTypeCombinationBinary, c2)
                    | x => bindr x (fun '(r1, c3, y) => Ok (r1, push_value c3 y)) end end end.
Proof.
  cbn [exec_instr]. destruct (pop_value c) as [[[] c1]|]; try reflexivity;
    destruct (pop_value c1) as [[[] c2]|]; reflexivity.
Qed.

Lemma exec_instr_ns i r c r' c' : exec_instr i r c = Ok (r', c') ->
  ns_step c c' \/
  exists n s body vs, i = IBinary n /\ lower n = "do" /\ c_values c = VCode body :: VWith s :: vs /\
                      ns_of c' = s :: ns_of c.
Proof.
  intros H. destruct i.
  - (* push *) cbn [exec_instr] in H. inversion H; subst. left. now apply NsSame.
  - (* get *) cbn [exec_instr] in H. left. crunch; now apply NsSame.
  - (* assign *) cbn [exec_instr] in H. left. crunch; pops; apply NsSame; rewrite ?ns_of_assign_local_var; reflexivity.
  - (* assign local *)
    cbn [exec_instr] in H. left. destruct (String.eqb n ""); crunch; pops; apply NsSame; try reflexivity.
    + destruct (pop_value c) as [[v c1]|] eqn:P; pops; reflexivity.
    + unfold set_top_var. rewrite ns_of_upd_top by (intros; reflexivity). reflexivity.
  - (* nular *)
    cbn [exec_instr] in H. left. destruct (op_nular (lower n) r c) as [[[r1 c1] v]| | |] eqn:O; cbn in H; crunch.
    apply op_nular_same in O. destruct O; subst. now apply NsSame.
  - (* unary *)
    rewrite exec_unary_eq in H. left.
    destruct (pop_value c) as [[v c1]|] eqn:P; [|inversion H; subst; now apply NsSame]. pops.
    destruct (is_nil v); [inversion H; subst; now apply NsSame|].
    destruct (op_unary (lower n) v r (set_values c vs)) as [[[r1 c2] y]| | |] eqn:O; cbn in H; crunch; try (now apply NsSame).
    apply op_unary_ns in O. eapply ns_step_transport; [exact O|reflexivity|reflexivity].
  - (* binary *)
    rewrite exec_binary_eq in H.
    destruct (pop_value c) as [[v c1]|] eqn:P; [|inversion H; subst; left; now apply NsSame]. pops.
    destruct (is_nil v); [inversion H; subst; left; now apply NsSame|].
    destruct (pop_value (set_values c vs)) as [[lft c2]|] eqn:P2; [|inversion H; subst; left; now apply NsSame]. pops.
    destruct (is_nil lft); [inversion H; subst; left; now apply NsSame|].
    match type of H with context [op_binary ?a ?b ?c ?d ?e] => destruct (op_binary a b c d e) as [[[r1 c3] y]| | |] eqn:O end;
      cbn in H; crunch; try (left; now apply NsSame).
    apply op_binary_ns in O. destruct O as [O|(ws & wbody & En & El & Ev & Ns)].
    + left. eapply ns_step_transport; [exact O|reflexivity|reflexivity].
    + subst. right. cbn in EV0. rewrite EV0 in EV. exists n, ws, wbody, vs0. repeat split; auto.
  - (* make array *)
    cbn [exec_instr] in H. left.
    match type of H with (match ?t with _ => _ end) = _ => destruct t as [[vals c1] ok] eqn:G end.
    apply make_array_frames in G. inversion H; subst. apply NsSame. unfold ns_of. cbn. now rewrite G.
  - (* end *) cbn [exec_instr] in H. inversion H; subst. left. apply NsSame. apply ns_of_clear_values.
Qed.

(* who can write namespace storage, and what an instruction can do to the OTHER contexts *)
Lemma exec_instr_store i r c r' c' : exec_instr i r c = Ok (r', c') ->
  (r_nss r' = r_nss r \/
   (exists n v f rest, i = IAssign n /\ is_local n = false /\ c_frames c = f :: rest /\
                       r_nss r' = r_nss (ns_set r (f_ns f) n v)) \/
   (exists n s name y, i = IBinary n /\ lower n = "setvariable" /\ r_nss r' = r_nss (ns_set r s name y))) /\
  (ctx_frames r' = ctx_frames r \/
   exists n nc f l, i = IBinary n /\ lower n = "spawn" /\ r_ctxs r' = r_ctxs r ++ [nc] /\ c_frames nc = [f] /\
                    f_ns f = default_ns /\ f_vars f = [("_thisscript", VScript (r_next_id r)); ("_this", l)]).
Proof.
  intros H. destruct i.
  - cbn [exec_instr] in H. inversion H; subst. auto.
  - cbn [exec_instr] in H. crunch; unfold ctx_frames; rewrite ?nss_logmsg, ?ctxs_logmsg; auto.
  - (* assign *)
    cbn [exec_instr] in H. destruct (pop_value c) as [[v c1]|] eqn:P.
    2:{ inversion H; subst. unfold ctx_frames; rewrite ?nss_logmsg, ?ctxs_logmsg; auto. }
    pops. destruct (String.eqb n "").
    { inversion H; subst. unfold ctx_frames. destruct v; cbn; rewrite ?nss_logmsg, ?ctxs_logmsg; auto. }
    destruct (is_local n) eqn:L.
    { inversion H; subst. unfold ctx_frames. destruct v; cbn; rewrite ?nss_logmsg, ?ctxs_logmsg; auto. }
    change (c_frames (set_values c vs)) with (c_frames c) in H. rewrite EF in H. inversion H; subst; clear H.
    split.
    + right; left. exists n, v, g, rs. repeat split; auto. destruct v; cbn; rewrite ?nss_logmsg; reflexivity.
    + left. unfold ctx_frames. destruct v; cbn; rewrite ?ctxs_logmsg; reflexivity.
  - cbn [exec_instr] in H. destruct (String.eqb n ""); crunch; unfold ctx_frames;
      repeat match goal with |- context [match ?x with _ => _ end] => destruct x end;
      rewrite ?nss_logmsg, ?ctxs_logmsg; auto.
  - cbn [exec_instr] in H. destruct (op_nular (lower n) r c) as [[[r1 c1] v]| | |] eqn:O; cbn in H; crunch.
    apply op_nular_same in O. destruct O; subst. auto.
  - rewrite exec_unary_eq in H.
    destruct (pop_value c) as [[v c1]|] eqn:P; [|inversion H; subst; unfold ctx_frames; rewrite ?nss_logmsg, ?ctxs_logmsg; auto].
    destruct (is_nil v); [inversion H; subst; unfold ctx_frames; rewrite ?nss_logmsg, ?ctxs_logmsg; auto|].
    destruct (op_unary (lower n) v r c1) as [[[r1 c2] y]| | |] eqn:O; cbn in H; crunch;
      try (unfold ctx_frames; rewrite ?nss_logmsg, ?ctxs_logmsg; auto; fail).
    apply op_unary_store in O. destruct O as (? & ? & _); auto.
  - rewrite exec_binary_eq in H.
    destruct (pop_value c) as [[v c1]|] eqn:P; [|inversion H; subst; unfold ctx_frames; rewrite ?nss_logmsg, ?ctxs_logmsg; auto].
    destruct (is_nil v); [inversion H; subst; unfold ctx_frames; rewrite ?nss_logmsg, ?ctxs_logmsg; auto|].
    destruct (pop_value c1) as [[lft c2]|] eqn:P2; [|inversion H; subst; unfold ctx_frames; rewrite ?nss_logmsg, ?ctxs_logmsg; auto].
    destruct (is_nil lft); [inversion H; subst; unfold ctx_frames; rewrite ?nss_logmsg, ?ctxs_logmsg; auto|].
    match type of H with context [op_binary ?a ?b ?c ?d ?e] => destruct (op_binary a b c d e) as [[[r1 c3] y]| | |] eqn:O end;
      cbn in H; crunch; try (unfold ctx_frames; rewrite ?nss_logmsg, ?ctxs_logmsg; auto; fail).
    apply op_binary_store in O. destruct O as (O1 & O2 & _). split.
    + destruct O1 as [O1|(s & name & y0 & En & El & Ev & ->)]; [auto|]. right; right. exists n, s, name, y0. auto.
    + destruct O2 as [O2|(nc & f & En & Ec & Ef & Ens & Ev)]; [auto|]. right. exists n, nc, f, lft. repeat split; auto.
  - cbn [exec_instr] in H.
    match type of H with (match ?t with _ => _ end) = _ => destruct t as [[vals c1] ok] eqn:G end.
    inversion H; subst. unfold ctx_frames. destruct ok; rewrite ?nss_logmsg, ?ctxs_logmsg; auto.
  - cbn [exec_instr] in H. inversion H; subst. auto.
Qed.

(* ================================================================ one pass of execute_do and the namespace stack *)
Lemma op_unary_active n v r c r' c' x : op_unary n v r c = Ok (r', c', x) -> r_active r' = r_active r.
Proof. intros H. apply op_unary_store in H. tauto. Qed.
Lemma op_binary_active n l v r c r' c' x : op_binary n l v r c = Ok (r', c', x) -> r_active r' = r_active r.
Proof. intros H. apply op_binary_store in H. tauto. Qed.

Lemma exec_instr_active i r c r' c' : exec_instr i r c = Ok (r', c') -> r_active r' = r_active r.
Proof.
  intros H. destruct i.
  - cbn [exec_instr] in H. inversion H; subst. auto.
  - cbn [exec_instr] in H. crunch; rewrite ?active_logmsg; auto.
  - cbn [exec_instr] in H. crunch; store2; auto.
  - cbn [exec_instr] in H. destruct (String.eqb n ""); crunch; store2; auto.
  - cbn [exec_instr] in H. destruct (op_nular (lower n) r c) as [[[r1 c1] v]| | |] eqn:O; cbn in H; crunch.
    apply op_nular_same in O. destruct O; subst. auto.
  - rewrite exec_unary_eq in H.
    destruct (pop_value c) as [[v c1]|] eqn:P; [|inversion H; subst; apply active_logmsg].
    destruct (is_nil v); [inversion H; subst; apply active_logmsg|].
    destruct (op_unary (lower n) v r c1) as [[[r1 c2] y]| | |] eqn:O; cbn in H; crunch; first [apply active_logmsg | reflexivity | exact (op_unary_active _ _ _ _ _ _ _ O)].
  - rewrite exec_binary_eq in H.
    destruct (pop_value c) as [[v c1]|] eqn:P; [|inversion H; subst; apply active_logmsg].
    destruct (is_nil v); [inversion H; subst; apply active_logmsg|].
    destruct (pop_value c1) as [[lft c2]|] eqn:P2; [|inversion H; subst; apply active_logmsg].
    destruct (is_nil lft); [inversion H; subst; apply active_logmsg|].
    match type of H with context [op_binary ?a ?b ?c ?d ?e] => destruct (op_binary a b c d e) as [[[r1 c3] y]| | |] eqn:O end;
      cbn in H; crunch; first [apply active_logmsg | reflexivity | exact (op_binary_active _ _ _ _ _ _ _ _ O)].
  - cbn [exec_instr] in H.
    match type of H with (match ?t with _ => _ end) = _ => destruct t as [[vals c1] ok] eqn:G end.
    inversion H; subst. destruct ok; rewrite ?active_logmsg; auto.
  - cbn [exec_instr] in H. inversion H; subst. auto.
Qed.

(* the current context stays addressable: its slot exists after the instruction *)
Lemma exec_instr_slot i r c r' c' k x : exec_instr i r c = Ok (r', c') ->
  nth_error (r_ctxs r) k = Some x -> exists y, nth_error (r_ctxs r') k = Some y.
Proof.
  intros H N. destruct (exec_instr_store _ _ _ _ _ H) as (_ & [S|(n & nc & f & l & _ & _ & S & _)]).
  - unfold ctx_frames in S. assert (L : length (r_ctxs r') = length (r_ctxs r)).
    { rewrite <- (map_length c_frames (r_ctxs r')), S. apply map_length. }
    destruct (nth_error (r_ctxs r') k) eqn:E; [eauto|]. apply nth_error_None in E.
    assert (k < length (r_ctxs r)) by (apply nth_error_Some; congruence). lia.
  - rewrite S. rewrite nth_error_app1 by (apply nth_error_Some; congruence). eauto.
Qed.

Lemma cur_upd_cur_slot r c' i y : r_active r = Some i -> nth_error (r_ctxs r) i = Some y -> cur (upd_cur r c') = Some c'.
Proof.
  intros A N. unfold cur, upd_cur. rewrite A. cbn. rewrite A. eapply nth_error_list_upd_same; eauto.
Qed.

Lemma skipn_add {A} : forall b a (l:list A), skipn a (skipn b l) = skipn (b + a) l.
Proof.
  induction b as [|b IH]; intros a l; [reflexivity|]. destruct l as [|x l]; cbn; [now destruct a|apply IH].
Qed.

Lemma handle_error_ns : forall fuel r c msgs skip rec r' c',
  handle_error fuel r c msgs skip = Ok (rec, r', c') ->
  same_store r r' /\ exists k, ns_of c' = skipn k (ns_of c).
Proof.
  induction fuel as [|fuel IH]; intros r c msgs skip rec r' c' H; [discriminate|].
  cbn [handle_error] in H.
  destruct (find_handler (skipn skip (c_frames c)) skip) as [k|].
  2:{ inversion H; subst. split; [apply same_store_refl|]. exists 0. reflexivity. }
  unfold bindr in H.
  match type of H with context [err_enact r ?cc 0] => destruct (err_enact r cc 0) as [[[failed r3] c3]| | |] eqn:En end; try discriminate.
  apply err_enact_ns in En. destruct En as (Ns & St).
  rewrite ns_of_drop in Ns. change (ns_of (push_value c _)) with (ns_of c) in Ns.
  destruct failed.
  - apply IH in H. destruct H as (St2 & k2 & N2). split; [eapply same_store_trans; eauto|].
    assert (N3 : ns_of (match pop_value c3 with Some (_, c'0) => c'0 | None => c3 end) = ns_of c3).
    { destruct (pop_value c3) as [[y c4]|] eqn:P; [|reflexivity]. pops. reflexivity. }
    exists (k + k2). rewrite N2, N3, Ns. apply skipn_add.
  - inversion H; subst. split; [exact St|]. exists k. exact Ns.
Qed.

Lemma on_error_ns r c rec r' : cur r = Some c -> on_error r = Ok (rec, r') ->
  exists c', cur r' = Some c' /\ exists k, ns_of c' = skipn k (ns_of c).
Proof.
  intros C H. unfold on_error in H.
  assert (C1 : cur (set_msgs r []) = Some c) by exact C.
  rewrite C1 in H. unfold bindr in H.
  destruct (handle_error _ _ _ _ _) as [[[rc r2] c2]| | |] eqn:HE; try discriminate.
  apply handle_error_ns in HE. destruct HE as (St & k & Ns).
  assert (C2 : cur r2 = Some c) by (rewrite (cur_same_store _ _ St); exact C1).
  exists c2. split; [|eauto].
  destruct rc; inversion H; subst; clear H.
  - change (cur (upd_cur r2 c2) = Some c2). eapply cur_upd_cur; eauto.
  - transitivity (cur (logmsg (upd_cur r2 c2) d_Stacktrace)); [reflexivity|].
    rewrite (cur_same_store _ _ (same_store_logmsg _ _)). eapply cur_upd_cur; eauto.
Qed.

Lemma ns_after_drop c c1 c5 c' k :
  ns_of c1 = ns_of c -> cur_ns c1 = cur_ns c ->
  (ns_step c1 c5 \/ exists s, ns_of c5 = s :: ns_of c1) ->
  ns_of c' = skipn k (ns_of c5) ->
  ns_step c c' \/ (k = 0 /\ exists s, ns_of c5 = s :: ns_of c1).
Proof.
  intros N Cn [S|(s & W)] D.
  - left. destruct S as [S|S|j S].
    + apply (NsDrop _ _ k). congruence.
    + destruct k as [|k]; [apply NsPush; cbn in D; congruence|].
      apply (NsDrop _ _ k). rewrite D, S. cbn. congruence.
    + apply (NsDrop _ _ (j + k)). rewrite D, S, N. apply skipn_add.
  - destruct k as [|k]; [right; eauto|]. left. apply (NsDrop _ _ k). rewrite D, W. cbn. congruence.
Qed.

Lemma ns_step_transport2 c1 c2 c c' :
  ns_step c1 c2 -> ns_of c1 = ns_of c -> cur_ns c1 = cur_ns c -> ns_of c' = ns_of c2 -> ns_step c c'.
Proof. intros [S|S|k S] N Cn E'; [apply NsSame|apply NsPush|apply (NsDrop _ _ k)]; congruence. Qed.

Lemma do_iter_ns r c it : cur r = Some c -> do_iter r = Ok it ->
  exists c', cur (iter_rt it) = Some c' /\ (ns_step c c' \/ with_do_pass c c').
Proof.
  intros C H. unfold do_iter in H. rewrite C in H.
  assert (Same : forall x, exists c', cur (iter_rt (Return x r)) = Some c' /\ (ns_step c c' \/ with_do_pass c c')).
  { intros x. exists c. split; [exact C|]. left. now apply NsSame. }
  destruct (r_exit_req r); [inversion H; subst; apply Same|].
  destruct (c_suspended c); [inversion H; subst; apply Same|].
  destruct (c_frames c) as [|f rest] eqn:E; [inversion H; subst; apply Same|].
  destruct (r_state r); try (inversion H; subst; apply Same).
  unfold bindr at 1 in H.
  destruct (frame_next frame_fuel r c) as [[[fr r1] c1]| | |] eqn:FN; try discriminate.
  destruct (frame_next_effect _ _ _ _ _ _ _ _ FN E) as (St & f1 & E1 & (Sns & _) & _).
  assert (N1 : ns_of c1 = ns_of c) by (unfold ns_of; rewrite E1, E; cbn; now rewrite Sns).
  assert (Cn1 : cur_ns c1 = cur_ns c) by (unfold cur_ns; now rewrite E1, E).
  assert (C1 : cur r1 = Some c) by (rewrite (cur_same_store _ _ St); exact C).
  assert (U1 : forall cc, cur (upd_cur r1 cc) = Some cc) by (intros; eapply cur_upd_cur; exact C1).
  destruct (r_err r1).
  { (* the exit behaviour raised an error *)
    unfold bindr in H. destruct (on_error (upd_cur r1 c1)) as [[rc r2]| | |] eqn:OE; try discriminate.
    destruct (on_error_ns _ _ _ _ (U1 c1) OE) as (c' & C' & k & D).
    exists c'. split; [destruct rc; inversion H; subst; exact C'|]. left. apply (NsDrop _ _ k). congruence. }
  assert (EX : forall i, current_instr c1 = Some i ->
     (let '(expired, r2) := if Z.eqb (r_max_runtime r1) 0 then (false, r1)
                            else let (t, r'0) := now r1 in (Z.ltb (r_max_runtime r1 + r_run_ts r1) t, r'0) in
      if expired
      then Ok (Return RRuntimeError (set_msgs (set_errflag (set_exit_req (logmsg (upd_cur r2 c1) d_MaximumRuntimeReached) true) false) []))
      else bindr (exec_instr i r2 c1) (fun '(r3, c5) =>
             let r4 := upd_cur r3 c5 in
             if negb (r_err r4) then Ok (Executed (set_msgs r4 []))
             else bindr (on_error r4) (fun '(recovered, r5) =>
                    if recovered then Ok (Executed r5) else Ok (Return RRuntimeError r5)))) = Ok it ->
     exists c', cur (iter_rt it) = Some c' /\ (ns_step c c' \/ with_do_pass c c')).
  { intros i CI HH.
    assert (R2 : exists ex r2, (if Z.eqb (r_max_runtime r1) 0 then (false, r1)
                                else let (t, r'0) := now r1 in (Z.ltb (r_max_runtime r1 + r_run_ts r1) t, r'0)) = (ex, r2)
                               /\ same_store r1 r2).
    { destruct (Z.eqb (r_max_runtime r1) 0); [exists false, r1; split; [reflexivity|apply same_store_refl]|].
      unfold now. eexists; eexists; split; [reflexivity|]. repeat split. }
    destruct R2 as (ex & r2 & R2e & St2). rewrite R2e in HH.
    assert (C2 : cur r2 = Some c) by (rewrite (cur_same_store _ _ St2); exact C1).
    destruct ex.
    - inversion HH; subst; clear HH. exists c1. split; [|left; now apply NsSame].
      change (cur (logmsg (upd_cur r2 c1) d_MaximumRuntimeReached) = Some c1).
      rewrite (cur_same_store _ _ (same_store_logmsg _ _)). eapply cur_upd_cur; exact C2.
    - unfold bindr at 1 in HH. destruct (exec_instr i r2 c1) as [[r3 c5]| | |] eqn:EI; try discriminate.
      (* the slot of the current context survives the instruction *)
      assert (U3 : cur (upd_cur r3 c5) = Some c5).
      { unfold cur in C2. destruct (r_active r2) as [idx|] eqn:A2; [|discriminate].
        destruct (exec_instr_slot _ _ _ _ _ _ _ EI C2) as (y & Y).
        eapply cur_upd_cur_slot; [rewrite (exec_instr_active _ _ _ _ _ EI); exact A2|exact Y]. }
      pose proof (exec_instr_ns _ _ _ _ _ EI) as NS.
      assert (NS' : ns_step c1 c5 \/ exists s, ns_of c5 = s :: ns_of c1).
      { destruct NS as [NS|(n & s & body & vs & _ & _ & _ & W)]; [left; exact NS|right; eauto]. }
      assert (WD : (exists s, ns_of c5 = s :: ns_of c1) -> ns_step c1 c5 \/ with_do_pass c c5).
      { intros _. destruct NS as [NS|(n & s & body & vs & Ei & Ln & Vs & W)]; [left; exact NS|].
        right. exists c1, n, s, body, vs. subst i. repeat split; auto. congruence. }
      cbv zeta in HH. destruct (negb (r_err (upd_cur r3 c5))).
      + inversion HH; subst; clear HH. exists c5. split; [exact U3|].
        destruct NS as [NS|(n & s & body & vs & Ei & Ln & Vs & W)].
        * left. eapply ns_step_transport2; [exact NS|exact N1|exact Cn1|reflexivity].
        * right. exists c1, n, s, body, vs. subst i. repeat split; auto. congruence.
      + unfold bindr in HH. destruct (on_error (upd_cur r3 c5)) as [[rc r5]| | |] eqn:OE; try discriminate.
        destruct (on_error_ns _ _ _ _ U3 OE) as (c' & C' & k & D).
        exists c'. split; [destruct rc; inversion HH; subst; exact C'|].
        destruct (ns_after_drop c c1 c5 c' k N1 Cn1 NS' D) as [L|(K0 & W)]; [left; exact L|].
        subst k. cbn in D. destruct (WD W) as [S|Wp].
        * left. destruct S as [S|S|j S]; [apply NsSame|apply NsPush|apply (NsDrop _ _ j)]; congruence.
        * right. destruct Wp as (c1' & n & s & body & vs & A1 & A2 & A3 & A4 & A5).
          exists c1', n, s, body, vs. repeat split; auto. congruence. }
  destruct fr.
  - destruct (Nat.eqb (length (c_frames c1)) (length (f :: rest))).
    + (* frame completion *)
      inversion H; subst; clear H. eexists. split; [apply U1|]. left. apply (NsDrop _ _ 1).
      assert (T : c_frames (pop_frame (clear_values c1)) = rest) by (cbn; rewrite frames_clear_values, E1; reflexivity).
      assert (T2 : forall cc, c_frames cc = rest -> ns_of cc = skipn 1 (ns_of c)).
      { intros cc Ec. unfold ns_of. rewrite Ec, E. reflexivity. }
      apply T2.
      destruct (pop_value c1) as [[v c2]|] eqn:P.
      * pops. cbn. rewrite frames_clear_values. cbn. rewrite E1. reflexivity.
      * destruct (defect r "block_value_dropped"); [exact T|].
        rewrite <- T. exact (frames_push_nil_if (pop_frame (clear_values c1))).
    + destruct (current_instr c1) as [i|] eqn:CI; [|discriminate]. exact (EX i eq_refl H).
  - destruct (current_instr c1) as [i|] eqn:CI; [|discriminate]. exact (EX i eq_refl H).
  - (* an empty scope restarted: only the deadline is looked at *)
    assert (R2 : exists ex r2, (if Z.eqb (r_max_runtime r1) 0 then (false, r1)
                                else let (t, r'0) := now r1 in (Z.ltb (r_max_runtime r1 + r_run_ts r1) t, r'0)) = (ex, r2)
                               /\ same_store r1 r2).
    { destruct (Z.eqb (r_max_runtime r1) 0); [exists false, r1; split; [reflexivity|apply same_store_refl]|].
      unfold now. eexists; eexists; split; [reflexivity|]. repeat split. }
    destruct R2 as (ex & r2 & R2e & St2). rewrite R2e in H.
    assert (C2 : cur r2 = Some c) by (rewrite (cur_same_store _ _ St2); exact C1).
    destruct ex; inversion H; subst; clear H; exists c1; (split; [|left; now apply NsSame]).
    + change (cur (logmsg (upd_cur r2 c1) d_MaximumRuntimeReached) = Some c1).
      rewrite (cur_same_store _ _ (same_store_logmsg _ _)). eapply cur_upd_cur; exact C2.
    + cbn. eapply cur_upd_cur; exact C2.
Qed.

(* ================================================================ the statements of Properties_C03.v *)
Lemma lookup_innermost c n :
  (forall v, get_variable c n = Some v <->
     exists pre f post, c_frames c = pre ++ f :: post /\ Forall (passes (lower n)) pre /\
                        assoc (lower n) (f_vars f) = Some v) /\
  (get_variable c n = None <->
     Forall (passes (lower n)) (c_frames c) \/
     exists pre f post, c_frames c = pre ++ f :: post /\ Forall (passes (lower n)) pre /\
                        lacks (lower n) f /\ f_bubble f = false) /\
  (forall m, lower m = lower n -> get_variable c m = get_variable c n).
Proof.
  split; [intros v; apply lookup_frames_some|]. split; [apply lookup_frames_none|].
  intros m E. now apply get_variable_case.
Qed.

Lemma assign_updates_nearest_else_current n r c r' c' :
  is_local n = true -> exec_instr (IAssign n) r c = Ok (r', c') ->
  same_store r r' /\
  ((pop_value c = None /\ c' = c) \/
   exists v, c_values c = v :: c_values c' /\
     assigned (lower n) v (c_frames c) (c_frames c') /\
     c' = set_frames (set_values c (c_values c')) (c_frames c') /\
     Forall2 (fun g g' => g' = set_vars g (f_vars g')) (c_frames c) (c_frames c') /\
     (forall k', k' <> lower n ->
        Forall2 (fun g g' => assoc k' (f_vars g') = assoc k' (f_vars g)) (c_frames c) (c_frames c')) /\
     (Forall (fun g => f_bubble g = true) (c_frames c) -> get_variable c' n = Some v) /\
     (forall m, lower m <> lower n -> get_variable c' m = get_variable c m)).
Proof.
  intros L H. destruct (exec_assign_local _ _ _ _ _ L H) as (St & [N|(v & EV & As & Ec)]); (split; [exact St|]); [left; exact N|].
  right. exists v. split; [exact EV|]. split; [exact As|]. split; [exact Ec|].
  split; [eapply assigned_only_vars; eauto|]. split; [eapply assigned_other_keys; eauto|].
  split; [intros B; unfold get_variable; eapply assigned_read_back; eauto|].
  intros m Nm. unfold get_variable. eapply assigned_read_other; eauto.
Qed.

Lemma private_string_current_only s r c r' c' x f rest :
  op_unary "private" (VStr s) r c = Ok (r', c', x) -> c_frames c = f :: rest ->
  r' = r /\ x = VNil /\
  exists vars, c_frames c' = set_vars f vars :: rest /\ declared [lower s] (f_vars f) vars /\
               c' = set_frames c (c_frames c') /\
               (lacks (lower s) f -> get_variable c' s = Some VNil) /\
               (forall v, assoc (lower s) (f_vars f) = Some v -> get_variable c' s = Some v).
Proof.
  intros H E. apply op_private_string in H. destruct H as (-> & -> & ->). split; [reflexivity|]. split; [reflexivity|].
  destruct (declare_top_var_frames c s f rest E) as (vars & F & M & R). exists vars.
  assert (D : declared [lower s] (f_vars f) vars).
  { intros k. rewrite (M k). cbn. destruct (assoc k (f_vars f)); [reflexivity|]. destruct (String.eqb k (lower s)); reflexivity. }
  split; [exact F|]. split; [exact D|]. split; [exact R|].
  unfold get_variable. rewrite F. cbn. rewrite (M (lower s)), String.eqb_refl. split.
  - unfold lacks. intros ->. reflexivity.
  - intros v ->. reflexivity.
Qed.

Lemma private_array_current_only l r c r' c' x f rest :
  op_unary "private" (VArr l) r c = Ok (r', c', x) -> c_frames c = f :: rest ->
  r' = r /\ x = VNil /\
  exists vars, c_frames c' = set_vars f vars :: rest /\ declared (names_of l) (f_vars f) vars /\
               c' = set_frames c (c_frames c').
Proof.
  intros H E. apply op_private_array in H. destruct H as (-> & -> & _ & ->). split; [reflexivity|]. split; [reflexivity|].
  exact (fold_declare_frames l c f rest E).
Qed.

Lemma get_set_variable_same_storage s name name' x r c r1 c1 y :
  op_binary "setvariable" (VNs s) (VArr [VStr name; x]) r c = Ok (r1, c1, y) -> lower name' = lower name ->
  op_binary "getvariable" (VNs s) (VStr name') r1 c1 = Ok (r1, c1, x) /\
  (forall d, op_binary "getvariable" (VNs s) (VArr [VStr name'; d]) r1 c1 = Ok (r1, c1, x)) /\
  (forall f rest, c_frames c1 = f :: rest -> f_ns f = s -> is_local name' = false ->
     exec_instr (IGet name') r1 c1 = Ok (r1, push_value c1 x)) /\
  (forall s' m, s' <> s \/ lower m <> lower name -> ns_get r1 s' m = ns_get r s' m) /\
  r_ctxs r1 = r_ctxs r /\ c1 = c.
Proof.
  intros H E. apply op_setvariable in H. destruct H as (-> & -> & ->).
  assert (G : ns_get (ns_set r s name x) s name' = Some x) by (apply ns_get_set_same; congruence).
  split; [rewrite op_getvariable_string, G; reflexivity|].
  split; [intros d; rewrite op_getvariable_default, G; reflexivity|].
  split; [intros f rest Ef En L; rewrite (exec_get_global _ _ _ _ _ L Ef), En, G; reflexivity|].
  split; [|split; reflexivity].
  intros s' m [N|N].
  - now apply ns_get_set_other_ns.
  - destruct (String.eqb s' s) eqn:Es.
    + apply String.eqb_eq in Es. subst s'. apply ns_get_set_other_name. congruence.
    + apply String.eqb_neq in Es. now apply ns_get_set_other_ns.
Qed.

Lemma assign_global_read_back n r c r' c' v c1 f rest :
  is_local n = false -> n <> "" -> pop_value c = Some (v, c1) -> c_frames c = f :: rest ->
  exec_instr (IAssign n) r c = Ok (r', c') ->
  c' = c1 /\ r_nss r' = r_nss (ns_set r (f_ns f) n v) /\ r_ctxs r' = r_ctxs r /\
  (forall m, lower m = lower n ->
     op_binary "getvariable" (VNs (f_ns f)) (VStr m) r' c' = Ok (r', c', v) /\
     (forall g rs, c_frames c' = g :: rs -> f_ns g = f_ns f -> is_local m = false ->
        exec_instr (IGet m) r' c' = Ok (r', push_value c' v))) /\
  (forall s' m, s' <> f_ns f \/ lower m <> lower n -> ns_get r' s' m = ns_get r s' m).
Proof.
  intros L N P E H. destruct (exec_assign_global _ _ _ _ _ L N H) as [(P0 & _)|(v0 & f0 & rest0 & P1 & E1 & Fr & Nss & Cx & G)];
    [congruence|].
  rewrite P in P1. inversion P1; subst v0 c'. rewrite E in E1. inversion E1; subst f0 rest0.
  split; [reflexivity|]. split; [exact Nss|]. split; [exact Cx|].
  assert (Q : forall s' m, ns_get r' s' m = ns_get (ns_set r (f_ns f) n v) s' m).
  { intros. unfold ns_get. now rewrite Nss. }
  split.
  - intros m Em. assert (G' : ns_get r' (f_ns f) m = Some v) by (rewrite (ns_get_case _ _ _ _ Em); exact G).
    split; [rewrite op_getvariable_string, G'; reflexivity|].
    intros g rs Eg Ens Lm. rewrite (exec_get_global _ _ _ _ _ Lm Eg), Ens, G'. reflexivity.
  - intros s' m [D|D]; rewrite Q.
    + now apply ns_get_set_other_ns.
    + destruct (String.eqb s' (f_ns f)) eqn:Es.
      * apply String.eqb_eq in Es. subst s'. apply ns_get_set_other_name. congruence.
      * apply String.eqb_neq in Es. now apply ns_get_set_other_ns.
Qed.

Lemma globals_case_insensitive r ns n m : lower n = lower m ->
  ns_get r ns n = ns_get r ns m /\ (forall v, ns_set r ns n v = ns_set r ns m v) /\
  (forall c f rest, is_local n = false -> is_local m = false -> c_frames c = f :: rest ->
     exec_instr (IGet n) r c = exec_instr (IGet m) r c).
Proof.
  intros E. split; [now apply ns_get_case|]. split; [intros; now apply ns_set_case|].
  intros c f rest Ln Lm Ef. rewrite (exec_get_global _ _ _ _ _ Ln Ef), (exec_get_global _ _ _ _ _ Lm Ef).
  now rewrite (ns_get_case _ _ _ _ E).
Qed.
