(* C02 - control structures.  Characterisation lemmas of the VM model's control-structure operators and exit
   behaviours (for ALL arguments, states and arrays), and laws of the reference semantics.  The end-to-end tie
   between the reference semantics (RefSem.v) and the implementation is the program-level differential of
   checks/C02.py; the general simulation VM-model <= RefSem is NOT proved here (see Properties_C02.v header). *)
From Coq Require Import String Ascii.
From Coq Require Import ZArith List Bool Lia.
From SqfVerif Require Import Gen.DiagCodes Gen.Overloads VM.VmDefs VM.VmExec VM.RefSem.
Import ListNotations.
Local Open Scope string_scope.
Local Open Scope list_scope.

(* ---------------------------------------------------------------- the compiler is the post-order of the source *)
Lemma compile_code b : compile_expr (ECode b) = [IPush (VCode (compile_block b))].
Proof.
  cbn [compile_expr]. unfold compile_block.
  match goal with |- [IPush (VCode (?g true b))] = _ => assert (G : forall first b, g first b = compile_block_from first b) end.
  { intros first b0. revert first. induction b0 as [|s r IH]; intros first; [reflexivity|].
    simpl. rewrite IH. destruct s; reflexivity. }
  now rewrite G.
Qed.

Lemma compile_binary n l r : compile_expr (EBinary n l r) = compile_expr l ++ compile_expr r ++ [IBinary (lower n)].
Proof. reflexivity. Qed.

Lemma compile_array l : compile_expr (EArr l) = flat_map compile_expr l ++ [IMakeArray (length l)].
Proof.
  reflexivity.
Qed.

(* ---------------------------------------------------------------- lazy evaluation, if/then/else, exitWith *)
(* the right side of && / || is entered only when needed: no frame is pushed otherwise *)
Lemma lazy_and_skips r c body : op_binary "&&" (VBool false) (VCode body) r c = Ok (r, c, VBool false).
Proof. reflexivity. Qed.
Lemma lazy_or_skips r c body : op_binary "||" (VBool true) (VCode body) r c = Ok (r, c, VBool true).
Proof. reflexivity. Qed.
Lemma lazy_and_enters r c body : op_binary "&&" (VBool true) (VCode body) r c =
  Ok (r, push_frame c (mk_frame (cur_ns c) body None None []), VNil).
Proof. reflexivity. Qed.
Lemma lazy_or_enters r c body : op_binary "||" (VBool false) (VCode body) r c =
  Ok (r, push_frame c (mk_frame (cur_ns c) body None None []), VNil).
Proof. reflexivity. Qed.

Lemma if_then_false r c body : op_binary "then" (VIf false) (VCode body) r c = Ok (r, c, VNil).
Proof. reflexivity. Qed.
Lemma if_then_true r c body : op_binary "then" (VIf true) (VCode body) r c =
  Ok (r, push_frame c (mk_frame (cur_ns c) body None None []), VNil).
Proof. reflexivity. Qed.
Lemma if_then_else r c b a e : op_binary "then" (VIf b) (VArr [VCode a; VCode e]) r c =
  Ok (r, push_frame c (mk_frame (cur_ns c) (if b then a else e) None None []), VNil).
Proof. reflexivity. Qed.
(* exactly one of the two blocks is entered, chosen by the condition *)

(* exitWith: the current scope is moved to its end and marked dead (its exit behaviour - e.g. a loop - will not
   run again), the handler block is entered on top of it *)
Lemma exitwith_true r c body : op_binary "exitwith" (VIf true) (VCode body) r c =
  Ok (r, push_frame (upd_top c (fun f => set_die (set_pos f (S (length (f_code f)))) true)) (mk_frame (cur_ns c) body None None []), VNil).
Proof. reflexivity. Qed.
Lemma exitwith_false r c body : op_binary "exitwith" (VIf false) (VCode body) r c = Ok (r, c, VNil).
Proof. reflexivity. Qed.

(* a dead frame at its end completes without consulting its exit behaviour: an exitWith inside a loop body ends the loop *)
Lemma dead_frame_is_done fuel r c f rest : c_frames c = f :: rest -> at_end f = true -> f_die f = true ->
  frame_next (S fuel) r c = Ok (FDone, r, c).
Proof.
  intros E A D. cbn [frame_next]. rewrite E, A. destruct (f_exit f) as [b|].
  - rewrite A, D. cbn. rewrite <- E. destruct c; reflexivity.
  - rewrite <- E. destruct c; reflexivity.
Qed.

(* ---------------------------------------------------------------- iteration: forEach, count, select, apply, findIf *)
(* forEach enters the body once per element: bindings of the first iteration ... *)
Lemma foreach_enter r c body x arr : op_binary "foreach" (VCode body) (VArr (x :: arr)) r c =
  Ok (r, push_frame c (mk_frame (cur_ns c) body (Some (BForEach (x :: arr) 0)) None [("_x", x); ("_foreachindex", VNum 0)]), VNil).
Proof. reflexivity. Qed.
Lemma foreach_empty r c body : op_binary "foreach" (VCode body) (VArr []) r c = Ok (r, c, VNil).
Proof. reflexivity. Qed.
(* ... and of every following one: after iteration idx the body restarts with _x = arr[idx+1], _forEachIndex = idx+1 and
   an empty region, or the loop ends after the last element *)
Lemma foreach_next r c arr idx : S idx <> length arr ->
  enact (BForEach arr idx) r c = Ok (BrSeekStart, BForEach arr (S idx), r,
    restart_with c [("_foreachindex", VNum (Z.of_nat (S idx))); ("_x", nth_val arr (S idx))]).
Proof. intros H. cbn [enact]. destruct (Nat.eqb_spec (S idx) (length arr)); [contradiction|reflexivity]. Qed.
Lemma foreach_last r c arr idx : S idx = length arr -> enact (BForEach arr idx) r c = Ok (BrOk, BForEach arr (S idx), r, c).
Proof. intros H. cbn [enact]. rewrite H, Nat.eqb_refl. reflexivity. Qed.
(* hence the body runs exactly (length arr) times: the index goes 0, 1, ..., length arr - 1 *)

Lemma count_step r c arr idx cnt t c1 : pop_value c = Some (VBool t, c1) -> S idx <> length arr ->
  enact (BCount arr idx cnt) r c = Ok (BrSeekStart, BCount arr (S idx) (if t then cnt + 1 else cnt)%Z, r,
                                       restart_with c1 [("_x", nth_val arr (S idx))]).
Proof. intros P H. cbn [enact]. rewrite P. destruct (Nat.eqb_spec (S idx) (length arr)); [contradiction|reflexivity]. Qed.
Lemma count_last r c arr idx cnt t c1 : pop_value c = Some (VBool t, c1) -> S idx = length arr ->
  enact (BCount arr idx cnt) r c = Ok (BrOk, BCount arr (S idx) (if t then cnt + 1 else cnt)%Z, r,
                                       push_value c1 (VNum (if t then cnt + 1 else cnt)%Z)).
Proof. intros P H. cbn [enact]. rewrite P, H, Nat.eqb_refl. reflexivity. Qed.

Lemma select_step r c arr out idx t c1 : pop_value c = Some (VBool t, c1) -> S idx <> length arr ->
  enact (BSelect arr out idx) r c = Ok (BrSeekStart, BSelect arr (if t then out ++ [nth_val arr idx] else out) (S idx), r,
                                        restart_with c1 [("_x", nth_val arr (S idx))]).
Proof. intros P H. cbn [enact]. rewrite P. destruct (Nat.eqb_spec (S idx) (length arr)); [contradiction|reflexivity]. Qed.
Lemma apply_step r c arr out idx v c1 : pop_value c = Some (v, c1) -> S idx <> length arr ->
  enact (BApply arr out idx) r c = Ok (BrSeekStart, BApply arr (out ++ [v]) (S idx), r, restart_with c1 [("_x", nth_val arr (S idx))]).
Proof. intros P H. cbn [enact]. rewrite P. destruct (Nat.eqb_spec (S idx) (length arr)); [contradiction|reflexivity]. Qed.
Lemma apply_last r c arr out idx v c1 : pop_value c = Some (v, c1) -> S idx = length arr ->
  enact (BApply arr out idx) r c = Ok (BrOk, BApply arr (out ++ [v]) (S idx), r, push_value c1 (VArr (out ++ [v]))).
Proof. intros P H. cbn [enact]. rewrite P, H, Nat.eqb_refl. reflexivity. Qed.
Lemma findif_found r c arr idx c1 : pop_value c = Some (VBool true, c1) ->
  enact (BFindIf arr idx) r c = Ok (BrOk, BFindIf arr idx, r, push_value c1 (VNum (Z.of_nat idx))).
Proof. intros P. cbn [enact]. rewrite P. reflexivity. Qed.
Lemma findif_none r c arr idx c1 : pop_value c = Some (VBool false, c1) -> S idx = length arr ->
  enact (BFindIf arr idx) r c = Ok (BrOk, BFindIf arr (S idx), r, push_value c1 (VNum (-1))).
Proof. intros P H. cbn [enact]. rewrite P, H, Nat.eqb_refl. reflexivity. Qed.

(* ---------------------------------------------------------------- for *)
(* the loop runs while the variable (read back from the scope) plus the step stays within the bound *)
Lemma for_skips r c var from to step body :
  (step <> 0 /\ (if 0 <? step then to <? from else from <? to) = true)%Z ->
  op_binary "do" (VFor var from to step) (VCode body) r c = Ok (r, c, VNil).
Proof.
  intros [Hs Hc]. cbn [op_binary]. cbv beta iota delta [String.eqb Ascii.eqb Bool.eqb]. cbn.
  destruct (Z.eqb_spec step 0); [contradiction|]. cbn. rewrite Hc. reflexivity.
Qed.
Lemma for_next r c f rest var to step x : c_frames c = f :: rest -> assoc (lower var) (f_vars f) = Some (VNum x) ->
  enact (BFor var to step) r c =
  if (if 0 <=? step then to <? x + step else x + step <? to)%Z then Ok (BrOk, BFor var to step, r, c)
  else Ok (BrSeekStart, BFor var to step, r, restart_with c [(lower var, VNum (x + step))]).
Proof. intros E A. cbn [enact]. rewrite E, A. reflexivity. Qed.

(* ---------------------------------------------------------------- while *)
Lemma while_cond_false r c l cond body c1 : pop_value c = Some (VBool false, c1) ->
  enact (BWhile l WCond cond body) r c = Ok (BrOk, BWhile l WCond cond body, r, c1).
Proof. intros P. cbn [enact]. rewrite P. reflexivity. Qed.
Lemma while_cond_true r c l cond b bs c1 : pop_value c = Some (VBool true, c1) ->
  enact (BWhile l WCond cond (b :: bs)) r c = Ok (BrExchange (b :: bs), BWhile l WCode cond (b :: bs), r, restart_with c1 []).
Proof. intros P. cbn [enact]. rewrite P. reflexivity. Qed.

(* ---------------------------------------------------------------- switch: first matching case wins, fall-through, default *)
Definition sw_of (v:value) (tgt:code) (now has:bool) := VSwitch v tgt now has.
(* `case x` arms the switch when x equals the switch value (and never disarms it: fall-through `case 1; case 2: {..}`) *)
Lemma case_arms c r v sv tgt nw hs : get_variable c "___switch" = Some (VSwitch sv tgt nw hs) ->
  op_unary "case" v r c = Ok (r, assign_local_var c "___switch" (VSwitch sv tgt (if veqb true v sv then true else nw) hs),
                              VSwitch sv tgt (if veqb true v sv then true else nw) hs).
Proof. intros G. cbn [op_unary]. cbv beta iota delta [String.eqb Ascii.eqb Bool.eqb]. cbn. rewrite G. reflexivity. Qed.
(* `: {code}` takes the block only for the FIRST armed case (has_match false), then skips the rest of the switch body *)
Lemma colon_takes c r l body sv tgt : get_variable c "___switch" = Some (VSwitch sv tgt true false) ->
  op_binary ":" (VSwitch l [] false false) (VCode body) r c =
  Ok (r, upd_top (assign_local_var c "___switch" (VSwitch sv body false true)) (fun f => set_pos f (S (length (f_code f)))), VNil).
Proof. intros G. cbn [op_binary]. cbv beta iota delta [String.eqb Ascii.eqb Bool.eqb]. cbn. rewrite G. reflexivity. Qed.
Lemma colon_ignored_after_match c r l body sv tgt nw : get_variable c "___switch" = Some (VSwitch sv tgt nw true) ->
  op_binary ":" (VSwitch l [] false false) (VCode body) r c = Ok (r, c, VNil).
Proof. intros G. cbn [op_binary]. cbv beta iota delta [String.eqb Ascii.eqb Bool.eqb]. cbn. rewrite G. destruct nw; reflexivity. Qed.
Lemma colon_ignored_unarmed c r l body sv tgt hs : get_variable c "___switch" = Some (VSwitch sv tgt false hs) ->
  op_binary ":" (VSwitch l [] false false) (VCode body) r c = Ok (r, c, VNil).
Proof. intros G. cbn [op_binary]. cbv beta iota delta [String.eqb Ascii.eqb Bool.eqb]. cbn. rewrite G. destruct hs; reflexivity. Qed.
(* `default {code}` is remembered only while no case has matched; a later matching case replaces it *)
Lemma default_sets c r body sv tgt nw : get_variable c "___switch" = Some (VSwitch sv tgt nw false) ->
  op_unary "default" (VCode body) r c = Ok (r, assign_local_var c "___switch" (VSwitch sv body nw false), VNil).
Proof. intros G. cbn [op_unary]. cbv beta iota delta [String.eqb Ascii.eqb Bool.eqb]. cbn. rewrite G. reflexivity. Qed.
Lemma default_ignored_after_match c r body sv tgt nw : get_variable c "___switch" = Some (VSwitch sv tgt nw true) ->
  op_unary "default" (VCode body) r c = Ok (r, assign_local_var c "___switch" (VSwitch sv tgt nw true), VNil).
Proof. intros G. cbn [op_unary]. cbv beta iota delta [String.eqb Ascii.eqb Bool.eqb]. cbn. rewrite G. reflexivity. Qed.
(* after the body, exactly the chosen block runs (once), in the switch scope *)
Lemma switch_runs_target r c f rest sv t ts nw hs : c_frames c = f :: rest ->
  assoc "___switch" (f_vars f) = Some (VSwitch sv (t :: ts) nw hs) ->
  enact (BSwitch false) r c = Ok (BrExchange (t :: ts), BSwitch true, r, c).
Proof. intros E A. cbn [enact]. rewrite E, A. reflexivity. Qed.
Lemma switch_runs_once r c : enact (BSwitch true) r c = Ok (BrOk, BSwitch true, r, c).
Proof. reflexivity. Qed.

(* ---------------------------------------------------------------- call, try/catch/throw, breakOut *)
Lemma call_binary_enters r c a body : op_binary "call" a (VCode body) r c =
  Ok (r, push_frame c (mk_frame (cur_ns c) body None None [("_this", a)]), VNil).
Proof. reflexivity. Qed.

(* ---------------------------------------------------------------- laws of the reference semantics *)
(* the right side of a lazy && / || is not evaluated when the left side decides: state and trace unchanged *)
Lemma ref_lazy_and_skips f s b : eval (S (S (S f))) s (EBinary "&&" (EBool false) (ECode b)) = (ONormal (RBool false), s).
Proof. reflexivity. Qed.
Lemma ref_lazy_or_skips f s b : eval (S (S (S f))) s (EBinary "||" (EBool true) (ECode b)) = (ONormal (RBool true), s).
Proof. reflexivity. Qed.
(* if (false) then {...} runs nothing and yields nil; exitWith with a false condition does nothing *)
Lemma ref_if_false f s b : eval (S (S (S (S f)))) s (EBinary "then" (EUnary "if" (EBool false)) (ECode b)) = (ONormal RNil, s).
Proof. reflexivity. Qed.
Lemma ref_exitwith_false f s b : eval (S (S (S (S f)))) s (EBinary "exitWith" (EUnary "if" (EBool false)) (ECode b)) = (ONormal RNil, s).
Proof. reflexivity. Qed.
(* forEach over the empty array runs nothing *)
Lemma ref_foreach_empty f s b : eval (S (S (S f))) s (EBinary "forEach" (ECode b) (EArr [])) = (ONormal RNil, s).
Proof. reflexivity. Qed.
(* a block's value is the value of its last statement; an assignment contributes none *)
Lemma ref_block_last f s e v s1 : eval f s e = (ONormal v, s1) -> v <> RNone ->
  eval_block (S f) s [SExpr e] RNil = (ONormal v, s1).
Proof. intros H NV. cbn [eval_block]. rewrite H. destruct v; try reflexivity. contradiction. Qed.

(* the reference semantics is a function of the program and its fuel: runs are deterministic *)
Lemma ref_deterministic f p : forall o1 o2, run_ref f p = o1 -> run_ref f p = o2 -> o1 = o2.
Proof. intros; congruence. Qed.
