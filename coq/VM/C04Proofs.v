(* C04 - runtime errors are never silent, skipped or leaked: proofs about the shared VM model
   (VM/VmDefs.v, VM/VmExec.v).  Shape lemmas about the operators are in VM/C04Shape.v. *)
From Coq Require Import String Ascii.
From Coq Require Import ZArith List Bool Lia.
From SqfVerif Require Import Gen.DiagCodes VM.VmDefs VM.VmExec VM.C04Defs VM.C04Shape.
Import ListNotations.
Local Open Scope list_scope.

Opaque frame_fuel exec_fuel.

(* ================================================================== 3. one pass of the loop = the case list `pass` *)
Lemma deadline_fold : forall r1,
  (if Z.eqb (r_max_runtime r1) 0 then (false, r1)
   else let (t, r') := now r1 in (Z.ltb (r_max_runtime r1 + r_run_ts r1) t, r')) = deadline_test r1.
Proof. reflexivity. Qed.

Lemma do_iter_pass : forall r it, do_iter r = Ok it -> pass r it.
Proof.
  intros r it H. unfold do_iter in H.
  destruct (r_exit_req r) eqn:Ex. { injection H as <-. apply PExitRequested; assumption. }
  destruct (cur r) as [c|] eqn:Ec; [|discriminate H].
  destruct (c_suspended c) eqn:Es. { injection H as <-. eapply PSuspended; eassumption. }
  destruct (c_frames c) as [|f0 rest] eqn:Ef. { injection H as <-. eapply PEmpty; eassumption. }
  assert (Hne: c_frames c <> []) by (rewrite Ef; discriminate).
  rewrite <- Ef in H. clear Ef f0 rest.
  destruct (r_state r) eqn:St;
    try (injection H as <-; eapply PNotRunning; try eassumption; rewrite St; discriminate).
  assert (Hr: ready r c) by (unfold ready; auto).
  destruct (frame_next frame_fuel r c) as [[[fr r1] c1]| | |] eqn:En; cbn [bindr] in H; try discriminate H.
  destruct (r_err r1) eqn:Ee1.
  { destruct (on_error (upd_cur r1 c1)) as [[b r2]| | |] eqn:Eo; cbn [bindr] in H; try discriminate H.
    destruct b; injection H as <-.
    - apply (PBehaviourError r c fr r1 c1 true r2); assumption.
    - apply (PBehaviourError r c fr r1 c1 false r2); assumption. }
  assert (Hinstr: fetches fr c c1 ->
    match current_instr c1 with
    | Some i =>
        let '(expired, r2) := deadline_test r1 in
        if expired then Ok (Return RRuntimeError (expired_machine r2 c1))
        else bindr (exec_instr i r2 c1) (fun '(r3, c5) =>
               let r4 := upd_cur r3 c5 in
               if negb (r_err r4) then Ok (Executed (set_msgs r4 []))
               else bindr (on_error r4) (fun '(recovered, r5) =>
                      if recovered then Ok (Executed r5) else Ok (Return RRuntimeError r5)))
    | None => UB "frame.current() dereferenced at the end of the instruction set"%string end = Ok it -> pass r it).
  { intros Hf G. destruct (current_instr c1) as [i|] eqn:Ei; [|discriminate G].
    destruct (deadline_test r1) as [expired r2] eqn:Ed.
    destruct expired. { injection G as <-. eapply PExpired; eassumption. }
    destruct (exec_instr i r2 c1) as [[r3 c5]| | |] eqn:Ex2; cbn [bindr] in G; try discriminate G.
    cbv zeta in G. destruct (r_err (upd_cur r3 c5)) eqn:Ee4; cbn [negb] in G.
    - destruct (on_error (upd_cur r3 c5)) as [[b r5]| | |] eqn:Eo; cbn [bindr] in G; try discriminate G.
      destruct b; injection G as <-.
      + apply (PInstrError r c fr r1 c1 i r2 r3 c5 true r5); assumption.
      + apply (PInstrError r c fr r1 c1 i r2 r3 c5 false r5); assumption.
    - injection G as <-. eapply PExecuted; eassumption. }
  destruct fr.
  - destruct (Nat.eqb (length (c_frames c1)) (length (c_frames c))) eqn:El.
    + apply Nat.eqb_eq in El. injection H as <-. eapply PCompletion; eassumption.
    + apply Nat.eqb_neq in El. apply Hinstr; [right; split; [reflexivity|assumption]|exact H].
  - apply Hinstr; [left; reflexivity|exact H].
  - change ((let '(expired, r2) := deadline_test r1 in
             if expired then Ok (Return RRuntimeError (expired_machine r2 c1))
             else Ok (Executed (upd_cur r2 c1))) = Ok it) in H.
    destruct (deadline_test r1) as [expired r2] eqn:Ed.
    destruct expired; injection H as <-; [eapply PRestartExpired|eapply PRestarted]; eassumption.
Qed.

Lemma match_nonempty : forall {A B} (l:list A) (x y:B), l <> [] -> match l with [] => x | _ :: _ => y end = y.
Proof. intros A B l x y H. destruct l; [congruence|reflexivity]. Qed.

Lemma pass_do_iter : forall r it, pass r it -> do_iter r = Ok it.
Proof.
  intros r it P. unfold do_iter.
  destruct P as [Ex|c Ex Ec Es|c Ex Ec Es Ef|c Ex Ec Es Ef St
                |c fr r1 c1 b r2 [Ex [Ec [Es [Ef St]]]] En Ee Eo
                |c r1 c1 [Ex [Ec [Es [Ef St]]]] En Ee El
                |c fr r1 c1 i r2 [Ex [Ec [Es [Ef St]]]] En Ee Hf Ei Ed
                |c fr r1 c1 i r2 r3 c5 [Ex [Ec [Es [Ef St]]]] En Ee Hf Ei Ed Ex2 Ee4
                |c fr r1 c1 i r2 r3 c5 b r5 [Ex [Ec [Es [Ef St]]]] En Ee Hf Ei Ed Ex2 Ee4 Eo
                |c r1 c1 r2 [Ex [Ec [Es [Ef St]]]] En Ee Ed
                |c r1 c1 r2 [Ex [Ec [Es [Ef St]]]] En Ee Ed];
    rewrite Ex; try reflexivity; rewrite Ec, Es; try reflexivity.
  - rewrite Ef. reflexivity.
  - rewrite (match_nonempty _ _ _ Ef). destruct (r_state r); try reflexivity. congruence.
  - rewrite (match_nonempty _ _ _ Ef). rewrite St, En. cbn [bindr]. rewrite Ee, Eo. cbn [bindr].
    destruct b; reflexivity.
  - rewrite (match_nonempty _ _ _ Ef). rewrite St, En. cbn [bindr]. rewrite Ee.
    cbv zeta. rewrite El, Nat.eqb_refl. reflexivity.
  - rewrite (match_nonempty _ _ _ Ef). rewrite St, En. cbn [bindr]. rewrite Ee.
    rewrite deadline_fold, Ei, Ed.
    destruct Hf as [->|[-> Hl]]; [reflexivity|].
    apply Nat.eqb_neq in Hl. rewrite Hl. reflexivity.
  - rewrite (match_nonempty _ _ _ Ef). rewrite St, En. cbn [bindr]. rewrite Ee.
    rewrite deadline_fold, Ei, Ed.
    assert (G: bindr (exec_instr i r2 c1) (fun '(r3, c5) =>
               let r4 := upd_cur r3 c5 in
               if negb (r_err r4) then Ok (Executed (set_msgs r4 []))
               else bindr (on_error r4) (fun '(recovered, r5) =>
                      if recovered then Ok (Executed r5) else Ok (Return RRuntimeError r5)))
               = Ok (Executed (set_msgs (upd_cur r3 c5) []))).
    { rewrite Ex2. cbn [bindr]. cbv zeta. rewrite Ee4. reflexivity. }
    destruct Hf as [->|[-> Hl]]; [exact G|].
    apply Nat.eqb_neq in Hl. rewrite Hl. exact G.
  - rewrite (match_nonempty _ _ _ Ef). rewrite St, En. cbn [bindr]. rewrite Ee.
    rewrite deadline_fold, Ei, Ed.
    assert (G: bindr (exec_instr i r2 c1) (fun '(r3, c5) =>
               let r4 := upd_cur r3 c5 in
               if negb (r_err r4) then Ok (Executed (set_msgs r4 []))
               else bindr (on_error r4) (fun '(recovered, r5) =>
                      if recovered then Ok (Executed r5) else Ok (Return RRuntimeError r5)))
               = Ok (if b then Executed r5 else Return RRuntimeError r5)).
    { rewrite Ex2. cbn [bindr]. cbv zeta. rewrite Ee4. cbn [negb]. rewrite Eo. cbn [bindr]. destruct b; reflexivity. }
    destruct Hf as [->|[-> Hl]]; [exact G|].
    apply Nat.eqb_neq in Hl. rewrite Hl. exact G.
  - rewrite (match_nonempty _ _ _ Ef). rewrite St, En. cbn [bindr]. rewrite Ee.
    rewrite deadline_fold, Ed. reflexivity.
  - rewrite (match_nonempty _ _ _ Ef). rewrite St, En. cbn [bindr]. rewrite Ee.
    rewrite deadline_fold, Ed. reflexivity.
Qed.

Theorem do_iter_iff_pass : forall r it, do_iter r = Ok it <-> pass r it.
Proof. intros; split; [apply do_iter_pass|apply pass_do_iter]. Qed.

(* ================================================================== 4. frames, handlers, recover_runtime_error *)
Lemma nth_error_skipn' : forall {A} n (l:list A) m, nth_error (skipn n l) m = nth_error l (n + m).
Proof.
  induction n as [|n IH]; intros l m; [reflexivity|]. destruct l; cbn [skipn].
  - destruct m; reflexivity.
  - apply IH.
Qed.

Lemma skipn_nth : forall {A} k (l:list A) x, nth_error l k = Some x -> skipn k l = x :: skipn (S k) l.
Proof.
  induction k as [|k IH]; intros l x H; destruct l; cbn in H; try discriminate.
  - injection H as ->. reflexivity.
  - cbn [skipn]. apply IH in H. exact H.
Qed.

Lemma skipn_skipn' : forall {A} a b (l:list A), skipn a (skipn b l) = skipn (a + b) l.
Proof.
  intros A a b. revert a. induction b as [|b IH]; intros a l.
  - rewrite Nat.add_0_r. reflexivity.
  - destruct l; [rewrite !skipn_nil; reflexivity|]. cbn [skipn]. rewrite IH. replace (a + S b) with (S (a + b)) by lia. reflexivity.
Qed.

Lemma find_handler_some : forall fs s k, find_handler fs s = Some k ->
  s <= k /\ exists f, nth_error fs (k - s) = Some f /\ f_err f <> None /\
  forall j g, j < k - s -> nth_error fs j = Some g -> f_err g = None.
Proof.
  induction fs as [|f fs IH]; intros s k H; cbn in H; [discriminate|].
  destruct (f_err f) eqn:E.
  - injection H as <-. split; [lia|]. exists f. rewrite Nat.sub_diag. cbn. split; [reflexivity|].
    split; [congruence|]. intros j g Hj. lia.
  - apply IH in H. destruct H as [Hle [f' [Hn [He Hb]]]]. split; [lia|]. exists f'.
    replace (k - s) with (S (k - S s)) by lia. cbn. split; [assumption|]. split; [assumption|].
    intros j g Hj Hg. destruct j; cbn in Hg. { injection Hg as <-. assumption. } apply (Hb j); [lia|assumption].
Qed.

Lemma find_handler_none : forall fs s, find_handler fs s = None ->
  forall j g, nth_error fs j = Some g -> f_err g = None.
Proof.
  induction fs as [|f fs IH]; intros s H j g Hg; [destruct j; discriminate|].
  cbn in H. destruct (f_err f) eqn:E; [discriminate|].
  destruct j; cbn in Hg. { injection Hg as <-. assumption. } eapply IH; eassumption.
Qed.

Lemma pop_value_some : forall c v c', pop_value c = Some (v, c') ->
  c_frames c' = c_frames c /\ c_values c = v :: c_values c'.
Proof.
  intros c v c' H. unfold pop_value in H. destruct (c_values c) as [|x vs] eqn:Ev; [discriminate|].
  destruct (c_frames c) as [|f fs] eqn:Ef; [discriminate|].
  destruct (Nat.leb (length (x :: vs)) (f_base f)); [discriminate|]. injection H as <- <-. cbn. auto.
Qed.

Lemma clear_values_frames : forall c, c_frames (clear_values c) = c_frames c.
Proof. intros c. unfold clear_values. destruct (c_frames c) eqn:E; [assumption|]. cbn. assumption. Qed.

Lemma accepts_not_declines : forall r f, accepts r f -> declines r f -> False.
Proof.
  intros r f A D. unfold accepts, declines in *. destruct (f_err f) as [[h|h ex]|]; congruence.
Qed.

Lemma accepts_or_declines : forall r f, accepts r f \/ declines r f.
Proof.
  intros r f. unfold accepts, declines. destruct (f_err f) as [[h|h ex]|]; auto.
  - destruct (r_err r); auto.
  - destruct ex; auto.
Qed.

(* frame::recover_runtime_error of the frame at depth k: a declining frame changes nothing, an
   accepting one is switched to its handler with _exception bound and its behaviour uninstalled *)
Lemma err_enact_spec : forall r c k f, nth_error (c_frames c) k = Some f ->
  (declines r f -> err_enact r c k = Ok (true, r, c)) /\
  (accepts r f -> exists c' exc, err_enact r c k = Ok (false, r, c') /\
      c_frames c' = list_upd (c_frames c) k (handler_frame f exc) /\
      match pop_value c with Some (v, _) => exc = exception_value f v | None => exc = VNil end).
Proof.
  intros r c k f Hn. unfold err_enact, accepts, declines, handler_frame, handler_code, exception_value. rewrite Hn.
  destruct (f_err f) as [[h|h ex]|] eqn:E.
  - split; intros H; rewrite H; [reflexivity|].
    destruct (pop_value c) as [[v c1]|] eqn:Ep.
    + apply pop_value_some in Ep. destruct Ep as [Ef _].
      eexists. exists (match v with VTrace x => x | _ => VNil end). split; [reflexivity|]. cbn [c_frames set_frames].
      rewrite clear_values_frames, Ef. split; reflexivity.
    + eexists. exists VNil. split; [reflexivity|]. cbn [c_frames set_frames]. rewrite clear_values_frames. split; reflexivity.
  - split; intros H; rewrite H; [reflexivity|].
    destruct (pop_value c) as [[v c1]|] eqn:Ep.
    + apply pop_value_some in Ep. destruct Ep as [Ef _].
      eexists. exists v. split; [reflexivity|]. cbn [c_frames set_frames]. rewrite clear_values_frames, Ef. split; reflexivity.
    + eexists. exists VNil. split; [reflexivity|]. cbn [c_frames set_frames]. rewrite clear_values_frames. split; reflexivity.
  - split; intros H; [reflexivity|contradiction].
Qed.

(* the state handle_runtime_error builds before asking frame k: stack trace value pushed, frames above k popped *)
Definition offer (c:context) (msgs:list (Z*Z)) (k:nat) : context :=
  set_frames (push_value c (messages_value msgs)) (skipn k (c_frames (push_value c (messages_value msgs)))).

Lemma offer_frames : forall c msgs k, c_frames (offer c msgs k) = skipn k (c_frames c).
Proof. reflexivity. Qed.
Lemma offer_values : forall c msgs k, c_values (offer c msgs k) = messages_value msgs :: c_values c.
Proof. reflexivity. Qed.

Lemma offer_pop : forall c msgs k f, nth_error (c_frames c) k = Some f ->
  (f_base f <= length (c_values c) -> exists c', pop_value (offer c msgs k) = Some (messages_value msgs, c')) /\
  (forall v c', pop_value (offer c msgs k) = Some (v, c') -> v = messages_value msgs /\ c_frames c' = skipn k (c_frames c) /\ c_values c' = c_values c).
Proof.
  intros c msgs k f Hn. unfold pop_value. rewrite offer_frames, offer_values, (skipn_nth _ _ _ Hn). split.
  - intros Hb. cbn [length]. destruct (Nat.leb (S (length (c_values c))) (f_base f)) eqn:E.
    + apply Nat.leb_le in E. lia.
    + eexists. reflexivity.
  - intros v c' H. destruct (Nat.leb (length (messages_value msgs :: c_values c)) (f_base f)); [discriminate|].
    injection H as <- <-. cbn. rewrite (skipn_nth _ _ _ Hn). auto.
Qed.

(* handle_runtime_error found a taker: it is the nearest frame that accepts; everything above it is
   gone, it runs its handler from the start with _exception bound, and its behaviour is uninstalled *)
Lemma handle_error_true : forall fuel r c msgs skip r' c',
  handle_error fuel r c msgs skip = Ok (true, r', c') ->
  r' = r /\ exists K f exc, skip <= K /\ nth_error (c_frames c) K = Some f /\ accepts r f /\
    (forall j g, skip <= j < K -> nth_error (c_frames c) j = Some g -> declines r g) /\
    c_frames c' = handler_frame f exc :: skipn (S K) (c_frames c) /\
    (exc = exception_value f (messages_value msgs) \/ exc = VNil) /\
    (f_base f <= length (c_values c) -> exc = exception_value f (messages_value msgs)).
Proof.
  induction fuel as [|fuel IH]; intros r c msgs skip r' c' H; cbn [handle_error] in H; [discriminate|].
  destruct (find_handler (skipn skip (c_frames c)) skip) as [k|] eqn:Ef; [|discriminate].
  apply find_handler_some in Ef. destruct Ef as [Hle [f [Hn [He Hb]]]].
  rewrite nth_error_skipn' in Hn. replace (skip + (k - skip)) with k in Hn by lia.
  fold (messages_value msgs) in H. fold (offer c msgs k) in H.
  assert (Hn0: nth_error (c_frames (offer c msgs k)) 0 = Some f).
  { rewrite offer_frames, (skipn_nth _ _ _ Hn). reflexivity. }
  destruct (err_enact_spec r (offer c msgs k) 0 f Hn0) as [Hd Ha].
  assert (Habove: forall j g, skip <= j < k -> nth_error (c_frames c) j = Some g -> declines r g).
  { intros j g Hj Hg. unfold declines. rewrite (Hb (j - skip) g); [trivial|lia|].
    rewrite nth_error_skipn'. replace (skip + (j - skip)) with j by lia. assumption. }
  destruct (accepts_or_declines r f) as [A|D].
  - destruct (Ha A) as [c2 [exc [E [Efr Eexc]]]]. rewrite E in H. cbn [bindr] in H. injection H as <- <-.
    split; [reflexivity|]. exists k, f, exc. repeat split; try assumption.
    + rewrite Efr, offer_frames, (skipn_nth _ _ _ Hn). reflexivity.
    + destruct (pop_value (offer c msgs k)) as [[v c3]|] eqn:Ep; [|right; assumption].
      apply (offer_pop c msgs k f Hn) in Ep. destruct Ep as [-> _]. left. assumption.
    + intros Hbase. destruct (proj1 (offer_pop c msgs k f Hn) Hbase) as [c3 Ep]. rewrite Ep in Eexc. assumption.
  - rewrite (Hd D) in H. cbn [bindr] in H.
    apply IH in H. destruct H as [-> [K' [f' [exc [HK [Hn' [A' [Hdec [Hfr [Hor Hbase]]]]]]]]]].
    split; [reflexivity|].
    assert (Hfr4: c_frames (match pop_value (offer c msgs k) with Some (_, c'0) => c'0 | None => offer c msgs k end) = skipn k (c_frames c)).
    { destruct (pop_value (offer c msgs k)) as [[v c3]|] eqn:Ep.
      - apply (offer_pop c msgs k f Hn) in Ep. tauto.
      - apply offer_frames. }
    assert (Hlen: length (c_values c) <= length (c_values (match pop_value (offer c msgs k) with Some (_, c'0) => c'0 | None => offer c msgs k end))).
    { destruct (pop_value (offer c msgs k)) as [[v c3]|] eqn:Ep.
      - apply (offer_pop c msgs k f Hn) in Ep. destruct Ep as [_ [_ ->]]. lia.
      - rewrite offer_values. cbn. lia. }
    rewrite Hfr4 in *. rewrite nth_error_skipn' in Hn'.
    exists (k + K'), f', exc. repeat split; try assumption; try lia.
    + intros j g Hj Hg. destruct (Nat.lt_ge_cases j k) as [Hlt|Hge]; [apply (Habove j g); [lia|assumption]|].
      destruct (Nat.eq_dec j k) as [->|Hneq]. { rewrite Hn in Hg. injection Hg as <-. assumption. }
      apply (Hdec (j - k)); [lia|]. rewrite nth_error_skipn'. replace (k + (j - k)) with j by lia. assumption.
    + rewrite Hfr, skipn_skipn'. replace (S K' + k) with (S (k + K')) by lia. reflexivity.
    + intros Hb'. apply Hbase. lia.
Qed.

(* handle_runtime_error found no taker: every frame from `skip` on has no handler or declined *)
Lemma handle_error_false : forall fuel r c msgs skip r' c',
  handle_error fuel r c msgs skip = Ok (false, r', c') ->
  r' = r /\ forall j g, skip <= j -> nth_error (c_frames c) j = Some g -> declines r g.
Proof.
  induction fuel as [|fuel IH]; intros r c msgs skip r' c' H; cbn [handle_error] in H; [discriminate|].
  destruct (find_handler (skipn skip (c_frames c)) skip) as [k|] eqn:Ef.
  - apply find_handler_some in Ef. destruct Ef as [Hle [f [Hn [He Hb]]]].
    rewrite nth_error_skipn' in Hn. replace (skip + (k - skip)) with k in Hn by lia.
    fold (messages_value msgs) in H. fold (offer c msgs k) in H.
    assert (Hn0: nth_error (c_frames (offer c msgs k)) 0 = Some f).
    { rewrite offer_frames, (skipn_nth _ _ _ Hn). reflexivity. }
    destruct (err_enact_spec r (offer c msgs k) 0 f Hn0) as [Hd Ha].
    destruct (accepts_or_declines r f) as [A|D].
    + destruct (Ha A) as [c2 [exc [E _]]]. rewrite E in H. cbn [bindr] in H. discriminate H.
    + rewrite (Hd D) in H. cbn [bindr] in H. apply IH in H. destruct H as [-> Hdec]. split; [reflexivity|].
      assert (Hfr4: c_frames (match pop_value (offer c msgs k) with Some (_, c'0) => c'0 | None => offer c msgs k end) = skipn k (c_frames c)).
      { destruct (pop_value (offer c msgs k)) as [[v c3]|] eqn:Ep.
        - apply (offer_pop c msgs k f Hn) in Ep. tauto.
        - apply offer_frames. }
      rewrite Hfr4 in Hdec.
      intros j g Hj Hg. destruct (Nat.lt_ge_cases j k) as [Hlt|Hge].
      { unfold declines. rewrite (Hb (j - skip) g); [trivial|lia|].
        rewrite nth_error_skipn'. replace (skip + (j - skip)) with j by lia. assumption. }
      destruct (Nat.eq_dec j k) as [->|Hneq]. { rewrite Hn in Hg. injection Hg as <-. assumption. }
      apply (Hdec (j - k)); [lia|]. rewrite nth_error_skipn'. replace (k + (j - k)) with j by lia. assumption.
  - injection H as <- _. split; [reflexivity|]. intros j g Hj Hg. unfold declines.
    rewrite (find_handler_none _ _ Ef (j - skip) g); [trivial|].
    rewrite nth_error_skipn'. replace (skip + (j - skip)) with j by lia. assumption.
Qed.

(* the search always ends with an answer when it is given the fuel on_error gives it *)
Lemma handle_error_total : forall fuel r c msgs skip, skip <= 1 ->
  length (c_frames c) + 2 <= fuel + skip ->
  exists b c', handle_error fuel r c msgs skip = Ok (b, r, c').
Proof.
  induction fuel as [|fuel IH]; intros r c msgs skip Hs Hf; [lia|]. cbn [handle_error].
  destruct (find_handler (skipn skip (c_frames c)) skip) as [k|] eqn:Ef; [|eauto].
  apply find_handler_some in Ef. destruct Ef as [Hle [f [Hn [He Hb]]]].
  assert (Hk: k - skip < length (skipn skip (c_frames c))) by (apply nth_error_Some; congruence).
  rewrite skipn_length in Hk.
  rewrite nth_error_skipn' in Hn. replace (skip + (k - skip)) with k in Hn by lia.
  fold (messages_value msgs). fold (offer c msgs k).
  assert (Hn0: nth_error (c_frames (offer c msgs k)) 0 = Some f).
  { rewrite offer_frames, (skipn_nth _ _ _ Hn). reflexivity. }
  destruct (err_enact_spec r (offer c msgs k) 0 f Hn0) as [Hd Ha].
  destruct (accepts_or_declines r f) as [A|D].
  - destruct (Ha A) as [c2 [exc [E _]]]. rewrite E. cbn [bindr]. eauto.
  - rewrite (Hd D). cbn [bindr]. apply IH; [lia|].
    assert (Hfr4: c_frames (match pop_value (offer c msgs k) with Some (_, c'0) => c'0 | None => offer c msgs k end) = skipn k (c_frames c)).
    { destruct (pop_value (offer c msgs k)) as [[v c3]|] eqn:Ep.
      - apply (offer_pop c msgs k f Hn) in Ep. tauto.
      - apply offer_frames. }
    rewrite Hfr4, skipn_length. lia.
Qed.

(* ================================================================== 5. on_error: the error handling of one loop pass *)
Lemma nth_error_list_upd : forall {A} (l:list A) i x y, nth_error l i = Some y -> nth_error (list_upd l i x) i = Some x.
Proof.
  induction l as [|a l IH]; intros i x y H; destruct i; cbn in *; try discriminate; [reflexivity|].
  eapply IH. eassumption.
Qed.

Lemma cur_upd_cur : forall r c c2, cur r = Some c -> cur (upd_cur r c2) = Some c2.
Proof.
  intros r c c2 H. unfold cur, upd_cur in *. destruct (r_active r) as [i|] eqn:E; [|discriminate].
  cbn. rewrite E. eapply nth_error_list_upd. eassumption.
Qed.

Lemma declines_msgs : forall r m g, declines (set_msgs r m) g = declines r g.
Proof. reflexivity. Qed.
Lemma accepts_msgs : forall r m g, accepts (set_msgs r m) g = accepts r g.
Proof. reflexivity. Qed.

Definition after_handled (r:rt) (c2:context) : rt := set_errflag (upd_cur (set_msgs r []) c2) false.
Definition after_unhandled (r:rt) (c2:context) : rt := set_errflag (logmsg (upd_cur (set_msgs r []) c2) d_Stacktrace) false.

Lemma on_error_spec : forall r c, cur r = Some c ->
  exists b c2, handle_error (S (S (length (c_frames c)))) (set_msgs r []) c (r_msgs r) 0 = Ok (b, set_msgs r [], c2) /\
    on_error r = Ok (b, if b then after_handled r c2 else after_unhandled r c2).
Proof.
  intros r c H. unfold on_error. change (cur (set_msgs r [])) with (cur r). rewrite H.
  destruct (handle_error_total (S (S (length (c_frames c)))) (set_msgs r []) c (r_msgs r) 0) as [b [c2 E]]; [lia|lia|].
  exists b, c2. split; [exact E|]. rewrite E. cbn [bindr]. destruct b; reflexivity.
Qed.

Lemma on_error_cur : forall r b r', on_error r = Ok (b, r') -> exists c, cur r = Some c.
Proof.
  intros r b r' H. unfold on_error in H. change (cur (set_msgs r [])) with (cur r) in H.
  destruct (cur r) as [c|]; [eauto|discriminate].
Qed.

(* whatever the outcome, the flag is consumed *)
Lemma on_error_clears_flag : forall r b r', on_error r = Ok (b, r') -> r_err r' = false.
Proof.
  intros r b r' H. destruct (on_error_cur _ _ _ H) as [c Hc].
  destruct (on_error_spec r c Hc) as [b0 [c2 [_ E]]]. rewrite E in H. injection H as <- <-.
  destruct b0; reflexivity.
Qed.

Lemma upd_cur_out : forall r c, r_out (upd_cur r c) = r_out r.
Proof. intros. unfold upd_cur. destruct (r_active r); reflexivity. Qed.
Lemma upd_cur_err : forall r c, r_err (upd_cur r c) = r_err r.
Proof. intros. unfold upd_cur. destruct (r_active r); reflexivity. Qed.
Lemma upd_cur_msgs : forall r c, r_msgs (upd_cur r c) = r_msgs r.
Proof. intros. unfold upd_cur. destruct (r_active r); reflexivity. Qed.

(* no taker: the fatal stack trace diagnostic is logged and nothing else; every frame of the active
   context had no handler or declined *)
Lemma on_error_unhandled : forall r r', on_error r = Ok (false, r') ->
  r_err r' = false /\ r_out r' = ev_of d_Stacktrace :: r_out r /\
  forall c, cur r = Some c -> forall j g, nth_error (c_frames c) j = Some g -> declines r g.
Proof.
  intros r r' H. destruct (on_error_cur _ _ _ H) as [c Hc].
  destruct (on_error_spec r c Hc) as [b0 [c2 [Eh E]]]. rewrite E in H. injection H as Hb0 <-. subst b0.
  split; [reflexivity|]. split.
  - unfold after_unhandled. cbn. rewrite upd_cur_out. reflexivity.
  - intros c0 Hc0 j g Hg. rewrite Hc in Hc0. injection Hc0 as <-.
    apply handle_error_false in Eh. destruct Eh as [_ Hd]. rewrite <- (declines_msgs r [] g). apply (Hd j g); [lia|assumption].
Qed.

(* a taker: nothing is logged, the flag and the messages are consumed, and the active context is
   now running the handler of the nearest accepting frame *)
Lemma on_error_handled : forall r r', on_error r = Ok (true, r') ->
  r_err r' = false /\ r_msgs r' = [] /\ r_out r' = r_out r /\
  exists c c', cur r = Some c /\ cur r' = Some c' /\
  exists K f exc, nth_error (c_frames c) K = Some f /\ accepts r f /\
    (forall j g, j < K -> nth_error (c_frames c) j = Some g -> declines r g) /\
    c_frames c' = handler_frame f exc :: skipn (S K) (c_frames c) /\
    (exc = exception_value f (messages_value (r_msgs r)) \/ exc = VNil) /\
    (f_base f <= length (c_values c) -> exc = exception_value f (messages_value (r_msgs r))).
Proof.
  intros r r' H. destruct (on_error_cur _ _ _ H) as [c Hc].
  destruct (on_error_spec r c Hc) as [b0 [c2 [Eh E]]]. rewrite E in H. injection H as Hb0 <-. subst b0.
  split; [reflexivity|]. split. { unfold after_handled. cbn. rewrite upd_cur_msgs. reflexivity. }
  split. { unfold after_handled. cbn. rewrite upd_cur_out. reflexivity. }
  exists c, c2. split; [assumption|]. split.
  { unfold after_handled. change (cur (set_errflag (upd_cur (set_msgs r []) c2) false)) with (cur (upd_cur (set_msgs r []) c2)).
    eapply cur_upd_cur. change (cur (set_msgs r [])) with (cur r). eassumption. }
  apply handle_error_true in Eh. destruct Eh as [_ [K [f [exc [_ [Hn [A [Hd [Hfr [Hor Hb]]]]]]]]]].
  exists K, f, exc. rewrite accepts_msgs in A. repeat split; try assumption.
  intros j g Hj Hg. rewrite <- (declines_msgs r [] g). apply (Hd j g); [lia|assumption].
Qed.

(* when no frame of the active context accepts, the error is reported *)
Lemma all_decline_unhandled : forall r c, cur r = Some c ->
  (forall j g, nth_error (c_frames c) j = Some g -> declines r g) ->
  exists r', on_error r = Ok (false, r').
Proof.
  intros r c Hc Hd. destruct (on_error_spec r c Hc) as [b [c2 [Eh E]]]. destruct b; [|eauto].
  exfalso. apply handle_error_true in Eh. destruct Eh as [_ [K [f [exc [_ [Hn [A _]]]]]]].
  rewrite accepts_msgs in A. eapply accepts_not_declines; [exact A|]. eapply Hd. eassumption.
Qed.

(* a try-catch frame never takes a runtime error (the flag is set while it is asked), it takes a throw *)
Lemma catch_frame_declines_runtime_error : forall r f h, f_err f = Some (ECatch h) -> r_err r = true -> declines r f.
Proof. intros r f h E H. unfold declines. rewrite E. assumption. Qed.
Lemma catch_frame_accepts_throw : forall r f h, f_err f = Some (ECatch h) -> r_err r = false -> accepts r f.
Proof. intros r f h E H. unfold accepts. rewrite E. assumption. Qed.

(* hence: with only try-catch frames (and frames without handler) on the stack a runtime error ends the run *)
Lemma try_catch_only_unhandled : forall r c, cur r = Some c -> r_err r = true ->
  (forall j g, nth_error (c_frames c) j = Some g -> f_err g = None \/ exists h, f_err g = Some (ECatch h)) ->
  exists r', on_error r = Ok (false, r').
Proof.
  intros r c Hc He Hall. apply (all_decline_unhandled r c Hc). intros j g Hg.
  destruct (Hall j g Hg) as [E|[h E]]; unfold declines; rewrite E; [trivial|assumption].
Qed.

(* ================================================================== 6. an unhandled error stops the run; a handler takes over once *)
Lemma execute_do_return : forall fuel r ea x rF, r_exit_req r = false -> do_iter r = Ok (Return x rF) ->
  execute_do (S fuel) r (S ea) = Ok (x, rF).
Proof. intros fuel r ea x rF Hx H. cbn [execute_do]. rewrite Hx, H. reflexivity. Qed.

Lemma raised_pass : forall r c rE b rF, ready r c -> raised_in_pass r c rE -> on_error rE = Ok (b, rF) ->
  (b = false -> pass r (Return RRuntimeError rF)) /\
  (b = true -> pass r (Continue rF) \/ pass r (Executed rF)).
Proof.
  intros r c rE b rF Hr Hraise Ho. destruct Hraise as [fr r1 c1 En Ee|fr r1 c1 i r2 r3 c5 En Ee Hf Ei Ed Ex Ee4].
  - pose proof (PBehaviourError r c fr r1 c1 b rF Hr En Ee Ho) as P. split; intros ->; [exact P|left; exact P].
  - pose proof (PInstrError r c fr r1 c1 i r2 r3 c5 b rF Hr En Ee Hf Ei Ed Ex Ee4 Ho) as P. split; intros ->; [exact P|right; exact P].
Qed.

(* instr_error_stops: the flag was raised in this pass (by the instruction or by the exit behaviour
   inside frame.next()) and no frame of the active context accepts it: this same pass returns
   runtime_error with the fatal stack-trace diagnostic logged, and execute_do returns with it -
   no further instruction of that context is executed by that call *)
Theorem instr_error_stops : forall r c rE cE, ready r c -> raised_in_pass r c rE ->
  cur rE = Some cE -> (forall j g, nth_error (c_frames cE) j = Some g -> declines rE g) ->
  exists rF, do_iter r = Ok (Return RRuntimeError rF) /\
    r_err rF = false /\ r_out rF = ev_of d_Stacktrace :: r_out rE /\
    forall fuel ea, execute_do (S fuel) r (S ea) = Ok (RRuntimeError, rF).
Proof.
  intros r c rE cE Hr Hraise Hc Hd. destruct (all_decline_unhandled rE cE Hc Hd) as [rF Ho].
  exists rF. destruct (raised_pass r c rE false rF Hr Hraise Ho) as [P _]. specialize (P eq_refl).
  apply pass_do_iter in P. destruct (on_error_unhandled rE rF Ho) as [He [Hout _]].
  repeat split; try assumption. intros fuel ea. apply execute_do_return; [apply Hr|exact P].
Qed.

(* handler_takes_over_once: frame K of the active context accepts and every frame above it has no
   handler or declines: the pass goes on (no failure is reported, nothing is logged), the frames above K
   are gone, frame K runs its handler code from position 0 with _exception bound, its error behaviour is
   uninstalled, the flag and the messages are consumed *)
Theorem handler_takes_over_once : forall r c rE cE K f, ready r c -> raised_in_pass r c rE ->
  cur rE = Some cE -> nth_error (c_frames cE) K = Some f -> accepts rE f ->
  (forall j g, j < K -> nth_error (c_frames cE) j = Some g -> declines rE g) ->
  exists rF cF exc, (do_iter r = Ok (Continue rF) \/ do_iter r = Ok (Executed rF)) /\
    r_err rF = false /\ r_msgs rF = [] /\ r_out rF = r_out rE /\
    cur rF = Some cF /\
    c_frames cF = handler_frame f exc :: skipn (S K) (c_frames cE) /\
    f_code (handler_frame f exc) = handler_code f /\ f_pos (handler_frame f exc) = 0 /\
    f_vars (handler_frame f exc) = [("_exception"%string, exc)] /\ f_err (handler_frame f exc) = None /\
    (exc = exception_value f (messages_value (r_msgs rE)) \/ exc = VNil) /\
    (f_base f <= length (c_values cE) -> exc = exception_value f (messages_value (r_msgs rE))).
Proof.
  intros r c rE cE K f Hr Hraise Hc Hn A Hd.
  destruct (on_error_spec rE cE Hc) as [b [c2 [Eh Eo]]].
  destruct b.
  2:{ exfalso. apply handle_error_false in Eh. destruct Eh as [_ Hall].
      eapply accepts_not_declines; [exact A|]. rewrite <- (declines_msgs rE [] f). apply (Hall K f); [lia|assumption]. }
  destruct (on_error_handled rE _ Eo) as [He [Hm [Hout [c0 [c' [Hc0 [Hc' [K' [f' [exc [Hn' [A' [Hd' [Hfr [Hor Hb]]]]]]]]]]]]]]].
  rewrite Hc in Hc0. injection Hc0 as <-.
  assert (K' = K).
  { destruct (Nat.lt_trichotomy K' K) as [Hlt|[Heq|Hgt]]; [|assumption|].
    - exfalso. eapply accepts_not_declines; [exact A'|]. eapply Hd; eassumption.
    - exfalso. eapply accepts_not_declines; [exact A|]. eapply Hd'; eassumption. }
  subst K'. rewrite Hn in Hn'. injection Hn' as <-.
  exists (after_handled rE c2), c', exc.
  destruct (raised_pass r c rE true _ Hr Hraise Eo) as [_ P]. specialize (P eq_refl).
  split. { destruct P as [P|P]; apply pass_do_iter in P; auto. }
  repeat split; assumption.
Qed.

(* once: a frame whose behaviour is uninstalled (the state of the handler frame from then on) is never
   the taker of an error again, whatever happens later *)
Theorem taker_has_behaviour : forall r r', on_error r = Ok (true, r') ->
  exists c K f, cur r = Some c /\ nth_error (c_frames c) K = Some f /\ f_err f <> None /\
    forall c', cur r' = Some c' -> exists g, nth_error (c_frames c') 0 = Some g /\ f_err g = None /\ f_code g = handler_code f.
Proof.
  intros r r' H. destruct (on_error_handled r r' H) as [_ [_ [_ [c [c' [Hc [Hc' [K [f [exc [Hn [A [_ [Hfr _]]]]]]]]]]]]]].
  exists c, K, f. repeat split; try assumption.
  - unfold accepts in A. destruct (f_err f); [discriminate|contradiction].
  - intros c0 Hc0. rewrite Hc' in Hc0. injection Hc0 as <-. exists (handler_frame f exc). rewrite Hfr. repeat split.
Qed.

Corollary handler_not_reentered : forall f exc rest, find_handler (handler_frame f exc :: rest) 0 <> Some 0.
Proof.
  intros f exc rest H. apply find_handler_some in H. destruct H as [_ [g [Hn [He _]]]].
  cbn in Hn. injection Hn as <-. apply He. reflexivity.
Qed.

(* ================================================================== 7. the flag never survives a pass, a slice, a run *)
(* the deadline test reads the clock and nothing else: it logs nothing and leaves the flag alone *)
Lemma deadline_keeps : forall r1 e r2, deadline_test r1 = (e, r2) -> r_out r2 = r_out r1 /\ r_err r2 = r_err r1.
Proof.
  intros r1 e r2 H. unfold deadline_test in H. destruct (Z.eqb (r_max_runtime r1) 0).
  - injection H as _ <-. auto.
  - unfold now in H. injection H as _ <-. auto.
Qed.

Theorem do_iter_clears_flag : forall r it, r_err r = false -> do_iter r = Ok it -> r_err (rt_of it) = false.
Proof.
  intros r it He H. apply do_iter_pass in H.
  destruct H as [Ex|c Ex Ec Es|c Ex Ec Es Ef|c Ex Ec Es Ef St
                |c fr r1 c1 b r2 Hr En Ee Eo
                |c r1 c1 Hr En Ee El
                |c fr r1 c1 i r2 Hr En Ee Hf Ei Ed
                |c fr r1 c1 i r2 r3 c5 Hr En Ee Hf Ei Ed Ex2 Ee4
                |c fr r1 c1 i r2 r3 c5 b r5 Hr En Ee Hf Ei Ed Ex2 Ee4 Eo
                |c r1 c1 r2 Hr En Ee Ed
                |c r1 c1 r2 Hr En Ee Ed]; try assumption.
  - apply on_error_clears_flag in Eo. destruct b; exact Eo.
  - cbn [rt_of]. rewrite upd_cur_err. assumption.
  - reflexivity.
  - apply on_error_clears_flag in Eo. destruct b; exact Eo.
  - reflexivity.
  - cbn [rt_of]. rewrite upd_cur_err. destruct (deadline_keeps _ _ _ Ed) as [_ ->]. assumption.
Qed.

Theorem execute_do_clears_flag : forall fuel r ea x r', r_err r = false ->
  execute_do fuel r ea = Ok (x, r') -> r_err r' = false.
Proof.
  induction fuel as [|fuel IH]; intros r ea x r' He H; cbn [execute_do] in H; [discriminate|].
  destruct (r_exit_req r). { injection H as _ <-. assumption. }
  destruct ea as [|ea]. { injection H as _ <-. assumption. }
  destruct (do_iter r) as [it| | |] eqn:Ed; cbn [bindr] in H; try discriminate.
  pose proof (do_iter_clears_flag r it He Ed) as Hit.
  destruct it; cbn [rt_of] in Hit.
  - eapply IH; eassumption.
  - eapply IH; eassumption.
  - injection H as _ <-. assumption.
Qed.

(* ================================================================== 8. a failure is explained by the run's own events *)
Lemma explained_app_l : forall a s, failure_explained s -> failure_explained (a ++ s).
Proof.
  intros a s [x [y [H|[H E]]]]; exists (a ++ x), y; [left|right; split; [|assumption]]; rewrite H; apply app_assoc.
Qed.
Lemma explained_app_r : forall s b, failure_explained s -> failure_explained (s ++ b).
Proof.
  intros s b [x [y [H|[H E]]]]; exists x, (y ++ b); [left|right; split].
  - rewrite H, <- app_assoc. reflexivity.
  - rewrite H, <- app_assoc. reflexivity.
  - rewrite has_err_app, E. reflexivity.
Qed.
Lemma explained_has_err : forall s, failure_explained s -> has_err s = true.
Proof.
  intros s [x [y [H|[H E]]]]; rewrite H, has_err_app; apply orb_true_iff; right; reflexivity.
Qed.

Lemma deadline_ext : forall r1 e r2, deadline_test r1 = (e, r2) -> ext r1 r2.
Proof.
  intros r1 e r2 H. unfold deadline_test in H. destruct (Z.eqb (r_max_runtime r1) 0).
  - injection H as _ <-. apply ext_refl.
  - destruct (now r1) as [t r'] eqn:En. injection H as _ <-. eapply now_ext. eassumption.
Qed.

Lemma ext_flag : forall r r', ext r r' -> r_err r = false ->
  exists s, r_out r' = s ++ r_out r /\ r_err r' = has_err s.
Proof. intros r r' [s [H1 H2]] He. exists s. rewrite He, orb_false_r in H2. auto. Qed.

(* what one pass adds to the event list s (newest first):
   - a pass that returns runtime_error logged the time-limit diagnostic, or the stack trace right
     after the error-level diagnostics of this very pass;
   - a pass that logged an error-level diagnostic either returns runtime_error or a handler took over:
     an error is never silent *)
Theorem pass_events : forall r it, r_err r = false -> pass r it ->
  exists s, r_out (rt_of it) = s ++ r_out r /\
    (forall rF, it = Return RRuntimeError rF ->
       exists s', s = ev_of d_MaximumRuntimeReached :: s' \/ (s = ev_of d_Stacktrace :: s' /\ has_err s' = true)) /\
    (has_err s = true ->
       (exists rF, it = Return RRuntimeError rF) \/
       (exists rE, on_error rE = Ok (true, rt_of it) /\ (it = Continue (rt_of it) \/ it = Executed (rt_of it)))).
Proof.
  intros r it He P.
  destruct P as [Ex|c Ex Ec Es|c Ex Ec Es Ef|c Ex Ec Es Ef St
                |c fr r1 c1 b r2 Hr En Ee Eo
                |c r1 c1 Hr En Ee El
                |c fr r1 c1 i r2 Hr En Ee Hf Ei Ed
                |c fr r1 c1 i r2 r3 c5 Hr En Ee Hf Ei Ed Ex2 Ee4
                |c fr r1 c1 i r2 r3 c5 b r5 Hr En Ee Hf Ei Ed Ex2 Ee4 Eo
                |c r1 c1 r2 Hr En Ee Ed
                |c r1 c1 r2 Hr En Ee Ed];
    try (exists []; split; [reflexivity|]; split; [intros rF H; discriminate H|intros H; discriminate H]).
  - (* behaviour error *)
    apply frame_next_ext in En. destruct (ext_flag _ _ En He) as [s1 [Ho1 Hf1]]. rewrite Ee in Hf1.
    destruct b.
    + destruct (on_error_handled _ _ Eo) as [_ [_ [Hout _]]]. rewrite upd_cur_out in Hout.
      exists s1. cbn [rt_of]. split; [congruence|]. split; [intros rF H; discriminate H|].
      intros _. right. exists (upd_cur r1 c1). auto.
    + destruct (on_error_unhandled _ _ Eo) as [_ [Hout _]]. rewrite upd_cur_out in Hout.
      exists (ev_of d_Stacktrace :: s1). cbn [rt_of]. split; [rewrite Hout, Ho1; reflexivity|].
      split; [|intros _; left; eauto]. intros rF _. exists s1. right. auto.
  - (* completion *)
    apply frame_next_ext in En. destruct (ext_flag _ _ En He) as [s1 [Ho1 Hf1]]. rewrite Ee in Hf1.
    exists s1. cbn [rt_of]. rewrite upd_cur_out. split; [assumption|]. split; [intros rF H; discriminate H|].
    intros H. congruence.
  - (* time limit *)
    apply frame_next_ext in En. apply deadline_ext in Ed. pose proof (ext_trans _ _ _ En Ed) as E2.
    destruct (ext_flag _ _ E2 He) as [s2 [Ho2 _]].
    exists (ev_of d_MaximumRuntimeReached :: s2). cbn [rt_of]. split.
    { unfold expired_machine. cbn. rewrite upd_cur_out, Ho2. reflexivity. }
    split; [|intros _; left; eauto]. intros rF _. exists s2. left. reflexivity.
  - (* executed *)
    apply frame_next_ext in En. apply deadline_ext in Ed. apply exec_instr_ext in Ex2.
    pose proof (ext_trans _ _ _ (ext_trans _ _ _ En Ed) Ex2) as E3.
    destruct (ext_flag _ _ E3 He) as [s3 [Ho3 Hf3]]. rewrite upd_cur_err in Ee4.
    exists s3. cbn [rt_of]. split; [cbn; rewrite upd_cur_out; assumption|]. split; [intros rF H; discriminate H|].
    intros H. congruence.
  - (* instruction error *)
    apply frame_next_ext in En. apply deadline_ext in Ed. apply exec_instr_ext in Ex2.
    pose proof (ext_trans _ _ _ (ext_trans _ _ _ En Ed) Ex2) as E3.
    destruct (ext_flag _ _ E3 He) as [s3 [Ho3 Hf3]]. rewrite upd_cur_err in Ee4. rewrite Ee4 in Hf3.
    destruct b.
    + destruct (on_error_handled _ _ Eo) as [_ [_ [Hout _]]]. rewrite upd_cur_out in Hout.
      exists s3. cbn [rt_of]. split; [congruence|]. split; [intros rF H; discriminate H|].
      intros _. right. exists (upd_cur r3 c5). auto.
    + destruct (on_error_unhandled _ _ Eo) as [_ [Hout _]]. rewrite upd_cur_out in Hout.
      exists (ev_of d_Stacktrace :: s3). cbn [rt_of]. split; [rewrite Hout, Ho3; reflexivity|].
      split; [|intros _; left; eauto]. intros rF _. exists s3. right. auto.
  - (* restarted scope without instructions, time limit *)
    apply frame_next_ext in En. apply deadline_ext in Ed. pose proof (ext_trans _ _ _ En Ed) as E2.
    destruct (ext_flag _ _ E2 He) as [s2 [Ho2 _]].
    exists (ev_of d_MaximumRuntimeReached :: s2). cbn [rt_of]. split.
    { unfold expired_machine. cbn. rewrite upd_cur_out, Ho2. reflexivity. }
    split; [|intros _; left; eauto]. intros rF _. exists s2. left. reflexivity.
  - (* restarted scope without instructions: nothing error-level was logged *)
    apply frame_next_ext in En. destruct (ext_flag _ _ En He) as [s1 [Ho1 Hf1]]. rewrite Ee in Hf1.
    destruct (deadline_keeps _ _ _ Ed) as [Ho2 _].
    exists s1. cbn [rt_of]. rewrite upd_cur_out, Ho2. split; [assumption|]. split; [intros rF H; discriminate H|].
    intros H. congruence.
Qed.

Lemma tight_explained : forall s s', s = ev_of d_MaximumRuntimeReached :: s' \/ (s = ev_of d_Stacktrace :: s' /\ has_err s' = true) ->
  failure_explained s.
Proof. intros s s' [H|[H E]]; exists [], s'; [left|right]; auto. Qed.

(* one call of execute_do, any number of passes *)
Theorem execute_do_events : forall fuel r ea x r', r_err r = false -> execute_do fuel r ea = Ok (x, r') ->
  exists s, r_out r' = s ++ r_out r /\ r_err r' = false /\ (x = RRuntimeError -> failure_explained s).
Proof.
  induction fuel as [|fuel IH]; intros r ea x r' He H; cbn [execute_do] in H; [discriminate|].
  destruct (r_exit_req r). { injection H as <- <-. exists []. repeat split; [assumption|discriminate]. }
  destruct ea as [|ea]. { injection H as <- <-. exists []. repeat split; [assumption|discriminate]. }
  destruct (do_iter r) as [it| | |] eqn:Ed; cbn [bindr] in H; try discriminate.
  pose proof (do_iter_clears_flag r it He Ed) as Hit.
  apply do_iter_pass in Ed. destruct (pass_events r it He Ed) as [s [Ho [Hret _]]].
  destruct it; cbn [rt_of] in *.
  - destruct (IH _ _ _ _ Hit H) as [s2 [Ho2 [He2 Hx]]]. exists (s2 ++ s). rewrite Ho2, Ho, app_assoc.
    repeat split; [assumption|]. intros Hx'. apply explained_app_r. auto.
  - destruct (IH _ _ _ _ Hit H) as [s2 [Ho2 [He2 Hx]]]. exists (s2 ++ s). rewrite Ho2, Ho, app_assoc.
    repeat split; [assumption|]. intros Hx'. apply explained_app_r. auto.
  - injection H as <- <-. exists s. repeat split; try assumption. intros ->.
    destruct (Hret r0 eq_refl) as [s' Hs]. eapply tight_explained. eassumption.
Qed.

(* no_error_no_failure, on the event list: a call of execute_do during which no error-level
   diagnostic was logged does not return runtime_error *)
Theorem no_error_no_failure : forall fuel r ea x r', r_err r = false -> execute_do fuel r ea = Ok (x, r') ->
  exists s, r_out r' = s ++ r_out r /\ (has_err s = false -> x <> RRuntimeError).
Proof.
  intros fuel r ea x r' He H. destruct (execute_do_events _ _ _ _ _ He H) as [s [Ho [_ Hx]]].
  exists s. split; [assumption|]. intros Hs ->. apply explained_has_err in Hx; [congruence|reflexivity].
Qed.

(* ================================================================== 9. the scheduler loop of execute(start), execute, histories *)
Definition sp_ctx (c00:context) : context :=
  if c_terminate c00 then set_suspended (set_values (set_frames c00 []) []) false (c_wakeup c00) else c00.
(* the machine the time-limit abort of the scheduler loop leaves behind while the script sleeps *)
Definition idle_expired_machine (r2:rt) : rt :=
  set_msgs (set_errflag (set_exit_req (logmsg r2 d_MaximumRuntimeReached) true) false) [].
Definition sp_step (r0:rt) (c:context) : res (rresult * rt) :=
  if c_suspended c then
    let (t, r1) := now r0 in
    if Z.leb (c_wakeup c) t
    then execute_do exec_fuel (upd_cur r1 (set_suspended c false (c_wakeup c))) (r_slice (upd_cur r1 (set_suspended c false (c_wakeup c))))
    else
      (* the script sleeps: nothing executes, the time limit applies nevertheless *)
      let '(expired, r2) := deadline_test r1 in
      if expired then Ok (RRuntimeError, idle_expired_machine r2)
      else Ok (ROk, r2)
  else execute_do exec_fuel r0 (r_slice r0).
Definition sp_dropped (r2:rt) : rt :=
  match cur r2 with
  | Some c2 => match c_values c2 with
               | v :: _ => match show true v with
                           | Some s => mark (logmsg r2 d_ContextValuePrint) (append "VALUE " s)
                           | None => mark (logmsg r2 d_ContextValuePrint) "VALUE ?" end
               | [] => r2 end
  | None => r2 end.

Lemma start_pass_unfold : forall fuel r i x,
  start_pass (S fuel) r i x =
  if Nat.leb (length (r_ctxs r)) i then Ok (PassDone x r)
  else match cur (set_active r (Some i)) with
       | None => UB "context index"
       | Some c00 =>
           bindr (sp_step (upd_cur (set_active r (Some i)) (sp_ctx c00)) (sp_ctx c00)) (fun '(x1, r2) =>
             if r_exit_req r2 then Ok (PassExit x1 (set_state (set_ctxs r2 []) StEmpty))
             else match x1 with
                  | REmpty =>
                      let r4 := set_ctxs (sp_dropped r2) (remove_nth (r_ctxs (sp_dropped r2)) i) in
                      match r_ctxs r4 with
                      | [] => Ok (PassExit x1 (set_active r4 None))
                      | _ => start_pass fuel r4 i x1 end
                  | RInvalid | RActionError | RRuntimeError => Ok (PassExit x1 r2)
                  | ROk => start_pass fuel r2 (S i) x1 end) end.
Proof. reflexivity. Qed.

Lemma sp_step_events : forall r0 c x1 r2, r_err r0 = false -> sp_step r0 c = Ok (x1, r2) ->
  exists s, r_out r2 = s ++ r_out r0 /\ r_err r2 = false /\ (x1 = RRuntimeError -> failure_explained s).
Proof.
  intros r0 c x1 r2 He H. unfold sp_step in H. destruct (c_suspended c).
  - destruct (now r0) as [t r1] eqn:En. unfold now in En. injection En as _ <-.
    destruct (Z.leb (c_wakeup c) t).
    + apply execute_do_events in H; [|rewrite upd_cur_err; exact He].
      rewrite upd_cur_out in H. exact H.
    + match type of H with context [deadline_test ?a] => destruct (deadline_test a) as [expired r3] eqn:Ed end.
      destruct (deadline_keeps _ _ _ Ed) as [Ho2 He2]. cbn in Ho2, He2.
      destruct expired; injection H as <- <-.
      * exists [ev_of d_MaximumRuntimeReached]. split; [unfold idle_expired_machine; cbn; rewrite Ho2; reflexivity|].
        split; [reflexivity|]. intros _. exists [], []. left. reflexivity.
      * exists []. repeat split; [exact Ho2|congruence|discriminate].
  - apply execute_do_events in H; assumption.
Qed.

Lemma sp_dropped_events : forall r2, exists s, r_out (sp_dropped r2) = s ++ r_out r2 /\ r_err (sp_dropped r2) = r_err r2.
Proof.
  intros r2. unfold sp_dropped. destruct (cur r2) as [c2|]; [|exists []; auto].
  destruct (c_values c2) as [|v vs]; [exists []; auto|].
  destruct (show true v); eexists [_; _]; split; reflexivity.
Qed.

Definition pass_rt (p:passres) : rt := match p with PassDone _ r => r | PassExit _ r => r end.
Definition pass_res (p:passres) : rresult := match p with PassDone x _ => x | PassExit x _ => x end.

Lemma start_pass_events : forall fuel r i x0 p, r_err r = false -> start_pass fuel r i x0 = Ok p ->
  exists s, r_out (pass_rt p) = s ++ r_out r /\ r_err (pass_rt p) = false /\
    (pass_res p = RRuntimeError -> x0 = RRuntimeError \/ failure_explained s).
Proof.
  induction fuel as [|fuel IH]; intros r i x0 p He H; [discriminate|].
  rewrite start_pass_unfold in H.
  destruct (Nat.leb (length (r_ctxs r)) i). { injection H as <-. exists []. cbn. auto. }
  destruct (cur (set_active r (Some i))) as [c00|]; [|discriminate].
  destruct (sp_step (upd_cur (set_active r (Some i)) (sp_ctx c00)) (sp_ctx c00)) as [[x1 r2]| | |] eqn:Es; cbn [bindr] in H; try discriminate.
  apply sp_step_events in Es; [|rewrite upd_cur_err; exact He].
  rewrite upd_cur_out in Es. change (r_out (set_active r (Some i))) with (r_out r) in Es.
  destruct Es as [s [Ho [He2 Hx]]].
  destruct (r_exit_req r2). { injection H as <-. exists s. cbn. auto. }
  destruct x1.
  - injection H as <-. exists s. cbn. auto.
  - (* the script finished: its value is printed, the context is erased *)
    cbv zeta in H. destruct (sp_dropped_events r2) as [s3 [Ho3 He3]].
    destruct (r_ctxs (set_ctxs (sp_dropped r2) (remove_nth (r_ctxs (sp_dropped r2)) i))).
    + injection H as <-. exists (s3 ++ s). cbn. rewrite Ho3, Ho, app_assoc. repeat split; [congruence|discriminate].
    + apply IH in H; [|cbn; congruence]. destruct H as [s4 [Ho4 [He4 Hx4]]].
      exists (s4 ++ s3 ++ s). rewrite Ho4. cbn. rewrite Ho3, Ho, !app_assoc. repeat split; [assumption|].
      intros Hp. destruct (Hx4 Hp) as [Hbad|Hexp]; [discriminate|]. right. rewrite <- app_assoc. apply explained_app_r. assumption.
  - apply IH in H; [|assumption]. destruct H as [s4 [Ho4 [He4 Hx4]]].
    exists (s4 ++ s). rewrite Ho4, Ho, app_assoc. repeat split; [assumption|].
    intros Hp. destruct (Hx4 Hp) as [Hbad|Hexp]; [discriminate|]. right. apply explained_app_r. assumption.
  - injection H as <-. exists s. cbn. auto.
  - injection H as <-. exists s. cbn. repeat split; try assumption. intros _. right. auto.
Qed.

Lemma start_loop_events : forall fuel r x0 x r', r_err r = false -> start_loop fuel r x0 = Ok (x, r') ->
  exists s, r_out r' = s ++ r_out r /\ r_err r' = false /\ (x = RRuntimeError -> x0 = RRuntimeError \/ failure_explained s).
Proof.
  induction fuel as [|fuel IH]; intros r x0 x r' He H; cbn [start_loop] in H; [discriminate|].
  destruct (r_ctxs r). { injection H as <- <-. exists []. cbn. auto. }
  destruct (start_pass exec_fuel r 0 x0) as [p| | |] eqn:Ep; cbn [bindr] in H; try discriminate.
  apply start_pass_events in Ep; [|assumption]. destruct Ep as [s [Ho [He2 Hx]]].
  destruct p as [x1 r1|x1 r1]; cbn [pass_rt pass_res] in *.
  - apply IH in H; [|assumption]. destruct H as [s4 [Ho4 [He4 Hx4]]].
    exists (s4 ++ s). rewrite Ho4, Ho, app_assoc. repeat split; [assumption|].
    intros Hp. destruct (Hx4 Hp) as [Hbad|Hexp].
    + destruct (Hx Hbad) as [?|Hexp]; [left; assumption|right; apply explained_app_l; assumption].
    + right. apply explained_app_r. assumption.
  - injection H as <- <-. exists s. auto.
Qed.

(* begin_run_if_empty: a run that starts on an empty runtime starts with the flag down and no
   recorded messages, whatever the previous run left behind *)
Theorem begin_run_resets : forall r, r_state r = StEmpty ->
  r_err (begin_run_if_empty r) = false /\ r_msgs (begin_run_if_empty r) = [] /\ r_out (begin_run_if_empty r) = r_out r.
Proof. intros r H. unfold begin_run_if_empty. rewrite H. cbn. auto. Qed.

Lemma begin_run_keeps : forall r, r_out (begin_run_if_empty r) = r_out r /\ (r_err r = false -> r_err (begin_run_if_empty r) = false).
Proof. intros r. unfold begin_run_if_empty. destruct (r_state r); cbn; auto. Qed.

Lemma finish_action_out : forall x r, r_out (finish_action x r) = r_out r /\ r_err (finish_action x r) = r_err r.
Proof.
  intros x r. unfold finish_action, state_of_result. destruct x; cbn;
    match goal with |- context [if ?b then _ else _] => destruct b end; cbn; auto.
Qed.

Definition entry_state (r:rt) : rt :=
  set_state (set_halt_req (set_exit_req (begin_run_if_empty (set_run r true)) false) false) StRunning.

Lemma entry_state_ok : forall r, (r_err r = false \/ r_state r = StEmpty) ->
  r_out (entry_state r) = r_out r /\ r_err (entry_state r) = false.
Proof.
  intros r H. unfold entry_state. cbn. destruct H as [H|H].
  - destruct (begin_run_keeps (set_run r true)) as [Ho He]. split; [exact Ho|apply He; exact H].
  - destruct (begin_run_resets (set_run r true) H) as [He [_ Ho]]. split; [exact Ho|exact He].
Qed.

Lemma resolve_active_out : forall r, r_out (resolve_active r) = r_out r /\ r_err (resolve_active r) = r_err r.
Proof. intros r. unfold resolve_active. destruct (r_active r); [auto|]. destruct (r_ctxs r); cbn; auto. Qed.

Lemma start_action_events : forall r0 x r', r_err r0 = false ->
  bindr (start_loop exec_fuel r0 RInvalid) (fun '(x, r1) => Ok (x, finish_action x r1)) = Ok (x, r') ->
  exists s, r_out r' = s ++ r_out r0 /\ r_err r' = false /\ (x = RRuntimeError -> failure_explained s).
Proof.
  intros r0 x r' He H. destruct (start_loop exec_fuel r0 RInvalid) as [[x1 r1]| | |] eqn:E; cbn [bindr] in H; try discriminate.
  injection H as <- <-. apply start_loop_events in E; [|assumption]. destruct E as [s [Ho [He1 Hx]]].
  destruct (finish_action_out x1 r1) as [Fo Fe]. exists s. rewrite Fo, Fe. repeat split; try assumption.
  intros Hx1. destruct (Hx Hx1) as [Hbad|Hexp]; [discriminate|assumption].
Qed.

Lemma step_action_events : forall r0 x r', r_err r0 = false ->
  bindr (execute_do exec_fuel (resolve_active r0) 1) (fun '(x, r1) => Ok (x, finish_action x r1)) = Ok (x, r') ->
  exists s, r_out r' = s ++ r_out r0 /\ r_err r' = false /\ (x = RRuntimeError -> failure_explained s).
Proof.
  intros r0 x r' He H. destruct (resolve_active_out r0) as [Ro Re].
  destruct (execute_do exec_fuel (resolve_active r0) 1) as [[x1 r1]| | |] eqn:E; cbn [bindr] in H; try discriminate.
  injection H as <- <-. apply execute_do_events in E; [|congruence]. destruct E as [s [Ho [He1 Hx]]].
  destruct (finish_action_out x1 r1) as [Fo Fe]. exists s. rewrite Fo, Fe, Ho, Ro. auto.
Qed.

(* every return of execute, whatever the action: the flag is down (error_not_carried), and a
   runtime_error result is explained by the events of this very call *)
Theorem execute_events : forall a r x r', r_err r = false -> execute a r = Ok (x, r') ->
  exists s, r_out r' = s ++ r_out r /\ r_err r' = false /\ (x = RRuntimeError -> failure_explained s).
Proof.
  intros a r x r' He H.
  assert (Hsame: forall y, Ok (x, r') = Ok (y, r) -> y <> RRuntimeError ->
          exists s, r_out r' = s ++ r_out r /\ r_err r' = false /\ (x = RRuntimeError -> failure_explained s)).
  { intros y E Hy. injection E as -> ->. exists []. repeat split; [assumption|]. intros ->. congruence. }
  destruct a; cbn [execute] in H.
  - destruct (r_run r). { symmetry in H. eapply Hsame; [exact H|discriminate]. }
    change (set_state (set_halt_req (set_exit_req (begin_run_if_empty (set_run r true)) false) false) StRunning) with (entry_state r) in H.
    destruct (entry_state_ok r (or_introl He)) as [Eo Ee]. apply start_action_events in H; [|assumption]. rewrite Eo in H. exact H.
  - destruct (r_state r); try (symmetry in H; eapply Hsame; [exact H|discriminate]).
    destruct (r_run r); [|symmetry in H; eapply Hsame; [exact H|discriminate]].
    injection H as <- <-. exists []. repeat split; [assumption|discriminate].
  - destruct (r_state r); try (symmetry in H; eapply Hsame; [exact H|discriminate]);
    destruct (r_run r); try (symmetry in H; eapply Hsame; [exact H|discriminate]);
    injection H as <- <-; exists []; repeat split; try assumption; discriminate.
  - destruct (r_run r). { symmetry in H. eapply Hsame; [exact H|discriminate]. }
    change (set_state (set_halt_req (set_exit_req (begin_run_if_empty (set_run r true)) false) false) StRunning) with (entry_state r) in H.
    destruct (entry_state_ok r (or_introl He)) as [Eo Ee]. apply step_action_events in H; [|assumption]. rewrite Eo in H. exact H.
  - discriminate H.
  - discriminate H.
Qed.

(* a run that starts on an empty runtime is judged on its own, even if the flag had been left up *)
Theorem execute_on_empty_events : forall a r x r', r_state r = StEmpty -> r_run r = false -> a = AStart \/ a = AAssemblyStep ->
  execute a r = Ok (x, r') ->
  exists s, r_out r' = s ++ r_out r /\ r_err r' = false /\ (x = RRuntimeError -> failure_explained s).
Proof.
  intros a r x r' Hs Hrun Ha H. destruct (entry_state_ok r (or_intror Hs)) as [Eo Ee].
  destruct Ha as [-> | ->]; cbn [execute] in H; rewrite Hrun in H;
    change (set_state (set_halt_req (set_exit_req (begin_run_if_empty (set_run r true)) false) false) StRunning) with (entry_state r) in H.
  - apply start_action_events in H; [|assumption]. rewrite Eo in H. exact H.
  - apply step_action_events in H; [|assumption]. rewrite Eo in H. exact H.
Qed.

(* ================================================================== 10. histories of runs on one machine *)
Lemma load_out : forall r c, r_out (load r c) = r_out r /\ r_err (load r c) = r_err r.
Proof. intros. split; reflexivity. Qed.

Definition run_judged_alone (o:hobs) : Prop :=
  r_err (ho_before o) = false /\ r_err (ho_after o) = false /\
  exists s, r_out (ho_after o) = s ++ r_out (ho_before o) /\
    (ho_result o = RRuntimeError -> failure_explained s) /\
    (has_err s = false -> ho_result o <> RRuntimeError).

Lemma hist_step_inv : forall r h o r1, r_err r = false -> hist_step r h = Ok (o, r1) ->
  run_judged_alone o /\ r_err r1 = false.
Proof.
  intros r h o r1 He H. unfold hist_step in H.
  destruct (execute AStart (load r (h_code h))) as [[x ra]| | |] eqn:E; cbn [bindr] in H; try discriminate.
  pose proof E as E'. apply execute_events in E'; [|exact He]. destruct E' as [s [Ho [Hea Hx]]].
  assert (J: forall xa, run_judged_alone {| ho_before := load r (h_code h); ho_result := x; ho_after := ra; ho_abort := xa |}).
  { intros xa. unfold run_judged_alone. cbn. repeat split; try assumption. exists s. repeat split; try assumption.
    intros Hs ->. apply explained_has_err in Hx; [congruence|reflexivity]. }
  destruct (wants_abort (h_mode h) x).
  - destruct (execute AAbort ra) as [[xa r2]| | |] eqn:Ea; cbn [bindr] in H; try discriminate.
    injection H as <- <-. split; [apply J|]. apply execute_events in Ea; [|assumption]. destruct Ea as [_ [_ [Hr2 _]]]. exact Hr2.
  - injection H as <- <-. split; [apply J|assumption].
Qed.

(* error_not_carried over histories: for every sequence of runs on one machine that starts with the flag
   down (a new runtime does), every run starts and ends with the flag down, a runtime_error result is
   explained by that run's own events, and a run that logged no error-level diagnostic is not reported
   as failed - whatever the earlier runs did *)
Theorem history_runs_judged_alone : forall hs r os r', r_err r = false -> hist r hs = Ok (os, r') ->
  Forall run_judged_alone os /\ r_err r' = false.
Proof.
  induction hs as [|h hs IH]; intros r os r' He H; cbn [hist] in H.
  - injection H as <- <-. auto.
  - destruct (hist_step r h) as [[o r1]| | |] eqn:E; cbn [bindr] in H; try discriminate.
    apply hist_step_inv in E; [|assumption]. destruct E as [J He1].
    destruct (hist r1 hs) as [[os' r2]| | |] eqn:E2; cbn [bindr] in H; try discriminate.
    injection H as <- <-. apply IH in E2; [|assumption]. destruct E2 as [F He2]. split; [constructor; assumption|assumption].
Qed.

Lemma create_rt_clean : forall d mr tick ml sl, r_err (create_rt d mr tick ml sl) = false /\ r_state (create_rt d mr tick ml sl) = StEmpty.
Proof. intros. split; reflexivity. Qed.

(* ================================================================== 11. try-catch: declines runtime errors, accepts throw *)
Lemma skipn_list_upd : forall {A} k (l:list A) x y, nth_error l k = Some y -> skipn k (list_upd l k x) = x :: skipn (S k) l.
Proof.
  induction k as [|k IH]; intros l x y H; destruct l; cbn in H; try discriminate; [reflexivity|].
  cbn [list_upd skipn]. eapply IH. eassumption.
Qed.

(* asked while the flag is up (a runtime error), a try-catch frame answers `error` and nothing changes *)
Theorem try_catch_declines_runtime_errors : forall r c k f h,
  nth_error (c_frames c) k = Some f -> f_err f = Some (ECatch h) -> r_err r = true ->
  err_enact r c k = Ok (true, r, c).
Proof.
  intros r c k f h Hn E He. apply (proj1 (err_enact_spec r c k f Hn)). eapply catch_frame_declines_runtime_error; eassumption.
Qed.

(* throw (the flag is down): the nearest try-catch frame takes it - frames above are dropped, the catch
   block runs from its start with _exception = the thrown value, nothing is logged *)
Theorem try_catch_accepts_throw : forall r c v k f h g,
  find_handler (c_frames c) 0 = Some k -> nth_error (c_frames c) k = Some f -> f_err f = Some (ECatch h) ->
  r_err r = false ->
  nth_error (c_frames c) 0 = Some g -> f_base g <= length (c_values c) ->
  exists c', op_throw r c v = Ok (r, c', VNil) /\
    c_frames c' = handler_frame f v :: skipn (S k) (c_frames c) /\
    f_code (handler_frame f v) = h /\ f_vars (handler_frame f v) = [("_exception"%string, v)] /\
    f_err (handler_frame f v) = None.
Proof.
  intros r c v k f h g Hf Hn E He Hg Hb. unfold op_throw. rewrite Hf.
  assert (Hn1: nth_error (c_frames (push_value c (VTrace v))) k = Some f) by exact Hn.
  destruct (proj2 (err_enact_spec r (push_value c (VTrace v)) k f Hn1)) as [c2 [exc [Ee [Hfr Hexc]]]].
  { eapply catch_frame_accepts_throw; eassumption. }
  rewrite Ee. cbn [bindr]. eexists. split; [reflexivity|].
  assert (Hp: pop_value (push_value c (VTrace v)) = Some (VTrace v, set_values (push_value c (VTrace v)) (c_values c))).
  { unfold pop_value. cbn [c_values push_value set_values c_frames].
    destruct (c_frames c) as [|g0 fs] eqn:Efs; [discriminate|]. cbn in Hg. injection Hg as ->.
    cbn [length]. destruct (Nat.leb (S (length (c_values c))) (f_base g)) eqn:El; [apply Nat.leb_le in El; lia|reflexivity]. }
  rewrite Hp in Hexc. unfold exception_value in Hexc. rewrite E in Hexc. subst exc.
  cbn [c_frames set_frames]. rewrite Hfr. cbn [c_frames push_value set_values].
  split; [eapply skipn_list_upd; eassumption|].
  unfold handler_frame, handler_code. rewrite E. repeat split.
Qed.

(* the flag is raised exactly by error-level diagnostics: what an instruction / frame.next() logged
   (s, newest first) decides the flag *)
Theorem instr_flag_iff_error_logged : forall i r c r' c', exec_instr i r c = Ok (r', c') ->
  exists s, r_out r' = s ++ r_out r /\ r_err r' = orb (has_err s) (r_err r).
Proof. intros. eapply exec_instr_ext. eassumption. Qed.
Theorem behaviour_flag_iff_error_logged : forall fuel r c fr r' c', frame_next fuel r c = Ok (fr, r', c') ->
  exists s, r_out r' = s ++ r_out r /\ r_err r' = orb (has_err s) (r_err r).
Proof. intros. eapply frame_next_ext. eassumption. Qed.

(* ================================================================== 12. after a failed run the embedder's abort leaves no script behind *)
Lemma finish_failed : forall r, let r' := finish_action RRuntimeError r in
  r_run r' = false /\ ((r_state r' = StHaltedError) \/ (r_state r' = StEmpty /\ r_ctxs r' = [])).
Proof.
  intros r. unfold finish_action, state_of_result. cbn.
  destruct (r_exit_req r); cbn; auto.
Qed.

(* sqfvm_call / the CLI: execute(start) reported runtime_error, the embedder issues abort - no context
   (hence no later statement of the failed script) survives into the next run, which starts on an empty runtime *)
Theorem failed_run_leaves_no_script : forall r r1 xa r2,
  execute AStart r = Ok (RRuntimeError, r1) -> execute AAbort r1 = Ok (xa, r2) ->
  r_ctxs r2 = [] /\ r_state r2 = StEmpty /\ r_run r2 = false.
Proof.
  intros r r1 xa r2 H Ha. cbn [execute] in H. destruct (r_run r); [discriminate H|].
  destruct (start_loop exec_fuel _ RInvalid) as [[x ra]| | |]; cbn [bindr] in H; try discriminate H.
  injection H as -> <-. destruct (finish_failed ra) as [Hrun [Hs|[Hs Hc]]]; cbn [execute] in Ha; rewrite Hs, ?Hrun in Ha.
  - injection Ha as _ <-. cbn. auto.
  - injection Ha as _ <-. auto.
Qed.
