(* C02 - the machine side of `throw`: one pass of execute_do that executes a throw instruction finds the innermost frame with
   an error handler, installs the handler's code in it (position 0, the variables replaced by _exception), drops the frames
   above it and leaves a nil on the operand stack; the running frame's part of the stack is cleared, the parts of the other
   abandoned frames stay where they are (frames are popped, not cleared: ops_generic.cpp throw_any). *)
From Coq Require Import String Ascii.
From Coq Require Import ZArith List Bool Lia.
From SqfVerif Require Import Gen.DiagCodes Gen.Overloads VM.VmDefs VM.VmExec VM.RefSem VM.SimDefs VM.SimProofs VM.SimBlock VM.SimCtl.
Import ListNotations.
Local Open Scope string_scope.
Local Open Scope list_scope.

(* the frame of a try block once its handler has taken over *)
Definition handler_frame (f:frame) (h:code) (x:value) : frame :=
  set_err (set_pos (set_code (set_vars f [("_exception", x)]) h) 0) None.

Lemma handler_frame_pos f p h x : handler_frame (set_pos f p) h x = handler_frame f h x.
Proof. reflexivity. Qed.
Lemma handler_frame_kept f f' h x : kept f f' -> handler_frame f' h x = handler_frame f h x.
Proof. intros K. rewrite <- K. reflexivity. Qed.

Lemma find_handler_app : forall inner ft rest k e, Forall (fun m => f_err m = None) inner -> f_err ft = Some e ->
  find_handler (inner ++ ft :: rest) k = Some (k + length inner).
Proof.
  induction inner as [|m inner IH]; intros ft rest k e HF HE; cbn [app find_handler length].
  - rewrite HE. f_equal. lia.
  - inversion HF as [|? ? HM HF']; subst. rewrite HM. rewrite (IH ft rest (S k) e HF' HE). f_equal. lia.
Qed.
Lemma list_upd_app_here {A} : forall (l:list A) x r y, list_upd (l ++ x :: r) (length l) y = l ++ y :: r.
Proof. induction l as [|a l IH]; intros x r y; cbn; [reflexivity|]. rewrite IH. reflexivity. Qed.
Lemma skipn_app_here {A} : forall (l r:list A), skipn (length l) (l ++ r) = r.
Proof. induction l as [|a l IH]; intros r; cbn; [reflexivity|apply IH]. Qed.

(* the frames between the running one and the handler's, as the instruction sees them (the running frame has moved on) *)
Lemma chain_moved f restf inner ft rest p h x :
  f :: restf = inner ++ ft :: rest -> Forall (fun m => f_err m = None) inner -> f_err ft = Some (ECatch h) ->
  exists inner' ft', set_pos f p :: restf = inner' ++ ft' :: rest /\ Forall (fun m => f_err m = None) inner' /\
    f_err ft' = Some (ECatch h) /\ handler_frame ft' h x = handler_frame ft h x /\ length inner' = length inner.
Proof.
  intros E HF HE. destruct inner as [|m inner]; cbn [app] in E.
  - inversion E; subst. exists [], (set_pos ft p). repeat split; [constructor|exact HE].
  - inversion E; subst. inversion HF as [|? ? HM HF']; subst. exists (set_pos m p :: inner), ft.
    repeat split; [constructor; [exact HM|exact HF']|exact HE].
Qed.

(* what the throw does to the context *)
Lemma op_throw_handled r c0 w vals f0 inner ft rest h :
  r_err r = false -> c_frames c0 = inner ++ ft :: rest -> hd ft inner = f0 -> c_values c0 = vals -> f_base f0 <= length vals ->
  Forall (fun m => f_err m = None) inner -> f_err ft = Some (ECatch h) ->
  op_throw r c0 w = Ok (r, set_values (set_frames c0 (handler_frame ft h w :: rest)) (skipn (length vals - f_base f0) vals), VNil).
Proof.
  intros RE EF HD EV B HF HE. unfold op_throw. rewrite EF, (find_handler_app inner ft rest 0 _ HF HE). cbn [Nat.add].
  unfold err_enact. cbn [push_value c_frames set_values]. rewrite EF, nth_error_mid, HE, RE.
  assert (TOP : exists restf, inner ++ ft :: rest = f0 :: restf).
  { destruct inner as [|m inner]; cbn in HD |- *; subst f0; eauto. }
  destruct TOP as [restf TOP].
  assert (P : pop_value (push_value c0 (VTrace w)) = Some (VTrace w, set_values (push_value c0 (VTrace w)) vals)).
  { unfold pop_value, push_value. cbn [c_values set_values c_frames]. rewrite EF, TOP, EV. cbn [length].
    destruct (Nat.leb_spec (S (length vals)) (f_base f0)) as [L|L]; [lia|reflexivity]. }
  rewrite P. unfold clear_values, push_value. cbn [c_frames set_values c_values]. rewrite EF, TOP. cbn [bindr].
  cbn [c_frames set_frames set_values c_values]. rewrite EF, list_upd_app_here, skipn_app_here.
  unfold handler_frame. destruct c0; reflexivity.
Qed.

Lemma op_unary_throw w r c : op_unary "throw" w r c = op_throw r c w.
Proof. reflexivity. Qed.
Lemma op_binary_throw_if w r c : op_binary "throw" (VIf true) w r c = op_throw r c w.
Proof. reflexivity. Qed.

(* one pass of execute_do at `throw v` (unary) *)
Lemma throw_run r c f restf pre post n' w vals inner ft rest h :
  Good r c -> c_frames c = f :: restf -> f_code f = pre ++ IUnary n' :: post -> f_pos f = length pre -> lower n' = "throw" ->
  c_values c = w :: vals -> w <> VNil -> f_base f <= length vals ->
  f :: restf = inner ++ ft :: rest -> Forall (fun m => f_err m = None) inner -> f_err ft = Some (ECatch h) ->
  let c' := push_value (set_values (set_frames c (handler_frame ft h w :: rest)) (skipn (length vals - f_base f) vals)) VNil in
  Steps r (upd_cur r c') /\ Good (upd_cur r c') c'.
Proof.
  intros G EF EC EP HN EV NW B CH HF HE c'.
  assert (N : nth_error (f_code f) (f_pos f) = Some (IUnary n')) by (rewrite EC, EP; apply nth_error_mid).
  destruct (chain_moved f restf inner ft rest (S (f_pos f)) h w CH HF HE) as (inner' & ft' & CH' & HF' & HE' & HH & LEN).
  apply (run_one r c f restf (IUnary n') c' G EF N).
  - eapply exec_unary_nonnil; [|exact NW|].
    + apply (pop_value_top _ (set_pos f (S (f_pos f))) restf); [reflexivity|exact EV|exact B].
    + rewrite HN, op_unary_throw.
      rewrite (op_throw_handled r _ w vals (set_pos f (S (f_pos f))) inner' ft' rest h); [|destruct G as (_ & _ & _ & E & _); exact E|exact CH'| |reflexivity|exact B|exact HF'|exact HE'].
      * rewrite HH. reflexivity.
      * destruct inner' as [|m i']; cbn in CH' |- *; inversion CH'; reflexivity.
  - destruct G as (_ & _ & _ & _ & _ & _ & SU). exact SU.
Qed.

(* ... and at `if c throw v` (binary, the condition true) *)
Lemma throw_if_run r c f restf pre post n' w vals inner ft rest h :
  Good r c -> c_frames c = f :: restf -> f_code f = pre ++ IBinary n' :: post -> f_pos f = length pre -> lower n' = "throw" ->
  c_values c = w :: VIf true :: vals -> w <> VNil -> f_base f <= length vals ->
  f :: restf = inner ++ ft :: rest -> Forall (fun m => f_err m = None) inner -> f_err ft = Some (ECatch h) ->
  let c' := push_value (set_values (set_frames c (handler_frame ft h w :: rest)) (skipn (length vals - f_base f) vals)) VNil in
  Steps r (upd_cur r c') /\ Good (upd_cur r c') c'.
Proof.
  intros G EF EC EP HN EV NW B CH HF HE c'.
  assert (N : nth_error (f_code f) (f_pos f) = Some (IBinary n')) by (rewrite EC, EP; apply nth_error_mid).
  destruct (chain_moved f restf inner ft rest (S (f_pos f)) h w CH HF HE) as (inner' & ft' & CH' & HF' & HE' & HH & LEN).
  apply (run_one r c f restf (IBinary n') c' G EF N).
  - eapply (exec_binary_nonnil n' (VIf true) w r _ (set_values (set_frames c (set_pos f (S (f_pos f)) :: restf)) (VIf true :: vals))); [|exact NW| |discriminate|].
    + apply (pop_value_top _ (set_pos f (S (f_pos f))) restf); [reflexivity|exact EV|cbn; lia].
    + rewrite (pop_value_top _ (set_pos f (S (f_pos f))) restf (VIf true) vals); [reflexivity|reflexivity|reflexivity|exact B].
    + rewrite HN, op_binary_throw_if.
      rewrite (op_throw_handled r _ w vals (set_pos f (S (f_pos f))) inner' ft' rest h); [|destruct G as (_ & _ & _ & E & _); exact E|exact CH'| |reflexivity|exact B|exact HF'|exact HE'].
      * rewrite HH. reflexivity.
      * destruct inner' as [|m i']; cbn in CH' |- *; inversion CH'; reflexivity.
  - destruct G as (_ & _ & _ & _ & _ & _ & SU). exact SU.
Qed.
