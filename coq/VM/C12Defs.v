(* C12 - specification side: what a round-robin scheduler pass has to do, stated over script ids, and the
   vocabulary of the C12 theorems. No proofs here. *)
From Coq Require Import List Arith Bool.
From SqfVerif Require Import VM.VmDefs VM.VmExec VM.SchedDefs.
Import ListNotations.

(* the ids of the scheduled scripts, in list order *)
Definition ids (r:rt) : list nat := map c_id (r_ctxs r).
(* ids are unique and below the next id to be handed out *)
Definition wf_ids (r:rt) : Prop := NoDup (ids r) /\ Forall (fun id => id < r_next_id r) (ids r).

(* a visited script stays scheduled iff its slice did not report it as finished *)
Definition kept (v:visit) : bool := match v_result v with ROk => true | _ => false end.
Definition finished (v:visit) : bool := match v_result v with REmpty => true | _ => false end.

(* The specification of one scheduler pass, in terms of its visit log (SchedDefs.visit, one entry per turn of
   the loop): a pass that starts with the scripts s1..sn (in list order) and runs to its end
     - gives a turn to s1, .., sn in this order, then to the scripts spawned during the pass in spawn order,
       each exactly once (pass_order),
     - and leaves scheduled exactly those whose turn did not end with "finished", in the same order
       (pass_survivors),
   whatever the slices do (finish, sleep, spawn, run on). The next pass starts with the survivors, so the turns
   of consecutive passes form the turns of a round-robin queue. *)
Definition pass_order (start_ids:list nat) (log:list visit) : Prop :=
  exists spawned, map v_id log = start_ids ++ spawned /\ NoDup (start_ids ++ spawned).
Definition pass_survivors (log:list visit) (end_ids:list nat) : Prop :=
  end_ids = map v_id (filter kept log).
